(* Theorems about Mtz::expand_to_p1 (model Move/Expand.v), for EVERY list of operations and every hkl:
   the original reflection and its appended copies are pairwise distinct and contain no Friedel pair;
   every image of the reflection under every operation is present itself or as its Friedel mate;
   every copy is the image under one of the operations with exactly that operation's phase shift, so
   the shifted phase is the true phase of the new index for any symmetry-consistent phase function. *)
From Coq Require Import Lia.
From GV Require Import Sym.AsuSpec Sym.SgProofs Move.Expand.
Local Open Scope Z_scope.

Lemma v3_eqb_false : forall a b, v3_eqb a b = false <-> a <> b.
Proof.
  intros a b. split.
  - intros H E. apply v3_eqb_true in E. rewrite E in H. discriminate.
  - intros H. destruct (v3_eqb a b) eqn:E; [|reflexivity]. apply v3_eqb_true in E. contradiction.
Qed.

Lemma neg_neg_v3 : forall a, neg_v3 (neg_v3 a) = a.
Proof. intros [[x y] z]. unfold neg_v3. f_equal; [f_equal|]; lia. Qed.

Lemma in_vector_spec : forall h l, in_vector h l = true <-> In h (map cp_hkl l).
Proof.
  intros h l. unfold in_vector. rewrite existsb_exists. split.
  - intros [c [Hc E]]. apply v3_eqb_true in E. subst. apply in_map. exact Hc.
  - intros H. apply in_map_iff in H. destruct H as [c [E Hc]]. exists c. split; [exact Hc|].
    apply v3_eqb_true. symmetry. exact E.
Qed.
Lemma in_vector_false : forall h l, in_vector h l = false <-> ~ In h (map cp_hkl l).
Proof.
  intros h l. split.
  - intros H Hin. apply in_vector_spec in Hin. rewrite Hin in H. discriminate.
  - intros H. destruct (in_vector h l) eqn:E; [|reflexivity]. apply in_vector_spec in E. contradiction.
Qed.

(* the set kept by the loop: the original index followed by the copies *)
Definition kept (hkl : v3) (copies : list copy) : list v3 := hkl :: map cp_hkl copies.

(* "no duplicates and no Friedel pairs": no element equals, or is the negative of, an element at another place *)
Definition friedel_free (l : list v3) : Prop :=
  forall i j a b, nth_error l i = Some a -> nth_error l j = Some b -> i <> j -> a <> b /\ a <> neg_v3 b.

Lemma friedel_free_snoc : forall l x, friedel_free l ->
  (forall a, In a l -> a <> x /\ a <> neg_v3 x) -> friedel_free (l ++ [x]).
Proof.
  intros l x Hl Hx i j a b Hi Hj Hij.
  assert (Hlen : forall k c, nth_error (l ++ [x]) k = Some c ->
            ((k < length l)%nat /\ nth_error l k = Some c) \/ (k = length l /\ c = x)).
  { intros k c Hk. destruct (Nat.lt_ge_cases k (length l)) as [Hlt|Hge].
    - left. split; [exact Hlt|]. rewrite nth_error_app1 in Hk by exact Hlt. exact Hk.
    - right. rewrite nth_error_app2 in Hk by exact Hge.
      destruct (k - length l)%nat as [|m] eqn:Em.
      + cbn in Hk. injection Hk as <-. split; [lia|reflexivity].
      + cbn in Hk. destruct m; discriminate. }
  destruct (Hlen i a Hi) as [[Hil Hia]|[Hil Hia]]; destruct (Hlen j b Hj) as [[Hjl Hjb]|[Hjl Hjb]].
  - exact (Hl i j a b Hia Hjb Hij).
  - subst b. apply Hx. eapply nth_error_In. exact Hia.
  - subst a. destruct (Hx b (nth_error_In _ _ Hjb)) as [H1 H2]. split.
    + intro E. apply H1. symmetry. exact E.
    + intro E. apply H2. rewrite E, neg_neg_v3. reflexivity.
  - lia.
Qed.

Section Loop.
  Variable hkl : v3.

  (* provenance of a copy: the image under an operation of the list, with that operation's shift *)
  Definition from_ops (ops : list op) (c : copy) : Prop :=
    exists o, In o ops /\ cp_hkl c = apply_to_hkl o hkl /\ cp_shift c = - dot hkl (tran o).

  Lemma kept_snoc : forall copies c, kept hkl (copies ++ [c]) = kept hkl copies ++ [cp_hkl c].
  Proof. intros. unfold kept. rewrite map_app. reflexivity. Qed.

  Lemma loop_invariant : forall ops copies all,
    friedel_free (kept hkl copies) ->
    (forall c, In c copies -> from_ops all c) ->
    (forall o, In o ops -> In o all) ->
    let r := expand_loop hkl ops copies in
    friedel_free (kept hkl r) /\
    (forall c, In c r -> from_ops all c) /\
    (forall a, In a (kept hkl copies) -> In a (kept hkl r)) /\
    (forall o, In o ops -> In (apply_to_hkl o hkl) (kept hkl r) \/ In (neg_v3 (apply_to_hkl o hkl)) (kept hkl r)).
  Proof.
    induction ops as [|o t IH]; intros copies all Hff Hprov Hsub; cbn [expand_loop].
    - split; [exact Hff|]. split; [exact Hprov|]. split; [intros a Ha; exact Ha|]. intros o [].
    - set (nh := apply_to_hkl o hkl). set (ng := neg_v3 nh).
      destruct (negb (v3_eqb nh hkl) && negb (in_vector nh copies) && negb (v3_eqb ng hkl) && negb (in_vector ng copies)) eqn:E.
      + (* a new copy is appended *)
        apply andb_prop in E. destruct E as [E E4]. apply andb_prop in E. destruct E as [E E3].
        apply andb_prop in E. destruct E as [E1 E2].
        apply Bool.negb_true_iff in E1, E2, E3, E4.
        apply v3_eqb_false in E1. apply v3_eqb_false in E3.
        apply in_vector_false in E2. apply in_vector_false in E4.
        set (c := mkCopy nh (- dot hkl (tran o))).
        assert (Hff' : friedel_free (kept hkl (copies ++ [c]))).
        { rewrite kept_snoc. apply friedel_free_snoc; [exact Hff|]. cbn [cp_hkl c].
          intros a [Ha|Ha].
          - subst a. split; [intro X; apply E1; symmetry; exact X|].
            intro X. apply E3. unfold ng. symmetry. exact X.
          - split; [intro X; subst a; contradiction|].
            intro X. apply E4. unfold ng. rewrite <- X. exact Ha. }
        assert (Hprov' : forall c0, In c0 (copies ++ [c]) -> from_ops all c0).
        { intros c0 Hc0. apply in_app_or in Hc0. destruct Hc0 as [Hc0|[<-|[]]]; [auto|].
          exists o. split; [apply Hsub; left; reflexivity|]. split; reflexivity. }
        destruct (IH (copies ++ [c]) all Hff' Hprov' (fun o' Ho' => Hsub o' (or_intror Ho'))) as [R1 [R2 [R3 R4]]].
        split; [exact R1|]. split; [exact R2|]. split.
        * intros a Ha. apply R3. rewrite kept_snoc. apply in_or_app. left. exact Ha.
        * intros o' [<-|Ho']; [|exact (R4 o' Ho')].
          left. apply R3. rewrite kept_snoc. apply in_or_app. right. left. reflexivity.
      + (* nothing appended: the image, or its mate, is already kept *)
        destruct (IH copies all Hff Hprov (fun o' Ho' => Hsub o' (or_intror Ho'))) as [R1 [R2 [R3 R4]]].
        split; [exact R1|]. split; [exact R2|]. split; [exact R3|].
        intros o' [<-|Ho']; [|exact (R4 o' Ho')].
        fold nh. fold ng.
        destruct (v3_eqb nh hkl) eqn:F1.
        { apply v3_eqb_true in F1. left. apply R3. left. symmetry. exact F1. }
        destruct (in_vector nh copies) eqn:F2.
        { apply in_vector_spec in F2. left. apply R3. right. exact F2. }
        destruct (v3_eqb ng hkl) eqn:F3.
        { apply v3_eqb_true in F3. right. apply R3. left. symmetry. exact F3. }
        destruct (in_vector ng copies) eqn:F4.
        { apply in_vector_spec in F4. right. apply R3. right. exact F4. }
        cbn in E. discriminate.
  Qed.
End Loop.

Lemma friedel_free_single : forall h, friedel_free [h].
Proof.
  intros h i j a b Hi Hj Hij. destruct i as [|i]; destruct j as [|j]; try lia;
  cbn in Hi, Hj; try (destruct i; discriminate); destruct j; discriminate.
Qed.

(* the statements for one reflection and any operation list whose first element is skipped *)
Theorem expand_entry_spec : forall g hkl,
  let r := expand_entry g hkl in
  friedel_free (kept hkl r) /\
  (forall c, In c r -> from_ops hkl (tl (sym_ops g)) c) /\
  (forall o, In o (tl (sym_ops g)) ->
     In (apply_to_hkl o hkl) (kept hkl r) \/ In (neg_v3 (apply_to_hkl o hkl)) (kept hkl r)).
Proof.
  intros g hkl. unfold expand_entry.
  destruct (loop_invariant hkl (tl (sym_ops g)) [] (tl (sym_ops g)) (friedel_free_single hkl)
              (fun c (H : In c []) => match H with end) (fun o H => H)) as [R1 [R2 [_ R4]]].
  split; [exact R1|]. split; [exact R2|exact R4].
Qed.

(* the identity, which the loop skips, maps hkl to itself *)
Lemma apply_identity_like : forall o h, op_eqb o identity = true -> apply_to_hkl o h = h.
Proof.
  intros o [[x y] z] H. unfold op_eqb in H. apply andb_prop in H. destruct H as [Hr _].
  unfold m33_eqb in Hr. destruct o as [[[r0 r1] r2] t n]. cbn [rot] in Hr.
  unfold identity, id_rot in Hr. cbn [rot] in Hr.
  destruct r0 as [[a0 b0] c0]. destruct r1 as [[a1 b1] c1]. destruct r2 as [[a2 b2] c2].
  unfold v3_eqb in Hr.
  repeat match goal with H : (_ && _) = true |- _ => apply andb_prop in H; destruct H end.
  repeat match goal with H : (_ =? _) = true |- _ => apply Z.eqb_eq in H; subst end.
  unfold apply_to_hkl, apply_to_hkl_nodiv, divide_hkl, map_v3, cdiv, col, dot, DEN. cbn [rot].
  assert (Q : forall v e, e = v * 24 -> Z.quot e 24 = v) by (intros v e ->; apply Z.quot_mul; lia).
  f_equal; [f_equal|]; apply Q; ring.
Qed.

(* whole orbit, table rows: every image under every symmetry operation of the group (identity included) is in
   the expanded data itself or as its Friedel mate; nothing is there twice *)
Theorem table_expand_covers_orbit : forall r g, In r sg_table -> operations r = HOk g ->
  forall hkl o, In o (sym_ops g) ->
    In (apply_to_hkl o hkl) (kept hkl (expand_entry g hkl)) \/
    In (neg_v3 (apply_to_hkl o hkl)) (kept hkl (expand_entry g hkl)).
Proof.
  intros r g Hin Hop hkl o Ho.
  destruct (table_groups r Hin) as [g' [E S]]. rewrite Hop in E. injection E as <-.
  destruct (gs_identity_first _ _ S) as [s0 [rest [Eq Hid]]].
  destruct (expand_entry_spec g hkl) as [_ [_ Hcov]].
  rewrite Eq in Ho. destruct Ho as [<-|Ho].
  - left. rewrite (apply_identity_like s0 hkl Hid). left. reflexivity.
  - apply Hcov. rewrite Eq. exact Ho.
Qed.

(* phases: the stored phase plus the copy's shift is the true phase of the copy's index *)
Theorem expand_phase_correct : forall g (phi : v3 -> Z),
  (forall o h, In o (sym_ops g) ->
     (phi (divide_hkl (apply_to_hkl_nodiv o h)) - (phi h - dot h (tran o))) mod 24 = 0) ->
  forall hkl c, In c (expand_entry g hkl) -> (phi hkl + cp_shift c - phi (cp_hkl c)) mod 24 = 0.
Proof.
  intros g phi Hrot hkl c Hc.
  destruct (expand_entry_spec g hkl) as [_ [Hprov _]].
  destruct (Hprov c Hc) as [o [Ho [Eh Es]]].
  assert (Ho' : In o (sym_ops g)) by (destruct (sym_ops g); [destruct Ho|right; exact Ho]).
  pose proof (Hrot o hkl Ho') as H. rewrite Eh, Es. unfold apply_to_hkl.
  set (p1 := phi (divide_hkl (apply_to_hkl_nodiv o hkl))) in *. set (p0 := phi hkl) in *.
  set (d := dot hkl (tran o)) in *. clearbody p1 p0 d.
  replace (p0 + - d - p1) with (- (p1 - (p0 - d))) by ring.
  set (x := p1 - (p0 - d)) in *. clearbody x.
  rewrite Z.mod_opp_l_z; [reflexivity|lia|exact H].
Qed.
