(* Model of the index/phase bookkeeping of Mtz::expand_to_p1 (src/mtz.cpp) for one reflection:
   the loop over sym_ops (identity skipped) that appends a copy for every image that is new up to
   the Friedel mate. Executable definitions only. *)
From GV Require Export Move.Move.
Local Open Scope Z_scope.

Record copy := mkCopy {
  cp_hkl : v3;      (* index of the appended row: op->apply_to_hkl(hkl) *)
  cp_shift : Z      (* op->phase_shift(hkl) in 1/24 turn: -(h.t), added to the phase columns *)
}.

Definition in_vector (h : v3) (l : list copy) : bool := existsb (fun c => v3_eqb h (cp_hkl c)) l.

(* for (op = sym_ops.begin() + 1; ...) { new_hkl = op->apply_to_hkl(hkl); negated = -new_hkl;
     if (new_hkl != hkl && !in_vector(new_hkl, hkl_copies) && negated != hkl && !in_vector(negated, hkl_copies))
       hkl_copies.push_back(new_hkl); append row with shifted phase } *)
Fixpoint expand_loop (hkl : v3) (ops : list op) (copies : list copy) : list copy :=
  match ops with
  | [] => copies
  | o :: t =>
    let nh := apply_to_hkl o hkl in
    let ng := neg_v3 nh in
    if negb (v3_eqb nh hkl) && negb (in_vector nh copies) && negb (v3_eqb ng hkl) && negb (in_vector ng copies)
    then expand_loop hkl t (copies ++ [mkCopy nh (- dot hkl (tran o))])
    else expand_loop hkl t copies
  end.

Definition expand_entry (g : gops) (hkl : v3) : list copy := expand_loop hkl (tl (sym_ops g)) [].
