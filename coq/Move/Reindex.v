(* Re-indexing (Mtz::reindex): reflections are relabelled h' = h P, the operations of the group become
   g' = P^-1 g P (GroupOps::change_basis_backward), with P = rot(xyz_op)/24 and no translation.  Everything is kept
   in the library's integer arithmetic: rotations scaled by DEN = 24, the divisions that the code performs are
   hypotheses of exactness (a row whose new index is fractional is removed by the code; the products of a valid change
   of basis are representable).  Proved: the relabelled group acts on the relabelled indices exactly as the old group
   acted on the old ones - same equivalences, same phase shifts, hence same absences - and the inverse operator
   restores the indices. *)
From Coq Require Import Lia.
From GV Require Import Sym.Op Sym.OpProofs Sym.Asu.
Local Open Scope Z_scope.

(* row vector times matrix = apply_to_hkl_without_division *)
Definition vm (h : v3) (m : m33) : v3 := mat_vec_raw (transpose m) h.
Definition sI (k : Z) : m33 := ((k,0,0),(0,k,0),(0,0,k)).
Definition sM (k : Z) (m : m33) : m33 := map_m33 (fun x => k * x) m.

Lemma vm_is_apply : forall a h, apply_to_hkl_nodiv a h = vm h (rot a).
Proof. intros a h. apply apply_to_hkl_is_transpose. Qed.

Ltac mx := repeat match goal with
  | m : m33 |- _ => destruct m as [[[[? ?] ?] [[? ?] ?]] [[? ?] ?]]
  | v : v3 |- _ => destruct v as [[? ?] ?]
  end.
Ltac comps := repeat match goal with |- (_, _) = (_, _) => apply f_equal2 end.

Lemma vm_vm : forall h m n, vm (vm h m) n = vm h (mat_mul_raw m n).
Proof. intros h m n. mx. cbn. comps; ring. Qed.
Lemma vm_scale_l : forall k h m, vm (scale_v3 k h) m = scale_v3 k (vm h m).
Proof. intros k h m. mx. unfold sI, sM, vm. cbn. comps; ring. Qed.
Lemma vm_scale_r : forall k h m, vm h (sM k m) = scale_v3 k (vm h m).
Proof. intros k h m. mx. unfold sI, sM, vm. cbn. comps; ring. Qed.
Lemma vm_sI : forall k h, vm h (sI k) = scale_v3 k h.
Proof. intros k h. mx. unfold sI, vm. cbn. comps; ring. Qed.
Lemma mm_assoc4 : forall a b g c,
  mat_mul_raw a (mat_mul_raw (mat_mul_raw b g) c) = mat_mul_raw (mat_mul_raw a b) (mat_mul_raw g c).
Proof. intros a b g c. mx. cbn. comps; ring. Qed.
Lemma mm_sI_l : forall k m, mat_mul_raw (sI k) m = sM k m.
Proof. intros k m. mx. unfold sI, sM. cbn. comps; ring. Qed.
Lemma scale_scale : forall a b h, scale_v3 a (scale_v3 b h) = scale_v3 (a * b) h.
Proof. intros a b h. mx. cbn. comps; ring. Qed.
Lemma scale_cancel : forall k a b, k <> 0 -> scale_v3 k a = scale_v3 k b -> a = b.
Proof.
  intros k a b Hk E. mx. cbn in E. injection E as E1 E2 E3. comps; nia.
Qed.
Lemma dot_vm : forall h m t, dot (vm h m) t = dot h (mat_vec_raw m t).
Proof. intros h m t. mx. cbn. ring. Qed.
Lemma dot_scale_l : forall k a b, dot (scale_v3 k a) b = k * dot a b.
Proof. intros k a b. mx. cbn. ring. Qed.
Lemma mv_mm : forall a b t, mat_vec_raw a (mat_vec_raw b t) = mat_vec_raw (mat_mul_raw a b) t.
Proof. intros a b t. mx. cbn. comps; ring. Qed.
Lemma mv_sI : forall k t, mat_vec_raw (sI k) t = scale_v3 k t.
Proof. intros k t. mx. unfold sI. cbn. comps; ring. Qed.
Lemma dot_scale_r : forall k a b, dot a (scale_v3 k b) = k * dot a b.
Proof. intros k a b. mx. cbn. ring. Qed.

Section Reindex.
  (* A = rot(xyz_op), B = rot(xyz_op^-1): exact inverses in 1/24 units *)
  Variables A B : m33.
  Hypothesis AB : mat_mul_raw A B = sI 576.

  (* an operation of the old group and its image under the change of basis: 576 G' = B G A (both divisions exact),
     24 * 24 t' = 24 B t (translation of P^-1 g P before wrapping; P has no translation) *)
  Variables G G' : m33.
  Hypothesis HG : mat_mul_raw (mat_mul_raw B G) A = sM 576 G'.
  Variables t t' : v3.
  Hypothesis Ht : mat_vec_raw B t = scale_v3 24 t'.

  (* a reflection and its new label: 24 h' = h A (the row is kept only if this division is exact) *)
  Variables h h' : v3.
  Hypothesis Hh : vm h A = scale_v3 24 h'.

  (* the new group moves the new label where the old group moved the old label, relabelled *)
  Theorem reindex_equivalence : scale_v3 24 (vm h' G') = vm (vm h G) A.
  Proof.
    apply (scale_cancel 576); [lia|].
    rewrite scale_scale. replace (576 * 24) with (24 * 576) by ring. rewrite <- scale_scale.
    rewrite <- vm_scale_r, <- HG, <- vm_scale_l, <- Hh, vm_vm, mm_assoc4, AB, mm_sI_l, vm_scale_r, <- vm_vm.
    reflexivity.
  Qed.

  (* with the same phase shift *)
  Theorem reindex_phase : dot h' t' = dot h t.
  Proof.
    assert (E : 576 * dot h' t' = 576 * dot h t); [|lia].
    replace (576 * dot h' t') with (dot (scale_v3 24 h') (scale_v3 24 t'))
      by (rewrite dot_scale_l, dot_scale_r; ring).
    rewrite <- Hh, <- Ht, dot_vm, mv_mm, AB, mv_sI, dot_scale_r. reflexivity.
  Qed.

  (* hence: g fixes h  <->  g' fixes h' (the condition in absences, centricity, epsilon) - one direction needs B A too *)
  Theorem reindex_fixed : vm h G = scale_v3 24 h -> vm h' G' = scale_v3 24 h'.
  Proof.
    intros F. apply (scale_cancel 24); [lia|]. rewrite reindex_equivalence, F, vm_scale_l, Hh. reflexivity.
  Qed.

  (* the inverse operator gives the old label back *)
  Theorem reindex_undone : vm h' B = scale_v3 24 h.
  Proof.
    apply (scale_cancel 24); [lia|]. rewrite <- vm_scale_l, <- Hh, vm_vm, AB, vm_sI, scale_scale. reflexivity.
  Qed.
End Reindex.

Lemma mm_sM_l : forall k m x, mat_mul_raw (sM k m) x = sM k (mat_mul_raw m x).
Proof. intros k m x. mx. unfold sM. cbn. comps; ring. Qed.
Lemma sM_sM : forall a b m, sM a (sM b m) = sM (a * b) m.
Proof. intros a b m. mx. unfold sM. cbn. comps; ring. Qed.

Lemma div24_v : forall v, all3 div24 v -> v = scale_v3 24 (map_v3 (fun x => cdiv x DEN) v).
Proof.
  intros [[a b] c] [[qa ->] [[qb ->] [qc ->]]]. unfold scale_v3, map_v3, DEN. rewrite !cdiv_exact. reflexivity.
Qed.
Lemma div24_m : forall m, (let '(r0,r1,r2) := m in all3 div24 r0 /\ all3 div24 r1 /\ all3 div24 r2) ->
  m = sM 24 (map_m33 (fun x => cdiv x DEN) m).
Proof.
  intros [[r0 r1] r2] [H0 [H1 H2]]. unfold sM, map_m33.
  rewrite (div24_v r0 H0) at 1. rewrite (div24_v r1 H1) at 1. rewrite (div24_v r2 H2) at 1. reflexivity.
Qed.

(* in terms of the operators: g' = wrap(combine'(combine' Xi g) X) as GroupOps::change_basis_impl computes it *)
Theorem reindex_ops : forall X Xi g h h',
  tran X = (0,0,0) -> tran Xi = (0,0,0) ->
  mat_mul_raw (rot X) (rot Xi) = sI 576 ->
  representable Xi g -> representable (combine' Xi g) X ->
  apply_to_hkl_nodiv X h = scale_v3 24 h' ->
  let g' := op_mul (combine' Xi g) X in
  scale_v3 24 (apply_to_hkl_nodiv g' h') = apply_to_hkl_nodiv X (apply_to_hkl_nodiv g h) /\
  (dot h' (tran g') - dot h (tran g)) mod 24 = 0 /\
  apply_to_hkl_nodiv Xi h' = scale_v3 24 h.
Proof.
  intros X Xi g h h' TX TXi AB R1 R2 Hh g'.
  rewrite !vm_is_apply in *.
  destruct R1 as [R1r R1t]. destruct R2 as [R2r R2t].
  assert (E1 : mat_mul_raw (rot Xi) (rot g) = sM 24 (rot (combine' Xi g))).
  { unfold combine'. cbn [rot]. apply div24_m. exact R1r. }
  assert (E2 : mat_mul_raw (rot (combine' Xi g)) (rot X) = sM 24 (rot g')).
  { unfold g', op_mul, wrap. cbn [rot]. unfold combine' at 2. cbn [rot]. apply div24_m. exact R2r. }
  assert (HG : mat_mul_raw (mat_mul_raw (rot Xi) (rot g)) (rot X) = sM 576 (rot g')).
  { rewrite E1, mm_sM_l, E2, sM_sM. reflexivity. }
  split; [|split].
  - exact (reindex_equivalence (rot X) (rot Xi) AB (rot g) (rot g') HG h h' Hh).
  - set (t1 := tran (combine' Xi g)) in *.
    assert (Et1 : mat_vec_raw (rot Xi) (tran g) = scale_v3 24 t1).
    { unfold t1, combine'. cbn [tran]. rewrite TXi in *.
      assert (Z0 : forall v, add_v3 (map_v3 (fun x => x * DEN) (0,0,0)) v = v) by (intros [[? ?] ?]; cbn; reflexivity).
      rewrite Z0 in *. apply div24_v. exact R1t. }
    pose proof (reindex_phase (rot X) (rot Xi) AB (tran g) t1 Et1 h h' Hh) as Ph.
    assert (Etg : exists k0 k1 k2, tran g' = (fst (fst t1) + 24 * k0, snd (fst t1) + 24 * k1, snd t1 + 24 * k2)).
    { unfold g', op_mul, wrap, wrapped_tran. cbn [tran]. unfold combine' at 1. cbn [tran]. fold t1. rewrite TX.
      assert (Z0 : forall m, mat_vec_raw m (0,0,0) = (0,0,0)) by (intros m; mx; cbn; comps; ring).
      rewrite Z0. destruct t1 as [[a b] c]. cbn [add_v3 map_v3]. unfold DEN.
      replace (a * 24 + 0) with (24 * a) by ring. replace (b * 24 + 0) with (24 * b) by ring.
      replace (c * 24 + 0) with (24 * c) by ring.
      rewrite !cdiv_exact, !wrap1_mod.
      exists (- (a / 24)), (- (b / 24)), (- (c / 24)). cbn [fst snd].
      pose proof (Z.div_mod a 24 ltac:(lia)). pose proof (Z.div_mod b 24 ltac:(lia)). pose proof (Z.div_mod c 24 ltac:(lia)).
      comps; lia. }
    destruct Etg as [k0 [k1 [k2 Etg]]]. rewrite Etg. rewrite <- Ph.
    destruct h' as [[x y] z]. destruct t1 as [[a b] c]. cbn [dot fst snd].
    replace (x * (a + 24 * k0) + y * (b + 24 * k1) + z * (c + 24 * k2) - (x * a + y * b + z * c))
      with ((x * k0 + y * k1 + z * k2) * 24) by ring.
    apply Z.mod_mul. lia.
  - exact (reindex_undone (rot X) (rot Xi) AB h h' Hh).
Qed.

(* non-vacuity: P 1 21 1 (2_1 along b) re-indexed with the cyclic operator (axes c,a,b): the hypotheses hold for the
   screw operation and the reflection 0 1 0, whose new label is 0 0 1; its phase shift 12/24 is unchanged *)
Definition ex_X : op := mkOp ((0,24,0),(0,0,24),(24,0,0)) (0,0,0) 120.
Definition ex_Xi : op := mkOp ((0,0,24),(24,0,0),(0,24,0)) (0,0,0) 120.
Definition ex_g : op := mkOp ((-24,0,0),(0,24,0),(0,0,-24)) (0,12,0) 120.
Example reindex_hypotheses_hold :
  tran ex_X = (0,0,0) /\ tran ex_Xi = (0,0,0) /\ mat_mul_raw (rot ex_X) (rot ex_Xi) = sI 576 /\
  representable ex_Xi ex_g /\ representable (combine' ex_Xi ex_g) ex_X /\
  apply_to_hkl_nodiv ex_X (0,1,0) = scale_v3 24 (0,0,1) /\
  tran (op_mul (combine' ex_Xi ex_g) ex_X) = (0,0,12) /\ dot (0,1,0) (tran ex_g) = 12.
Proof.
  repeat split; try reflexivity;
    cbn; repeat split; match goal with |- div24 ?z => exists (z / 24); reflexivity end.
Qed.
