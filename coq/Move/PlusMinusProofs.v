(* Proofs about Move/PlusMinus.v: what positions_of_plus_minus_columns returns, and what the swap does to a row. *)
From Coq Require Import Lia.
From GV Require Import Move.PlusMinus.
Local Open Scope Z_scope.

Lemma pm_str_eqb_iff : forall a b, str_eqb a b = true <-> a = b.
Proof.
  induction a as [|x a IH]; intros [|y b]; simpl; split; intro H; try discriminate; try reflexivity.
  - apply andb_true_iff in H. destruct H as [H1 H2]. apply Z.eqb_eq in H1. apply IH in H2. congruence.
  - injection H as -> ->. rewrite Z.eqb_refl. simpl. apply IH. reflexivity.
Qed.

(* ---- find("(+)") is the first occurrence ---- *)
Lemma find_plus_some : forall s p, find_plus s = Some p ->
  starts_plus (skipn p s) = true /\ forall q, (q < p)%nat -> starts_plus (skipn q s) = false.
Proof.
  induction s as [|c t IH]; intros p H.
  - discriminate.
  - cbn [find_plus] in H. destruct (starts_plus (c :: t)) eqn:E.
    + injection H as <-. split; [exact E|]. intros q Hq. lia.
    + destruct (find_plus t) as [p'|] eqn:F; [|discriminate]. simpl in H. injection H as <-.
      destruct (IH p' eq_refl) as [H1 H2]. split; [exact H1|].
      intros [|q] Hq; [exact E|]. apply H2. lia.
Qed.

Lemma find_plus_none : forall s, find_plus s = None -> forall q, starts_plus (skipn q s) = false.
Proof.
  induction s as [|c t IH]; intros H q.
  - destruct q; reflexivity.
  - cbn [find_plus] in H. destruct (starts_plus (c :: t)) eqn:E; [discriminate|].
    destruct (find_plus t) eqn:F; [discriminate|]. destruct q; [exact E|]. apply IH. reflexivity.
Qed.

Lemma find_plus_complete : forall s q, starts_plus (skipn q s) = true -> exists p, find_plus s = Some p /\ (p <= q)%nat.
Proof.
  intros s q H. destruct (find_plus s) as [p|] eqn:F.
  - exists p. split; [reflexivity|]. destruct (find_plus_some s p F) as [_ H2].
    destruct (Nat.le_gt_cases p q) as [L|L]; [exact L|]. rewrite (H2 q L) in H. discriminate.
  - rewrite (find_plus_none s F q) in H. discriminate.
Qed.

Lemma starts_plus_iff : forall s, starts_plus s = true <-> exists t, s = 40 :: 43 :: 41 :: t.
Proof.
  intros s. split.
  - intros H. destruct s as [|a [|b [|c t]]]; try discriminate. simpl in H.
    apply andb_true_iff in H. destruct H as [H H3]. apply andb_true_iff in H. destruct H as [H1 H2].
    apply Z.eqb_eq in H1, H2, H3. subst. exists t. reflexivity.
  - intros [t ->]. reflexivity.
Qed.

(* ---- set_at ---- *)
Lemma set_at_length : forall n c s, length (set_at n c s) = length s.
Proof. induction n as [|n IH]; intros c [|x t]; simpl; auto. Qed.

Lemma nth_set_at_same : forall n c s, (n < length s)%nat -> nth n (set_at n c s) 0 = c.
Proof. induction n as [|n IH]; intros c [|x t] H; simpl in *; try lia; auto. apply IH. lia. Qed.

Lemma nth_set_at_other : forall n m c s, n <> m -> nth m (set_at n c s) 0 = nth m s 0.
Proof.
  induction n as [|n IH]; intros m c [|x t] H; simpl; auto.
  - destruct m; [congruence|reflexivity].
  - destruct m; [reflexivity|]. apply IH. congruence.
Qed.

Lemma nth_skipn_Z : forall (s : str) p k, nth k (skipn p s) 0 = nth (p + k) s 0.
Proof.
  intros s p. revert s. induction p as [|p IH]; intros s k; [reflexivity|].
  destruct s as [|x t]; simpl; [destruct k; reflexivity|]. apply IH.
Qed.

(* the minus label differs from the label exactly in the sign character *)
Lemma minus_label_spec : forall s p, find_plus s = Some p ->
  length (minus_label s p) = length s /\
  nth (S p) s 0 = 43 /\ nth (S p) (minus_label s p) 0 = 45 /\
  forall k, k <> S p -> nth k (minus_label s p) 0 = nth k s 0.
Proof.
  intros s p F. destruct (find_plus_some s p F) as [H _].
  apply starts_plus_iff in H. destruct H as [t Ht].
  assert (N1 : nth (S p) s 0 = 43).
  { replace (S p) with (p + 1)%nat by lia. rewrite <- nth_skipn_Z. rewrite Ht. reflexivity. }
  assert (Len : (S p < length s)%nat).
  { destruct (Nat.le_gt_cases (length s) (S p)) as [L|L]; [|exact L].
    rewrite (nth_overflow s 0 L) in N1. discriminate. }
  unfold minus_label. split; [apply set_at_length|]. split; [exact N1|]. split.
  - apply nth_set_at_same. exact Len.
  - intros k Hk. apply nth_set_at_other. congruence.
Qed.

Lemma minus_label_differs : forall s p, find_plus s = Some p -> minus_label s p <> s.
Proof.
  intros s p F E. destruct (minus_label_spec s p F) as [_ [H1 [H2 _]]]. rewrite E in H2. congruence.
Qed.

(* ---- find_index: the first element satisfying f ---- *)
Lemma find_index_some : forall A (f : A -> bool) l k j, find_index f l k = Some j ->
  (k <= j)%nat /\ exists x, nth_error l (j - k) = Some x /\ f x = true /\
  forall n y, (n < j - k)%nat -> nth_error l n = Some y -> f y = false.
Proof.
  intros A f. induction l as [|x t IH]; intros k j H; [discriminate|].
  cbn [find_index] in H. destruct (f x) eqn:E.
  - injection H as <-. split; [lia|]. exists x. rewrite Nat.sub_diag. simpl. split; [reflexivity|].
    split; [exact E|]. intros n y Hn. lia.
  - destruct (IH (S k) j H) as [L [y [H1 [H2 H3]]]]. split; [lia|]. exists y.
    replace (j - k)%nat with (S (j - S k)) by lia. simpl. split; [exact H1|]. split; [exact H2|].
    intros [|n] z Hn Hz; simpl in Hz.
    + injection Hz as <-. exact E.
    + apply (H3 n z); [lia|exact Hz].
Qed.

Lemma find_index_complete : forall A (f : A -> bool) l n x k, nth_error l n = Some x -> f x = true ->
  exists j, find_index f l k = Some j /\ (j <= k + n)%nat.
Proof.
  intros A f. induction l as [|y t IH]; intros n x k H Hf; [destruct n; discriminate|].
  cbn [find_index]. destruct (f y) eqn:E.
  - exists k. split; [reflexivity|lia].
  - destruct n as [|n]; simpl in H.
    + injection H as ->. congruence.
    + destruct (IH n x (S k) H Hf) as [j [H1 H2]]. exists j. split; [exact H1|lia].
Qed.

(* ---- what the pair list holds ---- *)
Definition is_minus_of (c d : column) : Prop :=
  exists p, find_plus (c_label c) = Some p /\ c_label d = minus_label (c_label c) p /\
            c_type d = c_type c /\ c_ds d = c_ds c.

Lemma col_match_iff : forall c p d, col_match c (minus_label (c_label c) p) d = true <->
  c_label d = minus_label (c_label c) p /\ c_type d = c_type c /\ c_ds d = c_ds c.
Proof.
  intros c p d. unfold col_match. rewrite !andb_true_iff, pm_str_eqb_iff, !Z.eqb_eq. tauto.
Qed.

Lemma pm_pairs_from_sound : forall all cols i a b, In (a, b) (pm_pairs_from all cols i) ->
  (i <= a)%nat /\ exists c d p, nth_error cols (a - i) = Some c /\ nth_error all b = Some d /\
    find_plus (c_label c) = Some p /\ col_match c (minus_label (c_label c) p) d = true /\
    forall n y, (n < b)%nat -> nth_error all n = Some y -> col_match c (minus_label (c_label c) p) y = false.
Proof.
  intros all. induction cols as [|c rest IH]; intros i a b H; [destruct H|].
  cbn [pm_pairs_from] in H.
  assert (Tail : In (a, b) (pm_pairs_from all rest (S i)) ->
    (i <= a)%nat /\ exists c0 d p, nth_error (c :: rest) (a - i) = Some c0 /\ nth_error all b = Some d /\
      find_plus (c_label c0) = Some p /\ col_match c0 (minus_label (c_label c0) p) d = true /\
      forall n y, (n < b)%nat -> nth_error all n = Some y -> col_match c0 (minus_label (c_label c0) p) y = false).
  { intros HT. destruct (IH (S i) a b HT) as [L [c0 [d [p [H1 R]]]]]. split; [lia|].
    exists c0, d, p. replace (a - i)%nat with (S (a - S i)) by lia. simpl. split; [exact H1|exact R]. }
  destruct (find_plus (c_label c)) as [p|] eqn:F; [|exact (Tail H)].
  destruct (find_index (col_match c (minus_label (c_label c) p)) all 0) as [j|] eqn:G; [|exact (Tail H)].
  destruct H as [H|H]; [|exact (Tail H)].
  injection H as <- <-. split; [lia|].
  destruct (find_index_some _ _ _ _ _ G) as [_ [d [H1 [H2 H3]]]]. rewrite Nat.sub_0_r in H1, H3.
  exists c, d, p. rewrite Nat.sub_diag. simpl. repeat split; auto.
Qed.

Lemma pm_pairs_from_complete : forall all cols i n c p m d,
  nth_error cols n = Some c -> find_plus (c_label c) = Some p ->
  nth_error all m = Some d -> col_match c (minus_label (c_label c) p) d = true ->
  exists j, In ((i + n)%nat, j) (pm_pairs_from all cols i) /\ (j <= m)%nat.
Proof.
  intros all. induction cols as [|c0 rest IH]; intros i n c p m d Hn F Hm M; [destruct n; discriminate|].
  cbn [pm_pairs_from]. destruct n as [|n]; simpl in Hn.
  - injection Hn as ->. rewrite F.
    destruct (find_index_complete _ _ _ _ _ 0%nat Hm M) as [j [G L]]. rewrite G.
    exists j. rewrite Nat.add_0_r. split; [left; reflexivity|lia].
  - destruct (IH (S i) n c p m d Hn F Hm M) as [j [H1 H2]].
    exists j. replace (i + S n)%nat with (S i + n)%nat by lia. split; [|exact H2].
    destruct (find_plus (c_label c0)); [|exact H1].
    destruct (find_index _ all 0); [right; exact H1|exact H1].
Qed.

(* soundness: every reported pair is a (+) column with the FIRST column (anywhere in the file, before or after it)
   that carries the corresponding (-) label in the same dataset with the same type; the two are different columns *)
Theorem pm_pairs_sound : forall cols i j, In (i, j) (pm_pairs cols) ->
  exists c d, nth_error cols i = Some c /\ nth_error cols j = Some d /\ is_minus_of c d /\ i <> j /\
    forall n y, (n < j)%nat -> nth_error cols n = Some y -> ~ is_minus_of c y.
Proof.
  intros cols i j H. destruct (pm_pairs_from_sound cols cols 0 i j H) as [_ [c [d [p [H1 [H2 [F [M Hfirst]]]]]]]].
  rewrite Nat.sub_0_r in H1. exists c, d. split; [exact H1|]. split; [exact H2|].
  apply col_match_iff in M. destruct M as [M1 [M2 M3]].
  split; [exists p; auto|]. split.
  - intros ->. rewrite H1 in H2. injection H2 as ->. apply (minus_label_differs _ _ F). symmetry. exact M1.
  - intros n y Hn Hy [p' [F' [L1 [L2 L3]]]]. rewrite F in F'. injection F' as <-.
    assert (col_match c (minus_label (c_label c) p) y = true) by (apply col_match_iff; auto).
    rewrite (Hfirst n y Hn Hy) in H0. discriminate.
Qed.

(* completeness: a (+) column whose (-) partner exists ANYWHERE in the file gets a pair *)
Theorem pm_pairs_complete : forall cols i c m d,
  nth_error cols i = Some c -> nth_error cols m = Some d -> is_minus_of c d ->
  exists j, In (i, j) (pm_pairs cols) /\ (j <= m)%nat.
Proof.
  intros cols i c m d Hi Hm [p [F [L1 [L2 L3]]]].
  assert (M : col_match c (minus_label (c_label c) p) d = true) by (apply col_match_iff; auto).
  destruct (pm_pairs_from_complete cols cols 0 i c p m d Hi F Hm M) as [j [H1 H2]].
  exists j. split; [exact H1|exact H2].
Qed.

(* each (+) column is listed at most once, in file order *)
Lemma pm_pairs_from_fst_sorted : forall all cols i,
  forall a b, In (a, b) (pm_pairs_from all cols i) -> (i <= a)%nat.
Proof. intros all cols i a b H. apply (pm_pairs_from_sound all cols i a b H). Qed.

Lemma pm_pairs_from_fst_nodup : forall all cols i, NoDup (map fst (pm_pairs_from all cols i)).
Proof.
  intros all. induction cols as [|c rest IH]; intros i; [constructor|].
  cbn [pm_pairs_from]. destruct (find_plus (c_label c)); [|apply IH].
  destruct (find_index _ all 0); [|apply IH].
  simpl. constructor; [|apply IH].
  intros H. apply in_map_iff in H. destruct H as [[a b] [E H]]. simpl in E. subst a.
  apply pm_pairs_from_fst_sorted in H. lia.
Qed.

Theorem pm_pairs_fst_nodup : forall cols, NoDup (map fst (pm_pairs cols)).
Proof. intros. apply pm_pairs_from_fst_nodup. Qed.

(* ---- the swap on a row ---- *)
Lemma set_nth_length : forall A n (x : A) l, length (set_nth n x l) = length l.
Proof. induction n as [|n IH]; intros x [|y t]; simpl; auto. Qed.

Lemma nth_set_nth_same : forall n (x : Z) l, (n < length l)%nat -> nth n (set_nth n x l) 0 = x.
Proof. induction n as [|n IH]; intros x [|y t] H; simpl in *; try lia; auto. apply IH. lia. Qed.

Lemma nth_set_nth_other : forall n m (x : Z) l, n <> m -> nth m (set_nth n x l) 0 = nth m l 0.
Proof.
  induction n as [|n IH]; intros m x [|y t] H; simpl; auto.
  - destruct m; [congruence|reflexivity].
  - destruct m; [reflexivity|]. apply IH. congruence.
Qed.

Lemma swap_at_length : forall row ij, length (swap_at row ij) = length row.
Proof. intros row [i j]. unfold swap_at. rewrite !set_nth_length. reflexivity. Qed.

Lemma swap_at_nth : forall row i j k, (i < length row)%nat -> (j < length row)%nat ->
  nth k (swap_at row (i, j)) 0 = if Nat.eqb k j then nth i row 0 else if Nat.eqb k i then nth j row 0 else nth k row 0.
Proof.
  intros row i j k Hi Hj. unfold swap_at.
  destruct (Nat.eqb_spec k j) as [->|N1].
  - apply nth_set_nth_same. rewrite set_nth_length. exact Hj.
  - rewrite nth_set_nth_other by congruence.
    destruct (Nat.eqb_spec k i) as [->|N2].
    + apply nth_set_nth_same. exact Hi.
    + apply nth_set_nth_other. congruence.
Qed.

Definition flat (pairs : list (nat * nat)) : list nat := flat_map (fun ij => [fst ij; snd ij]) pairs.

Lemma apply_swaps_length : forall pairs row, length (apply_swaps pairs row) = length row.
Proof.
  induction pairs as [|ij t IH]; intros row; [reflexivity|].
  unfold apply_swaps in *. cbn [fold_left]. rewrite IH. apply swap_at_length.
Qed.

(* disjoint pairs inside the row: the two values of every pair are exchanged, everything else stays *)
Theorem apply_swaps_spec : forall pairs row,
  NoDup (flat pairs) -> (forall k, In k (flat pairs) -> (k < length row)%nat) ->
  (forall i j, In (i, j) pairs ->
     nth i (apply_swaps pairs row) 0 = nth j row 0 /\ nth j (apply_swaps pairs row) 0 = nth i row 0) /\
  (forall k, ~ In k (flat pairs) -> nth k (apply_swaps pairs row) 0 = nth k row 0).
Proof.
  induction pairs as [|[a b] t IH]; intros row ND B.
  - split; [intros i j []|reflexivity].
  - unfold apply_swaps. cbn [fold_left]. fold (apply_swaps t (swap_at row (a, b))).
    simpl in ND. inversion ND as [|x l Na ND1]; subst. inversion ND1 as [|x l Nb ND2]; subst.
    assert (Ha : (a < length row)%nat) by (apply B; simpl; auto).
    assert (Hb : (b < length row)%nat) by (apply B; simpl; auto).
    assert (Nab : a <> b) by (intros ->; apply Na; left; reflexivity).
    destruct (IH (swap_at row (a, b)) ND2) as [IH1 IH2].
    { intros k Hk. rewrite swap_at_length. apply B. simpl. auto. }
    split.
    + intros i j [E|Hin].
      * injection E as <- <-.
        rewrite (IH2 a), (IH2 b); [| intros H; apply Nb; exact H | intros H; apply Na; right; exact H].
        rewrite !swap_at_nth by assumption. rewrite !Nat.eqb_refl.
        destruct (Nat.eqb_spec a b); [contradiction|]. split; reflexivity.
      * destruct (IH1 i j Hin) as [E1 E2]. rewrite E1, E2.
        assert (Fi : In i (flat t)) by (unfold flat; apply in_flat_map; exists (i, j); simpl; auto).
        assert (Fj : In j (flat t)) by (unfold flat; apply in_flat_map; exists (i, j); simpl; auto).
        rewrite !swap_at_nth by assumption.
        assert (i <> a) by (intros ->; apply Na; right; exact Fi).
        assert (i <> b) by (intros ->; apply Nb; exact Fi).
        assert (j <> a) by (intros ->; apply Na; right; exact Fj).
        assert (j <> b) by (intros ->; apply Nb; exact Fj).
        repeat match goal with |- context [Nat.eqb ?x ?y] => destruct (Nat.eqb_spec x y); try contradiction end.
        split; reflexivity.
    + intros k Hk. rewrite IH2 by (intros H; apply Hk; simpl; auto).
      rewrite swap_at_nth by assumption.
      destruct (Nat.eqb_spec k b) as [->|]; [exfalso; apply Hk; simpl; auto|].
      destruct (Nat.eqb_spec k a) as [->|]; [exfalso; apply Hk; simpl; auto|]. reflexivity.
Qed.

(* moving back through the Friedel mate restores the row *)
Theorem apply_swaps_involutive : forall pairs row,
  NoDup (flat pairs) -> (forall k, In k (flat pairs) -> (k < length row)%nat) ->
  apply_swaps pairs (apply_swaps pairs row) = row.
Proof.
  intros pairs row ND B.
  assert (B' : forall k, In k (flat pairs) -> (k < length (apply_swaps pairs row))%nat)
    by (intros k Hk; rewrite apply_swaps_length; auto).
  destruct (apply_swaps_spec pairs row ND B) as [S1 S2].
  destruct (apply_swaps_spec pairs (apply_swaps pairs row) ND B') as [T1 T2].
  apply (nth_ext _ _ 0 0); [rewrite !apply_swaps_length; reflexivity|].
  intros k _.
  destruct (in_dec Nat.eq_dec k (flat pairs)) as [Hin|Hout].
  - unfold flat in Hin. apply in_flat_map in Hin. destruct Hin as [[i j] [Hp Hk]].
    destruct (T1 i j Hp) as [E1 E2]. destruct (S1 i j Hp) as [E3 E4].
    simpl in Hk. destruct Hk as [<-|[<-|[]]]; congruence.
  - rewrite T2, S2 by assumption. reflexivity.
Qed.

(* ---- for ordinary column sets the pairs are disjoint ----
   "ordinary": a label has at most one '(' and no two columns share label, type and dataset. *)
Definition one_paren (s : str) : Prop := forall p q, nth p s 0 = 40 -> nth q s 0 = 40 -> p = q.
Definition ordinary (cols : list column) : Prop :=
  (forall c, In c cols -> one_paren (c_label c)) /\
  (forall i j c d, nth_error cols i = Some c -> nth_error cols j = Some d ->
     c_label c = c_label d -> c_type c = c_type d -> c_ds c = c_ds d -> i = j).

Lemma flat_nodup : forall (P : list (nat * nat)),
  NoDup (map fst P) -> NoDup (map snd P) ->
  (forall x y, In x P -> In y P -> fst x <> snd y) -> NoDup (flat P).
Proof.
  induction P as [|[a b] t IH]; intros N1 N2 D; [constructor|].
  simpl in *. inversion N1 as [|x l A1 A2]; subst. inversion N2 as [|x l B1 B2]; subst.
  assert (InFlat : forall k, In k (flat t) -> In k (map fst t) \/ In k (map snd t)).
  { intros k Hk. unfold flat in Hk. apply in_flat_map in Hk. destruct Hk as [[u v] [Hp Hk]]. simpl in Hk.
    destruct Hk as [<-|[<-|[]]]; [left|right]; apply in_map_iff; exists (u, v); auto. }
  constructor.
  - intros [E|H].
    + subst b. apply (D (a, a) (a, a)); simpl; auto.
    + destruct (InFlat a H) as [H1|H1]; [contradiction|].
      apply in_map_iff in H1. destruct H1 as [y [E Hy]]. apply (D (a, b) y); simpl; auto.
  - constructor.
    + intros H. destruct (InFlat b H) as [H1|H1]; [|contradiction].
      apply in_map_iff in H1. destruct H1 as [x [E Hx]]. apply (D x (a, b)); simpl; auto.
    + apply IH; auto.
Qed.

Lemma snd_nodup : forall (P : list (nat * nat)),
  NoDup (map fst P) -> (forall x y, In x P -> In y P -> snd x = snd y -> fst x = fst y) -> NoDup (map snd P).
Proof.
  induction P as [|x t IH]; intros N I; [constructor|].
  simpl in *. inversion N as [|z l A1 A2]; subst. constructor.
  - intros H. apply in_map_iff in H. destruct H as [y [E Hy]].
    apply A1. apply in_map_iff. exists y. split; [|exact Hy]. symmetry. apply I; auto.
  - apply IH; auto.
Qed.

(* the '(' of a (-) label sits where the '(' of its (+) label sits *)
Lemma minus_paren : forall s p k, find_plus s = Some p ->
  (nth k (minus_label s p) 0 = 40 <-> nth k s 0 = 40).
Proof.
  intros s p k F. destruct (minus_label_spec s p F) as [_ [H1 [H2 H3]]].
  destruct (Nat.eq_dec k (S p)) as [->|N].
  - rewrite H1, H2. split; discriminate.
  - rewrite (H3 k N). tauto.
Qed.

Lemma find_plus_paren : forall s p, find_plus s = Some p -> nth p s 0 = 40.
Proof.
  intros s p F. destruct (find_plus_some s p F) as [H _]. apply starts_plus_iff in H. destruct H as [t Ht].
  replace p with (p + 0)%nat by lia. rewrite <- nth_skipn_Z. rewrite Ht. reflexivity.
Qed.

Lemma minus_label_inj : forall s s' p, find_plus s = Some p -> find_plus s' = Some p ->
  minus_label s p = minus_label s' p -> s = s'.
Proof.
  intros s s' p F F' E.
  destruct (minus_label_spec s p F) as [L [H1 [_ H3]]]. destruct (minus_label_spec s' p F') as [L' [H1' [_ H3']]].
  apply (nth_ext _ _ 0 0); [congruence|]. intros k _.
  destruct (Nat.eq_dec k (S p)) as [->|N]; [congruence|].
  rewrite <- (H3 k N), <- (H3' k N), E. reflexivity.
Qed.

Theorem pm_pairs_disjoint : forall cols, ordinary cols -> NoDup (flat (pm_pairs cols)).
Proof.
  intros cols [Simple Uniq].
  assert (Snd : forall i j, In (i, j) (pm_pairs cols) ->
    exists c d p, nth_error cols i = Some c /\ nth_error cols j = Some d /\ find_plus (c_label c) = Some p /\
      c_label d = minus_label (c_label c) p /\ c_type d = c_type c /\ c_ds d = c_ds c).
  { intros i j H. destruct (pm_pairs_sound cols i j H) as [c [d [H1 [H2 [[p [F [L1 [L2 L3]]]] _]]]]].
    exists c, d, p. repeat split; assumption. }
  apply flat_nodup.
  - apply pm_pairs_fst_nodup.
  - apply snd_nodup; [apply pm_pairs_fst_nodup|].
    intros [i j] [i' j'] Hx Hy E. simpl in *. subst j'.
    destruct (Snd i j Hx) as [c [d [p [H1 [H2 [F [L1 [L2 L3]]]]]]]].
    destruct (Snd i' j Hy) as [c' [d' [p' [H1' [H2' [F' [L1' [L2' L3']]]]]]]].
    rewrite H2 in H2'. injection H2' as <-.
    assert (Pd : one_paren (c_label d)) by (apply Simple; eapply nth_error_In; eauto).
    assert (p = p').
    { apply Pd.
      - rewrite L1. apply (minus_paren _ _ _ F). apply find_plus_paren. exact F.
      - rewrite L1'. apply (minus_paren _ _ _ F'). apply find_plus_paren. exact F'. }
    subst p'.
    apply (Uniq i i' c c' H1 H1'); [|congruence|congruence].
    apply (minus_label_inj _ _ p F F'). congruence.
  - intros [i j] [i' j'] Hx Hy E. simpl in *. subst j'.
    destruct (Snd i j Hx) as [c [d [p [H1 [H2 [F [L1 [L2 L3]]]]]]]].
    destruct (Snd i' i Hy) as [c' [d' [p' [H1' [H2' [F' [L1' [L2' L3']]]]]]]].
    rewrite H1 in H2'. injection H2' as <-.
    (* c is both a (+) label (sign '+' after its '(') and a (-) label (sign '-' after the same '(') *)
    assert (Pc : one_paren (c_label c)) by (apply Simple; eapply nth_error_In; eauto).
    assert (p = p').
    { apply Pc; [apply find_plus_paren; exact F|].
      rewrite L1'. apply (minus_paren _ _ _ F'). apply find_plus_paren. exact F'. }
    subst p'.
    destruct (minus_label_spec _ _ F) as [_ [A _]]. destruct (minus_label_spec _ _ F') as [_ [_ [B _]]].
    rewrite <- L1' in B. congruence.
Qed.

(* a boolean test for one_paren, to show that the hypothesis is satisfiable on real labels *)
Fixpoint count_paren (s : str) : nat :=
  match s with [] => O | c :: t => ((if Z.eqb c 40 then 1 else 0) + count_paren t)%nat end.

Lemma count_paren_zero : forall s, count_paren s = O -> forall p, nth p s 0 <> 40.
Proof.
  induction s as [|c t IH]; intros H p; [destruct p; discriminate|].
  simpl in H. destruct (Z.eqb_spec c 40); [discriminate|]. destruct p; simpl; [exact n|]. apply IH. exact H.
Qed.

Lemma count_paren_one : forall s, (count_paren s <= 1)%nat -> one_paren s.
Proof.
  induction s as [|c t IH]; intros H p q Hp Hq.
  - destruct p; discriminate.
  - simpl in H. destruct (Z.eqb_spec c 40) as [E|N].
    + assert (Z0 : count_paren t = O) by lia.
      destruct p as [|p]; destruct q as [|q]; auto; simpl in *.
      * exfalso. exact (count_paren_zero t Z0 q Hq).
      * exfalso. exact (count_paren_zero t Z0 p Hp).
      * exfalso. exact (count_paren_zero t Z0 q Hq).
    + destruct p as [|p]; [simpl in Hp; contradiction|]. destruct q as [|q]; [simpl in Hq; contradiction|].
      f_equal. apply IH; [simpl in H; lia|exact Hp|exact Hq].
Qed.

Theorem plus_minus_swap : forall cols row, ordinary cols -> length row = length cols ->
  let pairs := pm_pairs cols in
  (forall i j, In (i, j) pairs ->
     nth i (apply_swaps pairs row) 0 = nth j row 0 /\ nth j (apply_swaps pairs row) 0 = nth i row 0) /\
  (forall k, ~ In k (flat pairs) -> nth k (apply_swaps pairs row) 0 = nth k row 0) /\
  apply_swaps pairs (apply_swaps pairs row) = row.
Proof.
  intros cols row Ord Len pairs.
  assert (ND : NoDup (flat pairs)) by (apply pm_pairs_disjoint; exact Ord).
  assert (B : forall k, In k (flat pairs) -> (k < length row)%nat).
  { intros k Hk. unfold flat in Hk. apply in_flat_map in Hk. destruct Hk as [[i j] [Hp Hk]].
    destruct (pm_pairs_sound cols i j Hp) as [c [d [H1 [H2 _]]]]. rewrite Len.
    simpl in Hk. destruct Hk as [<-|[<-|[]]]; apply nth_error_Some; congruence. }
  destruct (apply_swaps_spec pairs row ND B) as [S1 S2].
  split; [exact S1|]. split; [exact S2|]. apply apply_swaps_involutive; assumption.
Qed.

(* uniqueness of (label, type, dataset) as a boolean, for concrete column lists *)
Definition key_eqb (c d : column) : bool := str_eqb (c_label c) (c_label d) && (c_type c =? c_type d) && (c_ds c =? c_ds d).
Fixpoint keys_unique (l : list column) : bool :=
  match l with [] => true | c :: t => negb (existsb (key_eqb c) t) && keys_unique t end.

Lemma keys_unique_spec : forall l, keys_unique l = true ->
  forall i j c d, nth_error l i = Some c -> nth_error l j = Some d ->
    c_label c = c_label d -> c_type c = c_type d -> c_ds c = c_ds d -> i = j.
Proof.
  induction l as [|x t IH]; intros U i j c d Hi Hj E1 E2 E3; [destruct i; discriminate|].
  simpl in U. apply andb_true_iff in U. destruct U as [U1 U2]. apply negb_true_iff in U1.
  assert (K : forall a b, c_label a = c_label b -> c_type a = c_type b -> c_ds a = c_ds b -> key_eqb a b = true).
  { intros a b A1 A2 A3. unfold key_eqb. rewrite A1, A2, A3, !Z.eqb_refl. rewrite (proj2 (pm_str_eqb_iff _ _) eq_refl). reflexivity. }
  destruct i as [|i]; destruct j as [|j]; simpl in Hi, Hj; auto.
  - injection Hi as ->. exfalso. assert (existsb (key_eqb c) t = true).
    { apply existsb_exists. exists d. split; [eapply nth_error_In; eauto|apply K; auto]. }
    congruence.
  - injection Hj as ->. exfalso. assert (existsb (key_eqb d) t = true).
    { apply existsb_exists. exists c. split; [eapply nth_error_In; eauto|apply K; auto]. }
    congruence.
  - f_equal. apply (IH U2 i j c d); auto.
Qed.

Lemma ordinary_by_test : forall cols,
  forallb (fun c => Nat.leb (count_paren (c_label c)) 1) cols = true -> keys_unique cols = true -> ordinary cols.
Proof.
  intros cols H1 H2. split.
  - intros c Hc. apply count_paren_one. rewrite forallb_forall in H1. apply Nat.leb_le. apply H1. exact Hc.
  - apply keys_unique_spec. exact H2.
Qed.
