(* Model of Mtz::positions_of_plus_minus_columns (include/gemmi/mtz.hpp) and of the exchange of the (+)/(-) values of
   one row that Mtz::ensure_asu performs with its result (src/mtz.cpp):

     for i in columns:  p = label_i.find("(+)");  if found: minus = label_i with '-' at p+1;
        for j in columns (FROM THE START): if label_j == minus && type_j == type_i && dataset_j == dataset_i:
           pairs += (i, j); break
     ...
     for (i, j) in pairs: swap(row[i], row[j])

   Labels are byte strings (Base.Str), types and dataset ids integers. *)
From GV Require Export Base.Str.
Local Open Scope Z_scope.

Record column := mkCol { c_label : str; c_type : Z; c_ds : Z }.

(* does s start with "(+)" *)
Definition starts_plus (s : str) : bool :=
  match s with
  | a :: b :: c :: _ => (a =? 40) && (b =? 43) && (c =? 41)
  | _ => false
  end.

(* std::string::find("(+)"): position of the first occurrence *)
Fixpoint find_plus (s : str) : option nat :=
  match s with
  | [] => None
  | _ :: t => if starts_plus s then Some O else option_map S (find_plus t)
  end.

Fixpoint set_at (n : nat) (c : Z) (s : str) : str :=
  match s, n with
  | [], _ => []
  | _ :: t, O => c :: t
  | x :: t, S n' => x :: set_at n' c t
  end.

(* minus_label[sign_pos+1] = '-' *)
Definition minus_label (s : str) (p : nat) : str := set_at (S p) 45 s.

Definition col_match (c : column) (ml : str) (d : column) : bool :=
  str_eqb (c_label d) ml && (c_type d =? c_type c) && (c_ds d =? c_ds c).

Fixpoint find_index {A} (f : A -> bool) (l : list A) (i : nat) : option nat :=
  match l with
  | [] => None
  | x :: t => if f x then Some i else find_index f t (S i)
  end.

Fixpoint pm_pairs_from (all cols : list column) (i : nat) : list (nat * nat) :=
  match cols with
  | [] => []
  | c :: rest =>
    let tail := pm_pairs_from all rest (S i) in
    match find_plus (c_label c) with
    | None => tail
    | Some p =>
      match find_index (col_match c (minus_label (c_label c) p)) all 0 with
      | Some j => (i, j) :: tail
      | None => tail
      end
    end
  end.

Definition pm_pairs (cols : list column) : list (nat * nat) := pm_pairs_from cols cols 0.

(* the values of one row *)
Fixpoint set_nth {A} (n : nat) (x : A) (l : list A) : list A :=
  match l, n with
  | [], _ => []
  | _ :: t, O => x :: t
  | y :: t, S n' => y :: set_nth n' x t
  end.

Definition swap_at (row : list Z) (ij : nat * nat) : list Z :=
  let '(i, j) := ij in
  set_nth j (nth i row 0) (set_nth i (nth j row 0) row).

Definition apply_swaps (pairs : list (nat * nat)) (row : list Z) : list Z := fold_left swap_at pairs row.
