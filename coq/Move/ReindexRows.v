(* Which rows Mtz::reindex keeps (src/mtz.cpp):
     hkl_den = xyz_op.apply_to_hkl_without_division(hkl);  hkl' = Op::divide_hkl_by_DEN(hkl_den);
     if (hkl'[0]*DEN == hkl_den[0] && hkl'[1]*DEN == hkl_den[1] && hkl'[2]*DEN == hkl_den[2]) set_hkl(hkl') else remove the row *)
From Coq Require Import Lia.
From GV Require Import Sym.Op Sym.OpProofs Sym.Asu.
Local Open Scope Z_scope.

Definition reindex_row (X : op) (h : v3) : option v3 :=
  let hd := apply_to_hkl_nodiv X h in
  let q := divide_hkl hd in
  if v3_eqb (scale_v3 DEN q) hd then Some q else None.

Fixpoint reindex_rows (X : op) (hs : list v3) : list v3 :=
  match hs with
  | [] => []
  | h :: t => match reindex_row X h with Some q => q :: reindex_rows X t | None => reindex_rows X t end
  end.

Lemma v3_eqb_true : forall a b, v3_eqb a b = true <-> a = b.
Proof.
  intros [[a0 a1] a2] [[b0 b1] b2]. unfold v3_eqb. rewrite !andb_true_iff, !Z.eqb_eq. split.
  - intros [[-> ->] ->]. reflexivity.
  - intros E. injection E as -> -> ->. auto.
Qed.

(* a row is kept exactly when its new index is integral, and then it carries exactly that index *)
Theorem reindex_row_kept : forall X h h',
  reindex_row X h = Some h' <-> apply_to_hkl_nodiv X h = scale_v3 24 h'.
Proof.
  intros X h h'. unfold reindex_row. set (hd := apply_to_hkl_nodiv X h). split.
  - destruct (v3_eqb (scale_v3 DEN (divide_hkl hd)) hd) eqn:E; [|discriminate].
    intros H. injection H as <-. apply v3_eqb_true in E. symmetry. exact E.
  - intros E. rewrite E.
    assert (D : divide_hkl (scale_v3 24 h') = h').
    { destruct h' as [[a b] c]. unfold divide_hkl, scale_v3, map_v3, DEN. rewrite !cdiv_exact. reflexivity. }
    rewrite D. replace (v3_eqb (scale_v3 DEN h') (scale_v3 24 h')) with true; [reflexivity|].
    symmetry. apply v3_eqb_true. reflexivity.
Qed.

Theorem reindex_row_removed : forall X h,
  reindex_row X h = None <-> forall h', apply_to_hkl_nodiv X h <> scale_v3 24 h'.
Proof.
  intros X h. split.
  - intros N h' E. apply reindex_row_kept in E. congruence.
  - intros H. destruct (reindex_row X h) as [q|] eqn:E; [|reflexivity].
    apply reindex_row_kept in E. exfalso. exact (H q E).
Qed.

(* the kept rows, in order: exactly the rows with an integral new index *)
Theorem reindex_rows_spec : forall X hs q, In q (reindex_rows X hs) <->
  exists h, In h hs /\ apply_to_hkl_nodiv X h = scale_v3 24 q.
Proof.
  intros X. induction hs as [|h t IH]; intros q; cbn [reindex_rows].
  - split; [intros []|intros [h [[] _]]].
  - destruct (reindex_row X h) as [q0|] eqn:E.
    + cbn [In]. rewrite IH. split.
      * intros [<-|[h1 [H1 H2]]].
        -- exists h. split; [left; reflexivity|apply reindex_row_kept; exact E].
        -- exists h1. split; [right; exact H1|exact H2].
      * intros [h1 [[<-|H1] H2]].
        -- left. apply reindex_row_kept in H2. congruence.
        -- right. exists h1. split; assumption.
    + rewrite IH. split.
      * intros [h1 [H1 H2]]. exists h1. split; [right; exact H1|exact H2].
      * intros [h1 [[<-|H1] H2]].
        -- apply reindex_row_kept in H2. congruence.
        -- exists h1. split; assumption.
Qed.
