(* Model of the index/phase bookkeeping of Mtz::ensure_asu, AsuData::ensure_asu (impl::move_to_asu)
   and Mtz::switch_to_original_hkl / switch_to_asu_hkl (src/mtz.cpp, include/gemmi/asudata.hpp).
   Phases are kept as linear maps phi |-> s * (phi + shift), shift in units of 1/24 turn. *)
From GV Require Export Sym.AsuDefs.
Local Open Scope Z_scope.

Record moved := mkMoved {
  mv_hkl : v3;        (* new index *)
  mv_isym : Z;        (* 0 = reflection was already in the ASU and is left alone *)
  mv_negate : bool;   (* phase negated (Friedel mate) *)
  mv_shift : Z        (* added to the phase before negation, in 1/24 turn: -(h.t) of the ORIGINAL hkl *)
}.

Definition nth_op (l : list op) (i : Z) : op := nth (Z.to_nat i) l identity.

(* one reflection through ensure_asu. None = to_asu failed (exception) *)
Definition move_entry (a : rasu) (g : gops) (hkl : v3) : option moved :=
  if asu_is_in a hkl then Some (mkMoved hkl 0 false 0)
  else match to_asu a hkl g with
       | None => None
       | Some (hk, isym) =>
         let o := nth_op (sym_ops g) (cdiv (isym - 1) 2) in
         Some (mkMoved hk isym (crem isym 2 =? 0) (- dot hkl (tran o)))
       end.

Definition apply_phase (m : moved) (phi : Z) : Z :=
  if mv_negate m then - (phi + mv_shift m) else phi + mv_shift m.

(* (+)/(-) columns are swapped and anomalous differences negated *)
Definition swaps_anomalous (g : gops) (hkl : v3) (m : moved) : bool :=
  negb (mv_isym m =? 0) && (crem (mv_isym m) 2 =? 0) && negb (gops_centro g) &&
  negb (is_reflection_centric g hkl).

(* switch_to_original_hkl for one record: index from the ASU index and ISYM. None = inverse failed *)
Definition original_from (g : gops) (hk : v3) (isym : Z) : option v3 :=
  match inverse (nth_op (sym_ops g) (cdiv (isym - 1) 2)) with
  | None => None
  | Some inv =>
    let h := apply_to_hkl inv hk in
    Some (if Z.land isym 1 =? 1 then h else neg_v3 h)
  end.
