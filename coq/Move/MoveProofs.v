(* Proofs for property C13 on the Move model. *)
From Coq Require Import Lia ZifyBool.
From GV Require Import Sym.AsuDefs Sym.AsuProofs Sym.AsuLift Sym.AsuSpec Sym.OpProofs Move.Move.
Local Open Scope Z_scope.
Ltac Zify.zify_post_hook ::= Z.to_euclidean_division_equations.

Lemma nth_op_nth_error : forall l j o, nth_error l j = Some o -> nth_op l (Z.of_nat j) = o.
Proof.
  intros l j o H. unfold nth_op. rewrite Nat2Z.id. apply nth_error_nth. exact H.
Qed.

Lemma cdiv_neg : forall x, cdiv (- x) 24 = - cdiv x 24.
Proof. intros x. unfold cdiv. lia. Qed.
Lemma divide_neg : forall m, divide_hkl (neg_v3 m) = neg_v3 (divide_hkl m).
Proof. intros [[a b] c]. unfold divide_hkl, neg_v3, map_v3. rewrite !cdiv_neg. reflexivity. Qed.

Section PhaseTransport.
  Variable g : gops.
  Variable a : rasu.
  (* the true phase of every reflection, in units of 1/24 turn (only its class modulo 24 matters) *)
  Variable phi : v3 -> Z.
  (* the function the data define on the reciprocal sphere is symmetry-consistent:
     F(hR) = F(h) exp(-2 pi i h.t), and Friedel mates are conjugate *)
  Hypothesis Hrot : forall o h, In o (sym_ops g) ->
    (phi (divide_hkl (apply_to_hkl_nodiv o h)) - (phi h - dot h (tran o))) mod 24 = 0.
  Hypothesis Hfriedel : forall h, (phi (neg_v3 h) + phi h) mod 24 = 0.

  (* moving a reflection into the ASU keeps the phase correct: the stored phase, transformed as the
     code does, is the true phase of the new index *)
  Theorem move_entry_phase_correct : forall hkl m,
    move_entry a g hkl = Some m ->
    (forall hk isym, to_asu a hkl g = Some (hk, isym) ->
       exists mm, member_of (sym_ops g) hkl isym mm /\ hk = divide_hkl mm) ->
    (apply_phase m (phi hkl) - phi (mv_hkl m)) mod 24 = 0.
  Proof.
    intros hkl m Hm Hspec. unfold move_entry in Hm.
    destruct (asu_is_in a hkl).
    - inversion Hm; subst. unfold apply_phase. cbn. rewrite Z.add_0_r, Z.sub_diag. reflexivity.
    - destruct (to_asu a hkl g) as [[hk isym]|] eqn:E; [|discriminate].
      inversion Hm; subst; clear Hm. unfold apply_phase. cbn [mv_negate mv_shift mv_hkl].
      destruct (Hspec hk isym eq_refl) as [mm [[j [o [Hn Hc]]] Hd]].
      assert (Ho : In o (sym_ops g)) by (eapply nth_error_In; exact Hn).
      destruct Hc as [[Hi Hmm]|[Hi Hmm]].
      + assert (Ej : cdiv (isym - 1) 2 = Z.of_nat j) by (unfold cdiv; lia).
        rewrite Ej, (nth_op_nth_error _ _ _ Hn).
        assert (Er : crem isym 2 =? 0 = false) by (unfold crem; lia). rewrite Er.
        subst hk mm. pose proof (Hrot o hkl Ho) as H.
        replace (phi hkl + - dot hkl (tran o) - phi (divide_hkl (apply_to_hkl_nodiv o hkl)))
          with (- (phi (divide_hkl (apply_to_hkl_nodiv o hkl)) - (phi hkl - dot hkl (tran o)))) by ring.
        set (x := phi (divide_hkl (apply_to_hkl_nodiv o hkl)) - (phi hkl - dot hkl (tran o))) in *.
        clearbody x. lia.
      + assert (Ej : cdiv (isym - 1) 2 = Z.of_nat j) by (unfold cdiv; lia).
        rewrite Ej, (nth_op_nth_error _ _ _ Hn).
        assert (Er : crem isym 2 =? 0 = true) by (unfold crem; lia). rewrite Er.
        subst hk mm. rewrite divide_neg.
        pose proof (Hrot o hkl Ho) as H1.
        pose proof (Hfriedel (divide_hkl (apply_to_hkl_nodiv o hkl))) as H2.
        set (p1 := phi (divide_hkl (apply_to_hkl_nodiv o hkl))) in *.
        set (p2 := phi (neg_v3 (divide_hkl (apply_to_hkl_nodiv o hkl)))) in *.
        set (p0 := phi hkl) in *. set (d := dot hkl (tran o)) in *.
        clearbody p1 p2 p0 d. lia.
  Qed.
End PhaseTransport.

(* for every table row the hypothesis about to_asu is a theorem (C05_to_asu) *)
Theorem table_move_phase_correct : forall r tnt g, In r sg_table -> operations r = HOk g ->
  forall (phi : v3 -> Z),
  (forall o h, In o (sym_ops g) ->
     (phi (divide_hkl (apply_to_hkl_nodiv o h)) - (phi h - dot h (tran o))) mod 24 = 0) ->
  (forall h, (phi (neg_v3 h) + phi h) mod 24 = 0) ->
  forall hkl m, move_entry (row_asu r tnt) g hkl = Some m ->
    (apply_phase m (phi hkl) - phi (mv_hkl m)) mod 24 = 0.
Proof.
  intros r tnt g Hin Hop phi Hrot Hfr hkl m Hm.
  apply (move_entry_phase_correct g (row_asu r tnt) phi Hrot Hfr hkl m Hm).
  intros hk isym E.
  destruct (table_to_asu r tnt g Hin Hop hkl) as [hk' [isym' [mm [E' [Hmem [_ [Hd _]]]]]]].
  rewrite E in E'. inversion E'; subst. exists mm. split; [exact Hmem|reflexivity].
Qed.

(* ensure_asu never fails on a table row *)
Theorem table_move_total : forall r tnt g, In r sg_table -> operations r = HOk g ->
  forall hkl, move_entry (row_asu r tnt) g hkl <> None.
Proof.
  intros r tnt g Hin Hop hkl. unfold move_entry.
  destruct (asu_is_in (row_asu r tnt) hkl); [discriminate|].
  destruct (table_to_asu r tnt g Hin Hop hkl) as [hk [isym [mm [E _]]]]. rewrite E. discriminate.
Qed.

(* ---- unmerged data: original -> ASU (+ISYM) -> original restores the index ---- *)
Lemma apply_inverse_roundtrip :
  forall m00 m01 m02 m10 m11 m12 m20 m21 m22 t0 t1 t2 nt,
  let m : m33 := ((m00,m01,m02),(m10,m11,m12),(m20,m21,m22)) in
  (det_rot m = 1 \/ det_rot m = -1) ->
  let a := mkOp (map_m33 (fun x => 24 * x) m) (t0,t1,t2) nt in
  exists inv, inverse a = Some inv /\ forall h, apply_to_hkl inv (apply_to_hkl a h) = h.
Proof.
  intros m00 m01 m02 m10 m11 m12 m20 m21 m22 t0 t1 t2 nt m Hd a.
  unfold inverse, a. cbn [rot tran nota map_m33 map_v3 m].
  set (D := det_rot _).
  assert (HD : D = 13824 * det_rot m) by (unfold D, det_rot, m; ring).
  destruct (D =? 0) eqn:E; [exfalso; lia|].
  eexists; split; [reflexivity|].
  intros [[h k] l].
  unfold DEN. rewrite HD.
  set (d := det_rot m) in *.
  assert (Hdd : d * d = 1) by (destruct Hd as [-> | ->]; reflexivity).
  assert (Hdet : d = m00 * (m11 * m22 - m12 * m21) - m01 * (m10 * m22 - m12 * m20)
                     + m02 * (m10 * m21 - m11 * m20)) by reflexivity.
  clearbody d. clear HD E D a.
  rewrite !(cof_quot _ _ _ _ d Hd).
  unfold apply_to_hkl, apply_to_hkl_nodiv, divide_hkl, map_v3, DEN.
  cbn [rot tran nota col dot].
  assert (K : forall e r, e = r * (d * d) -> e = r) by (intros e r ->; rewrite Hdd; ring).
  (* inner division is exact: 24 * m.. * h + ... = 24 * (...) *)
  repeat match goal with
         | |- context [cdiv (24 * ?a * ?x + 24 * ?b * ?y + 24 * ?c * ?z) 24] =>
           replace (cdiv (24 * a * x + 24 * b * y + 24 * c * z) 24) with (a * x + b * y + c * z)
             by (symmetry; apply cdiv_of_mult; ring)
         end.
  repeat match goal with |- (_, _) = (_, _) => f_equal end;
    apply cdiv_of_mult; apply K; rewrite Hdet; ring.
Qed.

Definition unimodular24_b (r : m33) : bool :=
  let u := unit_rot r in
  m33_eqb (scale_m 24 u) r && ((det_rot u =? 1) || (det_rot u =? -1)).
Definition row_unimodular_b (r : sgrow) : bool :=
  match operations r with
  | HOk g => forallb (fun o => unimodular24_b (rot o)) (sym_ops g)
  | _ => false
  end.
Lemma rows_unimodular : forallb row_unimodular_b sg_table = true.
Proof. vm_cast_no_check (@eq_refl bool true). Qed.

Lemma unimodular_roundtrip : forall o, unimodular24_b (rot o) = true ->
  exists inv, inverse o = Some inv /\ forall h, apply_to_hkl inv (apply_to_hkl o h) = h.
Proof.
  intros [r t n] H. unfold unimodular24_b in H. cbn [rot] in H.
  apply andb_true_iff in H. destruct H as [H1 H2]. apply m33_eqb_eq in H1.
  destruct (unit_rot r) as [[[[m00 m01] m02] [[m10 m11] m12]] [[m20 m21] m22]] eqn:Eu.
  assert (Hd : det_rot (m00, m01, m02, (m10, m11, m12), (m20, m21, m22)) = 1 \/
               det_rot (m00, m01, m02, (m10, m11, m12), (m20, m21, m22)) = -1).
  { apply orb_true_iff in H2. destruct H2 as [H2|H2]; apply Z.eqb_eq in H2; [left|right]; exact H2. }
  destruct t as [[t0 t1] t2].
  pose proof (apply_inverse_roundtrip m00 m01 m02 m10 m11 m12 m20 m21 m22 t0 t1 t2 n Hd) as R.
  cbv zeta in R. unfold scale_m in H1. cbn [map_m33 map_v3] in *.
  rewrite H1 in R. exact R.
Qed.

Lemma apply_neg : forall o h, apply_to_hkl o (neg_v3 h) = neg_v3 (apply_to_hkl o h).
Proof.
  intros o [[h k] l]. unfold apply_to_hkl. rewrite <- divide_neg. f_equal.
  destruct o as [rt tr nt]. destruct_all_pairs. unfold apply_to_hkl_nodiv, neg_v3.
  cbn -[Z.mul Z.add]. repeat match goal with |- (_, _) = (_, _) => f_equal end; ring.
Qed.

Lemma land1 : forall x, Z.land x 1 = x mod 2.
Proof. intros x. change 1 with (Z.ones 1). rewrite Z.land_ones by lia. reflexivity. Qed.

Theorem table_original_restored : forall r tnt g, In r sg_table -> operations r = HOk g ->
  forall h0 hk isym, to_asu (row_asu r tnt) h0 g = Some (hk, isym) ->
  original_from g hk isym = Some h0.
Proof.
  intros r tnt g Hin Hop h0 hk isym E.
  destruct (table_to_asu r tnt g Hin Hop h0) as [hk' [isym' [mm [E' [[j [o [Hn Hc]]] [_ [Hd _]]]]]]].
  rewrite E in E'. inversion E'; subst hk' isym'; clear E'.
  pose proof (proj1 (forallb_forall _ _) rows_unimodular r Hin) as U.
  unfold row_unimodular_b in U. rewrite Hop in U. rewrite forallb_forall in U.
  assert (Ho : In o (sym_ops g)) by (eapply nth_error_In; exact Hn).
  destruct (unimodular_roundtrip o (U o Ho)) as [inv [Hinv Hrt]].
  unfold original_from.
  destruct Hc as [[Hi Hmm]|[Hi Hmm]].
  - assert (Ej : cdiv (isym - 1) 2 = Z.of_nat j) by (unfold cdiv; lia).
    rewrite Ej, (nth_op_nth_error _ _ _ Hn), Hinv.
    assert (El : Z.land isym 1 =? 1 = true).
    { rewrite land1. apply Z.eqb_eq. lia. }
    rewrite El. f_equal. subst hk mm. apply Hrt.
  - assert (Ej : cdiv (isym - 1) 2 = Z.of_nat j) by (unfold cdiv; lia).
    rewrite Ej, (nth_op_nth_error _ _ _ Hn), Hinv.
    assert (El : Z.land isym 1 =? 1 = false).
    { rewrite land1. apply Z.eqb_neq. lia. }
    rewrite El. f_equal. subst hk mm. rewrite divide_neg, apply_neg.
    fold (apply_to_hkl o h0). rewrite Hrt.
    destruct h0 as [[a b] c]. unfold neg_v3. repeat match goal with |- (_, _) = (_, _) => f_equal end; ring.
Qed.
