(* Property C16: form-factor tables are consistent; atomic density is their Fourier transform.
   Statements only; proofs live in Sf/FormFactProofs.v, Sf/Density.v and the generated per-row files
   Sf/FormFactPd*_gen.v.  The tables (Sf/FormFact_gen.v) are regenerated from the repo on every run:
   IT92 99+112 rows, C4322 99 rows, Neutron92 121 entries. *)
From Coq Require Import ZArith QArith Qabs List Reals.
From GV Require Import Sf.FormFact Sf.FormFact_gen Sf.FormFactGolden_gen Sf.FormFactR Sf.FormFactProofs Sf.Density.
Import ListNotations.

(* shapes: row counts, 9/10 coefficients per row, ion list strictly ascending (needed by the early exit of get) *)
Theorem C16_tables_wf : tables_wf_b = true.
Proof. exact tables_wf. Qed.
Print Assumptions C16_tables_wf.

(* every X-ray row (elements 1..98 and all 112 ions): |c + a1+a2+a3+a4 - (Z - charge)| <= 0.0015 (Z - charge);
   no exception is needed.  Row 0 (unknown element) is a copy of oxygen, see C16_row0_is_oxygen. *)
Theorem C16_f0_electron_count : forall i, (1 <= i < 211)%nat ->
  (0 < xray_electrons i)%Z /\
  (Qabs (qsum (map fst (xray_ab (nth i it92_rows []))) + xray_c (nth i it92_rows []) - inject_Z (xray_electrons i))
   <= (15 # 10000) * inject_Z (xray_electrons i))%Q.
Proof. intros i Hi. destruct (f0_electron_count i Hi) as [H1 H2]. split; [exact H1|]. apply electron_count_ok_spec, H2. Qed.
Print Assumptions C16_f0_electron_count.

Theorem C16_row0_is_oxygen :
  nth 0%nat it92_rows [] = nth 8%nat it92_rows [] /\ nth 0%nat c4322_rows [] = nth 8%nat c4322_rows [].
Proof. exact row0_is_oxygen. Qed.
Print Assumptions C16_row0_is_oxygen.

(* continuum statement: for every neutral atom the X-ray form factor is positive with non-positive derivative
   in x = (sin(theta)/lambda)^2 on [0,4], i.e. up to 2 A^-1 (interval arithmetic, one lemma per element) *)
Theorem C16_xray_positive_decreasing : forall i, (1 <= i <= 98)%nat -> forall x : R, (0 <= x <= 4)%R ->
  (sfR (xray_ab (nth i it92_rows [])) (xray_c (nth i it92_rows [])) x > 0 /\
   sfR' (xray_ab (nth i it92_rows [])) x <= 0)%R.
Proof. exact xray_positive_decreasing. Qed.
Print Assumptions C16_xray_positive_decreasing.

Theorem C16_xray_nonincreasing : forall i, (1 <= i <= 98)%nat -> forall x y : R, (0 <= x)%R -> (x <= y)%R -> (y <= 4)%R ->
  (sfR (xray_ab (xray_row i)) (xray_c (xray_row i)) y <= sfR (xray_ab (xray_row i)) (xray_c (xray_row i)) x)%R.
Proof. exact xray_nonincreasing. Qed.
Print Assumptions C16_xray_nonincreasing.

Theorem C16_electron_positive_decreasing : forall i, (1 <= i <= 98)%nat -> forall x : R, (0 <= x <= 4)%R ->
  (sfR (elec_ab (nth i c4322_rows [])) 0%Q x > 0 /\ sfR' (elec_ab (nth i c4322_rows [])) x <= 0)%R.
Proof. exact electron_positive_decreasing. Qed.
Print Assumptions C16_electron_positive_decreasing.

Theorem C16_electron_nonincreasing : forall i, (1 <= i <= 98)%nat -> forall x y : R, (0 <= x)%R -> (x <= y)%R -> (y <= 4)%R ->
  (sfR (elec_ab (elec_row i)) 0%Q y <= sfR (elec_ab (elec_row i)) 0%Q x)%R.
Proof. exact electron_nonincreasing. Qed.
Print Assumptions C16_electron_nonincreasing.

(* the same for the tabulated ions, with the rows where it is FALSE enumerated: Sc3+ (112) and Ti4+ (115) increase
   slightly above s = 1.9 A^-1, Bi5+ (198) becomes negative at s = 1.94 A^-1 (as published; not claimed by C16) *)
Theorem C16_ions_positive_decreasing_partial : forall i, (99 <= i <= 210)%nat -> ~ In i [112; 115; 198]%nat ->
  forall x : R, (0 <= x <= 4)%R ->
  (sfR (xray_ab (nth i it92_rows [])) (xray_c (nth i it92_rows [])) x > 0 /\
   sfR' (xray_ab (nth i it92_rows [])) x <= 0)%R.
Proof. exact xray_ions_positive_decreasing. Qed.
Print Assumptions C16_ions_positive_decreasing_partial.

(* looking up a tabulated ion returns exactly its own row ... *)
Theorem C16_ion_lookup_exact : forall k el q, nth_error it92_ions k = Some (el, q) ->
  it92_get it92_ions el_Cf el_D false el q = (99 + Z.of_nat k)%Z.
Proof. exact ion_lookup_own_row. Qed.
Print Assumptions C16_ion_lookup_exact.

(* ... any other (element, signed-char charge) falls back to the neutral row of the element (H for D, row 0 above Cf) ... *)
Theorem C16_ion_lookup_fallback : forall el q, (0 <= el < 120)%Z -> (-128 <= q <= 127)%Z -> ~ In (el, q) it92_ions ->
  it92_get it92_ions el_Cf el_D false el q = (if el <=? 98 then el else if el =? 119 then 1 else 0)%Z.
Proof. exact ion_lookup_fallback. Qed.
Print Assumptions C16_ion_lookup_fallback.

(* ... and get_exact is null exactly when the element has no entry or a non-zero charge is not tabulated *)
Theorem C16_get_exact_null_iff : forall el q, (0 <= el < 120)%Z -> (-128 <= q <= 127)%Z ->
  (it92_get_exact it92_ions el_Cf el_D false el q = None <->
   it92_has el_Cf el_D el = false \/ (q <> 0%Z /\ ~ In (el, q) it92_ions)).
Proof. exact get_exact_null_iff. Qed.
Print Assumptions C16_get_exact_null_iff.

(* the lookups as executed by the compiled library (dumped for every element x charge -8..8, both
   ignore_charge settings, has(), C4322::get, Neutron92::has) coincide with the model *)
Theorem C16_lookup_dumps_match_model : dumps_match_b = true.
Proof. exact dumps_match. Qed.
Print Assumptions C16_lookup_dumps_match_model.

(* "exactly the published values": no offline copy of the published tables exists; the regenerated tables are
   proved equal to a frozen dump (gen/golden/FormFactGolden.v) taken from the pinned tree *)
Theorem C16_tables_equal_frozen_copy :
  it92_rows = g_it92_rows /\ it92_ions = g_it92_ions /\ c4322_rows = g_c4322_rows /\ neutron_rows = g_neutron_rows.
Proof. exact tables_equal_golden. Qed.
Print Assumptions C16_tables_equal_frozen_copy.

(* independent reference: well-known neutron scattering lengths (fm) of H, D, C, N, O *)
Theorem C16_neutron_known_values :
  nth 1 neutron_rows 0%Q = (-3739 # 1000)%Q /\ nth 119 neutron_rows 0%Q = (6671 # 1000)%Q /\
  nth 6 neutron_rows 0%Q = (6646 # 1000)%Q /\ nth 7 neutron_rows 0%Q = (936 # 100)%Q /\
  nth 8 neutron_rows 0%Q = (5803 # 1000)%Q.
Proof. exact neutron_known_values. Qed.
Print Assumptions C16_neutron_known_values.

(* density: GIVEN linearity and the 3-D Gaussian integral  Int3(exp(-k r^2)) = (pi/k)^(3/2)  (hypotheses, not proved),
   the density of calculate_density_iso integrates to f(0) = c + sum a_i *)
Theorem C16_density_normalised : forall (Int3 : (R -> R) -> R),
  (forall f h, (forall r2, f r2 = h r2) -> Int3 f = Int3 h) ->
  (forall f h, Int3 (fun r2 => f r2 + h r2)%R = (Int3 f + Int3 h)%R) ->
  (forall a f, Int3 (fun r2 => a * f r2)%R = (a * Int3 f)%R) ->
  (forall k, (0 < k)%R -> Int3 (fun r2 => exp (- k * r2)) = (pow15R (PI / k) * 1)%R) ->
  forall ab c B, (0 < B)%R -> all_pos ab B ->
  Int3 (fun r2 => isoR ab c r2 B) = sfR ab c 0.
Proof. exact density_normalised. Qed.
Print Assumptions C16_density_normalised.

(* and GIVEN the 3-D Fourier transform of a Gaussian, FT3(exp(-k r^2))(s) = (pi/k)^(3/2) exp(-pi^2 s^2/k),
   the transform of the density is  f(s^2/4) * exp(-B s^2/4)  (isotropic case) *)
Theorem C16_density_is_ft_iso : forall (s : R) (FT3 : (R -> R) -> R),
  (forall f h, (forall r2, f r2 = h r2) -> FT3 f = FT3 h) ->
  (forall f h, FT3 (fun r2 => f r2 + h r2)%R = (FT3 f + FT3 h)%R) ->
  (forall a f, FT3 (fun r2 => a * f r2)%R = (a * FT3 f)%R) ->
  (forall k, (0 < k)%R -> FT3 (fun r2 => exp (- k * r2)) = (pow15R (PI / k) * exp (- (PI * PI * s * s) / k))%R) ->
  forall ab c B, (0 < B)%R -> all_pos ab B ->
  FT3 (fun r2 => isoR ab c r2 B) = (sfR ab c (s * s / 4) * exp (- B * (s * s / 4)))%R.
Proof. exact density_is_fourier_transform. Qed.
Print Assumptions C16_density_is_ft_iso.

(* the literal 44.546623974653663 used by precalculate_density_aniso_b is (4 pi)^(3/2) to 1e-13 *)
Theorem C16_pow_4pi_15_literal : (Rabs (dR pow_4pi_15_lit - (4 * PI) * sqrt (4 * PI)) <= 1 / 10 ^ 13)%R.
Proof. exact pow_4pi_15_literal_ok. Qed.
Print Assumptions C16_pow_4pi_15_literal.
