(* Property C14: maps and structure-factor grids are exact discrete Fourier transforms.
   What is a theorem here is the integer/phase bookkeeping that decides WHICH coefficient is put WHERE
   before the FFT (get_f_phi_on_grid): slots never collide, and every written slot holds the true value
   of the index it stands for, for any symmetry-consistent phase function. The numerical identities
   (map = Fourier sum, inverse transform, half/full, XYZ/ZYX) involve pocketfft and floating point and
   are decided by O(N^2) direct-sum oracles on the implementation (see DESIGN.md). *)
From GV Require Import Sym.AsuDefs Move.MoveProofs Fft.Place Fft.PlaceProofs Fft.PlaceWhole Fft.AsuLookup.
Local Open Scope Z_scope.

Theorem C14_slots_do_not_collide : forall g u v w u' v' w',
  g_half g = false ->
  has_index g u v w = true -> has_index g u' v' w' = true ->
  rindex_n g u v w = rindex_n g u' v' w' -> u = u' /\ v = v' /\ w = w'.
Proof. exact rindex_n_injective_full. Qed.
Print Assumptions C14_slots_do_not_collide.

Theorem C14_placed_value_is_true_value : forall (gr : gops) (phi : v3 -> Z),
  (forall o h, In o (sym_ops gr) ->
     (phi (divide_hkl (apply_to_hkl_nodiv o h)) - (phi h - dot h (tran o))) mod 24 = 0) ->
  (forall h, (phi (neg_v3 h) + phi h) mod 24 = 0) ->
  forall g serial hkl o idx sg sh ser,
    In o (sym_ops gr) ->
    place_one g serial hkl o = Some (idx, (ser, sg, sh)) ->
    (sg = 1 \/ sg = -1) /\
    (sg * (phi hkl + sh) - phi (slot_hkl sg (apply_to_hkl o hkl))) mod 24 = 0.
Proof. exact placed_phase_correct. Qed.
Print Assumptions C14_placed_value_is_true_value.

(* ---- the whole of get_f_phi_on_grid (loop over reflections x operations with first-writer-wins, then
   add_friedel_mates), both axis orders, half-l and full grids, ANY reflection list and ANY group:
   SOUND - every entry left in the grid sits in the slot of an index k = +-(h R) of the orbit of the reflection
   (serial) it was taken from, k fits the grid, and the stored phase sign*(phi + shift) is the true phase of k; *)
Theorem C14_whole_grid_sound : forall (gr : gops) (phi : v3 -> Z) (refl : list (Z * v3)),
  (forall o h, In o (sym_ops gr) ->
     (phi (divide_hkl (apply_to_hkl_nodiv o h)) - (phi h - dot h (tran o))) mod 24 = 0) ->
  (forall h, (phi (neg_v3 h) + phi h) mod 24 = 0) ->
  forall size half zyx,
    let '(g, m) := f_phi_on_grid size half zyx gr refl in
    0 < g_nu g -> 0 < g_nw g -> Forall (entry_ok gr phi refl g) m.
Proof. exact f_phi_on_grid_sound. Qed.
Print Assumptions C14_whole_grid_sound.

(* COMPLETE (loop part) - the slot of every symmetry image that fits the grid is filled in the result; *)
Theorem C14_whole_grid_complete : forall size half zyx gr refl ser hkl o idx s,
  In (ser, hkl) refl -> In o (sym_ops gr) ->
  place_one (init_grid size half zyx) ser hkl o = Some (idx, s) ->
  filled (snd (f_phi_on_grid size half zyx gr refl)) idx.
Proof. exact f_phi_on_grid_complete. Qed.
Print Assumptions C14_whole_grid_complete.

(* COMPLETE (Friedel part) - after add_friedel_mates every slot of the region it is responsible for (the whole
   box of a full grid, the plane where the halved axis is 0 of a half grid) whose Friedel-mate slot is filled is
   filled too: with soundness, the grid holds the value of -k wherever it holds the value of k. *)
Theorem C14_friedel_mates_complete : forall g m u v w,
  0 <= u < g_nu g -> 0 <= v < g_nv g -> 0 <= w < g_nw g ->
  (g_half g = true -> if g_zyx g then u = 0 else w = 0) ->
  filled m (index_q g (mate u (g_nu g)) (mate v (g_nv g)) (mate w (g_nw g))) ->
  filled (add_friedel_mates g m) (index_q g u v w).
Proof. exact add_friedel_mates_covers. Qed.
Print Assumptions C14_friedel_mates_complete.

(* non-vacuity: P 21 (row of number 4), 6 x 8 x 10 grid, half-l: reflections (1,2,3) and (0,1,0) give 4 entries (two operations each) *)
Example C14_whole_grid_example :
  match find (fun r => sg_number r =? 4) sg_table with
  | Some r => match operations r with
              | HOk gr => length (snd (f_phi_on_grid (6, 8, 10) true false gr [(1, (1, 2, 3)); (2, (0, 1, 0))]))
              | _ => 0%nat
              end
  | None => 0%nat
  end = 4%nat.
Proof. vm_compute. reflexivity. Qed.


(* ------------------------------------------------------------------------------------------------------------
   prepare_asu_data (recgrid.hpp, XYZ order; Fft/AsuLookup.v): the slot it reads for an index is the slot in which
   get_f_phi_on_grid / the transform keep that index - rindex_n of the index itself, or, on a half-l grid for l < 0, of
   its Friedel mate with the value conjugated - and the slot lies inside the grid for every index the grid holds. *)
Theorem C14_asu_lookup_is_placement_index : forall g h k l,
  asu_lookup g (h, k, l) =
  if g_half g && (l <? 0) then (rindex_n g (- h) (- k) (- l), true) else (rindex_n g h k l, false).
Proof. exact asu_lookup_is_placement_index. Qed.
Print Assumptions C14_asu_lookup_is_placement_index.

Theorem C14_asu_lookup_in_bounds : forall g h k l,
  g_zyx g = false -> 0 < g_nu g -> 0 < g_nv g -> 0 < g_nw g -> has_index g h k l = true ->
  0 <= fst (asu_lookup g (h, k, l)) < g_nu g * g_nv g * g_nw g.
Proof. exact asu_lookup_in_bounds. Qed.
Print Assumptions C14_asu_lookup_in_bounds.
