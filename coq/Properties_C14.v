(* Property C14: maps and structure-factor grids are exact discrete Fourier transforms.
   What is a theorem here is the integer/phase bookkeeping that decides WHICH coefficient is put WHERE
   before the FFT (get_f_phi_on_grid): slots never collide, and every written slot holds the true value
   of the index it stands for, for any symmetry-consistent phase function. The numerical identities
   (map = Fourier sum, inverse transform, half/full, XYZ/ZYX) involve pocketfft and floating point and
   are decided by O(N^2) direct-sum oracles on the implementation (see DESIGN.md). *)
From GV Require Import Sym.AsuDefs Move.MoveProofs Fft.Place Fft.PlaceProofs.
Local Open Scope Z_scope.

Theorem C14_slots_do_not_collide : forall g u v w u' v' w',
  g_half g = false ->
  has_index g u v w = true -> has_index g u' v' w' = true ->
  rindex_n g u v w = rindex_n g u' v' w' -> u = u' /\ v = v' /\ w = w'.
Proof. exact rindex_n_injective_full. Qed.
Print Assumptions C14_slots_do_not_collide.

Theorem C14_placed_value_is_true_value : forall (gr : gops) (phi : v3 -> Z),
  (forall o h, In o (sym_ops gr) ->
     (phi (divide_hkl (apply_to_hkl_nodiv o h)) - (phi h - dot h (tran o))) mod 24 = 0) ->
  (forall h, (phi (neg_v3 h) + phi h) mod 24 = 0) ->
  forall g serial hkl o idx sg sh ser,
    In o (sym_ops gr) ->
    place_one g serial hkl o = Some (idx, (ser, sg, sh)) ->
    (sg = 1 \/ sg = -1) /\
    (sg * (phi hkl + sh) - phi (slot_hkl sg (apply_to_hkl o hkl))) mod 24 = 0.
Proof. exact placed_phase_correct. Qed.
Print Assumptions C14_placed_value_is_true_value.
