(* C19: reference model of the CIF DOM editing API (gemmi cifdoc.hpp / util.hpp).
   Documents are nested lists; every editing operation is a total function returning the new
   document, a status (SOk | SErr = C++ exception | SUB = undefined behaviour in the C++) and the
   observable output.  The model mirrors the code as it is, including which invalid arguments throw
   and whether the document is modified before the throw.  No proofs here (this file is extracted). *)
From Coq Require Import ZArith List Bool.
From GV Require Import Base.Str.
Import ListNotations.
Local Open Scope nat_scope.

(* ------------------------------------------------------------------ strings (util.hpp) *)

Definition lower (c : Z) : Z := if ((65 <=? c) && (c <=? 90))%Z then (c + 32)%Z else c.
Definition to_lower (s : str) : str := map lower s.

(* iequal(str, low): same length and low[i] == lower(str[i]) *)
Fixpoint iequal (s low : str) : bool :=
  match s, low with
  | [], [] => true
  | c :: s', l :: low' => (l =? lower c)%Z && iequal s' low'
  | _, _ => false
  end.

(* istarts_with(str, prefix): prefix[i] == lower(str[i]) *)
Fixpoint istarts_with (s prefix : str) : bool :=
  match prefix with
  | [] => true
  | p :: pr => match s with
               | [] => false
               | c :: s' => (p =? lower c)%Z && istarts_with s' pr
               end
  end.

Fixpoint starts_with (s prefix : str) : bool :=
  match prefix with
  | [] => true
  | p :: pr => match s with
               | [] => false
               | c :: s' => (p =? c)%Z && starts_with s' pr
               end
  end.

(* assert_tag: tag[0] == '_' (an empty std::string has tag[0] == NUL) *)
Definition is_tag (s : str) : bool := match s with 95%Z :: _ => true | _ => false end.
(* '?' *)
Definition is_opt (s : str) : bool := match s with 63%Z :: _ => true | _ => false end.
Definition strip_q (s : str) : str := match s with 63%Z :: t => t | _ => s end.

(* ------------------------------------------------------------------ generic list helpers *)

Fixpoint find_idx {A} (p : A -> bool) (l : list A) : option nat :=
  match l with
  | [] => None
  | x :: t => if p x then Some 0 else option_map S (find_idx p t)
  end.

(* first element on which f answers, with its index *)
Fixpoint find_map_idx {A B} (f : A -> option B) (l : list A) : option (nat * B) :=
  match l with
  | [] => None
  | x :: t => match f x with
              | Some b => Some (0, b)
              | None => match find_map_idx f t with
                        | Some (i, b) => Some (S i, b)
                        | None => None
                        end
              end
  end.

Fixpoint set_nth {A} (n : nat) (x : A) (l : list A) : list A :=
  match l, n with
  | [], _ => []
  | _ :: t, O => x :: t
  | y :: t, S k => y :: set_nth k x t
  end.

Fixpoint filter_map {A B} (f : A -> option B) (l : list A) : list B :=
  match l with
  | [] => []
  | x :: t => match f x with Some b => b :: filter_map f t | None => filter_map f t end
  end.

(* std::rotate-based "move element/row old -> new" on a flat vector with rows of width w *)
Definition move_chunk {A} (w o n : nat) (data : list A) : list A :=
  let row := firstn w (skipn (o * w) data) in
  let rest := firstn (o * w) data ++ skipn (o * w + w) data in
  firstn (n * w) rest ++ row ++ skipn (n * w) rest.

(* ------------------------------------------------------------------ flat-table algorithms (list-level specs) *)

(* vector_insert_columns(data, old_width=w, length=len, n, pos, v) *)
Fixpoint insert_cols {A} (len w n pos : nat) (v : A) (data : list A) : list A :=
  match len with
  | O => []
  | S l => let row := firstn w data in
           firstn pos row ++ repeat v n ++ skipn pos row ++ insert_cols l w n pos v (skipn w data)
  end.

(* the copy loop of vector_remove_column: keep k elements, drop one, keep nw, drop one, ... *)
Fixpoint drop_every {A} (k nw : nat) (data : list A) : list A :=
  match data with
  | [] => []
  | x :: t => match k with
              | O => drop_every nw nw t
              | S k' => x :: drop_every k' nw t
              end
  end.

(* vector_remove_column(data, new_width=nw, pos), as repaired: nothing to do when data has no
   element at pos (a loop with no rows) -- the pinned snapshot did data.resize(pos) there. *)
Definition remove_col (nw pos : nat) (data : list str) : list str :=
  if pos <? length data then drop_every pos nw data else data.

(* ------------------------------------------------------------------ the document *)

Inductive item :=
| Pair (tag value : str)
| Loop (tags values : list str)
| Other (payload : str)     (* save frame / comment: carried around, never edited here *)
| Erased.

Record block := mkBlock { bname : str; bitems : list item }.
Definition doc := list block.

Inductive status := SOk | SErr | SUB.

(* result of a block-level operation *)
Record outcome := mkOut { o_items : list item; o_st : status; o_out : list str }.

Definition ok_ (its : list item) := mkOut its SOk [].
Definition oko (its : list item) (out : list str) := mkOut its SOk out.
Definition err (its : list item) := mkOut its SErr [].
Definition ub (its : list item) := mkOut its SUB [].

Definition num (n : nat) : str := print_int (Z.of_nat n).
Definition znum (z : Z) : str := print_int z.

(* ------------------------------------------------------------------ Loop *)

Definition find_tag_lc (tags : list str) (lc : str) : option nat := find_idx (fun t => iequal t lc) tags.
Definition find_tag (tags : list str) (tag : str) : option nat := find_tag_lc tags (to_lower tag).

(* Loop::add_values(new_values, pos) *)
Definition loop_add_values (tags vals new : list str) (pos : Z) : list str :=
  let w := length tags in
  if ((0 <=? pos)%Z && (pos * Z.of_nat w <? Z.of_nat (length vals))%Z)
  then firstn (Z.to_nat pos * w) vals ++ new ++ skipn (Z.to_nat pos * w) vals
  else vals ++ new.

(* Loop::length(), as repaired: 0 for a loop without tags (the pinned snapshot divided by zero) *)
Definition loop_length (tags vals : list str) : nat :=
  match tags with [] => 0 | _ => length vals / length tags end.

(* Loop::set_all_values(columns): None = exception *)
Fixpoint transpose_rows (h : nat) (cols : list (list str)) : list str :=
  match h with
  | O => []
  | S h' => map (fun c => hd [] c) cols ++ transpose_rows h' (map (fun c => tl c) cols)
  end.

Definition loop_set_all (tags vals : list str) (cols : list (list str)) : option (list str) :=
  if negb (length cols =? length tags) then None
  else match cols with
       | [] => Some vals
       | c0 :: _ =>
         if forallb (fun c => length c =? length c0) cols
         then Some (transpose_rows (length c0) cols) else None
       end.

Inductive loopop :=
| LLook
| LAddRow (vals : list str) (pos : Z)
| LAddValues (vals : list str) (pos : Z)   (* harness guards: whole rows only (documented precondition) *)
| LPopRow
| LMoveRow (o n : Z)                       (* harness guards: valid row indices (documented precondition) *)
| LAddColumns (names : list str) (value : str) (pos : Z)
| LRemoveColumn (name : str)
| LSetAll (cols : list (list str)).

(* result on one loop: new tags/values, status, output *)
Record lres := mkL { l_tags : list str; l_vals : list str; l_st : status; l_out : list str }.

Definition loop_apply (tags vals : list str) (o : loopop) : lres :=
  let same st := mkL tags vals st [] in
  match o with
  | LLook => mkL tags vals SOk (num (length tags) :: num (loop_length tags vals) :: tags ++ vals)
  | LAddRow new pos =>
    if length new =? length tags then mkL tags (loop_add_values tags vals new pos) SOk [] else same SErr
  | LAddValues new pos =>
    match tags with
    | [] => same SErr
    | _ => if (length new) mod (length tags) =? 0
           then mkL tags (loop_add_values tags vals new pos) SOk [] else same SErr
    end
  | LPopRow =>
    if length vals <? length tags then same SErr
    else mkL tags (firstn (length vals - length tags) vals) SOk []
  | LMoveRow o n =>
    let len := loop_length tags vals in
    if ((0 <=? o)%Z && (o <? Z.of_nat len)%Z && (0 <=? n)%Z && (n <? Z.of_nat len)%Z)
    then mkL tags (move_chunk (length tags) (Z.to_nat o) (Z.to_nat n) vals) SOk []
    else same SErr
  | LAddColumns names value pos =>
    if negb (forallb is_tag names) then same SErr
    else
      let len := loop_length tags vals in
      let w := length tags in
      (* min((size_t)pos, old_width): a negative int is a huge size_t *)
      let upos := if ((pos <? 0)%Z || (Z.of_nat w <=? pos)%Z) then w else Z.to_nat pos in
      mkL (firstn upos tags ++ names ++ skipn upos tags)
          (insert_cols len w (length names) upos value vals) SOk []
  | LRemoveColumn name =>
    match find_tag tags name with
    | None => same SErr
    | Some n => mkL (firstn n tags ++ skipn (S n) tags) (remove_col (length tags - 1) n vals) SOk []
    end
  | LSetAll cols =>
    match loop_set_all tags vals cols with
    | None => same SErr
    | Some v => mkL tags v SOk []
    end
  end.

(* ------------------------------------------------------------------ Block lookups *)

Definition pair_is (lc : str) (it : item) : option unit :=
  match it with Pair t _ => if iequal t lc then Some tt else None | _ => None end.

(* Block::find_pair_item(tag) -> index *)
Definition find_pair_item (items : list item) (tag : str) : option nat :=
  option_map fst (find_map_idx (pair_is (to_lower tag)) items).

Definition col_of (lc : str) (it : item) : option nat :=
  match it with
  | Loop tags _ => find_tag_lc tags lc
  | Pair t _ => if iequal t lc then Some 0 else None
  | _ => None
  end.

(* Block::find_values(tag) -> (item index, column) *)
Definition find_values (items : list item) (tag : str) : option (nat * nat) :=
  find_map_idx (col_of (to_lower tag)) items.

Definition is_loop (it : item) : bool := match it with Loop _ _ => true | _ => false end.

(* Block::find_loop(tag) *)
Definition find_loop (items : list item) (tag : str) : option (nat * nat) :=
  match find_values items tag with
  | Some (i, c) => match nth_error items i with
                   | Some (Loop _ _) => Some (i, c)
                   | _ => None
                   end
  | None => None
  end.

(* every len-th element starting at col: the Column iterator *)
Fixpoint column_values (w col : nat) (fuel : nat) (vals : list str) : list str :=
  match fuel with
  | O => []
  | S f => match vals with
           | [] => []
           | _ => nth col vals [] :: column_values w col f (skipn w vals)
           end
  end.

(* Block::find_value(tag): pairs first, then loops with exactly one row *)
Definition one_row_value (lc : str) (it : item) : option str :=
  match it with
  | Loop tags vals => match find_tag_lc tags lc with
                      | Some p => if length tags =? length vals then Some (nth p vals []) else None
                      | None => None
                      end
  | _ => None
  end.
Definition pair_value (lc : str) (it : item) : option str :=
  match it with Pair t v => if iequal t lc then Some v else None | _ => None end.

Definition find_value (items : list item) (tag : str) : option str :=
  let lc := to_lower tag in
  match find_map_idx (pair_value lc) items with
  | Some (_, v) => Some v
  | None => option_map snd (find_map_idx (one_row_value lc) items)
  end.

(* Block::get_index(tag) *)
Definition get_index (items : list item) (tag : str) : option nat :=
  option_map fst (find_map_idx (col_of (to_lower tag)) items).

(* Block::get_mmcif_category_names() *)
Fixpoint index_of_dot (s : str) : option nat :=
  match s with
  | [] => None
  | c :: t => if (c =? 46)%Z then Some 0 else option_map S (index_of_dot t)
  end.

Definition first_tag (it : item) : option str :=
  match it with
  | Pair t _ => Some t
  | Loop (t :: _) _ => Some t
  | _ => None
  end.

Fixpoint cat_names (items : list item) (cats : list str) : list str :=
  match items with
  | [] => cats
  | it :: rest =>
    match first_tag it with
    | None => cat_names rest cats
    | Some tag =>
      if existsb (fun c => starts_with tag c) cats then cat_names rest cats
      else match index_of_dot tag with
           | Some d => cat_names rest (cats ++ [firstn (S d) tag])
           | None => cat_names rest cats
           end
    end
  end.

(* ------------------------------------------------------------------ Table *)

(* loop_item is an index into the block's items; positions may contain -1 (absent ?optional tag) *)
Record table := mkTab { t_loop : option nat; t_pos : list Z; t_plen : nat }.
Definition t_ok (t : table) : bool := match t_pos t with [] => false | _ => true end.

Fixpoint find_in_loop (ltags : list str) (prefix : str) (req : list str) : option (list Z) :=
  match req with
  | [] => Some []
  | tag :: rest =>
    match find_tag ltags (prefix ++ strip_q tag) with
    | Some i => option_map (cons (Z.of_nat i)) (find_in_loop ltags prefix rest)
    | None => if is_opt tag then option_map (cons (-1)%Z) (find_in_loop ltags prefix rest) else None
    end
  end.

Fixpoint find_in_pairs (items : list item) (prefix : str) (req : list str) : option (list Z) :=
  match req with
  | [] => Some []
  | tag :: rest =>
    match find_pair_item items (prefix ++ strip_q tag) with
    | Some i => option_map (cons (Z.of_nat i)) (find_in_pairs items prefix rest)
    | None => if is_opt tag then option_map (cons (-1)%Z) (find_in_pairs items prefix rest) else None
    end
  end.

(* Block::find(prefix, tags); None = exception (first tag is ?optional) *)
Definition blk_find (items : list item) (prefix : str) (tags : list str) : option table :=
  match tags with
  | [] => Some (mkTab None [] (length prefix))
  | t0 :: _ =>
    if is_opt t0 then None
    else
      let notfound := mkTab None [] (length prefix) in
      match find_loop items (prefix ++ t0) with
      | Some (i, _) =>
        match nth_error items i with
        | Some (Loop ltags _) =>
          match find_in_loop ltags prefix tags with
          | Some ps => Some (mkTab (Some i) ps (length prefix))
          | None => Some notfound
          end
        | _ => Some notfound
        end
      | None =>
        match find_in_pairs items prefix tags with
        | Some ps => Some (mkTab None ps (length prefix))
        | None => Some notfound
        end
      end
  end.

(* Block::find_any(prefix, tags) *)
Fixpoint blk_find_any (items : list item) (prefix : str) (tags : list str) : table :=
  match tags with
  | [] => mkTab None [] (length prefix)
  | tag :: rest =>
    match find_values items (prefix ++ tag) with
    | Some (i, c) =>
      match nth_error items i with
      | Some (Loop ltags _) =>
        mkTab (Some i)
              (Z.of_nat c :: filter_map (fun t => option_map Z.of_nat (find_tag ltags (prefix ++ t))) rest)
              (length prefix)
      | _ =>
        mkTab None
              (Z.of_nat i :: filter_map (fun t => option_map Z.of_nat (find_pair_item items (prefix ++ t))) rest)
              (length prefix)
      end
    | None => blk_find_any items prefix rest
    end
  end.

(* ensure_mmcif_category: None = exception *)
Definition ensure_cat (cat : str) : option str :=
  match cat with
  | 95%Z :: _ => Some (if (last cat 0%Z =? 46)%Z then cat else cat ++ [46%Z])
  | _ => None
  end.

Definition has_prefix (it : item) (lcprefix : str) : bool :=
  match it with
  | Pair t _ => istarts_with t lcprefix
  | Loop (t :: _) _ => istarts_with t lcprefix
  | _ => false
  end.

Fixpoint find_cat_go (items : list item) (cat : str) (i : nat) (acc : list Z) : option table :=
  match items with
  | [] => Some (mkTab None acc (length cat))
  | it :: rest =>
    if has_prefix it cat then
      match it with
      | Loop tags _ =>
        if forallb (fun t => istarts_with t cat) tags
        then Some (mkTab (Some i) (map Z.of_nat (seq 0 (length tags))) (length cat))
        else None
      | _ => find_cat_go rest cat (S i) (acc ++ [Z.of_nat i])
      end
    else find_cat_go rest cat (S i) acc
  end.

(* Block::find_mmcif_category(cat); None = exception *)
Definition blk_find_cat (items : list item) (cat : str) : option table :=
  match ensure_cat cat with
  | None => None
  | Some c => find_cat_go items (to_lower c) 0 []
  end.

(* Item::erase() on the pairs of a table *)
Fixpoint erase_positions (items : list item) (ps : list Z) : list item :=
  match ps with
  | [] => items
  | p :: rest => erase_positions (if (p <? 0)%Z then items else set_nth (Z.to_nat p) Erased items) rest
  end.

(* Block::setup_loop_item(tab, prefix, tags): (items', index of the loop item, ok).
   As in the C++, the item is cleared / created BEFORE the tags are validated. *)
Definition setup_loop_item (items : list item) (tab : table) (prefix : str) (tags : list str)
  : list item * nat * bool :=
  let '(items1, idx) :=
    match t_loop tab with
    | Some i => (set_nth i (Loop [] []) items, i)
    | None =>
      match t_pos tab with
      | p0 :: _ => (set_nth (Z.to_nat p0) (Loop [] []) (erase_positions items (t_pos tab)), Z.to_nat p0)
      | [] => (items ++ [Loop [] []], length items)
      end
    end in
  let full := map (fun t => prefix ++ t) tags in
  if forallb is_tag full then (set_nth idx (Loop full []) items1, idx, true)
  else (items1, idx, false).

Inductive finder :=
| FFind (prefix : str) (tags : list str)
| FAny (prefix : str) (tags : list str)
| FOrAdd (prefix : str) (tags : list str)
| FCat (cat : str).

(* run the finder: new items (find_or_add edits), table or exception *)
Definition run_finder (items : list item) (f : finder) : list item * option table :=
  match f with
  | FFind p tags => (items, blk_find items p tags)
  | FAny p tags => (items, Some (blk_find_any items p tags))
  | FCat c => (items, blk_find_cat items c)
  | FOrAdd p tags =>
    match blk_find items p tags with
    | None => (items, None)
    | Some t =>
      if t_ok t then (items, Some t)
      else
        let tab := blk_find_any items p tags in
        let '(items', idx, ok) := setup_loop_item items tab p tags in
        if ok then (items', Some (mkTab (Some idx) (map Z.of_nat (seq 0 (length tags))) (length p)))
        else (items', None)
    end
  end.

(* the loop behind a table *)
Definition tab_loop (items : list item) (t : table) : option (nat * list str * list str) :=
  match t_loop t with
  | Some i => match nth_error items i with
              | Some (Loop tags vals) => Some (i, tags, vals)
              | _ => None
              end
  | None => None
  end.

(* Table::length(); None = the loop item is not a loop (cannot happen for a fresh table) *)
Definition tab_length (items : list item) (t : table) : option nat :=
  match t_loop t with
  | Some _ => match tab_loop items t with
              | Some (_, tags, vals) => Some (loop_length tags vals)
              | None => None
              end
  | None => Some (if t_ok t then 1 else 0)
  end.

(* Table::at_check(n): Some row | None = out_of_range *)
Definition at_check (len : nat) (n : Z) : option nat :=
  let n' := if (n <? 0)%Z then (n + Z.of_nat len)%Z else n in
  if ((n' <? 0)%Z || (Z.of_nat len <=? n')%Z) then None else Some (Z.to_nat n').

(* Table::ensure_loop(), as repaired: a table that was not found throws; absent optional columns
   (position -1) are left out of the new loop and keep position -1.
   Returns items', table', status. *)
Definition pair_parts (it : option item) : option (str * str) :=
  match it with Some (Pair t v) => Some (t, v) | _ => None end.

(* walk the positions: collect tags/values of the pairs, erase them, renumber *)
Fixpoint ensure_go (items : list item) (ps : list Z) (n : nat) (tags vals : list str) (newpos : list Z)
  : option (list item * list str * list str * list Z) :=
  match ps with
  | [] => Some (items, tags, vals, newpos)
  | p :: rest =>
    if (p <? 0)%Z then ensure_go items rest n tags vals (newpos ++ [(-1)%Z])
    else match pair_parts (nth_error items (Z.to_nat p)) with
         | Some (t, v) => ensure_go (set_nth (Z.to_nat p) Erased items) rest (S n)
                                    (tags ++ [t]) (vals ++ [v]) (newpos ++ [Z.of_nat n])
         | None => None     (* the same pair twice in one table: the C++ reads a destroyed item *)
         end
  end.

Definition tab_ensure_loop (items : list item) (t : table) : list item * table * status :=
  match t_loop t with
  | Some _ => (items, t, SOk)
  | None =>
    match t_pos t with
    | [] => (items, t, SErr)
    | p0 :: _ =>
      match ensure_go items (t_pos t) 0 [] [] [] with
      | None => (items, t, SUB)
      | Some (items', tags, vals, newpos) =>
        (set_nth (Z.to_nat p0) (Loop tags vals) items', mkTab (Some (Z.to_nat p0)) newpos (t_plen t), SOk)
      end
    end
  end.

(* Table::append_row(new_values), as repaired: values for absent optional columns are dropped *)
Fixpoint write_row (base : nat) (ps : list Z) (new : list str) (vals : list str) : list str :=
  match ps, new with
  | p :: ps', v :: new' =>
    write_row base ps' new' (if (p <? 0)%Z then vals else set_nth (base + Z.to_nat p) v vals)
  | _, _ => vals
  end.

Inductive tabop :=
| TLook
| TAppend (vals : list str)
| TRemoveRows (s e : Z)
| TMoveRow (o n : Z)
| TEnsureLoop
| TErase
| TColErase (n : Z).

(* cell (row, column n) through Row::ptr_at: None = null pointer *)
Definition tab_cell (items : list item) (t : table) (row : option nat) (p : Z) : str :=
  if (p <? 0)%Z then [63%Z; 63%Z]        (* "??" marks an absent column in the dump *)
  else
    match tab_loop items t with
    | Some (_, tags, vals) =>
      match row with
      | None => nth (Z.to_nat p) tags []
      | Some r => nth (length tags * r + Z.to_nat p) vals []
      end
    | None =>
      match nth_error items (Z.to_nat p) with
      | Some (Pair tg v) => match row with None => tg | Some _ => v end
      | _ => []
      end
    end.

Definition tab_look (items : list item) (t : table) : option (list str) :=
  if negb (t_ok t) then Some [num 0]
  else
    match tab_length items t with
    | None => None
    | Some len =>
      Some (num 1 :: num (length (t_pos t)) :: num len
            :: num (match t_loop t with Some _ => 1 | None => 0 end)
            :: map znum (t_pos t)
            ++ map (tab_cell items t None) (t_pos t)
            ++ flat_map (fun r => map (tab_cell items t (Some r)) (t_pos t)) (seq 0 len))
    end.

Definition tab_apply (items : list item) (t : table) (o : tabop) : outcome :=
  match o with
  | TLook =>
    match tab_look items t with
    | Some out => oko items out
    | None => ub items
    end
  | TAppend new =>
    if negb (t_ok t) then err items
    else if negb (length new =? length (t_pos t)) then err items
    else match t_loop t with
         | None => err items
         | Some i =>
           match nth_error items i with
           | Some (Loop tags vals) =>
             let cur := length vals in
             let vals1 := vals ++ repeat [46%Z] (length tags) in
             ok_ (set_nth i (Loop tags (write_row cur (t_pos t) new vals1)) items)
           | _ => ub items
           end
         end
  | TRemoveRows s e =>
    if negb (t_ok t) then err items
    else
      let '(items1, t1, st) := tab_ensure_loop items t in
      match st with
      | SOk =>
        match tab_loop items1 t1 with
        | Some (i, tags, vals) =>
          let w := length tags in
          (* size_t arithmetic: a negative int becomes huge *)
          let sp := (s * Z.of_nat w)%Z in
          let ep := (e * Z.of_nat w)%Z in
          if ((s <? 0)%Z || (e <? 0)%Z || (ep <=? sp)%Z || (Z.of_nat (length vals) <? ep)%Z) then err items1
          else ok_ (set_nth i (Loop tags (firstn (Z.to_nat sp) vals ++ skipn (Z.to_nat ep) vals)) items1)
        | None => ub items1
        end
      | _ => mkOut items1 st []
      end
  | TMoveRow o n =>
    match tab_length items t with
    | None => ub items
    | Some len =>
      match at_check len o, at_check len n with
      | Some o', Some n' =>
        match tab_loop items t with
        | Some (i, tags, vals) => ok_ (set_nth i (Loop tags (move_chunk (length tags) o' n' vals)) items)
        | None => ok_ items
        end
      | _, _ => err items
      end
    end
  | TEnsureLoop =>
    (* the handle (positions, loop item) after ensure_loop() is observable: it is dumped like TLook *)
    let '(items1, t1, st) := tab_ensure_loop items t in
    match st with
    | SOk => match tab_look items1 t1 with
             | Some out => mkOut items1 SOk out
             | None => ub items1
             end
    | _ => mkOut items1 st []
    end
  | TErase =>
    match t_loop t with
    | Some i => ok_ (set_nth i Erased items)
    | None => ok_ (erase_positions items (t_pos t))
    end
  | TColErase n =>
    (* positions.at(n) *)
    if ((n <? 0)%Z || (Z.of_nat (length (t_pos t)) <=? n)%Z) then err items
    else
      let p := nth (Z.to_nat n) (t_pos t) (-1)%Z in
      if (p <? 0)%Z then err items
      else match t_loop t with
           | Some i =>
             match nth_error items i with
             | Some (Loop tags vals) =>
               let c := Z.to_nat p in
               if c <? length tags
               then ok_ (set_nth i (Loop (firstn c tags ++ skipn (S c) tags) (remove_col (length tags - 1) c vals)) items)
               else ub items      (* remove_column_at precondition n < tags.size() *)
             | _ => ub items
             end
           | None => ok_ (set_nth (Z.to_nat p) Erased items)
           end
  end.

(* ------------------------------------------------------------------ Block editing *)

(* ItemSpan(items).set_pair(tag, value) *)
Fixpoint set_pair_go (items : list item) (tag lc value : str) : option (list item) :=
  match items with
  | [] => None
  | it :: rest =>
    let hit := match it with
               | Pair t _ => iequal t lc
               | Loop tags _ => match find_tag_lc tags lc with Some _ => true | None => false end
               | _ => false
               end in
    if hit then Some (Pair tag value :: rest)
    else option_map (cons it) (set_pair_go rest tag lc value)
  end.

Definition blk_set_pair (items : list item) (tag value : str) : outcome :=
  if negb (is_tag tag) then err items
  else match set_pair_go items tag (to_lower tag) value with
       | Some items' => ok_ items'
       | None => ok_ (items ++ [Pair tag value])
       end.

(* add_row() calls on the Loop& returned by init_loop; stops at the first exception *)
Fixpoint add_rows (tags vals : list str) (rows : list (list str)) : list str * bool :=
  match rows with
  | [] => (vals, true)
  | r :: rest => if length r =? length tags then add_rows tags (vals ++ r) rest else (vals, false)
  end.

Definition after_setup (r : list item * nat * bool) (rows : list (list str)) : outcome :=
  let '(items', idx, ok) := r in
  if negb ok then err items'
  else match nth_error items' idx with
       | Some (Loop tags vals) =>
         let '(vals', ok') := add_rows tags vals rows in
         mkOut (set_nth idx (Loop tags vals') items') (if ok' then SOk else SErr) []
       | _ => ub items'
       end.

Definition blk_init_loop (items : list item) (prefix : str) (tags : list str) (rows : list (list str)) : outcome :=
  after_setup (setup_loop_item items (blk_find_any items prefix tags) prefix tags) rows.

Definition blk_init_mmcif_loop (items : list item) (cat : str) (tags : list str) (rows : list (list str)) : outcome :=
  match ensure_cat cat with
  | None => err items
  | Some c =>
    match find_cat_go items (to_lower c) 0 [] with
    | None => err items
    | Some tab => after_setup (setup_loop_item items tab c tags) rows
    end
  end.

(* Block::move_item(old_pos, new_pos) *)
Definition blk_move_item (items : list item) (o n : Z) : outcome :=
  let sz := Z.of_nat (length items) in
  let o' := if (o <? 0)%Z then (o + sz)%Z else o in
  if ((o' <? 0)%Z || (sz <=? o')%Z) then err items
  else
    let n' := if (n <? 0)%Z then (n + sz)%Z else n in
    if ((n' <? 0)%Z || (sz <=? n')%Z) then err items
    else ok_ (move_chunk 1 (Z.to_nat o') (Z.to_nat n') items).

(* ------------------------------------------------------------------ operations of a history *)

Inductive op :=
| OAddBlock (name : str) (pos : Z)
| OSetPair (b : nat) (tag value : str)
| OInitLoop (b : nat) (prefix : str) (tags : list str) (rows : list (list str))
| OInitMmcifLoop (b : nat) (cat : str) (tags : list str) (rows : list (list str))
| OMoveItem (b : nat) (o n : Z)
| OTable (b : nat) (f : finder) (t : tabop)
| OLoop (b : nat) (tag : str) (l : loopop)          (* on find_loop(tag).get_loop() *)
| OColErase (b : nat) (tag : str)                   (* find_values(tag).erase() *)
| OFindValue (b : nat) (tag : str)
| OFindValues (b : nat) (tag : str)
| OGetIndex (b : nat) (tag : str)
| OHasTag (b : nat) (tag : str)
| OCats (b : nat).

Definition blk_apply (items : list item) (o : op) : outcome :=
  match o with
  | OAddBlock _ _ => err items
  | OSetPair _ tag value => blk_set_pair items tag value
  | OInitLoop _ p tags rows => blk_init_loop items p tags rows
  | OInitMmcifLoop _ c tags rows => blk_init_mmcif_loop items c tags rows
  | OMoveItem _ o n => blk_move_item items o n
  | OTable _ f t =>
    match run_finder items f with
    | (items1, None) => err items1
    | (items1, Some tab) => tab_apply items1 tab t
    end
  | OLoop _ tag l =>
    match find_loop items tag with
    | None => err items
    | Some (i, _) =>
      match nth_error items i with
      | Some (Loop tags vals) =>
        let r := loop_apply tags vals l in
        mkOut (set_nth i (Loop (l_tags r) (l_vals r)) items) (l_st r) (l_out r)
      | _ => ub items
      end
    end
  | OColErase _ tag =>
    match find_values items tag with
    | None => ok_ items
    | Some (i, c) =>
      match nth_error items i with
      | Some (Loop tags vals) =>
        ok_ (set_nth i (Loop (firstn c tags ++ skipn (S c) tags) (remove_col (length tags - 1) c vals)) items)
      | _ => ok_ (set_nth i Erased items)
      end
    end
  | OFindValue _ tag =>
    oko items (match find_value items tag with Some v => [num 1; v] | None => [num 0] end)
  | OFindValues _ tag =>
    match find_values items tag with
    | None => oko items [num 0]
    | Some (i, c) =>
      match nth_error items i with
      | Some (Loop tags vals) =>
        oko items (num 1 :: num i :: num c :: num (loop_length tags vals)
                   :: column_values (length tags) c (length vals) vals)
      | Some (Pair _ v) => oko items [num 1; num i; num c; num 1; v]
      | _ => ub items
      end
    end
  | OGetIndex _ tag =>
    match get_index items tag with
    | Some i => oko items [num i]
    | None => err items
    end
  | OHasTag _ tag =>
    oko items [num (match find_values items tag with Some _ => 1 | None => 0 end)]
  | OCats _ => oko items (cat_names items [])
  end.

Definition op_block (o : op) : option nat :=
  match o with
  | OAddBlock _ _ => None
  | OSetPair b _ _ | OInitLoop b _ _ _ | OInitMmcifLoop b _ _ _ | OMoveItem b _ _ | OTable b _ _
  | OLoop b _ _ | OColErase b _ | OFindValue b _ | OFindValues b _ | OGetIndex b _ | OHasTag b _
  | OCats b => Some b
  end.

Record sres := mkS { s_doc : doc; s_st : status; s_out : list str }.

(* Document::add_new_block(name, pos) *)
Definition doc_add_block (d : doc) (name : str) (pos : Z) : sres :=
  if existsb (fun b => str_eqb (bname b) name) d then mkS d SErr []
  else if ((0 <? pos)%Z && (Z.of_nat (length d) <? pos)%Z) then mkS d SErr []
  else if (pos <? 0)%Z then mkS (d ++ [mkBlock name []]) SOk []
  else mkS (firstn (Z.to_nat pos) d ++ mkBlock name [] :: skipn (Z.to_nat pos) d) SOk [].

(* one step of a history; blocks.at(b) throws when b is out of range *)
Definition step (d : doc) (o : op) : sres :=
  match o with
  | OAddBlock name pos => doc_add_block d name pos
  | _ =>
    match op_block o with
    | None => mkS d SErr []
    | Some b =>
      match nth_error d b with
      | None => mkS d SErr []
      | Some blk =>
        let r := blk_apply (bitems blk) o in
        mkS (set_nth b (mkBlock (bname blk) (o_items r)) d) (o_st r) (o_out r)
      end
    end
  end.

(* a history: the document after all steps (a step with undefined behaviour ends the history) *)
Fixpoint run (d : doc) (ops : list op) : doc :=
  match ops with
  | [] => d
  | o :: rest => let r := step d o in
                 match s_st r with SUB => s_doc r | _ => run (s_doc r) rest end
  end.
