(* C19 refinement: the in-place loop of gemmi::vector_remove_column (util.hpp), written as an
   index-level array program (reads and writes on ONE array), computes the list-level specification
   remove_col used by the model.  Key invariant: the write cursor stays strictly below the read cursor,
   so no element is read after it was overwritten. *)
From Coq Require Import ZArith List Bool Lia Arith.
From GV Require Import Base.Str Dom.Dom Dom.DomProofs.
Import ListNotations.
Local Open Scope nat_scope.

Section RemoveColumn.
Variable nw : nat.            (* new_width *)

(* for (i = 0; i < new_width && source < data.size(); ++i) data[pos++] = data[source++]; *)
Fixpoint rc_inner (i : nat) (a : list str) (pos source : nat) : list str * nat * nat :=
  match i with
  | O => (a, pos, source)
  | S i' => if source <? length a
            then rc_inner i' (set_nth pos (nth source a []) a) (S pos) (S source)
            else (a, pos, source)
  end.

(* for (source = pos + 1; source < data.size(); ++source) <inner> *)
Fixpoint rc_outer (fuel : nat) (a : list str) (pos source : nat) : list str * nat :=
  match fuel with
  | O => (a, pos)
  | S f => if source <? length a
           then let '(a', p', s') := rc_inner nw a pos source in rc_outer f a' p' (S s')
           else (a, pos)
  end.

(* the whole function (with the early return of the repaired code); data.resize(pos) at the end *)
Definition remove_column_prog (pos : nat) (a : list str) : list str :=
  if pos <? length a
  then let '(a', p') := rc_outer (length a) a pos (S pos) in firstn p' a'
  else a.

Lemma firstn_set_nth_S : forall (a : list str) p x, p < length a ->
  firstn (S p) (set_nth p x a) = firstn p a ++ [x].
Proof.
  induction a as [|y t IH]; intros [|p] x H; simpl in *; try lia; auto.
  f_equal. apply IH. lia.
Qed.

Lemma skipn_set_nth_lt : forall (a : list str) p s x, p < s -> skipn s (set_nth p x a) = skipn s a.
Proof.
  induction a as [|y t IH]; intros p s x H.
  - destruct p; destruct s; reflexivity.
  - destruct s as [|s]; [lia|]. destruct p as [|p]; simpl; auto. apply IH. lia.
Qed.

Lemma skipn_nth_cons : forall (a : list str) s, s < length a ->
  skipn s a = nth s a [] :: skipn (S s) a.
Proof.
  induction a as [|y t IH]; intros [|s] H; simpl in *; try lia; auto.
  apply IH. lia.
Qed.

Lemma skipn_add : forall (a : list str) x y, skipn x (skipn y a) = skipn (x + y) a.
Proof.
  intros a x y. revert a. induction y as [|y IH]; intros a.
  - rewrite Nat.add_0_r. reflexivity.
  - destruct a as [|h t].
    + rewrite !skipn_nil. reflexivity.
    + rewrite Nat.add_succ_r. simpl. apply IH.
Qed.

Lemma rc_inner_spec : forall i a p s a' p' s',
  p < s -> rc_inner i a p s = (a', p', s') ->
  length a' = length a /\
  firstn p' a' = firstn p a ++ firstn i (skipn s a) /\
  skipn s' a' = skipn s' a /\
  s' = s + Nat.min i (length a - s) /\ p' = p + Nat.min i (length a - s).
Proof.
  induction i as [|i IH]; intros a p s a' p' s' Hps H; simpl in H.
  - inversion H; subst. simpl. rewrite app_nil_r. repeat split; lia.
  - destruct (s <? length a) eqn:E.
    + apply Nat.ltb_lt in E.
      apply IH in H; [|lia].
      rewrite set_nth_length in H.
      destruct H as [H1 [H2 [H3 [H4 H5]]]].
      rewrite firstn_set_nth_S in H2 by lia.
      rewrite skipn_set_nth_lt in H2 by lia.
      rewrite skipn_set_nth_lt in H3 by lia.
      repeat split; auto; try lia.
      rewrite H2. rewrite (skipn_nth_cons a s E). simpl. rewrite <- app_assoc. reflexivity.
    + apply Nat.ltb_ge in E. inversion H; subst.
      rewrite skipn_all2 by lia. rewrite firstn_nil, app_nil_r.
      repeat split; lia.
Qed.

Lemma rc_outer_spec : forall fuel a p s a' p',
  p < s -> length a - s <= fuel -> rc_outer fuel a p s = (a', p') ->
  firstn p' a' = firstn p a ++ drop_every nw nw (skipn s a).
Proof.
  induction fuel as [|f IH]; intros a p s a' p' Hps Hf H; simpl in H.
  - inversion H; subst. rewrite skipn_all2 by lia. simpl. rewrite app_nil_r. reflexivity.
  - destruct (s <? length a) eqn:E.
    + apply Nat.ltb_lt in E.
      destruct (rc_inner nw a p s) as [[a1 p1] s1] eqn:EI.
      apply rc_inner_spec in EI; auto.
      destruct EI as [H1 [H2 [H3 [H4 H5]]]].
      apply IH in H; try lia.
      assert (H3' : skipn (S s1) a1 = skipn (S s1) a).
      { change (S s1) with (1 + s1). rewrite <- (skipn_add a1 1 s1), <- (skipn_add a 1 s1), H3. reflexivity. }
      rewrite H, H2, H3'. rewrite <- app_assoc. f_equal.
      destruct (Nat.lt_ge_cases nw (length (skipn s a))) as [Hlt|Hge].
      * rewrite (drop_every_split _ (skipn s a) nw nw Hlt).
        f_equal. rewrite skipn_add. rewrite skipn_length in Hlt.
        replace (S s1) with (S nw + s) by lia. reflexivity.
      * rewrite (drop_every_short _ (skipn s a) nw nw Hge).
        rewrite skipn_length in Hge.
        rewrite (skipn_all2 a (n := S s1)) by lia. simpl. rewrite app_nil_r.
        apply firstn_all2. rewrite skipn_length. lia.
    + apply Nat.ltb_ge in E. inversion H; subst.
      rewrite skipn_all2 by lia. simpl. rewrite app_nil_r. reflexivity.
Qed.

(* the array program IS the list-level specification used by the model *)
Lemma remove_column_refines : forall pos a, remove_column_prog pos a = remove_col nw pos a.
Proof.
  intros pos a. unfold remove_column_prog, remove_col.
  destruct (pos <? length a) eqn:E; auto.
  apply Nat.ltb_lt in E.
  destruct (rc_outer (length a) a pos (S pos)) as [a' p'] eqn:EO.
  apply rc_outer_spec in EO; try lia.
  rewrite EO. symmetry. apply drop_every_split. exact E.
Qed.

End RemoveColumn.
