(* C19: proofs about the DOM model. *)
From Coq Require Import ZArith List Bool Lia.
From GV Require Import Base.Str Dom.Dom.
Import ListNotations.
Local Open Scope nat_scope.

Lemma set_nth_length : forall A (l : list A) n x, length (set_nth n x l) = length l.
Proof. induction l as [|y t IH]; intros [|n] x; simpl; auto. Qed.
