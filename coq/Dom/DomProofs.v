(* C19: proofs about the DOM model: the rectangular invariant is preserved by every operation and
   every history; rejected operations; lookup-after-edit laws. *)
From Coq Require Import ZArith List Bool Lia Arith.
From GV Require Import Base.Str Dom.Dom.
Import ListNotations.
Local Open Scope nat_scope.

(* ------------------------------------------------------------------ generic list facts *)

Lemma set_nth_length : forall A (l : list A) n x, length (set_nth n x l) = length l.
Proof. induction l as [|y t IH]; intros [|n] x; simpl; auto. Qed.

Lemma Forall_set_nth : forall A (P : A -> Prop) (l : list A) n x,
  Forall P l -> P x -> Forall P (set_nth n x l).
Proof.
  induction l as [|y t IH]; intros [|n] x Hl Hx; simpl; auto;
    inversion Hl; subst; constructor; auto.
Qed.

Lemma Forall_firstn : forall A (P : A -> Prop) n (l : list A), Forall P l -> Forall P (firstn n l).
Proof.
  induction n as [|n IH]; intros [|y t] H; simpl; auto.
  inversion H; subst; constructor; auto.
Qed.

Lemma Forall_skipn : forall A (P : A -> Prop) n (l : list A), Forall P l -> Forall P (skipn n l).
Proof.
  induction n as [|n IH]; intros [|y t] H; simpl; auto.
  inversion H; subst; auto.
Qed.

Lemma Forall_app2 : forall A (P : A -> Prop) (a b : list A), Forall P a -> Forall P b -> Forall P (a ++ b).
Proof. intros. apply Forall_app; auto. Qed.

Lemma nth_error_set_nth_same : forall A (l : list A) n x,
  n < length l -> nth_error (set_nth n x l) n = Some x.
Proof.
  induction l as [|y t IH]; intros [|n] x H; simpl in *; try lia; auto.
  apply IH; lia.
Qed.

Lemma nth_error_set_nth_other : forall A (l : list A) n m x,
  n <> m -> nth_error (set_nth n x l) m = nth_error l m.
Proof.
  induction l as [|y t IH]; intros [|n] [|m] x H; simpl; auto; try congruence.
Qed.

Lemma move_chunk_Forall : forall A (P : A -> Prop) w o n (l : list A),
  Forall P l -> Forall P (move_chunk w o n l).
Proof.
  intros. unfold move_chunk.
  repeat (apply Forall_app2 || apply Forall_firstn || apply Forall_skipn); auto.
Qed.

Lemma move_chunk_length : forall A w o n (l : list A),
  o * w + w <= length l -> length (move_chunk w o n l) = length l.
Proof.
  intros A w o n l H. unfold move_chunk.
  rewrite !app_length.
  assert (Hrow : length (firstn w (skipn (o * w) l)) = w).
  { rewrite firstn_length, skipn_length. lia. }
  rewrite Hrow.
  set (rest := firstn (o * w) l ++ skipn (o * w + w) l).
  assert (Hrest : length rest = length l - w).
  { unfold rest. rewrite app_length, firstn_length, skipn_length. lia. }
  assert (Hsplit : length (firstn (n * w) rest) + length (skipn (n * w) rest) = length rest).
  { rewrite <- app_length, firstn_skipn. reflexivity. }
  lia.
Qed.

(* ------------------------------------------------------------------ flat-table algorithms: sizes *)

Lemma insert_cols_length : forall A len w n pos (v : A) data,
  pos <= w -> length data = len * w ->
  length (insert_cols len w n pos v data) = len * (w + n).
Proof.
  induction len as [|l IH]; intros w n pos v data Hp Hd; simpl; auto.
  rewrite !app_length, repeat_length.
  rewrite IH by (auto; rewrite skipn_length; simpl in Hd; lia).
  assert (Hrow : length (firstn w data) = w) by (rewrite firstn_length; simpl in Hd; lia).
  assert (Hs : length (firstn pos (firstn w data)) + length (skipn pos (firstn w data)) = w).
  { rewrite <- app_length, firstn_skipn. exact Hrow. }
  lia.
Qed.

Lemma drop_every_short : forall A (data : list A) p nw, length data <= p -> drop_every p nw data = data.
Proof.
  induction data as [|x t IH]; intros p nw H; simpl; auto.
  destruct p as [|p]; simpl in H; try lia.
  f_equal. apply IH. lia.
Qed.

Lemma drop_every_split : forall A (data : list A) p nw, p < length data ->
  drop_every p nw data = firstn p data ++ drop_every nw nw (skipn (S p) data).
Proof.
  induction data as [|x t IH]; intros p nw H; simpl in H; try lia.
  destruct p as [|p]; simpl; auto.
  f_equal. apply IH. lia.
Qed.

Lemma drop_every_length_gen : forall A k nw r (data : list A),
  r <= nw -> length data = k * S nw + r -> length (drop_every nw nw data) = k * nw + r.
Proof.
  induction k as [|k IH]; intros nw r data Hr Hd.
  - rewrite drop_every_short by lia. lia.
  - rewrite drop_every_split by (simpl in Hd; lia).
    rewrite app_length, firstn_length.
    rewrite (IH nw r) by (auto; rewrite skipn_length; simpl in Hd; lia).
    simpl in Hd. simpl. lia.
Qed.

Lemma drop_every_length : forall A k nw p (data : list A),
  p <= nw -> length data = k * S nw -> length (drop_every p nw data) = k * nw.
Proof.
  intros A k nw p data Hp Hd.
  destruct k as [|k].
  - simpl in Hd. destruct data; simpl in *; lia.
  - rewrite drop_every_split by (simpl in Hd; lia).
    rewrite app_length, firstn_length.
    rewrite (drop_every_length_gen A k nw (nw - p)); try lia.
    rewrite skipn_length. simpl in Hd. lia.
Qed.

Lemma remove_col_length : forall k nw p data,
  p <= nw -> length data = k * S nw -> length (remove_col nw p data) = k * nw.
Proof.
  intros k nw p data Hp Hd. unfold remove_col.
  destruct (p <? length data) eqn:E.
  - apply drop_every_length; auto.
  - apply Nat.ltb_ge in E. destruct k as [|k]; simpl in Hd; lia.
Qed.

(* ------------------------------------------------------------------ the invariant *)

Definition rect_loop (tags vals : list str) : Prop := exists k, length vals = k * length tags.

Definition rect_item (it : item) : Prop :=
  match it with Loop tags vals => rect_loop tags vals | _ => True end.

Definition RectItems (its : list item) : Prop := Forall rect_item its.
Definition Rect (d : doc) : Prop := Forall (fun b => RectItems (bitems b)) d.

Lemma rect_nil_vals : forall tags, rect_loop tags [].
Proof. intros. exists 0. reflexivity. Qed.

Lemma rect_one_row : forall tags vals, length vals = length tags -> rect_loop tags vals.
Proof. intros. exists 1. lia. Qed.

Lemma rect_length : forall tags vals, rect_loop tags vals -> tags <> [] ->
  length vals = loop_length tags vals * length tags.
Proof.
  intros tags vals [k Hk] Hne. unfold loop_length.
  destruct tags as [|t0 tr]; [congruence|].
  rewrite Hk. rewrite Nat.div_mul by (simpl; lia). reflexivity.
Qed.

Lemma find_idx_lt : forall A (p : A -> bool) l i, find_idx p l = Some i -> i < length l.
Proof.
  induction l as [|x t IH]; intros i H; simpl in *; try discriminate.
  destruct (p x). { inversion H; lia. }
  destruct (find_idx p t) as [j|]; simpl in H; try discriminate.
  inversion H; subst. specialize (IH j eq_refl). lia.
Qed.

(* removing column c of a rectangular loop *)
Lemma rect_remove_col : forall tags vals c, c < length tags -> rect_loop tags vals ->
  rect_loop (firstn c tags ++ skipn (S c) tags) (remove_col (length tags - 1) c vals).
Proof.
  intros tags vals c Hc [k Hk].
  exists k.
  rewrite app_length, firstn_length, skipn_length.
  rewrite (remove_col_length k (length tags - 1) c); try lia.
  - f_equal. lia.
  - replace (S (length tags - 1)) with (length tags) by lia. exact Hk.
Qed.

(* ------------------------------------------------------------------ Loop operations *)

Lemma add_values_rect : forall tags vals new pos,
  rect_loop tags vals -> rect_loop tags new -> rect_loop tags (loop_add_values tags vals new pos).
Proof.
  intros tags vals new pos [k Hk] [j Hj]. exists (k + j).
  unfold loop_add_values.
  destruct (_ && _).
  - rewrite !app_length.
    assert (length (firstn (Z.to_nat pos * length tags) vals) + length (skipn (Z.to_nat pos * length tags) vals)
            = length vals) by (rewrite <- app_length, firstn_skipn; reflexivity).
    lia.
  - rewrite app_length. lia.
Qed.

Lemma transpose_rows_length : forall h cols, length (transpose_rows h cols) = h * length cols.
Proof.
  induction h as [|h IH]; intros cols; simpl; auto.
  rewrite app_length, map_length, IH, map_length. reflexivity.
Qed.

Lemma loop_apply_rect : forall tags vals o,
  rect_loop tags vals ->
  rect_loop (l_tags (loop_apply tags vals o)) (l_vals (loop_apply tags vals o)).
Proof.
  intros tags vals o HR.
  destruct o as [|new pos|new pos| |o n|names value pos|name|cols].
  - simpl; auto.
  - (* add_row *) simpl.
    destruct (length new =? length tags) eqn:E; simpl; auto.
    apply Nat.eqb_eq in E. apply add_values_rect; auto. apply rect_one_row; auto.
  - (* add_values *)
    unfold loop_apply.
    destruct tags as [|t0 tr]; [simpl; auto|]. cbv beta iota.
    set (tg := t0 :: tr) in *.
    assert (Hw : length tg <> 0) by (unfold tg; simpl; lia).
    destruct (length new mod length tg =? 0) eqn:E; cbn [l_tags l_vals]; auto.
    apply Nat.eqb_eq in E. apply add_values_rect; auto.
    exists (length new / length tg).
    pose proof (Nat.div_mod (length new) (length tg) Hw) as Hdm.
    rewrite E in Hdm. lia.
  - (* pop_row *) simpl.
    destruct (length vals <? length tags) eqn:E; simpl; auto.
    apply Nat.ltb_ge in E. destruct HR as [k Hk].
    exists (k - 1). rewrite firstn_length.
    destruct k as [|k]; simpl in *; try lia; nia.
  - (* move_row *) simpl.
    destruct (_ && _) eqn:E; simpl; auto.
    destruct HR as [k Hk]. exists k.
    rewrite move_chunk_length; auto.
    repeat (apply andb_prop in E; destruct E as [E ?]).
    destruct tags as [|t0 tr].
    + simpl in *. lia.
    + assert (Hlen : length vals = loop_length (t0 :: tr) vals * length (t0 :: tr)).
      { apply rect_length; [exists k; auto | discriminate]. }
      apply Z.ltb_lt in H1. apply Z.leb_le in E.
      assert (Z.to_nat o < loop_length (t0 :: tr) vals) by lia.
      nia.
  - (* add_columns *) simpl.
    destruct (negb (forallb is_tag names)); simpl; auto.
    set (w := length tags).
    set (upos := if ((pos <? 0)%Z || (Z.of_nat w <=? pos)%Z) then w else Z.to_nat pos).
    assert (Hu : upos <= w).
    { unfold upos. destruct (_ || _) eqn:E; lia. }
    exists (loop_length tags vals).
    destruct tags as [|t0 tr].
    + (* no tags: no values *)
      destruct HR as [k Hk]. simpl in Hk. rewrite Nat.mul_0_r in Hk.
      unfold loop_length. simpl. reflexivity.
    + rewrite insert_cols_length; auto.
      * rewrite !app_length, firstn_length, skipn_length. fold w. lia.
      * apply rect_length; [auto | discriminate].
  - (* remove_column *) simpl.
    destruct (find_tag tags name) as [n|] eqn:E; simpl; auto.
    apply rect_remove_col; auto.
    unfold find_tag, find_tag_lc in E. eapply find_idx_lt; eauto.
  - (* set_all_values *) cbn [loop_apply].
    unfold loop_set_all.
    destruct (negb (length cols =? length tags)) eqn:E; cbn [l_tags l_vals]; auto.
    apply negb_false_iff, Nat.eqb_eq in E.
    destruct cols as [|c0 cr]; cbn [l_tags l_vals]; auto.
    destruct (forallb _ _); cbn [l_tags l_vals]; auto.
    exists (length c0). rewrite transpose_rows_length. rewrite <- E. reflexivity.
Qed.

(* ------------------------------------------------------------------ Block / Table operations *)

Lemma rect_nth : forall items i tags vals,
  RectItems items -> nth_error items i = Some (Loop tags vals) -> rect_loop tags vals.
Proof.
  intros items i tags vals HR Hn. unfold RectItems in HR. rewrite Forall_forall in HR.
  apply nth_error_In in Hn. exact (HR _ Hn).
Qed.

Lemma rect_set_loop : forall items i tags vals,
  RectItems items -> rect_loop tags vals -> RectItems (set_nth i (Loop tags vals) items).
Proof. intros. apply Forall_set_nth; auto. Qed.

Lemma rect_set_simple : forall items i it,
  RectItems items -> rect_item it -> RectItems (set_nth i it items).
Proof. intros. apply Forall_set_nth; auto. Qed.

Lemma erase_positions_rect : forall ps items, RectItems items -> RectItems (erase_positions items ps).
Proof.
  induction ps as [|p rest IH]; intros items H; simpl; auto.
  apply IH. destruct (p <? 0)%Z; auto. apply rect_set_simple; simpl; auto.
Qed.

Lemma setup_loop_item_rect : forall items tab prefix tags,
  RectItems items -> RectItems (fst (fst (setup_loop_item items tab prefix tags))).
Proof.
  intros items tab prefix tags H. unfold setup_loop_item.
  assert (Hempty : rect_item (Loop [] [])) by (simpl; apply rect_nil_vals).
  destruct (t_loop tab) as [i|].
  - destruct (forallb _ _); cbn [fst].
    + apply rect_set_loop; [apply rect_set_simple; auto | apply rect_nil_vals].
    + apply rect_set_simple; auto.
  - destruct (t_pos tab) as [|p0 pr].
    + destruct (forallb _ _); cbn [fst].
      * apply rect_set_loop; [apply Forall_app2; auto; try (repeat constructor; auto; fail) | apply rect_nil_vals].
      * apply Forall_app2; auto; try (repeat constructor; auto; fail).
    + destruct (forallb _ _); cbn [fst].
      * apply rect_set_loop; [|apply rect_nil_vals].
        apply rect_set_simple; auto. apply erase_positions_rect; auto.
      * apply rect_set_simple; auto. apply erase_positions_rect; auto.
Qed.

Lemma ensure_go_inv : forall ps items n tags vals np items' tags' vals' np',
  ensure_go items ps n tags vals np = Some (items', tags', vals', np') ->
  RectItems items -> length vals = length tags ->
  RectItems items' /\ length vals' = length tags'.
Proof.
  induction ps as [|p rest IH]; intros items n tags vals np items' tags' vals' np' H HR HL; simpl in H.
  - inversion H; subst; auto.
  - destruct (p <? 0)%Z.
    + eapply IH; eauto.
    + destruct (pair_parts (nth_error items (Z.to_nat p))) as [[t v]|]; try discriminate.
      eapply IH; eauto.
      * apply rect_set_simple; simpl; auto.
      * rewrite !app_length; simpl; lia.
Qed.

Lemma tab_ensure_loop_rect : forall items t,
  RectItems items -> RectItems (fst (fst (tab_ensure_loop items t))).
Proof.
  intros items t H. unfold tab_ensure_loop.
  destruct (t_loop t); [simpl; auto|].
  destruct (t_pos t) as [|p0 pr]; [simpl; auto|].
  destruct (ensure_go items (p0 :: pr) 0 [] [] []) as [[[[items' tags] vals] np]|] eqn:E; cbn [fst]; auto.
  apply ensure_go_inv in E; auto. destruct E as [HR HL].
  apply rect_set_loop; auto. apply rect_one_row; auto.
Qed.

Lemma write_row_length : forall ps base new vals, length (write_row base ps new vals) = length vals.
Proof.
  induction ps as [|p rest IH]; intros base new vals; simpl; auto.
  destruct new as [|v new']; auto.
  rewrite IH. destruct (p <? 0)%Z; auto. apply set_nth_length.
Qed.

Lemma tab_loop_some : forall items t i tags vals,
  tab_loop items t = Some (i, tags, vals) -> nth_error items i = Some (Loop tags vals).
Proof.
  intros items t i tags vals H. unfold tab_loop in H.
  destruct (t_loop t) as [j|]; try discriminate.
  destruct (nth_error items j) as [[| tg vl | |]|] eqn:E; try discriminate.
  inversion H; subst. exact E.
Qed.

Lemma tab_apply_rect : forall items t o,
  RectItems items -> RectItems (o_items (tab_apply items t o)).
Proof.
  intros items t o HR.
  destruct o as [|new|s e|o n| | |n].
  - (* look *) simpl. destruct (tab_look items t); simpl; auto.
  - (* append_row *) simpl.
    destruct (negb (t_ok t)); simpl; auto.
    destruct (negb (length new =? length (t_pos t))); simpl; auto.
    destruct (t_loop t) as [i|]; simpl; auto.
    destruct (nth_error items i) as [[| tags vals | |]|] eqn:E; simpl; auto.
    apply rect_set_loop; auto.
    destruct (rect_nth _ _ _ _ HR E) as [k Hk]. exists (S k).
    rewrite write_row_length, app_length, repeat_length. simpl. lia.
  - (* remove_rows *) simpl.
    destruct (negb (t_ok t)); simpl; auto.
    pose proof (tab_ensure_loop_rect items t HR) as H1.
    destruct (tab_ensure_loop items t) as [[items1 t1] st]. simpl in H1.
    destruct st; simpl; auto.
    destruct (tab_loop items1 t1) as [[[i tags] vals]|] eqn:E; simpl; auto.
    destruct (_ || _) eqn:EC; simpl; auto.
    apply rect_set_loop; auto.
    apply tab_loop_some in E.
    destruct (rect_nth _ _ _ _ H1 E) as [k Hk].
    set (w := length tags) in *.
    exists (k - (Z.to_nat e - Z.to_nat s)).
    rewrite app_length, firstn_length, skipn_length.
    assert (Hs : (0 <= s)%Z) by lia. assert (He : (0 <= e)%Z) by lia.
    assert (Hse : (s * Z.of_nat w < e * Z.of_nat w)%Z) by lia.
    assert (Hel : (e * Z.of_nat w <= Z.of_nat (length vals))%Z) by lia.
    rewrite Hk in *.
    assert (E1 : Z.to_nat (s * Z.of_nat w) = Z.to_nat s * w) by nia.
    assert (E2 : Z.to_nat (e * Z.of_nat w) = Z.to_nat e * w) by nia.
    rewrite E1, E2.
    assert (Z.to_nat s < Z.to_nat e) by nia.
    assert (Z.to_nat e * w <= k * w) by nia.
    assert (Z.to_nat e <= k \/ w = 0) by nia.
    nia.
  - (* move_row *) simpl.
    destruct (tab_length items t) as [len|] eqn:EL; simpl; auto.
    destruct (at_check len o) as [o'|] eqn:EO; simpl; auto.
    destruct (at_check len n) as [n'|] eqn:EN; simpl; auto.
    destruct (tab_loop items t) as [[[i tags] vals]|] eqn:E; simpl; auto.
    apply rect_set_loop; auto.
    pose proof (tab_loop_some _ _ _ _ _ E) as E'.
    destruct (rect_nth _ _ _ _ HR E') as [k Hk]. exists k.
    rewrite move_chunk_length; auto.
    (* o' < len = loop_length tags vals *)
    assert (Hlen0 : len = loop_length tags vals).
    { unfold tab_length in EL. rewrite E in EL. unfold tab_loop in E.
      destruct (t_loop t); [inversion EL; auto | discriminate]. }
    subst len.
    unfold at_check in EO.
    destruct (_ || _) eqn:EC in EO; try discriminate. inversion EO; subst o'.
    destruct tags as [|t0 tr].
    + unfold loop_length in *. simpl in *. lia.
    + assert (Hlen : length vals = loop_length (t0 :: tr) vals * length (t0 :: tr)).
      { apply rect_length; [exists k; auto | discriminate]. }
      assert (Z.to_nat (if (o <? 0)%Z then (o + Z.of_nat (loop_length (t0 :: tr) vals))%Z else o)
              < loop_length (t0 :: tr) vals) by lia.
      nia.
  - (* ensure_loop *) simpl.
    pose proof (tab_ensure_loop_rect items t HR) as H1.
    destruct (tab_ensure_loop items t) as [[items1 t1] st]. simpl in *.
    destruct st; simpl; auto. destruct (tab_look items1 t1); simpl; auto.
  - (* erase *) simpl.
    destruct (t_loop t); simpl.
    + apply rect_set_simple; simpl; auto.
    + apply erase_positions_rect; auto.
  - (* column(n).erase() *) simpl.
    destruct (_ || _); simpl; auto.
    destruct (nth (Z.to_nat n) (t_pos t) (-1)%Z <? 0)%Z eqn:EP; simpl; auto.
    destruct (t_loop t) as [i|]; simpl.
    + destruct (nth_error items i) as [[| tags vals | |]|] eqn:E; simpl; auto.
      pose proof (rect_nth _ _ _ _ HR E) as HRL.
      destruct (_ <? length tags) eqn:Hc; simpl; auto.
      apply Nat.ltb_lt in Hc.
      apply rect_set_loop; auto. apply rect_remove_col; auto.
    + apply rect_set_simple; simpl; auto.
Qed.

Lemma set_pair_go_rect : forall items tag lc value items',
  set_pair_go items tag lc value = Some items' -> RectItems items -> RectItems items'.
Proof.
  induction items as [|it rest IH]; intros tag lc value items' H HR; simpl in H; try discriminate.
  inversion HR; subst.
  match type of H with (if ?c then _ else _) = _ => destruct c end.
  - inversion H; subst. constructor; simpl; auto.
  - destruct (set_pair_go rest tag lc value) as [r|] eqn:E; simpl in H; try discriminate.
    inversion H; subst. constructor; auto. eapply IH; eauto.
Qed.

Lemma add_rows_rect : forall rows tags vals,
  rect_loop tags vals -> rect_loop tags (fst (add_rows tags vals rows)).
Proof.
  induction rows as [|r rest IH]; intros tags vals H; simpl; auto.
  destruct (length r =? length tags) eqn:E; simpl; auto.
  apply IH. apply Nat.eqb_eq in E. destruct H as [k Hk]. exists (S k).
  rewrite app_length. simpl. lia.
Qed.

Lemma after_setup_rect : forall r rows,
  RectItems (fst (fst r)) -> RectItems (o_items (after_setup r rows)).
Proof.
  intros [[items' idx] ok] rows H. simpl in H. unfold after_setup.
  destruct (negb ok); simpl; auto.
  destruct (nth_error items' idx) as [[| tags vals | |]|] eqn:E; simpl; auto.
  pose proof (add_rows_rect rows tags vals (rect_nth _ _ _ _ H E)) as HA.
  destruct (add_rows tags vals rows) as [vals' ok']. simpl in *.
  apply rect_set_loop; auto.
Qed.

Lemma run_finder_rect : forall items f,
  RectItems items -> RectItems (fst (run_finder items f)).
Proof.
  intros items f H. destruct f as [p tags|p tags|p tags|c]; simpl; auto.
  destruct (blk_find items p tags) as [t|]; simpl; auto.
  destruct (t_ok t); simpl; auto.
  pose proof (setup_loop_item_rect items (blk_find_any items p tags) p tags H) as HS.
  destruct (setup_loop_item items (blk_find_any items p tags) p tags) as [[items' idx] ok].
  simpl in HS. destruct ok; simpl; auto.
Qed.

Lemma blk_apply_rect : forall items o, RectItems items -> RectItems (o_items (blk_apply items o)).
Proof.
  intros items o HR.
  destruct o as [name pos|b tag value|b p tags rows|b c tags rows|b o n|b f t|b tag l|b tag
                 |b tag|b tag|b tag|b tag|b]; cbn [blk_apply]; auto.
  - (* set_pair *)
    unfold blk_set_pair. destruct (negb (is_tag tag)); simpl; auto.
    destruct (set_pair_go items tag (to_lower tag) value) as [r|] eqn:E; simpl.
    + eapply set_pair_go_rect; eauto.
    + apply Forall_app2; auto. repeat constructor.
  - (* init_loop *)
    unfold blk_init_loop. apply after_setup_rect. apply setup_loop_item_rect; auto.
  - (* init_mmcif_loop *)
    unfold blk_init_mmcif_loop.
    destruct (ensure_cat c) as [c'|]; simpl; auto.
    destruct (find_cat_go items (to_lower c') 0 []) as [tab|]; simpl; auto.
    apply after_setup_rect. apply setup_loop_item_rect; auto.
  - (* move_item *)
    unfold blk_move_item.
    destruct (_ || _); simpl; auto.
    destruct (_ || _); simpl; auto.
    apply move_chunk_Forall; auto.
  - (* table *)
    pose proof (run_finder_rect items f HR) as HF.
    destruct (run_finder items f) as [items1 [tab|]]; simpl in *; auto.
    apply tab_apply_rect; auto.
  - (* loop *)
    destruct (find_loop items tag) as [[i c]|]; simpl; auto.
    destruct (nth_error items i) as [[| tags vals | |]|] eqn:E; simpl; auto.
    apply rect_set_loop; auto.
    apply loop_apply_rect. eapply rect_nth; eauto.
  - (* Column::erase *)
    destruct (find_values items tag) as [[i c]|] eqn:EF; simpl; auto.
    destruct (nth_error items i) as [[| tags vals | |]|] eqn:E; simpl; auto;
      try (apply rect_set_simple; simpl; auto; fail).
    apply rect_set_loop; auto.
    (* the column index comes from find_tag_lc on this very loop *)
    assert (Hc : c < length tags).
    { unfold find_values in EF.
      assert (G : forall l i0 c0, find_map_idx (col_of (to_lower tag)) l = Some (i0, c0) ->
                  forall tg vl, nth_error l i0 = Some (Loop tg vl) -> c0 < length tg).
      { induction l as [|x t IH]; intros i0 c0 Hf tg vl Hn; simpl in Hf; try discriminate.
        destruct (col_of (to_lower tag) x) as [cc|] eqn:EC.
        - inversion Hf; subst. simpl in Hn. inversion Hn; subst. simpl in EC.
          unfold find_tag_lc in EC. eapply find_idx_lt; eauto.
        - destruct (find_map_idx (col_of (to_lower tag)) t) as [[j cj]|] eqn:ER; try discriminate.
          inversion Hf; subst. simpl in Hn. eapply IH; eauto. }
      eapply G; eauto. }
    apply rect_remove_col; auto. eapply rect_nth; eauto.
  - (* find_values *)
    destruct (find_values items tag) as [[i c]|]; simpl; auto.
    destruct (nth_error items i) as [[| tags vals | |]|]; simpl; auto.
  - (* get_index *) destruct (get_index items tag); simpl; auto.
Qed.

(* ------------------------------------------------------------------ documents and histories *)

Lemma step_rect : forall d o, Rect d -> Rect (s_doc (step d o)).
Proof.
  intros d o HR.
  assert (HB : forall b, Rect (s_doc (match nth_error d b with
              | None => mkS d SErr []
              | Some blk => let r := blk_apply (bitems blk) o in
                  mkS (set_nth b (mkBlock (bname blk) (o_items r)) d) (o_st r) (o_out r) end))).
  { intro b. destruct (nth_error d b) as [blk|] eqn:E; simpl; auto.
    apply Forall_set_nth; auto. simpl. apply blk_apply_rect.
    unfold Rect in HR. rewrite Forall_forall in HR. apply HR. eapply nth_error_In; eauto. }
  unfold step.
  destruct o as [name pos|b tag value|b p tags rows|b c tags rows|b o n|b f t|b tag l|b tag
                 |b tag|b tag|b tag|b tag|b];
    try (cbv beta iota; cbn [op_block]; apply HB).
  (* add_new_block *)
  unfold doc_add_block.
  destruct (existsb _ d); simpl; auto.
  destruct (_ && _); simpl; auto.
  destruct (pos <? 0)%Z; simpl.
  - apply Forall_app2; auto. repeat constructor.
  - apply Forall_app2; [apply Forall_firstn; auto|].
    constructor; [constructor | apply Forall_skipn; auto].
Qed.

(* every history, of any length *)
Lemma run_rect : forall ops d, Rect d -> Rect (run d ops).
Proof.
  induction ops as [|o rest IH]; intros d H; simpl; auto.
  pose proof (step_rect d o H) as HS.
  destruct (s_st (step d o)); auto.
Qed.

Lemma fold_rect : forall ops d, Rect d ->
  Rect (fold_left (fun d o => s_doc (step d o)) ops d).
Proof.
  induction ops as [|o rest IH]; intros d H; simpl; auto.
  apply IH. apply step_rect; auto.
Qed.

Lemma rect_empty_doc : Rect [].
Proof. constructor. Qed.

Lemma run_rect_empty : forall ops, Rect (run [] ops).
Proof. intro ops. apply run_rect. exact rect_empty_doc. Qed.

(* ------------------------------------------------------------------ rejected operations *)

Lemma set_nth_same : forall A (l : list A) n x, nth_error l n = Some x -> set_nth n x l = l.
Proof.
  induction l as [|y t IH]; intros [|n] x H; simpl in *; try discriminate; auto.
  - inversion H; auto.
  - f_equal. apply IH; auto.
Qed.

(* operations with the strong guarantee: an exception leaves the document exactly as it was.
   The others (init_loop / init_mmcif_loop / find_or_add validate the tags after clearing the old
   loop; remove_rows converts pairs to a loop before checking the range) only keep it rectangular. *)
Definition strong_guarantee (o : op) : bool :=
  match o with
  | OInitLoop _ _ _ _ | OInitMmcifLoop _ _ _ _ => false
  | OTable _ (FOrAdd _ _) _ => false
  | OTable _ _ (TRemoveRows _ _) => false
  | _ => true
  end.

Lemma loop_apply_err : forall tags vals l,
  l_st (loop_apply tags vals l) = SErr ->
  l_tags (loop_apply tags vals l) = tags /\ l_vals (loop_apply tags vals l) = vals.
Proof.
  intros tags vals l.
  destruct l as [|new pos|new pos| |o n|names value pos|name|cols]; cbn [loop_apply].
  - simpl. discriminate.
  - destruct (length new =? length tags); simpl; auto; discriminate.
  - destruct tags as [|t0 tr]; [simpl; auto|].
    destruct (_ =? 0); simpl; auto; discriminate.
  - destruct (length vals <? length tags); simpl; auto; discriminate.
  - destruct (_ && _); simpl; auto; discriminate.
  - destruct (negb (forallb is_tag names)); simpl; auto; discriminate.
  - destruct (find_tag tags name); simpl; auto; discriminate.
  - destruct (loop_set_all tags vals cols); simpl; auto; discriminate.
Qed.

Lemma tab_apply_err : forall items t o,
  (match o with TRemoveRows _ _ => false | _ => true end) = true ->
  o_st (tab_apply items t o) = SErr -> o_items (tab_apply items t o) = items.
Proof.
  intros items t o Hs.
  destruct o as [|new|s e|o n| | |n]; try discriminate Hs; cbn [tab_apply].
  - destruct (tab_look items t); simpl; auto.
  - destruct (negb (t_ok t)); simpl; auto.
    destruct (negb (length new =? length (t_pos t))); simpl; auto.
    destruct (t_loop t) as [i|]; simpl; auto.
    destruct (nth_error items i) as [[| tags vals | |]|]; simpl; auto; discriminate.
  - destruct (tab_length items t) as [len|]; simpl; auto.
    destruct (at_check len o); simpl; auto.
    destruct (at_check len n); simpl; auto.
    destruct (tab_loop items t) as [[[i tags] vals]|]; simpl; auto; discriminate.
  - unfold tab_ensure_loop.
    destruct (t_loop t) eqn:ETL; [destruct (tab_look items t); simpl; auto; discriminate|].
    destruct (t_pos t) as [|p0 pr]; [simpl; auto|].
    destruct (ensure_go items (p0 :: pr) 0 [] [] []) as [[[[items' tags] vals] np]|]; simpl; auto.
    match goal with |- context [tab_look ?a ?b] => destruct (tab_look a b) end; simpl; discriminate.
  - destruct (t_loop t); simpl; discriminate.
  - destruct (_ || _); simpl; auto.
    destruct (_ <? 0)%Z; simpl; auto.
    destruct (t_loop t) as [i|]; simpl; try discriminate.
    destruct (nth_error items i) as [[| tags vals | |]|]; simpl; auto.
    destruct (_ <? length tags); simpl; auto; discriminate.
Qed.

Lemma blk_apply_err : forall items o,
  strong_guarantee o = true -> o_st (blk_apply items o) = SErr -> o_items (blk_apply items o) = items.
Proof.
  intros items o Hs.
  destruct o as [name pos|b tag value|b p tags rows|b c tags rows|b o n|b f t|b tag l|b tag
                 |b tag|b tag|b tag|b tag|b]; try discriminate Hs; cbn [blk_apply]; auto.
  - unfold blk_set_pair. destruct (negb (is_tag tag)); simpl; auto.
    destruct (set_pair_go items tag (to_lower tag) value); simpl; discriminate.
  - unfold blk_move_item.
    destruct (_ || _); simpl; auto.
    destruct (_ || _); simpl; auto. discriminate.
  - destruct f as [p tags|p tags|p tags|c]; try discriminate Hs; simpl run_finder.
    + destruct (blk_find items p tags) as [tab|]; auto.
      apply tab_apply_err. destruct t; auto; discriminate Hs.
    + apply tab_apply_err. destruct t; auto; discriminate Hs.
    + destruct (blk_find_cat items c) as [tab|]; auto.
      apply tab_apply_err. destruct t; auto; discriminate Hs.
  - destruct (find_loop items tag) as [[i c]|]; simpl; auto.
    destruct (nth_error items i) as [[| tags vals | |]|] eqn:E; simpl; auto.
    intro H. apply loop_apply_err in H. destruct H as [H1 H2]. rewrite H1, H2.
    apply set_nth_same; auto.
  - destruct (find_values items tag) as [[i c]|]; simpl; auto.
    destruct (nth_error items i) as [[| tags vals | |]|]; simpl; discriminate.
  - destruct (find_values items tag) as [[i c]|]; simpl; auto.
    destruct (nth_error items i) as [[| tags vals | |]|]; simpl; auto.
  - destruct (get_index items tag); simpl; auto.
Qed.

Lemma block_eta : forall blk, mkBlock (bname blk) (bitems blk) = blk.
Proof. destruct blk; reflexivity. Qed.

Lemma step_err_unchanged : forall d o,
  strong_guarantee o = true -> s_st (step d o) = SErr -> s_doc (step d o) = d.
Proof.
  intros d o Hs.
  assert (HB : forall b,
    s_st (match nth_error d b with
          | None => mkS d SErr []
          | Some blk => let r := blk_apply (bitems blk) o in
              mkS (set_nth b (mkBlock (bname blk) (o_items r)) d) (o_st r) (o_out r) end) = SErr ->
    s_doc (match nth_error d b with
          | None => mkS d SErr []
          | Some blk => let r := blk_apply (bitems blk) o in
              mkS (set_nth b (mkBlock (bname blk) (o_items r)) d) (o_st r) (o_out r) end) = d).
  { intro b. destruct (nth_error d b) as [blk|] eqn:E; simpl; auto.
    intro H. rewrite (blk_apply_err _ _ Hs H). rewrite block_eta. apply set_nth_same; auto. }
  unfold step.
  destruct o as [name pos|b tag value|b p tags rows|b c tags rows|b o n|b f t|b tag l|b tag
                 |b tag|b tag|b tag|b tag|b];
    try (cbv beta iota; cbn [op_block]; apply HB).
  unfold doc_add_block.
  destruct (existsb _ d); simpl; auto.
  destruct (_ && _); simpl; auto.
  destruct (pos <? 0)%Z; simpl; discriminate.
Qed.

(* ------------------------------------------------------------------ lookup after edit *)

Lemma iequal_spec : forall s low, iequal s low = true <-> to_lower s = low.
Proof.
  induction s as [|c s IH]; intros [|l low]; simpl; split; intro H; try discriminate; auto.
  - apply andb_prop in H. destruct H as [H1 H2]. apply Z.eqb_eq in H1. apply IH in H2. subst. reflexivity.
  - inversion H; subst. rewrite Z.eqb_refl. simpl. apply IH. reflexivity.
Qed.

Lemma iequal_to_lower : forall s, iequal s (to_lower s) = true.
Proof. intro s. apply iequal_spec. reflexivity. Qed.

(* the document after set_pair, whether the tag was found or appended *)
Definition after_set_pair (items : list item) (tag value : str) : list item :=
  match set_pair_go items tag (to_lower tag) value with
  | Some r => r
  | None => items ++ [Pair tag value]
  end.

Lemma blk_set_pair_items : forall items tag value, is_tag tag = true ->
  o_items (blk_set_pair items tag value) = after_set_pair items tag value /\
  o_st (blk_set_pair items tag value) = SOk.
Proof.
  intros items tag value Ht. unfold blk_set_pair, after_set_pair. rewrite Ht. simpl.
  destruct (set_pair_go items tag (to_lower tag) value); simpl; auto.
Qed.

Lemma find_value_set_pair : forall items tag value,
  find_value (after_set_pair items tag value) tag = Some value.
Proof.
  intros items tag value. unfold find_value, after_set_pair.
  set (lc := to_lower tag).
  assert (Hi : iequal tag lc = true) by (unfold lc; apply iequal_to_lower).
  assert (G : forall its, exists i,
    find_map_idx (pair_value lc)
      (match set_pair_go its tag lc value with Some r => r | None => its ++ [Pair tag value] end)
    = Some (i, value)).
  { induction its as [|it rest IH]; simpl.
    - rewrite Hi. eauto.
    - match goal with |- context [if ?c then _ else _] => destruct c eqn:EH end.
      + simpl. rewrite Hi. eauto.
      + assert (Hn : pair_value lc it = None).
        { destruct it as [t v| tg vl | p |]; simpl in *; auto. rewrite EH. reflexivity. }
        destruct IH as [i Hfound].
        destruct (set_pair_go rest tag lc value) as [r|]; simpl; rewrite Hn, Hfound; eauto. }
  destruct (G items) as [i Hfound]. rewrite Hfound. reflexivity.
Qed.

Lemma find_map_idx_ext : forall A B (f : A -> option B) (l l' : list A),
  Forall2 (fun a b => f a = f b) l l' -> find_map_idx f l = find_map_idx f l'.
Proof.
  intros A B f l l' H. induction H as [|a b l l' Hab Hl IH]; simpl; auto.
  rewrite Hab, IH. reflexivity.
Qed.

Lemma find_map_idx_app_none : forall A B (f : A -> option B) (l : list A) x,
  f x = None -> find_map_idx f (l ++ [x]) = find_map_idx f l.
Proof.
  intros A B f l x Hx. induction l as [|a l IH]; simpl.
  - rewrite Hx. reflexivity.
  - rewrite IH. reflexivity.
Qed.

(* When the tag is not a column of some loop (set_pair would then replace that whole loop),
   every OTHER tag -- compared case-insensitively -- is looked up exactly as before. *)
Lemma find_value_set_pair_other : forall items tag value tag',
  (forall tags vals, In (Loop tags vals) items -> find_tag_lc tags (to_lower tag) = None) ->
  to_lower tag' <> to_lower tag ->
  find_value (after_set_pair items tag value) tag' = find_value items tag'.
Proof.
  intros items tag value tag' Hnl Hne. unfold find_value, after_set_pair.
  set (lc := to_lower tag). set (lc' := to_lower tag').
  assert (Hnew1 : pair_value lc' (Pair tag value) = None).
  { simpl. destruct (iequal tag lc') eqn:E; auto. apply iequal_spec in E. unfold lc, lc' in *. congruence. }
  assert (Hnew2 : one_row_value lc' (Pair tag value) = None) by reflexivity.
  assert (G : forall its,
    (forall tags vals, In (Loop tags vals) its -> find_tag_lc tags lc = None) ->
    match set_pair_go its tag lc value with
    | Some r => Forall2 (fun a b => pair_value lc' a = pair_value lc' b) r its /\
                Forall2 (fun a b => one_row_value lc' a = one_row_value lc' b) r its
    | None => True
    end).
  { induction its as [|it rest IH]; intros Hl; simpl; auto.
    assert (Hrefl1 : forall l : list item, Forall2 (fun a b => pair_value lc' a = pair_value lc' b) l l)
      by (induction l; constructor; auto).
    assert (Hrefl2 : forall l : list item, Forall2 (fun a b => one_row_value lc' a = one_row_value lc' b) l l)
      by (induction l; constructor; auto).
    match goal with |- context [if ?c then _ else _] => destruct c eqn:EH end.
    - destruct it as [t v| tg vl | p |]; simpl in EH; try discriminate.
      + split; constructor; auto.
        simpl. apply iequal_spec in EH.
        destruct (iequal t lc') eqn:E2; [apply iequal_spec in E2; unfold lc, lc' in *; congruence|].
        destruct (iequal tag lc') eqn:E3; [apply iequal_spec in E3; unfold lc, lc' in *; congruence|]. reflexivity.
      + rewrite (Hl tg vl) in EH by (left; reflexivity). discriminate.
    - specialize (IH (fun tags vals Hin => Hl tags vals (or_intror Hin))).
      destruct (set_pair_go rest tag lc value) as [r|]; simpl; auto.
      destruct IH as [I1 I2]. split; constructor; auto. }
  specialize (G items Hnl).
  destruct (set_pair_go items tag lc value) as [r|].
  - destruct G as [G1 G2].
    rewrite (find_map_idx_ext _ _ _ _ _ G1), (find_map_idx_ext _ _ _ _ _ G2). reflexivity.
  - rewrite !find_map_idx_app_none; auto.
Qed.

(* row counts *)
Lemma add_row_count : forall tags vals new pos,
  tags <> [] -> rect_loop tags vals -> length new = length tags ->
  l_st (loop_apply tags vals (LAddRow new pos)) = SOk /\
  loop_length tags (l_vals (loop_apply tags vals (LAddRow new pos))) = S (loop_length tags vals).
Proof.
  intros tags vals new pos Hne HR Hl. cbn [loop_apply].
  rewrite Hl, Nat.eqb_refl. simpl. split; auto.
  assert (HR' : rect_loop tags (loop_add_values tags vals new pos)).
  { apply add_values_rect; auto. apply rect_one_row; auto. }
  pose proof (rect_length _ _ HR Hne) as H1.
  pose proof (rect_length _ _ HR' Hne) as H2.
  assert (H3 : length (loop_add_values tags vals new pos) = length vals + length new).
  { unfold loop_add_values. destruct (_ && _).
    - rewrite !app_length.
      assert (length (firstn (Z.to_nat pos * length tags) vals) + length (skipn (Z.to_nat pos * length tags) vals)
              = length vals) by (rewrite <- app_length, firstn_skipn; reflexivity). lia.
    - rewrite app_length. lia. }
  destruct tags as [|t0 tr]; [congruence|].
  assert (length (t0 :: tr) > 0) by (simpl; lia). nia.
Qed.

Lemma add_row_wrong_length : forall tags vals new pos,
  length new <> length tags ->
  l_st (loop_apply tags vals (LAddRow new pos)) = SErr /\
  l_vals (loop_apply tags vals (LAddRow new pos)) = vals.
Proof.
  intros tags vals new pos H. cbn [loop_apply].
  apply Nat.eqb_neq in H. rewrite H. simpl. auto.
Qed.

Lemma pop_row_count : forall tags vals,
  tags <> [] -> rect_loop tags vals -> 0 < loop_length tags vals ->
  l_st (loop_apply tags vals LPopRow) = SOk /\
  S (loop_length tags (l_vals (loop_apply tags vals LPopRow))) = loop_length tags vals /\
  l_vals (loop_apply tags vals LPopRow) = firstn (length vals - length tags) vals.
Proof.
  intros tags vals Hne HR Hpos. cbn [loop_apply].
  pose proof (rect_length _ _ HR Hne) as H1.
  destruct tags as [|t0 tr]; [congruence|].
  assert (Hw0 : 0 < length (t0 :: tr)) by (simpl; lia).
  remember (t0 :: tr) as tg eqn:Etg.
  assert (Hw : 0 < length tg) by exact Hw0.
  assert (E : length vals <? length tg = false) by (apply Nat.ltb_ge; nia).
  rewrite E. simpl. split; auto. split; auto.
  remember (loop_length tg vals) as L eqn:EL.
  destruct L as [|L]; [lia|].
  assert (Hf : length (firstn (length vals - length tg) vals) = L * length tg).
  { rewrite firstn_length. rewrite H1. simpl. lia. }
  assert (HR' : rect_loop tg (firstn (length vals - length tg) vals)) by (exists L; exact Hf).
  pose proof (rect_length _ _ HR' Hne) as H2.
  rewrite Hf in H2. f_equal.
  apply Nat.mul_cancel_r in H2; lia.
Qed.

Lemma pop_row_empty : forall tags vals,
  length vals < length tags ->
  l_st (loop_apply tags vals LPopRow) = SErr /\ l_vals (loop_apply tags vals LPopRow) = vals.
Proof.
  intros tags vals H. cbn [loop_apply]. apply Nat.ltb_lt in H. rewrite H. simpl. auto.
Qed.
