(* C19: no dangling reference -- a table / column / loop handle obtained from a lookup always points
   at an item of the right kind with in-range column positions, so the operations applied to a fresh
   handle never reach the model's undefined-behaviour outcome (SUB). *)
From Coq Require Import ZArith List Bool Lia Arith.
From GV Require Import Base.Str Dom.Dom Dom.DomProofs.
Import ListNotations.
Local Open Scope nat_scope.

Lemma find_map_idx_some : forall A B (f : A -> option B) l i b,
  find_map_idx f l = Some (i, b) -> exists x, nth_error l i = Some x /\ f x = Some b.
Proof.
  induction l as [|x t IH]; intros i b H; simpl in H; try discriminate.
  destruct (f x) as [b0|] eqn:E.
  - inversion H; subst. exists x. auto.
  - destruct (find_map_idx f t) as [[j bj]|] eqn:ER; try discriminate.
    inversion H; subst. destruct (IH j b eq_refl) as [y [Hy Hf]]. exists y. auto.
Qed.

Lemma find_values_some : forall items tag i c,
  find_values items tag = Some (i, c) ->
  (exists tags vals, nth_error items i = Some (Loop tags vals) /\ c < length tags) \/
  (exists t v, nth_error items i = Some (Pair t v) /\ c = 0).
Proof.
  intros items tag i c H. unfold find_values in H.
  apply find_map_idx_some in H. destruct H as [x [Hx Hc]].
  destruct x as [t v|tags vals|p|]; simpl in Hc; try discriminate.
  - right. destruct (iequal t (to_lower tag)); inversion Hc; subst. eauto.
  - left. exists tags, vals. split; auto. unfold find_tag_lc in Hc. eapply find_idx_lt; eauto.
Qed.

Lemma find_loop_some : forall items tag i c,
  find_loop items tag = Some (i, c) ->
  exists tags vals, nth_error items i = Some (Loop tags vals) /\ c < length tags.
Proof.
  intros items tag i c H. unfold find_loop in H.
  destruct (find_values items tag) as [[j cj]|] eqn:E; try discriminate.
  destruct (find_values_some _ _ _ _ E) as [[tags [vals [Hn Hc]]]|[t [v [Hn Hc]]]];
    rewrite Hn in H; try discriminate.
  inversion H; subst. eauto.
Qed.

(* a table handle is well formed w.r.t. the items it was made from *)
Definition tab_wf (items : list item) (t : table) : Prop :=
  match t_loop t with
  | Some i => exists tags vals, nth_error items i = Some (Loop tags vals) /\
                Forall (fun p => (p < Z.of_nat (length tags))%Z) (t_pos t)
  | None => True
  end.

Lemma find_in_loop_range : forall ltags prefix req ps,
  find_in_loop ltags prefix req = Some ps -> Forall (fun p => (p < Z.of_nat (length ltags))%Z) ps.
Proof.
  induction req as [|tag rest IH]; intros ps H; simpl in H.
  - inversion H; constructor.
  - destruct (find_tag ltags (prefix ++ strip_q tag)) as [i|] eqn:E.
    + destruct (find_in_loop ltags prefix rest) as [r|]; simpl in H; try discriminate.
      inversion H; subst. constructor; auto.
      unfold find_tag, find_tag_lc in E. apply find_idx_lt in E. lia.
    + destruct (is_opt tag); try discriminate.
      destruct (find_in_loop ltags prefix rest) as [r|]; simpl in H; try discriminate.
      inversion H; subst. constructor; auto. lia.
Qed.

Lemma blk_find_wf : forall items prefix tags t, blk_find items prefix tags = Some t -> tab_wf items t.
Proof.
  intros items prefix tags t H. unfold blk_find in H.
  destruct tags as [|t0 tr]. { inversion H; subst; unfold tab_wf; simpl; auto. }
  destruct (is_opt t0); try discriminate.
  destruct (find_loop items (prefix ++ t0)) as [[i c]|] eqn:EL.
  - destruct (nth_error items i) as [[| ltags vals | |]|] eqn:EN;
      try (inversion H; subst; unfold tab_wf; simpl; auto; fail).
    destruct (find_in_loop ltags prefix (t0 :: tr)) as [ps|] eqn:EF; inversion H; subst; unfold tab_wf; simpl; auto.
    unfold tab_wf. simpl. exists ltags, vals. split; auto. eapply find_in_loop_range; eauto.
  - destruct (find_in_pairs items prefix (t0 :: tr)); inversion H; subst; unfold tab_wf; simpl; auto.
Qed.

Lemma filter_map_range : forall (ltags : list str) (prefix : str) (rest : list str),
  Forall (fun p => (p < Z.of_nat (length ltags))%Z)
         (filter_map (fun t => option_map Z.of_nat (find_tag ltags (prefix ++ t))) rest).
Proof.
  induction rest as [|t r IH]; simpl; auto.
  destruct (find_tag ltags (prefix ++ t)) as [i|] eqn:E; simpl; auto.
  constructor; auto. unfold find_tag, find_tag_lc in E. apply find_idx_lt in E. lia.
Qed.

Lemma blk_find_any_wf : forall items prefix tags, tab_wf items (blk_find_any items prefix tags).
Proof.
  induction tags as [|tag rest IH]; simpl; [unfold tab_wf; simpl; auto|].
  destruct (find_values items (prefix ++ tag)) as [[i c]|] eqn:E; auto.
  destruct (find_values_some _ _ _ _ E) as [[ltags [vals [Hn Hc]]]|[t [v [Hn Hc]]]]; rewrite Hn.
  - unfold tab_wf. simpl. exists ltags, vals. split; auto.
    constructor; [lia | apply filter_map_range].
  - unfold tab_wf. simpl. auto.
Qed.

Lemma find_cat_go_wf : forall items cat i0 acc t pre,
  find_cat_go items cat i0 acc = Some t -> i0 = length pre -> tab_wf (pre ++ items) t.
Proof.
  induction items as [|it rest IH]; intros cat i0 acc t pre H Hi; simpl in H.
  - inversion H; subst. unfold tab_wf. simpl. auto.
  - destruct (has_prefix it cat).
    + destruct it as [tg v|ltags vals|p|].
      * replace (pre ++ Pair tg v :: rest) with ((pre ++ [Pair tg v]) ++ rest) by (rewrite <- app_assoc; reflexivity).
        eapply IH; eauto. rewrite app_length. simpl. lia.
      * destruct (forallb _ ltags); try discriminate. inversion H; subst.
        unfold tab_wf. simpl. exists ltags, vals. split.
        -- rewrite nth_error_app2 by lia. rewrite Nat.sub_diag. reflexivity.
        -- rewrite Forall_forall. intros p Hp. apply in_map_iff in Hp.
           destruct Hp as [k [Hk Hin]]. apply in_seq in Hin. lia.
      * replace (pre ++ Other p :: rest) with ((pre ++ [Other p]) ++ rest) by (rewrite <- app_assoc; reflexivity).
        eapply IH; eauto. rewrite app_length. simpl. lia.
      * replace (pre ++ Erased :: rest) with ((pre ++ [Erased]) ++ rest) by (rewrite <- app_assoc; reflexivity).
        eapply IH; eauto. rewrite app_length. simpl. lia.
    + replace (pre ++ it :: rest) with ((pre ++ [it]) ++ rest) by (rewrite <- app_assoc; reflexivity).
      eapply IH; eauto. rewrite app_length. simpl. lia.
Qed.

Lemma blk_find_cat_wf : forall items c t, blk_find_cat items c = Some t -> tab_wf items t.
Proof.
  intros items c t H. unfold blk_find_cat in H.
  destruct (ensure_cat c) as [c'|]; try discriminate.
  apply (find_cat_go_wf items (to_lower c') 0 [] t []); auto.
Qed.

(* the item set up by setup_loop_item is a loop with exactly the requested tags *)
Lemma setup_loop_item_idx : forall items tab prefix tags items' idx,
  tab_wf items tab ->
  (t_loop tab = None -> match t_pos tab with p0 :: _ => (0 <= p0)%Z /\ Z.to_nat p0 < length items | [] => True end) ->
  setup_loop_item items tab prefix tags = (items', idx, true) ->
  nth_error items' idx = Some (Loop (map (fun t => prefix ++ t) tags) []).
Proof.
  intros items tab prefix tags items' idx Hwf Hp H. unfold setup_loop_item in H.
  destruct (t_loop tab) as [i|] eqn:EL.
  - destruct (forallb _ _); inversion H; subst.
    unfold tab_wf in Hwf. rewrite EL in Hwf. destruct Hwf as [tg [vl [Hn _]]].
    apply nth_error_set_nth_same. rewrite set_nth_length.
    apply nth_error_Some. congruence.
  - specialize (Hp eq_refl).
    destruct (t_pos tab) as [|p0 pr] eqn:EP.
    + destruct (forallb _ _); inversion H; subst.
      apply nth_error_set_nth_same. rewrite app_length. simpl. lia.
    + destruct (forallb _ _); inversion H; subst.
      apply nth_error_set_nth_same. rewrite set_nth_length.
      assert (G : forall ps its, length (erase_positions its ps) = length its).
      { induction ps as [|q qs IHq]; intros its; simpl; auto.
        rewrite IHq. destruct (q <? 0)%Z; auto. apply set_nth_length. }
      rewrite G. cbv beta iota in Hp. destruct Hp as [Hp1 Hp2].
      destruct (p0 <? 0)%Z; [|rewrite set_nth_length]; exact Hp2.
Qed.

Lemma find_pair_item_lt : forall items tag i, find_pair_item items tag = Some i -> i < length items.
Proof.
  intros items tag i H. unfold find_pair_item in H.
  destruct (find_map_idx (pair_is (to_lower tag)) items) as [[j u]|] eqn:E; simpl in H; try discriminate.
  inversion H; subst. apply find_map_idx_some in E. destruct E as [x [Hx _]].
  apply nth_error_Some. congruence.
Qed.

Lemma blk_find_any_first : forall items prefix tags,
  let t := blk_find_any items prefix tags in
  t_loop t = None ->
  match t_pos t with p0 :: _ => (0 <= p0)%Z /\ Z.to_nat p0 < length items | [] => True end.
Proof.
  induction tags as [|tag rest IH]; simpl; auto.
  destruct (find_values items (prefix ++ tag)) as [[i c]|] eqn:E; auto.
  destruct (find_values_some _ _ _ _ E) as [[ltags [vals [Hn Hc]]]|[t [v [Hn Hc]]]]; rewrite Hn; simpl.
  - discriminate.
  - intros _. split; [lia|]. rewrite Nat2Z.id. apply nth_error_Some. congruence.
Qed.

Lemma run_finder_wf : forall items f items' t,
  run_finder items f = (items', Some t) -> tab_wf items' t.
Proof.
  intros items f items' t H. destruct f as [p tags|p tags|p tags|c]; simpl in H.
  - inversion H; subst. destruct (blk_find items' p tags) eqn:E; inversion H2; subst.
    eapply blk_find_wf; eauto.
  - inversion H; subst. apply blk_find_any_wf.
  - destruct (blk_find items p tags) as [t0|] eqn:E; [|inversion H].
    destruct (t_ok t0).
    + inversion H; subst. eapply blk_find_wf; eauto.
    + pose proof (setup_loop_item_idx items (blk_find_any items p tags) p tags) as HS.
      destruct (setup_loop_item items (blk_find_any items p tags) p tags) as [[its idx] ok].
      destruct ok; inversion H; subst.
      specialize (HS items' idx (blk_find_any_wf items p tags) (blk_find_any_first items p tags) eq_refl).
      unfold tab_wf. simpl. eexists. eexists. split; [exact HS|].
      rewrite map_length. rewrite Forall_forall. intros q Hq. apply in_map_iff in Hq.
      destruct Hq as [k [Hk Hin]]. apply in_seq in Hin.
      rewrite <- Hk. apply Nat2Z.inj_lt. exact (proj2 Hin).
  - inversion H; subst. destruct (blk_find_cat items' c) eqn:E; inversion H2; subst.
    eapply blk_find_cat_wf; eauto.
Qed.

(* table operations on a well-formed handle never hit undefined behaviour, except ensure_loop /
   remove_rows on pairs when the SAME pair occurs twice in the table (assumption of the check) *)
Definition no_dup_hazard (o : tabop) : bool :=
  match o with TEnsureLoop | TRemoveRows _ _ => false | _ => true end.

Lemma tab_apply_no_ub : forall items t o,
  tab_wf items t -> no_dup_hazard o = true -> o_st (tab_apply items t o) <> SUB.
Proof.
  intros items t o Hwf Hs.
  assert (HL : forall i, t_loop t = Some i -> exists tags vals, nth_error items i = Some (Loop tags vals) /\
                Forall (fun p => (p < Z.of_nat (length tags))%Z) (t_pos t)).
  { intros i Hi. unfold tab_wf in Hwf. rewrite Hi in Hwf. exact Hwf. }
  assert (HLen : exists len, tab_length items t = Some len).
  { unfold tab_length, tab_loop. destruct (t_loop t) as [i|] eqn:EL; eauto.
    destruct (HL i eq_refl) as [tg [vl [Hn _]]]. rewrite Hn. eauto. }
  destruct o as [|new|s e|o n| | |n]; try discriminate Hs; cbn [tab_apply].
  - unfold tab_look. destruct (negb (t_ok t)); simpl; try discriminate.
    destruct HLen as [len HLen]. rewrite HLen. simpl. discriminate.
  - destruct (negb (t_ok t)); simpl; try discriminate.
    destruct (negb (length new =? length (t_pos t))); simpl; try discriminate.
    destruct (t_loop t) as [i|] eqn:EL; simpl; try discriminate.
    destruct (HL i eq_refl) as [tg [vl [Hn _]]]. rewrite Hn. simpl. discriminate.
  - destruct HLen as [len HLen]. rewrite HLen.
    destruct (at_check len o); simpl; try discriminate.
    destruct (at_check len n); simpl; try discriminate.
    destruct (tab_loop items t) as [[[i tg] vl]|]; simpl; discriminate.
  - destruct (t_loop t); simpl; discriminate.
  - destruct ((n <? 0)%Z || (Z.of_nat (length (t_pos t)) <=? n)%Z) eqn:EC; simpl; try discriminate.
    destruct (nth (Z.to_nat n) (t_pos t) (-1)%Z <? 0)%Z eqn:EP; simpl; try discriminate.
    destruct (t_loop t) as [i|] eqn:EL; simpl; try discriminate.
    destruct (HL i eq_refl) as [tg [vl [Hn HF]]]. rewrite Hn.
    assert (Hc : Z.to_nat (nth (Z.to_nat n) (t_pos t) (-1)%Z) < length tg).
    { rewrite Forall_forall in HF.
      assert (Hin : In (nth (Z.to_nat n) (t_pos t) (-1)%Z) (t_pos t)) by (apply nth_In; lia).
      specialize (HF _ Hin). apply Z.ltb_ge in EP.
      apply Nat2Z.inj_lt. rewrite Z2Nat.id by exact EP. exact HF. }
    apply Nat.ltb_lt in Hc. rewrite Hc. simpl. discriminate.
Qed.

Definition op_no_dup_hazard (o : op) : bool :=
  match o with OTable _ _ t => no_dup_hazard t | _ => true end.

Lemma after_setup_no_ub : forall items' idx ok tags rows,
  (ok = true -> nth_error items' idx = Some (Loop tags [])) ->
  o_st (after_setup (items', idx, ok) rows) <> SUB.
Proof.
  intros items' idx ok tags rows H. unfold after_setup.
  destruct ok; simpl; try discriminate.
  rewrite (H eq_refl). destruct (add_rows tags [] rows) as [v ok']. simpl. destruct ok'; discriminate.
Qed.

Lemma find_cat_go_first : forall items cat i0 acc t,
  find_cat_go items cat i0 acc = Some t -> t_loop t = None ->
  Forall (fun p => (0 <= p)%Z /\ Z.to_nat p < i0 + length items) acc ->
  Forall (fun p => (0 <= p)%Z /\ Z.to_nat p < i0 + length items) (t_pos t).
Proof.
  induction items as [|it rest IH]; intros cat i0 acc t H HN HA; simpl in H.
  - inversion H; subst. simpl. auto.
  - assert (HA' : Forall (fun p => (0 <= p)%Z /\ Z.to_nat p < S i0 + length rest) acc).
    { eapply Forall_impl; [|exact HA]. simpl. intros a [Ha1 Ha2]. split; auto. simpl in Ha2. lia. }
    assert (Hmono : forall acc', Forall (fun p => (0 <= p)%Z /\ Z.to_nat p < S i0 + length rest) acc' ->
                    find_cat_go rest cat (S i0) acc' = Some t ->
                    Forall (fun p => (0 <= p)%Z /\ Z.to_nat p < i0 + length (it :: rest)) (t_pos t)).
    { intros acc' Hacc Hf. specialize (IH cat (S i0) acc' t Hf HN Hacc).
      eapply Forall_impl; [|exact IH]. simpl. intros a [Ha1 Ha2]. split; auto. lia. }
    destruct (has_prefix it cat).
    + destruct it as [tg v|ltags vals|p|];
        try (apply (Hmono (acc ++ [Z.of_nat i0])); auto; apply Forall_app; split; auto;
             constructor; [split; [lia | rewrite Nat2Z.id; lia] | constructor]).
      destruct (forallb _ ltags); try discriminate. inversion H; subst. simpl in HN. discriminate.
    + apply (Hmono acc); auto.
Qed.

Lemma blk_apply_no_ub : forall items o,
  op_no_dup_hazard o = true -> o_st (blk_apply items o) <> SUB.
Proof.
  intros items o Hs.
  destruct o as [name pos|b tag value|b p tags rows|b c tags rows|b o n|b f t|b tag l|b tag
                 |b tag|b tag|b tag|b tag|b]; cbn [blk_apply]; try (simpl; discriminate).
  - unfold blk_set_pair. destruct (negb (is_tag tag)); simpl; try discriminate.
    destruct (set_pair_go items tag (to_lower tag) value); simpl; discriminate.
  - unfold blk_init_loop.
    pose proof (setup_loop_item_idx items (blk_find_any items p tags) p tags) as HS.
    destruct (setup_loop_item items (blk_find_any items p tags) p tags) as [[its idx] ok].
    eapply after_setup_no_ub. intros Hok. subst ok.
    apply (HS its idx (blk_find_any_wf items p tags) (blk_find_any_first items p tags) eq_refl).
  - unfold blk_init_mmcif_loop.
    destruct (ensure_cat c) as [c'|]; simpl; try discriminate.
    destruct (find_cat_go items (to_lower c') 0 []) as [tab|] eqn:EF; simpl; try discriminate.
    pose proof (setup_loop_item_idx items tab c' tags) as HS.
    destruct (setup_loop_item items tab c' tags) as [[its idx] ok].
    eapply after_setup_no_ub. intros Hok. subst ok.
    apply (HS its idx); auto.
    + apply (find_cat_go_wf items (to_lower c') 0 [] tab []); auto.
    + intros HN. pose proof (find_cat_go_first items (to_lower c') 0 [] tab EF HN (Forall_nil _)) as HF.
      destruct (t_pos tab) as [|p0 pr]; auto. inversion HF; subst. simpl in *. lia.
  - unfold blk_move_item.
    destruct (_ || _); simpl; try discriminate.
    destruct (_ || _); simpl; discriminate.
  - destruct (run_finder items f) as [items1 [tab|]] eqn:ER; simpl; try discriminate.
    apply tab_apply_no_ub; auto. eapply run_finder_wf; eauto.
  - destruct (find_loop items tag) as [[i c]|] eqn:E; simpl; try discriminate.
    destruct (find_loop_some _ _ _ _ E) as [tg [vl [Hn _]]]. rewrite Hn. simpl.
    destruct l as [|new pos|new pos| |o n|names value pos|name|cols]; cbn [loop_apply]; try (simpl; discriminate).
    + destruct (length new =? length tg); simpl; discriminate.
    + destruct tg as [|t0 tr]; [simpl; discriminate|]. destruct (_ =? 0); simpl; discriminate.
    + destruct (length vl <? length tg); simpl; discriminate.
    + destruct (_ && _); simpl; discriminate.
    + destruct (negb (forallb is_tag names)); simpl; discriminate.
    + destruct (find_tag tg name); simpl; discriminate.
    + destruct (loop_set_all tg vl cols); simpl; discriminate.
  - destruct (find_values items tag) as [[i c]|]; simpl; try discriminate.
    destruct (nth_error items i) as [[| tg vl | |]|]; simpl; discriminate.
  - destruct (find_values items tag) as [[i c]|] eqn:E; simpl; try discriminate.
    destruct (find_values_some _ _ _ _ E) as [[tg [vl [Hn _]]]|[t [v [Hn _]]]]; rewrite Hn; simpl; discriminate.
  - destruct (get_index items tag); simpl; discriminate.
Qed.

Lemma step_no_ub : forall d o, op_no_dup_hazard o = true -> s_st (step d o) <> SUB.
Proof.
  intros d o Hs.
  assert (HB : forall b,
    s_st (match nth_error d b with
          | None => mkS d SErr []
          | Some blk => let r := blk_apply (bitems blk) o in
              mkS (set_nth b (mkBlock (bname blk) (o_items r)) d) (o_st r) (o_out r) end) <> SUB).
  { intro b. destruct (nth_error d b) as [blk|]; simpl; try discriminate.
    apply blk_apply_no_ub; auto. }
  unfold step.
  destruct o as [name pos|b tag value|b p tags rows|b c tags rows|b o n|b f t|b tag l|b tag
                 |b tag|b tag|b tag|b tag|b];
    try (cbv beta iota; cbn [op_block]; apply HB).
  unfold doc_add_block.
  destruct (existsb _ d); simpl; try discriminate.
  destruct (_ && _); simpl; try discriminate.
  destruct (pos <? 0)%Z; simpl; discriminate.
Qed.
