(* C18: reflection data survive MTZ -> SF-mmCIF -> MTZ. Statements only; proofs in Mtz/RowBufProofs.v. *)
From GV Require Import Base.Str Mtz.Fmt Mtz.RowBuf Mtz.RowBufProofs Mtz.SpecDefs Mtz.Spec_gen Mtz.SpecCheck Mtz.Recipe Mtz.RecipeProofs.
Local Open Scope Z_scope.

(* The (repaired) row formatter never stores outside char buf[256]: for every recipe (non-empty rows; variables
   of at most 32 characters; min_width <= 32 as check_format enforces) and every formatted number of ANY length. *)
Theorem rowbuf_inv : forall rows : list (list item),
  Forall row_ok rows -> exists out, loop_body put_item rows = Some out.
Proof. exact loop_body_safe. Qed.
Print Assumptions rowbuf_inv.

(* The same statement is false for the formatter of the pinned snapshot (ptr += untruncated length). *)
Theorem rowbuf_inv_snapshot_refuted : exists rows : list (list item),
  Forall row_ok rows /\ loop_body put_item_orig rows = None.
Proof. exact (ex_intro _ [wide_row] (conj wide_row_ok loop_body_orig_overflows)). Qed.
Print Assumptions rowbuf_inv_snapshot_refuted.

(* ... and already with the default format of pdbx_PHWT (.3f) a value of 1e30 gives a corrupted loop body. *)
Theorem rowbuf_text_snapshot_refuted :
  exists out, loop_body put_item_orig [phwt_row] = Some out /\ out <> body_spec [phwt_row].
Proof. exact loop_body_orig_corrupts. Qed.
Print Assumptions rowbuf_text_snapshot_refuted.

(* non-vacuity / functional check of the repaired formatter on the two witnesses *)
Theorem rowbuf_fixed_on_witnesses :
  loop_body put_item [phwt_row] = Some (body_spec [phwt_row]) /\
  loop_body put_item [wide_row] = Some (body_spec [wide_row]).
Proof. exact (conj loop_body_fixed_phwt loop_body_fixed_wide). Qed.
Print Assumptions rowbuf_fixed_on_witnesses.

(* The default mmCIF->MTZ specification inverts the default MTZ->mmCIF specification (tables regenerated from the
   code, finite check): every mapped column's tag is known to the inverse table with the same MTZ type and a label
   that is one of the alternatives of the forward line ({prev} = the inverse label of the preceding line); the
   status codes are o=1,f=0. *)
Theorem spec_inverse :
  inverse_ok c2m_merged [] m2c_merged = true /\ inverse_ok c2m_unmerged [] m2c_unmerged = true /\
  status_codes_ok c2m_merged = true.
Proof. exact (conj spec_inverse_merged (conj spec_inverse_unmerged spec_status_codes)). Qed.
Print Assumptions spec_inverse.

(* meaning of inverse_ok for a member line, for any tables *)
Theorem spec_inverse_meaning : forall c2m l prev, inverse_ok c2m prev l = true ->
  forall e, In e l -> is_var e = false ->
  exists c, lookup (m_tag e) (builtin_hkl ++ c2m) = Some c /\ c_ty c = m_type e /\
            exists a p, In a (m_alts e) /\ subst_prev p a = c_lab c.
Proof. exact inverse_ok_spec. Qed.
Print Assumptions spec_inverse_meaning.

(* ------------------------------------------------------------------------------------------------------------
   The recipe: which MTZ column each specification line selects (model of find_column_index, check_format,
   parse_spec_line, prepare_recipe in Mtz/Recipe.v; compared with gemmi on every run by the command "recipe"). *)

(* a line 'A|B|C' selects the first alternative IN SPEC ORDER that is a label of the file, and of the columns with
   that label the first in file order; it selects nothing iff no alternative is a label *)
Theorem C18_find_column_index_some : forall column cols i, find_column_index column cols = Some i ->
  exists pre a post, split_on 124 column [] = pre ++ a :: post /\ (forall b, In b pre -> ~ has_label cols b) /\
    0 <= i < Z.of_nat (length cols) /\ label_at cols i = a /\ (forall j, 0 <= j < i -> label_at cols j <> a).
Proof. exact find_column_index_some. Qed.
Print Assumptions C18_find_column_index_some.

Theorem C18_find_column_index_none : forall column cols,
  find_column_index column cols = None <-> forall a, In a (split_on 124 column []) -> ~ has_label cols a.
Proof. exact find_column_index_none. Qed.
Print Assumptions C18_find_column_index_none.

(* every recipe returned, for every list of specification lines (custom or default), every option value and every
   file with at least H K L: not empty; every entry copies an existing column or is one of the five variables; every
   minimal width is at most 32 (the hypothesis of rowbuf_inv); no tag occurs twice (the loop is a valid CIF loop);
   H, K and L are there *)
Theorem C18_recipe_well_formed : forall o cols lines r, (3 <= length cols)%nat ->
  prepare_recipe o cols lines = Some r ->
  r <> [] /\ Forall (trans_ok cols) r /\ NoDup (map tr_tag r) /\
  (forall i, 0 <= i <= 2 -> exists t, In t r /\ tr_col t = i).
Proof. exact prepare_recipe_wf. Qed.
Print Assumptions C18_recipe_well_formed.

(* the order of the two last steps in the pinned snapshot let a repeated tag through (found while proving NoDup;
   reproduced on gemmi: the written loop had _refln.index_h twice and did not parse; repaired in /repo) *)
Theorem C18_recipe_nodup_snapshot_refuted :
  exists r, prepare_recipe_orig (mkOpts 0 true true) dup_witness_cols dup_witness_lines = Some r /\
            ~ NoDup (map tr_tag r).
Proof. exact prepare_recipe_orig_dup. Qed.
Print Assumptions C18_recipe_nodup_snapshot_refuted.

(* the state kept between lines: recipe.resize(verified_spec_size) is always a truncation *)
Theorem C18_recipe_invariant : forall o cols lines st st', Inv cols st -> parse_lines o cols st lines = Some st' -> Inv cols st'.
Proof. exact parse_lines_inv. Qed.
Print Assumptions C18_recipe_invariant.

(* every entry of a recipe is an inserted index_h/k/l or comes from a line of the specification: it carries that
   line's tag, a column of the type the line asks for (or '*'), found by find_column_index from the line's column
   word (possibly after {prev} substitution) *)
Theorem C18_recipe_provenance : forall o cols lines r, prepare_recipe o cols lines = Some r ->
  forall t, In t r -> index_entry t \/ exists l, In l lines /\ from_line cols l t.
Proof. exact prepare_recipe_provenance. Qed.
Print Assumptions C18_recipe_provenance.

(* the raw default specification text (regenerated from the code), read by the model's read_word, is the structured
   table spec_inverse talks about *)
Theorem C18_raw_spec_is_structured :
  map struct_of_line m2c_merged_raw = m2c_merged /\ map struct_of_line m2c_unmerged_raw = m2c_unmerged.
Proof. exact raw_spec_is_structured. Qed.
Print Assumptions C18_raw_spec_is_structured.

(* END TO END for the default merged specification and EVERY file: each mapped column is written under a tag that the
   default mmCIF -> MTZ table knows and that table gives the column back its MTZ type *)
Theorem C18_default_merged_types_survive : forall o cols r,
  prepare_recipe o cols m2c_merged_raw = Some r ->
  forall t, In t r -> 0 <= tr_col t -> ~ index_entry t ->
  exists c, lookup (tr_tag t) (builtin_hkl ++ c2m_merged) = Some c /\ c_ty c = type_at cols (tr_col t).
Proof. exact default_merged_types_survive. Qed.
Print Assumptions C18_default_merged_types_survive.

(* non-vacuity: I/SIGI placed BEFORE IMEAN/SIGIMEAN in the file - the default recipe takes IMEAN and SIGIMEAN *)
Theorem C18_recipe_example :
  option_map (shown ex_cols) (prepare_recipe (mkOpts 0 true true) ex_cols m2c_merged_raw) =
  Some [([105;110;100;101;120;95;104], Some [72]); ([105;110;100;101;120;95;107], Some [75]);
        ([105;110;100;101;120;95;108], Some [76]);
        ([105;110;116;101;110;115;105;116;121;95;109;101;97;115], Some [73;77;69;65;78]);
        ([105;110;116;101;110;115;105;116;121;95;115;105;103;109;97], Some [83;73;71;73;77;69;65;78])].
Proof. exact default_recipe_example. Qed.
Print Assumptions C18_recipe_example.
