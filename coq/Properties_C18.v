(* C18: reflection data survive MTZ -> SF-mmCIF -> MTZ. Statements only; proofs in Mtz/RowBufProofs.v. *)
From GV Require Import Base.Str Mtz.Fmt Mtz.RowBuf Mtz.RowBufProofs Mtz.SpecDefs Mtz.Spec_gen Mtz.SpecCheck.
Local Open Scope Z_scope.

(* The (repaired) row formatter never stores outside char buf[256]: for every recipe (non-empty rows; variables
   of at most 32 characters; min_width <= 32 as check_format enforces) and every formatted number of ANY length. *)
Theorem rowbuf_inv : forall rows : list (list item),
  Forall row_ok rows -> exists out, loop_body put_item rows = Some out.
Proof. exact loop_body_safe. Qed.
Print Assumptions rowbuf_inv.

(* The same statement is false for the formatter of the pinned snapshot (ptr += untruncated length). *)
Theorem rowbuf_inv_snapshot_refuted : exists rows : list (list item),
  Forall row_ok rows /\ loop_body put_item_orig rows = None.
Proof. exact (ex_intro _ [wide_row] (conj wide_row_ok loop_body_orig_overflows)). Qed.
Print Assumptions rowbuf_inv_snapshot_refuted.

(* ... and already with the default format of pdbx_PHWT (.3f) a value of 1e30 gives a corrupted loop body. *)
Theorem rowbuf_text_snapshot_refuted :
  exists out, loop_body put_item_orig [phwt_row] = Some out /\ out <> body_spec [phwt_row].
Proof. exact loop_body_orig_corrupts. Qed.
Print Assumptions rowbuf_text_snapshot_refuted.

(* non-vacuity / functional check of the repaired formatter on the two witnesses *)
Theorem rowbuf_fixed_on_witnesses :
  loop_body put_item [phwt_row] = Some (body_spec [phwt_row]) /\
  loop_body put_item [wide_row] = Some (body_spec [wide_row]).
Proof. exact (conj loop_body_fixed_phwt loop_body_fixed_wide). Qed.
Print Assumptions rowbuf_fixed_on_witnesses.

(* The default mmCIF->MTZ specification inverts the default MTZ->mmCIF specification (tables regenerated from the
   code, finite check): every mapped column's tag is known to the inverse table with the same MTZ type and a label
   that is one of the alternatives of the forward line ({prev} = the inverse label of the preceding line); the
   status codes are o=1,f=0. *)
Theorem spec_inverse :
  inverse_ok c2m_merged [] m2c_merged = true /\ inverse_ok c2m_unmerged [] m2c_unmerged = true /\
  status_codes_ok c2m_merged = true.
Proof. exact (conj spec_inverse_merged (conj spec_inverse_unmerged spec_status_codes)). Qed.
Print Assumptions spec_inverse.

(* meaning of inverse_ok for a member line, for any tables *)
Theorem spec_inverse_meaning : forall c2m l prev, inverse_ok c2m prev l = true ->
  forall e, In e l -> is_var e = false ->
  exists c, lookup (m_tag e) (builtin_hkl ++ c2m) = Some c /\ c_ty c = m_type e /\
            exists a p, In a (m_alts e) /\ subst_prev p a = c_lab c.
Proof. exact inverse_ok_spec. Qed.
Print Assumptions spec_inverse_meaning.
