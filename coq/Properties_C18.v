(* C18: reflection data survive MTZ -> SF-mmCIF -> MTZ. Statements only; proofs in Mtz/RowBufProofs.v. *)
From GV Require Import Base.Str Mtz.Fmt Mtz.RowBuf Mtz.RowBufProofs.
Local Open Scope Z_scope.

(* The (repaired) row formatter never stores outside char buf[256]: for every recipe (non-empty rows; variables
   of at most 32 characters; min_width <= 32 as check_format enforces) and every formatted number of ANY length. *)
Theorem rowbuf_inv : forall rows : list (list item),
  Forall row_ok rows -> exists out, loop_body put_item rows = Some out.
Proof. exact loop_body_safe. Qed.
Print Assumptions rowbuf_inv.

(* The same statement is false for the formatter of the pinned snapshot (ptr += untruncated length). *)
Theorem rowbuf_inv_snapshot_refuted : exists rows : list (list item),
  Forall row_ok rows /\ loop_body put_item_orig rows = None.
Proof. exact (ex_intro _ [wide_row] (conj wide_row_ok loop_body_orig_overflows)). Qed.
Print Assumptions rowbuf_inv_snapshot_refuted.

(* ... and already with the default format of pdbx_PHWT (.3f) a value of 1e30 gives a corrupted loop body. *)
Theorem rowbuf_text_snapshot_refuted :
  exists out, loop_body put_item_orig [phwt_row] = Some out /\ out <> body_spec [phwt_row].
Proof. exact loop_body_orig_corrupts. Qed.
Print Assumptions rowbuf_text_snapshot_refuted.

(* non-vacuity / functional check of the repaired formatter on the two witnesses *)
Theorem rowbuf_fixed_on_witnesses :
  loop_body put_item [phwt_row] = Some (body_spec [phwt_row]) /\
  loop_body put_item [wide_row] = Some (body_spec [wide_row]).
Proof. exact (conj loop_body_fixed_phwt loop_body_fixed_wide). Qed.
Print Assumptions rowbuf_fixed_on_witnesses.
