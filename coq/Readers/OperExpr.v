(* Model of parse_operation_expr (src/mmcif.cpp), the parser of _pdbx_struct_assembly_gen.oper_expression:

     start = 0; close_br = npos;  if (expr[0] == '(') { start = 1; close_br = expr.find(')'); }
     for (;;) {
       sep = min(expr.find(',', start), close_br);  minus = expr.find('-', start);
       if (minus < sep) { n_min = no_sign_atoi(expr + start); n_max = no_sign_atoi(expr + minus + 1);
                          if (n_max - n_min + result.size() > 1000000) fail(...);          // the repair
                          for (n = n_min; n <= n_max; ++n) result.push_back(to_string(n)); }
       else result.emplace_back(expr, start, sep - start);
       if (sep == close_br) break;
       start = sep + 1;
     }

   Positions are option nat (None = npos).  The result is kept symbolic: a literal substring or a range. *)
From GV Require Export Base.Str Num.IntParse.
Local Open Scope Z_scope.

Inductive item := Lit (s : str) | Range (lo hi : Z).

(* std::string::find(c, start) *)
Fixpoint find_char (c : Z) (s : str) (start : nat) (pos : nat) : option nat :=
  match s with
  | [] => None
  | x :: t => if Nat.leb start pos && (x =? c) then Some pos else find_char c t start (S pos)
  end.
Definition find (c : Z) (s : str) (start : nat) : option nat := find_char c s start 0.

(* min and < on positions with npos as the largest value *)
Definition pos_min (a b : option nat) : option nat :=
  match a, b with
  | Some x, Some y => Some (Nat.min x y)
  | Some x, None => Some x
  | None, y => y
  end.
Definition pos_lt (a b : option nat) : bool :=
  match a, b with
  | Some x, Some y => Nat.ltb x y
  | Some _, None => true
  | None, _ => false
  end.
Definition pos_eqb (a b : option nat) : bool :=
  match a, b with
  | Some x, Some y => Nat.eqb x y
  | None, None => true
  | _, _ => false
  end.

Definition count (it : item) : Z :=
  match it with Lit _ => 1 | Range lo hi => if hi <? lo then 0 else hi - lo + 1 end.
Definition total (r : list item) : Z := fold_right (fun it acc => count it + acc) 0 r.

Definition cap : Z := 1000000.

Inductive outcome := Done (r : list item) | Throw | OutOfFuel | OutOfRange.

(* std::string(expr, start, len): throws std::out_of_range when start > size *)
Definition substr (s : str) (start : nat) (len : option nat) : option str :=
  if Nat.ltb (length s) start then None
  else Some (match len with Some n => firstn n (skipn start s) | None => skipn start s end).

Fixpoint loop (fuel : nat) (expr : str) (close_br : option nat) (start : nat) (acc : list item) : outcome :=
  match fuel with
  | O => OutOfFuel
  | S f =>
    let sep := pos_min (find 44 expr start) close_br in
    let minus := find 45 expr start in
    let step (acc' : list item) :=
      if pos_eqb sep close_br then Done acc'
      else match sep with Some p => loop f expr close_br (S p) acc' | None => Done acc' end in
    if pos_lt minus sep then
      let n_min := fst (no_sign_atoi_u (skipn start expr)) in
      let n_max := fst (no_sign_atoi_u (skipn (S (match minus with Some m => m | None => O end)) expr)) in
      if n_max - n_min + total acc >? cap then Throw
      else step (acc ++ [Range n_min n_max])
    else
      match substr expr start (match sep with Some p => Some (p - start)%nat | None => None end) with
      | None => OutOfRange
      | Some t => step (acc ++ [Lit t])
      end
  end.

Definition parse_operation_expr (expr : str) : outcome :=
  let '(start, close_br) := if cur expr =? 40 then (1%nat, find 41 expr 0) else (O, None) in
  loop (S (length expr)) expr close_br start [].

(* the members of the result, for the comparison with the implementation *)
Fixpoint zrange (n : nat) (lo : Z) : list Z := match n with O => [] | S k => lo :: zrange k (lo + 1) end.
Definition expand (it : item) : list str :=
  match it with
  | Lit s => [s]
  | Range lo hi => map print_int (zrange (Z.to_nat (hi - lo + 1)) lo)
  end.
