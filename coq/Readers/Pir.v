(* Model of read_pir_or_fasta (include/gemmi/pirfasta.hpp) with EXPLICIT index checks:
   an access str[i] with i > size, or r.back() on an empty vector, gives the outcome Oob, which the
   theorem in PirProofs.v excludes for every input. *)
From GV Require Export Base.Str.
Local Open Scope Z_scope.

Inductive pres (A : Type) := POk (a : A) | PFail | POob | PFuel.
Arguments POk {A} a. Arguments PFail {A}. Arguments POob {A}. Arguments PFuel {A}.

(* str.find(c, from): index of the first c at position >= from *)
Fixpoint find_from (c : Z) (s : str) (from : nat) : option nat :=
  match s, from with
  | [], _ => None
  | x :: t, O => if x =? c then Some O else option_map S (find_from c t O)
  | _ :: t, S f => option_map S (find_from c t f)
  end.

(* str[i]: valid for i <= size (the terminator is readable) *)
Definition get (s : str) (i : nat) : option Z :=
  if Nat.leb i (length s) then Some (nth i s 0) else None.

Definition is_pir_format (s : str) : bool :=
  Nat.ltb 4 (length s) && (nth 0 s 0 =? 62) && (nth 3 s 0 =? 59) &&
  ((((nth 1 s 0 =? 80) || (nth 1 s 0 =? 70)) && (nth 2 s 0 =? 49)) ||
   (((nth 1 s 0 =? 68) || (nth 1 s 0 =? 82)) && ((nth 2 s 0 =? 76) || (nth 2 s 0 =? 67))) ||
   ((nth 1 s 0 =? 88) && (nth 2 s 0 =? 88))).

Record pstate := mkPS { ps_blank : Z; ps_paren : Z; ps_ended : bool }.

(* the inner loop over the characters of one line; None = fail() *)
Fixpoint seq_chars (cs : str) (st : pstate) (acc : str) : option (pstate * str) :=
  match cs with
  | [] => Some (st, acc)
  | c :: t =>
    if (c <? 128) && is_cspace c then
      seq_chars t (if c =? 10 then mkPS (ps_blank st + 1) (ps_paren st) (ps_ended st) else st) acc
    else if ps_ended st then None
    else if ps_blank st >=? 2 then None
    else
      let st0 := mkPS 0 (ps_paren st) (ps_ended st) in
      let lc := Z.lor c 32 in
      if (c <? 128) && (((97 <=? lc) && (lc <=? 122)) || (c =? 45) ||
                        (negb (ps_paren st =? 0) && (48 <=? c) && (c <=? 57)))
      then seq_chars t st0 (acc ++ [c])
      else if c =? 42 then seq_chars t (mkPS 0 (ps_paren st) true) acc
      else if c =? 40 then
        (if ps_paren st + 1 >? 1 then None else seq_chars t (mkPS 0 (ps_paren st + 1) (ps_ended st)) (acc ++ [c]))
      else if c =? 41 then
        (if ps_paren st - 1 <? 0 then None else seq_chars t (mkPS 0 (ps_paren st - 1) (ps_ended st)) (acc ++ [c]))
      else None
  end.

Definition substr (s : str) (pos : nat) (len : option nat) : str :=
  match len with None => skipn pos s | Some n => firstn n (skipn pos s) end.

Definition fasta := (str * str)%type.   (* header, sequence *)

Definition set_last_seq (r : list fasta) (f : str -> str) : list fasta :=
  match rev r with
  | [] => []
  | (h, q) :: t => rev ((h, f q) :: t)
  end.

(* the for loop; r is the vector of records *)
Fixpoint pir_loop (fuel : nat) (s : str) (pir : bool) (pos : nat) (st : pstate) (r : list fasta)
  : pres (list fasta * pstate) :=
  match fuel with
  | O => PFuel
  | S f =>
    let endo := find_from 10 s pos in
    match get s pos with
    | None => POob
    | Some c0 =>
      if c0 =? 62 then
        let st1 := mkPS (ps_blank st) (ps_paren st) false in
        if negb (ps_paren st =? 0) then POk (r, st1)     (* break *)
        else
          let end1 := match endo with
                      | Some e => if pir then find_from 10 s (S e) else endo
                      | None => None
                      end in
          (* substr(pos+1, end-(pos+1)) throws std::out_of_range when pos+1 > size *)
          if Nat.ltb (length s) (S pos) then PFail
          else
            let hdr := substr s (S pos) (match end1 with Some e => Some (e - S pos)%nat | None => None end) in
            let r1 := r ++ [(hdr, [])] in
            match end1 with
            | None => POk (r1, st1)
            | Some e => pir_loop f s pir (S e) st1 r1
            end
      else
        match r with
        | [] => POob                                      (* r.back() on an empty vector *)
        | _ =>
          let hi := match endo with Some e => Nat.min e (length s) | None => length s end in
          let cs := firstn (hi - pos) (skipn pos s) in
          match rev r with
          | [] => POob
          | (h, q) :: t =>
            match seq_chars cs st q with
            | None => PFail
            | Some (st1, q1) =>
              let r1 := rev ((h, q1) :: t) in
              match endo with
              | None => POk (r1, st1)
              | Some e => pir_loop f s pir (S e) st1 r1
              end
            end
          end
        end
    end
  end.

Definition read_pir_or_fasta (s : str) : pres (list fasta) :=
  match get s 0 with
  | None => POob
  | Some c0 =>
    if negb (c0 =? 62) then PFail else
    match pir_loop (S (S (length s))) s (is_pir_format s) 0 (mkPS 0 0 false) [] with
    | POk (r, st) => if negb (ps_paren st =? 0) then PFail else POk r
    | PFail => PFail | POob => POob | PFuel => PFuel
    end
  end.
