(* parse_triplet terminates on every byte string: the fuel (length + 1) of the model's loop is never
   exhausted, because every iteration of the while loop consumes at least one character (property C02). *)
From Coq Require Import Lia QArith.
From GV Require Import Base.Str Sym.Op Sym.Triplet.
Local Open Scope Z_scope.

Lemma skip_while_len : forall p s, (length (skip_while p s) <= length s)%nat.
Proof. intros p s. induction s as [|c t IH]; cbn; [lia|]. destruct (p c); cbn; lia. Qed.

Lemma digits_acc_len : forall s acc, (length (snd (digits_acc acc s)) <= length s)%nat.
Proof. induction s as [|c t IH]; intros acc; cbn; [lia|]. destruct (is_digit c); cbn; [specialize (IH (acc * 10 + (c - 48))); lia|lia]. Qed.

Lemma digits_acc_progress : forall s acc, is_digit (cur s) = true ->
  (length (snd (digits_acc acc s)) < length s)%nat.
Proof.
  intros [|c t] acc H; cbn in *; [discriminate|]. rewrite H.
  pose proof (digits_acc_len t (acc * 10 + (c - 48))). lia.
Qed.

Lemma adv_len : forall s, (length (adv s) <= length s)%nat.
Proof. intros [|c t]; cbn; lia. Qed.
Lemma adv_progress : forall s, cur s <> 0 -> (length (adv s) < length s)%nat.
Proof. intros [|c t] H; cbn in *; [contradiction|lia]. Qed.

Definition sign_split (s1 : str) : bool * str :=
  match s1 with 45 :: t => (true, t) | 43 :: t => (false, t) | _ => (false, s1) end.

Lemma sign_split_len : forall s1, (length (snd (sign_split s1)) <= length s1)%nat.
Proof.
  intros [|c t]; cbn; [lia|].
  destruct c as [|p|p]; cbn; try lia.
  do 7 (try (destruct p as [p|p|]; cbn; try lia)).
Qed.

Lemma sign_split_digit : forall c t, is_digit c = true -> sign_split (c :: t) = (false, c :: t).
Proof.
  intros c t H. unfold is_digit in H. apply andb_true_iff in H. destruct H as [H1 H2].
  apply Z.leb_le in H1, H2. unfold sign_split.
  destruct c as [|p|p]; try reflexivity.
  do 7 (try (destruct p as [p|p|]; try reflexivity; try lia)).
Qed.

Lemma strtol10_unfold : forall s,
  strtol10 s = let '(neg, s2) := sign_split (skip_while is_cspace s) in
               if is_digit (cur s2) then let '(v, rest) := digits_acc 0 s2 in ((if neg then - v else v), rest)
               else (0, s).
Proof. reflexivity. Qed.

Lemma strtol10_len : forall s, (length (snd (strtol10 s)) <= length s)%nat.
Proof.
  intros s. rewrite strtol10_unfold.
  pose proof (skip_while_len is_cspace s) as H1.
  pose proof (sign_split_len (skip_while is_cspace s)) as H2.
  destruct (sign_split (skip_while is_cspace s)) as [neg s2]. cbn [snd] in H2.
  destruct (is_digit (cur s2)); [|cbn; lia].
  pose proof (digits_acc_len s2 0). destruct (digits_acc 0 s2) as [v rest]. cbn in *. lia.
Qed.

Lemma strtol10_progress : forall s, is_digit (cur s) = true -> (length (snd (strtol10 s)) < length s)%nat.
Proof.
  intros s H. rewrite strtol10_unfold.
  destruct s as [|c t]; [discriminate|]. cbn in H.
  assert (Hs : is_cspace c = false).
  { unfold is_digit, is_cspace in *. apply andb_true_iff in H. destruct H as [H1 H2].
    apply Z.leb_le in H1, H2.
    destruct (c =? 32) eqn:A; [apply Z.eqb_eq in A; lia|]. cbn.
    destruct (9 <=? c) eqn:B; [|reflexivity]. destruct (c <=? 13) eqn:D; [apply Z.leb_le in D; lia|reflexivity]. }
  cbn [skip_while]. rewrite Hs. rewrite (sign_split_digit c t H). cbn [cur]. rewrite H.
  pose proof (digits_acc_progress (c :: t) 0 H). destruct (digits_acc 0 (c :: t)) as [v rest]. cbn in *. lia.
Qed.

Lemma frac_digits_len : forall s acc sc, (length (snd (frac_digits s acc sc)) <= length s)%nat.
Proof.
  induction s as [|c t IH]; intros acc sc; cbn; [lia|].
  destruct (is_digit c); cbn; [specialize (IH (Qplus acc (Qmake (c - 48) (sc * 10))) (sc * 10)%positive); lia|lia].
Qed.

Lemma skip_space_len : forall s, (length (skip_space s) <= length s)%nat.
Proof. intros s. apply skip_while_len. Qed.

(* one iteration consumes at least one character *)
Lemma part_step_raw_progress : forall c num r nt c2 r2 nt2,
  cur c <> 0 -> part_step_raw c num r nt = Some (c2, r2, nt2) -> (length c2 < length c)%nat.
Proof.
  intros c num r nt c2 r2 nt2 Hc H. unfold part_step_raw, part_body in H.
  (* sign *)
  set (sgn := (cur c =? 43) || (cur c =? 45)) in *.
  assert (Hadv : (length (skip_space (adv c)) < length c)%nat).
  { pose proof (skip_space_len (adv c)). pose proof (adv_progress c Hc). lia. }
  destruct sgn eqn:Es.
  - (* a sign was consumed: everything after is at most as long as skip_space (adv c) *)
    set (c1 := skip_space (adv c)) in *.
    destruct ((if cur c =? 43 then DEN else - DEN) =? 0); [discriminate|].
    destruct (is_digit (cur c1) || (cur c1 =? 46)).
    + pose proof (strtol10_len c1) as L1. destruct (strtol10 c1) as [n e1]. cbn [snd] in L1.
      destruct (cur e1 =? 46).
      * pose proof (frac_digits_len (adv e1) (inject_Z n) 1) as L2. pose proof (adv_len e1) as L2'.
        destruct (frac_digits (adv e1) (inject_Z n) 1) as [fr e]. cbn [snd] in L2.
        match type of H with (if ?b then _ else _) = _ => destruct b end; [discriminate|].
        pose proof (strtol10_len (adv e)) as L3. pose proof (adv_len e) as L3'.
        destruct (cur e =? 47).
        -- destruct (strtol10 (adv e)) as [den e3]. cbn [snd] in L3.
           destruct (cur e3 =? 42).
           ++ pose proof (skip_space_len (adv e3)). pose proof (adv_len e3). pose proof (adv_len (skip_space (adv e3))).
              destruct (interpret_letter _ nt) as [[ri nt']|]; [|discriminate].
              destruct (den =? 1); [inversion H; subst; lia|].
              match type of H with (if ?b then _ else _) = _ => destruct b end; [discriminate|]. inversion H; subst; lia.
           ++ destruct (den =? 1); [inversion H; subst; lia|].
              match type of H with (if ?b then _ else _) = _ => destruct b end; [discriminate|]. inversion H; subst; lia.
        -- destruct (cur e =? 42).
           ++ pose proof (skip_space_len (adv e)). pose proof (adv_len (skip_space (adv e))).
              destruct (interpret_letter _ nt) as [[ri nt']|]; [|discriminate].
              cbn in H. inversion H; subst; lia.
           ++ cbn in H. inversion H; subst; lia.
      * pose proof (strtol10_len (adv e1)) as L3. pose proof (adv_len e1) as L3'.
        destruct (cur e1 =? 47).
        -- destruct (strtol10 (adv e1)) as [den e3]. cbn [snd] in L3.
           destruct (cur e3 =? 42).
           ++ pose proof (skip_space_len (adv e3)). pose proof (adv_len e3). pose proof (adv_len (skip_space (adv e3))).
              destruct (interpret_letter _ nt) as [[ri nt']|]; [|discriminate].
              destruct (den =? 1); [inversion H; subst; lia|].
              match type of H with (if ?b then _ else _) = _ => destruct b end; [discriminate|]. inversion H; subst; lia.
           ++ destruct (den =? 1); [inversion H; subst; lia|].
              match type of H with (if ?b then _ else _) = _ => destruct b end; [discriminate|]. inversion H; subst; lia.
        -- destruct (cur e1 =? 42).
           ++ pose proof (skip_space_len (adv e1)). pose proof (adv_len (skip_space (adv e1))).
              destruct (interpret_letter _ nt) as [[ri nt']|]; [|discriminate].
              cbn in H. inversion H; subst; lia.
           ++ cbn in H. inversion H; subst; lia.
    + destruct (interpret_letter (cur c1) nt) as [[ri nt']|]; [|discriminate].
      pose proof (skip_space_len (adv c1)) as L1. pose proof (adv_len c1) as L1'.
      set (c1' := skip_space (adv c1)) in *.
      pose proof (strtol10_len (adv c1')) as L3. pose proof (adv_len c1') as L3'.
      destruct (cur c1' =? 47).
      * destruct (strtol10 (adv c1')) as [den e3]. cbn [snd] in L3.
        destruct (den =? 1); [inversion H; subst; lia|].
        match type of H with (if ?b then _ else _) = _ => destruct b end; [discriminate|]. inversion H; subst; lia.
      * cbn in H. inversion H; subst; lia.
  - (* no sign: the number or the letter is consumed *)
    destruct (num =? 0); [discriminate|].
    destruct (is_digit (cur c) || (cur c =? 46)) eqn:Ed.
    + (* either a digit (strtol consumes it) or a '.' (the decimal branch consumes it) *)
      pose proof (strtol10_len c) as L1.
      destruct (is_digit (cur c)) eqn:Edig.
      * pose proof (strtol10_progress c Edig) as P1. destruct (strtol10 c) as [n e1]. cbn [snd] in *.
        destruct (cur e1 =? 46).
        -- pose proof (frac_digits_len (adv e1) (inject_Z n) 1) as L2. pose proof (adv_len e1) as L2'.
           destruct (frac_digits (adv e1) (inject_Z n) 1) as [fr e]. cbn [snd] in L2.
           match type of H with (if ?b then _ else _) = _ => destruct b end; [discriminate|].
           pose proof (strtol10_len (adv e)) as L3. pose proof (adv_len e) as L3'.
           destruct (cur e =? 47).
           ++ destruct (strtol10 (adv e)) as [den e3]. cbn [snd] in L3.
              destruct (cur e3 =? 42).
              ** pose proof (skip_space_len (adv e3)). pose proof (adv_len e3). pose proof (adv_len (skip_space (adv e3))).
                 destruct (interpret_letter _ nt) as [[ri nt']|]; [|discriminate].
                 destruct (den =? 1); [inversion H; subst; lia|].
                 match type of H with (if ?b then _ else _) = _ => destruct b end; [discriminate|]. inversion H; subst; lia.
              ** destruct (den =? 1); [inversion H; subst; lia|].
                 match type of H with (if ?b then _ else _) = _ => destruct b end; [discriminate|]. inversion H; subst; lia.
           ++ destruct (cur e =? 42).
              ** pose proof (skip_space_len (adv e)). pose proof (adv_len (skip_space (adv e))).
                 destruct (interpret_letter _ nt) as [[ri nt']|]; [|discriminate].
                 cbn in H. inversion H; subst; lia.
              ** cbn in H. inversion H; subst; lia.
        -- pose proof (strtol10_len (adv e1)) as L3. pose proof (adv_len e1) as L3'.
           destruct (cur e1 =? 47).
           ++ destruct (strtol10 (adv e1)) as [den e3]. cbn [snd] in L3.
              destruct (cur e3 =? 42).
              ** pose proof (skip_space_len (adv e3)). pose proof (adv_len e3). pose proof (adv_len (skip_space (adv e3))).
                 destruct (interpret_letter _ nt) as [[ri nt']|]; [|discriminate].
                 destruct (den =? 1); [inversion H; subst; lia|].
                 match type of H with (if ?b then _ else _) = _ => destruct b end; [discriminate|]. inversion H; subst; lia.
              ** destruct (den =? 1); [inversion H; subst; lia|].
                 match type of H with (if ?b then _ else _) = _ => destruct b end; [discriminate|]. inversion H; subst; lia.
           ++ destruct (cur e1 =? 42).
              ** pose proof (skip_space_len (adv e1)). pose proof (adv_len (skip_space (adv e1))).
                 destruct (interpret_letter _ nt) as [[ri nt']|]; [|discriminate].
                 cbn in H. inversion H; subst; lia.
              ** cbn in H. inversion H; subst; lia.
      * (* cur c = '.': strtol returns (0, c) and the '.' is consumed by the decimal branch *)
        cbn [orb] in Ed. apply Z.eqb_eq in Ed.
        assert (Es10 : strtol10 c = (0, c)).
        { unfold strtol10. destruct c as [|x t]; [cbn in Ed; discriminate|]. cbn in Ed. subst x.
          cbn. reflexivity. }
        rewrite Es10 in *. rewrite Ed in H. cbn [Z.eqb Pos.eqb] in H.
        pose proof (adv_progress c Hc) as P1.
        pose proof (frac_digits_len (adv c) (inject_Z 0) 1) as L2.
        destruct (frac_digits (adv c) (inject_Z 0) 1) as [fr e]. cbn [snd] in L2.
        match type of H with (if ?b then _ else _) = _ => destruct b end; [discriminate|].
        pose proof (strtol10_len (adv e)) as L3. pose proof (adv_len e) as L3'.
        destruct (cur e =? 47).
        -- destruct (strtol10 (adv e)) as [den e3]. cbn [snd] in L3.
           destruct (cur e3 =? 42).
           ++ pose proof (skip_space_len (adv e3)). pose proof (adv_len e3). pose proof (adv_len (skip_space (adv e3))).
              destruct (interpret_letter _ nt) as [[ri nt']|]; [|discriminate].
              destruct (den =? 1); [inversion H; subst; lia|].
              match type of H with (if ?b then _ else _) = _ => destruct b end; [discriminate|]. inversion H; subst; lia.
           ++ destruct (den =? 1); [inversion H; subst; lia|].
              match type of H with (if ?b then _ else _) = _ => destruct b end; [discriminate|]. inversion H; subst; lia.
        -- destruct (cur e =? 42).
           ++ pose proof (skip_space_len (adv e)). pose proof (adv_len (skip_space (adv e))).
              destruct (interpret_letter _ nt) as [[ri nt']|]; [|discriminate].
              cbn in H. inversion H; subst; lia.
           ++ cbn in H. inversion H; subst; lia.
    + destruct (interpret_letter (cur c) nt) as [[ri nt']|]; [|discriminate].
      pose proof (adv_progress c Hc) as P1.
      pose proof (skip_space_len (adv c)) as L1.
      set (c1' := skip_space (adv c)) in *.
      pose proof (strtol10_len (adv c1')) as L3. pose proof (adv_len c1') as L3'.
      destruct (cur c1' =? 47).
      * destruct (strtol10 (adv c1')) as [den e3]. cbn [snd] in L3.
        destruct (den =? 1); [inversion H; subst; lia|].
        match type of H with (if ?b then _ else _) = _ => destruct b end; [discriminate|]. inversion H; subst; lia.
      * cbn in H. inversion H; subst; lia.
Qed.

Lemma part_step_progress : forall c num r nt c2 r2 nt2,
  cur c <> 0 -> part_step c num r nt = Some (c2, r2, nt2) -> (length c2 < length c)%nat.
Proof. intros c num r nt c2 r2 nt2 Hc H. apply (part_step_raw_progress c num r nt c2 r2 nt2 Hc). apply part_step_raw_of. exact H. Qed.

Lemma part_loop_fuel : forall fuel c num r nt, (length c < fuel)%nat ->
  part_loop fuel c num r nt <> OutOfFuel.
Proof.
  induction fuel as [|f IH]; intros c num r nt Hl; [lia|].
  cbn [part_loop].
  pose proof (skip_space_len c) as Ls.
  destruct (cur (skip_space c) =? 0) eqn:E0.
  - destruct (num =? 0); discriminate.
  - destruct (part_step (skip_space c) num r nt) as [[[c2 r2] nt2]|] eqn:Ep; [|discriminate].
    apply IH. apply Z.eqb_neq in E0. pose proof (part_step_progress _ _ _ _ _ _ _ E0 Ep). lia.
Qed.

Theorem parse_triplet_part_terminates : forall s nt, parse_triplet_part s nt <> OutOfFuel.
Proof. intros s nt. unfold parse_triplet_part. apply part_loop_fuel. lia. Qed.

Theorem parse_triplet_terminates : forall s nt, parse_triplet s nt <> OutOfFuel.
Proof.
  intros s nt. unfold parse_triplet.
  match goal with |- (if ?b then _ else _) <> _ => destruct b end; [discriminate|]. match goal with |- (if ?b then _ else _) <> _ => destruct b end; [discriminate|].
  destruct (split_on 44 s []) as [|pa [|pb [|pc [|? ?]]]]; try discriminate.
  pose proof (parse_triplet_part_terminates pa (Z.land (Z.lor nt 32) (-4))) as Ha.
  destruct (parse_triplet_part pa _) as [[[[[a0 a1] a2] a3] n1]| |]; [|discriminate|contradiction].
  pose proof (parse_triplet_part_terminates pb n1) as Hb.
  destruct (parse_triplet_part pb n1) as [[[[[b0 b1] b2] b3] n2]| |]; [|discriminate|contradiction].
  pose proof (parse_triplet_part_terminates pc n2) as Hc.
  destruct (parse_triplet_part pc n2) as [[[[[c0 c1] c2] c3] n3]| |]; [|discriminate|contradiction].
  destruct (n3 =? 104); [destruct (v3_eqb _ _)|]; discriminate.
Qed.
