(* read_pir_or_fasta is total and never indexes outside its string or an empty vector (property C02). *)
From Coq Require Import Lia.
From GV Require Import Readers.Pir.
Local Open Scope Z_scope.

Lemma find_from_bound : forall c s from e, find_from c s from = Some e -> (from <= e < length s)%nat.
Proof.
  intros c s. induction s as [|x t IH]; intros from e H; [destruct from; discriminate|].
  destruct from as [|f]; cbn in H.
  - destruct (x =? c); [inversion H; cbn; lia|].
    destruct (find_from c t 0) as [e'|] eqn:E; [|discriminate]. inversion H; subst.
    apply IH in E. cbn. lia.
  - destruct (find_from c t f) as [e'|] eqn:E; [|discriminate]. inversion H; subst.
    apply IH in E. cbn. lia.
Qed.

Lemma rev_nonempty : forall (A : Type) (r : list A), r <> [] -> rev r <> [].
Proof. intros A r H E. apply H. rewrite <- (rev_involutive r), E. reflexivity. Qed.

(* the loop never reports Oob or fuel exhaustion when pos <= size, the vector is non-empty whenever the
   position is not the start of a record line of the first kind, and fuel covers the remaining text *)
Lemma pir_loop_safe : forall fuel s pir pos st r,
  (pos <= length s)%nat -> (length s - pos < fuel)%nat ->
  (r <> [] \/ get s pos = Some 62) ->
  match pir_loop fuel s pir pos st r with POob => False | PFuel => False | _ => True end.
Proof.
  induction fuel as [|f IH]; intros s pir pos st r Hpos Hf Hr; [lia|].
  cbn [pir_loop]. unfold get. destruct (Nat.leb_spec pos (length s)) as [_|C]; [|lia].
  destruct (nth pos s 0 =? 62) eqn:Ec.
  - destruct (negb (ps_paren st =? 0)); [exact I|].
    destruct (find_from 10 s pos) as [e|] eqn:E1.
    + destruct (if pir then find_from 10 s (S e) else Some e) as [e1|] eqn:E2.
      * destruct (Nat.ltb_spec (length s) (S pos)); [exact I|].
        assert (B : (pos <= e1 < length s)%nat).
        { apply find_from_bound in E1. destruct pir; [apply find_from_bound in E2; lia|inversion E2; subst; lia]. }
        apply IH; [lia|lia|]. left. destruct r; discriminate.
      * destruct (Nat.ltb (length s) (S pos)); exact I.
    + destruct (Nat.ltb (length s) (S pos)); exact I.
  - destruct Hr as [Hr|Hr]; [|unfold get in Hr; destruct (Nat.leb pos (length s)); [inversion Hr as [E]; rewrite E in Ec; discriminate|discriminate]].
    destruct r as [|r0 rt] eqn:Er; [contradiction|]. rewrite <- Er in *.
    assert (Hrev : rev r <> []) by (apply rev_nonempty; exact Hr).
    destruct (rev r) as [|[h q] t] eqn:Erev; [contradiction|].
    destruct (seq_chars _ st q) as [[st1 q1]|]; [|exact I].
    destruct (find_from 10 s pos) as [e|] eqn:E1; [|exact I].
    apply find_from_bound in E1.
    apply IH; [lia|lia|]. left. intros E. apply (f_equal (@length _)) in E.
    rewrite rev_length in E. cbn in E. lia.
Qed.

Theorem pir_total_in_bounds : forall s,
  match read_pir_or_fasta s with POob => False | PFuel => False | _ => True end.
Proof.
  intros s. unfold read_pir_or_fasta. unfold get at 1. cbn [Nat.leb].
  destruct (negb (nth 0 s 0 =? 62)) eqn:E; [exact I|].
  pose proof (pir_loop_safe (S (S (length s))) s (is_pir_format s) 0 (mkPS 0 0 false) []) as H.
  destruct (pir_loop _ s _ 0 _ []) as [[r st]| | |]; try exact I.
  - destruct (negb (ps_paren st =? 0)); exact I.
  - apply H; [lia|lia|]. right. unfold get. cbn [Nat.leb]. apply negb_false_iff in E. apply Z.eqb_eq in E.
    rewrite E. reflexivity.
  - apply H; [lia|lia|]. right. unfold get. cbn [Nat.leb]. apply negb_false_iff in E. apply Z.eqb_eq in E.
    rewrite E. reflexivity.
Qed.
