(* parse_operation_expr terminates on every string, never asks for a substring outside the text, and the number of
   operation names it produces is bounded. *)
From Coq Require Import Lia.
From GV Require Import Readers.OperExpr.
Local Open Scope Z_scope.

Lemma find_char_spec : forall c s start pos p, find_char c s start pos = Some p ->
  (start <= p)%nat /\ (pos <= p < pos + length s)%nat.
Proof.
  intros c. induction s as [|x t IH]; intros start pos p H; [discriminate|].
  cbn [find_char] in H. destruct (Nat.leb start pos && (x =? c)) eqn:E.
  - injection H as <-. apply andb_prop in E. destruct E as [E _]. apply Nat.leb_le in E. simpl. lia.
  - destruct (IH _ _ _ H) as [A B]. simpl. lia.
Qed.

Lemma find_spec : forall c s start p, find c s start = Some p -> (start <= p < length s)%nat.
Proof. intros c s start p H. destruct (find_char_spec _ _ _ _ _ H). lia. Qed.

Lemma total_app : forall a b, total (a ++ b) = total a + total b.
Proof. induction a as [|x a IH]; intros b; simpl; [reflexivity|]. rewrite IH. lia. Qed.

Lemma count_nonneg : forall it, 0 <= count it.
Proof. intros [s|lo hi]; simpl; [lia|]. destruct (hi <? lo) eqn:E; lia. Qed.

Lemma count_range_le : forall lo hi, count (Range lo hi) <= Z.max 0 (hi - lo + 1).
Proof. intros lo hi. simpl. destruct (hi <? lo) eqn:E; lia. Qed.

(* the bound kept by the loop: the names produced so far number at most cap + 1 + (items so far) *)
Definition bounded (acc : list item) : Prop := 0 <= total acc <= cap + 1 + Z.of_nat (length acc).

Lemma bounded_lit : forall acc t, bounded acc -> bounded (acc ++ [Lit t]).
Proof.
  intros acc t [A B]. unfold bounded. rewrite total_app, app_length.
  replace (total [Lit t]) with 1 by reflexivity. replace (length [Lit t]) with 1%nat by reflexivity. lia.
Qed.

Lemma bounded_range : forall acc lo hi, bounded acc -> (hi - lo + total acc >? cap) = false ->
  bounded (acc ++ [Range lo hi]).
Proof.
  intros acc lo hi [A B] H. unfold bounded. rewrite total_app, app_length.
  pose proof (count_range_le lo hi). pose proof (count_nonneg (Range lo hi)).
  replace (total [Range lo hi]) with (count (Range lo hi) + 0) by reflexivity.
  replace (length [Range lo hi]) with 1%nat by reflexivity. unfold cap in *. lia.
Qed.

Definition good_outcome (acc0 : list item) (fuel : nat) (o : outcome) : Prop :=
  match o with
  | Done r => bounded r /\ (length r <= length acc0 + fuel)%nat
  | Throw => True
  | OutOfFuel | OutOfRange => False
  end.

Lemma loop_ok : forall f expr cb s acc,
  (s <= length expr)%nat -> (length expr < s + f)%nat -> bounded acc ->
  good_outcome acc f (loop f expr cb s acc).
Proof.
  induction f as [|f IH]; intros expr cb s acc Hs Hf Hb; [lia|].
  cbn [loop].
  set (sep := pos_min (find 44 expr s) cb).
  assert (Step : forall acc', bounded acc' -> length acc' = S (length acc) ->
    good_outcome acc (S f)
      (if pos_eqb sep cb then Done acc'
       else match sep with Some p => loop f expr cb (S p) acc' | None => Done acc' end)).
  { intros acc' Hb' Hl. destruct (pos_eqb sep cb) eqn:E.
    - simpl. split; [exact Hb'|lia].
    - destruct sep as [p|] eqn:Esep.
      + (* sep differs from close_br: it is the position of a comma at or after start *)
        assert (Hp : (s <= p < length expr)%nat).
        { unfold sep in Esep. destruct (find 44 expr s) as [q|] eqn:F.
          - destruct cb as [c|]; simpl in Esep.
            + injection Esep as <-. destruct (Nat.min_spec q c) as [[_ M]|[_ M]]; rewrite M in *.
              * exact (find_spec _ _ _ _ F).
              * simpl in E. rewrite Nat.eqb_refl in E. discriminate.
            + injection Esep as <-. exact (find_spec _ _ _ _ F).
          - simpl in Esep. subst cb. simpl in E. rewrite Nat.eqb_refl in E. discriminate. }
        specialize (IH expr cb (S p) acc' ltac:(lia) ltac:(lia) Hb').
        destruct (loop f expr cb (S p) acc'); simpl in *; auto. destruct IH as [A B]. split; [exact A|lia].
      + simpl. split; [exact Hb'|lia]. }
  destruct (pos_lt (find 45 expr s) sep).
  - match goal with |- context [if ?c then Throw else _] => destruct c eqn:Ecap end; [exact I|].
    apply Step; [apply bounded_range; assumption|]. rewrite app_length. simpl. lia.
  - unfold substr. replace (Nat.ltb (length expr) s) with false by (symmetry; apply Nat.ltb_ge; lia).
    apply Step; [apply bounded_lit; assumption|]. rewrite app_length. simpl. lia.
Qed.

(* for EVERY text: the parser stops (the fuel of the model is never used up), never constructs a substring that starts
   beyond the end of the text (std::out_of_range), and when it returns, the operation names number at most
   cap + 2 + the length of the text *)
Theorem parse_operation_expr_total : forall expr,
  match parse_operation_expr expr with
  | Done r => 0 <= total r <= cap + 2 + Z.of_nat (length expr)
  | Throw => True
  | OutOfFuel | OutOfRange => False
  end.
Proof.
  intros expr. unfold parse_operation_expr.
  assert (B0 : bounded []) by (unfold bounded, cap; simpl; lia).
  destruct (cur expr =? 40) eqn:E.
  - assert (Hl : (1 <= length expr)%nat).
    { destruct expr as [|x t]; [simpl in E; discriminate|simpl; lia]. }
    pose proof (loop_ok (S (length expr)) expr (find 41 expr 0) 1 [] Hl ltac:(lia) B0) as G.
    destruct (loop (S (length expr)) expr (find 41 expr 0) 1 []); simpl in G; auto.
    destruct G as [[A B] C]. simpl in C. lia.
  - pose proof (loop_ok (S (length expr)) expr None 0 [] ltac:(lia) ltac:(lia) B0) as G.
    destruct (loop (S (length expr)) expr None 0 []); simpl in G; auto.
    destruct G as [[A B] C]. simpl in C. lia.
Qed.

(* the code before the repair had no cap: "1-2000000000" yields two billion names from a 12-byte text *)
Definition loop_nocap_first (expr : str) : Z :=
  let n_min := fst (no_sign_atoi_u expr) in
  let n_max := fst (no_sign_atoi_u (skipn 2 expr)) in n_max - n_min + 1.
Lemma nocap_witness : loop_nocap_first [49; 45; 50; 48; 48; 48; 48; 48; 48; 48; 48; 48] = 2000000000 /\
  parse_operation_expr [49; 45; 50; 48; 48; 48; 48; 48; 48; 48; 48; 48] = Throw.
Proof. vm_compute. split; reflexivity. Qed.
