(* Property C13: moving reflections to symmetry-equivalent indices preserves the data they carry.
   Statements only; proofs in Move/MoveProofs.v. Quantified over every row of the regenerated table,
   both ASU conventions, every hkl, and every symmetry-consistent phase function on the sphere. *)
From GV Require Import Sym.AsuDefs Sym.AsuProofs Sym.AsuLift Sym.AsuSpec Sym.OpProofs Move.Move Move.MoveProofs Move.Expand Move.ExpandProofs.
From GV Require Import Sym.OpProofs Move.Reindex Move.PlusMinus Move.PlusMinusProofs Move.ReindexRows.
Local Open Scope Z_scope.

(* the algebraic heart: phase transport composes, h.t1 + (hR1).t2 = h.(t1 + R1 t2) *)
Theorem C13_phase_transport_composes : forall a b h,
  24 * dot h (tran a) + dot (apply_to_hkl_nodiv a h) (tran b)
  = dot h (add_v3 (map_v3 (fun x => x * DEN) (tran a)) (mat_vec_raw (rot a) (tran b))).
Proof. exact phase_transport_composes. Qed.
Print Assumptions C13_phase_transport_composes.

(* ensure_asu (Mtz and AsuData paths share this bookkeeping) never fails, and the phase it stores
   for the moved reflection is the true phase of the new index, for any phase function phi on the
   reciprocal sphere that obeys F(hR) = F(h) exp(-2 pi i h.t) and Friedel's law (units: 1/24 turn) *)
Theorem C13_ensure_asu_total : forall r tnt g, In r sg_table -> operations r = HOk g ->
  forall hkl, move_entry (row_asu r tnt) g hkl <> None.
Proof. exact table_move_total. Qed.
Print Assumptions C13_ensure_asu_total.

Theorem C13_ensure_asu_phase : forall r tnt g, In r sg_table -> operations r = HOk g ->
  forall (phi : v3 -> Z),
  (forall o h, In o (sym_ops g) ->
     (phi (divide_hkl (apply_to_hkl_nodiv o h)) - (phi h - dot h (tran o))) mod 24 = 0) ->
  (forall h, (phi (neg_v3 h) + phi h) mod 24 = 0) ->
  forall hkl m, move_entry (row_asu r tnt) g hkl = Some m ->
    (apply_phase m (phi hkl) - phi (mv_hkl m)) mod 24 = 0.
Proof. exact table_move_phase_correct. Qed.
Print Assumptions C13_ensure_asu_phase.

(* unmerged records: original index -> (ASU index, ISYM) -> original index *)
Theorem C13_unmerged_roundtrip : forall r tnt g, In r sg_table -> operations r = HOk g ->
  forall h0 hk isym, to_asu (row_asu r tnt) h0 g = Some (hk, isym) ->
  original_from g hk isym = Some h0.
Proof. exact table_original_restored. Qed.
Print Assumptions C13_unmerged_roundtrip.

(* expand_to_p1, one reflection, ANY operation list (no group property needed) and any hkl:
   (i) the original index and the appended copies are pairwise distinct and contain no Friedel pair;
   (ii) every copy is the image under one of the operations after the first, carrying exactly that operation's
        phase shift -(h.t); (iii) every such image is present itself or as its Friedel mate. *)
Theorem C13_expand_to_p1_spec : forall g hkl,
  let r := expand_entry g hkl in
  friedel_free (kept hkl r) /\
  (forall c, In c r -> from_ops hkl (tl (sym_ops g)) c) /\
  (forall o, In o (tl (sym_ops g)) ->
     In (apply_to_hkl o hkl) (kept hkl r) \/ In (neg_v3 (apply_to_hkl o hkl)) (kept hkl r)).
Proof. exact expand_entry_spec. Qed.
Print Assumptions C13_expand_to_p1_spec.

(* for every tabulated group the skipped first operation is the identity, so the WHOLE orbit is covered *)
Theorem C13_expand_to_p1_covers_orbit : forall r g, In r sg_table -> operations r = HOk g ->
  forall hkl o, In o (sym_ops g) ->
    In (apply_to_hkl o hkl) (kept hkl (expand_entry g hkl)) \/
    In (neg_v3 (apply_to_hkl o hkl)) (kept hkl (expand_entry g hkl)).
Proof. exact table_expand_covers_orbit. Qed.
Print Assumptions C13_expand_to_p1_covers_orbit.

(* and the phase stored with each copy is the true phase of the copy's index *)
Theorem C13_expand_to_p1_phase : forall g (phi : v3 -> Z),
  (forall o h, In o (sym_ops g) ->
     (phi (divide_hkl (apply_to_hkl_nodiv o h)) - (phi h - dot h (tran o))) mod 24 = 0) ->
  forall hkl c, In c (expand_entry g hkl) -> (phi hkl + cp_shift c - phi (cp_hkl c)) mod 24 = 0.
Proof. exact expand_phase_correct. Qed.
Print Assumptions C13_expand_to_p1_phase.

(* non-vacuity: a general reflection in P 21 21 21 (row of number 19) gets its three rotated images with
   their screw-axis phase shifts *)
Example C13_expand_example :
  match find (fun r => sg_number r =? 19) sg_table with
  | Some r => match operations r with
              | HOk g => map (fun c => (cp_hkl c, cp_shift c mod 24)) (expand_entry g (1, 2, 3))
              | _ => []
              end
  | None => []
  end = [((-1, -2, 3), 0); ((1, -2, -3), 12); ((-1, 2, -3), 12)].
Proof. vm_compute. reflexivity. Qed.

(* Not proved here (decided by oracles on the implementation only; see DESIGN.md):
   Hendrickson-Lattman coefficient rotation, reindexing coherence. *)

(* ------------------------------------------------------------------------------------------------------------
   Re-indexing (Mtz::reindex): h' = h P, g' = P^-1 g P computed as GroupOps::change_basis_impl does
   (wrap(combine(combine(P^-1, g), P))), in the library's integer arithmetic; the divisions the code performs are
   the exactness hypotheses (a row with a fractional new index is removed by the code).  The relabelled operation acts
   on the relabelled index exactly as the old operation acted on the old one (same equivalences), with the same phase
   shift modulo whole turns (same absences), and the inverse operator gives the old index back. *)
Theorem C13_reindex_ops : forall X Xi g h h',
  tran X = (0,0,0) -> tran Xi = (0,0,0) ->
  mat_mul_raw (rot X) (rot Xi) = sI 576 ->
  representable Xi g -> representable (combine' Xi g) X ->
  apply_to_hkl_nodiv X h = scale_v3 24 h' ->
  let g' := op_mul (combine' Xi g) X in
  scale_v3 24 (apply_to_hkl_nodiv g' h') = apply_to_hkl_nodiv X (apply_to_hkl_nodiv g h) /\
  (dot h' (tran g') - dot h (tran g)) mod 24 = 0 /\
  apply_to_hkl_nodiv Xi h' = scale_v3 24 h.
Proof. exact reindex_ops. Qed.
Print Assumptions C13_reindex_ops.

(* an operation that fixes h (the condition in absences, centricity and epsilon) becomes one that fixes h' *)
Theorem C13_reindex_fixed : forall A B, mat_mul_raw A B = sI 576 ->
  forall G G', mat_mul_raw (mat_mul_raw B G) A = sM 576 G' ->
  forall h h', vm h A = scale_v3 24 h' -> vm h G = scale_v3 24 h -> vm h' G' = scale_v3 24 h'.
Proof. exact reindex_fixed. Qed.
Print Assumptions C13_reindex_fixed.

Theorem C13_reindex_example :
  tran ex_X = (0,0,0) /\ tran ex_Xi = (0,0,0) /\ mat_mul_raw (rot ex_X) (rot ex_Xi) = sI 576 /\
  representable ex_Xi ex_g /\ representable (combine' ex_Xi ex_g) ex_X /\
  apply_to_hkl_nodiv ex_X (0,1,0) = scale_v3 24 (0,0,1) /\
  tran (op_mul (combine' ex_Xi ex_g) ex_X) = (0,0,12) /\ dot (0,1,0) (tran ex_g) = 12.
Proof. exact reindex_hypotheses_hold. Qed.
Print Assumptions C13_reindex_example.

(* ------------------------------------------------------------------------------------------------------------
   The (+)/(-) assignment (Mtz::positions_of_plus_minus_columns + the swap in Mtz::ensure_asu, Move/PlusMinus.v).
   A pair is reported for a column whose label holds "(+)" (first occurrence) exactly when a column with the same
   label but '-' as the sign, the same type and the same dataset exists ANYWHERE in the file - before or after it;
   the partner is the first such column, never the column itself. *)
Theorem C13_plus_minus_pairs_sound : forall cols i j, In (i, j) (pm_pairs cols) ->
  exists c d, nth_error cols i = Some c /\ nth_error cols j = Some d /\ is_minus_of c d /\ i <> j /\
    forall n y, (n < j)%nat -> nth_error cols n = Some y -> ~ is_minus_of c y.
Proof. exact pm_pairs_sound. Qed.
Print Assumptions C13_plus_minus_pairs_sound.

Theorem C13_plus_minus_pairs_complete : forall cols i c m d,
  nth_error cols i = Some c -> nth_error cols m = Some d -> is_minus_of c d ->
  exists j, In (i, j) (pm_pairs cols) /\ (j <= m)%nat.
Proof. exact pm_pairs_complete. Qed.
Print Assumptions C13_plus_minus_pairs_complete.

(* For an ordinary column set (a label has at most one '(', no two columns share label, type and dataset) the pairs
   are disjoint; the swap then exchanges the two values of every pair, leaves every other column of the row alone,
   and doing it twice (moving back through the Friedel mate) restores the row. *)
Theorem C13_plus_minus_swap : forall cols row, ordinary cols -> length row = length cols ->
  let pairs := pm_pairs cols in
  (forall i j, In (i, j) pairs ->
     nth i (apply_swaps pairs row) 0 = nth j row 0 /\ nth j (apply_swaps pairs row) 0 = nth i row 0) /\
  (forall k, ~ In k (flat pairs) -> nth k (apply_swaps pairs row) 0 = nth k row 0) /\
  apply_swaps pairs (apply_swaps pairs row) = row.
Proof. exact plus_minus_swap. Qed.
Print Assumptions C13_plus_minus_swap.

(* non-vacuity: a file that stores F(-) before F(+), the I pair interleaved with DANO, sigmas after their values,
   and an E(+) without partner: the column set is ordinary and the three pairs (two of them backwards) are found *)
Definition ex_columns : list column :=
  [mkCol [72] 72 1;
   mkCol [75] 72 1;
   mkCol [76] 72 1;
   mkCol [70; 40; 45; 41] 71 1;
   mkCol [83; 73; 71; 70; 40; 45; 41] 76 1;
   mkCol [73; 40; 43; 41] 75 1;
   mkCol [68; 65; 78; 79] 68 1;
   mkCol [70; 40; 43; 41] 71 1;
   mkCol [73; 40; 45; 41] 75 1;
   mkCol [83; 73; 71; 70; 40; 43; 41] 76 1;
   mkCol [69; 40; 43; 41] 82 1].
Example C13_plus_minus_example :
  ordinary ex_columns /\ pm_pairs ex_columns = [(5, 8); (7, 3); (9, 4)]%nat.
Proof. split; [apply ordinary_by_test; vm_compute; reflexivity | vm_compute; reflexivity]. Qed.

(* ------------------------------------------------------------------------------------------------------------
   Which rows Mtz::reindex keeps (Move/ReindexRows.v): a reflection stays exactly when ALL THREE new indices are integral,
   and then it carries exactly the index h P (the exactness hypothesis of C13_reindex_ops is what the code tests); the
   list after re-indexing holds, in order, exactly the integral images. *)
Theorem C13_reindex_row_rule : forall X h h',
  reindex_row X h = Some h' <-> apply_to_hkl_nodiv X h = scale_v3 24 h'.
Proof. exact reindex_row_kept. Qed.
Print Assumptions C13_reindex_row_rule.

Theorem C13_reindex_rows : forall X hs q, In q (reindex_rows X hs) <->
  exists h, In h hs /\ apply_to_hkl_nodiv X h = scale_v3 24 q.
Proof. exact reindex_rows_spec. Qed.
Print Assumptions C13_reindex_rows.
