(* Property C13: moving reflections to symmetry-equivalent indices preserves the data they carry.
   Statements only; proofs in Move/MoveProofs.v. Quantified over every row of the regenerated table,
   both ASU conventions, every hkl, and every symmetry-consistent phase function on the sphere. *)
From GV Require Import Sym.AsuDefs Sym.AsuProofs Sym.AsuLift Sym.AsuSpec Sym.OpProofs Move.Move Move.MoveProofs.
Local Open Scope Z_scope.

(* the algebraic heart: phase transport composes, h.t1 + (hR1).t2 = h.(t1 + R1 t2) *)
Theorem C13_phase_transport_composes : forall a b h,
  24 * dot h (tran a) + dot (apply_to_hkl_nodiv a h) (tran b)
  = dot h (add_v3 (map_v3 (fun x => x * DEN) (tran a)) (mat_vec_raw (rot a) (tran b))).
Proof. exact phase_transport_composes. Qed.
Print Assumptions C13_phase_transport_composes.

(* ensure_asu (Mtz and AsuData paths share this bookkeeping) never fails, and the phase it stores
   for the moved reflection is the true phase of the new index, for any phase function phi on the
   reciprocal sphere that obeys F(hR) = F(h) exp(-2 pi i h.t) and Friedel's law (units: 1/24 turn) *)
Theorem C13_ensure_asu_total : forall r tnt g, In r sg_table -> operations r = HOk g ->
  forall hkl, move_entry (row_asu r tnt) g hkl <> None.
Proof. exact table_move_total. Qed.
Print Assumptions C13_ensure_asu_total.

Theorem C13_ensure_asu_phase : forall r tnt g, In r sg_table -> operations r = HOk g ->
  forall (phi : v3 -> Z),
  (forall o h, In o (sym_ops g) ->
     (phi (divide_hkl (apply_to_hkl_nodiv o h)) - (phi h - dot h (tran o))) mod 24 = 0) ->
  (forall h, (phi (neg_v3 h) + phi h) mod 24 = 0) ->
  forall hkl m, move_entry (row_asu r tnt) g hkl = Some m ->
    (apply_phase m (phi hkl) - phi (mv_hkl m)) mod 24 = 0.
Proof. exact table_move_phase_correct. Qed.
Print Assumptions C13_ensure_asu_phase.

(* unmerged records: original index -> (ASU index, ISYM) -> original index *)
Theorem C13_unmerged_roundtrip : forall r tnt g, In r sg_table -> operations r = HOk g ->
  forall h0 hk isym, to_asu (row_asu r tnt) h0 g = Some (hk, isym) ->
  original_from g hk isym = Some h0.
Proof. exact table_original_restored. Qed.
Print Assumptions C13_unmerged_roundtrip.

(* Not proved here (decided by oracles on the implementation only; see DESIGN.md):
   expand_to_p1 orbit coverage, Hendrickson-Lattman coefficient rotation, reindexing coherence. *)
