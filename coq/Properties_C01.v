(* Property C01: CIF documents survive write-then-read under every formatting option.
   Statements only. Proofs: Cif/QuoteProofs.v (value delimiters), Cif/BufProofs.v (writer's buffer),
   Cif/LexProofs.v (written values are read back as they were). Model: Cif/Quote.v, Write.v, Buf.v, Lex.v
   (mirrors cifdoc.hpp / to_cif.hpp / the value-level rules of cif.hpp after the three repairs);
   Cif/Legacy.v keeps the snapshot's behaviour for the *_refuted_before_fix statements. *)
From GV Require Import Cif.Quote Cif.Write Cif.Buf Cif.Lex Cif.Legacy Cif.QuoteProofs Cif.BufProofs
  Cif.LexProofs Cif.LayoutProofs.
Local Open Scope Z_scope.

(* ---- quote() / as_string(): the only places where value delimiters are chosen or removed *)

(* quoting is lossless exactly when a value that has to become a text field does not end with CR *)
Theorem C01_quote_as_string : forall s, cr_tail_ok s -> as_string (quote s) = Some s.
Proof. exact quote_as_string_ok. Qed.
Print Assumptions C01_quote_as_string.

Theorem C01_quote_as_string_exact : forall s, as_string (quote s) = Some s <-> cr_tail_ok s.
Proof. exact quote_as_string_iff. Qed.
Print Assumptions C01_quote_as_string_exact.

(* without the side condition the statement is false: "a\nb\r" comes back as "a\nb" *)
Theorem C01_quote_as_string_unconditional_refuted : exists s, as_string (quote s) <> Some s.
Proof. exists [97; 10; 98; 13]. rewrite quote_cr_witness. discriminate. Qed.
Print Assumptions C01_quote_as_string_unconditional_refuted.

(* ---- "Writing never touches memory outside the writer's buffers, whatever the option values" *)

(* any trace whose runs of put() are at most 511 long stays inside the buffer (the contract in the code's comment) *)
Theorem C01_buffer_contract : forall K l p c, 0 <= c <= K -> K <= 511 -> 0 <= p <= MARGIN + c ->
  boundedc K c l -> in_bounds p l = true.
Proof. exact bounded_in_bounds. Qed.
Print Assumptions C01_buffer_contract.

(* every prefix of the trace the writer issues for any block keeps 0 <= ptr - buf <= 4096,
   for all documents and ALL option values (no bound on the widths is needed) *)
Theorem C01_buffer_inv : forall o b, in_bounds 0 (block_ops o b) = true.
Proof. exact block_in_bounds. Qed.
Print Assumptions C01_buffer_inv.

(* and buffering is transparent: the bytes reaching the stream are the concatenation of the operations *)
Theorem C01_buffer_transparent : forall o b, buffered_output (block_ops o b) = ops_bytes (block_ops o b).
Proof. exact block_output_transparent. Qed.
Print Assumptions C01_buffer_transparent.

(* the snapshot before the repairs: pad() unchecked -> align_pairs = 60000 leaves the buffer *)
Theorem C01_buffer_refuted_before_fix_pad :
  exists o b, 0 <= align_pairs o < 65536 /\ 0 <= align_loops o < 65536 /\ in_bounds_v0 0 (block_ops o b) = false.
Proof. exists w_opts_pad, w_block_pad. vm_compute. intuition congruence. Qed.
Print Assumptions C01_buffer_refuted_before_fix_pad.

(* the snapshot before the repairs: 4100 value-less loops -> 4099 unchecked put() in a row *)
Theorem C01_buffer_refuted_before_fix_loops :
  exists o b, in_bounds 0 (block_ops_v0 o b) = false.
Proof. exists w_opts_plain, w_block_loops. vm_compute. reflexivity. Qed.
Print Assumptions C01_buffer_refuted_before_fix_loops.

(* ---- written values are read back as they were *)

(* the core lemma: a raw value of any of the five lexical classes (as the parser stores it), written where
   start_ok allows (a text field at the beginning of a line, any other value starting with ';' elsewhere) and
   followed by a blank or a line feed, is lexed by cif.hpp's `value` rule as exactly that value *)
Theorem C01_value_relex : forall v cl bol c rest,
  wf_class v = Some cl -> start_ok bol cl v = true -> (c = 32 \/ c = 10) ->
  lex_value bol (v ++ c :: rest) = LexOk v (c :: rest).
Proof. exact value_relex. Qed.
Print Assumptions C01_value_relex.

(* write_out_pair, all option values: tag, non-empty white space, the value, '\n'; and the value rule,
   started in the bol state that white space leaves, returns the value (text fields: without CR-LF inside) *)
Theorem C01_layout_safe_pair : forall o n v cl rest,
  wf_class v = Some cl -> (is_text_field v = true -> crlf_free v = true) ->
  exists sep, ops_bytes (write_out_pair_ops o n v) = n ++ sep ++ v ++ [10] /\
              sep <> [] /\ forallb is_ws sep = true /\
              lex_value (last sep 0 =? 10) (v ++ 10 :: rest) = LexOk v (10 :: rest).
Proof. exact pair_value_roundtrip. Qed.
Print Assumptions C01_layout_safe_pair.

(* write_out_loop, all option values and column widths: every value of every row is written where start_ok
   holds and is followed by ' ', '\n' or padding *)
Theorem C01_layout_safe_loop : forall ncol cw vals b, Forall wfv vals ->
  placed value_ok b (loop_values_ops ncol cw vals 0%nat true ++ [OPut nl]).
Proof. exact loop_rows_placed. Qed.
Print Assumptions C01_layout_safe_loop.

(* the snapshot before the repair put such values in the first column: tag "_a" and a 119-character unquoted
   value starting with ';' (more than 120 characters together) -> "unterminated text field" on re-reading *)
Theorem C01_layout_refuted_before_fix_pair :
  exists o n v cl, wf_class v = Some cl /\ crlf_free v = true /\
    ops_bytes (write_out_pair_ops_v0 o n v) = n ++ [10] ++ v ++ [10] /\
    lex_value true (v ++ [10]) = LexErr.
Proof. exact pair_layout_refuted_v0. Qed.
Print Assumptions C01_layout_refuted_before_fix_pair.

(* ... and the first value of a loop row: ";z" at the beginning of a line *)
Theorem C01_layout_refuted_before_fix_loop :
  exists v cl, wf_class v = Some cl /\ start_ok true cl v = false /\ lex_value true (v ++ [32; 49; 10]) = LexErr.
Proof. exact loop_layout_refuted_v0. Qed.
Print Assumptions C01_layout_refuted_before_fix_loop.
