(* Property C01: CIF documents survive write-then-read under every formatting option.
   Statements only. Proofs: Cif/QuoteProofs.v (value delimiters), Cif/BufProofs.v (writer's buffer),
   Cif/LexProofs.v (written values are read back as they were). Model: Cif/Quote.v, Write.v, Buf.v, Lex.v
   (mirrors cifdoc.hpp / to_cif.hpp / the value-level rules of cif.hpp after the three repairs);
   Cif/Legacy.v keeps the snapshot's behaviour for the *_refuted_before_fix statements. *)
From GV Require Cif.JsonNum Cif.JsonNumProofs Cif.JsonNumCif Cif.JsonNumConv Num.DecParse.
From GV Require Import Cif.Quote Cif.Write Cif.Buf Cif.Lex Cif.Legacy Cif.QuoteProofs Cif.BufProofs
  Cif.LexProofs Cif.LayoutProofs Cif.Sequence Cif.Tokens Cif.DocTokens Cif.DocParse.
Local Open Scope Z_scope.

(* ---- quote() / as_string(): the only places where value delimiters are chosen or removed *)

(* quoting is lossless exactly when a value that has to become a text field does not end with CR *)
Theorem C01_quote_as_string : forall s, cr_tail_ok s -> as_string (quote s) = Some s.
Proof. exact quote_as_string_ok. Qed.
Print Assumptions C01_quote_as_string.

Theorem C01_quote_as_string_exact : forall s, as_string (quote s) = Some s <-> cr_tail_ok s.
Proof. exact quote_as_string_iff. Qed.
Print Assumptions C01_quote_as_string_exact.

(* without the side condition the statement is false: "a\nb\r" comes back as "a\nb" *)
Theorem C01_quote_as_string_unconditional_refuted : exists s, as_string (quote s) <> Some s.
Proof. exists [97; 10; 98; 13]. rewrite quote_cr_witness. discriminate. Qed.
Print Assumptions C01_quote_as_string_unconditional_refuted.

(* ---- "Writing never touches memory outside the writer's buffers, whatever the option values" *)

(* any trace whose runs of put() are at most 511 long stays inside the buffer (the contract in the code's comment) *)
Theorem C01_buffer_contract : forall K l p c, 0 <= c <= K -> K <= 511 -> 0 <= p <= MARGIN + c ->
  boundedc K c l -> in_bounds p l = true.
Proof. exact bounded_in_bounds. Qed.
Print Assumptions C01_buffer_contract.

(* every prefix of the trace the writer issues for any block keeps 0 <= ptr - buf <= 4096,
   for all documents and ALL option values (no bound on the widths is needed) *)
Theorem C01_buffer_inv : forall o b, in_bounds 0 (block_ops o b) = true.
Proof. exact block_in_bounds. Qed.
Print Assumptions C01_buffer_inv.

(* and buffering is transparent: the bytes reaching the stream are the concatenation of the operations *)
Theorem C01_buffer_transparent : forall o b, buffered_output (block_ops o b) = ops_bytes (block_ops o b).
Proof. exact block_output_transparent. Qed.
Print Assumptions C01_buffer_transparent.

(* the snapshot before the repairs: pad() unchecked -> align_pairs = 60000 leaves the buffer *)
Theorem C01_buffer_refuted_before_fix_pad :
  exists o b, 0 <= align_pairs o < 65536 /\ 0 <= align_loops o < 65536 /\ in_bounds_v0 0 (block_ops o b) = false.
Proof. exists w_opts_pad, w_block_pad. vm_compute. intuition congruence. Qed.
Print Assumptions C01_buffer_refuted_before_fix_pad.

(* the snapshot before the repairs: 4100 value-less loops -> 4099 unchecked put() in a row *)
Theorem C01_buffer_refuted_before_fix_loops :
  exists o b, in_bounds 0 (block_ops_v0 o b) = false.
Proof. exists w_opts_plain, w_block_loops. vm_compute. reflexivity. Qed.
Print Assumptions C01_buffer_refuted_before_fix_loops.

(* ---- written values are read back as they were *)

(* the core lemma: a raw value of any of the five lexical classes (as the parser stores it), written where
   start_ok allows (a text field at the beginning of a line, any other value starting with ';' elsewhere) and
   followed by a blank or a line feed, is lexed by cif.hpp's `value` rule as exactly that value *)
Theorem C01_value_relex : forall v cl bol c rest,
  wf_class v = Some cl -> start_ok bol cl v = true -> (c = 32 \/ c = 10) ->
  lex_value bol (v ++ c :: rest) = LexOk v (c :: rest).
Proof. exact value_relex. Qed.
Print Assumptions C01_value_relex.

(* write_out_pair, all option values: tag, non-empty white space, the value, '\n'; and the value rule,
   started in the bol state that white space leaves, returns the value (text fields: without CR-LF inside) *)
Theorem C01_layout_safe_pair : forall o n v cl rest,
  wf_class v = Some cl -> (is_text_field v = true -> crlf_free v = true) ->
  exists sep, ops_bytes (write_out_pair_ops o n v) = n ++ sep ++ v ++ [10] /\
              sep <> [] /\ forallb is_ws sep = true /\
              lex_value (last sep 0 =? 10) (v ++ 10 :: rest) = LexOk v (10 :: rest).
Proof. exact pair_value_roundtrip. Qed.
Print Assumptions C01_layout_safe_pair.

(* write_out_loop, all option values and column widths: every value of every row is written where start_ok
   holds and is followed by ' ', '\n' or padding *)
Theorem C01_layout_safe_loop : forall ncol cw vals b, Forall wfv vals ->
  placed value_ok b (loop_values_ops ncol cw vals 0%nat true ++ [OPut nl]).
Proof. exact loop_rows_placed. Qed.
Print Assumptions C01_layout_safe_loop.

(* the snapshot before the repair put such values in the first column: tag "_a" and a 119-character unquoted
   value starting with ';' (more than 120 characters together) -> "unterminated text field" on re-reading *)
Theorem C01_layout_refuted_before_fix_pair :
  exists o n v cl, wf_class v = Some cl /\ crlf_free v = true /\
    ops_bytes (write_out_pair_ops_v0 o n v) = n ++ [10] ++ v ++ [10] /\
    lex_value true (v ++ [10]) = LexErr.
Proof. exact pair_layout_refuted_v0. Qed.
Print Assumptions C01_layout_refuted_before_fix_pair.

(* ... and the first value of a loop row: ";z" at the beginning of a line *)
Theorem C01_layout_refuted_before_fix_loop :
  exists v cl, wf_class v = Some cl /\ start_ok true cl v = false /\ lex_value true (v ++ [32; 49; 10]) = LexErr.
Proof. exact loop_layout_refuted_v0. Qed.
Print Assumptions C01_layout_refuted_before_fix_loop.

(* ---- from single values to the whole byte sequence: THE LOOP BODY ROUND TRIP.
   For every number of columns, every column-width vector (all align_loops settings) and every list of
   well-formed values (text fields and ';'-values included), the bytes write_out_loop emits for the rows are
   read back - by repeated application of the parser's white-space rule and value rule, starting at the
   beginning of a line - as exactly the list of values that was written, in order, with nothing left over. *)
Theorem C01_loop_body_roundtrip : forall ncol cw vals,
  Forall wfv vals ->
  lex_values (S (length vals)) true (ops_bytes (loop_values_ops ncol cw vals 0%nat true ++ [OPut nl])) = (vals, []).
Proof. exact loop_body_roundtrip. Qed.
Print Assumptions C01_loop_body_roundtrip.

(* the general bridge it rests on: ANY writer trace in which every value is placed where the value rule reads it
   (LayoutProofs.placed) and separators are blanks/newlines/non-empty padding re-lexes to the values written *)
Theorem C01_placed_trace_relexes : forall l b, Forall sep_ok l -> placed value_ok b l ->
  forall fuel, (length (writes l) < fuel)%nat -> lex_values fuel b (ops_bytes l) = (writes l, []).
Proof. exact placed_trace_relexes. Qed.
Print Assumptions C01_placed_trace_relexes.

(* non-vacuity: a 2-column loop with a ';'-value, a quoted value and a text field *)
Example C01_loop_body_example :
  lex_values 5 true (ops_bytes (loop_values_ops 2 [0; 0] [[59; 122]; [39; 97; 32; 98; 39]; [59; 116; 10; 59]; [49]] 0%nat true ++ [OPut nl]))
  = ([[59; 122]; [39; 97; 32; 98; 39]; [59; 116; 10; 59]; [49]], []).
Proof. vm_compute. reflexivity. Qed.

(* ---- THE WHOLE DOCUMENT, every value of the writer options (prefer_pairs, compact, misuse_hash, align_pairs,
   align_loops): the bytes written by write_cif_to_stream for ANY document - blocks (data_ / global_), pairs,
   loops, save frames with their items, comments, erased items, loops without values - are cut by cif.hpp's
   white-space, comment, tag, reserved-word and value rules into exactly the tokens of the document, in order:
   every block/frame name, every tag and every value comes back unchanged, nothing is lost and nothing is added.
   wf_doc asks what the writer takes for granted: names and tags are runs of printable non-blank characters (tags
   start with '_'), values are of one of the five lexical classes (text fields without CR-LF), comments are
   single '#' lines. *)
Theorem C01_document_tokens : forall o d, wf_doc d -> lex_all true (write_cif o d) = Some (doc_tokens o d).
Proof. exact write_cif_tokens. Qed.
Print Assumptions C01_document_tokens.

(* non-vacuity: a document with a pair, a 2 x 2 loop holding a text field and a ';'-value, and a save frame *)
Example C01_document_example :
  let d := [mkBlock [120] [Pair [95; 97] [49];
                            Loop [[95; 98; 46; 120]; [95; 98; 46; 121]] [[59; 116; 10; 59]; [59; 122]; [50]; [39; 97; 32; 98; 39]];
                            Frame [102] [Pair [95; 99] [51]]]] in
  lex_all true (write_cif (mkOpts false false true 8 10) d) =
  Some [TData [120]; TTag [95; 97]; TValue [49]; TLoop; TTag [95; 98; 46; 120]; TTag [95; 98; 46; 121];
        TValue [59; 116; 10; 59]; TValue [59; 122]; TValue [50]; TValue [39; 97; 32; 98; 39];
        TSave [102]; TTag [95; 99]; TValue [51]; TSave []].
Proof. vm_compute. reflexivity. Qed.

(* ---- THE DOCUMENT ROUND TRIP, bytes -> tokens -> document. parse_doc is the grammar of cif.hpp over the tokens
   (datablock = heading star<sor<dataitem, loop, frame>>, dataitem = tag value, loop = loop_ plus<tag> plus<value>,
   frame = save_name star<sor<dataitem, loop>> save_). For every document the writer accepts (wf_doc: lexical
   conditions; gr_doc: a loop with values has a tag, frames are named and not nested) and every option value, what
   is written parses back to the document itself, minus what the writer does not write (comments, erased items,
   loops without values) and with one-row loops as pairs when prefer_pairs says so. *)
Theorem C01_document_roundtrip : forall o d, wf_doc d -> gr_doc d ->
  match lex_all true (write_cif o d) with
  | Some toks => parse_doc toks = Some (map (norm_block o) d)
  | None => False
  end.
Proof. exact write_cif_parses. Qed.
Print Assumptions C01_document_roundtrip.


(* ------------------------------------------------------------------------------------------------------------
   Numbers in the JSON / mmJSON output (JsonWriter::write_as_number of src/to_json.cpp, modelled in Cif/JsonNum.v with the
   positions, find() and back() of the code). For EVERY string of the CIF 1.1 production
       Numeric := [+-]? ( Digit+ | Digit* '.' Digit+ | Digit+ '.' ) ( [eE] [+-]? Digit+ )? ( '(' Digit+ ')' )?
   given by its parts, the text written is: the minus sign if any, the integer digits without leading zeros (a 0 when
   there are none), the point followed by the fraction digits (a 0 when there are none), the exponent as it was, and no
   standard uncertainty - and the JSON number grammar of RFC 8259 accepts it. *)
Theorem C01_json_number_text : forall sg d1 dot d2 ex su,
  JsonNumProofs.is_sign sg -> JsonNumProofs.digits d1 -> JsonNumProofs.digits d2 -> (dot = false -> d2 = []) ->
  (d1 <> [] \/ d2 <> []) -> JsonNumProofs.is_exp ex -> JsonNumProofs.is_su su ->
  JsonNum.write_as_number (JsonNumProofs.render sg d1 dot d2 ex su)
  = JsonNumProofs.sgo_of sg ++ JsonNumProofs.ip_of d1 ++ JsonNumProofs.fp_of dot d2 ++ ex.
Proof. exact JsonNumProofs.write_as_number_render. Qed.
Print Assumptions C01_json_number_text.

Theorem C01_json_number_valid : forall sg d1 dot d2 ex su,
  JsonNumProofs.is_sign sg -> JsonNumProofs.digits d1 -> JsonNumProofs.digits d2 -> (dot = false -> d2 = []) ->
  (d1 <> [] \/ d2 <> []) -> JsonNumProofs.is_exp ex -> JsonNumProofs.is_su su ->
  JsonNum.json_number (JsonNum.write_as_number (JsonNumProofs.render sg d1 dot d2 ex su)) = true.
Proof. exact JsonNumProofs.write_as_number_is_json. Qed.
Print Assumptions C01_json_number_valid.

(* non-vacuity: -007.(12) is such a string (the CIF number recogniser of property C12 accepts it) and is written -7.0 *)
Example C01_json_number_example :
  JsonNumProofs.render [45] [48; 48; 55] true [] [] [40; 49; 50; 41] = [45; 48; 48; 55; 46; 40; 49; 50; 41] /\
  DecParse.is_cif_numb [45; 48; 48; 55; 46; 40; 49; 50; 41] = true /\
  JsonNum.write_as_number [45; 48; 48; 55; 46; 40; 49; 50; 41] = [45; 55; 46; 48].
Proof. vm_compute. repeat split; reflexivity. Qed.

(* and the production is exactly what the CIF number recogniser of property C12 accepts (Num/DecParse.v, is_cif_numb: the
   acceptance set of cif::as_number up to the range of double, which is the test write_value makes before it calls
   write_as_number): EVERY CIF number is written as a JSON number *)
Theorem C01_every_cif_number_is_a_json_number : forall s,
  DecParse.is_cif_numb s = true -> JsonNum.json_number (JsonNum.write_as_number s) = true.
Proof. exact JsonNumCif.cif_number_written_as_json. Qed.
Print Assumptions C01_every_cif_number_is_a_json_number.

(* the two descriptions of a CIF number coincide: a string is accepted by the recogniser of property C12 exactly when it is
   a rendering of well-formed parts of the production Numeric (so the theorems above lose nothing by speaking of parts) *)
Theorem C01_numeric_production_is_the_recogniser : forall s,
  DecParse.is_cif_numb s = true <->
  exists sg d1 dot d2 ex su, s = JsonNumProofs.render sg d1 dot d2 ex su /\
    JsonNumProofs.is_sign sg /\ JsonNumProofs.digits d1 /\ JsonNumProofs.digits d2 /\ (dot = false -> d2 = []) /\
    (d1 <> [] \/ d2 <> []) /\ JsonNumProofs.is_exp ex /\ JsonNumProofs.is_su su.
Proof.
  intros s. split.
  - exact (JsonNumCif.cif_numb_is_render s).
  - intros [sg [d1 [dot [d2 [ex [su [-> [H1 [H2 [H3 [H4 [H5 [H6 H7]]]]]]]]]]]]]. apply JsonNumConv.render_is_cif_numb; assumption.
Qed.
Print Assumptions C01_numeric_production_is_the_recogniser.
