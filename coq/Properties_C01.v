(* Property C01: CIF documents survive write-then-read under every formatting option.
   Statements only. Proofs: Cif/QuoteProofs.v (value delimiters), Cif/BufProofs.v (writer's buffer),
   Cif/LexProofs.v (written values are read back as they were). Model: Cif/Quote.v, Write.v, Buf.v, Lex.v
   (mirrors cifdoc.hpp / to_cif.hpp / the value-level rules of cif.hpp after the three repairs);
   Cif/Legacy.v keeps the snapshot's behaviour for the *_refuted_before_fix statements. *)
From GV Require Import Cif.Quote Cif.Write Cif.Buf Cif.Legacy Cif.QuoteProofs Cif.BufProofs.
Local Open Scope Z_scope.

(* ---- quote() / as_string(): the only places where value delimiters are chosen or removed *)

(* quoting is lossless exactly when a value that has to become a text field does not end with CR *)
Theorem C01_quote_as_string : forall s, cr_tail_ok s -> as_string (quote s) = Some s.
Proof. exact quote_as_string_ok. Qed.
Print Assumptions C01_quote_as_string.

Theorem C01_quote_as_string_exact : forall s, as_string (quote s) = Some s <-> cr_tail_ok s.
Proof. exact quote_as_string_iff. Qed.
Print Assumptions C01_quote_as_string_exact.

(* without the side condition the statement is false: "a\nb\r" comes back as "a\nb" *)
Theorem C01_quote_as_string_unconditional_refuted : exists s, as_string (quote s) <> Some s.
Proof. exists [97; 10; 98; 13]. rewrite quote_cr_witness. discriminate. Qed.
Print Assumptions C01_quote_as_string_unconditional_refuted.

(* ---- "Writing never touches memory outside the writer's buffers, whatever the option values" *)

(* any trace whose runs of put() are at most 511 long stays inside the buffer (the contract in the code's comment) *)
Theorem C01_buffer_contract : forall K l p c, 0 <= c <= K -> K <= 511 -> 0 <= p <= MARGIN + c ->
  boundedc K c l -> in_bounds p l = true.
Proof. exact bounded_in_bounds. Qed.
Print Assumptions C01_buffer_contract.

(* every prefix of the trace the writer issues for any block keeps 0 <= ptr - buf <= 4096,
   for all documents and ALL option values (no bound on the widths is needed) *)
Theorem C01_buffer_inv : forall o b, in_bounds 0 (block_ops o b) = true.
Proof. exact block_in_bounds. Qed.
Print Assumptions C01_buffer_inv.

(* and buffering is transparent: the bytes reaching the stream are the concatenation of the operations *)
Theorem C01_buffer_transparent : forall o b, buffered_output (block_ops o b) = ops_bytes (block_ops o b).
Proof. exact block_output_transparent. Qed.
Print Assumptions C01_buffer_transparent.

(* the snapshot before the repairs: pad() unchecked -> align_pairs = 60000 leaves the buffer *)
Theorem C01_buffer_refuted_before_fix_pad :
  exists o b, 0 <= align_pairs o < 65536 /\ 0 <= align_loops o < 65536 /\ in_bounds_v0 0 (block_ops o b) = false.
Proof. exists w_opts_pad, w_block_pad. vm_compute. intuition congruence. Qed.
Print Assumptions C01_buffer_refuted_before_fix_pad.

(* the snapshot before the repairs: 4100 value-less loops -> 4099 unchecked put() in a row *)
Theorem C01_buffer_refuted_before_fix_loops :
  exists o b, in_bounds 0 (block_ops_v0 o b) = false.
Proof. exists w_opts_plain, w_block_loops. vm_compute. reflexivity. Qed.
Print Assumptions C01_buffer_refuted_before_fix_loops.
