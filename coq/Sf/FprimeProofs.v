(* Proofs for the Cromer-Liberman model: the regenerated orbital table is well formed (vm_compute over the
   1249 rows), and f'' of the real-number instance of the model is a sum of non-negative terms. *)
From Coq Require Import ZArith QArith List Bool Reals Lra Lia.
From GV Require Import Sf.FormFactR Sf.Fprime Sf.Fprime_gen.
Import ListNotations.

Lemma fprime_table_wf : table_wf_b fp_index fp_rows fp_kpcor = true.
Proof. vm_cast_no_check (@eq_refl bool true). Qed.

(* what the checker gives for every element and orbital, in logical form (the parts used most) *)
Lemma forallb_nth_seq : forall (f : nat -> bool) n, forallb f (seq 0 n) = true -> forall i, (i < n)%nat -> f i = true.
Proof. intros f n H i Hi. rewrite forallb_forall in H. apply H, in_seq. lia. Qed.

Lemma orbital_ok_spec : forall z i o, orbital_ok_b z i o = true ->
  (o_nparm o = 10 \/ o_nparm o = 11)%Z /\ (3 <= usable_points o)%nat.
Proof.
  intros z i o Ho. unfold orbital_ok_b in Ho.
  repeat (apply andb_true_iff in Ho; destruct Ho as [Ho ?]).
  split.
  - apply orb_true_iff in Ho. destruct Ho as [Ho|Ho]; apply Z.eqb_eq in Ho; [left|right]; exact Ho.
  - apply Nat.leb_le. assumption.
Qed.

Lemma table_wf_spec : forall idx rows kp, table_wf_b idx rows kp = true ->
  forall z off n, In (z, off, n) idx ->
  (0 < n)%Z /\ forall i, (i < Z.to_nat n)%nat ->
    let o := nth (Z.to_nat off + i) rows (0%Z, 0%Q, [], []) in
    (o_nparm o = 10 \/ o_nparm o = 11)%Z /\ (3 <= usable_points o)%nat.
Proof.
  intros idx rows kp H z off n Hin. unfold table_wf_b in H.
  apply andb_true_iff in H. destruct H as [H _]. apply andb_true_iff in H. destruct H as [_ H].
  rewrite forallb_forall in H. specialize (H _ Hin). unfold element_ok_b in H.
  apply andb_true_iff in H. destruct H as [H Horb]. apply andb_true_iff in H. destruct H as [Hn _].
  split; [apply Z.ltb_lt, Hn|]. intros i Hi.
  pose proof (forallb_nth_seq _ _ Horb i Hi) as Ho. cbv beta in Ho. cbv zeta.
  exact (orbital_ok_spec _ _ _ Ho).
Qed.

Lemma fprime_orbitals_wf : forall z off n, In (z, off, n) fp_index ->
  (0 < n)%Z /\ forall i, (i < Z.to_nat n)%nat ->
    let o := nth (Z.to_nat off + i) fp_rows (0%Z, 0%Q, [], []) in
    (o_nparm o = 10 \/ o_nparm o = 11)%Z /\ (3 <= usable_points o)%nat.
Proof. exact (table_wf_spec _ _ _ fprime_table_wf). Qed.

(* ---------------------------------------------------------------- f'' >= 0 over R *)
Local Open Scope R_scope.
Definition Rltb (a b : R) : bool := if Rlt_dec a b then true else false.
Definition f2orbR := f2orb R Rmult Rdiv Rminus exp Rabs dR dR Rltb ln.
Definition cromer_f2R := cromer_f2 R Rplus Rmult Rdiv Rminus exp ln Rabs dR dR Rltb ln.

Lemma f2orbR_nonneg : forall energa lne o, 0 <= energa -> 0 <= f2orbR energa lne o.
Proof.
  intros energa lne o He. unfold f2orbR, f2orb.
  destruct (Rltb energa _); [rewrite dR_0; lra|].
  unfold fscinv, au, fourpi, dR; simpl.
  match goal with |- 0 <= ?a * ?f * (exp ?t / ?u) / ?p =>
    assert (Hx : 0 < exp t) by apply exp_pos; set (x := exp t) in * end.
  apply Rmult_le_pos; [|lra].
  apply Rmult_le_pos; [apply Rmult_le_pos; lra|].
  apply Rmult_le_pos; lra.
Qed.

Lemma fold_f2_nonneg : forall energa lne orbs acc, 0 <= energa -> 0 <= acc ->
  0 <= fold_left (fun a o => a + f2orbR energa lne o) orbs acc.
Proof.
  induction orbs as [|o t IH]; intros acc He Ha; simpl; [exact Ha|].
  apply IH; [exact He|]. pose proof (f2orbR_nonneg energa lne o He). lra.
Qed.

Theorem fpp_nonneg : forall (orbs : list orb) (energy_ev : R), 0 <= energy_ev -> 0 <= cromer_f2R orbs energy_ev.
Proof.
  intros orbs E HE. unfold cromer_f2R, cromer_f2.
  apply (fold_f2_nonneg _ _ orbs); [|rewrite dR_0; lra].
  unfold kev2ry, dR; simpl. apply Rmult_le_pos; [|lra]. apply Rmult_le_pos; lra.
Qed.
