(* Executable model of gemmi's form-factor machinery (it92.hpp, c4322.hpp, neutron92.hpp, formfact.hpp).
   No proofs here: this file is extracted.  The numeric functions are generic in the number type
   (Section variables): instantiated with R for the theorems (Sf/FormFactR.v) and, after extraction,
   with IEEE doubles and libm for the correspondence with the library (extract/sf_drv.ml). *)
From Coq Require Import ZArith QArith Qabs List Bool.
Import ListNotations.
Local Open Scope Z_scope.

(* ---------------------------------------------------------------- lookups (IT92<Real>::get etc.) *)
Section Lookup.
  Variable ions : list (Z * Z).        (* ion_list: (El ordinal, charge), as dumped *)
  Variables el_Cf el_D : Z.

  (* std::pair<El, signed char> == and >  (lexicographic) *)
  Definition pair_eqb (a b : Z * Z) : bool := (fst a =? fst b) && (snd a =? snd b).
  Definition pair_gtb (a b : Z * Z) : bool :=
    (fst b <? fst a) || ((fst a =? fst b) && (snd b <? snd a)).

  (* int pos = el <= El::Cf ? (int)el : (int)(el == El::D); *)
  Definition base_pos (el : Z) : Z := if el <=? el_Cf then el else if el =? el_D then 1 else 0.

  (* for (i = start; i < 112; ++i) { if (ion_list[i] == p) {found i} if (ion_list[i] > p) break; } *)
  Fixpoint scan (l : list (Z * Z)) (i : Z) (p : Z * Z) : option Z :=
    match l with
    | [] => None
    | h :: t => if pair_eqb h p then Some i else if pair_gtb h p then None else scan t (i + 1) p
    end.

  Definition n_neutral : Z := 99.

  Definition it92_get (ignore_charge : bool) (el q : Z) : Z :=
    let pos := base_pos el in
    if negb (q =? 0) && negb ignore_charge then
      let start := Z.max 0 (el - 8) in
      match scan (skipn (Z.to_nat start) ions) start (el, q) with
      | Some i => n_neutral + i
      | None => pos
      end
    else pos.

  Definition it92_has (el : Z) : bool := (el <=? el_Cf) || (el =? el_D).

  (* get_exact: nullptr = None *)
  Definition it92_get_exact (ignore_charge : bool) (el q : Z) : option Z :=
    if it92_has el then
      let p := it92_get ignore_charge el q in
      if (q =? 0) || (el_Cf <? p) then Some p else None
    else None.

  Definition c4322_get (el : Z) : Z := base_pos el.
End Lookup.

(* a row of GaussianCoef<N,WithC>: coefs = a1..aN b1..bN [c] *)
Fixpoint zip_ab (a b : list Q) : list (Q * Q) :=
  match a, b with x :: a', y :: b' => (x, y) :: zip_ab a' b' | _, _ => [] end.
Definition row_ab (n : nat) (row : list Q) : list (Q * Q) := zip_ab (firstn n row) (firstn n (skipn n row)).
Definition row_c (n : nat) (row : list Q) : Q := nth (2 * n) row 0%Q.
Definition xray_ab := row_ab 4.
Definition xray_c := row_c 4.
Definition elec_ab := row_ab 5.

(* ---------------------------------------------------------------- table checkers (pure Q) *)
Definition qsum (l : list Q) : Q := fold_right Qplus 0%Q l.

(* |c + sum a_i - n| <= 0.0015 n *)
Definition electron_count_ok_b (n : Z) (row : list Q) : bool :=
  Qle_bool (Qabs (qsum (map fst (xray_ab row)) + xray_c row - inject_Z n)) ((15 # 10000) * inject_Z n).

Definition row_wf_b (len : nat) (row : list Q) : bool := Nat.eqb (length row) len.

(* ---------------------------------------------------------------- numerics, generic number type *)
Section Num.
  Variable A : Type.
  Variables (add mul div : A -> A -> A) (neg expf sqrtf : A -> A) (ofQ : Q -> A) (pi : A).

  Definition two := ofQ 2.
  Definition four := ofQ 4.
  Definition eight := ofQ 8.
  Definition pow15 (x : A) : A := mul x (sqrtf x).

  (* GaussianCoef::calculate_sf(stol2) *)
  Fixpoint sf_sum (ab : list (Q * Q)) (x : A) : A :=
    match ab with
    | [] => ofQ 0
    | (a, b) :: t => add (mul (ofQ a) (expf (mul (neg (ofQ b)) x))) (sf_sum t x)
    end.
  Definition calculate_sf (ab : list (Q * Q)) (c : Q) (x : A) : A := add (ofQ c) (sf_sum ab x).

  (* derivative of calculate_sf in stol2 (used by the theorems only) *)
  Fixpoint sf_sum' (ab : list (Q * Q)) (x : A) : A :=
    match ab with
    | [] => ofQ 0
    | (a, b) :: t => add (mul (mul (neg (ofQ b)) (ofQ a)) (expf (mul (neg (ofQ b)) x))) (sf_sum' t x)
    end.

  (* GaussianCoef::calculate_density_iso(r2, B) *)
  Definition iso_term (a : A) (bB : A) (r2pi : A) : A :=
    let t := div (mul four pi) bB in mul (mul a (pow15 t)) (expf (mul (neg t) r2pi)).
  Fixpoint iso_sum (ab : list (Q * Q)) (B r2pi : A) : A :=
    match ab with
    | [] => ofQ 0
    | (a, b) :: t => add (iso_term (ofQ a) (add (ofQ b) B) r2pi) (iso_sum t B r2pi)
    end.
  Definition density_iso (ab : list (Q * Q)) (c : Q) (r2 B : A) : A :=
    let r2pi := mul r2 pi in
    add (iso_term (ofQ c) B r2pi) (iso_sum ab B r2pi).

  (* precalculate_density_iso(B, addend) -> ExpSum{a[],b[]}; calculate(r2) *)
  Definition prec_iso_term (a : A) (bB : A) : A * A :=
    let t := div (mul four pi) bB in (mul a (pow15 t), mul (neg t) pi).
  Definition precalc_iso (ab : list (Q * Q)) (c : Q) (withc : bool) (B addend : A) : list (A * A) :=
    map (fun p => prec_iso_term (ofQ (fst p)) (add (ofQ (snd p)) B)) ab ++
    (if withc then [prec_iso_term (add (ofQ c) addend) B] else []).
  Fixpoint expsum_calc (l : list (A * A)) (r2 : A) : A :=
    match l with
    | [] => ofQ 0
    | (a, b) :: t => add (mul a (expf (mul b r2))) (expsum_calc t r2)
    end.

  (* SMat33<T>: u11 u22 u33 u12 u13 u23 *)
  Record smat := mkS { u11 : A; u22 : A; u33 : A; u12 : A; u13 : A; u23 : A }.
  Definition sub (x y : A) := add x (neg y).
  Definition s_scaled (m : smat) (s : A) : smat :=
    mkS (mul (u11 m) s) (mul (u22 m) s) (mul (u33 m) s) (mul (u12 m) s) (mul (u13 m) s) (mul (u23 m) s).
  Definition s_added_kI (m : smat) (k : A) : smat :=
    mkS (add (u11 m) k) (add (u22 m) k) (add (u33 m) k) (u12 m) (u13 m) (u23 m).
  Definition s_det (m : smat) : A :=
    add (add (mul (u11 m) (sub (mul (u22 m) (u33 m)) (mul (u23 m) (u23 m))))
             (mul (u12 m) (sub (mul (u23 m) (u13 m)) (mul (u33 m) (u12 m)))))
        (mul (u13 m) (sub (mul (u12 m) (u23 m)) (mul (u13 m) (u22 m)))).
  Definition s_inverse (m : smat) : smat :=
    let id := div (ofQ 1) (s_det m) in
    mkS (mul id (sub (mul (u22 m) (u33 m)) (mul (u23 m) (u23 m))))
        (mul id (sub (mul (u11 m) (u33 m)) (mul (u13 m) (u13 m))))
        (mul id (sub (mul (u11 m) (u22 m)) (mul (u12 m) (u12 m))))
        (mul id (sub (mul (u13 m) (u23 m)) (mul (u12 m) (u33 m))))
        (mul id (sub (mul (u12 m) (u23 m)) (mul (u13 m) (u22 m))))
        (mul id (sub (mul (u12 m) (u13 m)) (mul (u11 m) (u23 m)))).
  Definition s_rur (m : smat) (x y z : A) : A :=
    add (add (add (mul (mul x x) (u11 m)) (mul (mul y y) (u22 m))) (mul (mul z z) (u33 m)))
        (mul two (add (add (mul (mul x y) (u12 m)) (mul (mul x z) (u13 m))) (mul (mul y z) (u23 m)))).

  (* calculate_density_aniso(r, U):  B = U.scaled(8 pi^2) *)
  Definition aniso_term (a : A) (Bb : smat) (x y z : A) : A :=
    mul (div (mul a (pow15 (mul four pi))) (sqrtf (s_det Bb)))
        (expf (mul (mul (neg four) (mul pi pi)) (s_rur (s_inverse Bb) x y z))).
  Fixpoint aniso_sum (ab : list (Q * Q)) (B : smat) (x y z : A) : A :=
    match ab with
    | [] => ofQ 0
    | (a, b) :: t => add (aniso_term (ofQ a) (s_added_kI B (ofQ b)) x y z) (aniso_sum t B x y z)
    end.
  Definition density_aniso_b (ab : list (Q * Q)) (c : Q) (B : smat) (x y z : A) : A :=
    add (aniso_term (ofQ c) B x y z) (aniso_sum ab B x y z).
  Definition density_aniso (ab : list (Q * Q)) (c : Q) (U : smat) (x y z : A) : A :=
    density_aniso_b ab c (s_scaled U (mul eight (mul pi pi))) x y z.

  (* precalculate_density_aniso_b(B, addend) -> ExpAnisoSum; calculate(r).
     The code uses the literal 44.546623974653663 for pow15(4 pi). *)
  Definition pow_4pi_15_lit : Q := 44546623974653663 # 1000000000000000.
  Definition prec_aniso_term (a : A) (Bb : smat) : A * smat :=
    (div (mul a (ofQ pow_4pi_15_lit)) (sqrtf (s_det Bb)),
     s_scaled (s_inverse Bb) (mul (neg four) (mul pi pi))).
  Definition precalc_aniso_b (ab : list (Q * Q)) (c : Q) (withc : bool) (B : smat) (addend : A)
    : list (A * smat) :=
    map (fun p => prec_aniso_term (ofQ (fst p)) (s_added_kI B (ofQ (snd p)))) ab ++
    (if withc then [prec_aniso_term (add (ofQ c) addend) B] else []).
  Fixpoint expanisosum_calc (l : list (A * smat)) (x y z : A) : A :=
    match l with
    | [] => ofQ 0
    | (a, b) :: t => add (mul a (expf (s_rur b x y z))) (expanisosum_calc t x y z)
    end.
End Num.

(* derivative returned by ExpSum::calculate_with_derivative(r): sum 2 b r a exp(b r^2) *)
Section Num2.
  Variable A : Type.
  Variables (add mul : A -> A -> A) (expf : A -> A) (ofQ : Q -> A).
  Fixpoint expsum_deriv (l : list (A * A)) (r : A) : A :=
    match l with
    | [] => ofQ 0
    | (a, b) :: t => add (mul (mul (mul (ofQ 2) b) r) (mul a (expf (mul b (mul r r))))) (expsum_deriv t r)
    end.
End Num2.
Definition abs_ab (ab : list (Q * Q)) : list (Q * Q) := map (fun p => (Qabs (fst p), snd p)) ab.
