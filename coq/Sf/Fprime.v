(* Model of src/fprime.cpp: the orbital-table well-formedness checker (pure Q, for vm_compute) and the
   imaginary part f'' of cromer() (generic number type: R for the theorem, IEEE doubles after extraction).
   No proofs here: this file is extracted. *)
From Coq Require Import ZArith QArith Qabs List Bool.
Import ListNotations.
Local Open Scope Z_scope.

Definition orb := (Z * Q * list Q * list Q)%type.       (* nparm, binden, xnrg[6], xsc[11] *)
Definition o_nparm (o : orb) : Z := fst (fst (fst o)).
Definition o_binden (o : orb) : Q := snd (fst (fst o)).
Definition o_xnrg (o : orb) : list Q := snd (fst o).
Definition o_xsc (o : orb) : list Q := snd o.
Definition qnth (l : list Q) (k : nat) : Q := nth k l 0%Q.

(* ---------------------------------------------------------------- table checker *)
Definition gauss_x : list Q :=
  [4691007703067 # 100000000000000; 23076534494716 # 100000000000000; 1 # 2;
   (1 - (23076534494716 # 100000000000000)); (1 - (4691007703067 # 100000000000000))]%Q.
Definition fixed_kev : list Q := [80; 267 # 10; 89 # 10; 3; 1]%Q.

Definition qlt_b (a b : Q) : bool := negb (Qle_bool b a).
Definition within (tol a b : Q) : bool := Qle_bool (Qabs (a - b)) (tol * Qabs b).   (* |a-b| <= tol |b| *)

Fixpoint qinsert (p : Q * Q) (l : list (Q * Q)) : list (Q * Q) :=
  match l with [] => [p] | h :: t => if qlt_b (fst p) (fst h) then p :: l else h :: qinsert p t end.
Definition qsort (l : list (Q * Q)) : list (Q * Q) := fold_right qinsert [] l.
Fixpoint strictly_asc (l : list (Q * Q)) : bool :=
  match l with a :: ((b :: _) as t) => qlt_b (fst a) (fst b) && strictly_asc t | _ => true end.
Fixpoint strictly_desc (l : list Q) : bool :=
  match l with a :: ((b :: _) as t) => qlt_b b a && strictly_desc t | _ => true end.

(* the (energy, cross-section) points cromer() interpolates: 5 fixed energies + xnrg[0..nparm-6] *)
Definition points (o : orb) : list (Q * Q) :=
  let np := Z.to_nat (o_nparm o) in
  firstn np (combine (fixed_kev ++ o_xnrg o) (o_xsc o)).
(* y = (xsc > 1e-9 ? log(xsc) : 0) and the code skips leading points with |y| < 1e-9: xsc <= 1e-9 or xsc = 1 *)
Definition unusable (xs : Q) : bool := Qle_bool xs (1 # 1000000000) || Qeq_bool xs 1.
Fixpoint leading (l : list (Q * Q)) : nat :=
  match l with p :: t => if unusable (snd p) then S (leading t) else O | [] => O end.
Definition usable_points (o : orb) : nat := length (points o) - leading (qsort (points o)).

Definition orbital_ok_b (z : Z) (i : nat) (o : orb) : bool :=
  let np := o_nparm o in let b := o_binden o in let xn := o_xnrg o in let xs := o_xsc o in
  ((np =? 10) || (np =? 11)) && Nat.eqb (length xn) 6 && Nat.eqb (length xs) 11 &&
  qlt_b 0 b && forallb (fun q => Qle_bool 0 q) xs &&
  strictly_desc (firstn 5 xn) && qlt_b 0 (qnth xn 4) &&
  (if np =? 10 then Qeq_bool (qnth xn 5) 0 && Qeq_bool (qnth xs 10) 0
   else qlt_b 0 (qnth xs 10) && Qle_bool b (qnth xn 5) && qlt_b (qnth xn 5) (qnth xn 4)) &&
  (* the tabulated energies are the Gauss nodes of the integration variable of the sigma variant used:
     nparm 11: E = binden/x;  nparm 10: E = binden/x^2;  K shell of Z >= 79 (sigma1): E = binden/sqrt(x) *)
  forallb (fun k => let x := qnth gauss_x k in let e := qnth xn k in
             if np =? 11 then within (1 # 10) (e * x) b
             else if (79 <=? z) && Nat.eqb i 0 then within (2 # 10) (e * e * x) (b * b)
             else within (1 # 10) (e * x * x) b) (seq 0 5) &&
  (* sorting is well defined (distinct energies), aknint gets n >= 3 points *)
  strictly_asc (qsort (points o)) && (3 <=? usable_points o)%nat.

Definition element_ok_b (rows : list orb) (e : Z * Z * Z) : bool :=
  let '(z, off, n) := e in
  (0 <? n) && (0 <=? off) &&
  forallb (fun i => orbital_ok_b z i (nth (Z.to_nat off + i) rows (0, 0%Q, [], []))) (seq 0 (Z.to_nat n)).

(* index table: Z = 3..92 in order, offsets start at 0, contiguous, strictly increasing, end at the row count *)
Fixpoint index_ok_b (idx : list (Z * Z * Z)) (z off total : Z) : bool :=
  match idx with
  | [] => (z =? 93) && (off =? total)
  | (z', off', n) :: t => (z' =? z) && (off' =? off) && (0 <? n) && index_ok_b t (z + 1) (off + n) total
  end.

Definition table_wf_b (idx : list (Z * Z * Z)) (rows : list orb) (kpcor : list Q) : bool :=
  index_ok_b idx 3 0 (Z.of_nat (length rows)) && forallb (element_ok_b rows) idx && Nat.eqb (length kpcor) 92.

(* ---------------------------------------------------------------- f'' of cromer(), generic numbers *)
Section Fpp.
  Variable A : Type.
  Variables (add mul div sub : A -> A -> A) (expf logf absf : A -> A).
  Variable ofQ : Q -> A.     (* double literal of the source *)
  Variable ofT : Q -> A.     (* table entry: the decimal rounded to float (float_data_type), then widened *)
  Variable ltb : A -> A -> bool.
  Variable logt : A -> A.    (* std::log(float) of a table entry: evaluated in float_data_type precision *)

  Definition kev2ry := ofQ (2721 # 100000).
  Definition fscinv := ofQ (137036 # 1000).
  Definition au := ofQ 28002200.
  Definition fourpi := ofQ (12566370614359172 # 1000000000000000).
  Definition ln_xnrdat : list A :=
    [ofQ (4382026634673881 # 1000000000000000); ofQ (32846635654062037 # 10000000000000000);
     ofQ (2186051276738094 # 1000000000000000); ofQ (10986122886681098 # 10000000000000000); ofQ 0].

  Fixpoint ainsert (p : A * A) (l : list (A * A)) : list (A * A) :=
    match l with [] => [p] | h :: t => if ltb (fst p) (fst h) then p :: l else h :: ainsert p t end.
  Definition asort (l : list (A * A)) : list (A * A) := fold_right ainsert [] l.

  Definition pnth (l : list (A * A)) (k : nat) : A * A := nth k l (ofQ 0, ofQ 0).
  (* while (k < n - 2 && data[k].x < x) ++k;   (data ascending) *)
  Fixpoint find_k (fuel k n : nat) (data : list (A * A)) (x : A) : nat :=
    match fuel with
    | O => k
    | S f => if Nat.ltb k (n - 2) && ltb (fst (pnth data k)) x then find_k f (S k) n data x else k
    end.
  Definition aknint (x : A) (n : nat) (data : list (A * A)) : A :=
    let k := find_k n 1%nat n data x in
    let a0 := snd (pnth data (k - 1)) in let a1 := snd (pnth data k) in let a2 := snd (pnth data (k + 1)) in
    let b0 := sub (fst (pnth data (k - 1))) x in let b1 := sub (fst (pnth data k)) x in
    let b2 := sub (fst (pnth data (k + 1))) x in
    let a1' := div (sub (mul a0 b1) (mul a1 b0)) (sub b1 b0) in
    let a2' := div (sub (mul a0 b2) (mul a2 b0)) (sub b2 b0) in
    div (sub (mul a1' b2) (mul a2' b1)) (sub b2 b1).

  Definition lndata (o : orb) : list (A * A) :=
    let np := Z.to_nat (o_nparm o) in
    let xs := firstn np (ln_xnrdat ++ map (fun q => logt (ofT q)) (o_xnrg o)) in
    let ys := map (fun q => let v := ofT q in if ltb (ofQ (1 # 1000000000)) v then logt v else ofQ 0) (o_xsc o) in
    asort (combine xs ys).
  Fixpoint skip0 (l : list (A * A)) : list (A * A) :=
    match l with p :: t => if ltb (absf (snd p)) (ofQ (1 # 1000000000)) then skip0 t else l | [] => [] end.

  Definition f2orb (energa lne : A) (o : orb) : A :=
    let bena := div (ofT (o_binden o)) kev2ry in
    if ltb energa bena then ofQ 0      (* if (g.bena <= g.energa) { ... } *)
    else
      let d := skip0 (lndata o) in
      let akn := aknint lne (length d) d in
      let xsb := div (expf akn) au in
      div (mul (mul energa fscinv) xsb) fourpi.

  Definition cromer_f2 (orbs : list orb) (energy_ev : A) : A :=
    let energy_kev := mul (ofQ (1 # 1000)) energy_ev in
    let lne := logf energy_kev in
    let energa := div energy_kev kev2ry in
    fold_left (fun acc o => add acc (f2orb energa lne o)) orbs (ofQ 0).
End Fpp.

Definition orbitals_of (idx : list (Z * Z * Z)) (rows : list orb) (z : Z) : option (list orb) :=
  match find (fun e => fst (fst e) =? z) idx with
  | Some (_, off, n) => Some (firstn (Z.to_nat n) (skipn (Z.to_nat off) rows))
  | None => None
  end.
