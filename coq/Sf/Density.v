(* The real-space density of formfact.hpp (calculate_density_iso) under a linear functional L on radial
   functions of r^2 whose value on Gaussians is known: L(exp(-k r2)) = (pi/k)^(3/2) * g k.
     g = 1                      : L is the integral over R^3            -> normalisation
     g k = exp(-pi^2 s^2 / k)   : L is the 3-D Fourier transform at |s| -> density is the FT of f * exp(-B s^2/4)
   The Gaussian integrals themselves are HYPOTHESES of the section (not proved here); what is proved is the
   coefficient algebra of the code: a * (4 pi/(b+B))^(3/2) * exp(-(4 pi/(b+B)) * pi * r2). *)
From Coq Require Import Reals QArith List Lra.
From GV Require Import Sf.FormFact Sf.FormFactR.
Import ListNotations.
Local Open Scope R_scope.

Definition pow15R (x : R) : R := x * sqrt x.
Definition isoR (ab : list (Q * Q)) (c : Q) (r2 B : R) : R :=
  density_iso R Rplus Rmult Rdiv Ropp exp sqrt dR PI ab c r2 B.

Lemma pow15R_inv : forall t, 0 < t -> pow15R t * pow15R (/ t) = 1.
Proof.
  intros t Ht. unfold pow15R.
  replace (t * sqrt t * (/ t * sqrt (/ t))) with ((t * / t) * (sqrt t * sqrt (/ t))) by ring.
  rewrite <- sqrt_mult by (try lra; left; apply Rinv_0_lt_compat, Ht).
  rewrite Rinv_r by lra. rewrite sqrt_1. ring.
Qed.

Section Functional.
  Variable L : (R -> R) -> R.
  Variable g : R -> R.
  Hypothesis L_ext : forall f h, (forall r2, f r2 = h r2) -> L f = L h.
  Hypothesis L_plus : forall f h, L (fun r2 => f r2 + h r2) = L f + L h.
  Hypothesis L_scal : forall a f, L (fun r2 => a * f r2) = a * L f.
  Hypothesis L_gauss : forall k, 0 < k -> L (fun r2 => exp (- k * r2)) = pow15R (PI / k) * g k.

  (* sum over the Gaussians of the weights g evaluated at k_i = 4 pi^2 / (b_i + B) *)
  Fixpoint weighted (ab : list (Q * Q)) (B : R) : R :=
    match ab with [] => 0 | (a, b) :: t => dR a * g (4 * PI * PI / (dR b + B)) + weighted t B end.
  Fixpoint all_pos (ab : list (Q * Q)) (B : R) : Prop :=
    match ab with [] => True | (_, b) :: t => 0 < dR b + B /\ all_pos t B end.

  Lemma L_iso_term : forall a bB, 0 < bB ->
    L (fun r2 => iso_term R Rmult Rdiv Ropp exp sqrt dR PI a bB (r2 * PI)) = a * g (4 * PI * PI / bB).
  Proof.
    intros a bB Hb. unfold iso_term, four, pow15.
    assert (Hpi := PI_RGT_0).
    assert (H4 : dR 4 = 4) by (unfold dR; simpl; lra). rewrite H4.
    set (t := 4 * PI / bB).
    assert (Ht : 0 < t) by (unfold t; apply Rdiv_lt_0_compat; lra).
    rewrite (L_ext _ (fun r2 => (a * (t * sqrt t)) * exp (- (t * PI) * r2))) by (intros; f_equal; f_equal; ring).
    rewrite L_scal, L_gauss by (apply Rmult_lt_0_compat; lra).
    replace (PI / (t * PI)) with (/ t) by (field; lra).
    replace (t * PI) with (4 * PI * PI / bB) by (unfold t; field; lra).
    change (t * sqrt t) with (pow15R t).
    rewrite Rmult_assoc, <- (Rmult_assoc (pow15R t)), pow15R_inv by exact Ht. ring.
  Qed.

  Lemma L_iso_sum : forall ab B, all_pos ab B ->
    L (fun r2 => iso_sum R Rplus Rmult Rdiv Ropp exp sqrt dR PI ab B (r2 * PI)) = weighted ab B.
  Proof.
    induction ab as [|[a b] t IH]; intros B Hp; simpl.
    - rewrite (L_ext _ (fun r2 => 0 * exp (- 1 * r2))) by (intros; rewrite dR_0; ring).
      rewrite L_scal. ring.
    - destruct Hp as [Hb Ht].
      rewrite (L_plus (fun r2 => iso_term R Rmult Rdiv Ropp exp sqrt dR PI (dR a) (dR b + B) (r2 * PI))
                      (fun r2 => iso_sum R Rplus Rmult Rdiv Ropp exp sqrt dR PI t B (r2 * PI))).
      rewrite L_iso_term by exact Hb. rewrite IH by exact Ht. reflexivity.
  Qed.

  Theorem L_density_iso : forall ab c B, 0 < B -> all_pos ab B ->
    L (fun r2 => isoR ab c r2 B) = dR c * g (4 * PI * PI / B) + weighted ab B.
  Proof.
    intros ab c B HB Hp. unfold isoR, density_iso.
    rewrite (L_plus (fun r2 => iso_term R Rmult Rdiv Ropp exp sqrt dR PI (dR c) B (r2 * PI))
                    (fun r2 => iso_sum R Rplus Rmult Rdiv Ropp exp sqrt dR PI ab B (r2 * PI))).
    rewrite L_iso_term by exact HB. rewrite L_iso_sum by exact Hp. reflexivity.
  Qed.
End Functional.

(* g = 1: the density integrates to f(0) = c + sum a_i *)
Lemma weighted_one : forall ab B, weighted (fun _ => 1) ab B = sf_sum R Rplus Rmult Ropp exp dR ab 0.
Proof.
  induction ab as [|[a b] t IH]; intros B; simpl; [rewrite dR_0; reflexivity|].
  rewrite IH. rewrite Rmult_0_r, exp_0. ring.
Qed.

Theorem density_normalised : forall (Int3 : (R -> R) -> R),
  (forall f h, (forall r2, f r2 = h r2) -> Int3 f = Int3 h) ->
  (forall f h, Int3 (fun r2 => f r2 + h r2) = Int3 f + Int3 h) ->
  (forall a f, Int3 (fun r2 => a * f r2) = a * Int3 f) ->
  (forall k, 0 < k -> Int3 (fun r2 => exp (- k * r2)) = pow15R (PI / k) * 1) ->
  forall ab c B, 0 < B -> all_pos ab B ->
  Int3 (fun r2 => isoR ab c r2 B) = sfR ab c 0.
Proof.
  intros Int3 Hext Hplus Hscal Hg ab c B HB Hp.
  rewrite (L_density_iso Int3 (fun _ => 1) Hext Hplus Hscal Hg ab c B HB Hp).
  rewrite weighted_one. unfold sfR, calculate_sf. ring.
Qed.

(* g k = exp(-pi^2 s^2/k): the 3-D Fourier transform at |s| (s = 2 sin(theta)/lambda) is f(s^2/4) exp(-B s^2/4) *)
Lemma weighted_ft : forall s ab B, all_pos ab B ->
  weighted (fun k => exp (- (PI * PI * s * s) / k)) ab B =
  sf_sum R Rplus Rmult Ropp exp dR ab (s * s / 4) * exp (- B * (s * s / 4)).
Proof.
  intros s. induction ab as [|[a b] t IH]; intros B Hp; simpl; [rewrite dR_0; ring|].
  destruct Hp as [Hb Ht]. rewrite IH by exact Ht. assert (Hpi := PI_RGT_0).
  replace (- (PI * PI * s * s) / (4 * PI * PI / (dR b + B))) with (- dR b * (s * s / 4) + - B * (s * s / 4))
    by (field; lra).
  rewrite exp_plus. ring.
Qed.

Theorem density_is_fourier_transform : forall (s : R) (FT3 : (R -> R) -> R),
  (forall f h, (forall r2, f r2 = h r2) -> FT3 f = FT3 h) ->
  (forall f h, FT3 (fun r2 => f r2 + h r2) = FT3 f + FT3 h) ->
  (forall a f, FT3 (fun r2 => a * f r2) = a * FT3 f) ->
  (forall k, 0 < k -> FT3 (fun r2 => exp (- k * r2)) = pow15R (PI / k) * exp (- (PI * PI * s * s) / k)) ->
  forall ab c B, 0 < B -> all_pos ab B ->
  FT3 (fun r2 => isoR ab c r2 B) = sfR ab c (s * s / 4) * exp (- B * (s * s / 4)).
Proof.
  intros s FT3 Hext Hplus Hscal Hg ab c B HB Hp.
  rewrite (L_density_iso FT3 _ Hext Hplus Hscal Hg ab c B HB Hp).
  rewrite weighted_ft by exact Hp. assert (Hpi := PI_RGT_0).
  replace (- (PI * PI * s * s) / (4 * PI * PI / B)) with (- B * (s * s / 4)) by (field; lra).
  unfold sfR, calculate_sf. ring.
Qed.
