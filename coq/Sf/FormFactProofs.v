(* Proofs about the regenerated form-factor tables (finite: vm_compute, lifted to bounded quantifiers),
   the lookups, and the density algebra over R. *)
From Coq Require Import ZArith QArith Qabs List Bool Lia Reals Lra.
From Interval Require Import Tactic.
From GV Require Import Sf.FormFact Sf.FormFact_gen Sf.FormFactGolden_gen Sf.FormFactR Sf.FormFactProofs_gen.
Import ListNotations.
Local Open Scope Z_scope.

(* ---------------------------------------------------------------- helpers *)
Fixpoint zrange (lo : Z) (n : nat) : list Z :=
  match n with O => [] | S k => lo :: zrange (lo + 1) k end.
Lemma zrange_in : forall n lo x, lo <= x < lo + Z.of_nat n -> In x (zrange lo n).
Proof.
  induction n as [|k IH]; intros lo x H; simpl in *; [lia|].
  destruct (Z.eq_dec lo x) as [->|Hne]; [left; reflexivity|right; apply IH; lia].
Qed.
Lemma forallb_zrange : forall (f : Z -> bool) lo n,
  forallb f (zrange lo n) = true -> forall x, lo <= x < lo + Z.of_nat n -> f x = true.
Proof. intros f lo n H x Hx. rewrite forallb_forall in H. apply H, zrange_in, Hx. Qed.
Lemma forallb_seq : forall (f : nat -> bool) lo n,
  forallb f (seq lo n) = true -> forall i, (lo <= i < lo + n)%nat -> f i = true.
Proof. intros f lo n H i Hi. rewrite forallb_forall in H. apply H, in_seq, Hi. Qed.

Definition ions_get := it92_get it92_ions el_Cf el_D.
Definition ions_get_exact := it92_get_exact it92_ions el_Cf el_D.
Definition zpair_eq_dec : forall a b : Z * Z, {a = b} + {a <> b}.
Proof. decide equality; apply Z.eq_dec. Defined.
Definition in_ions_b (el q : Z) : bool := existsb (pair_eqb (el, q)) it92_ions.
Lemma in_ions_b_spec : forall el q, in_ions_b el q = true <-> In (el, q) it92_ions.
Proof.
  intros el q. unfold in_ions_b. rewrite existsb_exists. split.
  - intros [[e c] [Hin Heq]]. unfold pair_eqb in Heq; simpl in Heq.
    apply andb_true_iff in Heq. destruct Heq as [H1 H2].
    apply Z.eqb_eq in H1. apply Z.eqb_eq in H2. subst. exact Hin.
  - intros Hin. exists (el, q). split; [exact Hin|]. unfold pair_eqb; simpl. rewrite !Z.eqb_refl. reflexivity.
Qed.

(* ---------------------------------------------------------------- shapes *)
Definition tables_wf_b : bool :=
  Nat.eqb (length it92_rows) 211 && Nat.eqb (length it92_ions) 112 && forallb (row_wf_b 9) it92_rows &&
  Nat.eqb (length c4322_rows) 99 && forallb (row_wf_b 10) c4322_rows &&
  Nat.eqb (length neutron_rows) 121 && (el_count =? 120) && (el_Cf =? 98) && (el_D =? 119) &&
  Nat.eqb (length elem_atomic_number) 120 &&
  (* ion list strictly ascending in (element, charge): required by the early exit of get() *)
  (fix asc (l : list (Z * Z)) := match l with a :: ((b :: _) as t) => pair_gtb b a && asc t | _ => true end) it92_ions &&
  (* every ion is an element 1..Cf with a non-zero charge *)
  forallb (fun p => (1 <=? fst p) && (fst p <=? el_Cf) && negb (snd p =? 0) && (-8 <=? snd p) && (snd p <=? 8)) it92_ions.
Lemma tables_wf : tables_wf_b = true.
Proof. vm_cast_no_check (@eq_refl bool true). Qed.

(* ---------------------------------------------------------------- electron count *)
Definition atomic_number (el : Z) : Z := nth (Z.to_nat el) elem_atomic_number 0.
(* number of electrons of X-ray row i: neutral rows 1..98 are elements, rows 99.. are ions *)
Definition xray_electrons (i : nat) : Z :=
  if (i <? 99)%nat then atomic_number (Z.of_nat i)
  else let p := nth (i - 99) it92_ions (0, 0) in atomic_number (fst p) - snd p.
Definition electron_rows_ok_b : bool :=
  forallb (fun i => (0 <? xray_electrons i) && electron_count_ok_b (xray_electrons i) (nth i it92_rows [])) (seq 1 210).
Lemma electron_rows_ok : electron_rows_ok_b = true.
Proof. vm_cast_no_check (@eq_refl bool true). Qed.
Lemma f0_electron_count : forall i, (1 <= i < 211)%nat ->
  0 < xray_electrons i /\ electron_count_ok_b (xray_electrons i) (nth i it92_rows []) = true.
Proof.
  intros i Hi. pose proof (forallb_seq _ 1 210 electron_rows_ok i ltac:(lia)) as H.
  apply andb_true_iff in H. destruct H as [H1 H2]. split; [apply Z.ltb_lt, H1|exact H2].
Qed.
(* the checker means what it says *)
Lemma electron_count_ok_spec : forall n row, electron_count_ok_b n row = true ->
  (Qabs (qsum (map fst (xray_ab row)) + xray_c row - inject_Z n) <= (15 # 10000) * inject_Z n)%Q.
Proof. intros n row H. apply Qle_bool_iff, H. Qed.
(* row 0 (El::X, unknown element) is a copy of the oxygen row in all three tables *)
Lemma row0_is_oxygen : nth 0%nat it92_rows [] = nth 8%nat it92_rows [] /\ nth 0%nat c4322_rows [] = nth 8%nat c4322_rows [].
Proof. vm_compute. split; reflexivity. Qed.

(* ---------------------------------------------------------------- lookups *)
Definition elements := zrange 0 120.          (* every El ordinal below END; charges: zrange (-128) 256 = every signed char *)

Definition ion_rows_ok_b : bool :=
  forallb (fun k => let p := nth k it92_ions (0, 0) in ions_get false (fst p) (snd p) =? 99 + Z.of_nat k) (seq 0 112).
Lemma ion_rows_ok : ion_rows_ok_b = true.
Proof. vm_cast_no_check (@eq_refl bool true). Qed.
Lemma ion_lookup_own_row : forall k el q, nth_error it92_ions k = Some (el, q) ->
  ions_get false el q = 99 + Z.of_nat k.
Proof.
  intros k el q H.
  assert (Hk : (k < 112)%nat).
  { assert (Hn : nth_error it92_ions k <> None) by congruence. apply nth_error_Some in Hn. exact Hn. }
  pose proof (forallb_seq _ 0 112 ion_rows_ok k ltac:(lia)) as Hb. cbv beta zeta in Hb.
  rewrite (nth_error_nth _ _ (0, 0)%Z H) in Hb. cbn [fst snd] in Hb. apply Z.eqb_eq, Hb.
Qed.

Definition fallback_q (el q : Z) : bool :=
  in_ions_b el q || (ions_get false el q =? base_pos el_Cf el_D el).
Definition fallback_el (el : Z) : bool := forallb (fallback_q el) (zrange (-128) 256).
Lemma fallback_ok : forallb fallback_el (zrange 0 120) = true.
Proof. vm_cast_no_check (@eq_refl bool true). Qed.
Lemma ion_lookup_fallback : forall el q, 0 <= el < 120 -> -128 <= q <= 127 -> ~ In (el, q) it92_ions ->
  ions_get false el q = base_pos el_Cf el_D el.
Proof.
  intros el q Hel Hq Hn.
  pose proof (forallb_zrange fallback_el 0 120 fallback_ok el ltac:(lia)) as H. unfold fallback_el in H.
  pose proof (forallb_zrange (fallback_q el) (-128) 256 H q ltac:(lia)) as H2. unfold fallback_q in H2.
  apply orb_true_iff in H2. destruct H2 as [H2|H2].
  - apply in_ions_b_spec in H2. contradiction.
  - apply Z.eqb_eq, H2.
Qed.
Lemma base_pos_spec : forall el, 0 <= el < 120 ->
  base_pos el_Cf el_D el = (if el <=? 98 then el else if el =? 119 then 1 else 0).
Proof. intros el _. reflexivity. Qed.
Lemma get_ignoring_charge : forall el q, ions_get true el q = base_pos el_Cf el_D el.
Proof. intros el q. unfold ions_get, it92_get. rewrite andb_false_r. reflexivity. Qed.

Definition exact_q (el q : Z) : bool :=
    match ions_get_exact false el q with
    | None => negb (it92_has el_Cf el_D el) || (negb (q =? 0) && negb (in_ions_b el q))
    | Some p => it92_has el_Cf el_D el && ((q =? 0) && (p =? base_pos el_Cf el_D el) ||
                                            in_ions_b el q && (99 <=? p) && pair_eqb (nth (Z.to_nat (p - 99)) it92_ions (0,0)) (el, q))
    end.
Definition exact_el (el : Z) : bool := forallb (exact_q el) (zrange (-128) 256).
Lemma exact_ok : forallb exact_el (zrange 0 120) = true.
Proof. vm_cast_no_check (@eq_refl bool true). Qed.
Lemma get_exact_null_iff : forall el q, 0 <= el < 120 -> -128 <= q <= 127 ->
  (ions_get_exact false el q = None <->
   it92_has el_Cf el_D el = false \/ (q <> 0 /\ ~ In (el, q) it92_ions)).
Proof.
  intros el q Hel Hq.
  pose proof (forallb_zrange exact_el 0 120 exact_ok el ltac:(lia)) as H. unfold exact_el in H.
  pose proof (forallb_zrange (exact_q el) (-128) 256 H q ltac:(lia)) as H2. unfold exact_q in H2. clear H.
  destruct (ions_get_exact false el q) as [p|].
  - split; [discriminate|]. intros [Hh|[Hq0 Hni]].
    + rewrite Hh in H2. discriminate.
    + apply andb_true_iff in H2. destruct H2 as [_ H2]. apply orb_true_iff in H2. destruct H2 as [H2|H2].
      * apply andb_true_iff in H2. destruct H2 as [H2 _]. apply Z.eqb_eq in H2. contradiction.
      * apply andb_true_iff in H2. destruct H2 as [H2 _]. apply andb_true_iff in H2. destruct H2 as [H2 _].
        apply in_ions_b_spec in H2. contradiction.
  - split; [|reflexivity]. intros _. apply orb_true_iff in H2. destruct H2 as [H2|H2].
    + left. apply negb_true_iff, H2.
    + right. apply andb_true_iff in H2. destruct H2 as [Ha Hb]. split.
      * apply negb_true_iff in Ha. apply Z.eqb_neq, Ha.
      * apply negb_true_iff in Hb. intros Hin. apply in_ions_b_spec in Hin. congruence.
Qed.

(* the lookups as EXECUTED by the library (dumped for every element x charge in [-8,8]) are the model's *)
Definition dumps_match_b : bool :=
  forallb (fun el => forallb (fun q =>
     let k := Z.to_nat (q + 8) in let e := Z.to_nat el in
     (nth k (nth e it92_get_dump []) (-2) =? ions_get false el q) &&
     (nth k (nth e it92_get_ignoring_dump []) (-2) =? ions_get true el q) &&
     (nth k (nth e it92_get_exact_dump []) (-2) =? match ions_get_exact false el q with Some p => p | None => -1 end))
     (zrange (-8) 17) &&
     Bool.eqb (nth (Z.to_nat el) it92_has_dump false) (it92_has el_Cf el_D el) &&
     (nth (Z.to_nat el) c4322_get_dump (-2) =? c4322_get el_Cf el_D el) &&
     Bool.eqb (nth (Z.to_nat el) neutron_has_dump false)
              (negb (Qeq_bool (nth (Z.to_nat el) neutron_rows 0%Q) 0%Q))) elements.
Lemma dumps_match : dumps_match_b = true.
Proof. vm_cast_no_check (@eq_refl bool true). Qed.

(* ---------------------------------------------------------------- frozen copy *)
Lemma tables_equal_golden :
  it92_rows = g_it92_rows /\ it92_ions = g_it92_ions /\ c4322_rows = g_c4322_rows /\ neutron_rows = g_neutron_rows.
Proof. vm_compute. repeat split; reflexivity. Qed.

(* ---------------------------------------------------------------- positivity / monotonicity, all rows *)
Definition covers (rows : list nat) (lo n : nat) : bool :=
  forallb (fun i => existsb (Nat.eqb i) rows) (seq lo n).
Lemma covers_in : forall rows lo n, covers rows lo n = true -> forall i, (lo <= i < lo + n)%nat -> In i rows.
Proof.
  intros rows lo n H i Hi. pose proof (forallb_seq _ lo n H i Hi) as H1. cbv beta in H1.
  apply existsb_exists in H1. destruct H1 as [j [Hj Heq]]. apply Nat.eqb_eq in Heq. subst. exact Hj.
Qed.

Lemma xray_neutral_covered : covers xray_pd_rows 1 98 = true.
Proof. vm_cast_no_check (@eq_refl bool true). Qed.
Lemma elec_covered : covers elec_pd_rows 1 98 = true.
Proof. vm_cast_no_check (@eq_refl bool true). Qed.
(* tabulated ions: rows 99..210 except the three documented ones (Sc3+ = 112, Ti4+ = 115, Bi5+ = 198) *)
Definition ion_pd_exceptions : list nat := [112; 115; 198]%nat.
Lemma xray_ions_covered : covers (ion_pd_exceptions ++ xray_pd_rows) 99 112 = true.
Proof. vm_cast_no_check (@eq_refl bool true). Qed.

Local Open Scope R_scope.
Lemma xray_positive_decreasing : forall i, (1 <= i <= 98)%nat -> xray_pd i.
Proof.
  intros i Hi. pose proof xray_pd_all as H. rewrite Forall_forall in H. apply H.
  apply (covers_in _ 1 98 xray_neutral_covered). lia.
Qed.
Lemma electron_positive_decreasing : forall i, (1 <= i <= 98)%nat -> elec_pd i.
Proof.
  intros i Hi. pose proof elec_pd_all as H. rewrite Forall_forall in H. apply H.
  apply (covers_in _ 1 98 elec_covered). lia.
Qed.
Lemma xray_ions_positive_decreasing : forall i, (99 <= i <= 210)%nat -> ~ In i ion_pd_exceptions -> xray_pd i.
Proof.
  intros i Hi Hn. pose proof xray_pd_all as H. rewrite Forall_forall in H. apply H.
  pose proof (covers_in _ 99 112 xray_ions_covered i ltac:(lia)) as Hin.
  apply in_app_or in Hin. destruct Hin; [contradiction|assumption].
Qed.
(* consequence in the usual form: f is non-increasing in s^2 (hence in s = sin(theta)/lambda) on [0, 2 A^-1] *)
Lemma xray_nonincreasing : forall i, (1 <= i <= 98)%nat -> forall x y, 0 <= x -> x <= y -> y <= 4 ->
  sfR (xray_ab (xray_row i)) (xray_c (xray_row i)) y <= sfR (xray_ab (xray_row i)) (xray_c (xray_row i)) x.
Proof.
  intros i Hi x y H0 Hxy H4. apply (sfR_nonincreasing _ _ 0 4); try assumption.
  intros t Ht. exact (proj2 (xray_positive_decreasing i Hi t Ht)).
Qed.
Lemma electron_nonincreasing : forall i, (1 <= i <= 98)%nat -> forall x y, 0 <= x -> x <= y -> y <= 4 ->
  sfR (elec_ab (elec_row i)) 0%Q y <= sfR (elec_ab (elec_row i)) 0%Q x.
Proof.
  intros i Hi x y H0 Hxy H4. apply (sfR_nonincreasing _ _ 0 4); try assumption.
  intros t Ht. exact (proj2 (electron_positive_decreasing i Hi t Ht)).
Qed.

(* the literal used by precalculate_density_aniso_b for pow15(4 pi) *)
Lemma pow_4pi_15_literal_ok :
  Rabs (dR pow_4pi_15_lit - (4 * PI) * sqrt (4 * PI)) <= 1 / 10 ^ 13.
Proof. unfold dR, pow_4pi_15_lit; simpl. interval with (i_prec 80). Qed.

Lemma neutron_known_values :
  nth 1 neutron_rows 0%Q = (-3739 # 1000)%Q /\ nth 119 neutron_rows 0%Q = (6671 # 1000)%Q /\
  nth 6 neutron_rows 0%Q = (6646 # 1000)%Q /\ nth 7 neutron_rows 0%Q = (936 # 100)%Q /\
  nth 8 neutron_rows 0%Q = (5803 # 1000)%Q.
Proof. vm_compute. repeat split; reflexivity. Qed.
