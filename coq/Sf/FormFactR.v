(* The form-factor model instantiated over the real numbers, and the general facts used by the
   per-row (generated) proofs: derivative of a Gaussian sum, monotonicity from the sign of the derivative. *)
From Coq Require Import Reals QArith List Lia Lra.
From Coquelicot Require Import Coquelicot.
From GV Require Import Sf.FormFact Sf.FormFact_gen.
Import ListNotations.
Local Open Scope R_scope.

Definition dR (q : Q) : R := IZR (Qnum q) / IZR (Zpos (Qden q)).

Definition sfR (ab : list (Q * Q)) (c : Q) (x : R) : R := calculate_sf R Rplus Rmult Ropp exp dR ab c x.
Definition sfR' (ab : list (Q * Q)) (x : R) : R := sf_sum' R Rplus Rmult Ropp exp dR ab x.

(* the claim proved row by row with interval arithmetic: positive, derivative in s^2 non-positive *)
Definition pd_at (ab : list (Q * Q)) (c : Q) (x : R) : Prop := sfR ab c x > 0 /\ sfR' ab x <= 0.

Lemma dR_0 : dR 0 = 0.
Proof. unfold dR; simpl. lra. Qed.

Lemma sf_sum_derive : forall ab x,
  is_derive (fun y => sf_sum R Rplus Rmult Ropp exp dR ab y) x (sfR' ab x).
Proof.
  induction ab as [|[a b] t IH]; intros x; unfold sfR'; simpl.
  - rewrite dR_0. apply (is_derive_const (K := R_AbsRing) (V := R_NormedModule) 0 x).
  - apply (is_derive_plus (K := R_AbsRing) (V := R_NormedModule)
             (fun y => dR a * exp (- dR b * y)) (fun y => sf_sum R Rplus Rmult Ropp exp dR t y)).
    + auto_derive; [trivial|]. ring.
    + apply IH.
Qed.

Lemma sfR_derive : forall ab c x, is_derive (sfR ab c) x (sfR' ab x).
Proof.
  intros ab c x. unfold sfR, calculate_sf.
  replace (sfR' ab x) with (plus (zero : R_NormedModule) (sfR' ab x)) by (unfold plus, zero; simpl; ring).
  apply (is_derive_plus (K := R_AbsRing) (V := R_NormedModule)
           (fun _ => dR c) (fun y => sf_sum R Rplus Rmult Ropp exp dR ab y)).
  - apply (is_derive_const (K := R_AbsRing) (V := R_NormedModule) (dR c) x).
  - apply sf_sum_derive.
Qed.

(* derivative <= 0 on [lo,hi]  ->  non-increasing on [lo,hi] (mean value theorem) *)
Lemma sfR_nonincreasing : forall ab c lo hi,
  (forall x, lo <= x <= hi -> sfR' ab x <= 0) ->
  forall x y, lo <= x -> x <= y -> y <= hi -> sfR ab c y <= sfR ab c x.
Proof.
  intros ab c lo hi Hd x y Hlo Hxy Hhi.
  destruct (Req_dec x y) as [->|Hne]; [lra|].
  assert (Hlt : x < y) by lra.
  destruct (MVT_gen (sfR ab c) x y (sfR' ab)) as [z [Hz Heq]].
  - intros t _. apply sfR_derive.
  - intros t _. apply continuity_pt_filterlim.
    apply (ex_derive_continuous (sfR ab c)). exists (sfR' ab t). apply sfR_derive.
  - rewrite Rmin_left, Rmax_right in Hz by lra.
    assert (sfR' ab z <= 0) by (apply Hd; lra).
    assert (0 <= (- sfR' ab z) * (y - x)) by (apply Rmult_le_pos; lra). lra.
Qed.

(* per-row statements (proved in the generated files Sf/FormFactPd*_gen.v, one lemma per row) *)
Definition xray_row (i : nat) : list Q := nth i it92_rows [].
Definition elec_row (i : nat) : list Q := nth i c4322_rows [].
Definition xray_pd (i : nat) : Prop :=
  forall x, 0 <= x <= 4 -> pd_at (xray_ab (nth i it92_rows [])) (xray_c (nth i it92_rows [])) x.
Definition elec_pd (i : nat) : Prop :=
  forall x, 0 <= x <= 4 -> pd_at (elec_ab (nth i c4322_rows [])) 0%Q x.
