(* Lossless triplet notation (property C10): for every row of an operator with a non-zero rotation part,
   parse_triplet_part (make_triplet_part row w 'x') = (row, w).  Unbounded in the entries. *)
From Coq Require Import Lia ZifyBool QArith.
From GV Require Import Base.Str Sym.Op Sym.Triplet Sym.OpProofs Sym.DecimalRT.
Local Open Scope Z_scope.
Ltac Zify.zify_post_hook ::= Z.to_euclidean_division_equations.

(* what may follow a term: end of string or the sign of the next term *)
Definition Rest (s : str) : Prop := s = [] \/ exists t, s = 43 :: t \/ s = 45 :: t.

Lemma rest_facts : forall s, Rest s ->
  is_digit (cur s) = false /\ (cur s =? 47) = false /\ (cur s =? 42) = false /\ (cur s =? 46) = false /\
  skip_space s = s.
Proof. intros s [->|[t [->| ->]]]; cbn; repeat split; reflexivity. Qed.

Definition is_axis (i : Z) : Prop := i = 0 \/ i = 1 \/ i = 2.

(* optional "/d" tail of a fraction *)
Definition frac_tail (d : Z) : str := if d =? 1 then [] else 47 :: print_int d.

Definition good_den (d : Z) : Prop := d = 1 \/ d = 2 \/ d = 3 \/ d = 4 \/ d = 6 \/ d = 8 \/ d = 12 \/ d = 24.

Lemma good_den_checks : forall d, good_den d -> d <> 1 ->
  (d =? 1) = false /\ ((d <=? 0) || negb (crem DEN d =? 0)) = false /\ 0 < d.
Proof. intros d [->|[->|[->|[->|[->|[->|[->| ->]]]]]]] H; try congruence; cbn; repeat split; reflexivity || lia. Qed.

Lemma skip_space_nonspace : forall c t, is_tspace c = false -> skip_space (c :: t) = c :: t.
Proof. intros c t H. unfold skip_space. cbn. rewrite H. reflexivity. Qed.

Lemma print_int_first_nonspace : forall n rest, 0 < n -> skip_space (print_int n ++ rest) = print_int n ++ rest.
Proof.
  intros n rest Hn. rewrite (print_int_pos n Hn). destruct (print_nat_spec n Hn) as [_ [D NE]].
  destruct (print_nat n) as [|c t]; [contradiction|].
  pose proof (proj1 (Forall_cons_iff _ _ _) D) as [Hc _]. cbn [app].
  apply skip_space_nonspace. unfold is_digit, is_tspace in *. lia.
Qed.

Section Style.
  (* a letter set: style is the char passed to Op::triplet, L i the letter of axis i, ntv the notation
     value parse_triplet_part detects for these letters *)
  Variable style : Z.
  Variable L : Z -> Z.
  Variable ntv : Z.
  Definition nt_ok (nt : Z) : Prop := nt = 32 \/ nt = ntv.
  Hypothesis interpret_letter_x : forall i nt, is_axis i -> nt_ok nt -> interpret_letter (L i) nt = Some (i, ntv).
  Hypothesis letter_not_digit : forall i, is_axis i ->
    is_digit (L i) = false /\ (L i =? 46) = false /\ is_tspace (L i) = false /\
    (L i =? 43) = false /\ (L i =? 45) = false /\ (L i =? 0) = false.
  Hypothesis no_comma_letter : forall i, is_axis i -> (L i =? 44) = false.
  Hypothesis letter_at_style : forall i, (i < 3)%nat -> letter_at style i = L (Z.of_nat i).

(* ---- the four body shapes ---- *)

(* "x" *)
Lemma body_letter : forall i num r nt rest, is_axis i -> nt_ok nt -> Rest rest -> num <> 0 ->
  part_body (L i :: rest) num r nt = Some (rest, add_at r i num, ntv).
Proof.
  intros i num r nt rest Hi Hnt Hr Hnum. unfold part_body.
  destruct (letter_not_digit i Hi) as [D [P [S _]]].
  destruct (rest_facts rest Hr) as [_ [R47 [_ [_ Rs]]]].
  assert (En : (num =? 0) = false) by lia. rewrite En.
  cbn [cur]. rewrite D, P. cbn [orb]. rewrite (interpret_letter_x i nt Hi Hnt).
  cbn [adv]. rewrite Rs, R47. cbn. reflexivity.
Qed.

(* "x/d" *)
Lemma body_frac1 : forall i d num r nt rest, is_axis i -> nt_ok nt -> Rest rest -> num <> 0 ->
  good_den d -> d <> 1 ->
  part_body (L i :: 47 :: print_int d ++ rest) num r nt = Some (rest, add_at r i (cdiv num d), ntv).
Proof.
  intros i d num r nt rest Hi Hnt Hr Hnum Hd Hd1. unfold part_body.
  destruct (letter_not_digit i Hi) as [D [P [S _]]].
  destruct (rest_facts rest Hr) as [Rd _].
  destruct (good_den_checks d Hd Hd1) as [E1 [E2 Hpos]].
  assert (En : (num =? 0) = false) by lia. rewrite En.
  cbn [cur]. rewrite D, P. cbn [orb]. rewrite (interpret_letter_x i nt Hi Hnt).
  cbn [adv]. rewrite (skip_space_nonspace 47 _ eq_refl). cbn [cur adv Z.eqb Pos.eqb].
  rewrite (strtol10_digits d rest Hpos Rd). rewrite E1, E2. reflexivity.
Qed.

(* "n*x" or "n/d*x" *)
Lemma body_mult : forall i n d num r nt rest, is_axis i -> nt_ok nt -> Rest rest -> num <> 0 ->
  0 < n -> good_den d ->
  part_body (print_int n ++ frac_tail d ++ 42 :: L i :: rest) num r nt
  = Some (rest, add_at r i (if d =? 1 then num * n else cdiv (num * n) d), ntv).
Proof.
  intros i n d num r nt rest Hi Hnt Hr Hnum Hn Hd. unfold part_body.
  destruct (letter_not_digit i Hi) as [D [P [S _]]].
  assert (En : (num =? 0) = false) by lia. rewrite En.
  rewrite (cur_print_nat_digit_int n _ Hn). cbn [orb].
  unfold frac_tail. destruct (d =? 1) eqn:E1.
  - (* no denominator *)
    cbn [app]. rewrite (strtol10_digits n (42 :: L i :: rest) Hn eq_refl).
    cbn [cur adv Z.eqb Pos.eqb]. rewrite (skip_space_nonspace (L i) rest S). cbn [cur adv].
    rewrite (interpret_letter_x i nt Hi Hnt). reflexivity.
  - assert (Hd1 : d <> 1) by lia.
    destruct (good_den_checks d Hd Hd1) as [_ [E2 Hpos]].
    cbn [app]. rewrite (strtol10_digits n (47 :: print_int d ++ 42 :: L i :: rest) Hn eq_refl).
    cbn [cur adv Z.eqb Pos.eqb].
    rewrite (strtol10_digits d (42 :: L i :: rest) Hpos eq_refl).
    cbn [cur adv Z.eqb Pos.eqb]. rewrite (skip_space_nonspace (L i) rest S). cbn [cur adv].
    rewrite (interpret_letter_x i nt Hi Hnt). rewrite E1, E2. cbn. reflexivity.
Qed.

(* translation "n" or "n/d" *)
Lemma body_tran : forall n d num r nt rest, Rest rest -> num <> 0 -> 0 < n -> good_den d ->
  part_body (print_int n ++ frac_tail d ++ rest) num r nt
  = Some (rest, add_at r 3 (if d =? 1 then num * n else cdiv (num * n) d), nt).
Proof.
  intros n d num r nt rest Hr Hnum Hn Hd. unfold part_body.
  destruct (rest_facts rest Hr) as [Rd [R47 [R42 [R46 _]]]].
  assert (En : (num =? 0) = false) by lia. rewrite En.
  unfold frac_tail. destruct (d =? 1) eqn:E1.
  - cbn [app]. rewrite (cur_print_nat_digit_int n rest Hn). cbn [orb].
    rewrite (strtol10_digits n rest Hn Rd). rewrite R46, R47, R42. reflexivity.
  - assert (Hd1 : d <> 1) by lia.
    destruct (good_den_checks d Hd Hd1) as [_ [E2 Hpos]].
    rewrite (cur_print_nat_digit_int n _ Hn). cbn [orb].
    cbn [app]. rewrite (strtol10_digits n (47 :: print_int d ++ rest) Hn eq_refl).
    cbn [cur adv Z.eqb Pos.eqb]. rewrite (strtol10_digits d rest Hpos Rd). rewrite R42, E1, E2. cbn. reflexivity.
Qed.

(* ---- terms as printed by make_triplet_part ---- *)
Definition rot_body (i : Z) (v : Z) : str :=
  let a := Z.abs v in
  if a =? DEN then [L i]
  else let f := get_op_fraction a in
       if fst f =? 1 then [L i] ++ [47] ++ print_int (snd f)
       else append_fraction [] f ++ [42] ++ [L i].
Definition tran_body (w : Z) : str := append_fraction [] (get_op_fraction (Z.abs w)).

Definition sign_num (v : Z) : Z := if v <? 0 then - DEN else DEN.

Lemma append_fraction_nil : forall n d, append_fraction [] (n, d) = print_int n ++ frac_tail d.
Proof.
  intros n d. unfold append_fraction, frac_tail. destruct (d =? 1); cbn [app]; [rewrite app_nil_r|]; reflexivity.
Qed.

Lemma gof_facts : forall a, 0 < a ->
  let '(n, d) := get_op_fraction a in n * 24 = a * d /\ 0 < n /\ good_den d.
Proof.
  intros a Ha. pose proof (get_op_fraction_spec a Ha) as H.
  destruct (get_op_fraction a) as [n d]. destruct H as [H1 [H2 [H3 _]]]. auto.
Qed.

Lemma quot_exact_pos : forall a d x, d <> 0 -> x = a * d -> Z.quot x d = a.
Proof. intros a d x Hd ->. apply Z.quot_mul. exact Hd. Qed.
Lemma quot_exact_neg : forall a d x, d <> 0 -> x = a * d -> Z.quot (- x) d = - a.
Proof. intros a d x Hd ->. rewrite Z.quot_opp_l by exact Hd. rewrite Z.quot_mul by exact Hd. reflexivity. Qed.

(* parsing the body of a rotation term gives back the coefficient *)
Lemma rot_body_value : forall i v r nt rest, is_axis i -> nt_ok nt -> Rest rest -> v <> 0 ->
  part_body (rot_body i v ++ rest) (sign_num v) r nt = Some (rest, add_at r i v, ntv).
Proof.
  intros i v r nt rest Hi Hnt Hr Hv. unfold rot_body.
  assert (Hs : sign_num v <> 0) by (unfold sign_num, DEN; destruct (v <? 0); lia).
  destruct (Z.abs v =? DEN) eqn:Ea.
  - cbn [app]. rewrite (body_letter i (sign_num v) r nt rest Hi Hnt Hr Hs).
    assert (Ev : sign_num v = v) by (unfold sign_num, DEN in *; destruct (v <? 0) eqn:E; lia).
    rewrite Ev. reflexivity.
  - assert (Ha : 0 < Z.abs v) by lia.
    pose proof (gof_facts (Z.abs v) Ha) as G. destruct (get_op_fraction (Z.abs v)) as [n d] eqn:Eg.
    destruct G as [G1 [G2 G3]]. cbn [fst snd].
    destruct (n =? 1) eqn:En.
    + assert (Hd1 : d <> 1) by (unfold DEN in *; lia).
      cbn [app]. rewrite (body_frac1 i d (sign_num v) r nt rest Hi Hnt Hr Hs G3 Hd1).
      assert (Ev : cdiv (sign_num v) d = v).
      { unfold sign_num, DEN, cdiv in *. assert (n = 1) by lia. subst n.
        destruct (v <? 0) eqn:E.
        - assert (v = - Z.abs v) by lia. assert (24 = Z.abs v * d) by lia.
          set (a := Z.abs v) in *. clearbody a. subst v.
          apply quot_exact_neg; lia.
        - assert (v = Z.abs v) by lia. assert (24 = Z.abs v * d) by lia.
          set (a := Z.abs v) in *. clearbody a. subst v.
          apply quot_exact_pos; lia. }
      rewrite Ev. reflexivity.
    + rewrite append_fraction_nil. rewrite <- !app_assoc. cbn [app].
      rewrite (body_mult i n d (sign_num v) r nt rest Hi Hnt Hr Hs G2 G3).
      assert (Ev : (if d =? 1 then sign_num v * n else cdiv (sign_num v * n) d) = v).
      { unfold sign_num, DEN, cdiv in *. destruct (d =? 1) eqn:Ed.
        - assert (d = 1) by lia. subst d. destruct (v <? 0) eqn:E; lia.
        - assert (Hd0 : d <> 0) by (destruct G3 as [->|[->|[->|[->|[->|[->|[->| ->]]]]]]]; lia).
          destruct (v <? 0) eqn:E.
          + assert (v = - Z.abs v) by lia. set (a := Z.abs v) in *. clearbody a. subst v.
            replace (- (24) * n) with (- (24 * n)) by ring. apply quot_exact_neg; lia.
          + assert (v = Z.abs v) by lia. set (a := Z.abs v) in *. clearbody a. subst v.
            apply quot_exact_pos; lia. }
      rewrite Ev. reflexivity.
Qed.

Lemma tran_body_value : forall w r nt rest, Rest rest -> w <> 0 ->
  part_body (tran_body w ++ rest) (sign_num w) r nt = Some (rest, add_at r 3 w, nt).
Proof.
  intros w r nt rest Hr Hw. unfold tran_body.
  assert (Hs : sign_num w <> 0) by (unfold sign_num, DEN; destruct (w <? 0); lia).
  assert (Ha : 0 < Z.abs w) by lia.
  pose proof (gof_facts (Z.abs w) Ha) as G. destruct (get_op_fraction (Z.abs w)) as [n d] eqn:Eg.
  destruct G as [G1 [G2 G3]].
  rewrite append_fraction_nil. rewrite <- app_assoc.
  rewrite (body_tran n d (sign_num w) r nt rest Hr Hs G2 G3).
  assert (Ev : (if d =? 1 then sign_num w * n else cdiv (sign_num w * n) d) = w).
  { unfold sign_num, DEN, cdiv in *. destruct (d =? 1) eqn:Ed.
    - assert (d = 1) by lia. subst d. destruct (w <? 0) eqn:E; lia.
    - assert (Hd0 : d <> 0) by (destruct G3 as [->|[->|[->|[->|[->|[->|[->| ->]]]]]]]; lia).
      destruct (w <? 0) eqn:E.
      + assert (w = - Z.abs w) by lia. set (a := Z.abs w) in *. clearbody a. subst w.
        replace (- (24) * n) with (- (24 * n)) by ring. apply quot_exact_neg; lia.
      + assert (w = Z.abs w) by lia. set (a := Z.abs w) in *. clearbody a. subst w.
        apply quot_exact_pos; lia. }
  rewrite Ev. reflexivity.
Qed.

(* first character of a body: a letter or a digit, never a blank, a sign or NUL *)
Definition good_first (s : str) : Prop :=
  exists c t, s = c :: t /\ is_tspace c = false /\ (c =? 43) = false /\ (c =? 45) = false /\ (c =? 0) = false.

Lemma print_int_good_first : forall n rest, 0 < n -> good_first (print_int n ++ rest).
Proof.
  intros n rest Hn. rewrite (print_int_pos n Hn). destruct (print_nat_spec n Hn) as [_ [D NE]].
  destruct (print_nat n) as [|c t]; [contradiction|].
  pose proof (proj1 (Forall_cons_iff _ _ _) D) as [Hc _].
  exists c, (t ++ rest). unfold is_digit, is_tspace in *. repeat split; try reflexivity; lia.
Qed.

Lemma rot_body_good_first : forall i v rest, is_axis i -> v <> 0 -> good_first (rot_body i v ++ rest).
Proof.
  intros i v rest Hi Hv. unfold rot_body.
  destruct (letter_not_digit i Hi) as [_ [_ [S [P [M Z0]]]]].
  destruct (Z.abs v =? DEN); [exists (L i), rest; auto|].
  assert (Ha : 0 < Z.abs v) by lia.
  pose proof (gof_facts (Z.abs v) Ha) as G. destruct (get_op_fraction (Z.abs v)) as [n d].
  destruct G as [_ [G2 _]]. cbn [fst snd].
  destruct (n =? 1); [eexists _, _; split; [reflexivity|auto]|].
  rewrite append_fraction_nil, <- !app_assoc. apply print_int_good_first. exact G2.
Qed.

Lemma tran_body_good_first : forall w rest, w <> 0 -> good_first (tran_body w ++ rest).
Proof.
  intros w rest Hw. unfold tran_body. assert (Ha : 0 < Z.abs w) by lia.
  pose proof (gof_facts (Z.abs w) Ha) as G. destruct (get_op_fraction (Z.abs w)) as [n d].
  destruct G as [_ [G2 _]]. rewrite append_fraction_nil, <- app_assoc. apply print_int_good_first. exact G2.
Qed.

(* ---- one loop iteration per term ---- *)
(* ---- the range tests of the repaired parser ---- *)
Definition BND : Z := 1000000.

Lemma num_range_letter : forall i rest, is_axis i -> num_in_range (L i :: rest) = true.
Proof.
  intros i rest Hi. unfold num_in_range. cbn [cur]. destruct (letter_not_digit i Hi) as [D [P _]]. rewrite D, P. reflexivity.
Qed.

Lemma num_range_print : forall n rest, 0 < n <= BND -> is_digit (cur rest) = false ->
  num_in_range (print_int n ++ rest) = true.
Proof.
  intros n rest [Hn Hb] Hd. unfold num_in_range. rewrite (cur_print_nat_digit_int n rest Hn). cbn [orb].
  rewrite (strtol10_digits n rest Hn Hd). unfold BND in Hb. apply andb_true_intro. split; apply Z.leb_le; lia.
Qed.

Lemma gof_num_le : forall a, 0 < a -> fst (get_op_fraction a) <= a.
Proof.
  intros a Ha. pose proof (gof_facts a Ha) as G. destruct (get_op_fraction a) as [n d]. destruct G as [G1 [G2 G3]].
  cbn [fst]. destruct G3 as [->|[->|[->|[->|[->|[->|[->| ->]]]]]]]; lia.
Qed.

Lemma frac_tail_not_digit : forall d rest, is_digit (cur rest) = false -> is_digit (cur (frac_tail d ++ rest)) = false.
Proof. intros d rest H. unfold frac_tail. destruct (d =? 1); [exact H|reflexivity]. Qed.

Lemma rot_body_num_range : forall i v rest, is_axis i -> v <> 0 -> Z.abs v <= BND ->
  num_in_range (rot_body i v ++ rest) = true.
Proof.
  intros i v rest Hi Hv Hb. unfold rot_body.
  destruct (Z.abs v =? DEN); [apply num_range_letter; exact Hi|].
  assert (Ha : 0 < Z.abs v) by lia. pose proof (gof_num_le (Z.abs v) Ha) as Hle.
  pose proof (gof_facts (Z.abs v) Ha) as G. destruct (get_op_fraction (Z.abs v)) as [n d]. destruct G as [G1 [G2 G3]].
  cbn [fst snd] in *. destruct (n =? 1); [apply num_range_letter; exact Hi|].
  rewrite append_fraction_nil. rewrite <- !app_assoc. apply num_range_print; [lia|].
  apply frac_tail_not_digit. reflexivity.
Qed.

Lemma tran_body_num_range : forall w rest, Rest rest -> w <> 0 -> Z.abs w <= BND ->
  num_in_range (tran_body w ++ rest) = true.
Proof.
  intros w rest Hr Hw Hb. unfold tran_body.
  assert (Ha : 0 < Z.abs w) by lia. pose proof (gof_num_le (Z.abs w) Ha) as Hle.
  pose proof (gof_facts (Z.abs w) Ha) as G. destruct (get_op_fraction (Z.abs w)) as [n d]. destruct G as [G1 [G2 G3]].
  cbn [fst] in Hle. rewrite append_fraction_nil. rewrite <- app_assoc. apply num_range_print; [lia|].
  apply frac_tail_not_digit. destruct (rest_facts rest Hr) as [Rd _]. exact Rd.
Qed.

Definition norm4 (r : Z*Z*Z*Z) : Z :=
  let '(a,b,c,d) := r in Z.max (Z.max (Z.abs a) (Z.abs b)) (Z.max (Z.abs c) (Z.abs d)).
Lemma vec_in_range_norm : forall r, norm4 r <= 100000000 -> vec_in_range r = true.
Proof.
  intros [[[a b] c] d] H. unfold norm4 in H. unfold vec_in_range, comp_ok.
  repeat (apply andb_true_intro; split); apply Z.leb_le; lia.
Qed.
Lemma norm_add_at : forall r i v, norm4 (add_at r i v) <= norm4 r + Z.abs v.
Proof.
  intros [[[a b] c] d] i v.
  assert (E : add_at (a, b, c, d) i v = (a + v, b, c, d) \/ add_at (a, b, c, d) i v = (a, b + v, c, d) \/
              add_at (a, b, c, d) i v = (a, b, c + v, d) \/ add_at (a, b, c, d) i v = (a, b, c, d + v)).
  { unfold add_at. destruct i as [|p|p]; [left; reflexivity| |right; right; right; reflexivity].
    destruct p as [p|p|]; [right; right; right; destruct p; reflexivity| |right; left; reflexivity].
    destruct p; [right; right; right; reflexivity|right; right; right; reflexivity|right; right; left; reflexivity]. }
  destruct E as [ -> | [ -> | [ -> | -> ] ] ]; unfold norm4; lia.
Qed.

Lemma loop_signed : forall f sg body rest r nt r' nt',
  (sg = 43 \/ sg = 45) -> good_first (body ++ rest) ->
  num_in_range (body ++ rest) = true -> vec_in_range r' = true ->
  part_body (body ++ rest) (if sg =? 43 then DEN else - DEN) r nt = Some (rest, r', nt') ->
  forall num, part_loop (S f) (sg :: body ++ rest) num r nt = part_loop f rest 0 r' nt'.
Proof.
  intros f sg body rest r nt r' nt' Hsg [c [t [E [S _]]]] Hn Hv Hb num.
  cbn [part_loop].
  assert (Hss : skip_space (sg :: body ++ rest) = sg :: body ++ rest)
    by (apply skip_space_nonspace; destruct Hsg as [->| ->]; reflexivity).
  rewrite Hss. cbn [cur].
  assert (E0 : (sg =? 0) = false) by (destruct Hsg as [->| ->]; reflexivity). rewrite E0.
  unfold part_step. cbn [cur adv].
  assert (Es : (sg =? 43) || (sg =? 45) = true) by (destruct Hsg as [->| ->]; reflexivity). rewrite Es.
  rewrite E. rewrite (skip_space_nonspace c t S). rewrite <- E.
  unfold part_body_checked. rewrite Hn. cbn [negb]. rewrite Hb, Hv. reflexivity.
Qed.

Lemma loop_unsigned : forall f body rest r nt r' nt',
  good_first (body ++ rest) ->
  num_in_range (body ++ rest) = true -> vec_in_range r' = true ->
  part_body (body ++ rest) DEN r nt = Some (rest, r', nt') ->
  part_loop (S f) (body ++ rest) DEN r nt = part_loop f rest 0 r' nt'.
Proof.
  intros f body rest r nt r' nt' [c [t [E [S [P [M Z0]]]]]] Hn Hv Hb.
  cbn [part_loop]. rewrite E. rewrite (skip_space_nonspace c t S). cbn [cur]. rewrite Z0.
  unfold part_step. cbn [cur]. rewrite P, M. cbn [orb]. rewrite <- E.
  unfold part_body_checked. rewrite Hn. cbn [negb]. rewrite Hb, Hv. reflexivity.
Qed.

(* ---- a whole row ---- *)
Inductive term := TRot (i : Z) (v : Z) | TTran (w : Z).
Definition term_ok (t : term) : Prop :=
  match t with TRot i v => is_axis i /\ v <> 0 | TTran w => w <> 0 end.
Definition term_val (t : term) : Z := match t with TRot _ v => v | TTran w => w end.
Definition term_body (t : term) : str :=
  match t with TRot i v => rot_body i v | TTran w => tran_body w end.
Definition term_apply (r : Z*Z*Z*Z) (t : term) : Z*Z*Z*Z :=
  match t with TRot i v => add_at r i v | TTran w => add_at r 3 w end.
Definition term_nt (nt : Z) (t : term) : Z := match t with TRot _ _ => ntv | TTran _ => nt end.

Definition sign_str (first : bool) (v : Z) : str :=
  if v <? 0 then [45] else if first then [] else [43].

Fixpoint render (first : bool) (ts : list term) : str :=
  match ts with
  | [] => []
  | t :: ts' => sign_str first (term_val t) ++ term_body t ++ render false ts'
  end.

Lemma render_false_rest : forall ts, Rest (render false ts).
Proof.
  intros [|t ts]; [left; reflexivity|]. right. cbn [render]. unfold sign_str.
  destruct (term_val t <? 0); eexists; cbn [app]; eauto.
Qed.

Lemma term_body_value : forall t r nt rest, term_ok t -> nt_ok nt -> Rest rest ->
  part_body (term_body t ++ rest) (sign_num (term_val t)) r nt = Some (rest, term_apply r t, term_nt nt t).
Proof.
  intros [i v|w] r nt rest Hok Hnt Hr; cbn in *.
  - destruct Hok as [Hi Hv]. apply rot_body_value; assumption.
  - apply tran_body_value; assumption.
Qed.

Lemma term_body_good_first : forall t rest, term_ok t -> good_first (term_body t ++ rest).
Proof.
  intros [i v|w] rest Hok; cbn in *; [destruct Hok; apply rot_body_good_first|apply tran_body_good_first]; assumption.
Qed.

Lemma nt_ok_term : forall nt t, nt_ok nt -> nt_ok (term_nt nt t).
Proof. intros nt [i v|w] H; cbn; [right; reflexivity|exact H]. Qed.

Definition term_small (t : term) : Prop := Z.abs (term_val t) <= BND.
Fixpoint sum_abs (ts : list term) : Z := match ts with [] => 0 | t :: u => Z.abs (term_val t) + sum_abs u end.
Lemma sum_abs_nonneg : forall ts, 0 <= sum_abs ts.
Proof. induction ts as [|t u IH]; cbn [sum_abs]; lia. Qed.
Lemma term_apply_norm : forall r t, norm4 (term_apply r t) <= norm4 r + Z.abs (term_val t).
Proof. intros r [i v|w]; cbn [term_apply term_val]; apply norm_add_at. Qed.
Lemma term_num_range : forall t rest, term_ok t -> term_small t -> Rest rest -> num_in_range (term_body t ++ rest) = true.
Proof.
  intros [i v|w] rest Hok Hs Hr; unfold term_small in Hs; cbn in *.
  - destruct Hok as [Hi Hv]. apply rot_body_num_range; assumption.
  - apply tran_body_num_range; assumption.
Qed.

Lemma parse_render : forall ts first r nt f,
  Forall term_ok ts -> nt_ok nt -> (length ts < f)%nat -> (first = true -> ts <> []) ->
  Forall term_small ts -> norm4 r + sum_abs ts <= 100000000 ->
  part_loop f (render first ts) (if first then DEN else 0) r nt
  = Ok (fold_left term_apply ts r, fold_left term_nt ts nt).
Proof.
  induction ts as [|t ts IH]; intros first r nt f Hok Hnt Hf Hne Hsm Hsum.
  - destruct first; [exfalso; apply Hne; reflexivity|].
    destruct f; [cbn in Hf; lia|]. reflexivity.
  - destruct f as [|f]; [cbn in Hf; lia|].
    pose proof (proj1 (Forall_cons_iff _ _ _) Hok) as [Ht Hts].
    pose proof (render_false_rest ts) as Hr.
    pose proof (term_body_value t r nt (render false ts) Ht Hnt Hr) as Hv.
    pose proof (term_body_good_first t (render false ts) Ht) as Hg.
    pose proof (proj1 (Forall_cons_iff _ _ _) Hsm) as [Hst Hsts].
    pose proof (term_num_range t (render false ts) Ht Hst Hr) as Hnr.
    pose proof (term_apply_norm r t) as Hnorm. pose proof (sum_abs_nonneg ts) as Hs0. cbn [sum_abs] in Hsum.
    assert (Hvr : vec_in_range (term_apply r t) = true) by (apply vec_in_range_norm; lia).
    cbn [render fold_left].
    assert (IH' : part_loop f (render false ts) 0 (term_apply r t) (term_nt nt t)
                  = Ok (fold_left term_apply ts (term_apply r t), fold_left term_nt ts (term_nt nt t))).
    { apply (IH false); [exact Hts|apply nt_ok_term; exact Hnt|cbn in Hf; lia|discriminate|exact Hsts|lia]. }
    unfold sign_str. unfold sign_num in Hv.
    destruct (term_val t <? 0) eqn:Eneg.
    + cbn [app]. rewrite (loop_signed f 45 (term_body t) (render false ts) r nt _ _ (or_intror eq_refl) Hg Hnr Hvr Hv).
      exact IH'.
    + destruct first.
      * cbn [app]. rewrite (loop_unsigned f (term_body t) (render false ts) r nt _ _ Hg Hnr Hvr Hv). exact IH'.
      * cbn [app]. rewrite (loop_signed f 43 (term_body t) (render false ts) r nt _ _ (or_introl eq_refl) Hg Hnr Hvr Hv).
        exact IH'.
Qed.

(* ---- make_triplet_part is render ---- *)
Definition is_nil (s : str) : bool := match s with [] => true | _ => false end.

Definition tp_one (style : Z) (s : str) (i : nat) (v : Z) : str :=
  if v =? 0 then s else
  let s1 := append_sign_of s v in
  let a := Z.abs v in
  if a =? DEN then s1 ++ [letter_at style i]
  else let f := get_op_fraction a in
       if fst f =? 1 then s1 ++ [letter_at style i] ++ [47] ++ print_int (snd f)
       else append_fraction s1 f ++ [42] ++ [letter_at style i].

Lemma make_triplet_part_unfold : forall x y z w style,
  make_triplet_part (x, y, z) w style =
  let s3 := tp_one style (tp_one style (tp_one style [] 0%nat x) 1%nat y) 2%nat z in
  if w =? 0 then s3 else append_fraction (append_sign_of s3 w) (get_op_fraction (Z.abs w)).
Proof. reflexivity. Qed.

Lemma append_fraction_app : forall s f, append_fraction s f = s ++ append_fraction [] f.
Proof. intros s [n d]. unfold append_fraction. destruct (d =? 1); cbn [app]; rewrite <- ?app_assoc; reflexivity. Qed.

Lemma append_sign_spec : forall s v, append_sign_of s v = s ++ sign_str (is_nil s) v.
Proof.
  intros s v. unfold append_sign_of, sign_str. destruct (v <? 0); [reflexivity|].
  destruct s; cbn; [reflexivity|reflexivity].
Qed.

Lemma tp_one_spec : forall s i v, (i < 3)%nat -> v <> 0 ->
  tp_one style s i v = s ++ sign_str (is_nil s) v ++ rot_body (Z.of_nat i) v.
Proof.
  intros s i v Hi Hv. unfold tp_one, rot_body.
  assert (E : (v =? 0) = false) by lia. rewrite E.
  rewrite (letter_at_style i Hi), append_sign_spec.
  destruct (Z.abs v =? DEN); [rewrite <- app_assoc; reflexivity|].
  destruct (get_op_fraction (Z.abs v)) as [n d]. cbn [fst snd].
  destruct (n =? 1); [rewrite <- !app_assoc; reflexivity|].
  rewrite append_fraction_app. rewrite <- !app_assoc. reflexivity.
Qed.

Lemma tp_one_zero : forall s i, tp_one style s i 0 = s.
Proof. reflexivity. Qed.

Lemma good_first_nonnil : forall b, good_first (b ++ []) -> is_nil b = false.
Proof. intros b [c [t [E _]]]. rewrite app_nil_r in E. subst. reflexivity. Qed.

Lemma is_nil_app_r : forall a b, is_nil b = false -> is_nil (a ++ b) = false.
Proof. intros [|x a] b H; cbn; [exact H|reflexivity]. Qed.

Lemma is_nil_app : forall a b, is_nil (a ++ b) = is_nil a && is_nil b.
Proof. intros [|x a] b; reflexivity. Qed.

Lemma rot_body_nonnil : forall i v, is_axis i -> v <> 0 -> is_nil (rot_body i v) = false.
Proof. intros i v Hi Hv. apply good_first_nonnil. apply rot_body_good_first; assumption. Qed.

Definition row_terms (x y z w : Z) : list term :=
  (if x =? 0 then [] else [TRot 0 x]) ++ (if y =? 0 then [] else [TRot 1 y]) ++
  (if z =? 0 then [] else [TRot 2 z]) ++ (if w =? 0 then [] else [TTran w]).

Lemma make_part_is_render : forall x y z w,
  make_triplet_part (x, y, z) w style = render true (row_terms x y z w).
Proof.
  intros x y z w. rewrite make_triplet_part_unfold. cbv zeta. unfold row_terms.
  assert (A0 : is_axis 0) by (left; reflexivity).
  assert (A1 : is_axis 1) by (right; left; reflexivity).
  assert (A2 : is_axis 2) by (right; right; reflexivity).
  destruct (x =? 0) eqn:Ex; [apply Z.eqb_eq in Ex; subst x; rewrite tp_one_zero|apply Z.eqb_neq in Ex; rewrite (tp_one_spec [] 0 x) by (lia || assumption)];
  (destruct (y =? 0) eqn:Ey; [apply Z.eqb_eq in Ey; subst y; rewrite tp_one_zero|apply Z.eqb_neq in Ey; rewrite (tp_one_spec _ 1 y) by (lia || assumption)]);
  (destruct (z =? 0) eqn:Ez; [apply Z.eqb_eq in Ez; subst z; rewrite tp_one_zero|apply Z.eqb_neq in Ez; rewrite (tp_one_spec _ 2 z) by (lia || assumption)]);
  (destruct (w =? 0) eqn:Ew; [|rewrite append_fraction_app, append_sign_spec]);
  cbn [app render term_val term_body Z.of_nat Pos.of_succ_nat Pos.succ];
  repeat rewrite is_nil_app;
  rewrite ?(rot_body_nonnil 0 x), ?(rot_body_nonnil 1 y), ?(rot_body_nonnil 2 z) by assumption;
  rewrite ?andb_false_r; cbn [andb is_nil]; unfold tran_body;
  repeat rewrite <- app_assoc; cbn [app]; rewrite ?app_nil_r; reflexivity.
Qed.

Lemma render_length : forall ts first, Forall term_ok ts -> (length ts <= length (render first ts))%nat.
Proof.
  induction ts as [|t ts IH]; intros first Hok; cbn [render length]; [lia|].
  pose proof (proj1 (Forall_cons_iff _ _ _) Hok) as [Ht Hts].
  destruct (term_body_good_first t [] Ht) as [c [tl [E _]]]. rewrite app_nil_r in E.
  rewrite !app_length, E. cbn [length]. specialize (IH false Hts). lia.
Qed.

Lemma row_terms_ok : forall x y z w, Forall term_ok (row_terms x y z w).
Proof.
  intros x y z w. unfold row_terms.
  assert (A0 : is_axis 0) by (left; reflexivity).
  assert (A1 : is_axis 1) by (right; left; reflexivity).
  assert (A2 : is_axis 2) by (right; right; reflexivity).
  apply Forall_app; split; [destruct (x =? 0) eqn:E; [constructor|constructor; [split; [exact A0|lia]|constructor]]|].
  apply Forall_app; split; [destruct (y =? 0) eqn:E; [constructor|constructor; [split; [exact A1|lia]|constructor]]|].
  apply Forall_app; split; [destruct (z =? 0) eqn:E; [constructor|constructor; [split; [exact A2|lia]|constructor]]|].
  destruct (w =? 0) eqn:E; [constructor|constructor; [cbn; lia|constructor]].
Qed.

Lemma fold_apply_app : forall a b r, fold_left term_apply (a ++ b) r = fold_left term_apply b (fold_left term_apply a r).
Proof. intros. apply fold_left_app. Qed.
Lemma fold_nt_app : forall a b r, fold_left term_nt (a ++ b) r = fold_left term_nt b (fold_left term_nt a r).
Proof. intros. apply fold_left_app. Qed.

Lemma row_terms_value : forall x y z w,
  fold_left term_apply (row_terms x y z w) (0, 0, 0, 0) = (x, y, z, w).
Proof.
  intros x y z w. unfold row_terms. rewrite !fold_apply_app.
  assert (E1 : fold_left term_apply (if x =? 0 then [] else [TRot 0 x]) (0,0,0,0) = (x,0,0,0)).
  { destruct (x =? 0) eqn:E; cbn [fold_left term_apply add_at]; [assert (x = 0) by lia; subst; reflexivity|].
    repeat match goal with |- (_, _) = (_, _) => f_equal end; lia. }
  rewrite E1.
  assert (E2 : fold_left term_apply (if y =? 0 then [] else [TRot 1 y]) (x,0,0,0) = (x,y,0,0)).
  { destruct (y =? 0) eqn:E; cbn [fold_left term_apply add_at]; [assert (y = 0) by lia; subst; reflexivity|].
    repeat match goal with |- (_, _) = (_, _) => f_equal end; lia. }
  rewrite E2.
  assert (E3 : fold_left term_apply (if z =? 0 then [] else [TRot 2 z]) (x,y,0,0) = (x,y,z,0)).
  { destruct (z =? 0) eqn:E; cbn [fold_left term_apply add_at]; [assert (z = 0) by lia; subst; reflexivity|].
    repeat match goal with |- (_, _) = (_, _) => f_equal end; lia. }
  rewrite E3.
  destruct (w =? 0) eqn:E; cbn [fold_left term_apply add_at]; [assert (w = 0) by lia; subst; reflexivity|].
  repeat match goal with |- (_, _) = (_, _) => f_equal end; lia.
Qed.

Lemma term_nt_120 : forall ts, fold_left term_nt ts ntv = ntv.
Proof. induction ts as [|[i v|w] ts IH]; cbn; [reflexivity|exact IH|exact IH]. Qed.

Lemma row_terms_nt : forall x y z w, (x, y, z) <> (0, 0, 0) ->
  fold_left term_nt (row_terms x y z w) 32 = ntv.
Proof.
  intros x y z w Hnz. unfold row_terms.
  destruct (x =? 0) eqn:Ex; [|cbn [app fold_left term_nt]; apply term_nt_120].
  destruct (y =? 0) eqn:Ey; [|cbn [app fold_left term_nt]; apply term_nt_120].
  destruct (z =? 0) eqn:Ez; [|cbn [app fold_left term_nt]; apply term_nt_120].
  exfalso. apply Hnz. assert (x = 0) by lia. assert (y = 0) by lia. assert (z = 0) by lia. subst. reflexivity.
Qed.

Lemma row_terms_nonempty : forall x y z w, (x, y, z) <> (0, 0, 0) -> row_terms x y z w <> [].
Proof.
  intros x y z w Hnz. unfold row_terms.
  destruct (x =? 0) eqn:Ex; [|cbn [app]; discriminate].
  destruct (y =? 0) eqn:Ey; [|cbn [app]; discriminate].
  destruct (z =? 0) eqn:Ez; [|cbn [app]; discriminate].
  exfalso. apply Hnz. assert (x = 0) by lia. assert (y = 0) by lia. assert (z = 0) by lia. subst. reflexivity.
Qed.

(* THE ROW THEOREM: printing a row and parsing it back gives the same four numbers, for all integers *)
(* the entries of a row are at most 10^6 in absolute value (units of 1/24): the parser refuses larger numbers *)
Definition row_bounded (x y z w : Z) : Prop := Z.abs x <= BND /\ Z.abs y <= BND /\ Z.abs z <= BND /\ Z.abs w <= BND.
Lemma row_terms_small : forall x y z w, row_bounded x y z w ->
  Forall term_small (row_terms x y z w) /\ sum_abs (row_terms x y z w) <= 4 * BND.
Proof.
  intros x y z w [Hx [Hy [Hz Hw]]]. unfold row_terms, term_small.
  destruct (x =? 0), (y =? 0), (z =? 0), (w =? 0); cbn [app sum_abs term_val]; split;
    repeat constructor; cbn [term_val]; try assumption; unfold BND in *; lia.
Qed.

Theorem row_roundtrip : forall x y z w, (x, y, z) <> (0, 0, 0) -> row_bounded x y z w ->
  parse_triplet_part (make_triplet_part (x, y, z) w style) 32 = Ok ((x, y, z, w), ntv).
Proof.
  intros x y z w Hnz Hb. rewrite make_part_is_render. unfold parse_triplet_part.
  pose proof (row_terms_ok x y z w) as Hok. destruct (row_terms_small x y z w Hb) as [Hsm Hsum].
  rewrite (parse_render (row_terms x y z w) true (0,0,0,0) 32 _ Hok).
  - rewrite row_terms_value, (row_terms_nt x y z w Hnz). reflexivity.
  - left; reflexivity.
  - pose proof (render_length (row_terms x y z w) true Hok). lia.
  - intros _. apply row_terms_nonempty. exact Hnz.
  - exact Hsm.
  - unfold BND in Hsum. cbn [norm4 Z.abs Z.max]. lia.
Qed.

(* the same with any compatible incoming notation (second and third part of a triplet) *)
Theorem row_roundtrip_nt : forall x y z w nt, nt_ok nt -> (x, y, z) <> (0, 0, 0) -> row_bounded x y z w ->
  parse_triplet_part (make_triplet_part (x, y, z) w style) nt = Ok ((x, y, z, w), ntv).
Proof.
  intros x y z w nt Hnt Hnz Hb. rewrite make_part_is_render. unfold parse_triplet_part.
  pose proof (row_terms_ok x y z w) as Hok. destruct (row_terms_small x y z w Hb) as [Hsm Hsum].
  rewrite (parse_render (row_terms x y z w) true (0,0,0,0) nt _ Hok Hnt).
  - rewrite row_terms_value. f_equal. f_equal.
    destruct Hnt as [->| ->]; [apply row_terms_nt; exact Hnz|apply term_nt_120].
  - pose proof (render_length (row_terms x y z w) true Hok). lia.
  - intros _. apply row_terms_nonempty. exact Hnz.
  - exact Hsm.
  - unfold BND in Hsum. cbn [norm4 Z.abs Z.max]. lia.
Qed.

(* ---- no commas inside a part ---- *)
Definition no_comma (s : str) : Prop := Forall (fun c => (c =? 44) = false) s.

Lemma no_comma_app : forall a b, no_comma a -> no_comma b -> no_comma (a ++ b).
Proof. intros a b Ha Hb. apply Forall_app. split; assumption. Qed.

Lemma no_comma_print_int : forall n, 0 < n -> no_comma (print_int n).
Proof.
  intros n Hn. rewrite (print_int_pos n Hn). destruct (print_nat_spec n Hn) as [_ [D _]].
  unfold no_comma. eapply Forall_impl; [|exact D]. intros c Hc. unfold is_digit in Hc. lia.
Qed.

Lemma no_comma_frac_tail : forall d, good_den d -> no_comma (frac_tail d).
Proof.
  intros d Hd. unfold frac_tail. destruct (d =? 1) eqn:E; [constructor|].
  constructor; [reflexivity|]. apply no_comma_print_int.
  destruct Hd as [->|[->|[->|[->|[->|[->|[->| ->]]]]]]]; lia.
Qed.

Lemma no_comma_rot_body : forall i v, is_axis i -> v <> 0 -> no_comma (rot_body i v).
Proof.
  intros i v Hi Hv. unfold rot_body. pose proof (no_comma_letter i Hi) as HLc.
  destruct (Z.abs v =? DEN); [constructor; [exact HLc|constructor]|].
  assert (Ha : 0 < Z.abs v) by lia.
  pose proof (gof_facts (Z.abs v) Ha) as G. destruct (get_op_fraction (Z.abs v)) as [n d].
  destruct G as [_ [G2 G3]]. cbn [fst snd].
  destruct (n =? 1).
  - apply no_comma_app; [constructor; [exact HLc|constructor]|].
    apply no_comma_app; [constructor; [reflexivity|constructor]|].
    apply no_comma_print_int. destruct G3 as [->|[->|[->|[->|[->|[->|[->| ->]]]]]]]; lia.
  - rewrite append_fraction_nil. apply no_comma_app; [apply no_comma_app; [apply no_comma_print_int; exact G2|apply no_comma_frac_tail; exact G3]|].
    apply no_comma_app; [constructor; [reflexivity|constructor]|constructor; [exact HLc|constructor]].
Qed.

Lemma no_comma_tran_body : forall w, w <> 0 -> no_comma (tran_body w).
Proof.
  intros w Hw. unfold tran_body. assert (Ha : 0 < Z.abs w) by lia.
  pose proof (gof_facts (Z.abs w) Ha) as G. destruct (get_op_fraction (Z.abs w)) as [n d].
  destruct G as [_ [G2 G3]]. rewrite append_fraction_nil.
  apply no_comma_app; [apply no_comma_print_int; exact G2|apply no_comma_frac_tail; exact G3].
Qed.

Lemma no_comma_render : forall ts first, Forall term_ok ts -> no_comma (render first ts).
Proof.
  induction ts as [|t ts IH]; intros first Hok; cbn [render]; [constructor|].
  pose proof (proj1 (Forall_cons_iff _ _ _) Hok) as [Ht Hts].
  apply no_comma_app; [unfold sign_str; destruct (term_val t <? 0); [constructor; [reflexivity|constructor]|
                       destruct first; [constructor|constructor; [reflexivity|constructor]]]|].
  apply no_comma_app; [|apply IH; exact Hts].
  destruct t as [i v|w]; cbn in *; [destruct Ht; apply no_comma_rot_body; assumption|apply no_comma_tran_body; assumption].
Qed.

Lemma no_comma_part : forall x y z w, no_comma (make_triplet_part (x, y, z) w style).
Proof. intros. rewrite make_part_is_render. apply no_comma_render. apply row_terms_ok. Qed.

(* ---- splitting at the commas ---- *)
Lemma split_on_no_sep : forall c acc, no_comma c -> split_on 44 c acc = [rev acc ++ c].
Proof.
  induction c as [|x c IH]; intros acc H; cbn [split_on]; [rewrite app_nil_r; reflexivity|].
  pose proof (proj1 (Forall_cons_iff _ _ _) H) as [Hx Hc]. rewrite Hx.
  rewrite (IH (x :: acc) Hc). cbn [rev]. rewrite <- app_assoc. reflexivity.
Qed.

Lemma split_on_sep : forall a rest acc, no_comma a ->
  split_on 44 (a ++ 44 :: rest) acc = (rev acc ++ a) :: split_on 44 rest [].
Proof.
  induction a as [|x a IH]; intros rest acc H; cbn [split_on app].
  - rewrite app_nil_r. reflexivity.
  - pose proof (proj1 (Forall_cons_iff _ _ _) H) as [Hx Ha]. rewrite Hx.
    rewrite (IH rest (x :: acc) Ha). cbn [rev]. rewrite <- app_assoc. reflexivity.
Qed.

Lemma count_no_comma : forall s, no_comma s -> count_occ_z 44 s = 0%nat.
Proof.
  unfold count_occ_z. induction s as [|x s IH]; intros H; [reflexivity|].
  pose proof (proj1 (Forall_cons_iff _ _ _) H) as [Hx Hs]. cbn [filter].
  rewrite Z.eqb_sym in Hx. rewrite Hx. apply IH. exact Hs.
Qed.

Lemma count_app : forall a b, count_occ_z 44 (a ++ b) = (count_occ_z 44 a + count_occ_z 44 b)%nat.
Proof. intros. unfold count_occ_z. rewrite filter_app, app_length. reflexivity. Qed.


  (* three printed rows separated by commas parse back to the three rows *)
  Theorem parse_three_rows : forall x0 y0 z0 t0 x1 y1 z1 t1 x2 y2 z2 t2,
    (x0, y0, z0) <> (0,0,0) -> (x1, y1, z1) <> (0,0,0) -> (x2, y2, z2) <> (0,0,0) ->
    row_bounded x0 y0 z0 t0 -> row_bounded x1 y1 z1 t1 -> row_bounded x2 y2 z2 t2 ->
    parse_triplet (make_triplet_part (x0, y0, z0) t0 style ++ [44] ++
                   make_triplet_part (x1, y1, z1) t1 style ++ [44] ++
                   make_triplet_part (x2, y2, z2) t2 style) 32
    = (let rt := ((x0, y0, z0), (x1, y1, z1), (x2, y2, z2)) in
       let tr := (t0, t1, t2) in
       if ntv =? 104 then (if v3_eqb tr (0,0,0) then Ok (mkOp (transpose rt) tr ntv) else Fail)
       else Ok (mkOp rt tr ntv)).
  Proof.
    intros x0 y0 z0 t0 x1 y1 z1 t1 x2 y2 z2 t2 H0 H1 H2 B0 B1 B2.
    set (p0 := make_triplet_part (x0, y0, z0) t0 style).
    set (p1 := make_triplet_part (x1, y1, z1) t1 style).
    set (p2 := make_triplet_part (x2, y2, z2) t2 style).
    pose proof (no_comma_part x0 y0 z0 t0) as N0. pose proof (no_comma_part x1 y1 z1 t1) as N1.
    pose proof (no_comma_part x2 y2 z2 t2) as N2. fold p0 in N0. fold p1 in N1. fold p2 in N2.
    unfold parse_triplet.
    assert (Ec : count_occ_z 44 (p0 ++ [44] ++ p1 ++ [44] ++ p2) = 2%nat).
    { rewrite !count_app, (count_no_comma p0 N0), (count_no_comma p1 N1), (count_no_comma p2 N2). reflexivity. }
    rewrite Ec. cbn [Nat.eqb negb].
    change (Z.land (Z.lor 32 32) (-4)) with 32. cbn [Z.eqb Pos.eqb orb negb].
    change (p0 ++ [44] ++ p1 ++ [44] ++ p2) with (p0 ++ 44 :: (p1 ++ 44 :: p2)).
    rewrite (split_on_sep p0 _ [] N0), (split_on_sep p1 _ [] N1), (split_on_no_sep p2 [] N2). cbn [rev app].
    unfold p0, p1, p2.
    rewrite (row_roundtrip_nt x0 y0 z0 t0 32 (or_introl eq_refl) H0 B0).
    rewrite (row_roundtrip_nt x1 y1 z1 t1 ntv (or_intror eq_refl) H1 B1).
    rewrite (row_roundtrip_nt x2 y2 z2 t2 ntv (or_intror eq_refl) H2 B2).
    reflexivity.
  Qed.

End Style.

(* ================= instances: the six letter sets Op::triplet can print ================= *)
Definition Lx (i : Z) : Z := 120 + i.
Definition LX (i : Z) : Z := 88 + i.
Definition La (i : Z) : Z := 97 + i.
Definition LA (i : Z) : Z := 65 + i.
Definition Lh (i : Z) : Z := match i with 0 => 104 | 1 => 107 | _ => 108 end.
Definition LH (i : Z) : Z := match i with 0 => 72 | 1 => 75 | _ => 76 end.

Ltac style_hyps :=
  try (intros i nt [->|[->| ->]] [->| ->]; reflexivity);
  try (intros i [->|[->| ->]]; cbn; repeat split; reflexivity);
  try (intros i [->|[->| ->]]; reflexivity);
  try (intros [|[|[|i]]] Hi; try reflexivity; lia).

Lemma Ix1 : forall i nt, is_axis i -> nt_ok 120 nt -> interpret_letter (Lx i) nt = Some (i, 120). Proof. style_hyps. Qed.
Lemma IX1 : forall i nt, is_axis i -> nt_ok 120 nt -> interpret_letter (LX i) nt = Some (i, 120). Proof. style_hyps. Qed.
Lemma Ia1 : forall i nt, is_axis i -> nt_ok 96 nt -> interpret_letter (La i) nt = Some (i, 96). Proof. style_hyps. Qed.
Lemma IA1 : forall i nt, is_axis i -> nt_ok 96 nt -> interpret_letter (LA i) nt = Some (i, 96). Proof. style_hyps. Qed.
Lemma Ih1 : forall i nt, is_axis i -> nt_ok 104 nt -> interpret_letter (Lh i) nt = Some (i, 104). Proof. style_hyps. Qed.
Lemma IH1 : forall i nt, is_axis i -> nt_ok 104 nt -> interpret_letter (LH i) nt = Some (i, 104). Proof. style_hyps. Qed.

Definition letter_facts (L : Z -> Z) : Prop := forall i, is_axis i ->
  is_digit (L i) = false /\ (L i =? 46) = false /\ is_tspace (L i) = false /\
  (L i =? 43) = false /\ (L i =? 45) = false /\ (L i =? 0) = false.
Lemma Fx : letter_facts Lx. Proof. unfold letter_facts. style_hyps. Qed.
Lemma FX : letter_facts LX. Proof. unfold letter_facts. style_hyps. Qed.
Lemma Fa : letter_facts La. Proof. unfold letter_facts. style_hyps. Qed.
Lemma FA : letter_facts LA. Proof. unfold letter_facts. style_hyps. Qed.
Lemma Fh : letter_facts Lh. Proof. unfold letter_facts. style_hyps. Qed.
Lemma FH : letter_facts LH. Proof. unfold letter_facts. style_hyps. Qed.

Definition comma_facts (L : Z -> Z) : Prop := forall i, is_axis i -> (L i =? 44) = false.
Lemma Cx : comma_facts Lx. Proof. unfold comma_facts. style_hyps. Qed.
Lemma CX : comma_facts LX. Proof. unfold comma_facts. style_hyps. Qed.
Lemma Ca : comma_facts La. Proof. unfold comma_facts. style_hyps. Qed.
Lemma CA : comma_facts LA. Proof. unfold comma_facts. style_hyps. Qed.
Lemma Ch : comma_facts Lh. Proof. unfold comma_facts. style_hyps. Qed.
Lemma CH : comma_facts LH. Proof. unfold comma_facts. style_hyps. Qed.

Definition at_facts (style : Z) (L : Z -> Z) : Prop := forall i, (i < 3)%nat -> letter_at style i = L (Z.of_nat i).
Lemma Ax : at_facts 120 Lx. Proof. unfold at_facts. style_hyps. Qed.
Lemma AX : at_facts 88 LX. Proof. unfold at_facts. style_hyps. Qed.
Lemma Aa : at_facts 97 La. Proof. unfold at_facts. style_hyps. Qed.
Lemma AA : at_facts 65 LA. Proof. unfold at_facts. style_hyps. Qed.
Lemma Ah : at_facts 104 Lh. Proof. unfold at_facts. style_hyps. Qed.
Lemma AH : at_facts 72 LH. Proof. unfold at_facts. style_hyps. Qed.

(* every entry of the rotation and translation at most 10^6 in absolute value (in units of 1/24) *)
Definition small1 (x : Z) : Prop := Z.abs x <= 1000000.
Definition op_bounded (a : op) : Prop :=
  let '((x0,y0,z0),(x1,y1,z1),(x2,y2,z2)) := rot a in let '(t0,t1,t2) := tran a in
  (small1 x0 /\ small1 y0 /\ small1 z0) /\ (small1 x1 /\ small1 y1 /\ small1 z1) /\ (small1 x2 /\ small1 y2 /\ small1 z2) /\
  (small1 t0 /\ small1 t1 /\ small1 t2).

Definition rows_nonzero (a : op) : Prop :=
  let '(r0, r1, r2) := rot a in r0 <> (0,0,0) /\ r1 <> (0,0,0) /\ r2 <> (0,0,0).
Definition cols_nonzero (a : op) : Prop :=
  let '(r0, r1, r2) := transpose (rot a) in r0 <> (0,0,0) /\ r1 <> (0,0,0) /\ r2 <> (0,0,0).

(* real-space styles: 'x' 'X' 'a' 'A' *)
Definition real_style (st ntv : Z) : Prop :=
  (st = 120 /\ ntv = 120) \/ (st = 88 /\ ntv = 120) \/ (st = 97 /\ ntv = 96) \/ (st = 65 /\ ntv = 96).

Theorem triplet_roundtrip_real : forall a st ntv, real_style st ntv -> nota a <> 104 -> rows_nonzero a -> op_bounded a ->
  exists s, triplet a st = Some s /\ parse_triplet s 32 = Ok (mkOp (rot a) (tran a) ntv).
Proof.
  intros [[[r0 r1] r2] [[t0 t1] t2] nt] st ntv Hst Hnt Hrows Hbd. cbn [nota] in Hnt.
  unfold rows_nonzero in Hrows. cbn [rot] in Hrows. destruct Hrows as [H0 [H1 H2]].
  destruct r0 as [[x0 y0] z0]. destruct r1 as [[x1 y1] z1]. destruct r2 as [[x2 y2] z2].
  unfold op_bounded, small1 in Hbd. cbn [rot tran] in Hbd.
  destruct Hbd as [[Bx0 [By0 Bz0]] [[Bx1 [By1 Bz1]] [[Bx2 [By2 Bz2]] [Bt0 [Bt1 Bt2]]]]].
  assert (B0 : row_bounded x0 y0 z0 t0) by (unfold row_bounded, BND; repeat split; assumption).
  assert (B1 : row_bounded x1 y1 z1 t1) by (unfold row_bounded, BND; repeat split; assumption).
  assert (B2 : row_bounded x2 y2 z2 t2) by (unfold row_bounded, BND; repeat split; assumption).
  assert (Eh : is_hkl (mkOp ((x0,y0,z0),(x1,y1,z1),(x2,y2,z2)) (t0,t1,t2) nt) = false)
    by (unfold is_hkl; cbn [nota]; apply Z.eqb_neq; exact Hnt).
  destruct Hst as [[-> ->]|[[-> ->]|[[-> ->]|[-> ->]]]].
  - eexists. split; [unfold triplet, is_hkl; cbn [nota rot tran]; rewrite (proj2 (Z.eqb_neq _ _) Hnt); reflexivity|].
    cbn [rot tran]. apply (parse_three_rows 120 Lx 120 Ix1 Fx Cx Ax); assumption.
  - eexists. split; [unfold triplet, is_hkl; cbn [nota rot tran]; rewrite (proj2 (Z.eqb_neq _ _) Hnt); reflexivity|].
    cbn [rot tran]. apply (parse_three_rows 88 LX 120 IX1 FX CX AX); assumption.
  - eexists. split; [unfold triplet, is_hkl; cbn [nota rot tran]; rewrite (proj2 (Z.eqb_neq _ _) Hnt); reflexivity|].
    cbn [rot tran]. apply (parse_three_rows 97 La 96 Ia1 Fa Ca Aa); assumption.
  - eexists. split; [unfold triplet, is_hkl; cbn [nota rot tran]; rewrite (proj2 (Z.eqb_neq _ _) Hnt); reflexivity|].
    cbn [rot tran]. apply (parse_three_rows 65 LA 96 IA1 FA CA AA); assumption.
Qed.

(* the default style: notation ' ' or 'x' prints xyz *)
Theorem triplet_roundtrip_xyz : forall a, (nota a = 32 \/ nota a = 120) -> rows_nonzero a -> op_bounded a ->
  exists s, triplet a 32 = Some s /\ parse_triplet s 32 = Ok (mkOp (rot a) (tran a) 120).
Proof.
  intros a Hn Hr Hb.
  destruct (triplet_roundtrip_real a 120 120 (or_introl (conj eq_refl eq_refl))) as [s [E P]];
    [destruct Hn as [->| ->]; discriminate|exact Hr|exact Hb|].
  exists s. split; [|exact P].
  destruct a as [rt tr nt]. cbn [nota] in Hn. unfold triplet in *. cbn [nota] in *.
  destruct Hn as [->| ->]; exact E.
Qed.

(* reciprocal-space styles 'h' 'H': the operator stores the transposed matrix and no translation *)
Theorem triplet_roundtrip_hkl : forall a st, (st = 104 \/ st = 72) -> nota a = 104 -> tran a = (0,0,0) ->
  cols_nonzero a -> op_bounded a ->
  exists s, triplet a st = Some s /\ parse_triplet s 32 = Ok (mkOp (rot a) (0,0,0) 104).
Proof.
  intros [[[r0 r1] r2] tr nt] st Hst Hnt Htr Hcols Hbd. cbn [nota tran] in *. subst nt tr.
  destruct r0 as [[x0 y0] z0]. destruct r1 as [[x1 y1] z1]. destruct r2 as [[x2 y2] z2].
  unfold op_bounded, small1 in Hbd. cbn [rot tran] in Hbd.
  destruct Hbd as [[Bx0 [By0 Bz0]] [[Bx1 [By1 Bz1]] [[Bx2 [By2 Bz2]] _]]].
  assert (Z0 : Z.abs 0 <= 1000000) by (cbn; lia).
  assert (B0 : row_bounded x0 x1 x2 0) by (unfold row_bounded, BND; repeat split; assumption).
  assert (B1 : row_bounded y0 y1 y2 0) by (unfold row_bounded, BND; repeat split; assumption).
  assert (B2 : row_bounded z0 z1 z2 0) by (unfold row_bounded, BND; repeat split; assumption).
  unfold cols_nonzero in Hcols. cbn [rot transpose] in Hcols. destruct Hcols as [H0 [H1 H2]].
  destruct Hst as [->| ->].
  - exists (make_triplet_part (x0, x1, x2) 0 104 ++ [44] ++ make_triplet_part (y0, y1, y2) 0 104 ++ [44] ++
            make_triplet_part (z0, z1, z2) 0 104).
    split; [unfold triplet, is_hkl; cbn [nota rot tran transpose]; reflexivity|].
    rewrite (parse_three_rows 104 Lh 104 Ih1 Fh Ch Ah x0 x1 x2 0 y0 y1 y2 0 z0 z1 z2 0 H0 H1 H2 B0 B1 B2).
    reflexivity.
  - exists (make_triplet_part (x0, x1, x2) 0 72 ++ [44] ++ make_triplet_part (y0, y1, y2) 0 72 ++ [44] ++
            make_triplet_part (z0, z1, z2) 0 72).
    split; [unfold triplet, is_hkl; cbn [nota rot tran transpose]; reflexivity|].
    rewrite (parse_three_rows 72 LH 104 IH1 FH CH AH x0 x1 x2 0 y0 y1 y2 0 z0 z1 z2 0 H0 H1 H2 B0 B1 B2).
    reflexivity.
Qed.

Lemma roundtrip_nonvacuous :
  real_style 97 96 /\ rows_nonzero (mkOp ((0,-24,0),(24,-24,0),(0,0,24)) (0,0,8) 32) /\
  cols_nonzero (mkOp ((12,12,0),(-12,12,0),(0,0,24)) (0,0,0) 104) /\
  op_bounded (mkOp ((0,-24,0),(24,-24,0),(0,0,24)) (0,0,8) 32) /\ op_bounded (mkOp ((12,12,0),(-12,12,0),(0,0,24)) (0,0,0) 104).
Proof.
  split; [right; right; left; split; reflexivity|].
  unfold rows_nonzero, cols_nonzero, op_bounded, small1; cbn; repeat split; try discriminate; lia.
Qed.

(* "20000000x": refused by the repaired parser (the snapshot multiplied 24 * 20000000 in int) *)
Lemma big_number_refused : parse_triplet_part [50;48;48;48;48;48;48;48;120] 32 = Fail.
Proof. vm_compute. reflexivity. Qed.
