(* Model of gemmi::GroupOps, Hall-symbol interpretation and Dimino closure
   (include/gemmi/symmetry.hpp, src/symmetry.cpp). Executable definitions only. *)
From GV Require Export Base.Str Sym.Op Sym.Triplet.
Local Open Scope Z_scope.

Record gops : Type := mkG { sym_ops : list op; cen_ops : list v3 }.

Definition order (g : gops) : Z := Z.of_nat (length (sym_ops g) * length (cen_ops g)).

(* centring_vectors(c): c & ~0x20 *)
Definition centring_vectors (c : Z) : option (list v3) :=
  let h := 12 in let t := 8 in let d := 16 in
  match Z.land c (-33) with
  | 80 => Some [(0,0,0)]
  | 65 => Some [(0,0,0); (0,h,h)]
  | 66 => Some [(0,0,0); (h,0,h)]
  | 67 => Some [(0,0,0); (h,h,0)]
  | 73 => Some [(0,0,0); (h,h,h)]
  | 82 => Some [(0,0,0); (d,t,t); (t,d,d)]
  | 72 => Some [(0,0,0); (d,t,0); (t,d,0)]
  | 83 => Some [(0,0,0); (t,t,d); (d,t,d)]
  | 84 => Some [(0,0,0); (t,d,t); (d,t,d)]
  | 70 => Some [(0,0,0); (0,h,h); (h,0,h); (h,h,0)]
  | _ => None
  end.

Fixpoint find_by_rotation (r : m33) (l : list op) : option op :=
  match l with
  | [] => None
  | o :: t => if m33_eqb (rot o) r then Some o else find_by_rotation r t
  end.
Definition has_rotation (r : m33) (l : list op) : bool :=
  match find_by_rotation r l with Some _ => true | None => false end.

Definition v3_ltb (a b : v3) : bool := lex_ltb (v3_list a) (v3_list b).
Fixpoint list_eqb {A} (eqb : A -> A -> bool) (a b : list A) : bool :=
  match a, b with
  | [], [] => true
  | x :: a', y :: b' => eqb x y && list_eqb eqb a' b'
  | _, _ => false
  end.

Definition swap12 {A} (l : list A) : list A :=
  match l with a :: b :: c :: t => a :: c :: b :: t | _ => l end.

(* GroupOps::find_centering; 0 when not recognised *)
Definition find_centering (g : gops) : Z :=
  if (Nat.eqb (length (cen_ops g)) 1) && v3_eqb (hd (1,1,1) (cen_ops g)) (0,0,0) then 80 else
  let trans := sort_by v3_ltb (cen_ops g) in
  let try (c : Z) : bool :=
    match centring_vectors c with
    | Some cv => let cv' := if (c =? 82) || (c =? 72) then swap12 cv else cv in
                 list_eqb v3_eqb trans cv'
    | None => false
    end in
  match filter try [65;66;67;73;70;82;72;83;84] with
  | c :: _ => c
  | [] => 0
  end.

Definition all_ops (g : gops) : list op :=
  flat_map (fun so => map (fun co => add_centering so co) (cen_ops g)) (sym_ops g).
Definition all_ops_sorted (g : gops) : list op := sort_by op_ltb (all_ops g).

Definition is_same_as (a b : gops) : bool :=
  Nat.eqb (length (cen_ops a)) (length (cen_ops b)) &&
  Nat.eqb (length (sym_ops a)) (length (sym_ops b)) &&
  list_eqb op_eqb (all_ops_sorted a) (all_ops_sorted b).

(* result type with an extra class for an out-of-bounds access the C++ would perform *)
Inductive hres (A : Type) := HOk (a : A) | HFail | HOob.
Arguments HOk {A} a. Arguments HFail {A}. Arguments HOob {A}.

Definition hall_rotation_z (n : Z) : option m33 :=
  let d := DEN in
  match n with
  | 1 => Some ((d,0,0),(0,d,0),(0,0,d))
  | 2 => Some ((-d,0,0),(0,-d,0),(0,0,d))
  | 3 => Some ((0,-d,0),(d,-d,0),(0,0,d))
  | 4 => Some ((0,-d,0),(d,0,0),(0,0,d))
  | 6 => Some ((d,-d,0),(d,0,0),(0,0,d))
  | 39 => Some ((0,-d,0),(-d,0,0),(0,0,-d))
  | 34 => Some ((0,d,0),(d,0,0),(0,0,-d))
  | 42 => Some ((0,0,d),(d,0,0),(0,d,0))
  | _ => None
  end.

Definition hall_translation_from_symbol (c : Z) : option v3 :=
  let h := 12 in let q := 6 in
  match c with
  | 97 => Some (h,0,0) | 98 => Some (0,h,0) | 99 => Some (0,0,h)
  | 110 => Some (h,h,h)
  | 117 => Some (q,0,0) | 118 => Some (0,q,0) | 119 => Some (0,0,q)
  | 100 => Some (q,q,q)
  | _ => None
  end.

Definition alter_order (r : m33) (i j k : nat) : m33 :=
  let e (a b : nat) : Z :=
    let '(r0,r1,r2) := r in
    let row := match a with O => r0 | S O => r1 | _ => r2 end in
    let '(x,y,z) := row in match b with O => x | S O => y | _ => z end in
  ((e i i, e i j, e i k), (e j i, e j j, e j k), (e k i, e k j, e k k)).

Record hsym_state := mkHS { hs_frac : Z; hs_princ : Z; hs_diag : Z; hs_tr : v3 }.

(* the for-loop over the characters after N *)
Fixpoint hall_sym_chars (n : Z) (s : str) (st : hsym_state) : option hsym_state :=
  match s with
  | [] => Some st
  | c :: t =>
    if (49 <=? c) && (c <=? 53) then
      if negb (hs_frac st =? 0) then None
      else hall_sym_chars n t (mkHS (c - 48) (hs_princ st) (hs_diag st) (hs_tr st))
    else if (c =? 39) || (c =? 34) || (c =? 42) then
      if negb (n =? (if c =? 42 then 3 else 2)) then None
      else hall_sym_chars n t (mkHS (hs_frac st) (hs_princ st) c (hs_tr st))
    else if (c =? 120) || (c =? 121) || (c =? 122) then
      hall_sym_chars n t (mkHS (hs_frac st) c (hs_diag st) (hs_tr st))
    else match hall_translation_from_symbol c with
         | None => None
         | Some v => hall_sym_chars n t (mkHS (hs_frac st) (hs_princ st) (hs_diag st) (add_v3 (hs_tr st) v))
         end
  end.

Definition add_tran_at (t : v3) (i : Z) (v : Z) : v3 :=
  let '(x,y,z) := t in match i with 0 => (x+v,y,z) | 1 => (x,y+v,z) | _ => (x,y,z+v) end.

(* hall_matrix_symbol(start,end,pos,prev): s = [start,end); returns (op, new prev) *)
Definition hall_matrix_symbol (s : str) (pos : Z) (prev : Z) : hres (op * Z) :=
  let neg := cur s =? 45 in
  let p := if neg then adv s else s in
  let c := cur p in
  if (c <? 49) || (c =? 53) || (c >? 54) then HFail else
  let n := c - 48 in
  match hall_sym_chars n (adv p) (mkHS 0 0 0 (0,0,0)) with
  | None => HFail
  | Some st =>
    (* implicit values *)
    let filled : option (Z * Z) :=
      if (hs_princ st =? 0) && (hs_diag st =? 0) then
        if pos =? 1 then Some (122, 0)
        else if (pos =? 2) && (n =? 2) then
          (if (prev =? 2) || (prev =? 4) then Some (120, 0)
           else if (prev =? 3) || (prev =? 6) then Some (0, 39)
           else Some (0, 0))
        else if (pos =? 3) && (n =? 3) then Some (0, 42)
        else if negb (n =? 1) then None
        else Some (0, 0)
      else Some (hs_princ st, hs_diag st) in
    match filled with
    | None => HFail
    | Some (princ, diag) =>
      match hall_rotation_z (if diag =? 0 then n else diag) with
      | None => HFail
      | Some r0 =>
        let r1 := if neg then negated_rot r0 else r0 in
        let r2 := if princ =? 120 then alter_order r1 2 0 1
                  else if princ =? 121 then alter_order r1 1 2 0 else r1 in
        if negb (hs_frac st =? 0) then
          (* op.tran[principal_axis - 'x'] += DEN / N * fractional_tran; rejected without an axis *)
          if princ =? 0 then HFail
          else if (120 <=? princ) && (princ <=? 122)
          then HOk (mkOp r2 (add_tran_at (hs_tr st) (princ - 120) (cdiv DEN n * hs_frac st)) 32, n)
          else HOob   (* the index principal_axis - 'x' would be outside Op::tran (unreachable: HallSafe.v) *)
        else HOk (mkOp r2 (hs_tr st) 32, n)
      end
    end
  end.

Definition is_blank_hall (c : Z) : bool := (c =? 0) || (c =? 32) || (c =? 9) || (c =? 95).
(* find_blank: split into the token and the rest (rest starts at the blank or is empty) *)
Fixpoint find_blank (s : str) (acc : str) : str * str :=
  match s with
  | [] => (rev acc, [])
  | c :: t => if is_blank_hall c then (rev acc, s) else find_blank t (c :: acc)
  end.

Fixpoint take_until (c0 : Z) (s : str) (acc : str) : option (str * str) :=
  match s with
  | [] => None
  | c :: t => if c =? 0 then None else if c =? c0 then Some (rev acc, s) else take_until c0 t (c :: acc)
  end.

Definition dedup_cen (l : list v3) : list v3 :=
  fold_left (fun acc c => if existsb (v3_eqb c) acc then acc else acc ++ [c]) l [].

Definition opt_bind {A B} (o : option A) (f : A -> option B) : option B :=
  match o with Some a => f a | None => None end.

(* GroupOps::change_basis_impl; None = a combine() failure (mixed notations) *)
Definition change_basis_impl (g : gops) (cob inv : op) : option gops :=
  match sym_ops g, cen_ops g with
  | [], _ => Some g
  | _, [] => Some g
  | s0 :: srest, cens =>
    let tr (o : op) : option op :=
      opt_bind (combine cob o) (fun x => opt_bind (combine x inv) (fun y => Some (wrap y))) in
    let fix mapo (l : list op) : option (list op) :=
      match l with
      | [] => Some []
      | o :: t => opt_bind (tr o) (fun o' => opt_bind (mapo t) (fun t' => Some (o' :: t')))
      end in
    opt_bind (mapo srest) (fun srest' =>
    let idet := cdiv (det_rot (rot inv)) (DEN * DEN * DEN) in
    let cens1 :=
      if idet >? 1 then
        let rng := map Z.of_nat (seq 0 (Z.to_nat idet)) in
        flat_map (fun i => flat_map (fun j => flat_map (fun k =>
          map (fun cen => let '(c0,c1,c2) := cen in (i * DEN + c0, j * DEN + c1, k * DEN + c2)) cens)
          rng) rng) rng
      else cens in
    match cens1 with
    | [] => Some (mkG (s0 :: srest') [])
    | c0 :: crest =>
      let trc (c : v3) : option v3 :=
        opt_bind (tr (mkOp id_rot c 32)) (fun o => Some (tran o)) in
      let fix mapc (l : list v3) : option (list v3) :=
        match l with
        | [] => Some []
        | c :: t => opt_bind (trc c) (fun c' => opt_bind (mapc t) (fun t' => Some (c' :: t')))
        end in
      opt_bind (mapc crest) (fun crest' =>
      Some (mkG (s0 :: srest') (dedup_cen (c0 :: crest'))))
    end)
  end.

Definition change_basis_forward (g : gops) (cob : op) : option gops :=
  opt_bind (inverse cob) (fun inv => change_basis_impl g cob inv).
Definition change_basis_backward (g : gops) (inv : op) : option gops :=
  opt_bind (inverse inv) (fun cob => change_basis_impl g cob inv).

(* parse_hall_change_of_basis on the text between '(' and ')' *)
Definition parse_hall_cob (s : str) : option op :=
  if existsb (Z.eqb 44) s then
    match parse_triplet s 32 with Ok o => Some o | _ => None end
  else
    let '(a, s1) := strtol10 s in
    let '(b, s2) := strtol10 s1 in
    let '(c, s3) := strtol10 s2 in
    match s3 with
    | [] => Some (mkOp id_rot (crem a 12 * 2, crem b 12 * 2, crem c 12 * 2) 32)
    | _ => None
    end.

(* the while-loop over matrix symbols; fuel bounds the number of tokens *)
Fixpoint hall_parts (fuel : nat) (part : str) (counter prev : Z) (acc : list op)
  : hres (list op * str) :=
  match fuel with
  | O => HFail
  | S f =>
    if (cur part =? 0) || (cur part =? 40) then HOk (rev acc, part) else
    let '(tok, rest) := find_blank part [] in
    let counter' := counter + 1 in
    let p1 := cur (adv part) in
    if negb (cur part =? 49) || (negb (p1 =? 32) && negb (p1 =? 0)) then
      match hall_matrix_symbol tok counter' prev with
      | HOk (o, prev') => hall_parts f (skip_space rest) counter' prev' (o :: acc)
      | HFail => HFail
      | HOob => HOob
      end
    else hall_parts f (skip_space rest) counter' prev acc
  end.

(* generators_from_hall. Strings are cut at the first NUL (C string semantics). *)
Fixpoint cstr (s : str) : str :=
  match s with [] => [] | c :: t => if c =? 0 then [] else c :: cstr t end.

Definition generators_from_hall (hall0 : str) : hres gops :=
  let hall := skip_space (cstr hall0) in
  let centrosym := cur hall =? 45 in
  let lat := skip_space (if centrosym then adv hall else hall) in
  match centring_vectors (cur lat) with
  | None => HFail
  | Some cens =>
    let part := skip_space (adv lat) in
    match hall_parts (S (length part)) part 0 0 [] with
    | HFail => HFail
    | HOob => HOob
    | HOk (ops, rest) =>
      let syms := identity :: ops ++ (if centrosym then [mkOp (negated_rot id_rot) (0,0,0) 120] else []) in
      let g := mkG syms cens in
      if cur rest =? 40 then
        match take_until 41 (adv rest) [] with
        | None => HFail
        | Some (inner, rb) =>
          match parse_hall_cob inner with
          | None => HFail
          | Some cob =>
            match change_basis_forward g cob with
            | None => HFail
            | Some g' =>
              let '(_, after) := find_blank (adv rb) [] in
              if cur (skip_space after) =? 0 then HOk g' else HFail
            end
          end
        end
      else HOk g
    end
  end.

(* ---- Dimino ---- *)
Definition max_size : nat := 1024.

Fixpoint cyclic (fuel : nat) (s1 g : op) (acc : list op) : option (list op) :=
  match fuel with
  | O => None
  | S f => if m33_eqb (rot g) id_rot then Some acc
           else let acc' := acc ++ [g] in
                if Nat.ltb max_size (length acc') then None
                else cyclic f s1 (op_mul g s1) acc'
  end.

(* one pass over j < len, n <= i *)
Definition dimino_pass (gen_i : list op) (init : list op) (syms cosets : list op) (len : nat)
  : list op * list op :=
  fold_left (fun st cj =>
    fold_left (fun st2 gn =>
      let '(sy, co) := st2 in
      let sg := op_mul gn cj in
      if has_rotation (rot sg) sy then st2
      else (sy ++ sg :: map (fun k => op_mul sg k) (tl init), co ++ [sg]))
      gen_i st)
    (firstn len cosets) (syms, cosets).

Fixpoint dimino_gen (fuel : nat) (gen_i init syms cosets : list op) : option (list op) :=
  match fuel with
  | O => None
  | S f =>
    let len := length cosets in
    let '(sy, co) := dimino_pass gen_i init syms cosets len in
    if Nat.eqb len (length co) then Some sy
    else if Nat.ltb max_size (length sy) then None
    else dimino_gen f gen_i init sy co
  end.

Fixpoint dimino_outer (gen : list op) (i : nat) (n : nat) (syms : list op) : option (list op) :=
  match n with
  | O => Some syms
  | S n' =>
    match dimino_gen 1100 (firstn (S i) gen) syms syms [identity] with
    | None => None
    | Some sy => dimino_outer gen (S i) n' sy
    end
  end.

(* GroupOps::add_missing_elements; None = fail *)
Definition add_missing_elements (g : gops) : option gops :=
  match sym_ops g with
  | [] => None
  | s0 :: rest =>
    if negb (op_eqb s0 identity) then None else
    match rest with
    | [] => Some g
    | s1 :: _ =>
      match cyclic 1100 s1 (op_mul s1 s1) [s0; s1] with
      | None => None
      | Some syms2 =>
        match dimino_outer rest 1 (length rest - 1) syms2 with
        | None => None
        | Some sy => Some (mkG sy (cen_ops g))
        end
      end
    end
  end.

Definition symops_from_hall (hall : str) : hres gops :=
  match generators_from_hall hall with
  | HOk g => match add_missing_elements g with Some g' => HOk g' | None => HFail end
  | HFail => HFail
  | HOob => HOob
  end.

(* split_centering_vectors *)
Fixpoint replace_tran_by_rot (r : m33) (t : v3) (l : list op) : list op :=
  match l with
  | [] => []
  | o :: rest => if m33_eqb (rot o) r then mkOp (rot o) t (nota o) :: rest
                 else o :: replace_tran_by_rot r t rest
  end.
Definition split_centering_vectors (ops : list op) : gops :=
  fold_left (fun g o =>
    if has_rotation (rot o) (sym_ops g) then
      let tr := wrapped_tran o in
      let cens := if m33_eqb (rot o) id_rot then cen_ops g ++ [tr] else cen_ops g in
      let syms := if v3_eqb tr (0,0,0) then replace_tran_by_rot (rot o) (tran o) (sym_ops g)
                  else sym_ops g in
      mkG syms cens
    else mkG (sym_ops g ++ [o]) (cen_ops g))
    ops (mkG [identity] []).
