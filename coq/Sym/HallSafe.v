(* Memory safety of the Hall-symbol interpreter (model Sym/Group.v) for EVERY byte string: the only array the
   interpreter indexes with a value derived from its input is Op::tran[principal_axis - 'x']; the model returns
   HOob if that index could leave {0, 1, 2}. It never does. (The snapshot wrote tran[-120] when a screw
   subscript came without a principal axis; that is refuted in Properties_C02 by the recorded witness.) *)
From Coq Require Import Lia ZifyBool.
From GV Require Import Sym.Op Sym.Triplet Sym.Group.
Local Open Scope Z_scope.

Definition princ_ok (p : Z) : Prop := p = 0 \/ (120 <= p <= 122).

Lemma hall_sym_chars_princ : forall n s st st',
  hall_sym_chars n s st = Some st' -> princ_ok (hs_princ st) -> princ_ok (hs_princ st').
Proof.
  intros n s. induction s as [|c t IH]; intros st st' H Hp; cbn [hall_sym_chars] in H.
  - injection H as <-. exact Hp.
  - destruct ((49 <=? c) && (c <=? 53)).
    + destruct (negb (hs_frac st =? 0)); [discriminate|]. apply IH in H; [exact H|exact Hp].
    + destruct ((c =? 39) || (c =? 34) || (c =? 42)).
      * destruct (negb (n =? (if c =? 42 then 3 else 2))); [discriminate|]. apply IH in H; [exact H|exact Hp].
      * destruct ((c =? 120) || (c =? 121) || (c =? 122)) eqn:E.
        -- apply IH in H; [exact H|]. cbn [hs_princ]. right. lia.
        -- destruct (hall_translation_from_symbol c); [|discriminate]. apply IH in H; [exact H|exact Hp].
Qed.

Theorem hall_matrix_symbol_in_bounds : forall s pos prev, hall_matrix_symbol s pos prev <> HOob.
Proof.
  intros s pos prev. unfold hall_matrix_symbol.
  set (p := if cur s =? 45 then adv s else s).
  destruct ((cur p <? 49) || (cur p =? 53) || (cur p >? 54)); [discriminate|].
  destruct (hall_sym_chars (cur p - 48) (adv p) (mkHS 0 0 0 (0, 0, 0))) as [st|] eqn:E; [|discriminate].
  pose proof (hall_sym_chars_princ _ _ _ _ E (or_introl eq_refl)) as Hp. cbn [hs_princ] in Hp.
  set (filled := if (hs_princ st =? 0) && (hs_diag st =? 0) then _ else _).
  assert (Hf : forall pr dg, filled = Some (pr, dg) -> princ_ok pr).
  { intros pr dg. subst filled.
    destruct ((hs_princ st =? 0) && (hs_diag st =? 0)).
    - destruct (pos =? 1); [intros H; injection H as <- _; right; lia|].
      destruct ((pos =? 2) && (cur p - 48 =? 2)).
      + destruct ((prev =? 2) || (prev =? 4)); [intros H; injection H as <- _; right; lia|].
        destruct ((prev =? 3) || (prev =? 6)); intros H; injection H as <- _; left; reflexivity.
      + destruct ((pos =? 3) && (cur p - 48 =? 3)); [intros H; injection H as <- _; left; reflexivity|].
        destruct (negb (cur p - 48 =? 1)); [discriminate|]. intros H; injection H as <- _; left; reflexivity.
    - intros H. injection H as <- _. exact Hp. }
  destruct filled as [[pr dg]|]; [|discriminate].
  specialize (Hf pr dg eq_refl).
  destruct (hall_rotation_z (if dg =? 0 then cur p - 48 else dg)); [|discriminate].
  destruct (negb (hs_frac st =? 0)); [|discriminate].
  destruct (pr =? 0) eqn:E0; [discriminate|].
  destruct ((120 <=? pr) && (pr <=? 122)) eqn:E1; [discriminate|].
  exfalso. destruct Hf as [->|Hr]; [discriminate|lia].
Qed.

Lemma hall_parts_in_bounds : forall fuel part counter prev acc, hall_parts fuel part counter prev acc <> HOob.
Proof.
  induction fuel as [|f IH]; intros part counter prev acc; cbn [hall_parts]; [discriminate|].
  destruct ((cur part =? 0) || (cur part =? 40)); [discriminate|].
  destruct (find_blank part []) as [tok rest].
  destruct (negb (cur part =? 49) || negb (cur (adv part) =? 32) && negb (cur (adv part) =? 0)).
  - pose proof (hall_matrix_symbol_in_bounds tok (counter + 1) prev) as H.
    destruct (hall_matrix_symbol tok (counter + 1) prev) as [[o prev']| |]; [apply IH|discriminate|contradiction].
  - apply IH.
Qed.

Theorem generators_from_hall_in_bounds : forall s, generators_from_hall s <> HOob.
Proof.
  intros s. unfold generators_from_hall.
  set (hall := skip_space (cstr s)).
  destruct (centring_vectors (cur (skip_space (if cur hall =? 45 then adv hall else hall)))); [|discriminate].
  set (part := skip_space (adv (skip_space (if cur hall =? 45 then adv hall else hall)))).
  pose proof (hall_parts_in_bounds (S (length part)) part 0 0 []) as H.
  destruct (hall_parts (S (length part)) part 0 0 []) as [[ops rest]| |]; [|discriminate|contradiction].
  destruct (cur rest =? 40); [|discriminate].
  destruct (take_until 41 (adv rest) []) as [[inner rb]|]; [|discriminate].
  destruct (parse_hall_cob inner); [|discriminate].
  destruct (change_basis_forward _ _); [|discriminate].
  destruct (find_blank (adv rb) []) as [x after].
  destruct (cur (skip_space after) =? 0); discriminate.
Qed.
