(* Model of ReciprocalAsu and the reflection predicates of GroupOps (symmetry.hpp). *)
From GV Require Export Sym.Group.
Local Open Scope Z_scope.

Definition is_in_ref (idx : Z) (h k l : Z) : bool :=
  match idx with
  | 0 => (l >? 0) || ((l =? 0) && ((h >? 0) || ((h =? 0) && (k >=? 0))))
  | 1 => (k >=? 0) && ((l >? 0) || ((l =? 0) && (h >=? 0)))
  | 12 | 2 => (h >=? 0) && (k >=? 0) && (l >=? 0)
  | 3 => (l >=? 0) && (((h >=? 0) && (k >? 0)) || ((h =? 0) && (k =? 0)))
  | 14 | 4 => (h >=? k) && (k >=? 0) && (l >=? 0)
  | 5 => ((h >=? 0) && (k >? 0)) || ((h =? 0) && (k =? 0) && (l >=? 0))
  | 16 | 6 => (h >=? k) && (k >=? 0) && ((k >? 0) || (l >=? 0))
  | 17 | 7 => (h >=? k) && (k >=? 0) && ((h >? k) || (l >=? 0))
  | 8 => (h >=? 0) && (((l >=? h) && (k >? h)) || ((l =? h) && (k =? h)))
  | 9 => (k >=? l) && (l >=? h) && (h >=? 0)
  | 10 => (k >? 0) || ((k =? 0) && ((h >? 0) || ((h =? 0) && (l >=? 0))))
  | 11 => (k >=? 0) && ((h >? 0) || ((h =? 0) && (l >=? 0)))
  | 13 => (l >=? 0) && (((k >=? 0) && (h >? 0)) || ((h =? 0) && (k =? 0)))
  | 15 => ((k >=? 0) && (h >? 0)) || ((h =? 0) && (k =? 0) && (l >=? 0))
  | 18 => (k >=? 0) && (l >=? 0) && (((h >? k) && (h >? l)) || ((h =? k) && (h >=? l)))
  | 19 => (h >=? k) && (k >=? l) && (l >=? 0)
  | _ => false    (* unreachable() in the C++ *)
  end.

Record rasu : Type := mkAsu { asu_idx : Z; asu_rot : m33; asu_is_ref : bool }.

(* ReciprocalAsu::ReciprocalAsu(sg, tnt) as coded.  asu_table_idx = ccp4_hkl_asu[number-1],
   basis_rot = sg->basisop().rot, is_reference = (basisop_idx == 0). *)
Definition make_asu (asu_table_idx : Z) (is_reference : bool) (basis_rot : m33) (tnt : bool) : rasu :=
  let idx := if tnt then asu_table_idx + 10 else asu_table_idx in
  if is_reference then mkAsu idx ((0,0,0),(0,0,0),(0,0,0)) true
  else mkAsu idx basis_rot false.

Definition asu_is_in (a : rasu) (hkl : v3) : bool :=
  if asu_is_ref a then let '(h,k,l) := hkl in is_in_ref (asu_idx a) h k l
  else
    let r := asu_rot a in
    let '(h,k,l) := (dot (col r 0) hkl, dot (col r 1) hkl, dot (col r 2) hkl) in
    is_in_ref (asu_idx a) h k l.

(* to_asu: Some (hkl, isym) or None = fail("Oops") *)
Fixpoint to_asu_loop (a : rasu) (hkl : v3) (ops : list op) (isym : Z) : option (v3 * Z) :=
  match ops with
  | [] => None
  | o :: t =>
    let nh := apply_to_hkl_nodiv o hkl in
    if asu_is_in a nh then Some (divide_hkl nh, isym + 1)
    else let neg := neg_v3 nh in
         if asu_is_in a neg then Some (divide_hkl neg, isym + 2)
         else to_asu_loop a hkl t (isym + 2)
  end.
Definition to_asu (a : rasu) (hkl : v3) (g : gops) : option (v3 * Z) :=
  to_asu_loop a hkl (sym_ops g) 0.

(* returns None for fail("Oops") *)
Definition to_asu_sign (a : rasu) (hkl : v3) (g : gops) : option (v3 * bool) :=
  (* note: a (+) hit sets second=true as well, as in the C++ where `neg.second` stays true only
     when nothing was found; we therefore track "found" separately *)
  let fix go (ops : list op) (neg : option v3) : option (v3 * bool) :=
    match ops with
    | [] => match neg with Some v => Some (v, false) | None => None end
    | o :: t =>
      let nh := apply_to_hkl_nodiv o hkl in
      if asu_is_in a nh then Some (divide_hkl nh, true)
      else let ng := neg_v3 nh in
           if asu_is_in a ng then go t (Some (divide_hkl ng)) else go t neg
    end in
  go (sym_ops g) None.

Definition scale_v3 (c : Z) (h : v3) : v3 := map_v3 (fun x => c * x) h.

Definition is_reflection_centric (g : gops) (hkl : v3) : bool :=
  let mh := scale_v3 (- DEN) hkl in
  existsb (fun o => v3_eqb (apply_to_hkl_nodiv o hkl) mh) (sym_ops g).

Definition epsilon_factor_without_centering (g : gops) (hkl : v3) : Z :=
  let dh := scale_v3 DEN hkl in
  Z.of_nat (length (filter (fun o => v3_eqb (apply_to_hkl_nodiv o hkl) dh) (sym_ops g))).
Definition epsilon_factor (g : gops) (hkl : v3) : Z :=
  epsilon_factor_without_centering g hkl * Z.of_nat (length (cen_ops g)).

Definition has_phase_shift (c : v3) (hkl : v3) : bool := negb (crem (dot hkl c) DEN =? 0).

Definition is_systematically_absent (g : gops) (hkl : v3) : bool :=
  existsb (fun c => has_phase_shift c hkl) (tl (cen_ops g)) ||
  let dh := scale_v3 DEN hkl in
  existsb (fun o =>
    v3_eqb (apply_to_hkl_nodiv o hkl) dh &&
    existsb (fun c => has_phase_shift (add_v3 (tran o) c) hkl) (cen_ops g))
    (tl (sym_ops g)).
