(* Executable per-row checkers for the space-group table (property C04) with reference data that
   is written here independently of gemmi (ITA number ranges, point-group orders, signatures). *)
From GV Require Export Sym.SgLookup Sym.Asu Sym.SgTable_gen.
Local Open Scope Z_scope.

(* ---- independent reference data (International Tables A) ---- *)
Definition ita_pg_upper_bounds : list Z :=
  [1;2;5;9;15;24;46;74;80;82;88;98;110;122;142;146;148;155;161;167;173;174;176;182;186;190;194;
   199;206;214;220;230].
Fixpoint first_ge (n : Z) (l : list Z) (i : Z) : Z :=
  match l with [] => -1 | u :: t => if n <=? u then i else first_ge n t (i + 1) end.
(* index in gemmi's PointGroup enum order, which follows ITA *)
Definition ita_point_group (number : Z) : Z := first_ge number ita_pg_upper_bounds 0.
Definition pg_order_table : list Z :=
  [1;2;2;2;4;4;4;8;4;4;8;8;8;8;16;3;6;6;6;12;6;6;12;12;12;12;24;12;24;24;24;48].
Definition ita_crystal_system (number : Z) : Z :=
  first_ge number [2;15;74;142;167;194;230] 0.
Definition centring_mult (c : Z) : Z :=
  match c with 80 => 1 | 65 | 66 | 67 | 73 => 2 | 70 => 4 | 82 | 72 => 3 | _ => 0 end.
Definition enantiomorphic_numbers : list Z :=
  [76;78;91;95;92;96;144;145;151;153;152;154;169;170;171;172;178;179;180;181;212;213].

(* rotation-type signature of each point group: counts of types [1;2;3;4;6;-1;-2;-3;-4;-6] *)
Definition pg_signatures : list (list Z) :=
  [ [1;0;0;0;0;0;0;0;0;0];  (* 1 *)
    [1;0;0;0;0;1;0;0;0;0];  (* -1 *)
    [1;1;0;0;0;0;0;0;0;0];  (* 2 *)
    [1;0;0;0;0;0;1;0;0;0];  (* m *)
    [1;1;0;0;0;1;1;0;0;0];  (* 2/m *)
    [1;3;0;0;0;0;0;0;0;0];  (* 222 *)
    [1;1;0;0;0;0;2;0;0;0];  (* mm2 *)
    [1;3;0;0;0;1;3;0;0;0];  (* mmm *)
    [1;1;0;2;0;0;0;0;0;0];  (* 4 *)
    [1;1;0;0;0;0;0;0;2;0];  (* -4 *)
    [1;1;0;2;0;1;1;0;2;0];  (* 4/m *)
    [1;5;0;2;0;0;0;0;0;0];  (* 422 *)
    [1;1;0;2;0;0;4;0;0;0];  (* 4mm *)
    [1;3;0;0;0;0;2;0;2;0];  (* -42m *)
    [1;5;0;2;0;1;5;0;2;0];  (* 4/mmm *)
    [1;0;2;0;0;0;0;0;0;0];  (* 3 *)
    [1;0;2;0;0;1;0;2;0;0];  (* -3 *)
    [1;3;2;0;0;0;0;0;0;0];  (* 32 *)
    [1;0;2;0;0;0;3;0;0;0];  (* 3m *)
    [1;3;2;0;0;1;3;2;0;0];  (* -3m *)
    [1;1;2;0;2;0;0;0;0;0];  (* 6 *)
    [1;0;2;0;0;0;1;0;0;2];  (* -6 *)
    [1;1;2;0;2;1;1;2;0;2];  (* 6/m *)
    [1;7;2;0;2;0;0;0;0;0];  (* 622 *)
    [1;1;2;0;2;0;6;0;0;0];  (* 6mm *)
    [1;3;2;0;0;0;4;0;0;2];  (* -62m *)
    [1;7;2;0;2;1;7;2;0;2];  (* 6/mmm *)
    [1;3;8;0;0;0;0;0;0;0];  (* 23 *)
    [1;3;8;0;0;1;3;8;0;0];  (* m-3 *)
    [1;9;8;6;0;0;0;0;0;0];  (* 432 *)
    [1;3;8;0;0;0;6;0;6;0];  (* -43m *)
    [1;9;8;6;0;1;9;8;6;0]   (* m-3m *)
  ].
Definition rot_type_list : list Z := [1;2;3;4;6;-1;-2;-3;-4;-6].
Definition signature (ops : list op) : list Z :=
  map (fun t => Z.of_nat (length (filter (fun o => rot_type (rot o) =? t) ops))) rot_type_list.
Definition classify_point_group (ops : list op) : Z :=
  match find_index (fun s => list_eqb Z.eqb s (signature ops)) pg_signatures 0 with
  | Some i => i | None => -1 end.

(* ---- model of the getters (mirrors the C++; tied by correspondence) ---- *)
Definition znth (l : list Z) (i : Z) : Z := nth (Z.to_nat i) l (-1).
Definition row_pg (r : sgrow) : Z := Z.land (znth pg_index_and_category (sg_number r - 1)) 31.
Definition row_bits (r : sgrow) : Z := znth pg_index_and_category (sg_number r - 1).
Definition row_laue (r : sgrow) : Z := znth pg_to_laue (row_pg r).
Definition row_system (r : sgrow) : Z := znth laue_to_system (row_laue r).
Definition row_sohncke (r : sgrow) : bool := negb (Z.land (row_bits r) 32 =? 0).
Definition row_enantiomorphic (r : sgrow) : bool := negb (Z.land (row_bits r) 64 =? 0).
Definition row_symmorphic (r : sgrow) : bool := negb (Z.land (row_bits r) 128 =? 0).
Definition row_centro (r : sgrow) : bool := znth laue_to_pg (row_laue r) =? row_pg r.
Definition row_centring_type (r : sgrow) : Z := if sg_ext r =? 82 then 80 else nth 0 (sg_hm r) 0.
Definition row_is_ref (r : sgrow) : bool := sg_basisop r =? 0.
Definition row_basisop (r : sgrow) : res op := parse_triplet (nth (Z.to_nat (sg_basisop r)) basisops []) 32.
Definition gops_centro (g : gops) : bool := has_rotation inversion_rot (sym_ops g).

(* SpaceGroup::short_name *)
Definition remove_spaces (s : str) : str := filter (fun c => negb (c =? 32)) s.
Definition short_name (r : sgrow) : str :=
  let s := sg_hm r in
  let len := length s in
  let s1 := if (Nat.ltb 6 len) && (nth 2 s 0 =? 49) && (nth (len - 2) s 0 =? 32) && (nth (len - 1) s 0 =? 49)
            then nth 0 s 0 :: firstn (len - 4 - 2) (skipn 4 s) else s in
  let s2 := if sg_ext r =? 72 then 72 :: tl s1 else s1 in
  remove_spaces s2.

Definition row_change_of_hand (r : sgrow) : option op :=
  if row_centro r then Some identity else
  let '(t0,t1,t2) := nth (Z.to_nat (sg_number r - 1)) inversion_centers (0,0,0) in
  let o := mkOp inversion_rot (2*t0, 2*t1, 2*t2) 120 in
  if row_is_ref r then Some o else
  match row_basisop r with
  | Ok b => opt_bind (inverse b) (fun bi => opt_bind (combine b o) (fun x => combine x bi))
  | _ => None
  end.

Record rowinfo := mkInfo {
  ri_pg : Z; ri_laue : Z; ri_system : Z; ri_sohncke : bool; ri_enant : bool; ri_symm : bool;
  ri_centro : bool; ri_ctype : Z; ri_found_centering : Z; ri_order : Z; ri_is_ref : bool;
  ri_gcentro : bool; ri_basisop : res op; ri_coh : option op; ri_xhm : str; ri_short : str }.
Definition row_info (r : sgrow) : option rowinfo :=
  match operations r with
  | HOk g => Some (mkInfo (row_pg r) (row_laue r) (row_system r) (row_sohncke r) (row_enantiomorphic r)
                          (row_symmorphic r) (row_centro r) (row_centring_type r) (find_centering g)
                          (order g) (row_is_ref r) (gops_centro g) (row_basisop r)
                          (row_change_of_hand r) (xhm r) (short_name r))
  | _ => None
  end.

(* ---- group-theoretic checks ---- *)
Definition mem_op (o : op) (l : list op) : bool := existsb (op_eqb o) l.
Fixpoint nodup_b (l : list op) : bool :=
  match l with [] => true | o :: t => negb (mem_op o t) && nodup_b t end.

Definition closed_b (ops : list op) : bool :=
  forallb (fun a => forallb (fun b => mem_op (op_mul a b) ops) ops) ops.
Definition has_inverses_b (ops : list op) : bool :=
  forallb (fun a => existsb (fun b => op_eqb (op_mul a b) identity) ops) ops.
Definition is_group_b (ops : list op) : bool :=
  mem_op identity ops && closed_b ops && has_inverses_b ops && nodup_b ops.

Definition sohncke_by_ops (g : gops) : bool := forallb (fun o => det_rot (rot o) >? 0) (sym_ops g).

Definition reference_row (number : Z) : option sgrow :=
  find (fun r => (sg_number r =? number) && row_is_ref r) sg_table.

Definition exact_inverse_b (b : op) : bool :=
  match inverse b with
  | Some bi => op_eqb (combine' b bi) identity && op_eqb (combine' bi b) identity
  | None => false
  end.

Definition transform_ok_b (r : sgrow) (g : gops) : bool :=
  match reference_row (sg_number r), row_basisop r with
  | Some rr, Ok b =>
    exact_inverse_b b &&
    match operations rr with
    | HOk gr => match change_basis_forward gr b with
                | Some g' => is_same_as g g'
                | None => false
                end
    | _ => false
    end
  | _, _ => false
  end.

Definition triplets_ok_b (g : gops) : bool :=
  forallb (fun o => match triplet o 32 with
                    | Some s => match parse_triplet s 32 with Ok o' => op_eqb o o' | _ => false end
                    | None => false end) (all_ops g).

Definition row_group_ok_b (r : sgrow) : bool :=
  match operations r with
  | HOk g =>
    let ops := all_ops g in
    let pg := ita_point_group (sg_number r) in
    match sym_ops g, cen_ops g with
    | s0 :: _, c0 :: _ =>
      op_eqb s0 identity && v3_eqb c0 (0,0,0) &&
      is_group_b ops &&
      (order g =? znth pg_order_table pg * centring_mult (if sg_ext r =? 82 then 80 else nth 0 (sg_hm r) 0)) &&
      (find_centering g =? row_centring_type r) &&
      (classify_point_group (sym_ops g) =? pg) && (row_pg r =? pg) &&
      (row_system r =? ita_crystal_system (sg_number r)) &&
      Bool.eqb (row_sohncke r) (sohncke_by_ops g) &&
      Bool.eqb (row_centro r) (gops_centro g) &&
      Bool.eqb (row_enantiomorphic r) (existsb (Z.eqb (sg_number r)) enantiomorphic_numbers) &&
      transform_ok_b r g && triplets_ok_b g
    | _, _ => false
    end
  | _ => false
  end.

(* ---- lookups ---- *)
Definition first_index_with {A} (p : A -> bool) (l : list A) : option Z := find_index p l 0.

Definition lookup_xhm_ok_b (i : Z) (r : sgrow) : bool :=
  match find_spacegroup_by_name sg_table alt_table (xhm r) None None with
  | Some (Some j) => match first_index_with (fun r' => str_eqb (xhm r') (xhm r)) sg_table with
                     | Some k => j =? k | None => false end
  | _ => false
  end.
Definition lookup_ccp4_ok_b (i : Z) (r : sgrow) : bool :=
  if sg_ccp4 r =? 0 then true else
  match find_spacegroup_by_number sg_table (sg_ccp4 r) with
  | Some j => match first_index_with (fun r' => sg_ccp4 r' =? sg_ccp4 r) sg_table with
              | Some k => j =? k | None => false end
  | None => false
  end.
Definition same_ops_b (r r' : sgrow) : bool :=
  match operations r, operations r' with
  | HOk g, HOk g' => is_same_as g g'
  | _, _ => false
  end.
Definition lookup_ops_ok_b (i : Z) (r : sgrow) : bool :=
  match operations r with
  | HOk g => match find_spacegroup_by_ops sg_table g with
             | Some j => match first_index_with (same_ops_b r) sg_table with
                         | Some k => j =? k | None => false end
             | None => false end
  | _ => false
  end.
Definition lookup_alt_ok_b (a : altname) : bool :=
  let nm := if alt_ext a =? 0 then alt_hm a else alt_hm a ++ [58; alt_ext a] in
  match find_spacegroup_by_name sg_table alt_table nm None None with
  | Some (Some j) => j =? alt_pos a
  | _ => false
  end.

Fixpoint forallb_i {A} (f : Z -> A -> bool) (l : list A) (i : Z) : bool :=
  match l with [] => true | x :: t => f i x && forallb_i f t (i + 1) end.
