From GV Require Export Sym.SgCheck.
Local Open Scope Z_scope.

(* everything that is checked per table row, with its index *)
Definition row_all_ok_b (ir : Z * sgrow) : bool :=
  let '(i, r) := ir in
  row_group_ok_b r && lookup_xhm_ok_b i r && lookup_ccp4_ok_b i r && lookup_ops_ok_b i r.

Definition indexed_table : list (Z * sgrow) :=
  List.combine (map Z.of_nat (seq 0 (length sg_table))) sg_table.
Definition nshards : Z := 16.
Definition fchunk (l : list (Z * sgrow)) (k : Z) : list (Z * sgrow) :=
  filter (fun ir => fst ir mod nshards =? k) l.
Definition chunk (k : Z) : list (Z * sgrow) := fchunk indexed_table k.
