(* Lifting the kernel-evaluated table checks (564 rows, sharded) to propositions (property C04). *)
From Coq Require Import Lia.
From GV Require Import Sym.SgCheck Sym.SgShardDefs.
From GV Require Sym.SgShard00 Sym.SgShard01 Sym.SgShard02 Sym.SgShard03 Sym.SgShard04 Sym.SgShard05
                Sym.SgShard06 Sym.SgShard07 Sym.SgShard08 Sym.SgShard09 Sym.SgShard10 Sym.SgShard11
                Sym.SgShard12 Sym.SgShard13 Sym.SgShard14 Sym.SgShard15.
Local Open Scope Z_scope.

Lemma forallb_chunks16 : forall (f : Z * sgrow -> bool) (l : list (Z * sgrow)),
  forallb f (fchunk l 0) = true -> forallb f (fchunk l 1) = true ->
  forallb f (fchunk l 2) = true -> forallb f (fchunk l 3) = true ->
  forallb f (fchunk l 4) = true -> forallb f (fchunk l 5) = true ->
  forallb f (fchunk l 6) = true -> forallb f (fchunk l 7) = true ->
  forallb f (fchunk l 8) = true -> forallb f (fchunk l 9) = true ->
  forallb f (fchunk l 10) = true -> forallb f (fchunk l 11) = true ->
  forallb f (fchunk l 12) = true -> forallb f (fchunk l 13) = true ->
  forallb f (fchunk l 14) = true -> forallb f (fchunk l 15) = true ->
  forallb f l = true.
Proof.
  intros f l H0 H1 H2 H3 H4 H5 H6 H7 H8 H9 H10 H11 H12 H13 H14 H15.
  apply forallb_forall. intros x Hx.
  assert (Hk : 0 <= fst x mod nshards < nshards) by (apply Z.mod_pos_bound; reflexivity).
  unfold nshards in Hk.
  assert (Hin : In x (fchunk l (fst x mod 16))).
  { unfold fchunk. apply filter_In. split; [exact Hx|]. apply Z.eqb_refl. }
  assert (C : fst x mod 16 = 0 \/ fst x mod 16 = 1 \/ fst x mod 16 = 2 \/ fst x mod 16 = 3 \/
              fst x mod 16 = 4 \/ fst x mod 16 = 5 \/ fst x mod 16 = 6 \/ fst x mod 16 = 7 \/
              fst x mod 16 = 8 \/ fst x mod 16 = 9 \/ fst x mod 16 = 10 \/ fst x mod 16 = 11 \/
              fst x mod 16 = 12 \/ fst x mod 16 = 13 \/ fst x mod 16 = 14 \/ fst x mod 16 = 15) by lia.
  repeat (destruct C as [C|C];
          [rewrite C in Hin;
           match goal with K : forallb f (fchunk l ?n) = true, Hin : In x (fchunk l ?n) |- _ =>
             exact (proj1 (forallb_forall _ _) K x Hin) end|]).
  rewrite C in Hin. exact (proj1 (forallb_forall _ _) H15 x Hin).
Qed.

Lemma all_rows_ok : forallb row_all_ok_b indexed_table = true.
Proof.
  exact (forallb_chunks16 row_all_ok_b indexed_table
    SgShard00.shard_ok SgShard01.shard_ok SgShard02.shard_ok SgShard03.shard_ok
    SgShard04.shard_ok SgShard05.shard_ok SgShard06.shard_ok SgShard07.shard_ok
    SgShard08.shard_ok SgShard09.shard_ok SgShard10.shard_ok SgShard11.shard_ok
    SgShard12.shard_ok SgShard13.shard_ok SgShard14.shard_ok SgShard15.shard_ok).
Qed.

Lemma table_size : length sg_table = 564%nat.
Proof. vm_compute. reflexivity. Qed.

Lemma In_indexed : forall r, In r sg_table -> exists i, In (i, r) indexed_table.
Proof.
  unfold indexed_table. intros r H.
  assert (G : forall (l : list sgrow) (li : list Z), length li = length l -> In r l ->
              exists i, In (i, r) (List.combine li l)).
  { induction l as [|x l IH]; intros li Hl Hin; [destruct Hin|].
    destruct li as [|i li]; [discriminate|].
    destruct Hin as [->|Hin].
    - exists i. left. reflexivity.
    - destruct (IH li) as [j Hj]; [simpl in Hl; lia|exact Hin|]. exists j. right. exact Hj. }
  apply G; [|exact H]. rewrite map_length, seq_length. reflexivity.
Qed.

Lemma row_ok : forall r, In r sg_table -> exists i, In (i, r) indexed_table /\ row_all_ok_b (i, r) = true.
Proof.
  intros r H. destruct (In_indexed r H) as [i Hi]. exists i. split; [exact Hi|].
  exact (proj1 (forallb_forall _ _) all_rows_ok _ Hi).
Qed.

(* ---- reflection of the boolean group checks ---- *)
Lemma mem_op_In : forall o l, mem_op o l = true -> exists c, In c l /\ op_eqb o c = true.
Proof. intros o l H. apply existsb_exists in H. exact H. Qed.

Definition closed (ops : list op) : Prop :=
  forall a b, In a ops -> In b ops -> exists c, In c ops /\ op_eqb (op_mul a b) c = true.
Definition has_inverses (ops : list op) : Prop :=
  forall a, In a ops -> exists b, In b ops /\ op_eqb (op_mul a b) identity = true.

Lemma closed_b_closed : forall ops, closed_b ops = true -> closed ops.
Proof.
  intros ops H a b Ha Hb. unfold closed_b in H.
  rewrite forallb_forall in H. specialize (H a Ha). rewrite forallb_forall in H.
  apply mem_op_In. exact (H b Hb).
Qed.
Lemma has_inverses_b_spec : forall ops, has_inverses_b ops = true -> has_inverses ops.
Proof.
  intros ops H a Ha. unfold has_inverses_b in H. rewrite forallb_forall in H.
  specialize (H a Ha). apply existsb_exists in H. exact H.
Qed.

Record group_spec (r : sgrow) (g : gops) : Prop := {
  gs_identity_first : exists s0 rest, sym_ops g = s0 :: rest /\ op_eqb s0 identity = true;
  gs_contains_identity : exists c, In c (all_ops g) /\ op_eqb identity c = true;
  gs_closed : closed (all_ops g);
  gs_inverses : has_inverses (all_ops g);
  gs_nodup : nodup_b (all_ops g) = true;
  gs_order : order g = znth pg_order_table (ita_point_group (sg_number r))
                       * centring_mult (if sg_ext r =? 82 then 80 else nth 0 (sg_hm r) 0);
  gs_centring : find_centering g = row_centring_type r;
  gs_point_group : classify_point_group (sym_ops g) = ita_point_group (sg_number r)
                   /\ row_pg r = ita_point_group (sg_number r);
  gs_system : row_system r = ita_crystal_system (sg_number r);
  gs_sohncke : row_sohncke r = sohncke_by_ops g;
  gs_centro : row_centro r = gops_centro g;
  gs_enantiomorphic : row_enantiomorphic r = existsb (Z.eqb (sg_number r)) enantiomorphic_numbers;
  gs_reference_transform : transform_ok_b r g = true;
  gs_triplets : triplets_ok_b g = true
}.

Lemma row_group_ok_spec : forall r, row_group_ok_b r = true ->
  exists g, operations r = HOk g /\ group_spec r g.
Proof.
  intros r H. unfold row_group_ok_b in H.
  destruct (operations r) as [g| |] eqn:E; try discriminate.
  exists g. split; [reflexivity|].
  destruct (sym_ops g) as [|s0 srest] eqn:Es; [discriminate|].
  destruct (cen_ops g) as [|c0 crest] eqn:Ec; [discriminate|].
  repeat (apply andb_true_iff in H; destruct H as [H ?]).
  unfold is_group_b in *.
  repeat match goal with
         | K : _ && _ = true |- _ => apply andb_true_iff in K; destruct K
         | K : Bool.eqb _ _ = true |- _ => apply Bool.eqb_prop in K
         | K : (_ =? _) = true |- _ => apply Z.eqb_eq in K
         end.
  rewrite <- Es in *.
  constructor; try assumption.
  - exists s0, srest. split; [exact Es|]. unfold op_eqb.
    match goal with A : m33_eqb (rot s0) _ = true, B : v3_eqb (tran s0) _ = true |- _ =>
      rewrite A, B end. reflexivity.
  - apply mem_op_In; assumption.
  - apply closed_b_closed; assumption.
  - apply has_inverses_b_spec; assumption.
  - split; assumption.
Qed.

Lemma table_groups : forall r, In r sg_table -> exists g, operations r = HOk g /\ group_spec r g.
Proof.
  intros r H. destruct (row_ok r H) as [i [_ Hok]]. unfold row_all_ok_b in Hok.
  repeat (apply andb_true_iff in Hok; destruct Hok as [Hok ?]).
  apply row_group_ok_spec; assumption.
Qed.

Lemma table_lookups : forall r, In r sg_table ->
  exists i, In (i, r) indexed_table /\
    lookup_xhm_ok_b i r = true /\ lookup_ccp4_ok_b i r = true /\ lookup_ops_ok_b i r = true.
Proof.
  intros r H. destruct (row_ok r H) as [i [Hi Hok]]. exists i. split; [exact Hi|].
  unfold row_all_ok_b in Hok.
  repeat (apply andb_true_iff in Hok; destruct Hok as [Hok ?]). auto.
Qed.

Lemma alt_names_resolve : forallb lookup_alt_ok_b alt_table = true.
Proof. vm_compute. reflexivity. Qed.

(* every basis operator parses and has an exact inverse in 1/24 arithmetic *)
Lemma basisops_exact : forallb (fun s => match parse_triplet s 32 with
                                         | Ok b => exact_inverse_b b | _ => false end) basisops = true.
Proof. vm_compute. reflexivity. Qed.
