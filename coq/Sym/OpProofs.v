(* Proofs about the operator algebra model (property C10). *)
From Coq Require Import Lia ZifyBool.
From GV Require Import Sym.Op Sym.Triplet.
Local Open Scope Z_scope.
Ltac Zify.zify_post_hook ::= Z.to_euclidean_division_equations.

Ltac destruct_pairs :=
  repeat match goal with
         | p : ?T |- _ => let T' := eval hnf in T in
                          match T' with prod _ _ => destruct p end
         end.
Ltac destruct_op a := destruct a as [?rt ?tr ?nt]; destruct_pairs.

Lemma wrap1_mod : forall t, wrap1 t = t mod 24.
Proof.
  intros t. unfold wrap1, crem, DEN.
  destruct (t >=? 24) eqn:H1; [lia|].
  destruct (t <? 0) eqn:H2; lia.
Qed.

Lemma wrap1_range : forall t, 0 <= wrap1 t < 24.
Proof. intros t. rewrite wrap1_mod. apply Z.mod_pos_bound. lia. Qed.

Lemma wrap1_idem : forall t, wrap1 (wrap1 t) = wrap1 t.
Proof. intros t. rewrite !wrap1_mod. apply Z.mod_mod. lia. Qed.

Lemma cdiv_exact : forall k, cdiv (24 * k) 24 = k.
Proof. intros k. unfold cdiv. lia. Qed.

(* application of an operator to a point given as integer numerators x over a denominator d;
   the result (R x + t d) is 24*d times the image point *)
Definition apply_scaled (a : op) (x : v3) (d : Z) : v3 :=
  add_v3 (mat_vec_raw (rot a) x) (map_v3 (fun t => t * d) (tran a)).

Definition div24 (z : Z) : Prop := exists k, z = 24 * k.
Definition all3 (P : Z -> Prop) (v : v3) : Prop := let '(a,b,c) := v in P a /\ P b /\ P c.
(* every raw entry of the product is divisible by DEN: the composition is representable *)
Definition representable (a b : op) : Prop :=
  (let '(r0,r1,r2) := mat_mul_raw (rot a) (rot b) in all3 div24 r0 /\ all3 div24 r1 /\ all3 div24 r2) /\
  all3 div24 (add_v3 (map_v3 (fun x => x * DEN) (tran a)) (mat_vec_raw (rot a) (tran b))).

Lemma combine_agrees_with_apply :
  forall a b x d, representable a b ->
    map_v3 (fun z => 24 * z) (apply_scaled (combine' a b) x d)
    = apply_scaled a (apply_scaled b x d) (24 * d).
Proof.
  intros a b x d. destruct_op a. destruct_op b. destruct_pairs.
  unfold representable, combine', apply_scaled, all3, div24, DEN; cbn -[Z.mul Z.add cdiv].
  intros H.
  repeat match goal with
         | H : _ /\ _ |- _ => destruct H
         | H : exists _, _ |- _ => destruct H
         end.
  repeat match goal with E : ?e = 24 * ?k |- _ => rewrite E end.
  rewrite !cdiv_exact.
  f_equal; [f_equal|];
  match goal with
  | |- 24 * (?a * ?x + ?b * ?y + ?c * ?z + ?e * ?d) = _ =>
    replace (24 * (a * x + b * y + c * z + e * d))
      with ((24 * a) * x + (24 * b) * y + (24 * c) * z + (24 * e) * d) by ring
  end;
  repeat match goal with E : _ = 24 * ?k |- context [24 * ?k] => rewrite <- E; clear E end; ring.
Qed.

(* operator* = combine followed by reduction of the translation modulo the lattice *)
Lemma mul_wrap : forall a b,
  rot (op_mul a b) = rot (combine' a b) /\
  (let '(x,y,z) := tran (op_mul a b) in let '(x',y',z') := tran (combine' a b) in
   x = x' mod 24 /\ y = y' mod 24 /\ z = z' mod 24).
Proof.
  intros a b. unfold op_mul, wrap, wrapped_tran. cbn [rot tran].
  destruct (tran (combine' a b)) as [[x y] z]. rewrite !wrap1_mod. auto.
Qed.

(* Miller indices: the action on hkl is the transpose action, dual to the action on coordinates *)
Lemma apply_to_hkl_is_transpose : forall a h,
  apply_to_hkl_nodiv a h = mat_vec_raw (transpose (rot a)) h.
Proof. intros a h. destruct_op a. destruct_pairs. reflexivity. Qed.

Lemma hkl_duality : forall a h x,
  dot (apply_to_hkl_nodiv a h) x + dot h (tran a) = dot h (add_v3 (mat_vec_raw (rot a) x) (tran a)).
Proof. intros a h x. destruct_op a. destruct_pairs. cbn. ring. Qed.

Lemma phase_shift_is_h_dot_t : forall a h, phase_shift_num a h = dot h (tran a).
Proof. reflexivity. Qed.

(* phase transport composes: h.t1 + (hR1).t2 = h.(t1 + R1 t2)  (scaled by 24) *)
Lemma phase_transport_composes : forall a b h,
  24 * dot h (tran a) + dot (apply_to_hkl_nodiv a h) (tran b)
  = dot h (add_v3 (map_v3 (fun x => x * DEN) (tran a)) (mat_vec_raw (rot a) (tran b))).
Proof. intros a b h. destruct_op a. destruct_op b. destruct_pairs. unfold DEN. cbn -[Z.mul Z.add]. ring. Qed.

(* exact inverse for unimodular integral rotation parts (all crystallographic operations) *)
Definition scaled_int_rot (r m : m33) : Prop := r = map_m33 (fun x => 24 * x) m.

Lemma quot_pm1 : forall x d, (d = 1 \/ d = -1) -> cdiv (13824 * x) (13824 * d) = x * d.
Proof. intros x d [->| ->]; unfold cdiv; lia. Qed.

Lemma cof_quot : forall a b c e d, (d = 1 \/ d = -1) ->
  cdiv (24 * 24 * (24 * a * (24 * b) - 24 * c * (24 * e))) (13824 * d) = 24 * (a * b - c * e) * d.
Proof.
  intros a b c e d Hd.
  replace (24 * 24 * (24 * a * (24 * b) - 24 * c * (24 * e))) with (13824 * (24 * (a * b - c * e))) by ring.
  apply quot_pm1; exact Hd.
Qed.

Lemma cdiv_of_mult : forall e r, e = 24 * r -> cdiv e 24 = r.
Proof. intros e r ->. apply cdiv_exact. Qed.

Lemma inverse_exact_unimodular :
  forall m00 m01 m02 m10 m11 m12 m20 m21 m22 t0 t1 t2 nt,
  let m : m33 := ((m00,m01,m02),(m10,m11,m12),(m20,m21,m22)) in
  (det_rot m = 1 \/ det_rot m = -1) ->
  let a := mkOp (map_m33 (fun x => 24 * x) m) (t0,t1,t2) nt in
  exists inv, inverse a = Some inv /\
    rot (combine' a inv) = id_rot /\ rot (combine' inv a) = id_rot /\
    tran (combine' a inv) = (0,0,0) /\ tran (combine' inv a) = (0,0,0).
Proof.
  intros m00 m01 m02 m10 m11 m12 m20 m21 m22 t0 t1 t2 nt m Hd a.
  unfold inverse, a. cbn [rot tran nota map_m33 map_v3 m].
  set (D := det_rot _).
  assert (HD : D = 13824 * det_rot m) by (unfold D, det_rot, m; ring).
  destruct (D =? 0) eqn:E; [exfalso; lia|].
  eexists; split; [reflexivity|].
  unfold DEN. rewrite HD.
  set (d := det_rot m) in *.
  assert (Hdd : d * d = 1) by (destruct Hd as [-> | ->]; reflexivity).
  assert (Hdet : d = m00 * (m11 * m22 - m12 * m21) - m01 * (m10 * m22 - m12 * m20)
                     + m02 * (m10 * m21 - m11 * m20)) by reflexivity.
  clearbody d. clear HD E D a.
  rewrite !(cof_quot _ _ _ _ d Hd).
  assert (T0 : forall x y z, cdiv (- t0 * (24 * x * d) - t1 * (24 * y * d) - t2 * (24 * z * d)) 24
                             = - (t0 * x + t1 * y + t2 * z) * d).
  { intros x y z. apply cdiv_of_mult. ring. }
  rewrite !T0. clear T0.
  unfold combine', id_rot, DEN;
    cbn [rot tran nota mat_mul_raw mat_vec_raw col dot map_m33 map_v3 add_v3].
  assert (K : forall e r, e = r * (d * d) -> e = r) by (intros e r ->; rewrite Hdd; ring).
  pose (P := m00 * (m11 * m22 - m12 * m21) - m01 * (m10 * m22 - m12 * m20)
             + m02 * (m10 * m21 - m11 * m20)).
  assert (HP : P * d = 1) by (unfold P; rewrite <- Hdet; exact Hdd).
  assert (T : forall t e, e = 24 * t * (1 - P * d) -> e = 24 * 0)
    by (intros t e ->; rewrite HP; ring).
  repeat split;
  repeat (f_equal;
          try (apply cdiv_of_mult;
               first [ apply K; rewrite Hdet; ring
                     | ring
                     | apply (T t0); unfold P; ring
                     | apply (T t1); unfold P; ring
                     | apply (T t2); unfold P; ring ])).
Qed.

(* get_op_fraction reduces w/24 to lowest terms: n/d = w/24, d divides 24, and n shares
   neither of d's possible prime factors (2, 3) with it *)
Lemma get_op_fraction_spec : forall w, 0 < w ->
  let '(n, d) := get_op_fraction w in
  n * 24 = w * d /\ 0 < n /\
  (d = 1 \/ d = 2 \/ d = 3 \/ d = 4 \/ d = 6 \/ d = 8 \/ d = 12 \/ d = 24) /\
  (Z.rem d 2 = 0 -> Z.rem n 2 <> 0) /\ (Z.rem d 3 = 0 -> Z.rem n 3 <> 0).
Proof.
  intros w Hw. unfold get_op_fraction, frac_step2, crem, cdiv.
  assert (Q : forall x n, 0 <= x -> 0 < n -> Z.quot x n = x / n) by (intros; apply Z.quot_div_nonneg; lia).
  assert (R : forall x n, 0 <= x -> 0 < n -> Z.rem x n = x mod n) by (intros; apply Z.rem_mod_nonneg; lia).
  assert (P1 : 0 <= w / 2) by (apply Z.div_pos; lia).
  assert (P2 : 0 <= w / 2 / 2) by (apply Z.div_pos; lia).
  assert (P3 : 0 <= w / 2 / 2 / 2) by (apply Z.div_pos; lia).
  repeat (match goal with |- context [if ?c then _ else _] => destruct c eqn:? end;
          cbv beta iota zeta);
  rewrite ?Q, ?R in * by lia;
  repeat split; lia.
Qed.

(* where truncation toward zero bites: a non-representable product is not a composition *)
Example truncation_counterexample :
  let a := mkOp ((8,0,0),(0,24,0),(0,0,24)) (0,0,0) 32 in
  let b := mkOp ((8,0,0),(0,24,0),(0,0,24)) (0,0,0) 32 in
  ~ representable a b /\ rot (combine' a b) = ((2,0,0),(0,24,0),(0,0,24)).
Proof.
  cbv zeta. split; [|reflexivity].
  unfold representable, all3, div24. cbn -[Z.mul Z.add]. intros [[[[k Hk] _] _] _]. lia.
Qed.
