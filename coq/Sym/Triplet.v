(* Model of parse_triplet / Op::triplet (src/symmetry.cpp). *)
From Coq Require Import QArith Qabs.
From GV Require Export Base.Str Sym.Op.
Local Open Scope Z_scope.

Definition is_tspace (c : Z) : bool := (c =? 32) || (c =? 9) || (c =? 95).
Definition skip_space (s : str) : str := skip_while is_tspace s.

(* letter2index: a b c -> 96+i ; h k l -> 104+i ; x y z -> 120+i *)
Definition letter2index (idx : Z) : Z :=
  match idx with
  | 0 => 96 | 1 => 97 | 2 => 98
  | 7 => 104 | 10 => 105 | 11 => 106
  | 23 => 120 | 24 => 121 | 25 => 122
  | _ => 0
  end.

(* returns (row index, new notation) or None (= fail) *)
Definition interpret_letter (c : Z) (notation : Z) : option (Z * Z) :=
  if c >=? 128 then None else
  let idx := Z.lor c 32 - 97 in
  if (idx <? 0) || (idx >=? 26) then None else
  let value := letter2index idx in
  if value =? 0 then None else
  let detected := Z.land value (-4) in
  if Z.lor notation 32 =? 32 then Some (Z.land value 3, detected)
  else if Z.land (Z.lor notation 32) (-4) =? detected then Some (Z.land value 3, notation)
  else None.

(* decimal digits after the point: sum d_i / 10^i as a rational, and the rest of the string *)
Fixpoint frac_digits (s : str) (acc : Q) (scale : positive) : Q * str :=
  match s with
  | c :: t => if is_digit c
              then frac_digits t (Qplus acc (Qmake (c - 48) (scale * 10))) (scale * 10)%positive
              else (acc, s)
  | [] => (acc, [])
  end.

(* std::round: half away from zero *)
Definition q_round (q : Q) : Z :=
  let a := Qnum q in let b := Z.pos (Qden q) in
  if a >=? 0 then (2 * a + b) / (2 * b) else - ((2 * (- a) + b) / (2 * b)).

Definition add_at (r : Z * Z * Z * Z) (i : Z) (v : Z) : Z * Z * Z * Z :=
  let '(a,b,c,d) := r in
  match i with 0 => (a+v,b,c,d) | 1 => (a,b+v,c,d) | 2 => (a,b,c+v,d) | _ => (a,b,c,d+v) end.

(* one iteration of the while loop. Returns None on failure,
   Some (rest, r, num=0, notation) otherwise. The loop ends when *skip_space(c) = 0. *)
(* the part of one iteration after an optional sign has been consumed *)
Definition part_body (c : str) (num : Z) (r : Z*Z*Z*Z) (notation : Z)
  : option (str * (Z*Z*Z*Z) * Z) :=
  if num =? 0 then None else
  if is_digit (cur c) || (cur c =? 46) then
    let '(n, e1) := strtol10 c in
    (* decimal part *)
    let '(num1, fract, e2, okf) :=
      if cur e1 =? 46 then
        let '(fr, e) := frac_digits (adv e1) (inject_Z n) 1 in
        let prod := Qmult fr (inject_Z num) in
        let rounded := q_round prod in
        let diff := Qabs (Qminus (inject_Z rounded) prod) in
        (rounded, fr, e, negb (Qle_bool diff (1 # 20) ) )
      else (num * n, 0%Q, e1, false) in
    if okf then None else
    let '(den, e3) := if cur e2 =? 47 then strtol10 (adv e2) else (1, e2) in
    let res :=
      if cur e3 =? 42 then
        let c' := skip_space (adv e3) in
        match interpret_letter (cur c') notation with
        | None => None
        | Some (ri, nt) => Some (adv c', ri, nt)
        end
      else Some (e3, 3, notation) in
    match res with
    | None => None
    | Some (c2, ri, nt) =>
      if den =? 1 then Some (c2, add_at r ri num1, nt)
      else if (den <=? 0) || negb (crem DEN den =? 0) || negb (Qeq_bool fract 0) then None
      else Some (c2, add_at r ri (cdiv num1 den), nt)
    end
  else
    match interpret_letter (cur c) notation with
    | None => None
    | Some (ri, nt) =>
      let c1 := skip_space (adv c) in
      let '(den, c2) := if cur c1 =? 47 then strtol10 (adv c1) else (1, c1) in
      if den =? 1 then Some (c2, add_at r ri num, nt)
      else if (den <=? 0) || negb (crem DEN den =? 0) then None
      else Some (c2, add_at r ri (cdiv num den), nt)
    end.

(* the two range tests added by the repair of the signed overflow (num *= n, r[r_idx] += num): a number above 10^6 in
   absolute value and a component leaving [-10^8, 10^8] are refused.  Every component is tested when it is updated,
   starting from 0, so testing all four after each term gives the same verdict. *)
Definition num_in_range (c : str) : bool :=
  if is_digit (cur c) || (cur c =? 46) then let '(n, _) := strtol10 c in (n <=? 1000000) && (-1000000 <=? n) else true.
Definition comp_ok (x : Z) : bool := (x <=? 100000000) && (-100000000 <=? x).
Definition vec_in_range (r : Z*Z*Z*Z) : bool :=
  let '(a,b,c,d) := r in comp_ok a && comp_ok b && comp_ok c && comp_ok d.
Definition part_body_checked (c : str) (num : Z) (r : Z*Z*Z*Z) (notation : Z) : option (str * (Z*Z*Z*Z) * Z) :=
  if negb (num_in_range c) then None else
  match part_body c num r notation with
  | Some (c2, r2, nt2) => if vec_in_range r2 then Some (c2, r2, nt2) else None
  | None => None
  end.

Definition part_step (c0 : str) (num0 : Z) (r : Z*Z*Z*Z) (notation : Z)
  : option (str * (Z*Z*Z*Z) * Z) :=
  let '(num, c) := if (cur c0 =? 43) || (cur c0 =? 45)
                   then ((if cur c0 =? 43 then DEN else - DEN), skip_space (adv c0))
                   else (num0, c0) in
  part_body_checked c num r notation.
(* the same step without the two range tests (the pinned snapshot) *)
Definition part_step_raw (c0 : str) (num0 : Z) (r : Z*Z*Z*Z) (notation : Z)
  : option (str * (Z*Z*Z*Z) * Z) :=
  let '(num, c) := if (cur c0 =? 43) || (cur c0 =? 45)
                   then ((if cur c0 =? 43 then DEN else - DEN), skip_space (adv c0))
                   else (num0, c0) in
  part_body c num r notation.
Lemma part_body_checked_raw : forall c num r nt x, part_body_checked c num r nt = Some x -> part_body c num r nt = Some x.
Proof.
  intros c num r nt x H. unfold part_body_checked in H. destruct (negb (num_in_range c)); [discriminate|].
  destruct (part_body c num r nt) as [[[c2 r2] nt2]|]; [|discriminate]. destruct (vec_in_range r2); [exact H|discriminate].
Qed.
Lemma part_step_raw_of : forall c num r nt x, part_step c num r nt = Some x -> part_step_raw c num r nt = Some x.
Proof.
  intros c num r nt x H. unfold part_step in H. unfold part_step_raw.
  destruct ((cur c =? 43) || (cur c =? 45)); apply part_body_checked_raw; exact H.
Qed.

Inductive res (A : Type) := Ok (a : A) | Fail | OutOfFuel.
Arguments Ok {A} a. Arguments Fail {A}. Arguments OutOfFuel {A}.

Fixpoint part_loop (fuel : nat) (c : str) (num : Z) (r : Z*Z*Z*Z) (notation : Z)
  : res ((Z*Z*Z*Z) * Z) :=
  match fuel with
  | O => OutOfFuel
  | S f =>
    let c' := skip_space c in
    if cur c' =? 0 then (if num =? 0 then Ok (r, notation) else Fail)
    else match part_step c' num r notation with
         | None => Fail
         | Some (c2, r2, nt) => part_loop f c2 0 r2 nt
         end
  end.

(* parse_triplet_part(s, notation, nullptr). An empty part leaves num = DEN -> "trailing sign". *)
Definition parse_triplet_part (s : str) (notation : Z) : res ((Z*Z*Z*Z) * Z) :=
  part_loop (S (length s)) s DEN (0,0,0,0) notation.

Definition count_occ_z (c : Z) (s : str) : nat := length (filter (Z.eqb c) s).

(* std::string::substr semantics come from split at the first two commas *)
Definition parse_triplet (s : str) (notation0 : Z) : res op :=
  if negb (Nat.eqb (count_occ_z 44 s) 2) then Fail else
  let nt0 := Z.land (Z.lor notation0 32) (-4) in
  if negb ((nt0 =? 120) || (nt0 =? 104) || (nt0 =? 96) || (nt0 =? 32)) then Fail else
  match split_on 44 s [] with
  | [pa; pb; pc] =>
    match parse_triplet_part pa nt0 with
    | Ok ((a0,a1,a2,a3), n1) =>
      match parse_triplet_part pb n1 with
      | Ok ((b0,b1,b2,b3), n2) =>
        match parse_triplet_part pc n2 with
        | Ok ((c0,c1,c2,c3), n3) =>
          let rt := ((a0,a1,a2),(b0,b1,b2),(c0,c1,c2)) in
          let tr := (a3,b3,c3) in
          if n3 =? 104 then
            (if v3_eqb tr (0,0,0) then Ok (mkOp (transpose rt) tr n3) else Fail)
          else Ok (mkOp rt tr n3)
        | Fail => Fail | OutOfFuel => OutOfFuel
        end
      | Fail => Fail | OutOfFuel => OutOfFuel
      end
    | Fail => Fail | OutOfFuel => OutOfFuel
    end
  | _ => Fail
  end.

(* ---- printer ---- *)

Definition frac_step2 (p : Z * Z) : Z * Z :=
  let '(w, d) := p in if crem w 2 =? 0 then (cdiv w 2, d) else (w, d * 2).
Definition get_op_fraction (w : Z) : Z * Z :=
  let '(w3, d3) := frac_step2 (frac_step2 (frac_step2 (w, 1))) in
  if crem w3 3 =? 0 then (cdiv w3 3, d3) else (w3, d3 * 3).

Definition append_sign_of (s : str) (n : Z) : str :=
  if n <? 0 then s ++ [45] else match s with [] => s | _ => s ++ [43] end.

Definition append_fraction (s : str) (f : Z * Z) : str :=
  let '(n, d) := f in
  if d =? 1 then s ++ print_int n else s ++ print_int n ++ [47] ++ print_int d.

(* letters = "xyz hkl abc XYZ HKL ABC" *)
Definition letters : str :=
  [120;121;122;32;104;107;108;32;97;98;99;32;88;89;90;32;72;75;76;32;65;66;67].
Definition letter_at (style : Z) (i : nat) : Z :=
  let o1 : nat := match Z.land (Z.lor style 32) (-4) with 104 => 4%nat | 96 => 8%nat | _ => 0%nat end in
  let o2 : nat := if Z.land style 32 =? 0 then 12%nat else 0%nat in
  nth (Nat.add (Nat.add o1 o2) i) letters 0.

Definition make_triplet_part (xyz : v3) (w : Z) (style : Z) : str :=
  let '(x,y,z) := xyz in
  let one (s : str) (i : nat) (v : Z) : str :=
    if v =? 0 then s else
    let s1 := append_sign_of s v in
    let a := Z.abs v in
    if a =? DEN then s1 ++ [letter_at style i]
    else let f := get_op_fraction a in
         if fst f =? 1 then s1 ++ [letter_at style i] ++ [47] ++ print_int (snd f)
         else append_fraction s1 f ++ [42] ++ [letter_at style i] in
  let s3 := one (one (one [] 0%nat x) 1%nat y) 2%nat z in
  if w =? 0 then s3
  else append_fraction (append_sign_of s3 w) (get_op_fraction (Z.abs w)).

(* Op::triplet(style); None = fail *)
Definition triplet (a : op) (style0 : Z) : option str :=
  let style := if style0 =? 32 then (if Z.land (nota a) (-33) =? 0 then 120 else nota a) else style0 in
  let lower := Z.land (Z.lor style 32) (-4) in
  if (lower =? 104) && negb (is_hkl a) then None else
  if negb (lower =? 104) && is_hkl a then None else
  if negb ((lower =? 120) || (lower =? 104) || (lower =? 96)) then None else
  (* a reciprocal-space Op stores the transposed matrix *)
  let '(r0,r1,r2) := if is_hkl a then transpose (rot a) else rot a in
  let '(t0,t1,t2) := tran a in
  Some (make_triplet_part r0 t0 style ++ [44] ++
        make_triplet_part r1 t1 style ++ [44] ++
        make_triplet_part r2 t2 style).
