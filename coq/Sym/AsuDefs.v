(* Executable definitions for the reciprocal-space ASU proofs (property C05). *)
From GV Require Export Sym.SgCheck.
Local Open Scope Z_scope.

(* row vector times matrix: the action of a rotation part on Miller indices *)
Definition vmul (h : v3) (m : m33) : v3 := (dot (col m 0) h, dot (col m 1) h, dot (col m 2) h).
Definition mmul (a b : m33) : m33 := mat_mul_raw a b.
Definition in_ref (idx : Z) (h : v3) : bool := let '(a,b,c) := h in is_in_ref idx a b c.

Definition unit_rot (r : m33) : m33 := map_m33 (fun x => Z.quot x 24) r.
Definition scale_m (c : Z) (r : m33) : m33 := map_m33 (fun x => c * x) r.
Fixpoint mem_m (m : m33) (l : list m33) : bool :=
  match l with [] => false | x :: t => m33_eqb m x || mem_m m t end.
Definition dedup_m (l : list m33) : list m33 :=
  fold_left (fun acc m => if mem_m m acc then acc else acc ++ [m]) l [].
(* rotation parts as integer matrices, closed under Friedel inversion *)
Definition laue_mats (g : gops) : list m33 :=
  dedup_m (flat_map (fun o => [unit_rot (rot o); unit_rot (negated_rot (rot o))]) (sym_ops g)).
Definition m_ltb (a b : m33) : bool :=
  lex_ltb (op_key (mkOp a (0,0,0) 0)) (op_key (mkOp b (0,0,0) 0)).
Definition sorted_mats (l : list m33) : list m33 := sort_by m_ltb l.

Definition row_asu_idx (r : sgrow) : Z := znth ccp4_hkl_asu (sg_number r - 1).
Definition row_case (r : sgrow) : list m33 * Z :=
  match operations r with
  | HOk g => (sorted_mats (laue_mats g), row_asu_idx r)
  | _ => ([], -1)
  end.
Definition case_eqb (a b : list m33 * Z) : bool :=
  list_eqb m33_eqb (fst a) (fst b) && (snd a =? snd b).
(* the distinct (Laue matrix group, ASU index) pairs of the 230 reference settings *)
Definition ref_cases : list (list m33 * Z) :=
  fold_left (fun acc r => if row_is_ref r
                          then let c := row_case r in if existsb (case_eqb c) acc then acc else acc ++ [c]
                          else acc) sg_table [].

(* the ReciprocalAsu object gemmi builds for a row *)
Definition row_basis_rot (r : sgrow) : m33 :=
  match row_basisop r with Ok b => rot b | _ => id_rot end.
Definition row_asu (r : sgrow) (tnt : bool) : rasu :=
  make_asu (row_asu_idx r) (row_is_ref r) (row_basis_rot r) tnt.

(* effective (24-scaled) change-of-basis rotation applied before the reference conditions *)
Definition eff_rot (r : sgrow) (tnt : bool) : m33 :=
  if asu_is_ref (row_asu r tnt) then id_rot else asu_rot (row_asu r tnt).

(* per-row link to a proven reference case:
   every rotation part R of the row satisfies R * C = C * R' for some R' in the case's list L,
   every R' in L is reached, C is invertible, and the case (L, idx) is one of the proven ones *)
Definition row_link_ok_b (cases : list (list m33 * Z)) (r : sgrow) (tnt : bool) : bool :=
  match operations r, reference_row (sg_number r) with
  | HOk g, Some rr =>
    let L := fst (row_case rr) in
    let idx := asu_idx (row_asu r tnt) in
    let C := eff_rot r tnt in
    let mats := flat_map (fun o => [unit_rot (rot o); unit_rot (negated_rot (rot o))]) (sym_ops g) in
    existsb (case_eqb (L, idx)) cases &&
    negb (det_rot C =? 0) &&
    forallb (fun o => m33_eqb (scale_m 24 (unit_rot (rot o))) (rot o)) (sym_ops g) &&
    forallb (fun R => existsb (fun R' => m33_eqb (mmul R C) (mmul C R')) L) mats &&
    forallb (fun R' => existsb (fun R => m33_eqb (mmul R C) (mmul C R')) mats) L
  | _, _ => false
  end.
