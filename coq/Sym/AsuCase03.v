(* Reference case 3 of the reciprocal-space ASU proofs: one Laue group (integer matrices computed from the
   regenerated table) with its CCP4 index and its TNT index (+10). Unbounded in hkl, by lia. *)
From Coq Require Import Lia ZifyBool.
From GV Require Import Sym.AsuDefs Sym.AsuProofs.
Local Open Scope Z_scope.

Definition L : list m33 := Eval vm_compute in case_L 3.
Definition idx : Z := Eval vm_compute in case_idx 3.
Lemma L_is_case : case_L 3 = L. Proof. vm_compute. reflexivity. Qed.
Lemma idx_is_case : case_idx 3 = idx. Proof. vm_compute. reflexivity. Qed.

Lemma closed : closed_m L = true. Proof. vm_compute. reflexivity. Qed.

Lemma uniq_ccp4 : uniq1 L idx.
Proof. unfold uniq1, L, idx. solve_uniq1. Qed.
Lemma uniq_tnt : uniq1 L (idx + 10).
Proof. unfold uniq1, L, idx. cbn [Z.add Pos.add Pos.succ]. solve_uniq1. Qed.

Lemma exists_ccp4 : exists1 L idx.
Proof.
  unfold exists1, idx. intros [[h k] l].
  all: split3 (h). all: split3 (k). all: split3 (l).
  all: let LL := eval unfold L in L in try_witness LL.
Qed.
Lemma exists_tnt : exists1 L (idx + 10).
Proof.
  unfold exists1, idx. cbn [Z.add Pos.add Pos.succ]. intros [[h k] l].
  all: split3 (h). all: split3 (k). all: split3 (l).
  all: let LL := eval unfold L in L in try_witness LL.
Qed.
