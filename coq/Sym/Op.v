(* Model of gemmi::Op (include/gemmi/symmetry.hpp): executable definitions only. *)
From Coq Require Export ZArith List Bool.
Export ListNotations.
Local Open Scope Z_scope.

Definition DEN : Z := 24.

Definition v3 : Type := (Z * Z * Z)%type.
Definition m33 : Type := (v3 * v3 * v3)%type.

(* notation is kept as the C char code: 32 = ' ', 120 = 'x', 104 = 'h', 96 = 'a'&~3 *)
Record op : Type := mkOp { rot : m33; tran : v3; nota : Z }.

Definition v3_eqb (a b : v3) : bool :=
  let '(a0,a1,a2) := a in let '(b0,b1,b2) := b in
  (a0 =? b0) && (a1 =? b1) && (a2 =? b2).
Definition m33_eqb (a b : m33) : bool :=
  let '(a0,a1,a2) := a in let '(b0,b1,b2) := b in
  v3_eqb a0 b0 && v3_eqb a1 b1 && v3_eqb a2 b2.
(* operator== ignores notation *)
Definition op_eqb (a b : op) : bool := m33_eqb (rot a) (rot b) && v3_eqb (tran a) (tran b).

Definition id_rot : m33 := ((DEN,0,0),(0,DEN,0),(0,0,DEN)).
Definition identity : op := mkOp id_rot (0,0,0) 32.
Definition inversion_rot : m33 := ((-DEN,0,0),(0,-DEN,0),(0,0,-DEN)).

Definition is_hkl (a : op) : bool := nota a =? 104.

Definition neg_v3 (a : v3) : v3 := let '(x,y,z) := a in (-x,-y,-z).
Definition negated_rot (r : m33) : m33 := let '(a,b,c) := r in (neg_v3 a, neg_v3 b, neg_v3 c).
Definition transpose (r : m33) : m33 :=
  let '((a,b,c),(d,e,f),(g,h,i)) := r in ((a,d,g),(b,e,h),(c,f,i)).

(* C++ truncating division and remainder *)
Definition cdiv (a b : Z) : Z := Z.quot a b.
Definition crem (a b : Z) : Z := Z.rem a b.

Definition wrap1 (t : Z) : Z :=
  if t >=? DEN then crem t DEN
  else if t <? 0 then crem (t + 1) DEN + DEN - 1
  else t.
Definition wrapped_tran (a : op) : v3 := let '(x,y,z) := tran a in (wrap1 x, wrap1 y, wrap1 z).
Definition wrap (a : op) : op := mkOp (rot a) (wrapped_tran a) (nota a).
Definition add_v3 (a b : v3) : v3 :=
  let '(a0,a1,a2) := a in let '(b0,b1,b2) := b in (a0+b0, a1+b1, a2+b2).
Definition translated (a : op) (t : v3) : op := mkOp (rot a) (add_v3 (tran a) t) (nota a).
Definition add_centering (a : op) (t : v3) : op := wrap (translated a t).

Definition det_rot (r : m33) : Z :=
  let '((a,b,c),(d,e,f),(g,h,i)) := r in
  a * (e * i - f * h) - b * (d * i - f * g) + c * (d * h - e * g).

Definition rot_type (r : m33) : Z :=
  let det := det_rot r in
  let '((a,_,_),(_,e,_),(_,_,i)) := r in
  let tr_den := a + e + i in
  let tr := cdiv tr_den DEN in
  let table (n : Z) : Z :=
    match n with 0 => 0 | 1 => 0 | 2 => 2 | 3 => 3 | 4 => 4 | 5 => 6 | 6 => 1 | _ => 0 end in
  if (Z.abs det =? DEN * DEN * DEN) && (tr * DEN =? tr_den) && (Z.abs tr <=? 3)
  then (if det >? 0 then table (3 + tr) else - table (3 - tr))
  else 0.

Definition dot (a b : v3) : Z :=
  let '(a0,a1,a2) := a in let '(b0,b1,b2) := b in a0*b0 + a1*b1 + a2*b2.
Definition col (r : m33) (j : nat) : v3 :=
  let '((a,b,c),(d,e,f),(g,h,i)) := r in
  match j with O => (a,d,g) | S O => (b,e,h) | _ => (c,f,i) end.

(* raw (undivided) products *)
Definition mat_mul_raw (a b : m33) : m33 :=
  let '(a0,a1,a2) := a in
  let c0 := col b 0 in let c1 := col b 1 in let c2 := col b 2 in
  ((dot a0 c0, dot a0 c1, dot a0 c2),
   (dot a1 c0, dot a1 c1, dot a1 c2),
   (dot a2 c0, dot a2 c1, dot a2 c2)).
Definition mat_vec_raw (a : m33) (v : v3) : v3 :=
  let '(a0,a1,a2) := a in (dot a0 v, dot a1 v, dot a2 v).
Definition map_v3 (f : Z -> Z) (a : v3) : v3 := let '(x,y,z) := a in (f x, f y, f z).
Definition map_m33 (f : Z -> Z) (r : m33) : m33 :=
  let '(a,b,c) := r in (map_v3 f a, map_v3 f b, map_v3 f c).

(* Op::combine. The notation mismatch failure is represented by None. *)
Definition combine (a b : op) : option op :=
  if Bool.eqb (is_hkl a) (is_hkl b) then
    let r := map_m33 (fun x => cdiv x DEN) (mat_mul_raw (rot a) (rot b)) in
    let t := map_v3 (fun x => cdiv x DEN)
               (add_v3 (map_v3 (fun x => x * DEN) (tran a)) (mat_vec_raw (rot a) (tran b))) in
    Some (mkOp r t (nota a))
  else None.

(* total version used where notations are known equal (all group code) *)
Definition combine' (a b : op) : op :=
  let r := map_m33 (fun x => cdiv x DEN) (mat_mul_raw (rot a) (rot b)) in
  let t := map_v3 (fun x => cdiv x DEN)
             (add_v3 (map_v3 (fun x => x * DEN) (tran a)) (mat_vec_raw (rot a) (tran b))) in
  mkOp r t (nota a).

(* operator* *)
Definition op_mul (a b : op) : op := wrap (combine' a b).

(* operator* as callable from C++: combine may throw *)
Definition op_mul_checked (a b : op) : option op :=
  match combine a b with Some c => Some (wrap c) | None => None end.

(* Op::inverse; None when det = 0 (the code throws) *)
Definition inverse (a : op) : option op :=
  let detr := det_rot (rot a) in
  if detr =? 0 then None else
  let d2 := DEN * DEN in
  let '((r00,r01,r02),(r10,r11,r12),(r20,r21,r22)) := rot a in
  let '(t0,t1,t2) := tran a in
  let i00 := cdiv (d2 * (r11 * r22 - r21 * r12)) detr in
  let i01 := cdiv (d2 * (r02 * r21 - r01 * r22)) detr in
  let i02 := cdiv (d2 * (r01 * r12 - r02 * r11)) detr in
  let i10 := cdiv (d2 * (r12 * r20 - r10 * r22)) detr in
  let i11 := cdiv (d2 * (r00 * r22 - r02 * r20)) detr in
  let i12 := cdiv (d2 * (r10 * r02 - r00 * r12)) detr in
  let i20 := cdiv (d2 * (r10 * r21 - r20 * r11)) detr in
  let i21 := cdiv (d2 * (r20 * r01 - r00 * r21)) detr in
  let i22 := cdiv (d2 * (r00 * r11 - r10 * r01)) detr in
  let ti (a b c : Z) := cdiv (- t0 * a - t1 * b - t2 * c) DEN in
  Some (mkOp ((i00,i01,i02),(i10,i11,i12),(i20,i21,i22))
             (ti i00 i01 i02, ti i10 i11 i12, ti i20 i21 i22) (nota a)).

(* Miller index actions *)
Definition apply_to_hkl_nodiv (a : op) (h : v3) : v3 :=
  (dot (col (rot a) 0) h, dot (col (rot a) 1) h, dot (col (rot a) 2) h).
Definition divide_hkl (h : v3) : v3 := map_v3 (fun x => cdiv x DEN) h.
Definition apply_to_hkl (a : op) (h : v3) : v3 := divide_hkl (apply_to_hkl_nodiv a h).
(* phase shift in units of -2*pi/DEN *)
Definition phase_shift_num (a : op) (h : v3) : Z := dot h (tran a).

(* lexicographic order used by std::sort (std::tie(rot, tran)) *)
Definition v3_list (a : v3) : list Z := let '(x,y,z) := a in [x;y;z].
Definition op_key (a : op) : list Z :=
  let '(r0,r1,r2) := rot a in v3_list r0 ++ v3_list r1 ++ v3_list r2 ++ v3_list (tran a).
Fixpoint lex_ltb (a b : list Z) : bool :=
  match a, b with
  | x :: a', y :: b' => if x <? y then true else if y <? x then false else lex_ltb a' b'
  | [], _ :: _ => true
  | _, _ => false
  end.
Definition op_ltb (a b : op) : bool := lex_ltb (op_key a) (op_key b).

Fixpoint insert_sorted {A} (lt : A -> A -> bool) (x : A) (l : list A) : list A :=
  match l with
  | [] => [x]
  | y :: l' => if lt x y then x :: l else y :: insert_sorted lt x l'
  end.
Definition sort_by {A} (lt : A -> A -> bool) (l : list A) : list A :=
  fold_right (insert_sorted lt) [] l.
