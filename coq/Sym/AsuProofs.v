(* Proofs for property C05: exactly one member of every reflection orbit lies in the reciprocal ASU.
   Unbounded in hkl: per reference case by lia, lifted to every table row by a kernel-evaluated link. *)
From Coq Require Import Lia ZifyBool.
From GV Require Import Sym.AsuDefs.
Local Open Scope Z_scope.

(* ---------- generic linear algebra on 3-vectors ---------- *)
Ltac destruct_all_pairs :=
  repeat match goal with
         | p : ?T |- _ => let T' := eval hnf in T in match T' with prod _ _ => destruct p end
         end.

Lemma vmul_assoc : forall h a b, vmul (vmul h a) b = vmul h (mmul a b).
Proof. intros. destruct_all_pairs. unfold vmul, mmul. cbn -[Z.mul Z.add]. f_equal; [f_equal|]; ring. Qed.

Lemma vmul_scale : forall c h m, vmul (map_v3 (fun x => c * x) h) m = map_v3 (fun x => c * x) (vmul h m).
Proof. intros. destruct_all_pairs. unfold vmul. cbn -[Z.mul Z.add]. f_equal; [f_equal|]; ring. Qed.

Lemma vmul_scale_m : forall c h m, vmul h (scale_m c m) = map_v3 (fun x => c * x) (vmul h m).
Proof. intros. destruct_all_pairs. unfold vmul, scale_m. cbn -[Z.mul Z.add]. f_equal; [f_equal|]; ring. Qed.

Lemma m33_eqb_eq : forall a b, m33_eqb a b = true -> a = b.
Proof.
  intros a b H. destruct_all_pairs. unfold m33_eqb, v3_eqb in H.
  repeat match goal with
         | K : _ && _ = true |- _ => apply andb_true_iff in K; destruct K
         | K : (_ =? _) = true |- _ => apply Z.eqb_eq in K; subst
         end.
  reflexivity.
Qed.

Lemma solve3 : forall a b c d e f g h i x0 x1 x2,
  a * (e * i - f * h) - b * (d * i - f * g) + c * (d * h - e * g) <> 0 ->
  a * x0 + d * x1 + g * x2 = 0 -> b * x0 + e * x1 + h * x2 = 0 -> c * x0 + f * x1 + i * x2 = 0 ->
  x0 = 0 /\ x1 = 0 /\ x2 = 0.
Proof.
  intros a b c d e f g h i x0 x1 x2 Hd H0 H1 H2.
  set (D := a * (e * i - f * h) - b * (d * i - f * g) + c * (d * h - e * g)) in *.
  assert (E0 : D * x0 = 0).
  { replace (D * x0) with ((e * i - f * h) * (a * x0 + d * x1 + g * x2)
                           - (d * i - f * g) * (b * x0 + e * x1 + h * x2)
                           + (d * h - e * g) * (c * x0 + f * x1 + i * x2)) by (unfold D; ring).
    rewrite H0, H1, H2. ring. }
  assert (E1 : D * x1 = 0).
  { replace (D * x1) with (- (b * i - c * h) * (a * x0 + d * x1 + g * x2)
                           + (a * i - c * g) * (b * x0 + e * x1 + h * x2)
                           - (a * h - b * g) * (c * x0 + f * x1 + i * x2)) by (unfold D; ring).
    rewrite H0, H1, H2. ring. }
  assert (E2 : D * x2 = 0).
  { replace (D * x2) with ((b * f - c * e) * (a * x0 + d * x1 + g * x2)
                           - (a * f - c * d) * (b * x0 + e * x1 + h * x2)
                           + (a * e - b * d) * (c * x0 + f * x1 + i * x2)) by (unfold D; ring).
    rewrite H0, H1, H2. ring. }
  apply Z.mul_eq_0 in E0, E1, E2. intuition.
Qed.

Lemma vmul_inj : forall c v w, det_rot c <> 0 -> vmul v c = vmul w c -> v = w.
Proof.
  intros c v w Hd H.
  destruct c as [[[[a b] c0] [[d e] f]] [[g h'] i]].
  destruct v as [[x0 x1] x2]. destruct w as [[y0 y1] y2].
  unfold vmul in H. cbn -[Z.mul Z.add] in H. unfold det_rot in Hd.
  inversion H as [[H0 H1 H2]]; clear H.
  destruct (solve3 a b c0 d e f g h' i (x0 - y0) (x1 - y1) (x2 - y2)) as [A [B C]];
    try lia; try (exact Hd).
  f_equal; [f_equal|]; lia.
Qed.

(* ---------- homogeneity of the reference conditions under scaling by 24 ---------- *)
Lemma in_ref_scale24 : forall idx h, in_ref idx (map_v3 (fun x => 24 * x) h) = in_ref idx h.
Proof.
  intros idx [[a b] c]. unfold in_ref, map_v3, is_in_ref.
  repeat match goal with |- context [match ?i with _ => _ end] => destruct i; try reflexivity end;
  lia.
Qed.

(* ---------- per-case statements ---------- *)
Definition uniq1 (L : list m33) (idx : Z) : Prop :=
  forall m, In m L -> forall h, in_ref idx h = true -> in_ref idx (vmul h m) = true -> vmul h m = h.
Definition exists1 (L : list m33) (idx : Z) : Prop :=
  forall h, exists m, In m L /\ in_ref idx (vmul h m) = true.
Definition closed_m (L : list m33) : bool :=
  forallb (fun a => forallb (fun b => existsb (fun m => m33_eqb (mmul a m) b) L) L) L.

Lemma uniq2_of_uniq1 : forall L idx, closed_m L = true -> uniq1 L idx ->
  forall a b h, In a L -> In b L -> in_ref idx (vmul h a) = true -> in_ref idx (vmul h b) = true ->
  vmul h a = vmul h b.
Proof.
  intros L idx Hc Hu a b h Ha Hb Ia Ib. unfold closed_m in Hc.
  rewrite forallb_forall in Hc. specialize (Hc a Ha). rewrite forallb_forall in Hc. specialize (Hc b Hb).
  apply existsb_exists in Hc. destruct Hc as [m [Hm E]]. apply m33_eqb_eq in E.
  rewrite <- E in *. rewrite <- vmul_assoc in *. symmetry. apply (Hu m Hm); assumption.
Qed.

(* tactics *)
Ltac solve_uniq1 :=
  let m := fresh "m" in let Hm := fresh "Hm" in let h := fresh "h" in
  intros m Hm h; destruct h as [[?a ?b] ?c];
  cbn [In] in Hm;
  repeat (destruct Hm as [<-|Hm]; [unfold in_ref, vmul, is_in_ref; cbn -[Z.mul Z.add Z.geb Z.gtb Z.eqb];
                                   intros; f_equal; [f_equal|]; lia|]);
  destruct Hm.

Ltac in_list := cbn [In]; repeat (first [left; reflexivity | right]).
Ltac try_witness L :=
  lazymatch L with
  | ?m :: ?T => first [ exists m; split; [in_list | unfold in_ref, vmul, is_in_ref;
                                           cbn -[Z.mul Z.add Z.geb Z.gtb Z.eqb Z.abs]; lia ]
                      | try_witness T ]
  end.
Ltac split_on e := destruct (Z.ltb_spec e 0).

Ltac split3 e :=
  destruct (Z.ltb_spec e 0) as [?|?]; [ | destruct (Z.ltb_spec 0 e) as [?|?] ]; try (exfalso; lia).

Definition case_L (i : nat) : list m33 := fst (nth i ref_cases ([], -1)).
Definition case_idx (i : nat) : Z := snd (nth i ref_cases ([], -1)).
