(* strtol10 inverts print_int on positive numbers: the number-level lemma behind the triplet round trip. *)
From Coq Require Import Lia ZifyBool.
From GV Require Import Base.Str.
Local Open Scope Z_scope.
Ltac Zify.zify_post_hook ::= Z.to_euclidean_division_equations.

Definition dval (a : Z) (l : str) : Z := fold_left (fun a c => a * 10 + (c - 48)) l a.
Definition all_digits (l : str) : Prop := Forall (fun c => is_digit c = true) l.

Lemma digits_acc_app : forall l1 l2 a, all_digits l1 -> is_digit (cur l2) = false ->
  digits_acc a (l1 ++ l2) = (dval a l1, l2).
Proof.
  induction l1 as [|c t IH]; intros l2 a Hd Hn; cbn.
  - destruct l2 as [|x l2]; cbn in *; [reflexivity|]. rewrite Hn. reflexivity.
  - inversion Hd as [|? ? Hc Ht]; subst. rewrite Hc. apply IH; assumption.
Qed.

Lemma pos_digits_acc : forall f n acc, pos_digits f n acc = pos_digits f n [] ++ acc.
Proof.
  induction f as [|f IH]; intros n acc; cbn [pos_digits app]; [reflexivity|].
  destruct (n <? 10); [reflexivity|].
  rewrite (IH (n / 10) ((48 + n mod 10) :: acc)), (IH (n / 10) [48 + n mod 10]).
  rewrite <- app_assoc. reflexivity.
Qed.

Lemma dval_app : forall l1 l2 a, dval a (l1 ++ l2) = dval (dval a l1) l2.
Proof. intros. unfold dval. apply fold_left_app. Qed.

Lemma pos_digits_spec : forall f n, 0 <= n < 2 ^ Z.of_nat f -> (0 < f)%nat ->
  dval 0 (pos_digits f n []) = n /\ all_digits (pos_digits f n []) /\ pos_digits f n [] <> [].
Proof.
  induction f as [|f IH]; intros n Hn Hf; [lia|].
  cbn [pos_digits]. destruct (n <? 10) eqn:E.
  - repeat split; [unfold dval; cbn [fold_left]; lia| |discriminate].
    constructor; [|constructor]. unfold is_digit. lia.
  - rewrite pos_digits_acc.
    assert (Hq : 0 <= n / 10 < 2 ^ Z.of_nat f).
    { rewrite Nat2Z.inj_succ, Z.pow_succ_r in Hn by lia. split; [lia|].
      assert (n / 10 <= n / 2) by (apply Z.div_le_compat_l; lia). lia. }
    assert (Hf' : (0 < f)%nat).
    { destruct f; [|lia]. cbn in Hn. lia. }
    destruct (IH (n / 10) Hq Hf') as [V [D NE]].
    repeat split.
    + rewrite dval_app, V. unfold dval. cbn [fold_left]. lia.
    + apply Forall_app. split; [exact D|]. constructor; [|constructor]. unfold is_digit. lia.
    + intros C. apply app_eq_nil in C. destruct C as [_ C]. discriminate.
Qed.

Lemma print_nat_spec : forall n, 0 < n ->
  dval 0 (print_nat n) = n /\ all_digits (print_nat n) /\ print_nat n <> [].
Proof.
  intros n Hn. unfold print_nat. apply pos_digits_spec; [|lia].
  split; [lia|]. rewrite Nat2Z.inj_succ, Z2Nat.id by (apply Z.log2_nonneg).
  apply Z.log2_spec. lia.
Qed.

Lemma print_int_pos : forall n, 0 < n -> print_int n = print_nat n.
Proof. intros n H. unfold print_int. destruct (n <? 0) eqn:E; [lia|reflexivity]. Qed.

Lemma cur_print_nat_digit : forall n rest, 0 < n -> is_digit (cur (print_nat n ++ rest)) = true.
Proof.
  intros n rest Hn. destruct (print_nat_spec n Hn) as [_ [D NE]].
  destruct (print_nat n) as [|c t]; [contradiction|]. inversion D; subst. cbn. assumption.
Qed.

(* the sign-split of strtol leaves a digit string alone *)
Definition ssplit (s1 : str) : bool * str :=
  match s1 with 45 :: t => (true, t) | 43 :: t => (false, t) | _ => (false, s1) end.
Lemma ssplit_digit : forall c t, is_digit c = true -> ssplit (c :: t) = (false, c :: t).
Proof.
  intros c t H. unfold is_digit in H. unfold ssplit.
  destruct c as [|p|p]; try reflexivity.
  do 7 (try (destruct p as [p|p|]; try reflexivity; try lia)).
Qed.
Lemma strtol10_unfold' : forall s,
  strtol10 s = let '(neg, s2) := ssplit (skip_while is_cspace s) in
               if is_digit (cur s2) then let '(v, rest) := digits_acc 0 s2 in ((if neg then - v else v), rest)
               else (0, s).
Proof. reflexivity. Qed.

Lemma strtol10_digits : forall n rest, 0 < n -> is_digit (cur rest) = false ->
  strtol10 (print_int n ++ rest) = (n, rest).
Proof.
  intros n rest Hn Hr. rewrite (print_int_pos n Hn).
  destruct (print_nat_spec n Hn) as [V [D NE]].
  rewrite strtol10_unfold'.
  destruct (print_nat n) as [|c t] eqn:E; [contradiction|].
  pose proof (proj1 (Forall_cons_iff _ _ _) D) as [Hc Ht].
  assert (Hs : is_cspace c = false).
  { unfold is_digit, is_cspace in *. lia. }
  cbn [app skip_while]. rewrite Hs. rewrite (ssplit_digit c (t ++ rest) Hc). cbn [cur]. rewrite Hc.
  change (c :: t ++ rest) with ((c :: t) ++ rest).
  rewrite (digits_acc_app (c :: t) rest 0 D Hr). rewrite V. reflexivity.
Qed.

Lemma cur_print_nat_digit_int : forall n rest, 0 < n -> is_digit (cur (print_int n ++ rest)) = true.
Proof. intros n rest Hn. rewrite (print_int_pos n Hn). apply cur_print_nat_digit. exact Hn. Qed.
