(* to_asu / to_asu_sign return the unique ASU member; absence, centricity, epsilon equal their
   definitions over the operation lists (property C05). *)
From Coq Require Import Lia ZifyBool.
From GV Require Import Sym.AsuDefs Sym.AsuProofs Sym.AsuLift.
Local Open Scope Z_scope.

(* the j-th operation (0-based) applied with sign: isym = 2j+1 for (+), 2j+2 for (-) *)
Definition member_of (ops : list op) (hkl : v3) (isym : Z) (m : v3) : Prop :=
  exists j o, nth_error ops j = Some o /\
    ((isym = 2 * Z.of_nat j + 1 /\ m = apply_to_hkl_nodiv o hkl) \/
     (isym = 2 * Z.of_nat j + 2 /\ m = neg_v3 (apply_to_hkl_nodiv o hkl))).

Lemma to_asu_loop_sound : forall a hkl ops base hk n,
  to_asu_loop a hkl ops base = Some (hk, n) ->
  exists m, member_of ops hkl (n - base) m /\ asu_is_in a m = true /\ hk = divide_hkl m.
Proof.
  intros a hkl ops. induction ops as [|o t IH]; intros base hk n H; [discriminate|].
  cbn [to_asu_loop] in H.
  destruct (asu_is_in a (apply_to_hkl_nodiv o hkl)) eqn:E1.
  - inversion H; subst. exists (apply_to_hkl_nodiv o hkl). split; [|split; [exact E1|reflexivity]].
    exists 0%nat, o. split; [reflexivity|]. left. split; [lia|reflexivity].
  - destruct (asu_is_in a (neg_v3 (apply_to_hkl_nodiv o hkl))) eqn:E2.
    + inversion H; subst. exists (neg_v3 (apply_to_hkl_nodiv o hkl)). split; [|split; [exact E2|reflexivity]].
      exists 0%nat, o. split; [reflexivity|]. right. split; [lia|reflexivity].
    + destruct (IH _ _ _ H) as [m [[j [o' [Hn Hc]]] [Hin Hd]]].
      exists m. split; [|split; assumption].
      exists (S j), o'. split; [exact Hn|].
      destruct Hc as [[Hi Hm]|[Hi Hm]]; [left|right]; (split; [lia|exact Hm]).
Qed.

Lemma to_asu_loop_total : forall a hkl ops base,
  (exists o, In o ops /\ (asu_is_in a (apply_to_hkl_nodiv o hkl) = true \/
                          asu_is_in a (neg_v3 (apply_to_hkl_nodiv o hkl)) = true)) ->
  to_asu_loop a hkl ops base <> None.
Proof.
  intros a hkl ops. induction ops as [|o t IH]; intros base [o' [Hin Hc]]; [destruct Hin|].
  cbn [to_asu_loop].
  destruct (asu_is_in a (apply_to_hkl_nodiv o hkl)) eqn:E1; [discriminate|].
  destruct (asu_is_in a (neg_v3 (apply_to_hkl_nodiv o hkl))) eqn:E2; [discriminate|].
  apply IH. destruct Hin as [->|Hin].
  - destruct Hc as [Hc|Hc]; congruence.
  - exists o'. split; assumption.
Qed.

Lemma orbit_In : forall g hkl m, In m (orbit g hkl) <->
  exists o, In o (sym_ops g) /\ (m = apply_to_hkl_nodiv o hkl \/ m = neg_v3 (apply_to_hkl_nodiv o hkl)).
Proof.
  intros g hkl m. unfold orbit. rewrite in_flat_map. split.
  - intros [o [Ho [<-|[<-|[]]]]]; exists o; auto.
  - intros [o [Ho [->| ->]]]; exists o; (split; [exact Ho|]); cbn; auto.
Qed.

(* to_asu never fails on a table row and returns the unique orbit member inside the ASU together
   with the index and sign of an operation that really produces it *)
Theorem table_to_asu : forall r tnt g, In r sg_table -> operations r = HOk g -> forall hkl,
  exists hk isym m,
    to_asu (row_asu r tnt) hkl g = Some (hk, isym) /\
    member_of (sym_ops g) hkl isym m /\ asu_is_in (row_asu r tnt) m = true /\ hk = divide_hkl m /\
    (forall m', In m' (orbit g hkl) -> asu_is_in (row_asu r tnt) m' = true -> m' = m).
Proof.
  intros r tnt g Hin Hop hkl.
  destruct (table_exactly_one r tnt g Hin Hop hkl) as [[m0 [Hm0 Hi0]] Huniq].
  unfold to_asu.
  destruct (to_asu_loop (row_asu r tnt) hkl (sym_ops g) 0) as [[hk n]|] eqn:E.
  - destruct (to_asu_loop_sound _ _ _ _ _ _ E) as [m [Hmem [Hi Hd]]].
    exists hk, n, m. rewrite Z.sub_0_r in Hmem. repeat split; try assumption.
    intros m' Hm' Hi'. apply Huniq; try assumption.
    destruct Hmem as [j [o [Hn Hc]]]. apply orbit_In. exists o. split; [eapply nth_error_In; exact Hn|].
    destruct Hc as [[_ ->]|[_ ->]]; auto.
  - exfalso. revert E. apply to_asu_loop_total.
    apply orbit_In in Hm0. destruct Hm0 as [o [Ho Hc]]. exists o. split; [exact Ho|].
    destruct Hc as [->| ->]; auto.
Qed.

(* ---- predicates equal their definitions ---- *)
Theorem centric_iff : forall g hkl,
  is_reflection_centric g hkl = true <->
  exists o, In o (sym_ops g) /\ apply_to_hkl_nodiv o hkl = scale_v3 (- DEN) hkl.
Proof.
  intros g hkl. unfold is_reflection_centric. rewrite existsb_exists. split.
  - intros [o [Ho E]]. exists o. split; [exact Ho|].
    destruct (apply_to_hkl_nodiv o hkl) as [[a b] c]. destruct (scale_v3 (- DEN) hkl) as [[a' b'] c'].
    unfold v3_eqb in E. repeat (apply andb_true_iff in E; destruct E as [E ?]).
    repeat match goal with K : (_ =? _) = true |- _ => apply Z.eqb_eq in K end. subst. reflexivity.
  - intros [o [Ho E]]. exists o. split; [exact Ho|]. rewrite E.
    destruct (scale_v3 (- DEN) hkl) as [[a b] c]. unfold v3_eqb. rewrite !Z.eqb_refl. reflexivity.
Qed.

Theorem epsilon_is_count : forall g hkl,
  epsilon_factor g hkl =
  Z.of_nat (length (filter (fun o => v3_eqb (apply_to_hkl_nodiv o hkl) (scale_v3 DEN hkl)) (sym_ops g)))
  * Z.of_nat (length (cen_ops g)).
Proof. reflexivity. Qed.

Lemma v3_eqb_true : forall a b, v3_eqb a b = true <-> a = b.
Proof.
  intros [[a b] c] [[a' b'] c']. unfold v3_eqb. split.
  - intros E. repeat (apply andb_true_iff in E; destruct E as [E ?]).
    repeat match goal with K : (_ =? _) = true |- _ => apply Z.eqb_eq in K end. subst. reflexivity.
  - intros E. inversion E. rewrite !Z.eqb_refl. reflexivity.
Qed.

(* systematically absent <-> some operation of the full group (rotation part x centring vector)
   maps hkl onto itself with a non-integral phase shift; needs identity first and zero vector first,
   which C04_group provides for every table row *)
Theorem absent_iff : forall g hkl srest crest,
  sym_ops g = identity :: srest -> cen_ops g = (0,0,0) :: crest ->
  (is_systematically_absent g hkl = true <->
   exists o c, In o (sym_ops g) /\ In c (cen_ops g) /\
     apply_to_hkl_nodiv o hkl = scale_v3 DEN hkl /\
     Z.rem (dot hkl (add_v3 (tran o) c)) DEN <> 0).
Proof.
  intros g hkl srest crest Hs Hc. unfold is_systematically_absent. rewrite Hs, Hc. cbn [tl].
  rewrite orb_true_iff, !existsb_exists. split.
  - intros [[c [Hin Hp]]|[o [Hin Ho]]].
    + exists identity, c. split; [left; reflexivity|]. split; [right; exact Hin|]. split.
      * destruct hkl as [[h k] l]. unfold identity, apply_to_hkl_nodiv, scale_v3, id_rot, DEN. cbn -[Z.mul Z.add].
        repeat match goal with |- (_, _) = (_, _) => f_equal end; ring.
      * unfold has_phase_shift in Hp. apply negb_true_iff in Hp. apply Z.eqb_neq in Hp.
        unfold crem in Hp. destruct c as [[c0 c1] c2]. cbn -[Z.mul Z.add Z.rem dot] in *.
        replace (add_v3 (tran identity) (c0, c1, c2)) with (c0, c1, c2) by reflexivity. exact Hp.
    + apply andb_true_iff in Ho. destruct Ho as [Hfix Hex]. apply existsb_exists in Hex.
      destruct Hex as [c [Hcin Hp]]. exists o, c. split; [right; exact Hin|]. split; [exact Hcin|].
      split; [apply v3_eqb_true; exact Hfix|].
      unfold has_phase_shift in Hp. apply negb_true_iff in Hp. apply Z.eqb_neq in Hp. exact Hp.
  - intros [o [c [Ho [Hcin [Hfix Hp]]]]].
    destruct Ho as [<-|Ho].
    + left. destruct Hcin as [<-|Hcin].
      * exfalso. apply Hp. destruct hkl as [[h k] l]. unfold identity, DEN. cbn -[Z.rem Z.mul Z.add].
        replace (h * (0 + 0) + k * (0 + 0) + l * (0 + 0)) with 0 by ring. reflexivity.
      * exists c. split; [exact Hcin|]. unfold has_phase_shift. apply negb_true_iff. apply Z.eqb_neq.
        unfold crem. destruct c as [[c0 c1] c2].
        replace (add_v3 (tran identity) (c0, c1, c2)) with (c0, c1, c2) in Hp by reflexivity. exact Hp.
    + right. exists o. split; [exact Ho|]. apply andb_true_iff. split; [apply v3_eqb_true; exact Hfix|].
      apply existsb_exists. exists c. split; [exact Hcin|].
      unfold has_phase_shift. apply negb_true_iff. apply Z.eqb_neq. exact Hp.
Qed.

Definition heads_ok_b (r : sgrow) : bool :=
  match operations r with
  | HOk g => match sym_ops g, cen_ops g with
             | s0 :: _, c0 :: _ => op_eqb s0 identity && (nota s0 =? nota identity) && v3_eqb c0 (0,0,0)
             | _, _ => false
             end
  | _ => false
  end.
Lemma heads_ok : forallb heads_ok_b sg_table = true.
Proof. vm_cast_no_check (@eq_refl bool true). Qed.

Lemma op_eqb_full : forall a b, op_eqb a b = true -> nota a = nota b -> a = b.
Proof.
  intros [ra ta na] [rb tb nb] H Hn. cbn in Hn. subst. unfold op_eqb in H. cbn [rot tran] in H.
  apply andb_true_iff in H. destruct H as [H1 H2]. apply m33_eqb_eq in H1. apply v3_eqb_true in H2.
  subst. reflexivity.
Qed.

Theorem table_absent_iff : forall r g hkl, In r sg_table -> operations r = HOk g ->
  (is_systematically_absent g hkl = true <->
   exists o c, In o (sym_ops g) /\ In c (cen_ops g) /\
     apply_to_hkl_nodiv o hkl = scale_v3 DEN hkl /\
     Z.rem (dot hkl (add_v3 (tran o) c)) DEN <> 0).
Proof.
  intros r g hkl Hin Hop.
  pose proof (proj1 (forallb_forall _ _) heads_ok r Hin) as H. unfold heads_ok_b in H. rewrite Hop in H.
  destruct (sym_ops g) as [|s0 srest] eqn:Es; [discriminate|].
  destruct (cen_ops g) as [|c0 crest] eqn:Ec; [discriminate|].
  apply andb_true_iff in H. destruct H as [H H3]. apply andb_true_iff in H. destruct H as [H1 H2].
  apply Z.eqb_eq in H2. apply (op_eqb_full _ _ H1) in H2. apply v3_eqb_true in H3. subst s0 c0.
  rewrite <- Es, <- Ec. apply (absent_iff g hkl srest crest Es Ec).
Qed.
