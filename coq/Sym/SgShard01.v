(* Shard 1 of the exhaustive table check (rows i with i mod 16 = 1); kernel-evaluated once at Qed. *)
From GV Require Import Sym.SgCheck Sym.SgShardDefs.
Lemma shard_ok : forallb row_all_ok_b (fchunk indexed_table 1) = true.
Proof. vm_cast_no_check (@eq_refl bool true). Qed.
