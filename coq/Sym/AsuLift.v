(* Lifting the per-case ASU lemmas to every row of the table, both conventions (property C05). *)
From Coq Require Import Lia ZifyBool.
From GV Require Import Sym.AsuDefs Sym.AsuProofs.
From GV Require Sym.AsuCase00 Sym.AsuCase01 Sym.AsuCase02 Sym.AsuCase03 Sym.AsuCase04 Sym.AsuCase05
                Sym.AsuCase06 Sym.AsuCase07 Sym.AsuCase08 Sym.AsuCase09 Sym.AsuCase10 Sym.AsuCase11.
Local Open Scope Z_scope.
Ltac Zify.zify_post_hook ::= Z.to_euclidean_division_equations.

Definition proven (c : list m33 * Z) : Prop :=
  closed_m (fst c) = true /\ uniq1 (fst c) (snd c) /\ exists1 (fst c) (snd c).

Definition ccp4_cases : list (list m33 * Z) := map (fun i => (case_L i, case_idx i)) (seq 0 12).
Definition tnt_cases : list (list m33 * Z) := map (fun i => (case_L i, case_idx i + 10)) (seq 0 12).

Lemma ref_cases_are_12 : ref_cases = ccp4_cases.
Proof. vm_compute. reflexivity. Qed.

Lemma ccp4_cases_proven : forall c, In c ccp4_cases -> proven c.
Proof.
  intros c H. unfold ccp4_cases in H. cbn [map seq In] in H.
  destruct H as [<-|H].
  { unfold proven; cbn [fst snd]; rewrite AsuCase00.L_is_case, AsuCase00.idx_is_case.
    exact (conj AsuCase00.closed (conj AsuCase00.uniq_ccp4 AsuCase00.exists_ccp4)). }
  destruct H as [<-|H].
  { unfold proven; cbn [fst snd]; rewrite AsuCase01.L_is_case, AsuCase01.idx_is_case.
    exact (conj AsuCase01.closed (conj AsuCase01.uniq_ccp4 AsuCase01.exists_ccp4)). }
  destruct H as [<-|H].
  { unfold proven; cbn [fst snd]; rewrite AsuCase02.L_is_case, AsuCase02.idx_is_case.
    exact (conj AsuCase02.closed (conj AsuCase02.uniq_ccp4 AsuCase02.exists_ccp4)). }
  destruct H as [<-|H].
  { unfold proven; cbn [fst snd]; rewrite AsuCase03.L_is_case, AsuCase03.idx_is_case.
    exact (conj AsuCase03.closed (conj AsuCase03.uniq_ccp4 AsuCase03.exists_ccp4)). }
  destruct H as [<-|H].
  { unfold proven; cbn [fst snd]; rewrite AsuCase04.L_is_case, AsuCase04.idx_is_case.
    exact (conj AsuCase04.closed (conj AsuCase04.uniq_ccp4 AsuCase04.exists_ccp4)). }
  destruct H as [<-|H].
  { unfold proven; cbn [fst snd]; rewrite AsuCase05.L_is_case, AsuCase05.idx_is_case.
    exact (conj AsuCase05.closed (conj AsuCase05.uniq_ccp4 AsuCase05.exists_ccp4)). }
  destruct H as [<-|H].
  { unfold proven; cbn [fst snd]; rewrite AsuCase06.L_is_case, AsuCase06.idx_is_case.
    exact (conj AsuCase06.closed (conj AsuCase06.uniq_ccp4 AsuCase06.exists_ccp4)). }
  destruct H as [<-|H].
  { unfold proven; cbn [fst snd]; rewrite AsuCase07.L_is_case, AsuCase07.idx_is_case.
    exact (conj AsuCase07.closed (conj AsuCase07.uniq_ccp4 AsuCase07.exists_ccp4)). }
  destruct H as [<-|H].
  { unfold proven; cbn [fst snd]; rewrite AsuCase08.L_is_case, AsuCase08.idx_is_case.
    exact (conj AsuCase08.closed (conj AsuCase08.uniq_ccp4 AsuCase08.exists_ccp4)). }
  destruct H as [<-|H].
  { unfold proven; cbn [fst snd]; rewrite AsuCase09.L_is_case, AsuCase09.idx_is_case.
    exact (conj AsuCase09.closed (conj AsuCase09.uniq_ccp4 AsuCase09.exists_ccp4)). }
  destruct H as [<-|H].
  { unfold proven; cbn [fst snd]; rewrite AsuCase10.L_is_case, AsuCase10.idx_is_case.
    exact (conj AsuCase10.closed (conj AsuCase10.uniq_ccp4 AsuCase10.exists_ccp4)). }
  destruct H as [<-|H].
  { unfold proven; cbn [fst snd]; rewrite AsuCase11.L_is_case, AsuCase11.idx_is_case.
    exact (conj AsuCase11.closed (conj AsuCase11.uniq_ccp4 AsuCase11.exists_ccp4)). }
  destruct H.
Qed.

Lemma tnt_cases_proven : forall c, In c tnt_cases -> proven c.
Proof.
  intros c H. unfold tnt_cases in H. cbn [map seq In] in H.
  destruct H as [<-|H].
  { unfold proven; cbn [fst snd]; rewrite AsuCase00.L_is_case, AsuCase00.idx_is_case.
    exact (conj AsuCase00.closed (conj AsuCase00.uniq_tnt AsuCase00.exists_tnt)). }
  destruct H as [<-|H].
  { unfold proven; cbn [fst snd]; rewrite AsuCase01.L_is_case, AsuCase01.idx_is_case.
    exact (conj AsuCase01.closed (conj AsuCase01.uniq_tnt AsuCase01.exists_tnt)). }
  destruct H as [<-|H].
  { unfold proven; cbn [fst snd]; rewrite AsuCase02.L_is_case, AsuCase02.idx_is_case.
    exact (conj AsuCase02.closed (conj AsuCase02.uniq_tnt AsuCase02.exists_tnt)). }
  destruct H as [<-|H].
  { unfold proven; cbn [fst snd]; rewrite AsuCase03.L_is_case, AsuCase03.idx_is_case.
    exact (conj AsuCase03.closed (conj AsuCase03.uniq_tnt AsuCase03.exists_tnt)). }
  destruct H as [<-|H].
  { unfold proven; cbn [fst snd]; rewrite AsuCase04.L_is_case, AsuCase04.idx_is_case.
    exact (conj AsuCase04.closed (conj AsuCase04.uniq_tnt AsuCase04.exists_tnt)). }
  destruct H as [<-|H].
  { unfold proven; cbn [fst snd]; rewrite AsuCase05.L_is_case, AsuCase05.idx_is_case.
    exact (conj AsuCase05.closed (conj AsuCase05.uniq_tnt AsuCase05.exists_tnt)). }
  destruct H as [<-|H].
  { unfold proven; cbn [fst snd]; rewrite AsuCase06.L_is_case, AsuCase06.idx_is_case.
    exact (conj AsuCase06.closed (conj AsuCase06.uniq_tnt AsuCase06.exists_tnt)). }
  destruct H as [<-|H].
  { unfold proven; cbn [fst snd]; rewrite AsuCase07.L_is_case, AsuCase07.idx_is_case.
    exact (conj AsuCase07.closed (conj AsuCase07.uniq_tnt AsuCase07.exists_tnt)). }
  destruct H as [<-|H].
  { unfold proven; cbn [fst snd]; rewrite AsuCase08.L_is_case, AsuCase08.idx_is_case.
    exact (conj AsuCase08.closed (conj AsuCase08.uniq_tnt AsuCase08.exists_tnt)). }
  destruct H as [<-|H].
  { unfold proven; cbn [fst snd]; rewrite AsuCase09.L_is_case, AsuCase09.idx_is_case.
    exact (conj AsuCase09.closed (conj AsuCase09.uniq_tnt AsuCase09.exists_tnt)). }
  destruct H as [<-|H].
  { unfold proven; cbn [fst snd]; rewrite AsuCase10.L_is_case, AsuCase10.idx_is_case.
    exact (conj AsuCase10.closed (conj AsuCase10.uniq_tnt AsuCase10.exists_tnt)). }
  destruct H as [<-|H].
  { unfold proven; cbn [fst snd]; rewrite AsuCase11.L_is_case, AsuCase11.idx_is_case.
    exact (conj AsuCase11.closed (conj AsuCase11.uniq_tnt AsuCase11.exists_tnt)). }
  destruct H.
Qed.

(* kernel-evaluated link of every table row to a proven case *)
Lemma rows_linked_ccp4 : forallb (fun r => row_link_ok_b ccp4_cases r false) sg_table = true.
Proof. vm_cast_no_check (@eq_refl bool true). Qed.
Lemma rows_linked_tnt : forallb (fun r => row_link_ok_b tnt_cases r true) sg_table = true.
Proof. vm_cast_no_check (@eq_refl bool true). Qed.

(* ---------- from a linked row to the statement about the model's functions ---------- *)
Definition orbit (g : gops) (hkl : v3) : list v3 :=
  flat_map (fun o => [apply_to_hkl_nodiv o hkl; neg_v3 (apply_to_hkl_nodiv o hkl)]) (sym_ops g).

Lemma apply_is_vmul : forall o h, apply_to_hkl_nodiv o h = vmul h (rot o).
Proof. reflexivity. Qed.

Lemma neg_is_scale : forall v, neg_v3 v = map_v3 (fun x => -1 * x) v.
Proof. intros [[a b] c]. unfold neg_v3, map_v3. repeat match goal with |- (_, _) = (_, _) => f_equal end; ring. Qed.

Lemma quot_neg_exact : forall a, 24 * Z.quot a 24 = a -> Z.quot (- a) 24 = -1 * Z.quot a 24.
Proof. intros a H. lia. Qed.

Lemma unit_rot_neg : forall r, scale_m 24 (unit_rot r) = r ->
  unit_rot (negated_rot r) = scale_m (-1) (unit_rot r).
Proof.
  intros r H. destruct_all_pairs. unfold scale_m, unit_rot, negated_rot, map_m33, map_v3, neg_v3 in *.
  repeat match goal with K : (_, _) = (_, _) |- _ => apply pair_equal_spec in K; destruct K end.
  repeat match goal with |- (_, _) = (_, _) => f_equal end; apply quot_neg_exact; assumption.
Qed.

Lemma vmul_id_rot : forall v, vmul v id_rot = map_v3 (fun x => 24 * x) v.
Proof. intros [[a b] c]. unfold vmul, id_rot, DEN. cbn -[Z.mul Z.add]. repeat match goal with |- (_, _) = (_, _) => f_equal end; ring. Qed.

Lemma asu_is_in_eff : forall r tnt v,
  asu_is_in (row_asu r tnt) v = in_ref (asu_idx (row_asu r tnt)) (vmul v (eff_rot r tnt)).
Proof.
  intros r tnt v. unfold eff_rot, asu_is_in.
  destruct (asu_is_ref (row_asu r tnt)).
  - rewrite vmul_id_rot, in_ref_scale24. destruct v as [[a b] c]. reflexivity.
  - destruct v as [[a b] c]. reflexivity.
Qed.

(* members of the orbit are 24 * (hkl . M) for M among the unit matrices of the row *)
Definition row_mats (g : gops) : list m33 :=
  flat_map (fun o => [unit_rot (rot o); unit_rot (negated_rot (rot o))]) (sym_ops g).

Lemma orbit_members : forall g hkl,
  forallb (fun o => m33_eqb (scale_m 24 (unit_rot (rot o))) (rot o)) (sym_ops g) = true ->
  forall m, In m (orbit g hkl) <->
            exists M, In M (row_mats g) /\ m = map_v3 (fun x => 24 * x) (vmul hkl M).
Proof.
  intros g hkl Hint m. unfold orbit, row_mats. rewrite forallb_forall in Hint.
  split.
  - intros H. apply in_flat_map in H. destruct H as [o [Ho Hm]].
    pose proof (m33_eqb_eq _ _ (Hint o Ho)) as E.
    destruct Hm as [<-|[<-|[]]].
    + exists (unit_rot (rot o)). split.
      * apply in_flat_map. exists o. split; [exact Ho|left; reflexivity].
      * rewrite apply_is_vmul. rewrite <- E at 1. apply vmul_scale_m.
    + exists (unit_rot (negated_rot (rot o))). split.
      * apply in_flat_map. exists o. split; [exact Ho|right; left; reflexivity].
      * rewrite (unit_rot_neg _ E). rewrite apply_is_vmul. rewrite <- E at 1.
        rewrite !vmul_scale_m, neg_is_scale.
        destruct (vmul hkl (unit_rot (rot o))) as [[a b] c]. unfold map_v3. repeat match goal with |- (_, _) = (_, _) => f_equal end; ring.
  - intros [M [HM ->]]. apply in_flat_map in HM. destruct HM as [o [Ho HM]].
    pose proof (m33_eqb_eq _ _ (Hint o Ho)) as E.
    apply in_flat_map. exists o. split; [exact Ho|].
    destruct HM as [<-|[<-|[]]].
    + left. rewrite apply_is_vmul. rewrite <- E at 1. apply vmul_scale_m.
    + right; left. rewrite (unit_rot_neg _ E). rewrite apply_is_vmul. rewrite <- E at 1.
      rewrite !vmul_scale_m, neg_is_scale.
      destruct (vmul hkl (unit_rot (rot o))) as [[a b] c]. unfold map_v3. repeat match goal with |- (_, _) = (_, _) => f_equal end; ring.
Qed.

Lemma in_case_eqb : forall c cases, existsb (case_eqb c) cases = true ->
  (forall c', In c' cases -> proven c') -> proven c.
Proof.
  intros c cases H P. apply existsb_exists in H. destruct H as [c' [Hin E]].
  unfold case_eqb in E. apply andb_true_iff in E. destruct E as [E1 E2].
  assert (fst c = fst c').
  { clear -E1. revert E1. generalize (fst c) (fst c'). induction l as [|x l IH]; intros [|y l'] H; try discriminate.
    - reflexivity.
    - cbn in H. apply andb_true_iff in H. destruct H as [H1 H2]. apply m33_eqb_eq in H1. subst.
      f_equal. apply IH. exact H2. }
  apply Z.eqb_eq in E2. destruct c, c'. cbn in *. subst. apply P. exact Hin.
Qed.

Theorem linked_row_exactly_one : forall cases r tnt g,
  (forall c, In c cases -> proven c) ->
  row_link_ok_b cases r tnt = true -> operations r = HOk g ->
  forall hkl,
    (exists m, In m (orbit g hkl) /\ asu_is_in (row_asu r tnt) m = true) /\
    (forall m1 m2, In m1 (orbit g hkl) -> In m2 (orbit g hkl) ->
       asu_is_in (row_asu r tnt) m1 = true -> asu_is_in (row_asu r tnt) m2 = true -> m1 = m2).
Proof.
  intros cases r tnt g P Hl Hop hkl. unfold row_link_ok_b in Hl. rewrite Hop in Hl.
  destruct (reference_row (sg_number r)) as [rr|]; [|discriminate].
  repeat (apply andb_true_iff in Hl; destruct Hl as [Hl ?]).
  match goal with K : forallb _ (fst (row_case rr)) = true |- _ => rename K into Honto end.
  match goal with K : forallb (fun R => existsb _ (fst (row_case rr))) _ = true |- _ => rename K into Hinto end.
  match goal with K : forallb (fun o => m33_eqb _ (rot o)) _ = true |- _ => rename K into Hint end.
  match goal with K : negb _ = true |- _ => rename K into Hdet end.
  set (L := fst (row_case rr)) in *. set (idx := asu_idx (row_asu r tnt)) in *.
  set (C := eff_rot r tnt) in *.
  destruct (in_case_eqb _ _ Hl P) as [Hclosed [Hu He]]. cbn [fst snd] in *.
  assert (HdetC : det_rot C <> 0) by (apply negb_true_iff in Hdet; apply Z.eqb_neq in Hdet; exact Hdet).
  fold (row_mats g) in Hinto, Honto.
  (* membership in the ASU of a member 24*(hkl.M) = reference condition on (hkl.C).R' *)
  assert (Key : forall M R', m33_eqb (mmul M C) (mmul C R') = true ->
            asu_is_in (row_asu r tnt) (map_v3 (fun x => 24 * x) (vmul hkl M))
            = in_ref idx (vmul (vmul hkl C) R')).
  { intros M R' E. apply m33_eqb_eq in E. rewrite asu_is_in_eff. fold idx C.
    rewrite vmul_scale, in_ref_scale24, !vmul_assoc, E. reflexivity. }
  split.
  - destruct (He (vmul hkl C)) as [R' [HR' Hin]].
    rewrite forallb_forall in Honto. specialize (Honto R' HR').
    apply existsb_exists in Honto. destruct Honto as [M [HM E]].
    exists (map_v3 (fun x => 24 * x) (vmul hkl M)). split.
    + apply (orbit_members g hkl Hint). exists M. split; [exact HM|reflexivity].
    + rewrite (Key M R' E). exact Hin.
  - intros m1 m2 H1 H2 I1 I2.
    apply (orbit_members g hkl Hint) in H1, H2.
    destruct H1 as [M1 [HM1 ->]]. destruct H2 as [M2 [HM2 ->]].
    rewrite forallb_forall in Hinto.
    pose proof (Hinto M1 HM1) as X1. pose proof (Hinto M2 HM2) as X2.
    apply existsb_exists in X1, X2. destruct X1 as [R1 [HR1 E1]]. destruct X2 as [R2 [HR2 E2]].
    rewrite (Key M1 R1 E1) in I1. rewrite (Key M2 R2 E2) in I2.
    pose proof (uniq2_of_uniq1 L idx Hclosed Hu R1 R2 (vmul hkl C) HR1 HR2 I1 I2) as Eq.
    apply m33_eqb_eq in E1, E2.
    rewrite !vmul_assoc, <- E1, <- E2, <- !vmul_assoc in Eq.
    apply vmul_inj in Eq; [|exact HdetC]. rewrite Eq. reflexivity.
Qed.

Theorem table_exactly_one : forall r tnt g, In r sg_table -> operations r = HOk g -> forall hkl,
    (exists m, In m (orbit g hkl) /\ asu_is_in (row_asu r tnt) m = true) /\
    (forall m1 m2, In m1 (orbit g hkl) -> In m2 (orbit g hkl) ->
       asu_is_in (row_asu r tnt) m1 = true -> asu_is_in (row_asu r tnt) m2 = true -> m1 = m2).
Proof.
  intros r tnt g Hin Hop hkl. destruct tnt.
  - apply (linked_row_exactly_one tnt_cases r true g tnt_cases_proven); [|exact Hop].
    exact (proj1 (forallb_forall _ _) rows_linked_tnt r Hin).
  - apply (linked_row_exactly_one ccp4_cases r false g ccp4_cases_proven); [|exact Hop].
    exact (proj1 (forallb_forall _ _) rows_linked_ccp4 r Hin).
Qed.
