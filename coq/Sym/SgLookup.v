(* Model of the space-group table lookups (symmetry.hpp / symmetry.cpp). *)
From GV Require Export Sym.Group.
Local Open Scope Z_scope.

Record sgrow : Type := mkRow {
  sg_number : Z; sg_ccp4 : Z; sg_hm : str; sg_ext : Z; sg_qual : str; sg_hall : str; sg_basisop : Z }.
Record altname : Type := mkAlt { alt_hm : str; alt_ext : Z; alt_pos : Z }.

Section WithTables.
Variable table : list sgrow.
Variable alts : list altname.

Definition xhm (r : sgrow) : str := if sg_ext r =? 0 then sg_hm r else sg_hm r ++ [58; sg_ext r].

Fixpoint find_index {A} (p : A -> bool) (l : list A) (i : Z) : option Z :=
  match l with
  | [] => None
  | x :: t => if p x then Some i else find_index p t (i + 1)
  end.

Definition find_spacegroup_by_number (ccp4 : Z) : option Z :=
  if ccp4 =? 0 then Some 0 else find_index (fun r => sg_ccp4 r =? ccp4) table 0.

Definition operations (r : sgrow) : hres gops := symops_from_hall (sg_hall r).

Definition find_spacegroup_by_ops (g : gops) : option Z :=
  let c := find_centering g in
  find_index (fun r =>
    ((c =? nth 0 (sg_hall r) 0) || (c =? nth 1 (sg_hall r) 0)) &&
    match operations r with HOk g' => is_same_as g g' | _ => false end) table 0.

(* ---- find_spacegroup_by_name ---- *)

Definition is_upper (c : Z) := (65 <=? c) && (c <=? 90).
Definition is_lower (c : Z) := (97 <=? c) && (c <=? 122).

(* the case-changing loop from index `start` on: lower-case until ':', upper-case after *)
Fixpoint recase (s : str) (after_colon : bool) : str :=
  match s with
  | [] => []
  | c :: t =>
    if after_colon then (if is_lower c then c - 32 else c) :: recase t true
    else if is_upper c then (c + 32) :: recase t false
    else if c =? 58 then c :: recase t true
    else c :: recase t false
  end.

(* the main-table comparison loop. a: rest of name, b: rest of hm, bi: index of b in hm.
   returns (a, b) at loop exit *)
Fixpoint cmp_loop (fuel : nat) (a b : str) (bi : Z) : str * str :=
  match fuel with
  | O => (a, b)
  | S f =>
    if (cur a =? cur b) && negb (cur b =? 0) then
      let b1 := adv b in let b2 := skip_space b1 in
      cmp_loop f (skip_space (adv a)) b2 (bi + 1 + Z.of_nat (length b1 - length b2))
    else if (cur a =? 51) && (cur b =? 45) && (bi =? 4) then
      (* pre-increment b, then compare with the digit 3 *)
      let b' := adv b in
      if cur b' =? 51 then
        let b1 := adv b' in let b2 := skip_space b1 in
        cmp_loop f (skip_space (adv a)) b2 (bi + 2 + Z.of_nat (length b1 - length b2))
      else (a, b')
    else (a, b)
  end.

Fixpoint alt_loop (fuel : nat) (a b : str) : str * str :=
  match fuel with
  | O => (a, b)
  | S f => if (cur a =? cur b) && negb (cur b =? 0)
           then alt_loop f (skip_space (adv a)) (skip_space (adv b))
           else (a, b)
  end.

Fixpoint mono_loop (fuel : nat) (a b : str) (endc : Z) : str * str :=
  match fuel with
  | O => (a, b)
  | S f => if (cur a =? cur b) && negb (cur b =? endc)
           then mono_loop f (adv a) (adv b) endc
           else (a, b)
  end.

(* index of the first character of skip_space(hm+3) inside hm *)
Definition drop3 (s : str) : str := adv (adv (adv s)).

(* one row of the main loop: None = no match, Some k = return row index k *)
Definition match_row (first : Z) (p : str) (want_R prefer_2 : bool) (r : sgrow) (i : Z) : option Z :=
  let hm := sg_hm r in
  if negb (nth 0 hm 0 =? first) then None else
  if nth 2 hm 0 =? cur p then
    let a0 := skip_space (adv p) in
    let b0raw := drop3 hm in
    let b0 := skip_space b0raw in
    let bi0 := 3 + Z.of_nat (length b0raw - length b0) in
    let '(a, b) := cmp_loop 16 a0 b0 bi0 in
    if cur b =? 0 then
      if cur a =? 0 then
        if (sg_ext r =? 72) && want_R then Some (i + 1)
        else if (sg_ext r =? 49) && prefer_2 then Some (i + 1)
        else Some i
      else if (cur a =? 58) && (cur (skip_space (adv a)) =? sg_ext r) then Some i
      else None
    else None
  else if (nth 2 hm 0 =? 49) && (nth 3 hm 0 =? 32) then
    let b4 := adv (drop3 hm) in
    (* the condition with the two pre-increments of b, as coded *)
    let '(enter, b, moved) :=
      if negb (cur b4 =? 49) then (true, b4, false)
      else if first =? 66 then
        let b5 := adv b4 in
        if cur b5 =? 32 then
          let b6 := adv b5 in
          (negb (cur b6 =? 49), b6, true)
        else (false, b5, true)
      else (false, b4, false) in
    if enter then
      let endc := if moved then 0 else 32 in
      let '(a, b') := mono_loop 16 (skip_space p) b endc in
      if (cur (skip_space a) =? 0) && (cur b' =? endc) then Some i else None
    else None
  else None.

Fixpoint first_some {A B} (f : A -> Z -> option B) (l : list A) (i : Z) : option B :=
  match l with
  | [] => None
  | x :: t => match f x i with Some r => Some r | None => first_some f t (i + 1) end
  end.

Definition match_alt (first : Z) (p : str) (r : altname) (_ : Z) : option Z :=
  let hm := alt_hm r in
  if (nth 0 hm 0 =? first) && (nth 2 hm 0 =? cur p) then
    let '(a, b) := alt_loop 16 (skip_space (adv p)) (skip_space (drop3 hm)) in
    if (cur b =? 0) && ((cur a =? 0) || ((cur a =? 58) && (cur (skip_space (adv a)) =? alt_ext r)))
    then Some (alt_pos r) else None
  else None.

Fixpoint last_z (s : str) : Z := match s with [] => 0 | [c] => c | _ :: t => last_z t end.
Fixpoint insert_colon_upper_last (s : str) : str :=
  match s with
  | [] => []
  | [c] => [58; c - 32]
  | c :: t => c :: insert_colon_upper_last t
  end.

(* prefer string -> (prefer_2, prefer_R) or None for invalid_argument *)
Fixpoint parse_prefer (s : str) (p2 pR : bool) : option (bool * bool) :=
  match s with
  | [] => Some (p2, pR)
  | c :: t => if c =? 0 then Some (p2, pR)
              else if c =? 50 then parse_prefer t true pR
              else if c =? 82 then parse_prefer t p2 true
              else if (c =? 49) || (c =? 72) then parse_prefer t p2 pR
              else None
  end.

(* find_spacegroup_by_name(name, alpha, gamma, prefer).
   hexhint = Some (gamma < 1.125 * alpha) when alpha != 0, None when alpha = 0.
   Result: None = exception (invalid prefer); Some None = nullptr; Some (Some i) = row i. *)
Definition find_spacegroup_by_name (name : str) (hint : option bool) (prefer : option str)
  : option (option Z) :=
  match (match prefer with None => Some (false, false) | Some s => parse_prefer s false false end) with
  | None => None
  | Some (prefer_2, prefer_R) =>
    Some (
    let cname := cstr name in   (* pointer walks stop at the first NUL *)
    let p0 := skip_space cname in
    if is_digit (cur p0) then
      let '(n, e) := strtol10 p0 in
      if cur e =? 0 then find_spacegroup_by_number n else None
    else
    let first0 := Z.land (cur p0) (-33) in
    if first0 =? 0 then None else
    let first := if first0 =? 72 then 82 else first0 in
    let p1 := skip_space (adv p0) in
    let start := (length name - length p1 - (length name - length cname))%nat in
    (* name may contain NULs after which std::string continues; recase acts on the whole std::string *)
    let name1 := firstn start name ++ recase (skipn start name) false in
    let name2 := if (last_z name1 =? 104) || (last_z name1 =? 114)
                 then insert_colon_upper_last name1 else name1 in
    let p := cstr (skipn start name2) in
    let want_R := match hint with None => prefer_R | Some b => b end in
    match first_some (match_row first p want_R prefer_2) table 0 with
    | Some i => Some i
    | None => first_some (match_alt first p) alts 0
    end)
  end.

End WithTables.
