(* Property C05: reciprocal-space ASU, absences, centricity and epsilon are exact for every group.
   Statements only. All theorems quantify over EVERY Miller index (hkl : Z^3), every row of the table
   regenerated from /repo (564 settings) and both conventions (tnt = false: CCP4, true: TNT). *)
From GV Require Import Sym.AsuDefs Sym.AsuProofs Sym.AsuLift Sym.AsuSpec.
Local Open Scope Z_scope.

(* exactly one member of the orbit {+-(hkl.R)} lies inside the ASU *)
Theorem C05_exactly_one : forall r tnt g, In r sg_table -> operations r = HOk g -> forall hkl,
    (exists m, In m (orbit g hkl) /\ asu_is_in (row_asu r tnt) m = true) /\
    (forall m1 m2, In m1 (orbit g hkl) -> In m2 (orbit g hkl) ->
       asu_is_in (row_asu r tnt) m1 = true -> asu_is_in (row_asu r tnt) m2 = true -> m1 = m2).
Proof. exact table_exactly_one. Qed.
Print Assumptions C05_exactly_one.

(* to_asu never fails and returns that member with the index and sign of an operation producing it *)
Theorem C05_to_asu : forall r tnt g, In r sg_table -> operations r = HOk g -> forall hkl,
  exists hk isym m,
    to_asu (row_asu r tnt) hkl g = Some (hk, isym) /\
    member_of (sym_ops g) hkl isym m /\ asu_is_in (row_asu r tnt) m = true /\ hk = divide_hkl m /\
    (forall m', In m' (orbit g hkl) -> asu_is_in (row_asu r tnt) m' = true -> m' = m).
Proof. exact table_to_asu. Qed.
Print Assumptions C05_to_asu.

Theorem C05_absent_iff : forall r g hkl, In r sg_table -> operations r = HOk g ->
  (is_systematically_absent g hkl = true <->
   exists o c, In o (sym_ops g) /\ In c (cen_ops g) /\
     apply_to_hkl_nodiv o hkl = scale_v3 DEN hkl /\
     Z.rem (dot hkl (add_v3 (tran o) c)) DEN <> 0).
Proof. exact table_absent_iff. Qed.
Print Assumptions C05_absent_iff.

Theorem C05_centric_iff : forall g hkl,
  is_reflection_centric g hkl = true <->
  exists o, In o (sym_ops g) /\ apply_to_hkl_nodiv o hkl = scale_v3 (- DEN) hkl.
Proof. exact centric_iff. Qed.
Print Assumptions C05_centric_iff.

Theorem C05_epsilon_count : forall g hkl,
  epsilon_factor g hkl =
  Z.of_nat (length (filter (fun o => v3_eqb (apply_to_hkl_nodiv o hkl) (scale_v3 DEN hkl)) (sym_ops g)))
  * Z.of_nat (length (cen_ops g)).
Proof. exact epsilon_is_count. Qed.
Print Assumptions C05_epsilon_count.

(* non-vacuity: a concrete non-reference row and reflection *)
Example C05_example :
  exists r g, In r sg_table /\ operations r = HOk g /\ sg_basisop r <> 0 /\
    asu_is_in (row_asu r true) (apply_to_hkl_nodiv identity (1, 2, 3)) = true.
Proof.
  exists (nth 3 sg_table (nth 0 sg_table (mkRow 0 0 [] 0 [] [] 0))).
  eexists. split; [vm_compute; tauto|]. split; [vm_compute; reflexivity|]. split; [vm_compute; discriminate|].
  vm_compute. reflexivity.
Qed.

(* ------------------------------------------------------------------------------------------------------------
   Enumeration to a resolution limit (for_all_reflections, include/gemmi/reciproc.hpp): the loops run over
   |h| <= int(a/dmin), |k| <= int(b/dmin), |l| <= int(c/dmin) (UnitCell::get_hkl_limits). Over the reals, for ANY cell:
   a reflection whose reciprocal-lattice vector s has length 1/d <= 1/dmin and satisfies s . a_vector = h (duality of
   the reciprocal basis, property C11) has |h| <= floor(a/dmin) - no reflection of the sphere is outside the scanned box
   (the same statement serves b, k and c, l). *)
From Coq Require Reals.
From GV Require Geo.HklLimits.
Theorem C05_hkl_limits_cover_the_sphere : forall (h : Z) (a1 a2 a3 s1 s2 s3 a invd dmin : Rdefinitions.R),
  Rdefinitions.Rlt (Rdefinitions.IZR 0) dmin -> Rdefinitions.Rle (Rdefinitions.IZR 0) a -> Rdefinitions.Rle (Rdefinitions.IZR 0) invd ->
  Rdefinitions.Rplus (Rdefinitions.Rplus (RIneq.Rsqr a1) (RIneq.Rsqr a2)) (RIneq.Rsqr a3) = RIneq.Rsqr a ->
  Rdefinitions.Rplus (Rdefinitions.Rplus (RIneq.Rsqr s1) (RIneq.Rsqr s2)) (RIneq.Rsqr s3) = RIneq.Rsqr invd ->
  Rdefinitions.Rplus (Rdefinitions.Rplus (Rdefinitions.Rmult s1 a1) (Rdefinitions.Rmult s2 a2)) (Rdefinitions.Rmult s3 a3) = Rdefinitions.IZR h ->
  Rdefinitions.Rle invd (Rdefinitions.Rinv dmin) ->
  Z.abs h <= Flocq.Core.Raux.Zfloor (Rdefinitions.Rdiv a dmin).
Proof. exact Geo.HklLimits.hkl_limit_sufficient. Qed.
Print Assumptions C05_hkl_limits_cover_the_sphere.
