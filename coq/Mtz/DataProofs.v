(* Proofs about the binary part of the MTZ model (Data.v). *)
From GV Require Import Base.Str Mtz.Data.
From Coq Require Import Lia ZifyBool.
Local Open Scope Z_scope.
Ltac Zify.zify_post_hook ::= Z.to_euclidean_division_equations.

Lemma swap4_involutive : forall w, swap4 (swap4 w) = w.
Proof. intros [[[a b] c] d]; reflexivity. Qed.

Lemma map_swap4_involutive : forall d, map swap4 (map swap4 d) = d.
Proof. induction d as [|w t IH]; cbn; [reflexivity|]. rewrite swap4_involutive, IH; reflexivity. Qed.

Lemma read_words_write : forall d rest,
  read_words (length d) (write_data d ++ rest) = Some (d, rest).
Proof.
  induction d as [|[[[a b] c] e] t IH]; intros rest; [reflexivity|].
  cbn [length write_data flat_map wbytes app read_words].
  change (flat_map wbytes t) with (write_data t). rewrite IH. reflexivity.
Qed.

(* reflection data are raw copies: any four bytes (NaN payloads included) come back unchanged *)
Lemma data_native : forall d rest,
  read_data true (length d) (write_data d ++ rest) = Some (d, rest).
Proof. intros; unfold read_data; rewrite read_words_write; reflexivity. Qed.

Lemma data_swapped : forall d rest,
  read_data false (length d) (write_data (map swap4 d) ++ rest) = Some (d, rest).
Proof.
  intros; unfold read_data.
  rewrite <- (map_length swap4 d) at 1. rewrite read_words_write, map_swap4_involutive. reflexivity.
Qed.

(* ---- little-endian integer codec *)
Lemma le_value_bytes4 : forall v, 0 <= v < 2 ^ 32 -> le_value (le_bytes 4 v) = v.
Proof. intros v H. cbn [le_bytes le_value]. change (2 ^ 32) with 4294967296 in H. lia. Qed.

Lemma le_value_bytes8 : forall v, 0 <= v < 2 ^ 64 -> le_value (le_bytes 8 v) = v.
Proof. intros v H. cbn [le_bytes le_value]. change (2 ^ 64) with 18446744073709551616 in H. lia. Qed.

Lemma dec32_enc32 : forall v, - 2 ^ 31 <= v < 2 ^ 31 -> dec32 (enc32 v) = v.
Proof.
  intros v H. unfold dec32, enc32. rewrite le_value_bytes4 by (apply Z.mod_pos_bound; reflexivity).
  unfold to_signed. change (2 ^ (32 - 1)) with 2147483648. change (2 ^ 32) with 4294967296.
  change (2 ^ 31) with 2147483648 in H.
  destruct (Z.ltb_spec (v mod 4294967296) 2147483648); lia.
Qed.

Lemma dec64_enc64 : forall v, - 2 ^ 63 <= v < 2 ^ 63 -> dec64 (enc64 v) = v.
Proof.
  intros v H. unfold dec64, enc64. rewrite le_value_bytes8 by (apply Z.mod_pos_bound; reflexivity).
  unfold to_signed. change (2 ^ (64 - 1)) with 9223372036854775808. change (2 ^ 64) with 18446744073709551616.
  change (2 ^ 63) with 9223372036854775808 in H.
  destruct (Z.ltb_spec (v mod 18446744073709551616) 9223372036854775808); lia.
Qed.

Lemma rev4 : forall (a b c d : Z), rev [a; b; c; d] = [d; c; b; a].
Proof. reflexivity. Qed.

Definition hdr_off (ncol nrefl : Z) : Z := ncol * nrefl + 21.

(* the header offset survives, through the 32-bit field or through the 64-bit escape *)
Lemma read_first_raw_first20 : forall ncol nrefl, 0 <= ncol -> 0 <= nrefl -> hdr_off ncol nrefl < 2 ^ 63 ->
  read_first_raw (first20 ncol nrefl) = Some (true, hdr_off ncol nrefl).
Proof.
  intros ncol nrefl Hc Hr Hlt. unfold hdr_off in *. unfold read_first_raw, first20.
  set (real := ncol * nrefl + 21) in *.
  assert (Hreal : 21 <= real) by (unfold real; nia).
  destruct (Z.ltb_spec INT32_MAX real) as [Hbig|Hsmall]; unfold INT32_MAX in *.
  - cbn -[Z.mul Z.add Z.modulo Z.div Z.pow dec32 dec64 Z.eqb Z.land].
    match goal with |- (if ?c then _ else _) = _ => change c with false end; cbv iota.
    repeat match goal with |- context [dec32 ?l] =>
      lazymatch l with enc32 _ => fail | _ => change l with (enc32 (-1)) end end.
    rewrite dec32_enc32 by (cbn; lia). change (-1 =? -1) with true. cbv iota.
    match goal with |- Some (_, dec64 ?l) = _ => change l with (enc64 real) end.
    rewrite dec64_enc64; [reflexivity|]. change (2 ^ 63) with 9223372036854775808 in *. lia.
  - cbn -[Z.mul Z.add Z.modulo Z.div Z.pow dec32 dec64 Z.eqb Z.land].
    match goal with |- (if ?c then _ else _) = _ => change c with false end; cbv iota.
    repeat match goal with |- context [dec32 ?l] =>
      lazymatch l with enc32 _ => fail | _ => change l with (enc32 real) end end.
    rewrite dec32_enc32 by (change (2 ^ 31) with 2147483648; lia).
    destruct (Z.eqb_spec real (-1)); [lia|reflexivity].
Qed.

Definition first20_swapped (ncol nrefl : Z) : list Z :=
  let f := first20 ncol nrefl in
  firstn 4 f ++ rev (firstn 4 (skipn 4 f)) ++ [17; 17; 0; 0] ++ rev (firstn 8 (skipn 12 f)).

Lemma read_first_raw_swapped20 : forall ncol nrefl, 0 <= ncol -> 0 <= nrefl -> hdr_off ncol nrefl < 2 ^ 63 ->
  read_first_raw (first20_swapped ncol nrefl) = Some (false, hdr_off ncol nrefl).
Proof.
  intros ncol nrefl Hc Hr Hlt. unfold hdr_off in *. unfold read_first_raw, first20_swapped, first20.
  set (real := ncol * nrefl + 21) in *.
  assert (Hreal : 21 <= real) by (unfold real; nia).
  destruct (Z.ltb_spec INT32_MAX real) as [Hbig|Hsmall]; unfold INT32_MAX in *.
  - cbn -[Z.mul Z.add Z.modulo Z.div Z.pow dec32 dec64 Z.eqb Z.land].
    match goal with |- (if ?c then _ else _) = _ => change c with false end; cbv iota.
    repeat match goal with |- context [dec32 ?l] =>
      lazymatch l with enc32 _ => fail | _ => change l with (enc32 (-1)) end end.
    rewrite dec32_enc32 by (cbn; lia). change (-1 =? -1) with true. cbv iota.
    match goal with |- Some (_, dec64 ?l) = _ => change l with (enc64 real) end.
    rewrite dec64_enc64; [reflexivity|]. change (2 ^ 63) with 9223372036854775808 in *. lia.
  - cbn -[Z.mul Z.add Z.modulo Z.div Z.pow dec32 dec64 Z.eqb Z.land].
    match goal with |- (if ?c then _ else _) = _ => change c with false end; cbv iota.
    repeat match goal with |- context [dec32 ?l] =>
      lazymatch l with enc32 _ => fail | _ => change l with (enc32 real) end end.
    rewrite dec32_enc32 by (change (2 ^ 31) with 2147483648; lia).
    destruct (Z.eqb_spec real (-1)); [lia|reflexivity].
Qed.

Lemma off_ok_hdr_off : forall ncol nrefl, 0 <= ncol -> 0 <= nrefl -> hdr_off ncol nrefl <= HDR_OFF_MAX ->
  off_ok (hdr_off ncol nrefl) = true /\ hdr_off ncol nrefl < 2 ^ 63.
Proof.
  intros ncol nrefl Hc Hr Hlt. unfold off_ok, hdr_off, HDR_OFF_MAX in *.
  change (2 ^ 63) with 9223372036854775808. split; [|lia].
  apply andb_true_intro; split; [apply Z.leb_le; nia|apply Z.leb_le; exact Hlt].
Qed.
Lemma read_first_first20 : forall ncol nrefl, 0 <= ncol -> 0 <= nrefl -> hdr_off ncol nrefl <= HDR_OFF_MAX ->
  read_first (first20 ncol nrefl) = Some (true, hdr_off ncol nrefl).
Proof.
  intros ncol nrefl Hc Hr Hlt. destruct (off_ok_hdr_off ncol nrefl Hc Hr Hlt) as [Hok H63].
  unfold read_first. rewrite (read_first_raw_first20 ncol nrefl Hc Hr H63), Hok. reflexivity.
Qed.
Lemma read_first_swapped20 : forall ncol nrefl, 0 <= ncol -> 0 <= nrefl -> hdr_off ncol nrefl <= HDR_OFF_MAX ->
  read_first (first20_swapped ncol nrefl) = Some (false, hdr_off ncol nrefl).
Proof.
  intros ncol nrefl Hc Hr Hlt. destruct (off_ok_hdr_off ncol nrefl Hc Hr Hlt) as [Hok H63].
  unfold read_first. rewrite (read_first_raw_swapped20 ncol nrefl Hc Hr H63), Hok. reflexivity.
Qed.
(* what the repaired reader accepts can be turned into a byte position without overflow *)
Lemma read_first_offset_range : forall b same off, read_first b = Some (same, off) ->
  21 <= off /\ 0 <= off - 1 - 20 /\ 4 * (off - 1) < 2 ^ 63 /\ 4 * (off - 1 - 20) < 2 ^ 63.
Proof.
  intros b same off H. unfold read_first in H. destruct (read_first_raw b) as [[s o]|]; [|discriminate].
  destruct (off_ok o) eqn:E; [|discriminate]. injection H as _ <-.
  unfold off_ok, HDR_OFF_MAX in E. apply andb_prop in E. destruct E as [E1 E2].
  apply Z.leb_le in E1. apply Z.leb_le in E2. change (2 ^ 63) with 9223372036854775808. lia.
Qed.

Lemma first20_len : forall c r, length (first20 c r) = 20%nat.
Proof. intros; unfold first20. destruct (INT32_MAX <? c * r + 21); reflexivity. Qed.
Lemma first20_swapped_len : forall c r, length (first20_swapped c r) = 20%nat.
Proof. intros; unfold first20_swapped, first20. destruct (INT32_MAX <? c * r + 21); reflexivity. Qed.

Lemma skipn_app_exact : forall (A : Type) (l r : list A) n, n = length l -> skipn n (l ++ r) = r.
Proof. intros A l r n ->. rewrite skipn_app, skipn_all, Nat.sub_diag. reflexivity. Qed.
Lemma firstn_app_exact' : forall (A : Type) (l r : list A) n, n = length l -> firstn n (l ++ r) = l.
Proof. intros A l r n ->. rewrite firstn_app, Nat.sub_diag, firstn_all. cbn. apply app_nil_r. Qed.

(* a file written by gemmi reads back: header offset and every data word, bit for bit *)
Lemma read_prefix_native : forall ncol nrefl d rest,
  0 <= ncol -> 0 <= nrefl -> hdr_off ncol nrefl <= HDR_OFF_MAX -> Z.of_nat (length d) = ncol * nrefl ->
  read_prefix (file_prefix ncol nrefl d ++ rest) = Some (hdr_off ncol nrefl, d, rest).
Proof.
  intros ncol nrefl d rest Hc Hr Hlt Hd. unfold read_prefix, file_prefix.
  rewrite <- !app_assoc. rewrite firstn_app_exact' by (symmetry; apply first20_len).
  rewrite read_first_first20 by assumption.
  rewrite (app_assoc (first20 ncol nrefl)). rewrite skipn_app_exact
    by (rewrite app_length, first20_len, repeat_length; reflexivity).
  replace (Z.to_nat (hdr_off ncol nrefl - 1 - 20)) with (length d) by (unfold hdr_off; lia).
  rewrite data_native. reflexivity.
Qed.

(* the byte-swapped file reads to the same offset and the same data *)
Lemma read_prefix_swapped : forall ncol nrefl d rest,
  0 <= ncol -> 0 <= nrefl -> hdr_off ncol nrefl <= HDR_OFF_MAX -> Z.of_nat (length d) = ncol * nrefl ->
  read_prefix (file_prefix_swapped ncol nrefl d ++ rest) = Some (hdr_off ncol nrefl, d, rest).
Proof.
  intros ncol nrefl d rest Hc Hr Hlt Hd. unfold read_prefix, file_prefix_swapped.
  change (let f := first20 ncol nrefl in
          firstn 4 f ++ rev (firstn 4 (skipn 4 f)) ++ [17; 17; 0; 0] ++ rev (firstn 8 (skipn 12 f)) ++
          repeat 0 60 ++ write_data (map swap4 d))
    with (let f := first20 ncol nrefl in
          firstn 4 f ++ rev (firstn 4 (skipn 4 f)) ++ [17; 17; 0; 0] ++ rev (firstn 8 (skipn 12 f)) ++
          repeat 0 60 ++ write_data (map swap4 d)).
  cbv zeta.
  assert (E : forall tl, (firstn 4 (first20 ncol nrefl) ++ rev (firstn 4 (skipn 4 (first20 ncol nrefl))) ++
             [17; 17; 0; 0] ++ rev (firstn 8 (skipn 12 (first20 ncol nrefl))) ++ tl) =
             first20_swapped ncol nrefl ++ tl).
  { intros tl. unfold first20_swapped. cbv zeta. rewrite <- !app_assoc. reflexivity. }
  rewrite <- !app_assoc. rewrite E.
  rewrite firstn_app_exact' by (symmetry; apply first20_swapped_len).
  rewrite read_first_swapped20 by assumption.
  rewrite (app_assoc (first20_swapped ncol nrefl)). rewrite skipn_app_exact
    by (rewrite app_length, first20_swapped_len, repeat_length; reflexivity).
  replace (Z.to_nat (hdr_off ncol nrefl - 1 - 20)) with (length d) by (unfold hdr_off; lia).
  rewrite data_swapped. reflexivity.
Qed.

(* header-offset arithmetic of the reader: number of data words and the byte position of the headers *)
Lemma header_offset_arith : forall ncol nrefl,
  hdr_off ncol nrefl - 1 - 20 = ncol * nrefl /\
  4 * (hdr_off ncol nrefl - 1) = 80 + 4 * (ncol * nrefl).
Proof. intros; unfold hdr_off; lia. Qed.

(* the 64-bit escape is used exactly when the offset does not fit an int32, and then bytes 4..7 hold -1 *)
Lemma first20_escape : forall ncol nrefl, INT32_MAX < hdr_off ncol nrefl ->
  firstn 4 (skipn 4 (first20 ncol nrefl)) = enc32 (-1).
Proof.
  intros ncol nrefl H. unfold first20, hdr_off in *.
  destruct (Z.ltb_spec INT32_MAX (ncol * nrefl + 21)); [reflexivity|lia].
Qed.
