(* Model of the MTZ -> mmCIF "recipe" decision of src/mtz2cif.cpp: find_column_index, check_format,
   parse_spec_line (with its '?' / '&' groups, $variables, {prev} substitution, less_anomalous option) and
   prepare_recipe (empty / duplicated-tag refusal, insertion of index_h/k/l).  The specification lines are the raw
   text lines; the MTZ file is seen as its list of (label, type) columns.  None = the code calls fail(). *)
From GV Require Import Base.Str Mtz.Fmt Mtz.SpecDefs.
Local Open Scope Z_scope.

Record mcol := mkCol { cl_label : str; cl_type : Z }.

(* struct Trans *)
Record trans := mkTr { tr_col : Z; tr_status : bool; tr_tag : str; tr_format : str; tr_minw : Z }.

Definition VDOT : Z := -1.
Definition VQMARK : Z := -2.
Definition VCOUNTER : Z := -3.
Definition VDATASET : Z := -4.
Definition VIMAGE : Z := -5.

(* ---- atox.hpp: read_word = skip_blank then skip_word ---- *)
Definition is_blank (c : Z) : bool := (c =? 32) || (c =? 9).
Fixpoint take_word (s : str) : str * str :=
  match s with
  | [] => ([], [])
  | c :: t => if (c =? 0) || is_cspace c then ([], s) else let '(w, r) := take_word t in (c :: w, r)
  end.
Definition read_word (s : str) : str * str := take_word (skip_while is_blank s).

(* ---- find_column_index ---- *)
Fixpoint find_label (lab : str) (cols : list mcol) (i : Z) : option Z :=
  match cols with
  | [] => None
  | c :: t => if str_eqb (cl_label c) lab then Some i else find_label lab t (i + 1)
  end.
Fixpoint find_alts (alts : list str) (cols : list mcol) : option Z :=
  match alts with
  | [] => None
  | a :: t => match find_label a cols 0 with Some i => Some i | None => find_alts t cols end
  end.
Definition find_column_index (column : str) (cols : list mcol) : option Z :=
  find_alts (split_on 124 column []) cols.

(* ---- check_format ---- *)
Definition has (c : Z) (s : str) : bool := existsb (Z.eqb c) s.
Definition is_alpha (c : Z) : bool := ((65 <=? c) && (c <=? 90)) || ((97 <=? c) && (c <=? 122)).
Definition alpha_up (c : Z) : Z := if 97 <=? c then c - 32 else c.
Definition check_format (fmt : str) : option Z :=
  if has 37 fmt then None else
  let p0 := if (cur fmt =? 95) || (cur fmt =? 43) || (cur fmt =? 45) || (cur fmt =? 35) then adv fmt else fmt in
  let '(mw, p1) :=
    if is_digit (cur p0) then
      let m := cur p0 - 48 in
      let q := adv p0 in
      if is_digit (cur q) then (m * 10 + (cur q - 48), adv q) else (m, q)
    else (0, p0) in
  let p2 :=
    if (cur p1 =? 46) && is_digit (cur (adv p1)) then
      let q := adv (adv p1) in if is_digit (cur q) then adv q else q
    else p1 in
  if negb (is_alpha (cur p2)) || negb (cur (adv p2) =? 0) then None else
  let c := alpha_up (cur p2) in
  if negb ((c =? 70) || (c =? 71) || (c =? 69)) then None else
  if 32 <? mw then None else Some mw.

(* ---- parse_spec_line ---- *)
Record opts := mkOpts { o_less : Z; o_merged : bool; o_star_empty : bool }.
Record pstate := mkPs { ps_recipe : list trans; ps_ver : nat; ps_discard : bool }.

Definition count_type (t : Z) (cols : list mcol) : Z :=
  Z.of_nat (length (filter (fun c => cl_type c =? t) cols)).

Definition COUNTER : str := [99;111;117;110;116;101;114].
Definition DATASET : str := [100;97;116;97;115;101;116].
Definition IMAGE : str := [105;109;97;103;101].

Definition var_code (column : str) (merged : bool) : option Z :=
  let two := (length column =? 2)%nat in
  if two && (cur (tl column) =? 46) then Some VDOT
  else if two && (cur (tl column) =? 63) then Some VQMARK
  else if merged then None else
    let t := tl column in
    if str_eqb (firstn 7 t) COUNTER then Some VCOUNTER
    else if str_eqb (firstn 7 t) DATASET then Some VDATASET
    else if str_eqb (firstn 5 t) IMAGE then Some VIMAGE
    else None.

Definition last_col (r : list trans) : option Z :=
  match rev r with [] => None | t :: _ => Some (tr_col t) end.

Definition label_at (cols : list mcol) (i : Z) : str :=
  cl_label (nth (Z.to_nat i) cols (mkCol [] 0)).
Definition type_at (cols : list mcol) (i : Z) : Z :=
  cl_type (nth (Z.to_nat i) cols (mkCol [] 0)).

(* the discard outcome: recipe.resize(verified_spec_size); discard_next_line = true *)
Definition discard (st : pstate) : pstate := mkPs (firstn (ps_ver st) (ps_recipe st)) (ps_ver st) true.

(* the format word: "" keeps "%g", "S" marks the status column (refused on a variable since the repair; the snapshot
   then indexed mtz.columns[-2]), anything else must pass check_format *)
Definition finish (st : pstate) (col : Z) (tag : str) (p : str) : option pstate :=
  let '(fmt, _) := read_word p in
  let push := fun t => Some (mkPs (ps_recipe st ++ [t]) (ps_ver st) (ps_discard st)) in
  match fmt with
  | [] => push (mkTr col false tag [37; 103] 0)
  | c :: f =>
    if str_eqb fmt [83] then (if col <? 0 then None else push (mkTr col true tag [37; 103] 0)) else
    match check_format fmt with
    | None => None
    | Some mw => push (mkTr col false tag (37 :: (if c =? 95 then 32 else c) :: f) mw)
    end
  end.

Definition parse_line (o : opts) (cols : list mcol) (st0 : pstate) (line0 : str) : option pstate :=
  let line := cstr line0 in
  let amp := cur line =? 38 in
  if amp && ps_discard st0 then Some st0 else
  let st := if amp then st0 else mkPs (ps_recipe st0) (length (ps_recipe st0)) false in
  let optional := (cur line =? 63) || amp in
  let p := if optional then adv line else line in
  let '(column, p1) := read_word p in
  if cur column =? 36 then
    (* a $variable: no type word *)
    let '(tag, p2) := read_word p1 in
    if (cur tag =? 95) || has 46 tag then None else
    match var_code column (o_merged o) with
    | None => None
    | Some v => finish st v tag p2
    end
  else
    let '(ty, p2) := read_word p1 in
    match ty with
    | [ct] =>
      let is_i_ano := (ct =? 75) || (ct =? 77) in
      let drop :=
        (0 <? o_less o) &&
        (if o_less o =? 1
         then is_i_ano && negb (count_type 74 cols =? 0) && (1 <? count_type 71 cols) && o_star_empty o
         else is_i_ano || (ct =? 71) || (ct =? 68) || (ct =? 76)) in
      if drop then Some (discard st) else
      let '(tag, p3) := read_word p2 in
      if (cur tag =? 95) || has 46 tag then None else
      let column' :=
        match last_col (ps_recipe st) with
        | Some i => if has 123 column && (0 <=? i) then subst_prev (label_at cols i) column else column
        | None => column
        end in
      match find_column_index column' cols with
      | None => if optional then Some (discard st) else None
      | Some i =>
        if negb (ct =? 42) && negb (type_at cols i =? ct) then None else finish st i tag p3
      end
    | _ => None
    end.

Fixpoint parse_lines (o : opts) (cols : list mcol) (st : pstate) (lines : list str) : option pstate :=
  match lines with
  | [] => Some st
  | l :: t => match parse_line o cols st l with None => None | Some st' => parse_lines o cols st' t end
  end.

Fixpoint dup_tags (r : list trans) : bool :=
  match r with
  | [] => false
  | t :: u => existsb (fun x => str_eqb (tr_tag t) (tr_tag x)) u || dup_tags u
  end.

Definition INDEX_ : str := [105;110;100;101;120;95].
Definition add_index (i : Z) (letter : Z) (r : list trans) : list trans :=
  if existsb (fun t => tr_col t =? i) r then r else mkTr i false (INDEX_ ++ [letter]) [37; 103] 0 :: r.

(* the repaired order: index_h/k/l are inserted first, the duplicated-tag test sees the final recipe *)
Definition prepare_recipe (o : opts) (cols : list mcol) (lines : list str) : option (list trans) :=
  match parse_lines o cols (mkPs [] 0 false) lines with
  | None => None
  | Some st =>
    match ps_recipe st with
    | [] => None
    | r => let r' := add_index 0 104 (add_index 1 107 (add_index 2 108 r)) in
           if dup_tags r' then None else Some r'
    end
  end.

(* the pinned snapshot tested for duplicates BEFORE the insertion *)
Definition prepare_recipe_orig (o : opts) (cols : list mcol) (lines : list str) : option (list trans) :=
  match parse_lines o cols (mkPs [] 0 false) lines with
  | None => None
  | Some st =>
    match ps_recipe st with
    | [] => None
    | r => if dup_tags r then None else Some (add_index 0 104 (add_index 1 107 (add_index 2 108 r)))
    end
  end.

(* what the written file shows of a recipe: the tags of the loop, and "label -> tag" for entries that copy a column *)
Definition shown (cols : list mcol) (r : list trans) : list (str * option str) :=
  map (fun t => (tr_tag t, if 0 <=? tr_col t then Some (label_at cols (tr_col t)) else None)) r.

(* splitting a raw default-spec line into the structured form used by SpecDefs (for the tie between the two) *)
Definition struct_of_line (line : str) : m2c_line :=
  let opt := if cur line =? 63 then 1 else if cur line =? 38 then 2 else 0 in
  let p := if 0 <? opt then adv line else line in
  let '(column, p1) := read_word p in
  if cur column =? 36 then
    let '(tag, p2) := read_word p1 in
    let '(fmt, _) := read_word p2 in mkM2c opt [column] 0 tag fmt
  else
    let '(ty, p2) := read_word p1 in
    let '(tag, p3) := read_word p2 in
    let '(fmt, _) := read_word p3 in mkM2c opt (split_on 124 column []) (cur ty) tag fmt.
