(* Proofs about the row-buffer machine of mtz2cif (RowBuf.v). *)
From GV Require Import Base.Str Mtz.Fmt Mtz.FmtProofs Mtz.RowBuf.
From Coq Require Import Lia.
Local Open Scope Z_scope.

(* state invariant between operations *)
Definition inv (n : nat) (s : rb) : Prop := length (rb_buf s) = ROWBUF /\ (rb_ptr s <= n)%nat.

Lemma put_ok : forall s w adv n, inv n s -> (n + length w <= ROWBUF)%nat ->
  exists s1, put s w adv = Some s1 /\ length (rb_buf s1) = ROWBUF /\ rb_ptr s1 = (rb_ptr s + adv)%nat.
Proof.
  intros s w adv n [Hb Hp] Hw. unfold put.
  assert (Hst : store (rb_buf s) (rb_ptr s) w = Some (overwrite (rb_buf s) (rb_ptr s) w)).
  { apply store_ok. lia. }
  rewrite Hst. eexists; split; [reflexivity|]. cbn. split; [|reflexivity].
  erewrite store_len; [exact Hb|exact Hst].
Qed.

Lemma flush_inv : forall s, length (rb_buf s) = ROWBUF -> inv 0 (flush s).
Proof. intros s H. split; [exact H|cbn; lia]. Qed.

Lemma num_slot_len : forall t : str, (length (firstn 31 t ++ [0%Z]) <= 32)%nat.
Proof. intros. rewrite app_length, firstn_length. cbn [length]. lia. Qed.

(* the repaired item writer: from ptr <= 220 it stays inside the buffer and ends with ptr <= 252 *)
Lemma put_item_ok : forall s it, inv 220 s -> item_ok it ->
  exists s1, put_item s it = Some s1 /\ inv 252 s1.
Proof.
  intros s it Hinv Hok. pose proof Hinv as [Hb Hp]. unfold ROWBUF in *.
  destruct it as [t|c|w|t]; cbn [put_item put_item_orig item_ok] in *.
  - destruct (put_ok s t (length t) 220 Hinv ltac:(unfold ROWBUF; lia)) as (s1 & E & Hb1 & Hp1).
    exists s1. split; [exact E|]. split; [exact Hb1|lia].
  - destruct (put_ok s [c] 1 220 Hinv ltac:(unfold ROWBUF; cbn; lia)) as (s1 & E & Hb1 & Hp1).
    exists s1. split; [exact E|]. split; [exact Hb1|lia].
  - assert (Hl : (length (nan_text w) <= 32)%nat).
    { unfold nan_text. rewrite app_length, spaces_len. cbn [length]. lia. }
    destruct (put_ok s (nan_text w) (length (nan_text w)) 220 Hinv ltac:(unfold ROWBUF; lia)) as (s1 & E & Hb1 & Hp1).
    exists s1. split; [exact E|]. split; [exact Hb1|lia].
  - pose proof (num_slot_len t) as Hl.
    destruct (put_ok s (firstn 31 t ++ [0]) 0 220 Hinv ltac:(unfold ROWBUF; lia)) as (s1 & E & Hb1 & Hp1).
    rewrite E. destruct (Nat.ltb_spec (length t) 32) as [Hs|Hbig].
    + eexists; split; [reflexivity|]. split; cbn; [exact Hb1|lia].
    + assert (Hl2 : (length (firstn 255 t ++ [0%Z]) <= 256)%nat).
      { rewrite app_length, firstn_length. cbn [length]. lia. }
      destruct (put_ok (flush s1) (firstn 255 t ++ [0]) 0 0 (flush_inv s1 Hb1) ltac:(unfold ROWBUF; lia))
        as (s3 & E3 & Hb3 & Hp3).
      rewrite E3. eexists; split; [reflexivity|]. split; cbn; [exact Hb3|lia].
Qed.

Lemma step_item_ok : forall first s it, inv 252 s -> item_ok it ->
  exists s1, step_item put_item first s it = Some s1 /\ inv 252 s1.
Proof.
  intros first s it Hinv Hok. unfold step_item.
  assert (H1 : exists s1, (if first then Some s else put s [32] 1) = Some s1 /\ inv 253 s1).
  { destruct first.
    - exists s. split; [reflexivity|]. destruct Hinv; split; [assumption|lia].
    - destruct (put_ok s [32] 1 252 Hinv ltac:(unfold ROWBUF; cbn; lia)) as (s1 & E & Hb1 & Hp1).
      exists s1. split; [exact E|]. destruct Hinv. split; [exact Hb1|lia]. }
  destruct H1 as (s1 & E1 & Hb1 & Hp1). rewrite E1.
  apply put_item_ok; [|exact Hok].
  destruct (Nat.ltb_spec 220 (rb_ptr s1)).
  - destruct (flush_inv s1 Hb1). split; [assumption|lia].
  - split; [exact Hb1|lia].
Qed.

Lemma row_items_ok : forall l first s, inv 252 s -> Forall item_ok l ->
  exists s1, row_items put_item first s l = Some s1 /\ inv 252 s1.
Proof.
  induction l as [|it t IH]; intros first s Hinv Hok.
  - exists s; split; [reflexivity|exact Hinv].
  - inversion Hok as [|? ? Hi Ht]; subst. cbn [row_items].
    destruct (step_item_ok first s it Hinv Hi) as (s1 & E & Hinv1). rewrite E. apply IH; assumption.
Qed.

Definition row_ok (r : list item) : Prop := r <> [] /\ Forall item_ok r.

Lemma do_rows_ok : forall rows s, inv 253 s -> Forall row_ok rows ->
  exists s1, do_rows put_item s rows = Some s1 /\ inv 253 s1.
Proof.
  induction rows as [|r t IH]; intros s Hinv Hok.
  - exists s; split; [reflexivity|exact Hinv].
  - inversion Hok as [|? ? Hr Ht]; subst. cbn [do_rows]. unfold do_row.
    destruct Hr as [Hne Hr].
    (* the first item of a row is preceded by the flush test only: ptr <= 253 is enough *)
    assert (Hrow : exists s1, row_items put_item true s r = Some s1 /\ inv 252 s1).
    { destruct r as [|it r']; [contradiction|].
      inversion Hr as [|? ? Hi Hr']; subst. cbn [row_items]. unfold step_item.
      assert (Hf : inv 220 (if (220 <? rb_ptr s)%nat then flush s else s)).
      { destruct Hinv as [Hb Hp]. destruct (Nat.ltb_spec 220 (rb_ptr s)).
        - destruct (flush_inv s Hb). split; [assumption|lia].
        - split; [exact Hb|lia]. }
      destruct (put_item_ok _ it Hf Hi) as (s1 & E & Hinv1). rewrite E.
      apply row_items_ok; assumption. }
    destruct Hrow as (s1 & E & Hinv1). rewrite E.
    destruct (put_ok s1 [10] 1 252 Hinv1 ltac:(unfold ROWBUF; cbn; lia)) as (s2 & E2 & Hb2 & Hp2).
    rewrite E2. apply IH; [|exact Ht]. destruct Hinv1. split; [exact Hb2|lia].
Qed.

(* the repaired formatter never stores outside buf[256], for all recipes, values and formats *)
Lemma loop_body_safe : forall rows, Forall row_ok rows -> exists out, loop_body put_item rows = Some out.
Proof.
  intros rows H. unfold loop_body.
  destruct (do_rows_ok rows rb0 ltac:(split; [reflexivity|cbn; lia]) H) as (s1 & E & _).
  rewrite E. eauto.
Qed.

(* the snapshot's formatter: four numbers of 100 characters (a user format such as %.60f) leave the buffer *)
Definition wide_row : list item := repeat (INum (repeat 49 100)) 4.
Lemma wide_row_ok : Forall row_ok [wide_row].
Proof. repeat constructor; discriminate. Qed.
Lemma loop_body_orig_overflows : loop_body put_item_orig [wide_row] = None.
Proof. vm_compute. reflexivity. Qed.

(* and with the default format of pdbx_PHWT (.3f) a value of 1e30 (35 characters) corrupts the text:
   a NUL and stale bytes are emitted instead of the digits *)
Definition phwt_row : list item := [INum (49 :: repeat 48 30 ++ [46; 48; 48; 48])].
Lemma loop_body_orig_corrupts :
  exists out, loop_body put_item_orig [phwt_row] = Some out /\ out <> body_spec [phwt_row].
Proof. eexists. split; [vm_compute; reflexivity|]. vm_compute. discriminate. Qed.
Lemma loop_body_fixed_phwt : loop_body put_item [phwt_row] = Some (body_spec [phwt_row]).
Proof. vm_compute. reflexivity. Qed.
Lemma loop_body_fixed_wide : loop_body put_item [wide_row] = Some (body_spec [wide_row]).
Proof. vm_compute. reflexivity. Qed.
