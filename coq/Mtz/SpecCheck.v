(* The default MTZ->mmCIF specification is inverted by the default mmCIF->MTZ specification (finite check over
   the tables dumped from the code). *)
From GV Require Import Base.Str Mtz.SpecDefs Mtz.Spec_gen.
Local Open Scope Z_scope.

Lemma spec_inverse_merged : inverse_ok c2m_merged [] m2c_merged = true.
Proof. vm_compute. reflexivity. Qed.
Lemma spec_inverse_unmerged : inverse_ok c2m_unmerged [] m2c_unmerged = true.
Proof. vm_compute. reflexivity. Qed.
Lemma spec_status_codes : status_codes_ok c2m_merged = true.
Proof. vm_compute. reflexivity. Qed.
Lemma spec_tables_nonempty : (length m2c_merged >= 20)%nat /\ (length c2m_merged >= 20)%nat /\ (length m2c_unmerged >= 5)%nat.
Proof. vm_compute. repeat split; repeat constructor. Qed.

Lemma str_eqb_true : forall a b, str_eqb a b = true -> a = b.
Proof.
  induction a as [|u a' IH]; intros [|v b']; cbn; try discriminate; auto.
  intros Hb. apply andb_prop in Hb. destruct Hb as [Huv Hr]. apply Z.eqb_eq in Huv. subst. f_equal. apply IH. exact Hr.
Qed.

(* what inverse_ok = true means, for any member of the table *)
Lemma inverse_ok_spec : forall c2m l prev, inverse_ok c2m prev l = true ->
  forall e, In e l -> is_var e = false ->
  exists c, lookup (m_tag e) (builtin_hkl ++ c2m) = Some c /\ c_ty c = m_type e /\
            exists a p, In a (m_alts e) /\ subst_prev p a = c_lab c.
Proof.
  induction l as [|x t IH]; intros prev H e Hin Hv; [contradiction|].
  cbn [inverse_ok] in H. destruct Hin as [->|Hin].
  - rewrite Hv in H. destruct (lookup (m_tag e) (builtin_hkl ++ c2m)) as [c|]; [|discriminate].
    apply andb_prop in H. destruct H as [H _]. apply andb_prop in H. destruct H as [Hty Hex].
    exists c. split; [reflexivity|]. split; [apply Z.eqb_eq; exact Hty|].
    apply existsb_exists in Hex. destruct Hex as (a & Ha & Heq). exists a, prev. split; [exact Ha|].
    apply str_eqb_true. exact Heq.
  - destruct (is_var x).
    + eapply IH; eauto.
    + destruct (lookup (m_tag x) (builtin_hkl ++ c2m)) as [c|]; [|discriminate].
      apply andb_prop in H. destruct H as [_ H]. eapply IH; eauto.
Qed.
