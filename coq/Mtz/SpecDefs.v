(* Shapes of the default conversion specification tables (filled by gen/dump_mtzspec.cpp) and the
   executable check that the CIF->MTZ table inverts the MTZ->CIF table. *)
From GV Require Import Base.Str.
Local Open Scope Z_scope.

(* one line of MtzToCif::default_spec: optional marker (0 none, 1 '?', 2 '&'), label alternatives
   (or a $variable), MTZ type (0 for variables), tag, format *)
Record m2c_line := mkM2c { m_opt : Z; m_alts : list str; m_type : Z; m_tag : str; m_fmt : str }.
(* one line of CifToMtz::default_spec: tag, column label, type, dataset id, code mapping *)
Record c2m_line := mkC2m { c_tag : str; c_lab : str; c_ty : Z; c_dsid : Z; c_codes : str }.

Definition is_var (e : m2c_line) : bool := match m_alts e with (36 :: _) :: _ => true | _ => false end.

(* "{prev}" inside a label alternative is replaced by the previous column's label *)
Definition PREV : str := [123; 112; 114; 101; 118; 125].
Fixpoint starts_with (p s : str) : bool :=
  match p, s with
  | [], _ => true
  | a :: p', b :: s' => (a =? b) && starts_with p' s'
  | _, [] => false
  end.
Fixpoint subst_prev_aux (prev : str) (skip : nat) (s : str) : str :=
  match s with
  | [] => []
  | c :: t =>
    match skip with
    | S k => subst_prev_aux prev k t
    | O => if starts_with PREV s then prev ++ subst_prev_aux prev 5 t else c :: subst_prev_aux prev 0 t
    end
  end.
Definition subst_prev (prev s : str) : str := subst_prev_aux prev 0 s.

(* convert_block_to_mtz always creates H, K, L from index_h/k/l before looking at the specification *)
Definition builtin_hkl : list c2m_line :=
  [mkC2m [105;110;100;101;120;95;104] [72] 72 0 []; mkC2m [105;110;100;101;120;95;107] [75] 72 0 [];
   mkC2m [105;110;100;101;120;95;108] [76] 72 0 []].

Definition lookup (tag : str) (t : list c2m_line) : option c2m_line := find (fun c => str_eqb (c_tag c) tag) t.

(* for every line that maps a column: the tag is known to the inverse table, with the same type, and the label
   the inverse gives is one of the line's alternatives ({prev} = the inverse label of the previous line) *)
Fixpoint inverse_ok (c2m : list c2m_line) (prev : str) (l : list m2c_line) : bool :=
  match l with
  | [] => true
  | e :: t =>
    if is_var e then inverse_ok c2m prev t else
    match lookup (m_tag e) (builtin_hkl ++ c2m) with
    | None => false
    | Some c => (c_ty c =? m_type e) && existsb (fun a => str_eqb (subst_prev prev a) (c_lab c)) (m_alts e) &&
                inverse_ok c2m (c_lab c) t
    end
  end.

(* the status line is the only one with a code mapping; free = 'f' -> 0, observed 'o' -> 1 *)
Definition status_codes_ok (c2m : list c2m_line) : bool :=
  match lookup [115;116;97;116;117;115] c2m with
  | Some c => str_eqb (c_codes c) [111;61;49;44;102;61;48] && (c_ty c =? 73)
  | None => false
  end.
