(* Formatting primitives of the MTZ header writer (src/mtz.cpp): printf directives over byte strings,
   the 81-byte stack buffer `buf` as a bounded-store machine, the WRITE macro, the BATCH line packer.
   Model only: proofs are in FmtProofs.v. Floats never appear: their printed text is an input. *)
From GV Require Import Base.Str.
Local Open Scope Z_scope.

Definition spaces (n : nat) : str := repeat 32 n.
(* "%<w>s" / "%<w>d": right-justified in w, never truncated *)
Definition padl (w : nat) (s : str) : str := spaces (w - length s) ++ s.
(* "%-<w>s" *)
Definition padr (w : nat) (s : str) : str := s ++ spaces (w - length s).
Definition fmt_d (w : nat) (n : Z) : str := padl w (print_int n).
(* std::string::c_str() seen by "%s": stops at the first NUL *)
Fixpoint cstr (s : str) : str :=
  match s with
  | [] => []
  | c :: t => if c =? 0 then [] else c :: cstr t
  end.

(* ---- bounded buffer: every store is checked against the buffer length (char buf[81]) *)
Definition BUFSZ : nat := 81.
Definition overwrite (buf : str) (pos : nat) (w : str) : str :=
  firstn pos buf ++ w ++ skipn (pos + length w) buf.
Definition store (buf : str) (pos : nat) (w : str) : option str :=
  if (pos + length w <=? length buf)%nat then Some (overwrite buf pos w) else None.
(* snprintf_z(buf+pos, count, fmt, ...) where the fully formatted text is s:
   stores min(|s|, count-1) characters and a NUL, returns the UNTRUNCATED length |s| (stb semantics) *)
Definition snprintf_at (buf : str) (pos count : nat) (s : str) : option (str * nat) :=
  match store buf pos (firstn (count - 1) s ++ [0]) with
  | Some b => Some (b, length s)
  | None => None
  end.
Definition memset_at (buf : str) (pos n : nat) (c : Z) : option str := store buf pos (repeat c n).

(* #define WRITE(...)  len = snprintf_z(buf, 81, ...); if (len < 80) memset(buf+len, ' ', 80-len); write(buf, 80, 1) *)
Definition WRITE (buf : str) (s : str) : option (str * str) :=
  match snprintf_at buf 0 81 s with
  | None => None
  | Some (b1, len) =>
    match (if (len <? 80)%nat then memset_at b1 len (80 - len) 32 else Some b1) with
    | None => None
    | Some b2 => Some (b2, firstn 80 b2)
    end
  end.
(* what WRITE emits, as a pure function (WRITE_spec in FmtProofs.v) *)
Definition write_rec (s : str) : str := firstn 80 s ++ spaces (80 - length s).

Definition is_nil {A} (l : list A) : bool := match l with [] => true | _ => false end.
Definition BATCH_ : str := [66; 65; 84; 67; 72; 32].

(* The BATCH line packer exactly as in the pinned snapshot:
     if (pos == 0) memcpy(buf, "BATCH ", 6);
     pos += 6;
     snprintf_z(buf + pos, 7, "%6d", batch.number);
     if (pos > 72 || last) { memset(buf + pos, ' ', 80 - pos); write(buf, 80, 1); pos = 0; }  *)
Fixpoint batch_pack_orig (buf : str) (pos : nat) (nums : list Z) : option (str * list str) :=
  match nums with
  | [] => Some (buf, [])
  | n :: rest =>
    match (if (pos =? 0)%nat then store buf 0 BATCH_ else Some buf) with
    | None => None
    | Some b0 =>
      let pos1 := (pos + 6)%nat in
      match snprintf_at b0 pos1 7 (fmt_d 6 n) with
      | None => None
      | Some (b1, _) =>
        if (72 <? pos1)%nat || is_nil rest then
          match memset_at b1 pos1 (80 - pos1) 32 with
          | None => None
          | Some b2 =>
            match batch_pack_orig b2 0 rest with
            | None => None
            | Some (b3, out) => Some (b3, firstn 80 b2 :: out)
            end
          end
        else batch_pack_orig b1 pos1 rest
      end
    end
  end.

(* The repaired packer (fix commit in the repo clone):
     if (pos == 0) { memcpy(buf, "BATCH ", 6); pos = 6; }
     snprintf_z(buf + pos, 7, "%6d", batch.number);
     pos += 6;
     if (pos > 72 || last) { memset(buf + pos, ' ', 80 - pos); write(buf, 80, 1); pos = 0; }  *)
Fixpoint batch_pack (buf : str) (pos : nat) (nums : list Z) : option (str * list str) :=
  match nums with
  | [] => Some (buf, [])
  | n :: rest =>
    match (if (pos =? 0)%nat then store buf 0 BATCH_ else Some buf) with
    | None => None
    | Some b0 =>
      let pos0 := if (pos =? 0)%nat then 6%nat else pos in
      match snprintf_at b0 pos0 7 (fmt_d 6 n) with
      | None => None
      | Some (b1, _) =>
        let pos1 := (pos0 + 6)%nat in
        if (72 <? pos1)%nat || is_nil rest then
          match memset_at b1 pos1 (80 - pos1) 32 with
          | None => None
          | Some b2 =>
            match batch_pack b2 0 rest with
            | None => None
            | Some (b3, out) => Some (b3, firstn 80 b2 :: out)
            end
          end
        else batch_pack b1 pos1 rest
      end
    end
  end.

(* One step of the header writer: a WRITE of an already formatted text, or the BATCH packer. *)
Inductive step := SW (s : str) | SB (nums : list Z).

Fixpoint run_steps (packer : str -> nat -> list Z -> option (str * list str))
                   (buf : str) (l : list step) : option (list str) :=
  match l with
  | [] => Some []
  | SW s :: t =>
    match WRITE buf s with
    | None => None
    | Some (b, r) => match run_steps packer b t with None => None | Some out => Some (r :: out) end
    end
  | SB nums :: t =>
    match packer buf 0%nat nums with
    | None => None
    | Some (b, rs) => match run_steps packer b t with None => None | Some out => Some (rs ++ out) end
    end
  end.

(* char buf[81] = {'M','T','Z',' ','\0'} *)
Definition buf0 : str := [77; 84; 90; 32] ++ repeat 0 77.
