(* MTZ header records: printers (Mtz::write_to_stream) and the per-record parser
   (Mtz::read_main_headers, read_history_and_batch_headers) of src/mtz.cpp.
   Floats are abstract: the text produced by their printf directive is a field of the model
   (supplied by the harness); the parser skips a float as one blank-delimited token. *)
From GV Require Import Base.Str Mtz.Fmt.
Local Open Scope Z_scope.

Record column := mkCol { c_label : str; c_type : Z; c_min : str; c_max : str; c_ds : Z; c_src : str }.
Record dataset := mkDs { d_id : Z; d_proj : str; d_crys : str; d_name : str; d_cell : list str; d_wave : str }.
Record batch := mkBatch { b_num : Z; b_title : str; b_nint : Z; b_nflt : Z; b_ax0 : str; b_ax1 : str; b_ax2 : str }.
Record mtz := mkMtz {
  m_title : str; m_nrefl : Z; m_cell : option (list str); m_sort : list Z;
  m_nsym : Z; m_nprim : Z; m_lat : Z; m_ccp4 : Z; m_hm : str; m_pg : str; m_symm : list str;
  m_reso0 : str; m_reso1 : str; m_valm : option str;
  m_cols : list column; m_dss : list dataset; m_batches : list batch; m_hist : list str }.

Definition zlen {A} (l : list A) : Z := Z.of_nat (length l).
Definition SP : str := [32].
Fixpoint join_sp (l : list str) : str :=
  match l with [] => [] | [a] => a | a :: t => a ++ SP ++ join_sp t end.

(* ---------------------------------------------------------------- printers (formatted text before WRITE) *)
Definition s_VERS : str := [86;69;82;83;32;77;84;90;58;86;49;46;49].
Definition k_TITLE : str := [84;73;84;76;69;32].
Definition k_NCOL : str := [78;67;79;76;32].
Definition k_CELL : str := [67;69;76;76;32;32].
Definition k_SORT : str := [83;79;82;84;32;32].
Definition k_SYMINF : str := [83;89;77;73;78;70;32].
Definition k_SYMM : str := [83;89;77;77;32].
Definition k_RESO : str := [82;69;83;79;32].
Definition k_VALM : str := [86;65;76;77;32].
Definition s_NAN : str := [78;65;78].
Definition k_COLUMN : str := [67;79;76;85;77;78;32].
Definition k_COLSRC : str := [67;79;76;83;82;67;32].
Definition k_NDIF : str := [78;68;73;70;32].
Definition k_PROJECT : str := [80;82;79;74;69;67;84;32].
Definition k_CRYSTAL : str := [67;82;89;83;84;65;76;32].
Definition k_DATASET : str := [68;65;84;65;83;69;84;32].
Definition k_DCELL : str := [68;67;69;76;76;32].
Definition k_DWAVEL : str := [68;87;65;86;69;76;32].
Definition s_END : str := [69;78;68].
Definition k_MTZHIST : str := [77;84;90;72;73;83;84;32].
Definition s_MTZBATS : str := [77;84;90;66;65;84;83].
Definition k_BH : str := [66;72;32].
Definition k_BHCH : str := [66;72;67;72;32;32].
Definition s_MTZEND : str := [77;84;90;69;78;68;79;70;72;69;65;68;69;82;83].

Definition pr_title (t : str) : str := k_TITLE ++ cstr t.
Definition pr_ncol (ncol nrefl nbatch : Z) : str :=
  k_NCOL ++ fmt_d 8 ncol ++ SP ++ fmt_d 12 nrefl ++ SP ++ fmt_d 8 nbatch.
Definition pr_cell (texts : list str) : str := k_CELL ++ join_sp texts.
Definition pr_sort (l : list Z) : str := k_SORT ++ join_sp (map (fmt_d 3) l).
(* "SYMINF %3d %2d %c %5d %*s'%c%s' PG%s" with the star width 20 - strlen(hm) and an empty string *)
Definition pr_syminf (nsym nprim lat ccp4 : Z) (hm pg : str) : str :=
  k_SYMINF ++ fmt_d 3 nsym ++ SP ++ fmt_d 2 nprim ++ SP ++ [lat] ++ SP ++ fmt_d 5 ccp4 ++ SP ++
  spaces (Z.abs_nat (20 - zlen hm)) ++ [39] ++ [lat] ++ cstr (adv hm) ++ [39; 32; 80; 71] ++ cstr pg.
Definition pr_symm (t : str) : str := k_SYMM ++ cstr t.
Definition pr_reso (t0 t1 : str) : str := k_RESO ++ t0 ++ SP ++ t1.
Definition pr_valm (v : option str) : str := k_VALM ++ match v with None => s_NAN | Some t => t end.
(* format17: snprintf_z(buffer, 18, "%.9f", f); std::string(buffer, min(len, 17)) *)
Definition format17 (t : str) : str := firstn 17 t.
Definition label_or_us (l : str) : str := match l with [] => [95] | _ => cstr l end.
Definition pr_column (c : column) : str :=
  k_COLUMN ++ padr 30 (label_or_us (c_label c)) ++ SP ++ [c_type c] ++ SP ++
  padl 17 (format17 (c_min c)) ++ SP ++ padl 17 (format17 (c_max c)) ++ SP ++ fmt_d 4 (c_ds c).
Definition pr_colsrc (c : column) : str :=
  k_COLSRC ++ padr 30 (label_or_us (c_label c)) ++ SP ++ padr 36 (cstr (c_src c)) ++ SP ++ SP ++ fmt_d 4 (c_ds c).
Definition pr_ndif (n : Z) : str := k_NDIF ++ fmt_d 8 n.
Definition pr_dsname (k : str) (id : Z) (name : str) : str := k ++ fmt_d 7 id ++ SP ++ cstr name.
Definition pr_dcell (id : Z) (texts : list str) : str := k_DCELL ++ fmt_d 9 id ++ SP ++ concat texts.
Definition pr_dwavel (id : Z) (t : str) : str := k_DWAVEL ++ fmt_d 8 id ++ SP ++ t.
Definition pr_mtzhist (n : Z) : str := k_MTZHIST ++ fmt_d 3 n.
Definition pr_bh (b : batch) : str :=
  k_BH ++ fmt_d 8 (b_num b) ++ SP ++ fmt_d 7 (b_nint b + b_nflt b) ++ SP ++ fmt_d 7 (b_nint b) ++ SP ++ fmt_d 7 (b_nflt b).
(* "TITLE %.70s" *)
Definition pr_btitle (b : batch) : str := k_TITLE ++ firstn 70 (cstr (b_title b)).
(* "BHCH  %7.7s %7.7s %7.7s" *)
Definition ax7 (s : str) : str := padl 7 (firstn 7 (cstr s)).
Definition pr_bhch (b : batch) : str := k_BHCH ++ ax7 (b_ax0 b) ++ SP ++ ax7 (b_ax1 b) ++ SP ++ ax7 (b_ax2 b).

Definition col_steps (c : column) : list step :=
  SW (pr_column c) :: match cstr (c_src c) with [] => [] | _ => [SW (pr_colsrc c)] end.
Definition ds_steps (d : dataset) : list step :=
  [SW (pr_dsname k_PROJECT (d_id d) (d_proj d)); SW (pr_dsname k_CRYSTAL (d_id d) (d_crys d));
   SW (pr_dsname k_DATASET (d_id d) (d_name d)); SW (pr_dcell (d_id d) (d_cell d)); SW (pr_dwavel (d_id d) (d_wave d))].
Definition batch_steps (b : batch) : list step := [SW (pr_bh b); SW (pr_btitle b); SW (pr_bhch b)].

(* every 80-byte record of the file in order (the two binary blocks of each batch header, which sit
   between its TITLE and BHCH records, are raw copies and not part of this list) *)
Definition main_steps (m : mtz) : list step :=
  [SW s_VERS; SW (pr_title (m_title m));
   SW (pr_ncol (zlen (m_cols m)) (m_nrefl m) (zlen (m_batches m)))] ++
  match m_cell m with Some t => [SW (pr_cell t)] | None => [] end ++
  [SW (pr_sort (m_sort m));
   SW (pr_syminf (m_nsym m) (m_nprim m) (m_lat m) (m_ccp4 m) (m_hm m) (m_pg m))] ++
  map (fun t => SW (pr_symm t)) (m_symm m) ++
  [SW (pr_reso (m_reso0 m) (m_reso1 m)); SW (pr_valm (m_valm m))] ++
  flat_map col_steps (m_cols m) ++
  [SW (pr_ndif (zlen (m_dss m)))] ++
  flat_map ds_steps (m_dss m) ++
  [SB (map b_num (m_batches m)); SW s_END].
Definition tail_steps (m : mtz) : list step :=
  match m_hist m with
  | [] => []
  | _ => SW (pr_mtzhist (zlen (m_hist m))) :: map (fun l => SW (cstr l)) (m_hist m)
  end ++
  match m_batches m with
  | [] => []
  | _ => SW s_MTZBATS :: flat_map batch_steps (m_batches m)
  end ++ [SW s_MTZEND].
Definition header_steps (m : mtz) : list step := main_steps m ++ tail_steps m.

Definition emit_headers (m : mtz) : option (list str) := run_steps batch_pack buf0 (header_steps m).
Definition emit_headers_orig (m : mtz) : option (list str) := run_steps batch_pack_orig buf0 (header_steps m).

(* ---------------------------------------------------------------- the reader's helpers *)
Definition is_blank (c : Z) : bool := (c =? 32) || (c =? 9).
Definition word_char (c : Z) : bool := negb (c =? 0) && negb (is_cspace c).
Fixpoint take_while (p : Z -> bool) (s : str) : str :=
  match s with c :: t => if p c then c :: take_while p t else [] | [] => [] end.
(* skip_word_and_space (mtz.cpp) *)
Definition skip_word_and_space (s : str) : str := skip_while is_cspace (skip_while word_char s).
(* read_word(line, &end) (atox.hpp): skip blanks, take up to NUL/space *)
Definition read_word (s : str) : str * str :=
  let s1 := skip_while is_blank s in (take_while word_char s1, skip_while word_char s1).
(* simple_atoi(p, &end) (atox.hpp); int overflow is outside the model (FitsMtz bounds the values) *)
Definition simple_atoi (s : str) : Z * str :=
  let s1 := skip_while is_cspace s in
  let '(neg, s2) := match s1 with
                    | 45 :: t => (true, t)
                    | 43 :: t => (false, t)
                    | _ => (false, s1)
                    end in
  let '(v, rest) := digits_acc 0 s2 in ((if neg then - v else v), rest).
(* fast_atof(p, &end) on a well-formed number: the value is abstract, the end is after the token *)
Definition skip_float (s : str) : str := skip_while word_char (skip_while is_cspace s).
(* rtrim_str(std::string(cstr)): strip trailing " \r\n\t" *)
Definition is_trim (c : Z) : bool := (c =? 32) || (c =? 13) || (c =? 10) || (c =? 9).
Definition rtrim (s : str) : str := rev (skip_while is_trim (rev s)).
(* rtrim_cstr(start, end): strip trailing isspace *)
Definition rtrim_sp (s : str) : str := rev (skip_while is_cspace (rev s)).
(* ialpha4_id / ialpha3_id: case-insensitive by clearing bit 5 of every byte *)
Definition clr5 (c : Z) : Z := if Z.testbit c 5 then c - 32 else c.
Definition key4 (l : str) : str := map clr5 (firstn 4 l).
Definition key3 (l : str) : str := map clr5 (firstn 3 l).

Record pcol := mkPcol { pc_label : str; pc_type : Z; pc_ds : Z; pc_src : str }.
Record pds := mkPds { pd_id : Z; pd_proj : str; pd_crys : str; pd_name : str }.
Record pstate := mkP {
  p_title : str; p_ncol : Z; p_nrefl : Z; p_nbatch : Z; p_sort : list Z;
  p_nsymop : Z; p_sgnum : Z; p_sgname : str; p_nsymm : Z; p_valm_nan : bool;
  p_cols : list pcol (* newest first *); p_dss : list pds (* newest first *);
  p_has_batch : bool; p_notes : Z; p_fail : bool }.
Definition p0 : pstate := mkP [] 0 0 0 [0;0;0;0;0] 0 0 [] 0 true [] [] false 0 false.

Definition set_title st v := mkP v (p_ncol st) (p_nrefl st) (p_nbatch st) (p_sort st) (p_nsymop st) (p_sgnum st) (p_sgname st) (p_nsymm st) (p_valm_nan st) (p_cols st) (p_dss st) (p_has_batch st) (p_notes st) (p_fail st).
Definition set_ncol st a b c := mkP (p_title st) a b c (p_sort st) (p_nsymop st) (p_sgnum st) (p_sgname st) (p_nsymm st) (p_valm_nan st) (p_cols st) (p_dss st) (p_has_batch st) (p_notes st) (p_fail st).
Definition set_sort st v := mkP (p_title st) (p_ncol st) (p_nrefl st) (p_nbatch st) v (p_nsymop st) (p_sgnum st) (p_sgname st) (p_nsymm st) (p_valm_nan st) (p_cols st) (p_dss st) (p_has_batch st) (p_notes st) (p_fail st).
Definition set_symi st a b c := mkP (p_title st) (p_ncol st) (p_nrefl st) (p_nbatch st) (p_sort st) a b c (p_nsymm st) (p_valm_nan st) (p_cols st) (p_dss st) (p_has_batch st) (p_notes st) (p_fail st).
Definition inc_symm st := mkP (p_title st) (p_ncol st) (p_nrefl st) (p_nbatch st) (p_sort st) (p_nsymop st) (p_sgnum st) (p_sgname st) (p_nsymm st + 1) (p_valm_nan st) (p_cols st) (p_dss st) (p_has_batch st) (p_notes st) (p_fail st).
Definition set_valm st v := mkP (p_title st) (p_ncol st) (p_nrefl st) (p_nbatch st) (p_sort st) (p_nsymop st) (p_sgnum st) (p_sgname st) (p_nsymm st) v (p_cols st) (p_dss st) (p_has_batch st) (p_notes st) (p_fail st).
Definition set_cols st v := mkP (p_title st) (p_ncol st) (p_nrefl st) (p_nbatch st) (p_sort st) (p_nsymop st) (p_sgnum st) (p_sgname st) (p_nsymm st) (p_valm_nan st) v (p_dss st) (p_has_batch st) (p_notes st) (p_fail st).
Definition set_dss st v := mkP (p_title st) (p_ncol st) (p_nrefl st) (p_nbatch st) (p_sort st) (p_nsymop st) (p_sgnum st) (p_sgname st) (p_nsymm st) (p_valm_nan st) (p_cols st) v (p_has_batch st) (p_notes st) (p_fail st).
Definition set_hasb st := mkP (p_title st) (p_ncol st) (p_nrefl st) (p_nbatch st) (p_sort st) (p_nsymop st) (p_sgnum st) (p_sgname st) (p_nsymm st) (p_valm_nan st) (p_cols st) (p_dss st) true (p_notes st) (p_fail st).
Definition note st := mkP (p_title st) (p_ncol st) (p_nrefl st) (p_nbatch st) (p_sort st) (p_nsymop st) (p_sgnum st) (p_sgname st) (p_nsymm st) (p_valm_nan st) (p_cols st) (p_dss st) (p_has_batch st) (p_notes st + 1) (p_fail st).
Definition failp st := mkP (p_title st) (p_ncol st) (p_nrefl st) (p_nbatch st) (p_sort st) (p_nsymop st) (p_sgnum st) (p_sgname st) (p_nsymm st) (p_valm_nan st) (p_cols st) (p_dss st) (p_has_batch st) (p_notes st) true.

Definition K (a b c d : Z) : str := [a; b; c; d].

(* SORT: for (int& n : sort_order) n = simple_atoi(args, &args) *)
Fixpoint atoi_n (n : nat) (s : str) : list Z * str :=
  match n with
  | O => ([], s)
  | S k => let '(v, r) := simple_atoi s in let '(l, r2) := atoi_n k r in (v :: l, r2)
  end.

Definition parse_syminf (args : str) : Z * Z * str :=
  let '(nsymop, a1) := simple_atoi args in
  let '(_, a2) := simple_atoi a1 in
  let a3 := skip_word_and_space (skip_while is_blank a2) in
  let '(sgnum, a4) := simple_atoi a3 in
  let a5 := skip_while is_blank a4 in
  let name := if cur a5 =? 39 then
                (* strchr(++args, '\''): when no closing quote the name is left unchanged (empty here) *)
                let body := adv a5 in
                if existsb (fun c => c =? 39) (take_while (fun c => negb (c =? 0)) body)
                then take_while (fun c => negb (c =? 39)) body else []
              else fst (read_word a5) in
  (nsymop, sgnum, name).

Definition parse_column (args : str) : pcol :=
  let '(label, a1) := read_word args in
  let '(ty, a2) := read_word a1 in
  let a3 := skip_float a2 in
  let a4 := skip_float a3 in
  mkPcol label (cur ty) (fst (simple_atoi a4)) [].

(* one iteration of the loop of read_main_headers on an 80-byte line (after the END test) *)
Definition parse_record (st : pstate) (line : str) : pstate :=
  let args := skip_word_and_space line in
  let k := key4 line in
  if str_eqb k (K 86 69 82 83) then st
  else if str_eqb k (K 84 73 84 76) then set_title st (rtrim (cstr args))
  else if str_eqb k (K 78 67 79 76) then
    let '(a, r1) := simple_atoi args in let '(b, r2) := simple_atoi r1 in let '(c, _) := simple_atoi r2 in
    if (c <? 0) || (10000000 <? c) then failp st else set_ncol st a b c
  else if str_eqb k (K 67 69 76 76) then st
  else if str_eqb k (K 83 79 82 84) then set_sort st (fst (atoi_n 5 args))
  else if str_eqb k (K 83 89 77 73) then
    let '(a, b, c) := parse_syminf args in set_symi st a b c
  else if str_eqb k (K 83 89 77 77) then inc_symm st
  else if str_eqb k (K 82 69 83 79) then st
  else if str_eqb k (K 86 65 76 77) then (if cur args =? 78 then st else set_valm st false)
  else if str_eqb k (K 67 79 76 85) then set_cols st (parse_column args :: p_cols st)
  else if str_eqb k (K 67 79 76 83) then
    match p_cols st with
    | c :: t => let '(w, r) := read_word args in
                if str_eqb (pc_label c) w
                then set_cols st (mkPcol (pc_label c) (pc_type c) (pc_ds c) (fst (read_word r)) :: t)
                else note st
    | [] => note st
    end
  else if str_eqb k (K 67 79 76 71) then st
  else if str_eqb k (K 78 68 73 70) then st
  else if str_eqb k (K 80 82 79 74) then
    let '(id, r) := simple_atoi args in
    set_dss st (mkPds id (fst (read_word (skip_word_and_space r))) [] [] :: p_dss st)
  else if str_eqb k (K 67 82 89 83) then
    match p_dss st with
    | d :: t => let '(id, r) := simple_atoi args in
                if id =? pd_id d then set_dss st (mkPds (pd_id d) (pd_proj d) (fst (read_word r)) (pd_name d) :: t)
                else note st
    | [] => failp st
    end
  else if str_eqb k (K 68 65 84 65) then
    match p_dss st with
    | d :: t => let '(id, r) := simple_atoi args in
                if id =? pd_id d then set_dss st (mkPds (pd_id d) (pd_proj d) (pd_crys d) (fst (read_word r)) :: t)
                else note st
    | [] => failp st
    end
  else if str_eqb k (K 68 67 69 76) then
    match p_dss st with
    | d :: t => if fst (simple_atoi args) =? pd_id d then st else note st
    | [] => failp st
    end
  else if str_eqb k (K 68 87 65 86) then
    match p_dss st with
    | d :: t => if fst (simple_atoi args) =? pd_id d then st else note st
    | [] => failp st
    end
  else if str_eqb k (K 66 65 84 67) then set_hasb st
  else note st.

(* the whole loop: stops at the record whose first three letters are END *)
Fixpoint parse_main (st : pstate) (recs : list str) : pstate * list str :=
  match recs with
  | [] => (st, [])
  | r :: t => if str_eqb (key3 r) [69; 78; 68] then (st, t) else parse_main (parse_record st r) t
  end.

(* history line (after the repair): start = skip_blank(buf); end = rtrim_cstr(start, buf+80) *)
Definition parse_history_line (line : str) : str := rtrim_sp (skip_while is_blank line).
(* "MTZHIST %3d": n_headers = simple_atoi(skip_word_and_space(buf+4)) *)
Definition parse_mtzhist (line : str) : Z := fst (simple_atoi (skip_word_and_space (skipn 4 line))).
(* "BH ...": args = skip_blank(buf+2); number, total, ints, floats *)
Definition parse_bh (line : str) : Z * Z * Z * Z :=
  let '(l, _) := atoi_n 4 (skip_while is_blank (skipn 2 line)) in
  match l with [a; b; c; d] => (a, b, c, d) | _ => (0, 0, 0, 0) end.
(* batch TITLE record (after the repair): end = rtrim_cstr(buf+6, buf+76); title.assign(buf+6, end-(buf+6)) *)
Definition parse_btitle (line : str) : str := rtrim_sp (firstn 70 (skipn 6 line)).
(* as in the pinned snapshot: title.assign(buf, end - buf) keeps the keyword *)
Definition parse_btitle_orig (line : str) : str := firstn 6 line ++ rtrim_sp (firstn 70 (skipn 6 line)).
