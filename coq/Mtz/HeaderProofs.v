(* Proofs about the MTZ header model (Header.v): record width, and print -> parse round trips. *)
From GV Require Import Base.Str Mtz.Fmt Mtz.FmtProofs Mtz.Header.
From Coq Require Import Lia.
Local Open Scope Z_scope.

Lemma buf0_len : length buf0 = BUFSZ.
Proof. reflexivity. Qed.

(* every record of every header is 80 bytes and no store leaves buf[81]: emit_headers returns Some *)
Lemma emit_headers_all80 : forall m, exists recs, emit_headers m = Some recs /\ all80 recs.
Proof. intros m. apply run_steps_safe. apply buf0_len. Qed.

(* witness for the snapshot's packer: any object with 13 batches *)
Definition b13 : list batch :=
  map (fun n => mkBatch n [] 29 156 [] [] []) [1; 2; 3; 4; 5; 6; 7; 8; 9; 10; 11; 12; 13].
Definition m13 : mtz :=
  mkMtz [] 0 None [0; 0; 0; 0; 0] 1 1 80 1 [80; 32; 49] [49] [[88; 44; 89; 44; 90]] [48] [48] None
        [] [] b13 [].
Lemma emit_headers_orig_overflows : emit_headers_orig m13 = None.
Proof. vm_compute. reflexivity. Qed.
