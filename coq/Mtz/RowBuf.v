(* The row formatter of write_main_loop (src/mtz2cif.cpp): a 256-byte buffer, flushed when more than
   220 bytes are used, items appended with snprintf_z(ptr, 32, fmt, v) that returns the UNTRUNCATED length.
   Floats are abstract: an item carries the text its format produces. Model only (proofs: RowBufProofs.v). *)
From GV Require Import Base.Str Mtz.Fmt.
Local Open Scope Z_scope.

Inductive item :=
| IVar (t : str)        (* '.', '?', or write_int: memcpy of the decimal digits, no NUL *)
| IStatus (c : Z)       (* one character *)
| INan (min_width : nat) (* min_width-1 blanks and '?' *)
| INum (t : str).       (* snprintf_z(ptr, 32, tr.format, v) *)

Record rb := mkRb { rb_buf : str; rb_ptr : nat; rb_out : str }.
Definition ROWBUF : nat := 256.
Definition rb0 : rb := mkRb (repeat 0 ROWBUF) 0 [].

Definition put (s : rb) (w : str) (adv : nat) : option rb :=
  match store (rb_buf s) (rb_ptr s) w with
  | Some b => Some (mkRb b (rb_ptr s + adv) (rb_out s))
  | None => None
  end.
Definition flush (s : rb) : rb := mkRb (rb_buf s) 0 (rb_out s ++ firstn (rb_ptr s) (rb_buf s)).

Definition nan_text (w : nat) : str := spaces (w - 1) ++ [63].

(* as in the pinned snapshot: ptr += snprintf_z(ptr, 32, fmt, v) *)
Definition put_item_orig (s : rb) (it : item) : option rb :=
  match it with
  | IVar t => put s t (length t)
  | IStatus c => put s [c] 1
  | INan w => put s (nan_text w) (length (nan_text w))
  | INum t => put s (firstn 31 t ++ [0]) (length t)
  end.

(* after the repair: a number that does not fit the slot is written out separately *)
Definition put_item (s : rb) (it : item) : option rb :=
  match it with
  | INum t =>
    match put s (firstn 31 t ++ [0]) 0 with
    | None => None
    | Some s1 =>
      if (length t <? 32)%nat then Some (mkRb (rb_buf s1) (rb_ptr s1 + length t) (rb_out s1))
      else
        let s2 := flush s1 in
        match put s2 (firstn 255 t ++ [0]) 0 with
        | None => None
        | Some s3 => Some (mkRb (rb_buf s3) 0 (rb_out s3 ++ firstn (Nat.min (length t) 255) (rb_buf s3)))
        end
    end
  | _ => put_item_orig s it
  end.

Section Machine.
Variable putf : rb -> item -> option rb.

(* one item of a row: separator, flush test (ptr - buf > 256 - 36), the item *)
Definition step_item (first : bool) (s : rb) (it : item) : option rb :=
  match (if first then Some s else put s [32] 1) with
  | None => None
  | Some s1 => putf (if (220 <? rb_ptr s1)%nat then flush s1 else s1) it
  end.

Fixpoint row_items (first : bool) (s : rb) (l : list item) : option rb :=
  match l with
  | [] => Some s
  | it :: t => match step_item first s it with None => None | Some s1 => row_items false s1 t end
  end.

Definition do_row (s : rb) (l : list item) : option rb :=
  match row_items true s l with None => None | Some s1 => put s1 [10] 1 end.

Fixpoint do_rows (s : rb) (rows : list (list item)) : option rb :=
  match rows with
  | [] => Some s
  | r :: t => match do_row s r with None => None | Some s1 => do_rows s1 t end
  end.

(* the whole loop body; None = a store outside buf[256] *)
Definition loop_body (rows : list (list item)) : option str :=
  match do_rows rb0 rows with None => None | Some s => Some (rb_out (flush s)) end.
End Machine.

(* what the spec checks guarantee about items: write_int <= 11 digits, check_format: min_width <= 32 *)
Definition item_ok (it : item) : Prop :=
  match it with
  | IVar t => (length t <= 32)%nat
  | INan w => (w <= 32)%nat
  | _ => True
  end.

(* the intended output *)
Definition item_text (it : item) : str :=
  match it with IVar t => t | IStatus c => [c] | INan w => nan_text w | INum t => t end.
Fixpoint join_items (l : list item) : str :=
  match l with [] => [] | [a] => item_text a | a :: t => item_text a ++ [32] ++ join_items t end.
Definition body_spec (rows : list (list item)) : str := flat_map (fun r => join_items r ++ [10]) rows.
