(* The binary part of an MTZ file: first 20 bytes (signature, header offset with the 64-bit escape,
   machine stamp), the reflection data as raw 4-byte words, byte swapping (read_first_bytes,
   read_raw_data, write_to_stream of src/mtz.cpp). A float is just its four bytes in memory. *)
From GV Require Import Base.Str.
Local Open Scope Z_scope.

Definition word := (Z * Z * Z * Z)%type.   (* the four bytes of a float/int32, in memory order *)
Definition wbytes (w : word) : list Z := let '(a, b, c, d) := w in [a; b; c; d].
Definition swap4 (w : word) : word := let '(a, b, c, d) := w in (d, c, b, a).

(* little-endian host: memcpy of an int32 / int64 *)
Definition le_bytes (n : nat) (v : Z) : list Z :=
  (fix go n v := match n with O => [] | S k => (v mod 256) :: go k (v / 256) end) n v.
Fixpoint le_value (l : list Z) : Z := match l with [] => 0 | b :: t => b + 256 * le_value t end.
Definition to_signed (bits : Z) (u : Z) : Z := if u <? 2 ^ (bits - 1) then u else u - 2 ^ bits.
Definition enc32 (v : Z) : list Z := le_bytes 4 (v mod 2 ^ 32).     (* (int32_t) cast then memcpy *)
Definition dec32 (l : list Z) : Z := to_signed 32 (le_value l).
Definition enc64 (v : Z) : list Z := le_bytes 8 (v mod 2 ^ 64).
Definition dec64 (l : list Z) : Z := to_signed 64 (le_value l).

Definition INT32_MAX : Z := 2147483647.

(* write_to_stream: real_header_start = ncol*nrefl + 21; header_start = (int32) or -1 with the real value at bytes 12..19 *)
Definition first20 (ncol nrefl : Z) : list Z :=
  let real := ncol * nrefl + 21 in
  let '(hs, real64) := if INT32_MAX <? real then (-1, real) else (real, 0) in
  [77; 84; 90; 32] ++ enc32 hs ++ [68; 65; 0; 0] ++ enc64 real64.   (* machst 0x00004144 on a little-endian host *)

(* read_first_bytes on a little-endian host: returns (same_byte_order, header_offset);
   read_first_raw is the decoding, read_first adds the range test of the repaired reader
   (header_offset < 21 || header_offset > INT64_MAX / 4 -> fail) *)
Definition HDR_OFF_MAX : Z := 2305843009213693951.   (* INT64_MAX / 4 *)
Definition off_ok (off : Z) : bool := (21 <=? off) && (off <=? HDR_OFF_MAX).
Definition read_first_raw (b : list Z) : option (bool * Z) :=
  if negb (str_eqb (firstn 4 b) [77; 84; 90; 32]) then None else
  let swapped := Z.land (nth 9 b 0) 240 =? 16 in
  let w := firstn 4 (skipn 4 b) in
  let tmp := dec32 (if swapped then rev w else w) in
  if tmp =? -1 then
    let q := firstn 8 (skipn 12 b) in
    Some (negb swapped, dec64 (if swapped then rev q else q))
  else Some (negb swapped, tmp).
Definition read_first (b : list Z) : option (bool * Z) :=
  match read_first_raw b with
  | Some (same, off) => if off_ok off then Some (same, off) else None
  | None => None
  end.

(* data section *)
Definition write_data (d : list word) : list Z := flat_map wbytes d.
Fixpoint read_words (n : nat) (b : list Z) : option (list word * list Z) :=
  match n with
  | O => Some ([], b)
  | S k => match b with
           | a0 :: a1 :: a2 :: a3 :: t =>
             match read_words k t with Some (l, r) => Some ((a0, a1, a2, a3) :: l, r) | None => None end
           | _ => None
           end
  end.
(* read_raw_data: n = header_offset - 1 - 20 words, swapped afterwards when the byte order differs *)
Definition read_data (same : bool) (n : nat) (b : list Z) : option (list word * list Z) :=
  match read_words n b with
  | Some (l, r) => Some ((if same then l else map swap4 l), r)
  | None => None
  end.

(* A file up to the end of the data: 20 bytes, 60 bytes of padding, data.  *)
Definition file_prefix (ncol nrefl : Z) (d : list word) : list Z :=
  first20 ncol nrefl ++ repeat 0 60 ++ write_data d.
(* the same file as a big-endian machine would write it (what the test harness constructs):
   every 4-byte item reversed, the 8-byte offset reversed, machine stamp 0x11 0x11 0 0 *)
Definition file_prefix_swapped (ncol nrefl : Z) (d : list word) : list Z :=
  let f := first20 ncol nrefl in
  firstn 4 f ++ rev (firstn 4 (skipn 4 f)) ++ [17; 17; 0; 0] ++ rev (firstn 8 (skipn 12 f)) ++
  repeat 0 60 ++ write_data (map swap4 d).

(* read_stream up to the headers: first bytes, skip(60), data; returns the offset of the header in bytes too *)
Definition read_prefix (b : list Z) : option (Z * list word * list Z) :=
  match read_first (firstn 20 b) with
  | None => None
  | Some (same, off) =>
    match read_data same (Z.to_nat (off - 1 - 20)) (skipn 80 b) with
    | Some (d, rest) => Some (off, d, rest)
    | None => None
    end
  end.
