(* Proofs about the recipe model (Mtz/Recipe.v): which column a specification line selects, and the shape of
   every recipe prepare_recipe can return, for every list of specification lines and every column list. *)
From Coq Require Import Lia.
From GV Require Import Base.Str Mtz.Fmt Mtz.SpecDefs Mtz.Spec_gen Mtz.SpecCheck Mtz.Recipe.
Local Open Scope Z_scope.

Lemma str_eqb_iff : forall a b, str_eqb a b = true <-> a = b.
Proof.
  induction a as [|x a IH]; intros [|y b]; cbn [str_eqb]; split; intro H; try reflexivity; try discriminate.
  - apply andb_prop in H. destruct H as [H1 H2]. apply Z.eqb_eq in H1. apply IH in H2. congruence.
  - injection H as -> ->. rewrite Z.eqb_refl. cbn. apply IH. reflexivity.
Qed.

Definition has_label (cols : list mcol) (lab : str) : Prop := exists c, In c cols /\ cl_label c = lab.

(* ---------- find_label: the first column, in file order, with the label ---------- *)
Lemma find_label_some : forall lab cols k i, find_label lab cols k = Some i ->
  k <= i < k + Z.of_nat (length cols) /\
  cl_label (nth (Z.to_nat (i - k)) cols (mkCol [] 0)) = lab /\
  forall j, k <= j < i -> cl_label (nth (Z.to_nat (j - k)) cols (mkCol [] 0)) <> lab.
Proof.
  intros lab cols. induction cols as [|c t IH]; intros k i H; cbn [find_label] in H; [discriminate|].
  destruct (str_eqb (cl_label c) lab) eqn:E.
  - injection H as <-. apply str_eqb_iff in E. cbn [length]. repeat split; try lia.
    + replace (k - k) with 0 by lia. exact E.
  - apply IH in H. destruct H as [Hr [Hl Hn]]. cbn [length]. repeat split; try lia.
    + replace (Z.to_nat (i - k)) with (S (Z.to_nat (i - (k + 1)))) by lia. exact Hl.
    + intros j Hj. destruct (Z.eq_dec j k) as [->|Hne].
      * replace (k - k) with 0 by lia. cbn. intro A. apply str_eqb_iff in A. congruence.
      * replace (Z.to_nat (j - k)) with (S (Z.to_nat (j - (k + 1)))) by lia. apply Hn. lia.
Qed.

Lemma find_label_none : forall lab cols k, find_label lab cols k = None <-> ~ has_label cols lab.
Proof.
  intros lab cols. induction cols as [|c t IH]; intros k; cbn [find_label].
  - split; [intros _ [c [[] _]]|reflexivity].
  - destruct (str_eqb (cl_label c) lab) eqn:E.
    + split; [discriminate|]. intro H. exfalso. apply H. exists c. split; [left; reflexivity|apply str_eqb_iff; exact E].
    + rewrite IH. split; intros H [c' [Hin Hl]]; apply H.
      * destruct Hin as [<-|Hin]; [apply str_eqb_iff in Hl; congruence|]. exists c'. split; assumption.
      * exists c'. split; [right; exact Hin|exact Hl].
Qed.

(* ---------- find_column_index: the first alternative IN SPEC ORDER that is a label of the file ---------- *)
Lemma find_alts_some : forall alts cols i, find_alts alts cols = Some i ->
  exists pre a post, alts = pre ++ a :: post /\ (forall b, In b pre -> ~ has_label cols b) /\
    0 <= i < Z.of_nat (length cols) /\ label_at cols i = a /\ (forall j, 0 <= j < i -> label_at cols j <> a).
Proof.
  induction alts as [|a t IH]; intros cols i H; cbn [find_alts] in H; [discriminate|].
  destruct (find_label a cols 0) as [i0|] eqn:E.
  - injection H as <-. apply find_label_some in E. destruct E as [Hr [Hl Hn]].
    exists [], a, t. split; [reflexivity|]. split; [intros b []|]. split; [lia|].
    unfold label_at. replace (i0 - 0) with i0 in Hl by lia. split; [exact Hl|].
    intros j Hj. specialize (Hn j Hj). replace (j - 0) with j in Hn by lia. exact Hn.
  - apply IH in H. destruct H as [pre [a' [post [-> [Hp R]]]]].
    exists (a :: pre), a', post. split; [reflexivity|]. split; [|exact R].
    intros b [<-|Hb]; [apply (find_label_none _ _ 0); exact E|apply Hp; exact Hb].
Qed.

Lemma find_alts_none : forall alts cols, find_alts alts cols = None <-> forall a, In a alts -> ~ has_label cols a.
Proof.
  induction alts as [|a t IH]; intros cols; cbn [find_alts].
  - split; [intros _ a []|reflexivity].
  - destruct (find_label a cols 0) as [i0|] eqn:E.
    + split; [discriminate|]. intro H. exfalso.
      assert (N : find_label a cols 0 = None) by (apply find_label_none; apply H; left; reflexivity). congruence.
    + rewrite IH. apply (find_label_none _ _ 0) in E. split.
      * intros H b [<-|Hb]; [exact E|apply H; exact Hb].
      * intros H b Hb. apply H. right. exact Hb.
Qed.

Theorem find_column_index_some : forall column cols i, find_column_index column cols = Some i ->
  exists pre a post, split_on 124 column [] = pre ++ a :: post /\ (forall b, In b pre -> ~ has_label cols b) /\
    0 <= i < Z.of_nat (length cols) /\ label_at cols i = a /\ (forall j, 0 <= j < i -> label_at cols j <> a).
Proof. intros column cols i. apply find_alts_some. Qed.

Theorem find_column_index_none : forall column cols,
  find_column_index column cols = None <-> forall a, In a (split_on 124 column []) -> ~ has_label cols a.
Proof. intros column cols. apply find_alts_none. Qed.

(* ---------- check_format: an accepted format has a minimal width of at most 32 ---------- *)
Lemma is_digit_range : forall c, is_digit c = true -> 48 <= c <= 57.
Proof. intros c H. unfold is_digit in H. apply andb_prop in H. destruct H as [A B]. apply Z.leb_le in A, B. lia. Qed.

Theorem check_format_width : forall fmt mw, check_format fmt = Some mw -> 0 <= mw <= 32.
Proof.
  intros fmt mw H. unfold check_format in H.
  destruct (has 37 fmt); [discriminate|].
  set (p0 := if (cur fmt =? 95) || (cur fmt =? 43) || (cur fmt =? 45) || (cur fmt =? 35) then adv fmt else fmt) in H.
  clearbody p0.
  destruct (is_digit (cur p0)) eqn:D1.
  - apply is_digit_range in D1.
    destruct (is_digit (cur (adv p0))) eqn:D2.
    + apply is_digit_range in D2.
      match type of H with (if ?c then _ else _) = _ => destruct c; [discriminate|] end.
      match type of H with (if ?c then _ else _) = _ => destruct c; [discriminate|] end.
      destruct (32 <? (cur p0 - 48) * 10 + (cur (adv p0) - 48)) eqn:W; [discriminate|].
      injection H as <-. apply Z.ltb_ge in W. lia.
    + match type of H with (if ?c then _ else _) = _ => destruct c; [discriminate|] end.
      match type of H with (if ?c then _ else _) = _ => destruct c; [discriminate|] end.
      destruct (32 <? cur p0 - 48) eqn:W; [discriminate|]. injection H as <-. lia.
  - match type of H with (if ?c then _ else _) = _ => destruct c; [discriminate|] end.
    match type of H with (if ?c then _ else _) = _ => destruct c; [discriminate|] end.
    cbn in H. injection H as <-. lia.
Qed.

(* ---------- invariant of the recipe under construction ---------- *)
Definition trans_ok (cols : list mcol) (t : trans) : Prop :=
  VIMAGE <= tr_col t < Z.of_nat (length cols) /\ 0 <= tr_minw t <= 32 /\ (tr_status t = true -> 0 <= tr_col t).

Definition Inv (cols : list mcol) (st : pstate) : Prop :=
  Forall (trans_ok cols) (ps_recipe st) /\ (ps_ver st <= length (ps_recipe st))%nat.

Lemma Forall_firstn_ : forall (A : Type) (P : A -> Prop) n (l : list A), Forall P l -> Forall P (firstn n l).
Proof.
  intros A P n. induction n as [|n IH]; intros l H; cbn; [constructor|].
  destruct l as [|x t]; [constructor|]. inversion H; subst. constructor; [assumption|apply IH; assumption].
Qed.

Lemma discard_inv : forall cols st, Inv cols st -> Inv cols (discard st).
Proof.
  intros cols st [H1 H2]. unfold discard, Inv. cbn [ps_recipe ps_ver]. split.
  - apply Forall_firstn_. exact H1.
  - rewrite firstn_length. lia.
Qed.

(* recipe.resize(verified_spec_size) never GROWS the recipe: it is the truncation the model writes *)
Lemma discard_truncates : forall cols st, Inv cols st -> length (ps_recipe (discard st)) = ps_ver st.
Proof. intros cols st [_ H]. unfold discard. cbn [ps_recipe]. rewrite firstn_length. lia. Qed.

Lemma finish_push : forall st col tag p st', finish st col tag p = Some st' ->
  exists t, ps_recipe st' = ps_recipe st ++ [t] /\ ps_ver st' = ps_ver st /\ ps_discard st' = ps_discard st /\
            tr_col t = col /\ tr_tag t = tag /\ 0 <= tr_minw t <= 32 /\ (tr_status t = true -> 0 <= col).
Proof.
  intros st col tag p st' H. unfold finish in H. destruct (read_word p) as [fmt r].
  destruct fmt as [|c f].
  - injection H as <-. eexists. cbn [ps_recipe ps_ver ps_discard]. repeat split; first [reflexivity | cbn; lia | cbn; discriminate].
  - destruct (str_eqb (c :: f) [83]).
    + destruct (col <? 0) eqn:N; [discriminate|]. apply Z.ltb_ge in N.
      injection H as <-. eexists. cbn [ps_recipe ps_ver ps_discard]. repeat split; first [reflexivity | cbn; lia].
    + destruct (check_format (c :: f)) as [mw|] eqn:E; [|discriminate].
      pose proof (check_format_width _ _ E) as W. injection H as <-. eexists. cbn [ps_recipe ps_ver ps_discard]. repeat split; first [reflexivity | cbn; lia | cbn; discriminate].
Qed.

(* ---------- one specification line ---------- *)
Definition enter (st0 : pstate) (l : str) : pstate :=
  if cur (cstr l) =? 38 then st0 else mkPs (ps_recipe st0) (length (ps_recipe st0)) false.

(* the words of a line, as parse_spec_line reads them *)
Definition line_body (l : str) : str :=
  let line := cstr l in if (cur line =? 63) || (cur line =? 38) then adv line else line.
Definition line_column (l : str) : str := fst (read_word (line_body l)).
Definition line_type (l : str) : str := fst (read_word (snd (read_word (line_body l)))).
Definition line_tag (l : str) : str :=
  if cur (line_column l) =? 36 then fst (read_word (snd (read_word (line_body l))))
  else fst (read_word (snd (read_word (snd (read_word (line_body l)))))).

Inductive outcome (cols : list mcol) (st0 : pstate) (l : str) (st' : pstate) : Prop :=
| OSkip : st' = st0 -> cur (cstr l) = 38 -> ps_discard st0 = true -> outcome cols st0 l st'
| ODiscard : st' = discard (enter st0 l) -> outcome cols st0 l st'
| OPush : forall t,
    ps_recipe st' = ps_recipe st0 ++ [t] -> ps_ver st' = ps_ver (enter st0 l) ->
    ps_discard st' = ps_discard (enter st0 l) ->
    tr_tag t = line_tag l -> 0 <= tr_minw t <= 32 /\ (tr_status t = true -> 0 <= tr_col t) ->
    (if cur (line_column l) =? 36 then VIMAGE <= tr_col t < 0
     else (line_type l = [42] \/ line_type l = [type_at cols (tr_col t)]) /\
          exists column', (column' = line_column l \/ exists prev, column' = subst_prev prev (line_column l)) /\
                          find_column_index column' cols = Some (tr_col t)) ->
    outcome cols st0 l st'.

Lemma var_code_range : forall c m v, var_code c m = Some v -> VIMAGE <= v < 0.
Proof.
  intros c m v H. unfold var_code in H. unfold VIMAGE.
  repeat match type of H with
  | (if ?b then _ else _) = _ => destruct b
  | Some _ = Some _ => injection H as <-; cbv; split; congruence
  | None = Some _ => discriminate
  end.
Qed.

Lemma enter_recipe : forall st l, ps_recipe (enter st l) = ps_recipe st.
Proof. intros st l. unfold enter. destruct (cur (cstr l) =? 38); reflexivity. Qed.

Theorem parse_line_outcome : forall o cols st0 l st', parse_line o cols st0 l = Some st' -> outcome cols st0 l st'.
Proof.
  intros o cols st0 l st' H. unfold parse_line in H.
  destruct (cur (cstr l) =? 38) eqn:A; cbn [andb] in H.
  - (* '&' line *)
    destruct (ps_discard st0) eqn:D.
    + injection H as <-. apply OSkip; [reflexivity|apply Z.eqb_eq; exact A|exact D].
    + assert (En : enter st0 l = st0) by (unfold enter; rewrite A; reflexivity).
      revert H. rewrite orb_true_r.
      pose proof (eq_refl (line_body l)) as LB. unfold line_body at 2 in LB. rewrite A, orb_true_r in LB.
      rewrite <- LB. clear LB. intro H.
      destruct (read_word (line_body l)) as [column p1] eqn:R1.
      assert (LC : line_column l = column) by (unfold line_column; rewrite R1; reflexivity).
      destruct (cur column =? 36) eqn:V.
      * destruct (read_word p1) as [tag p2] eqn:R2.
        destruct ((cur tag =? 95) || has 46 tag); [discriminate|].
        destruct (var_code column (o_merged o)) as [v|] eqn:VC; [|discriminate].
        apply finish_push in H. destruct H as [t [E1 [E2 [E3 [E4 [E5 [E6a E6b]]]]]]]; rewrite <- E4 in E6b; pose proof (conj E6a E6b) as E6.
        apply (OPush _ _ _ _ t); rewrite ?En; try assumption.
        -- unfold line_tag. rewrite LC, V, R1. cbn [snd]. rewrite R2. exact E5.
        -- rewrite LC, V, E4. exact (var_code_range _ _ _ VC).
      * destruct (read_word p1) as [ty p2] eqn:R2.
        destruct ty as [|ct [|? ?]]; try discriminate.
        match type of H with (if ?b then _ else _) = _ => destruct b end.
        { injection H as <-. apply ODiscard. rewrite En. reflexivity. }
        destruct (read_word p2) as [tag p3] eqn:R3.
        destruct ((cur tag =? 95) || has 46 tag); [discriminate|].
        match type of H with match find_column_index ?c _ with _ => _ end = _ => set (column' := c) in * end.
        destruct (find_column_index column' cols) as [i|] eqn:F.
        2:{ injection H as <-. apply ODiscard. rewrite En. reflexivity. }
        destruct (negb (ct =? 42) && negb (type_at cols i =? ct)) eqn:T; [discriminate|].
        apply finish_push in H. destruct H as [t [E1 [E2 [E3 [E4 [E5 [E6a E6b]]]]]]]; rewrite <- E4 in E6b; pose proof (conj E6a E6b) as E6.
        apply (OPush _ _ _ _ t); rewrite ?En; try assumption.
        -- unfold line_tag. rewrite LC, V, R1. cbn [snd]. rewrite R2. cbn [snd]. rewrite R3. exact E5.
        -- rewrite LC, V, E4. split.
           ++ unfold line_type. rewrite R1. cbn [snd]. rewrite R2. cbn [fst].
              apply andb_false_iff in T. destruct T as [T|T]; apply negb_false_iff, Z.eqb_eq in T; [left|right]; congruence.
           ++ exists column'. split; [|exact F]. unfold column'.
              destruct (last_col (ps_recipe st0)) as [i0|]; [|left; reflexivity].
              destruct (has 123 column && (0 <=? i0)); [right; eexists; reflexivity|left; reflexivity].
  - (* a line that starts a group *)
    set (st := mkPs (ps_recipe st0) (length (ps_recipe st0)) false) in *.
    assert (En : enter st0 l = st) by (unfold enter; rewrite A; reflexivity).
    revert H. rewrite orb_false_r.
    pose proof (eq_refl (line_body l)) as LB. unfold line_body at 2 in LB. rewrite A, orb_false_r in LB.
    rewrite <- LB. clear LB. intro H.
    destruct (read_word (line_body l)) as [column p1] eqn:R1.
    assert (LC : line_column l = column) by (unfold line_column; rewrite R1; reflexivity).
    destruct (cur column =? 36) eqn:V.
    + destruct (read_word p1) as [tag p2] eqn:R2.
      destruct ((cur tag =? 95) || has 46 tag); [discriminate|].
      destruct (var_code column (o_merged o)) as [v|] eqn:VC; [|discriminate].
      apply finish_push in H. destruct H as [t [E1 [E2 [E3 [E4 [E5 [E6a E6b]]]]]]]; rewrite <- E4 in E6b; pose proof (conj E6a E6b) as E6.
      apply (OPush _ _ _ _ t); rewrite ?En; try assumption.
      * unfold line_tag. rewrite LC, V, R1. cbn [snd]. rewrite R2. exact E5.
      * rewrite LC, V, E4. exact (var_code_range _ _ _ VC).
    + destruct (read_word p1) as [ty p2] eqn:R2.
      destruct ty as [|ct [|? ?]]; try discriminate.
      match type of H with (if ?b then _ else _) = _ => destruct b end.
      { injection H as <-. apply ODiscard. rewrite En. reflexivity. }
      destruct (read_word p2) as [tag p3] eqn:R3.
      destruct ((cur tag =? 95) || has 46 tag); [discriminate|].
      match type of H with match find_column_index ?c _ with _ => _ end = _ => set (column' := c) in * end.
      destruct (find_column_index column' cols) as [i|] eqn:F.
      2:{ destruct (cur (cstr l) =? 63); [|discriminate]. injection H as <-. apply ODiscard. rewrite En. reflexivity. }
      destruct (negb (ct =? 42) && negb (type_at cols i =? ct)) eqn:T; [discriminate|].
      apply finish_push in H. destruct H as [t [E1 [E2 [E3 [E4 [E5 [E6a E6b]]]]]]]; rewrite <- E4 in E6b; pose proof (conj E6a E6b) as E6.
      apply (OPush _ _ _ _ t); rewrite ?En; try assumption.
      * unfold line_tag. rewrite LC, V, R1. cbn [snd]. rewrite R2. cbn [snd]. rewrite R3. exact E5.
      * rewrite LC, V, E4. split.
        -- unfold line_type. rewrite R1. cbn [snd]. rewrite R2. cbn [fst].
           apply andb_false_iff in T. destruct T as [T|T]; apply negb_false_iff, Z.eqb_eq in T; [left|right]; congruence.
        -- exists column'. split; [|exact F]. unfold column'.
           destruct (last_col (ps_recipe st)) as [i0|]; [|left; reflexivity].
           destruct (has 123 column && (0 <=? i0)); [right; eexists; reflexivity|left; reflexivity].
Qed.

(* ---------- the invariant holds after every line, hence after every list of lines ---------- *)
Lemma enter_inv : forall cols st l, Inv cols st -> Inv cols (enter st l).
Proof.
  intros cols st l [H1 H2]. unfold enter. destruct (cur (cstr l) =? 38); [split; assumption|].
  split; cbn [ps_recipe ps_ver]; [exact H1|lia].
Qed.

Lemma outcome_inv : forall cols st0 l st', Inv cols st0 -> outcome cols st0 l st' -> Inv cols st'.
Proof.
  intros cols st0 l st' I O. destruct O as [-> _ _| -> |t E1 E2 E3 Et Ew Ec].
  - exact I.
  - apply discard_inv, enter_inv, I.
  - pose proof (enter_inv cols st0 l I) as [_ V]. rewrite enter_recipe in V. destruct I as [H1 H2].
    split.
    + rewrite E1. apply Forall_app. split; [exact H1|]. constructor; [|constructor]. split; [|exact Ew].
      destruct (cur (line_column l) =? 36).
      * unfold VIMAGE in *. lia.
      * destruct Ec as [_ [c' [_ F]]]. apply find_column_index_some in F.
        destruct F as [_ [_ [_ [_ [_ [R _]]]]]]. unfold VIMAGE. lia.
    + rewrite E1, E2, app_length. cbn [length]. lia.
Qed.

Theorem parse_lines_inv : forall o cols lines st st', Inv cols st -> parse_lines o cols st lines = Some st' -> Inv cols st'.
Proof.
  intros o cols lines. induction lines as [|l t IH]; intros st st' I H; cbn [parse_lines] in H.
  - injection H as <-. exact I.
  - destruct (parse_line o cols st l) as [st1|] eqn:E; [|discriminate].
    apply (IH st1 st'); [|exact H]. exact (outcome_inv _ _ _ _ I (parse_line_outcome _ _ _ _ _ E)).
Qed.

(* ---------- prepare_recipe ---------- *)
Lemma dup_tags_false : forall r, dup_tags r = false -> NoDup (map tr_tag r).
Proof.
  induction r as [|t u IH]; intro H; cbn [dup_tags map] in *; [constructor|].
  apply orb_false_iff in H. destruct H as [H1 H2]. constructor; [|apply IH; exact H2].
  intro Hin. apply in_map_iff in Hin. destruct Hin as [x [Hx Hi]].
  assert (existsb (fun x => str_eqb (tr_tag t) (tr_tag x)) u = true).
  { apply existsb_exists. exists x. split; [exact Hi|]. apply str_eqb_iff. symmetry. exact Hx. }
  congruence.
Qed.

Lemma add_index_has : forall i c r, exists t, In t (add_index i c r) /\ tr_col t = i.
Proof.
  intros i c r. unfold add_index. destruct (existsb (fun t => tr_col t =? i) r) eqn:E.
  - apply existsb_exists in E. destruct E as [t [Hi He]]. exists t. split; [exact Hi|apply Z.eqb_eq; exact He].
  - eexists. split; [left; reflexivity|reflexivity].
Qed.

Lemma add_index_keeps : forall i c r t, In t r -> In t (add_index i c r).
Proof. intros i c r t H. unfold add_index. destruct (existsb _ r); [exact H|right; exact H]. Qed.

Lemma add_index_ok : forall cols i c r, 0 <= i < Z.of_nat (length cols) ->
  Forall (trans_ok cols) r -> Forall (trans_ok cols) (add_index i c r).
Proof.
  intros cols i c r Hi H. unfold add_index. destruct (existsb _ r); [exact H|].
  constructor; [|exact H]. split; cbn; unfold VIMAGE; lia.
Qed.

Lemma add_index_nonempty : forall i c r, r <> [] -> add_index i c r <> [].
Proof. intros i c r H. unfold add_index. destruct (existsb _ r); [exact H|discriminate]. Qed.

(* every recipe prepare_recipe returns, for every list of lines and every file with at least H K L *)
Theorem prepare_recipe_wf : forall o cols lines r, (3 <= length cols)%nat ->
  prepare_recipe o cols lines = Some r ->
  r <> [] /\ Forall (trans_ok cols) r /\ NoDup (map tr_tag r) /\
  (forall i, 0 <= i <= 2 -> exists t, In t r /\ tr_col t = i).
Proof.
  intros o cols lines r Hc H. unfold prepare_recipe in H.
  destruct (parse_lines o cols (mkPs [] 0 false) lines) as [st|] eqn:P; [|discriminate].
  assert (I : Inv cols st).
  { apply (parse_lines_inv o cols lines (mkPs [] 0 false)); [|exact P]. split; cbn; [constructor|lia]. }
  destruct I as [I _].
  destruct (ps_recipe st) as [|t0 u] eqn:R; [discriminate|].
  set (r0 := t0 :: u) in *.
  destruct (dup_tags (add_index 0 104 (add_index 1 107 (add_index 2 108 r0)))) eqn:D; [discriminate|].
  injection H as <-. split; [|split; [|split]].
  - repeat apply add_index_nonempty. discriminate.
  - repeat apply add_index_ok; try lia. exact I.
  - apply dup_tags_false. exact D.
  - intros i Hi. assert (Hi' : i = 0 \/ i = 1 \/ i = 2) by lia. destruct Hi' as [ -> | [ -> | -> ] ].
    + apply add_index_has.
    + destruct (add_index_has 1 107 (add_index 2 108 r0)) as [t [A B]]. exists t. split; [|exact B].
      apply add_index_keeps. exact A.
    + destruct (add_index_has 2 108 r0) as [t [A B]]. exists t. split; [|exact B].
      apply add_index_keeps, add_index_keeps. exact A.
Qed.

(* the snapshot's order of the two steps lets a repeated tag through *)
Definition dup_witness_cols : list mcol := [mkCol [72] 72; mkCol [75] 72; mkCol [76] 72; mkCol [70; 80] 70].
Definition dup_witness_lines : list str :=
  [[75;32;72;32;105;110;100;101;120;95;107]; [76;32;72;32;105;110;100;101;120;95;108];
   [70;80;32;70;32;105;110;100;101;120;95;104]].   (* "K H index_k", "L H index_l", "FP F index_h" *)
Lemma prepare_recipe_orig_dup :
  exists r, prepare_recipe_orig (mkOpts 0 true true) dup_witness_cols dup_witness_lines = Some r /\
            ~ NoDup (map tr_tag r).
Proof.
  eexists. split; [vm_compute; reflexivity|]. intro N. inversion N as [|x l Hn _]; subst. apply Hn.
  right. right. left. reflexivity.
Qed.
Lemma prepare_recipe_fixed_on_witness :
  prepare_recipe (mkOpts 0 true true) dup_witness_cols dup_witness_lines = None.
Proof. vm_compute. reflexivity. Qed.

(* non-vacuity: a recipe with alternatives, {prev}, an optional group that is dropped and one that is kept *)
Definition ex_cols : list mcol :=
  [mkCol [72] 72; mkCol [75] 72; mkCol [76] 72; mkCol [73] 74; mkCol [83;73;71;73] 81;
   mkCol [73;77;69;65;78] 74; mkCol [83;73;71;73;77;69;65;78] 81].

(* the raw default specifications (text, regenerated from the code) split into words by the model's read_word are
   exactly the structured tables that spec_inverse (Mtz/SpecCheck.v) talks about *)
Lemma raw_spec_is_structured :
  map struct_of_line m2c_merged_raw = m2c_merged /\ map struct_of_line m2c_unmerged_raw = m2c_unmerged.
Proof. split; vm_compute; reflexivity. Qed.

(* default merged specification on a file that holds I/SIGI BEFORE IMEAN/SIGIMEAN: the intensity tags are taken
   from IMEAN and SIGIMEAN (first alternative in spec order), all other optional groups are dropped *)
Lemma default_recipe_example :
  option_map (shown ex_cols) (prepare_recipe (mkOpts 0 true true) ex_cols m2c_merged_raw) =
  Some [([105;110;100;101;120;95;104], Some [72]); ([105;110;100;101;120;95;107], Some [75]);
        ([105;110;100;101;120;95;108], Some [76]);
        ([105;110;116;101;110;115;105;116;121;95;109;101;97;115], Some [73;77;69;65;78]);
        ([105;110;116;101;110;115;105;116;121;95;115;105;103;109;97], Some [83;73;71;73;77;69;65;78])].
Proof. vm_compute. reflexivity. Qed.

(* the default specifications never make a merged / unmerged file fail for a missing OPTIONAL column: with only
   H K L present (and BATCH etc. absent) the merged default recipe is index_h, index_k, index_l *)
Lemma default_recipe_hkl_only :
  option_map (shown (firstn 3 ex_cols)) (prepare_recipe (mkOpts 0 true true) (firstn 3 ex_cols) m2c_merged_raw) =
  Some [([105;110;100;101;120;95;104], Some [72]); ([105;110;100;101;120;95;107], Some [75]);
        ([105;110;100;101;120;95;108], Some [76])].
Proof. vm_compute. reflexivity. Qed.

(* ---------- provenance: every entry of a recipe comes from a specification line (or is an inserted index) ---------- *)
Definition from_line (cols : list mcol) (l : str) (t : trans) : Prop :=
  tr_tag t = line_tag l /\ (0 <= tr_minw t <= 32 /\ (tr_status t = true -> 0 <= tr_col t)) /\
  (if cur (line_column l) =? 36 then VIMAGE <= tr_col t < 0
   else (line_type l = [42] \/ line_type l = [type_at cols (tr_col t)]) /\
        exists column', (column' = line_column l \/ exists prev, column' = subst_prev prev (line_column l)) /\
                        find_column_index column' cols = Some (tr_col t)).

Lemma In_firstn_ : forall (A : Type) n (l : list A) x, In x (firstn n l) -> In x l.
Proof.
  intros A n. induction n as [|n IH]; intros l x H; cbn in H; [contradiction|].
  destruct l as [|y t]; [contradiction|]. destruct H as [->|H]; [left; reflexivity|right; apply IH; exact H].
Qed.

Theorem parse_lines_provenance : forall o cols lines st st', parse_lines o cols st lines = Some st' ->
  forall t, In t (ps_recipe st') -> In t (ps_recipe st) \/ exists l, In l lines /\ from_line cols l t.
Proof.
  intros o cols lines. induction lines as [|l u IH]; intros st st' H t Ht; cbn [parse_lines] in H.
  - injection H as <-. left. exact Ht.
  - destruct (parse_line o cols st l) as [st1|] eqn:E; [|discriminate].
    destruct (IH st1 st' H t Ht) as [H1|[l' [Hl' F]]].
    2:{ right. exists l'. split; [right; exact Hl'|exact F]. }
    destruct (parse_line_outcome _ _ _ _ _ E) as [-> _ _| -> |t1 E1 E2 E3 Et Ew Ec].
    + left. exact H1.
    + left. unfold discard in H1. cbn [ps_recipe] in H1. apply In_firstn_ in H1. rewrite enter_recipe in H1. exact H1.
    + rewrite E1 in H1. apply in_app_or in H1. destruct H1 as [H1|[<-|[]]]; [left; exact H1|].
      right. exists l. split; [left; reflexivity|]. split; [exact Et|]. split; [exact Ew|exact Ec].
Qed.

Definition index_entry (t : trans) : Prop :=
  (tr_col t = 0 /\ tr_tag t = INDEX_ ++ [104]) \/ (tr_col t = 1 /\ tr_tag t = INDEX_ ++ [107]) \/
  (tr_col t = 2 /\ tr_tag t = INDEX_ ++ [108]).

Lemma add_index_in : forall i c r t, In t (add_index i c r) -> In t r \/ (tr_col t = i /\ tr_tag t = INDEX_ ++ [c]).
Proof.
  intros i c r t H. unfold add_index in H. destruct (existsb _ r); [left; exact H|].
  destruct H as [<-|H]; [right; split; reflexivity|left; exact H].
Qed.

Theorem prepare_recipe_provenance : forall o cols lines r, prepare_recipe o cols lines = Some r ->
  forall t, In t r -> index_entry t \/ exists l, In l lines /\ from_line cols l t.
Proof.
  intros o cols lines r H t Ht. unfold prepare_recipe in H.
  destruct (parse_lines o cols (mkPs [] 0 false) lines) as [st|] eqn:P; [|discriminate].
  destruct (ps_recipe st) as [|t0 u] eqn:R; [discriminate|].
  match type of H with (if ?d then _ else _) = _ => destruct d; [discriminate|] end.
  injection H as <-.
  apply add_index_in in Ht. destruct Ht as [Ht|Ht]; [|left; left; exact Ht].
  apply add_index_in in Ht. destruct Ht as [Ht|Ht]; [|left; right; left; exact Ht].
  apply add_index_in in Ht. destruct Ht as [Ht|Ht]; [|left; right; right; exact Ht].
  rewrite <- R in Ht. destruct (parse_lines_provenance _ _ _ _ _ P t Ht) as [[]|X]. right. exact X.
Qed.

(* ---------- the default merged specification, end to end with the inverse table ---------- *)
(* for the lines of the generated tables, the words the recipe model reads are the fields of the structured table *)
Definition line_fields_agree (l : str) : bool :=
  let e := struct_of_line l in
  str_eqb (m_tag e) (line_tag l) &&
  (is_var e || (str_eqb (line_type l) [m_type e] && negb (m_type e =? 42) && negb (cur (line_column l) =? 36))) &&
  (negb (is_var e) || (cur (line_column l) =? 36)).
Lemma default_lines_agree : forallb line_fields_agree m2c_merged_raw = true /\ forallb line_fields_agree m2c_unmerged_raw = true.
Proof. split; vm_compute; reflexivity. Qed.

(* Every column the default merged specification maps is written under a tag that the default mmCIF -> MTZ
   specification knows, and that table re-creates it with the SAME MTZ column type - for every file (column list). *)
Theorem default_merged_types_survive : forall o cols r,
  prepare_recipe o cols m2c_merged_raw = Some r ->
  forall t, In t r -> 0 <= tr_col t -> ~ index_entry t ->
  exists c, lookup (tr_tag t) (builtin_hkl ++ c2m_merged) = Some c /\ c_ty c = type_at cols (tr_col t).
Proof.
  intros o cols r H t Ht Hc Hn.
  destruct (prepare_recipe_provenance _ _ _ _ H t Ht) as [X|[l [Hl [Etag [_ F]]]]]; [contradiction|].
  pose proof (proj1 default_lines_agree) as A. rewrite forallb_forall in A. specialize (A l Hl).
  unfold line_fields_agree in A. apply andb_prop in A. destruct A as [A A3]. apply andb_prop in A. destruct A as [A1 A2].
  apply str_eqb_iff in A1.
  assert (Hin : In (struct_of_line l) m2c_merged).
  { rewrite <- (proj1 raw_spec_is_structured). apply in_map. exact Hl. }
  destruct (cur (line_column l) =? 36) eqn:V.
  - unfold VIMAGE in F. lia.
  - destruct (is_var (struct_of_line l)) eqn:IV; [cbn in A3; discriminate|]. cbn [orb] in A2.
    apply andb_prop in A2. destruct A2 as [A2 _]. apply andb_prop in A2. destruct A2 as [A2 A4].
    apply str_eqb_iff in A2. apply negb_true_iff, Z.eqb_neq in A4.
    destruct (inverse_ok_spec _ _ _ spec_inverse_merged _ Hin IV) as [c [L [Ty _]]].
    exists c. rewrite Etag, <- A1. split; [exact L|]. rewrite Ty.
    destruct F as [[F|F] _]; rewrite A2 in F; injection F as F; congruence.
Qed.
