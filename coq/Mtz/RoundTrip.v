(* Record-level round trips: what the reader's per-record parser makes of what the writer printed. *)
From GV Require Import Base.Str Mtz.Fmt Mtz.FmtProofs Mtz.Header Mtz.ParseProofs.
From Coq Require Import Lia ZifyBool.
Local Open Scope Z_scope.

Lemma skip_key : forall kw X, wordy kw -> skip_word_and_space (kw ++ 32 :: X) = skip_while is_cspace X.
Proof.
  intros kw X Hk. unfold skip_word_and_space.
  destruct (take_word_app kw (32 :: X) Hk eq_refl) as [_ E]. rewrite E. reflexivity.
Qed.

Ltac eval_keys :=
  repeat match goal with
  | |- context [str_eqb (K ?a ?b ?c ?d) (K ?e ?f ?g ?h)] =>
    let v := eval vm_compute in (str_eqb (K a b c d) (K e f g h)) in
    change (str_eqb (K a b c d) (K e f g h)) with v
  end; cbv iota.

Ltac wordy4 := unfold wordy; repeat constructor.

(* ---------------- NCOL *)
Lemma ncol_roundtrip : forall st a b c, 0 <= c <= 10000000 -> (length (pr_ncol a b c) <= 80)%nat ->
  parse_record st (write_rec (pr_ncol a b c)) = set_ncol st a b c.
Proof.
  intros st a b c Hc Hlen. rewrite write_rec_short by exact Hlen.
  set (k := (80 - length (pr_ncol a b c))%nat). unfold pr_ncol, k_NCOL, SP.
  set (X := (fmt_d 8 a ++ [32] ++ fmt_d 12 b ++ [32] ++ fmt_d 8 c) ++ spaces k).
  assert (El : ([78; 67; 79; 76; 32] ++ fmt_d 8 a ++ [32] ++ fmt_d 12 b ++ [32] ++ fmt_d 8 c) ++ spaces k
               = [78; 67; 79; 76] ++ 32 :: X).
  { unfold X. cbn [app]. rewrite <- !app_assoc. reflexivity. }
  rewrite El. unfold parse_record. rewrite skip_key by wordy4.
  change (key4 ([78; 67; 79; 76] ++ 32 :: X)) with (K 78 67 79 76). cbv zeta. eval_keys.
  rewrite atoi_skip. unfold X. rewrite <- !app_assoc.
  rewrite atoi_fmt_d by reflexivity. cbn [app]. rewrite atoi_sp.
  rewrite atoi_fmt_d by reflexivity. cbn [app]. rewrite atoi_sp.
  rewrite atoi_fmt_d by apply cur_spaces_digit.
  destruct (Z.ltb_spec c 0); [lia|]. destruct (Z.ltb_spec 10000000 c); [lia|]. reflexivity.
Qed.

(* ---------------- helpers *)
Lemma cstr_wordy : forall w, wordy w -> cstr w = w.
Proof.
  induction w as [|c t IH]; intros H; [reflexivity|]. inversion H as [|? ? Hc Ht]; subst.
  cbn. destruct (Z.eqb_spec c 0) as [->|_]; [discriminate Hc|]. rewrite IH by assumption. reflexivity.
Qed.

Lemma skip_cspace_word : forall c t, word_char c = true -> skip_while is_cspace (c :: t) = c :: t.
Proof. intros c t H. cbn. unfold word_char in H. destruct (is_cspace c); [destruct (c =? 0); discriminate|reflexivity]. Qed.

Lemma spaces_snoc : forall k Y, spaces k ++ 32 :: Y = spaces (S k) ++ Y.
Proof. induction k as [|k IH]; intros Y; [reflexivity|]. cbn [spaces repeat app]. f_equal. apply IH. Qed.

Lemma cur_spaces_app : forall k Y, word_char (cur (spaces k ++ 32 :: Y)) = false.
Proof. destruct k; reflexivity. Qed.

Lemma skip_float_tok : forall k c w r, wordy (c :: w) -> word_char (cur r) = false ->
  skip_float (spaces k ++ (c :: w) ++ r) = r.
Proof.
  intros k c w r Hw Hr. unfold skip_float. rewrite skip_spaces.
  inversion Hw as [|? ? Hc _]; subst. change ((c :: w) ++ r) with (c :: (w ++ r)).
  rewrite skip_cspace_word by exact Hc. change (c :: w ++ r) with ((c :: w) ++ r).
  destruct (take_word_app (c :: w) r Hw Hr) as [_ E]. exact E.
Qed.

(* ---------------- COLUMN: label, type and dataset id (min/max are abstract non-empty tokens) *)
Lemma column_roundtrip : forall st c l0 lt m0 mt x0 xt,
  c_label c = l0 :: lt -> wordy (l0 :: lt) -> word_char (c_type c) = true ->
  format17 (c_min c) = m0 :: mt -> wordy (m0 :: mt) ->
  format17 (c_max c) = x0 :: xt -> wordy (x0 :: xt) ->
  (length (pr_column c) <= 80)%nat ->
  parse_record st (write_rec (pr_column c)) =
  set_cols st (mkPcol (c_label c) (c_type c) (c_ds c) [] :: p_cols st).
Proof.
  intros st c l0 lt m0 mt x0 xt El Hl Hty Emin Hmin Emax Hmax Hlen.
  rewrite write_rec_short by exact Hlen.
  set (k := (80 - length (pr_column c))%nat). unfold pr_column, k_COLUMN, SP, label_or_us.
  rewrite Emin, Emax, El. rewrite (cstr_wordy _ Hl). unfold padr, padl, fmt_d, padl.
  set (j1 := (30 - length (l0 :: lt))%nat). set (j2 := (17 - length (m0 :: mt))%nat).
  set (j3 := (17 - length (x0 :: xt))%nat). set (j4 := (4 - length (print_int (c_ds c)))%nat).
  set (X := (l0 :: lt) ++ spaces j1 ++ 32 :: [c_type c] ++ 32 :: spaces j2 ++ (m0 :: mt) ++ 32 :: spaces j3 ++
            (x0 :: xt) ++ 32 :: spaces j4 ++ print_int (c_ds c) ++ spaces k).
  match goal with |- parse_record st ?L = _ =>
    assert (EL : L = [67; 79; 76; 85; 77; 78] ++ 32 :: X) end.
  { unfold X. cbn [app]. repeat (rewrite <- !app_assoc; cbn [app]). reflexivity. }
  rewrite EL. unfold parse_record. rewrite skip_key by wordy4.
  change (key4 ([67; 79; 76; 85; 77; 78] ++ 32 :: X)) with (K 67 79 76 85). cbv zeta. eval_keys.
  inversion Hl as [|? ? Hl0 _]; subst.
  unfold X at 1. change ((l0 :: lt) ++ ?r) with (l0 :: (lt ++ r)).
  f_equal. f_equal.
  unfold X. change ((l0 :: lt) ++ ?r) with (l0 :: (lt ++ r)). rewrite skip_cspace_word by exact Hl0.
  unfold parse_column.
  match goal with |- context [read_word (l0 :: lt ++ ?r)] =>
    change (l0 :: lt ++ r) with (spaces 0 ++ (l0 :: lt) ++ r);
    rewrite (read_word_app 0 l0 lt r Hl (cur_spaces_app _ _)) end.
  rewrite spaces_snoc.
  match goal with |- context [read_word (spaces ?n ++ [c_type c] ++ ?r)] =>
    rewrite (read_word_app n (c_type c) [] r) by (try reflexivity; unfold wordy; repeat constructor; exact Hty) end.
  cbn [cur].
  match goal with |- context [skip_float (32 :: spaces j2 ++ ?r)] =>
    change (32 :: spaces j2 ++ r) with (spaces (S j2) ++ r) end.
  rewrite skip_float_tok by (try exact Hmin; reflexivity).
  match goal with |- context [skip_float (32 :: spaces j3 ++ ?r)] =>
    change (32 :: spaces j3 ++ r) with (spaces (S j3) ++ r) end.
  rewrite skip_float_tok by (try exact Hmax; reflexivity).
  rewrite atoi_sp, atoi_spaces, atoi_print_int by apply cur_spaces_digit. reflexivity.
Qed.

(* ---------------- batch TITLE (the repaired reader) *)
Lemma rev_spaces : forall j, rev (spaces j) = spaces j.
Proof.
  induction j as [|j IH]; [reflexivity|]. cbn [spaces repeat rev]. fold (spaces j). rewrite IH.
  symmetry. apply (repeat_cons j 32).
Qed.

Lemma firstn_spaces : forall a b, firstn a (spaces (a + b)) = spaces a.
Proof. induction a as [|a IH]; intros b; [reflexivity|]. cbn. f_equal. apply IH. Qed.

Lemma rtrim_sp_spaces : forall t j, is_cspace (cur (rev t)) = false -> rtrim_sp (t ++ spaces j) = t.
Proof.
  intros t j H. unfold rtrim_sp. rewrite rev_app_distr, rev_spaces, skip_spaces.
  destruct (rev t) as [|c r] eqn:E.
  - cbn. destruct t as [|x t']; [reflexivity|]. apply (f_equal (@length Z)) in E. cbn in E. rewrite app_length in E. cbn in E. lia.
  - cbn in H. cbn [skip_while]. rewrite H. rewrite <- E. apply rev_involutive.
Qed.

Lemma cstr_nonul : forall t, Forall (fun c => c <> 0) t -> cstr t = t.
Proof.
  induction t as [|c t IH]; intros H; [reflexivity|]. inversion H as [|? ? Hc Ht]; subst.
  cbn. destruct (Z.eqb_spec c 0); [contradiction|]. rewrite IH by assumption. reflexivity.
Qed.

Lemma btitle_roundtrip : forall b,
  Forall (fun c => c <> 0) (b_title b) -> (length (b_title b) <= 70)%nat ->
  is_cspace (cur (rev (b_title b))) = false ->
  parse_btitle (write_rec (pr_btitle b)) = b_title b.
Proof.
  intros b Hnn Hlen Hend. unfold pr_btitle. rewrite (cstr_nonul _ Hnn).
  rewrite firstn_all2 by lia. set (t := b_title b) in *.
  assert (Hl : length (k_TITLE ++ t) = (6 + length t)%nat) by reflexivity.
  rewrite write_rec_short by lia. rewrite Hl. unfold parse_btitle.
  rewrite <- app_assoc. change (skipn 6 (k_TITLE ++ t ++ spaces (80 - (6 + length t)))) with (t ++ spaces (80 - (6 + length t))).
  rewrite firstn_app. rewrite firstn_all2 by lia.
  replace (80 - (6 + length t))%nat with ((70 - length t) + 4)%nat by lia.
  rewrite firstn_spaces. apply rtrim_sp_spaces. exact Hend.
Qed.

(* what the snapshot's reader returned instead: the keyword stays in front *)
Lemma btitle_orig_keeps_keyword : forall b,
  Forall (fun c => c <> 0) (b_title b) -> (length (b_title b) <= 70)%nat ->
  is_cspace (cur (rev (b_title b))) = false ->
  parse_btitle_orig (write_rec (pr_btitle b)) = k_TITLE ++ b_title b.
Proof.
  intros b Hnn Hlen Hend. unfold parse_btitle_orig. fold (parse_btitle (write_rec (pr_btitle b))).
  rewrite btitle_roundtrip by assumption. f_equal.
Qed.

(* ---------------- PROJECT / CRYSTAL / DATASET names *)
Lemma project_roundtrip : forall st id n0 nt,
  wordy (n0 :: nt) -> (length (pr_dsname k_PROJECT id (n0 :: nt)) <= 80)%nat ->
  parse_record st (write_rec (pr_dsname k_PROJECT id (n0 :: nt))) =
  set_dss st (mkPds id (n0 :: nt) [] [] :: p_dss st).
Proof.
  intros st id n0 nt Hn Hlen. rewrite write_rec_short by exact Hlen.
  set (k := (80 - length (pr_dsname k_PROJECT id (n0 :: nt)))%nat). unfold pr_dsname, k_PROJECT, SP.
  rewrite (cstr_wordy _ Hn).
  set (X := fmt_d 7 id ++ 32 :: (n0 :: nt) ++ spaces k).
  match goal with |- parse_record st ?L = _ => assert (EL : L = [80; 82; 79; 74; 69; 67; 84] ++ 32 :: X) end.
  { unfold X. cbn [app]. repeat (rewrite <- !app_assoc; cbn [app]). reflexivity. }
  rewrite EL. unfold parse_record. rewrite skip_key by wordy4.
  change (key4 ([80; 82; 79; 74; 69; 67; 84] ++ 32 :: X)) with (K 80 82 79 74). cbv zeta. eval_keys.
  rewrite atoi_skip. unfold X. rewrite atoi_fmt_d by reflexivity.
  inversion Hn as [|? ? Hn0 _]; subst.
  assert (Es : skip_word_and_space (32 :: (n0 :: nt) ++ spaces k) = (n0 :: nt) ++ spaces k).
  { unfold skip_word_and_space. cbn [skip_while]. change (word_char 32) with false. cbv iota.
    cbn [skip_while is_cspace]. change (is_cspace 32) with true. cbv iota.
    change ((n0 :: nt) ++ spaces k) with (n0 :: (nt ++ spaces k)). apply skip_cspace_word. exact Hn0. }
  rewrite Es. change ((n0 :: nt) ++ spaces k) with (spaces 0 ++ (n0 :: nt) ++ spaces k).
  rewrite (read_word_app 0 n0 nt (spaces k) Hn (cur_spaces_word k)). reflexivity.
Qed.

(* FitsMtz for one COLUMN record: label a non-empty word, type a word character, the two float texts non-empty
   tokens, and the whole record within 80 columns (label <= 30 characters, dataset id <= 4 digits). *)
Definition FitsColumn (c : column) : Prop :=
  c_label c <> [] /\ wordy (c_label c) /\ word_char (c_type c) = true /\
  format17 (c_min c) <> [] /\ wordy (format17 (c_min c)) /\
  format17 (c_max c) <> [] /\ wordy (format17 (c_max c)) /\
  (length (pr_column c) <= 80)%nat.

Lemma header_roundtrip_lemma :
  (forall st a b c, 0 <= c <= 10000000 -> (length (pr_ncol a b c) <= 80)%nat ->
     parse_record st (write_rec (pr_ncol a b c)) = set_ncol st a b c) /\
  (forall st c, FitsColumn c ->
     parse_record st (write_rec (pr_column c)) =
     set_cols st (mkPcol (c_label c) (c_type c) (c_ds c) [] :: p_cols st)) /\
  (forall st id name, name <> [] -> wordy name -> (length (pr_dsname k_PROJECT id name) <= 80)%nat ->
     parse_record st (write_rec (pr_dsname k_PROJECT id name)) = set_dss st (mkPds id name [] [] :: p_dss st)) /\
  (forall b, Forall (fun c => c <> 0) (b_title b) -> (length (b_title b) <= 70)%nat ->
     is_cspace (cur (rev (b_title b))) = false ->
     parse_btitle (write_rec (pr_btitle b)) = b_title b).
Proof.
  split; [exact ncol_roundtrip|]. split; [|split; [|exact btitle_roundtrip]].
  - intros st c (Hl & Hlw & Hty & Hm & Hmw & Hx & Hxw & Hlen).
    destruct (c_label c) as [|l0 lt] eqn:El; [contradiction|].
    destruct (format17 (c_min c)) as [|m0 mt] eqn:Em; [contradiction|].
    destruct (format17 (c_max c)) as [|x0 xt] eqn:Ex; [contradiction|].
    rewrite <- El. apply (column_roundtrip st c l0 lt m0 mt x0 xt); auto.
  - intros st id name Hne Hw Hlen. destruct name as [|n0 nt]; [contradiction|].
    apply project_roundtrip; assumption.
Qed.


Lemma btitle_orig_refuted : exists b : batch, parse_btitle_orig (write_rec (pr_btitle b)) <> b_title b.
Proof. exists (mkBatch 1 [65] 29 156 [] [] []). vm_compute. discriminate. Qed.

(* non-vacuity: a 30-character label with a 4-digit dataset id fits, and is read back *)
Example fits_column_30 :
  let c := mkCol (repeat 65 30) 70 [49; 46; 53] [50; 46; 53] 9999 [] in
  FitsColumn c /\ pc_label (hd (mkPcol [] 0 0 []) (p_cols (parse_record p0 (write_rec (pr_column c))))) = repeat 65 30.
Proof.
  cbv zeta. split; [|vm_compute; reflexivity].
  unfold FitsColumn. repeat split; try (vm_compute; discriminate); try (vm_compute; reflexivity);
    try (unfold wordy; vm_compute; repeat constructor).
Qed.
