(* Proofs about the bounded-buffer model of the MTZ header writer (Fmt.v). *)
From GV Require Import Base.Str Mtz.Fmt.
From Coq Require Import Lia.
Local Open Scope Z_scope.

Lemma store_len : forall buf pos w b, store buf pos w = Some b -> length b = length buf.
Proof.
  unfold store, overwrite; intros buf pos w b H.
  destruct (Nat.leb_spec (pos + length w) (length buf)) as [Hle|]; [|discriminate].
  inversion H; subst; clear H.
  rewrite !app_length, firstn_length, skipn_length. lia.
Qed.

Lemma store_ok : forall buf pos w, (pos + length w <= length buf)%nat ->
  store buf pos w = Some (overwrite buf pos w).
Proof.
  unfold store; intros. destruct (Nat.leb_spec (pos + length w) (length buf)); [reflexivity|lia].
Qed.

Lemma spaces_len : forall n, length (spaces n) = n.
Proof. intros; apply repeat_length. Qed.

Lemma write_rec_len : forall s, length (write_rec s) = 80%nat.
Proof. intros; unfold write_rec; rewrite app_length, firstn_length, spaces_len; lia. Qed.

Lemma firstn_app_exact : forall (A : Type) (l r : list A) n, n = length l -> firstn n (l ++ r) = l.
Proof.
  intros A l r n ->. rewrite firstn_app, Nat.sub_diag, firstn_all. cbn. apply app_nil_r.
Qed.

(* WRITE never leaves the buffer and emits exactly write_rec s, whatever the length of s *)
Lemma WRITE_spec : forall buf s, length buf = BUFSZ ->
  exists b2, WRITE buf s = Some (b2, write_rec s) /\ length b2 = BUFSZ.
Proof.
  intros buf s Hb. unfold WRITE, snprintf_at, BUFSZ in *.
  set (w := firstn (81 - 1) s ++ [0]).
  assert (Hw : (length w <= 81)%nat).
  { unfold w; rewrite app_length, firstn_length; cbn [length]; lia. }
  rewrite store_ok by lia.
  assert (Hb1 : length (overwrite buf 0 w) = 81%nat).
  { erewrite store_len; [exact Hb | apply store_ok; lia]. }
  destruct (Nat.ltb_spec (length s) 80) as [Hlt|Hge].
  - unfold memset_at.
    assert (Hst : store (overwrite buf 0 w) (length s) (repeat 32 (80 - length s)) =
                  Some (overwrite (overwrite buf 0 w) (length s) (repeat 32 (80 - length s)))).
    { apply store_ok. rewrite repeat_length. lia. }
    rewrite Hst.
    eexists; split; [|erewrite store_len; [exact Hb1| exact Hst]].
    f_equal. f_equal.
    unfold overwrite at 1. rewrite repeat_length.
    assert (Hs : firstn (length s) (overwrite buf 0 w) = s).
    { unfold overwrite, w. cbn [firstn app]. replace (81 - 1)%nat with 80%nat by lia.
      rewrite (firstn_all2 s) by lia. rewrite <- app_assoc. apply firstn_app_exact; reflexivity. }
    rewrite Hs. unfold write_rec, spaces. rewrite (firstn_all2 s) by lia.
    rewrite app_assoc. apply firstn_app_exact. rewrite app_length, repeat_length. lia.
  - eexists; split; [|exact Hb1]. f_equal. f_equal.
    unfold overwrite, w, write_rec. change (firstn 0 buf) with (@nil Z). cbn [app].
    replace (81 - 1)%nat with 80%nat by lia.
    replace (80 - length s)%nat with 0%nat by lia. cbn [spaces repeat]. rewrite app_nil_r.
    rewrite <- app_assoc. apply firstn_app_exact. rewrite firstn_length; lia.
Qed.

Definition all80 (l : list str) : Prop := Forall (fun r => length r = 80%nat) l.

Lemma snprintf7_ok : forall buf pos s, length buf = BUFSZ -> (pos <= 74)%nat ->
  exists b, snprintf_at buf pos 7 s = Some (b, length s) /\ length b = BUFSZ.
Proof.
  intros buf pos s Hb Hp. unfold snprintf_at, BUFSZ in *.
  assert (Hw : (length (firstn (7 - 1) s ++ [0%Z]) <= 7)%nat).
  { rewrite app_length, firstn_length; cbn [length]; lia. }
  rewrite store_ok by lia. eexists; split; [reflexivity|].
  erewrite store_len; [exact Hb | apply store_ok; lia].
Qed.

Definition ok_pack (r : option (str * list str)) : Prop :=
  match r with Some (b, out) => length b = BUFSZ /\ all80 out | None => False end.
Definition ok_run (r : option (list str)) : Prop :=
  match r with Some out => all80 out | None => False end.

(* The repaired BATCH packer: for any batch numbers (any width), from a position 0 or 12..72, it stays
   inside buf[81] and emits 80-byte lines only. *)
Lemma batch_pack_ok : forall nums (buf : str) pos, length buf = BUFSZ -> (pos = 0 \/ 12 <= pos <= 72)%nat ->
  ok_pack (batch_pack buf pos nums).
Proof.
  induction nums as [|n rest IH]; intros buf pos Hb Hp.
  - cbn. split; auto. constructor.
  - cbn [batch_pack].
    assert (H0 : exists b0, (if (pos =? 0)%nat then store buf 0 BATCH_ else Some buf) = Some b0 /\ length b0 = BUFSZ).
    { destruct (pos =? 0)%nat.
      - rewrite store_ok by (rewrite Hb; cbn; unfold BUFSZ; lia).
        eexists; split; [reflexivity|]. erewrite store_len; [exact Hb| apply store_ok; rewrite Hb; cbn; unfold BUFSZ; lia].
      - eauto. }
    destruct H0 as (b0 & E0 & Hb0). rewrite E0.
    set (pos0 := if (pos =? 0)%nat then 6%nat else pos).
    assert (Hp0 : (pos0 = 6 \/ 12 <= pos0 <= 72)%nat).
    { unfold pos0. destruct (Nat.eqb_spec pos 0); lia. }
    destruct (snprintf7_ok b0 pos0 (fmt_d 6 n) Hb0 ltac:(lia)) as (b1 & E1 & Hb1). rewrite E1.
    destruct ((72 <? pos0 + 6)%nat || is_nil rest) eqn:Hfl.
    + unfold memset_at.
      set (b2 := overwrite b1 (pos0 + 6) (repeat 32 (80 - (pos0 + 6)))).
      assert (Hst : store b1 (pos0 + 6) (repeat 32 (80 - (pos0 + 6))) = Some b2).
      { apply store_ok. rewrite repeat_length, Hb1. unfold BUFSZ. lia. }
      rewrite Hst.
      assert (Hb2 : length b2 = BUFSZ).
      { erewrite store_len; [exact Hb1| exact Hst]. }
      specialize (IH b2 0%nat Hb2 ltac:(lia)).
      destruct (batch_pack b2 0 rest) as [[b3 out]|]; [|contradiction].
      destruct IH as [Hb3 Hout]. split; auto.
      constructor; auto. rewrite firstn_length, Hb2. unfold BUFSZ; lia.
    + apply Bool.orb_false_iff in Hfl. destruct Hfl as [Hfl _].
      apply Nat.ltb_ge in Hfl.
      apply IH; auto. lia.
Qed.

Lemma run_steps_ok : forall l buf, length buf = BUFSZ -> ok_run (run_steps batch_pack buf l).
Proof.
  induction l as [|st t IH]; intros buf Hb.
  - cbn. constructor.
  - destruct st as [s|nums]; cbn [run_steps].
    + destruct (WRITE_spec buf s Hb) as (b2 & E & Hb2). rewrite E.
      specialize (IH b2 Hb2). destruct (run_steps batch_pack b2 t); [|contradiction].
      cbn. constructor; auto. apply write_rec_len.
    + pose proof (batch_pack_ok nums buf 0%nat Hb ltac:(lia)) as Hp.
      destruct (batch_pack buf 0 nums) as [[b rs]|]; [|contradiction].
      destruct Hp as [Hb' Hrs].
      specialize (IH b Hb'). destruct (run_steps batch_pack b t); [|contradiction].
      cbn. apply Forall_app; split; auto.
Qed.

Lemma run_steps_safe : forall l buf, length buf = BUFSZ ->
  exists out, run_steps batch_pack buf l = Some out /\ all80 out.
Proof.
  intros l buf Hb. pose proof (run_steps_ok l buf Hb) as H.
  destruct (run_steps batch_pack buf l) as [out|]; [|contradiction]. eauto.
Qed.

(* a run of plain WRITEs emits exactly write_rec of each text, whatever packer and buffer content *)
Lemma run_steps_SW : forall packer texts buf, length buf = BUFSZ ->
  run_steps packer buf (map SW texts) = Some (map write_rec texts).
Proof.
  induction texts as [|s t IH]; intros buf Hb; [reflexivity|].
  cbn [map run_steps]. destruct (WRITE_spec buf s Hb) as (b2 & E & Hb2). rewrite E.
  rewrite (IH b2 Hb2). reflexivity.
Qed.

(* The packer as in the pinned snapshot writes outside the buffer: 13 batches are enough. *)
Lemma batch_pack_orig_overflows :
  batch_pack_orig buf0 0 [1; 2; 3; 4; 5; 6; 7; 8; 9; 10; 11; 12; 13] = None.
Proof. vm_compute. reflexivity. Qed.

(* ... and even when it does not, the padding erases the last number of the line *)
Lemma batch_pack_orig_drops_number :
  option_map snd (batch_pack_orig buf0 0 [100; 101]) = Some [write_rec (BATCH_ ++ fmt_d 6 100)].
Proof. vm_compute. reflexivity. Qed.

Lemma batch_pack_two :
  option_map snd (batch_pack buf0 0 [100; 101]) = Some [write_rec (BATCH_ ++ fmt_d 6 100 ++ fmt_d 6 101)].
Proof. vm_compute. reflexivity. Qed.
