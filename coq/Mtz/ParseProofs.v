(* print -> parse lemmas for the MTZ header fields: "%Nd" read by simple_atoi, words read by read_word. *)
From GV Require Import Base.Str Mtz.Fmt Mtz.Header.
From Coq Require Import Lia ZifyBool.
Local Open Scope Z_scope.
Ltac Zify.zify_post_hook ::= Z.to_euclidean_division_equations.

Definition dval (l : str) (a : Z) : Z := fold_left (fun a c => a * 10 + (c - 48)) l a.
Definition digit (c : Z) : Prop := is_digit c = true.
Lemma digit_intro : forall c, 48 <= c <= 57 -> digit c.
Proof. intros c H. unfold digit, is_digit. apply andb_true_intro; split; apply Z.leb_le; lia. Qed.

Lemma digits_acc_app : forall l a r, Forall digit l -> is_digit (cur r) = false ->
  digits_acc a (l ++ r) = (dval l a, r).
Proof.
  induction l as [|c t IH]; intros a r Hl Hr.
  - cbn. destruct r as [|c t]; [reflexivity|]. cbn in Hr. cbn. rewrite Hr. reflexivity.
  - inversion Hl as [|? ? Hc Ht]; subst. cbn [app digits_acc]. unfold digit in Hc. rewrite Hc.
    rewrite IH by assumption. reflexivity.
Qed.

Lemma pos_digits_spec : forall f n acc, (1 <= f)%nat -> 0 <= n < 2 ^ Z.of_nat f ->
  exists d ds, pos_digits f n acc = (d :: ds) ++ acc /\ Forall digit (d :: ds) /\
               forall a, dval (d :: ds) a = a * 10 ^ Z.of_nat (length (d :: ds)) + n.
Proof.
  induction f as [|f IH]; intros n acc Hf Hn; [lia|].
  cbn [pos_digits]. destruct (Z.ltb_spec n 10) as [Hs|Hb].
  - exists (48 + n), []. repeat split.
    + constructor; [|constructor]. apply digit_intro. lia.
    + intros a. unfold dval. cbn [fold_left length]. change (Z.of_nat 1) with 1. rewrite Z.pow_1_r. lia.
  - assert (Hf1 : (1 <= f)%nat).
    { destruct f; [|lia]. cbn in Hn. lia. }
    assert (Hn' : 0 <= n / 10 < 2 ^ Z.of_nat f).
    { rewrite Nat2Z.inj_succ, Z.pow_succ_r in Hn by lia. split; [lia|].
      assert (0 < 2 ^ Z.of_nat f) by (apply Z.pow_pos_nonneg; lia). lia. }
    destruct (IH (n / 10) ((48 + n mod 10) :: acc) Hf1 Hn') as (d & ds & E & Hd & Hv).
    exists d, (ds ++ [48 + n mod 10]). repeat split.
    + rewrite E. cbn [app]. rewrite <- app_assoc. reflexivity.
    + change (d :: ds ++ [48 + n mod 10]) with ((d :: ds) ++ [48 + n mod 10]).
      apply Forall_app; split; [exact Hd|]. constructor; [|constructor]. apply digit_intro. lia.
    + intros a. change (d :: ds ++ [48 + n mod 10]) with ((d :: ds) ++ [48 + n mod 10]).
      unfold dval. rewrite fold_left_app. fold (dval (d :: ds) a). rewrite Hv.
      cbn [fold_left]. rewrite app_length. change (length [48 + n mod 10]) with 1%nat.
      set (k := length (d :: ds)). rewrite Nat.add_1_r, Nat2Z.inj_succ, Z.pow_succ_r by lia.
      set (X := 10 ^ Z.of_nat k). nia.
Qed.

Lemma print_nat_spec : forall n, 0 <= n ->
  exists d ds, print_nat n = d :: ds /\ Forall digit (d :: ds) /\ dval (d :: ds) 0 = n.
Proof.
  intros n Hn. unfold print_nat.
  destruct (pos_digits_spec (S (Z.to_nat (Z.log2 n))) n [] ltac:(lia)) as (d & ds & E & Hd & Hv).
  - rewrite Nat2Z.inj_succ, Z2Nat.id by apply Z.log2_nonneg.
    destruct (Z.eq_dec n 0) as [->|Hnz]; [cbn; lia|].
    split; [lia|]. apply Z.log2_spec. lia.
  - exists d, ds. rewrite E, app_nil_r. repeat split; auto. rewrite Hv. lia.
Qed.

Lemma digit_facts : forall d, digit d -> is_cspace d = false /\ d <> 45 /\ d <> 43.
Proof. unfold digit, is_digit, is_cspace; intros; lia. Qed.

(* "%d" read back by simple_atoi, whatever follows as long as it is not a digit *)
Lemma atoi_print_int : forall n r, is_digit (cur r) = false -> simple_atoi (print_int n ++ r) = (n, r).
Proof.
  intros n r Hr. unfold print_int. destruct (Z.ltb_spec n 0) as [Hneg|Hpos].
  - destruct (print_nat_spec (- n) ltac:(lia)) as (d & ds & E & Hd & Hv). rewrite E.
    unfold simple_atoi. cbn [app skip_while is_cspace]. change (is_cspace 45) with false. cbv iota.
    change (d :: ds ++ r) with ((d :: ds) ++ r). rewrite digits_acc_app by assumption. rewrite Hv. f_equal. lia.
  - destruct (print_nat_spec n Hpos) as (d & ds & E & Hd & Hv). rewrite E.
    inversion Hd as [|? ? Hd0 _]; subst.
    assert (Hd10 : d = 48 \/ d = 49 \/ d = 50 \/ d = 51 \/ d = 52 \/ d = 53 \/ d = 54 \/ d = 55 \/ d = 56 \/ d = 57).
    { unfold digit, is_digit in Hd0. lia. }
    cbn [app].
    assert (Hfin : forall c, Forall digit (c :: ds) ->
              (let '(v, rest) := digits_acc 0 (c :: ds ++ r) in ((if false then - v else v), rest)) = (dval (c :: ds) 0, r)).
    { intros c Hc. change (c :: ds ++ r) with ((c :: ds) ++ r). rewrite digits_acc_app by assumption. reflexivity. }
    repeat (destruct Hd10 as [Hx|Hd10]; [subst d; unfold simple_atoi; cbn [skip_while];
      match goal with |- context [is_cspace ?c] => change (is_cspace c) with false end;
      cbv beta iota zeta; apply Hfin; assumption|]).
    subst d; unfold simple_atoi; cbn [skip_while];
      match goal with |- context [is_cspace ?c] => change (is_cspace c) with false end;
      cbv beta iota zeta; apply Hfin; assumption.
Qed.

Lemma skip_spaces : forall k s, skip_while is_cspace (spaces k ++ s) = skip_while is_cspace s.
Proof. induction k as [|k IH]; intros s; [reflexivity|]. cbn. apply IH. Qed.

Lemma skip_while_idem : forall p s, skip_while p (skip_while p s) = skip_while p s.
Proof.
  induction s as [|c t IH]; [reflexivity|]. cbn. destruct (p c) eqn:E; [exact IH|]. cbn. rewrite E. reflexivity.
Qed.

Lemma atoi_skip : forall s, simple_atoi (skip_while is_cspace s) = simple_atoi s.
Proof. intros; unfold simple_atoi. rewrite skip_while_idem. reflexivity. Qed.

Lemma atoi_spaces : forall k s, simple_atoi (spaces k ++ s) = simple_atoi s.
Proof. intros; unfold simple_atoi. rewrite skip_spaces. reflexivity. Qed.

Lemma atoi_sp : forall s, simple_atoi (32 :: s) = simple_atoi s.
Proof. intros. apply (atoi_spaces 1 s). Qed.

(* "%<w>d" of any int, read back *)
Lemma atoi_fmt_d : forall w n r, is_digit (cur r) = false -> simple_atoi (fmt_d w n ++ r) = (n, r).
Proof.
  intros w n r Hr. unfold fmt_d, padl. rewrite <- app_assoc, atoi_spaces. apply atoi_print_int; exact Hr.
Qed.

(* words *)
Definition wordy (w : str) : Prop := Forall (fun c => word_char c = true) w.

Lemma take_word_app : forall w r, wordy w -> word_char (cur r) = false ->
  take_while word_char (w ++ r) = w /\ skip_while word_char (w ++ r) = r.
Proof.
  induction w as [|c t IH]; intros r Hw Hr.
  - cbn. destruct r as [|c t]; [split; reflexivity|]. cbn in Hr. cbn. rewrite Hr. split; reflexivity.
  - inversion Hw as [|? ? Hc Ht]; subst. cbn. rewrite Hc.
    destruct (IH r Ht Hr) as [E1 E2]. rewrite E1, E2. split; reflexivity.
Qed.

Lemma word_not_blank : forall c, word_char c = true -> is_blank c = false.
Proof. unfold word_char, is_blank, is_cspace; intros; lia. Qed.

(* a non-empty word followed by a blank/NUL/end is read back by read_word, leading blanks skipped *)
Lemma read_word_app : forall k c w r, wordy (c :: w) -> word_char (cur r) = false ->
  read_word (spaces k ++ (c :: w) ++ r) = (c :: w, r).
Proof.
  intros k c w r Hw Hr. unfold read_word.
  assert (Es : skip_while is_blank (spaces k ++ (c :: w) ++ r) = (c :: w) ++ r).
  { induction k as [|k IH]; [|exact IH].
    inversion Hw as [|? ? Hc _]; subst. cbn. rewrite (word_not_blank c Hc). reflexivity. }
  rewrite Es. destruct (take_word_app (c :: w) r Hw Hr) as [E1 E2]. rewrite E1, E2. reflexivity.
Qed.

Lemma write_rec_short : forall s, (length s <= 80)%nat -> write_rec s = s ++ spaces (80 - length s).
Proof. intros s H. unfold write_rec. rewrite firstn_all2 by lia. reflexivity. Qed.

Lemma cur_spaces_digit : forall k, is_digit (cur (spaces k)) = false.
Proof. destruct k; reflexivity. Qed.
Lemma cur_spaces_word : forall k, word_char (cur (spaces k)) = false.
Proof. destruct k; reflexivity. Qed.
