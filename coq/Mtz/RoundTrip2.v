(* More print -> parse round trips of MTZ header records (model Mtz/Header.v): SORT and MTZHIST. *)
From Coq Require Import Lia ZifyBool.
From GV Require Import Base.Str Num.IntParse Mtz.Fmt Mtz.Header Mtz.ParseProofs Mtz.RoundTrip.
Local Open Scope Z_scope.

(* SORT: five "%3d" fields, read back by five simple_atoi calls *)
Lemma sort_roundtrip : forall st a b c d e, (length (pr_sort [a; b; c; d; e]) <= 80)%nat ->
  parse_record st (write_rec (pr_sort [a; b; c; d; e])) = set_sort st [a; b; c; d; e].
Proof.
  intros st a b c d e Hlen. rewrite write_rec_short by exact Hlen.
  set (k := (80 - length (pr_sort [a; b; c; d; e]))%nat). unfold pr_sort, k_SORT, SP. cbn [map join_sp].
  set (X := 32 :: (fmt_d 3 a ++ [32] ++ fmt_d 3 b ++ [32] ++ fmt_d 3 c ++ [32] ++ fmt_d 3 d ++ [32] ++ fmt_d 3 e) ++ spaces k).
  assert (El : ([83; 79; 82; 84; 32; 32] ++ fmt_d 3 a ++ SP ++ fmt_d 3 b ++ SP ++ fmt_d 3 c ++ SP ++ fmt_d 3 d ++ SP ++ fmt_d 3 e) ++ spaces k
               = [83; 79; 82; 84] ++ 32 :: X).
  { unfold X, SP. cbn [app]. rewrite <- !app_assoc. reflexivity. }
  unfold SP in *. rewrite El. unfold parse_record. rewrite skip_key by wordy4.
  change (key4 ([83; 79; 82; 84] ++ 32 :: X)) with (K 83 79 82 84). cbv zeta. eval_keys.
  unfold atoi_n. rewrite atoi_skip. unfold X. rewrite atoi_sp. rewrite <- !app_assoc.
  rewrite atoi_fmt_d by reflexivity. cbn [app]. rewrite atoi_sp.
  rewrite atoi_fmt_d by reflexivity. cbn [app]. rewrite atoi_sp.
  rewrite atoi_fmt_d by reflexivity. cbn [app]. rewrite atoi_sp.
  rewrite atoi_fmt_d by reflexivity. cbn [app]. rewrite atoi_sp.
  rewrite atoi_fmt_d by apply cur_spaces_digit. reflexivity.
Qed.

(* MTZHIST: "%3d" after the keyword *)
Lemma mtzhist_roundtrip : forall n, (length (pr_mtzhist n) <= 80)%nat ->
  parse_mtzhist (write_rec (pr_mtzhist n)) = n.
Proof.
  intros n Hlen. rewrite write_rec_short by exact Hlen.
  set (k := (80 - length (pr_mtzhist n))%nat). unfold pr_mtzhist, k_MTZHIST, parse_mtzhist.
  change (skipn 4 (([77; 84; 90; 72; 73; 83; 84; 32] ++ fmt_d 3 n) ++ spaces k))
    with ([73; 83; 84] ++ 32 :: (fmt_d 3 n ++ spaces k)).
  rewrite skip_key by wordy4. rewrite atoi_skip, atoi_fmt_d by apply cur_spaces_digit. reflexivity.
Qed.

(* ---------------- SYMINF: number of operations, CCP4 number and the quoted space-group name *)
Lemma cstr_no_nul : forall s, Forall (fun c => c <> 0) (cstr s).
Proof.
  induction s as [|c t IH]; cbn [cstr]; [constructor|].
  destruct (Z.eqb_spec c 0); [constructor|]. constructor; assumption.
Qed.

Lemma skip_blank_spaces : forall k c r, is_blank c = false ->
  skip_while is_blank (spaces k ++ c :: r) = c :: r.
Proof.
  induction k as [|k IH]; intros c r H; cbn [spaces repeat app skip_while].
  - rewrite H. reflexivity.
  - change (is_blank 32) with true. cbv iota. apply IH. exact H.
Qed.

Lemma take_until_quote : forall name rest, Forall (fun c => c <> 39) name ->
  take_while (fun c => negb (c =? 39)) (name ++ 39 :: rest) = name.
Proof.
  induction name as [|c t IH]; intros rest H; cbn [app take_while].
  - reflexivity.
  - inversion H as [|? ? Hc Ht]; subst. destruct (Z.eqb_spec c 39); [contradiction|]. cbn [negb]. rewrite IH by assumption. reflexivity.
Qed.

Lemma quote_found : forall name rest, Forall (fun c => c <> 0) name ->
  existsb (fun c => c =? 39) (take_while (fun c => negb (c =? 0)) (name ++ 39 :: rest)) = true.
Proof.
  induction name as [|c t IH]; intros rest H; cbn [app take_while].
  - reflexivity.
  - inversion H as [|? ? Hc Ht]; subst. destruct (Z.eqb_spec c 0); [contradiction|]. cbn [negb existsb].
    rewrite IH by assumption. apply Bool.orb_true_r.
Qed.

Lemma syminf_roundtrip : forall st nsym nprim lat ccp4 hm pg,
  word_char lat = true -> lat <> 39 ->
  Forall (fun c => c <> 39) (cstr (adv hm)) ->
  (length (pr_syminf nsym nprim lat ccp4 hm pg) <= 80)%nat ->
  parse_record st (write_rec (pr_syminf nsym nprim lat ccp4 hm pg)) = set_symi st nsym ccp4 (lat :: cstr (adv hm)).
Proof.
  intros st nsym nprim lat ccp4 hm pg Hlat Hq Hname Hlen. rewrite write_rec_short by exact Hlen.
  set (k := (80 - length (pr_syminf nsym nprim lat ccp4 hm pg))%nat). unfold pr_syminf, k_SYMINF, SP.
  set (j := Z.abs_nat (20 - zlen hm)). set (name := cstr (adv hm)) in *.
  set (tail := [39; 32; 80; 71] ++ cstr pg ++ spaces k).
  set (X := fmt_d 3 nsym ++ 32 :: fmt_d 2 nprim ++ 32 :: lat :: 32 :: fmt_d 5 ccp4 ++ 32 :: spaces j ++ 39 :: (lat :: name) ++ tail).
  assert (El : ([83; 89; 77; 73; 78; 70; 32] ++ fmt_d 3 nsym ++ [32] ++ fmt_d 2 nprim ++ [32] ++ [lat] ++ [32] ++
                fmt_d 5 ccp4 ++ [32] ++ spaces j ++ [39] ++ [lat] ++ name ++ [39; 32; 80; 71] ++ cstr pg) ++ spaces k
               = [83; 89; 77; 73; 78; 70] ++ 32 :: X).
  { unfold X, tail. repeat (rewrite <- app_assoc; cbn [app]). reflexivity. }
  rewrite El. unfold parse_record. rewrite skip_key by wordy4.
  change (key4 ([83; 89; 77; 73; 78; 70] ++ 32 :: X)) with (K 83 89 77 73). cbv zeta. eval_keys.
  unfold parse_syminf. rewrite atoi_skip. unfold X.
  rewrite atoi_fmt_d by reflexivity. rewrite atoi_sp. rewrite atoi_fmt_d by reflexivity.
  (* skip the lattice letter *)
  assert (Hb : is_blank lat = false) by (apply word_not_blank; exact Hlat).
  assert (Hc : is_cspace lat = false) by (unfold word_char in Hlat; destruct (is_cspace lat); [rewrite Bool.andb_false_r in Hlat; discriminate|reflexivity]).
  cbn [skip_while]. change (is_blank 32) with true. cbv iota. cbn [skip_while]. rewrite Hb.
  unfold skip_word_and_space. cbn [skip_while]. rewrite Hlat. cbn [skip_while].
  change (word_char 32) with false. cbv iota. cbn [skip_while]. change (is_cspace 32) with true. cbv iota.
  fold (skip_while is_cspace). rewrite atoi_skip.
  rewrite atoi_fmt_d by reflexivity.
  change (32 :: spaces j ++ 39 :: (lat :: name) ++ tail) with (spaces (S j) ++ 39 :: (lat :: name) ++ tail).
  rewrite skip_blank_spaces by reflexivity.
  change (cur (39 :: (lat :: name) ++ tail) =? 39) with true. cbv iota.
  change (adv (39 :: (lat :: name) ++ tail)) with ((lat :: name) ++ tail).
  unfold tail. change ([39; 32; 80; 71] ++ cstr pg ++ spaces k) with (39 :: ([32; 80; 71] ++ cstr pg ++ spaces k)).
  rewrite quote_found.
  - rewrite take_until_quote; [reflexivity|]. constructor; assumption.
  - constructor; [unfold word_char in Hlat; destruct (Z.eqb_spec lat 0); [subst; discriminate Hlat|assumption]|apply cstr_no_nul].
Qed.

(* ---------------- BH: batch number and the three word counts *)
Lemma bh_roundtrip : forall b, (length (pr_bh b) <= 80)%nat ->
  parse_bh (write_rec (pr_bh b)) = (b_num b, b_nint b + b_nflt b, b_nint b, b_nflt b).
Proof.
  intros b Hlen. rewrite write_rec_short by exact Hlen.
  set (k := (80 - length (pr_bh b))%nat). unfold pr_bh, k_BH, SP, parse_bh.
  match goal with |- context [skipn 2 ?L] =>
    change (skipn 2 L) with (32 :: (fmt_d 8 (b_num b) ++ [32] ++ fmt_d 7 (b_nint b + b_nflt b) ++ [32] ++
                                   fmt_d 7 (b_nint b) ++ [32] ++ fmt_d 7 (b_nflt b)) ++ spaces k) end.
  unfold atoi_n.
  assert (Ea : forall s, simple_atoi (skip_while is_blank s) = simple_atoi s).
  { intros s. induction s as [|c t IH]; [reflexivity|]. cbn [skip_while].
    destruct (is_blank c) eqn:E; [|reflexivity]. rewrite IH.
    unfold is_blank in E. destruct (Z.eqb_spec c 32) as [->|]; [symmetry; apply atoi_sp|].
    destruct (Z.eqb_spec c 9) as [->|]; [|discriminate].
    unfold simple_atoi. cbn [skip_while g_is_space]. reflexivity. }
  rewrite Ea, atoi_sp. rewrite <- !app_assoc.
  rewrite atoi_fmt_d by reflexivity. cbn [app]. rewrite atoi_sp.
  rewrite atoi_fmt_d by reflexivity. cbn [app]. rewrite atoi_sp.
  rewrite atoi_fmt_d by reflexivity. cbn [app]. rewrite atoi_sp.
  rewrite atoi_fmt_d by apply cur_spaces_digit. reflexivity.
Qed.

(* ---------------- CRYSTAL / DATASET: the name is attached to the dataset opened by the PROJECT record *)
Lemma crystal_roundtrip : forall st d t n0 nt,
  p_dss st = d :: t -> wordy (n0 :: nt) -> (length (pr_dsname k_CRYSTAL (pd_id d) (n0 :: nt)) <= 80)%nat ->
  parse_record st (write_rec (pr_dsname k_CRYSTAL (pd_id d) (n0 :: nt))) =
  set_dss st (mkPds (pd_id d) (pd_proj d) (n0 :: nt) (pd_name d) :: t).
Proof.
  intros st d t n0 nt Hd Hn Hlen. rewrite write_rec_short by exact Hlen.
  set (k := (80 - length (pr_dsname k_CRYSTAL (pd_id d) (n0 :: nt)))%nat). unfold pr_dsname, k_CRYSTAL, SP.
  rewrite (cstr_wordy _ Hn).
  set (X := fmt_d 7 (pd_id d) ++ 32 :: (n0 :: nt) ++ spaces k).
  match goal with |- parse_record st ?L = _ => assert (EL : L = [67; 82; 89; 83; 84; 65; 76] ++ 32 :: X) end.
  { unfold X. cbn [app]. repeat (rewrite <- !app_assoc; cbn [app]). reflexivity. }
  rewrite EL. unfold parse_record. rewrite skip_key by wordy4.
  change (key4 ([67; 82; 89; 83; 84; 65; 76] ++ 32 :: X)) with (K 67 82 89 83). cbv zeta. eval_keys.
  rewrite Hd. rewrite atoi_skip. unfold X. rewrite atoi_fmt_d by reflexivity. rewrite Z.eqb_refl.
  change (32 :: (n0 :: nt) ++ spaces k) with (spaces 1 ++ (n0 :: nt) ++ spaces k).
  rewrite (read_word_app 1 n0 nt (spaces k) Hn (cur_spaces_word k)). reflexivity.
Qed.

Lemma dataset_roundtrip : forall st d t n0 nt,
  p_dss st = d :: t -> wordy (n0 :: nt) -> (length (pr_dsname k_DATASET (pd_id d) (n0 :: nt)) <= 80)%nat ->
  parse_record st (write_rec (pr_dsname k_DATASET (pd_id d) (n0 :: nt))) =
  set_dss st (mkPds (pd_id d) (pd_proj d) (pd_crys d) (n0 :: nt) :: t).
Proof.
  intros st d t n0 nt Hd Hn Hlen. rewrite write_rec_short by exact Hlen.
  set (k := (80 - length (pr_dsname k_DATASET (pd_id d) (n0 :: nt)))%nat). unfold pr_dsname, k_DATASET, SP.
  rewrite (cstr_wordy _ Hn).
  set (X := fmt_d 7 (pd_id d) ++ 32 :: (n0 :: nt) ++ spaces k).
  match goal with |- parse_record st ?L = _ => assert (EL : L = [68; 65; 84; 65; 83; 69; 84] ++ 32 :: X) end.
  { unfold X. cbn [app]. repeat (rewrite <- !app_assoc; cbn [app]). reflexivity. }
  rewrite EL. unfold parse_record. rewrite skip_key by wordy4.
  change (key4 ([68; 65; 84; 65; 83; 69; 84] ++ 32 :: X)) with (K 68 65 84 65). cbv zeta. eval_keys.
  rewrite Hd. rewrite atoi_skip. unfold X. rewrite atoi_fmt_d by reflexivity. rewrite Z.eqb_refl.
  change (32 :: (n0 :: nt) ++ spaces k) with (spaces 1 ++ (n0 :: nt) ++ spaces k).
  rewrite (read_word_app 1 n0 nt (spaces k) Hn (cur_spaces_word k)). reflexivity.
Qed.
