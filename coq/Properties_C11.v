(* Property C11: unit-cell geometry is self-consistent for every valid cell.
   Statements only; proofs live in Geo/CellR.v (real numbers) and Geo/CellQCheck.v (rational witness).
   The model Geo/Cell.v mirrors UnitCell::calculate_properties etc. over an abstract field; RO is its
   instance at R (Coq Reals: the classical axioms of that library are the only assumptions), QO D the
   executable instance at Q(sqrt D) that is extracted and compared with gemmi.
   A cell is (a,b,c, cos/sin of the three angles, exact-90 flags, rD) and Valid says: edges and sines
   positive, sin^2 + cos^2 = 1, rD > 0, rD^2 = 1 - ca^2 - cb^2 - cg^2 + 2 ca cb cg (positive volume
   discriminant), an exact-90 flag goes with cos = 0 and sin = 1. *)
From Coq Require Import Reals ZArith List Bool QArith.
From GV Require Import Geo.Cell Geo.CellR Geo.CellQ Geo.CellQCheck.
Local Open Scope R_scope.

(* fractionalisation and orthogonalisation matrices are mutually inverse *)
Theorem C11_frac_orth_inverse : forall c, Valid c ->
  mmul RO (frac RO c) (orth RO c) = ident RO /\ mmul RO (orth RO c) (frac RO c) = ident RO.
Proof. exact frac_orth_inverse_l. Qed.
Print Assumptions C11_frac_orth_inverse.

(* the reported volume is det(orth), equals a b c sqrt(D), and is positive *)
Theorem C11_volume_is_det : forall c, Valid c ->
  volume RO c = det RO (orth RO c) /\ volume RO c = ea c * eb c * ec c * sqrt (discr RO c) /\ 0 < volume RO c.
Proof. exact volume_is_det_l. Qed.
Print Assumptions C11_volume_is_det.

(* the coded sqrt(1 - cos_alphar^2) is the closed form the model carries *)
Theorem C11_sin_alphar : forall c, Valid c -> sar RO c = sqrt (1 - car RO c * car RO c).
Proof. exact sar_is_sqrt. Qed.
Print Assumptions C11_sin_alphar.

(* reciprocal metric tensor (closed forms ar..cos_gammar) is the inverse of the metric tensor *)
Theorem C11_reciprocal_metric_inverse : forall c, Valid c ->
  mmul RO (smat_as_mat (metric_tensor RO c)) (smat_as_mat (reciprocal_metric_tensor RO c)) = ident RO /\
  mmul RO (smat_as_mat (reciprocal_metric_tensor RO c)) (smat_as_mat (metric_tensor RO c)) = ident RO.
Proof. exact recip_metric_inverse_l. Qed.
Print Assumptions C11_reciprocal_metric_inverse.

(* the reciprocal cell is a valid cell, its metric tensor is G*, and its reciprocal is the original cell *)
Theorem C11_reciprocal_valid : forall c, Valid c -> Valid (reciprocal RO c).
Proof. exact reciprocal_valid. Qed.
Print Assumptions C11_reciprocal_valid.
Theorem C11_reciprocal_involutive : forall c, Valid c ->
  let rr := reciprocal RO (reciprocal RO c) in
  ea rr = ea c /\ eb rr = eb c /\ ec rr = ec c /\ ca rr = ca c /\ cb rr = cb c /\ cg rr = cg c /\
  sa rr = sa c /\ sb rr = sb c /\ sg rr = sg c /\ rD rr = rD c.
Proof. exact reciprocal_involutive_l. Qed.
Print Assumptions C11_reciprocal_involutive.

(* 1/d^2 = h^T G* h = | frac^T h |^2 (frac^T = orth^-T by C11_frac_orth_inverse) *)
Theorem C11_one_over_d2 : forall c h k l, Valid c ->
  calculate_1_d2 RO c h k l = r_u_r RO (reciprocal_metric_tensor RO c) h k l /\
  calculate_1_d2 RO c h k l = len_sq RO (mvmul RO (transpose (frac RO c)) (h, k, l)).
Proof. exact one_over_d2_l. Qed.
Print Assumptions C11_one_over_d2.

(* is_compatible_with_groupops(ops, eps) holds exactly when every rotation preserves the metric tensor
   within eps in each of the six components; with eps = 0: exactly when R^T G R = G for all of them *)
Theorem C11_compatible_iff_metric : forall c ops eps, Valid c ->
  (is_compatible RO c ops eps = true <->
   Forall (fun r => smat_close (metric_tensor RO c) (congr RO (metric_tensor RO c) (rotmat RO r)) eps) ops).
Proof. exact compatible_iff_metric_l. Qed.
Print Assumptions C11_compatible_iff_metric.
Theorem C11_compatible_exact : forall c ops, Valid c ->
  (is_compatible RO c ops 0 = true <->
   forall r, In r ops -> congr RO (metric_tensor RO c) (rotmat RO r) = metric_tensor RO c).
Proof. exact compatible_exact_l. Qed.
Print Assumptions C11_compatible_exact.

(* changed_basis_backward yields the metric tensor M^T G M, and applying P then M with P M = I restores G *)
Theorem C11_changed_basis_metric : forall c r, Valid c ->
  changed_basis_backward_metric RO c r = congr RO (metric_tensor RO c) (rotmat RO r).
Proof. exact changed_basis_metric. Qed.
Print Assumptions C11_changed_basis_metric.
Theorem C11_change_basis_roundtrip : forall G P M,
  mmul RO P M = ident RO -> congr RO (congr RO G P) M = G.
Proof. exact change_basis_roundtrip_l. Qed.
Print Assumptions C11_change_basis_roundtrip.

(* orthogonalize_box: the returned box contains the images of all eight corners of a fractional box *)
Theorem C11_box_contains_corners : forall c fmin fmax, Valid c -> vle fmin fmax ->
  box_has_corners RO c fmin fmax = true.
Proof. exact box_contains_corners_l. Qed.
Print Assumptions C11_box_contains_corners.
(* ... which is false for the angle test of the pinned snapshot (alpha != 90 || beta == 90 || gamma == 90):
   alpha = 90, cos beta = 3/5, cos gamma = 5/13, box [0,1]^3, corner (0,0,1) *)
Theorem C11_box_corners_pinned_refuted : exists (c : rcell) fmin fmax,
  Valid c /\ vle fmin fmax /\ box_has_corners_pinned RO c fmin fmax = false.
Proof. exact box_corners_refuted_l. Qed.
Print Assumptions C11_box_corners_pinned_refuted.
Theorem C11_box_corners_pinned_refuted_q : exists D c fmin fmax,
  qcell_valid D c = true /\ box_has_corners_pinned (QO D) c fmin fmax = false.
Proof. exact box_corners_refuted_q. Qed.
Print Assumptions C11_box_corners_pinned_refuted_q.

(* distances under periodic boundary conditions do not change when either point is moved by a lattice
   vector, away from rounding ties of the fractional difference; the nearest-image query reports it *)
Theorem C11_pbc_distance_invariant : forall c p q n1 n2 n3,
  NoTie3 (vsub RO p q) ->
  distance_sq RO c (vadd RO p (zvec n1 n2 n3)) q = distance_sq RO c p q /\
  distance_sq RO c p (vadd RO q (zvec n1 n2 n3)) = distance_sq RO c p q.
Proof. exact pbc_distance_invariant_l. Qed.
Print Assumptions C11_pbc_distance_invariant.
Theorem C11_nearest_image_dist : forall c fref fpos,
  fst (find_nearest_pbc_image RO c fref fpos) = distance_sq RO c fpos fref /\
  fst (find_nearest_pbc_image RO c fref fpos) =
    len_sq RO (mvmul RO (orth RO c) (vadd RO (vsub RO fpos fref) (snd (find_nearest_pbc_image RO c fref fpos)))).
Proof. exact nearest_image_dist. Qed.
Print Assumptions C11_nearest_image_dist.
