(* Byte strings as lists of char codes (Z in 0..255), C-string helpers, strtol, decimal printing. *)
From Coq Require Export ZArith List Bool.
Export ListNotations.
Local Open Scope Z_scope.

Definition str := list Z.

(* *p for a NUL-terminated C string: 0 at the end *)
Definition cur (s : str) : Z := match s with [] => 0 | c :: _ => c end.
Definition adv (s : str) : str := match s with [] => [] | _ :: t => t end.

Definition is_digit (c : Z) : bool := (48 <=? c) && (c <=? 57).
(* C isspace in the "C" locale *)
Definition is_cspace (c : Z) : bool := (c =? 32) || ((9 <=? c) && (c <=? 13)).

Fixpoint skip_while (p : Z -> bool) (s : str) : str :=
  match s with
  | c :: t => if p c then skip_while p t else s
  | [] => []
  end.

Fixpoint digits_acc (acc : Z) (s : str) : Z * str :=
  match s with
  | c :: t => if is_digit c then digits_acc (acc * 10 + (c - 48)) t else (acc, s)
  | [] => (acc, [])
  end.

(* strtol(p, &end, 10) without overflow clamping (callers' preconditions keep values small).
   No digits: value 0 and end = p. *)
Definition strtol10 (s : str) : Z * str :=
  let s1 := skip_while is_cspace s in
  let '(neg, s2) := match s1 with
                    | 45 :: t => (true, t)
                    | 43 :: t => (false, t)
                    | _ => (false, s1)
                    end in
  if is_digit (cur s2) then
    let '(v, rest) := digits_acc 0 s2 in ((if neg then - v else v), rest)
  else (0, s).

(* decimal printing of a non-negative number, most significant first; fuel = number of digits bound *)
Fixpoint pos_digits (fuel : nat) (n : Z) (acc : str) : str :=
  match fuel with
  | O => acc
  | S f => if n <? 10 then (48 + n) :: acc
           else pos_digits f (n / 10) ((48 + n mod 10) :: acc)
  end.
Definition print_nat (n : Z) : str := pos_digits (S (Z.to_nat (Z.log2 n))) n [].
(* std::to_string(int) *)
Definition print_int (n : Z) : str := if n <? 0 then 45 :: print_nat (- n) else print_nat n.

Fixpoint str_eqb (a b : str) : bool :=
  match a, b with
  | [], [] => true
  | x :: a', y :: b' => (x =? y) && str_eqb a' b'
  | _, _ => false
  end.

Fixpoint split_on (sep : Z) (s : str) (curr : str) : list str :=
  match s with
  | [] => [rev curr]
  | c :: t => if c =? sep then rev curr :: split_on sep t [] else split_on sep t (c :: curr)
  end.
