(* Proofs about BufOstream (to_cif.hpp) and the operation traces the CIF writer issues:
   (1) buffering is transparent: what reaches the stream is the concatenation of the operations' bytes;
   (2) the position machine is the length of the pending content;
   (3) ptr <= margin + (number of put() calls since the last write()/pad()), for ANY trace;
   (4) the writer never issues more than 3 put() in a row, so 0 <= ptr <= 4096 on every prefix. *)
From Coq Require Import Lia ZifyBool.
From GV Require Import Cif.Quote Cif.Write Cif.Buf.
Local Open Scope Z_scope.
Ltac Zify.zify_post_hook ::= Z.to_euclidean_division_equations.
Local Arguments Z.sub : simpl never.
Local Arguments Z.add : simpl never.
Local Arguments Z.mul : simpl never.
Local Arguments Z.div : simpl never.
Local Arguments Z.max : simpl never.
Local Arguments Z.leb : simpl never.
Local Arguments Z.ltb : simpl never.

Lemma len_app : forall a b : str, len (a ++ b) = len a + len b.
Proof. intros; unfold len; rewrite app_length; lia. Qed.
Lemma len_nonneg : forall a : str, 0 <= len a.
Proof. intros; unfold len; lia. Qed.
Lemma len_spaces : forall n, 0 <= n -> len (spaces n) = n.
Proof. intros; unfold len, spaces; rewrite repeat_length; lia. Qed.
Lemma spaces_add : forall a b, 0 <= a -> 0 <= b -> spaces a ++ spaces b = spaces (a + b).
Proof. intros; unfold spaces; rewrite Z2Nat.inj_add by lia; symmetry; apply repeat_app. Qed.

(* an operation the writer may issue: pad() is only called with n > 0 *)
Definition pos_pad (x : op) : Prop := match x with OPad n => 0 < n | _ => True end.

(* ---- (1) transparency *)
Lemma bstep_bytes : forall st x, pos_pad x ->
  emitted (bstep st x) ++ pending (bstep st x) = (emitted st ++ pending st) ++ op_bytes x.
Proof.
  intros [e p] x Hx; destruct x as [s|c|n]; simpl in *.
  - destruct (MARGIN <? len p + len s); [destruct (MARGIN <? len s)|]; simpl;
      repeat rewrite <- app_assoc; try rewrite app_nil_r; reflexivity.
  - repeat rewrite <- app_assoc; reflexivity.
  - pose proof (len_nonneg p) as Hp. fold (spaces n).
    destruct (len p + n <=? MARGIN) eqn:E; simpl.
    + repeat rewrite <- app_assoc; reflexivity.
    + apply Z.leb_gt in E. unfold MARGIN in *.
      remember (Z.max 0 (3584 - len p)) as k eqn:Hk. remember (n - k) as n1 eqn:Hn1.
      remember ((n1 - 1) / 3584) as q eqn:Hq.
      assert (0 <= k) by lia. assert (0 < n1) by lia.
      assert (0 <= q) by (subst q; apply Z.div_pos; lia).
      assert (q * 3584 <= n1 - 1) by lia.
      repeat rewrite <- app_assoc. f_equal. f_equal.
      rewrite (app_assoc (spaces k)), spaces_add by lia.
      rewrite spaces_add by lia. f_equal. lia.
Qed.

Lemma brun_bytes : forall l st, Forall pos_pad l ->
  emitted (brun st l) ++ pending (brun st l) = (emitted st ++ pending st) ++ ops_bytes l.
Proof.
  induction l as [|x t IH]; intros st H; simpl.
  - rewrite app_nil_r; reflexivity.
  - inversion H; subst. rewrite IH by assumption. rewrite bstep_bytes by assumption.
    unfold ops_bytes; simpl. rewrite <- app_assoc. reflexivity.
Qed.

Lemma buffered_output_transparent : forall l, Forall pos_pad l -> buffered_output l = ops_bytes l.
Proof.
  intros l H. unfold buffered_output, flush; simpl. rewrite (brun_bytes l (mkB [] []) H). reflexivity.
Qed.

(* ---- (2) the position machine is the length of the pending content *)
Lemma bstep_pos : forall st x, pos_pad x -> len (pending (bstep st x)) = step (len (pending st)) x.
Proof.
  intros [e p] x Hx; destruct x as [s|c|n]; simpl in *.
  - destruct (MARGIN <? len p + len s); [destruct (MARGIN <? len s)|]; simpl;
      try rewrite len_app; reflexivity.
  - rewrite len_app; reflexivity.
  - pose proof (len_nonneg p) as Hp. unfold pad_end. fold (spaces n).
    destruct (len p + n <=? MARGIN) eqn:E; simpl.
    + rewrite len_app, len_spaces by lia. reflexivity.
    + apply Z.leb_gt in E. unfold MARGIN in *. rewrite len_spaces; [reflexivity|]. lia.
Qed.

(* ---- (3) ptr <= margin + run length of put(), for any trace *)
Definition cnt (c : Z) (x : op) : Z := match x with OPut _ => c + 1 | _ => 0 end.

(* every operation is admissible and the run of consecutive put() never exceeds K *)
Fixpoint boundedc (K c : Z) (l : list op) : Prop :=
  match l with
  | [] => True
  | x :: t => pos_pad x /\ cnt c x <= K /\ boundedc K (cnt c x) t
  end.
Fixpoint endc (c : Z) (l : list op) : Z :=
  match l with [] => c | x :: t => endc (cnt c x) t end.

Lemma step_inv : forall p c x, 0 <= c -> 0 <= p <= MARGIN + c -> pos_pad x ->
  0 <= step p x <= MARGIN + cnt c x /\ peak p x <= MARGIN + c + 1 /\ 0 <= cnt c x.
Proof.
  intros p c x Hc Hp Hx. destruct x as [s|ch|n]; simpl in *.
  - pose proof (len_nonneg s). unfold MARGIN in *.
    destruct (3584 <? p + len s) eqn:E1; [destruct (3584 <? len s) eqn:E2|]; lia.
  - lia.
  - unfold pad_end, MARGIN in *. destruct (p + n <=? 3584) eqn:E; [lia|].
    apply Z.leb_gt in E. split; [|lia].
    remember (n - Z.max 0 (3584 - p)) as n1 eqn:Hn1. assert (0 < n1) by lia. lia.
Qed.

(* the comment in the code ("these functions add <512 bytes") made exact: runs of at most 511 put() *)
Lemma bounded_in_bounds : forall K l p c, 0 <= c <= K -> K <= 511 -> 0 <= p <= MARGIN + c ->
  boundedc K c l -> in_bounds p l = true.
Proof.
  intros K; induction l as [|x t IH]; intros p c Hc HK Hp Hb; simpl; [reflexivity|].
  destruct Hb as [Hx [Hk Hb]].
  destruct (step_inv p c x) as [H1 [H2 H3]]; try lia; try assumption.
  rewrite (IH (step p x) (cnt c x)); try lia; try assumption.
  unfold BUFSZ, MARGIN in *. lia.
Qed.

(* ---- (4) the writer's traces *)
Lemma boundedc_app : forall K a b c,
  boundedc K c (a ++ b) <-> boundedc K c a /\ boundedc K (endc c a) b.
Proof.
  intros K; induction a as [|x t IH]; intros b c; simpl; [tauto|]. rewrite IH. tauto.
Qed.
Lemma endc_app : forall a b c, endc c (a ++ b) = endc (endc c a) b.
Proof. induction a as [|x t IH]; intros; simpl; [reflexivity|apply IH]. Qed.
Lemma boundedc_mono : forall K K' l c, K <= K' -> boundedc K c l -> boundedc K' c l.
Proof.
  intros K K'; induction l as [|x t IH]; intros c HK H; simpl in *; [exact I|].
  destruct H as [H1 [H2 H3]]. repeat split; [assumption|lia|]. apply IH; assumption.
Qed.

(* a piece of trace that may follow at most one put(): runs stay <= 2 and it leaves at most one put() open *)
Definition loose (P : list op) : Prop :=
  forall c, 0 <= c <= 1 -> boundedc 2 c P /\ 0 <= endc c P <= 1.
(* a piece that starts with a write *)
Definition tight (P : list op) : Prop :=
  exists s r, P = OWrite s :: r /\ boundedc 2 0 r /\ 0 <= endc 0 r <= 1.

Lemma tight_loose : forall P, tight P -> loose P.
Proof.
  intros P [s [r [E [H1 H2]]]] c Hc; subst; simpl. repeat split; try exact I; try lia; assumption.
Qed.
Lemma loose_nil : loose [].
Proof. intros c Hc; simpl; split; [exact I|lia]. Qed.
Lemma loose_app : forall a b, loose a -> loose b -> loose (a ++ b).
Proof.
  intros a b Ha Hb c Hc. destruct (Ha c Hc) as [A1 A2]. destruct (Hb (endc c a) A2) as [B1 B2].
  rewrite boundedc_app, endc_app. tauto.
Qed.
Lemma tight_app : forall a b, tight a -> loose b -> tight (a ++ b).
Proof.
  intros a b [s [r [E [H1 H2]]]] Hb; subst. exists s, (r ++ b). split; [reflexivity|].
  destruct (Hb (endc 0 r) H2) as [B1 B2]. rewrite boundedc_app, endc_app. tauto.
Qed.
Lemma loose_flat_map : forall (A : Type) (f : A -> list op) l, Forall (fun x => loose (f x)) l -> loose (flat_map f l).
Proof.
  intros A f l H; induction H as [|x t Hx Ht IH]; simpl; [apply loose_nil|apply loose_app; assumption].
Qed.

Lemma text_segments_nonempty : forall v acc, text_segments v acc <> [].
Proof.
  induction v as [|c t IH]; intros acc; simpl; [discriminate|].
  destruct ((c =? 13) && (cur t =? 10) && negb (is_nil t)); [discriminate|apply IH].
Qed.

(* a non-empty run of writes: closes any open run of put() *)
Lemma writes_bounded : forall (l : list str) c K, 0 <= K -> boundedc K c (map OWrite l).
Proof. induction l as [|s t IH]; intros c K HK; simpl; [exact I|]. repeat split; [lia|apply IH; lia]. Qed.
Lemma writes_endc : forall (l : list str) c, l <> [] -> endc c (map OWrite l) = 0.
Proof.
  induction l as [|s t IH]; intros c H; [congruence|]. simpl.
  destruct t as [|s2 t2]; [reflexivity|]. apply IH; discriminate.
Qed.
Lemma text_field_ops_ok : forall v c K, 0 <= K ->
  boundedc K c (write_text_field_ops v) /\ endc c (write_text_field_ops v) = 0.
Proof.
  intros v c K HK; unfold write_text_field_ops; split;
    [apply writes_bounded; lia|apply writes_endc, text_segments_nonempty].
Qed.

Lemma pair_tight : forall o n v, tight (write_out_pair_ops o n v).
Proof.
  intros o n v. unfold write_out_pair_ops. eexists; eexists; split; [reflexivity|].
  destruct (is_text_field v).
  - change ((OPut nl :: write_text_field_ops v) ++ [OPut nl])
      with (OPut nl :: (write_text_field_ops v ++ [OPut nl])).
    assert (T1 : forall c, boundedc 2 c (write_text_field_ops v)) by (intro c; apply text_field_ops_ok; lia).
    assert (T2 : forall c, endc c (write_text_field_ops v) = 0) by (intro c; apply (text_field_ops_ok v c 2); lia).
    simpl boundedc. simpl endc. rewrite boundedc_app, endc_app, T2. simpl. repeat split; try lia; apply T1.
  - destruct (120 <? len n + len v).
    + destruct (cur v =? 59); simpl; repeat split; lia.
    + destruct (len n <? align_pairs o) eqn:E; simpl; repeat split; lia.
Qed.

Lemma pairs_loose : forall o tags vals, loose (pairs_ops o tags vals).
Proof.
  intros o; induction tags as [|tg tgs IH]; intros vals; cbn [pairs_ops]; [apply loose_nil|].
  destruct vals as [|v vt]; [apply loose_nil|].
  apply loose_app; [apply tight_loose, pair_tight|apply IH].
Qed.

Lemma loop_values_ok : forall ncol cw vals col nn,
  boundedc 2 0 (loop_values_ops ncol cw vals col nn) /\ endc 0 (loop_values_ops ncol cw vals col nn) = 0.
Proof.
  intros ncol cw; induction vals as [|v t IH]; intros col nn; [simpl; split; [exact I|reflexivity]|].
  cbn [loop_values_ops].
  set (tf := is_text_field v).
  set (pre := if nn && negb tf && (cur v =? 59) then [OPut sp] else []).
  set (body := if tf then write_text_field_ops v else [OWrite v]).
  set (tail := if negb (col =? ncol - 1)%nat
               then (if len v <? nth col cw 0 then [OPad (nth col cw 0 - len v)] else [])
                    ++ loop_values_ops ncol cw t (S col) tf
               else loop_values_ops ncol cw t 0%nat true).
  assert (Hpre : forall c, 0 <= c <= 1 -> boundedc 2 c pre /\ c <= endc c pre <= 2).
  { intros c Hc; unfold pre; destruct (nn && negb tf && (cur v =? 59)); simpl; repeat split; lia. }
  assert (Hbody : forall c, boundedc 2 c body /\ endc c body = 0).
  { intros c; unfold body; destruct tf; [apply text_field_ops_ok; lia|simpl; repeat split; lia]. }
  assert (Htail : boundedc 2 0 tail /\ endc 0 tail = 0).
  { unfold tail; destruct (negb (col =? ncol - 1)%nat); [|apply IH].
    destruct (len v <? nth col cw 0) eqn:E; simpl; [|apply IH].
    destruct (IH (S col) tf) as [I1 I2]. repeat split; try lia; assumption. }
  clearbody pre body tail. cbn [boundedc endc cnt app].
  destruct (Hpre (0 + 1)) as [P1 P2]; [lia|]. destruct (Hbody (endc (0 + 1) pre)) as [B1 B2]. destruct Htail as [T1 T2].
  rewrite !boundedc_app, !endc_app, B2. repeat split; try lia; assumption.
Qed.

Lemma tags_ok : forall (tags : list str) (c : Z),
  boundedc 2 0 (flat_map (fun tg => [OPut nl; OWrite tg]) tags) /\
  endc 0 (flat_map (fun tg => [OPut nl; OWrite tg]) tags) = 0.
Proof.
  induction tags as [|tg t IH]; intros c; simpl; [split; [exact I|reflexivity]|].
  destruct (IH c) as [I1 I2]. repeat split; try lia; assumption.
Qed.

Lemma loop_loose : forall o tags vals, loose (write_out_loop_ops o tags vals).
Proof.
  intros o tags vals. unfold write_out_loop_ops.
  destruct (is_nil_l vals); [apply loose_nil|].
  destruct (prefer_pairs o && (len_l vals / len_l tags =? 1)); [apply pairs_loose|].
  apply tight_loose. eexists; eexists; split; [reflexivity|].
  destruct (tags_ok tags 0) as [T1 T2].
  destruct (loop_values_ok (length tags) (col_widths o (length tags) vals) vals 0%nat true) as [V1 V2].
  rewrite !boundedc_app, !endc_app, T2, V2. simpl. repeat split; try lia; assumption.
Qed.

(* induction over items with frames *)
Section ItemInd.
  Variable P : item -> Prop.
  Hypothesis HPair : forall n v, P (Pair n v).
  Hypothesis HLoop : forall t v, P (Loop t v).
  Hypothesis HFrame : forall n its, Forall P its -> P (Frame n its).
  Hypothesis HComment : forall t, P (Comment t).
  Hypothesis HErased : P Erased.
  Fixpoint item_ind' (it : item) : P it :=
    match it with
    | Pair n v => HPair n v
    | Loop t v => HLoop t v
    | Frame n its =>
        HFrame n its ((fix go (l : list item) : Forall P l :=
                         match l with [] => Forall_nil P | x :: r => Forall_cons x (item_ind' x) (go r) end) its)
    | Comment t => HComment t
    | Erased => HErased
    end.
End ItemInd.

Lemma frame_tight : forall o n its, Forall (fun x => loose (item_ops o x)) its ->
  tight (OWrite s_save :: OWrite n :: OPut nl :: flat_map (item_ops o) its ++ [OWrite s_save_nl]).
Proof.
  intros o n its H. eexists; eexists; split; [reflexivity|].
  pose proof (loose_flat_map item (item_ops o) its H) as L.
  destruct (L 1) as [L1 L2]; [lia|].
  simpl boundedc. simpl endc. rewrite boundedc_app, endc_app. simpl. repeat split; try lia; assumption.
Qed.

Lemma item_loose : forall o it, loose (item_ops o it).
Proof.
  intros o; induction it as [n v|t v|n its IH|t|] using item_ind'; cbn [item_ops].
  - apply tight_loose, pair_tight.
  - apply loop_loose.
  - apply tight_loose, frame_tight, IH.
  - apply tight_loose. eexists; eexists; split; [reflexivity|]. simpl. repeat split; lia.
  - apply loose_nil.
Qed.

(* an item that is not skipped starts with a write *)
Lemma item_tight : forall o it, is_skipped it = false -> tight (item_ops o it).
Proof.
  intros o it Hs. destruct it as [n v|tags vals|n its|t|]; cbn [item_ops].
  - apply pair_tight.
  - simpl in Hs. unfold write_out_loop_ops. rewrite Hs.
    destruct (prefer_pairs o && (len_l vals / len_l tags =? 1)) eqn:E.
    + apply andb_prop in E; destruct E as [_ E]. apply Z.eqb_eq in E.
      destruct vals as [|v vt]; [discriminate|].
      destruct tags as [|tg tgs].
      * exfalso. unfold len_l in E. simpl in E. rewrite Zdiv_0_r in E. discriminate.
      * cbn [pairs_ops]. apply tight_app; [apply pair_tight|apply pairs_loose].
    + eexists; eexists; split; [reflexivity|].
      destruct (tags_ok tags 0) as [T1 T2].
      destruct (loop_values_ok (length tags) (col_widths o (length tags) vals) vals 0%nat true) as [V1 V2].
      rewrite !boundedc_app, !endc_app, T2, V2. simpl. repeat split; try lia; assumption.
  - apply frame_tight. apply Forall_forall. intros x _. apply item_loose.
  - eexists; eexists; split; [reflexivity|]. simpl. repeat split; lia.
  - discriminate.
Qed.

Lemma items_ok : forall o items prev c, 0 <= c <= 1 ->
  boundedc 3 c (items_ops o prev items) /\ 0 <= endc c (items_ops o prev items) <= 1.
Proof.
  intros o; induction items as [|it t IH]; intros prev c Hc; cbn [items_ops]; [simpl; split; [exact I|lia]|].
  destruct (is_skipped it) eqn:Hs; [apply IH; exact Hc|].
  set (sep := match prev with
              | Some p => if negb (compact o) && should_be_separated p it
                          then (if misuse_hash o then [OPut 35] else []) ++ [OPut nl] else []
              | None => [] end).
  assert (Hsep : boundedc 3 c sep /\ 0 <= endc c sep).
  { unfold sep; destruct prev as [p|]; [|simpl; split; [exact I|lia]].
    destruct (negb (compact o) && should_be_separated p it); [|simpl; split; [exact I|lia]].
    destruct (misuse_hash o); simpl; repeat split; lia. }
  destruct Hsep as [S1 S2].
  destruct (item_tight o it Hs) as [s [r [E [R1 R2]]]].
  destruct (IH (Some it) (endc 0 r) R2) as [I1 I2].
  rewrite E, !boundedc_app, !endc_app. simpl.
  repeat split; try lia; try assumption. apply (boundedc_mono 2 3); [lia|assumption].
Qed.

Lemma block_bounded : forall o b, boundedc 3 0 (block_ops o b).
Proof.
  intros o b. unfold block_ops.
  set (hd := if is_nil (bname b) then [OWrite s_global] else [OWrite s_data; OWrite (bname b)]).
  assert (Hh : boundedc 3 0 hd /\ endc 0 hd = 0).
  { unfold hd; destruct (is_nil (bname b)); simpl; repeat split; lia. }
  destruct Hh as [H1 H2]. clearbody hd.
  rewrite boundedc_app. split; [exact H1|]. rewrite H2.
  simpl boundedc. repeat split; try lia.
  rewrite !boundedc_app.
  destruct (misuse_hash o); simpl.
  - destruct (items_ok o (bitems b) None 0) as [I1 I2]; [lia|]. repeat split; try lia; assumption.
  - destruct (items_ok o (bitems b) None (0 + 1)) as [I1 I2]; [lia|]. repeat split; try lia; assumption.
Qed.

(* every prefix of the trace of every block keeps 0 <= ptr <= 4096 -- whatever the option values *)
Lemma block_in_bounds : forall o b, in_bounds 0 (block_ops o b) = true.
Proof.
  intros o b. apply (bounded_in_bounds 3 (block_ops o b) 0 0); try (unfold MARGIN; lia).
  apply block_bounded.
Qed.

Lemma boundedc_pos_pad : forall K l c, boundedc K c l -> Forall pos_pad l.
Proof.
  intros K; induction l as [|x t IH]; intros c H; [constructor|].
  destruct H as [H1 [_ H3]]. constructor; [assumption|eapply IH; eassumption].
Qed.

(* ... and what reaches the stream is exactly the unbuffered concatenation *)
Lemma block_output_transparent : forall o b, buffered_output (block_ops o b) = ops_bytes (block_ops o b).
Proof.
  intros o b. apply buffered_output_transparent. eapply boundedc_pos_pad. apply block_bounded.
Qed.
