(* cifdoc.hpp: char_table, is_null, as_string, is_text_field, quote -- as coded.
   Byte strings are lists of codes 0..255 (Base/Str.v). Executable model only; proofs in QuoteProofs.v. *)
From GV Require Export Base.Str.
From GV Require Import Cif.CharTable_gen.
Local Open Scope Z_scope.

Definition len (s : str) : Z := Z.of_nat (length s).

(* table[static_cast<unsigned char>(c)] *)
Definition char_table (c : Z) : Z := nth (Z.to_nat c) char_table_list 0.

(* value.size() == 1 && (value[0] == '?' || value[0] == '.') *)
Definition is_null (v : str) : bool :=
  match v with [c] => (c =? 63) || (c =? 46) | _ => false end.

(* *(value.end() - k), k >= 1 *)
Definition from_end (k : nat) (v : str) : Z := nth (length v - k) v 0.

(* as_string: None = the constructor std::string(begin+1, end-1) is called with begin+1 > end-1
   (a value that is a single quote character): libstdc++ throws std::length_error. *)
Definition as_string (v : str) : option str :=
  match v with
  | [] => Some []
  | c0 :: t =>
    if is_null v then Some []
    else if (c0 =? 34) || (c0 =? 39) then
      match t with [] => None | _ => Some (removelast t) end
    else if (c0 =? 59) && (2 <? len v) && (from_end 2 v =? 10) then
      let crlf := from_end 3 v =? 13 in
      Some (firstn (length t - (if crlf then 3 else 2)) t)
    else Some v
  end.

(* len > 2 && val[0] == ';' && (val[len-2] == '\n' || val[len-2] == '\r') *)
Definition is_text_field (v : str) : bool :=
  (2 <? len v) && (cur v =? 59) && ((from_end 2 v =? 10) || (from_end 2 v =? 13)).

Definition all_ordinary (v : str) : bool := forallb (fun c => char_table c =? 1) v.
Definition memb (c : Z) (v : str) : bool := existsb (Z.eqb c) v.
Definition is_nil (v : str) : bool := match v with [] => true | _ => false end.

(* the delimiter chosen by quote() when the value cannot stay bare *)
Definition quote_char (v : str) : Z :=
  if memb 10 v then 59
  else if negb (memb 39 v) then 39
  else if negb (memb 34 v) then 34
  else 59.

Definition quote (v : str) : str :=
  if all_ordinary v && negb (is_nil v) && negb (is_null v) then v
  else let q := quote_char v in
       q :: v ++ (if q =? 59 then [10; q] else [q]).
