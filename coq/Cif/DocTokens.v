(* WHOLE-DOCUMENT theorem at the token level: for every document (blocks, pairs, loops, save frames, comments,
   erased items) and every value of the writer options, the bytes produced by write_cif_to_stream are cut by
   cif.hpp's white-space / comment / tag / reserved-word / value rules into exactly the tokens of the document,
   in order: names, tags and values unchanged, nothing lost, nothing added. *)
From Coq Require Import Lia.
From GV Require Import Cif.CharTable_gen Cif.Quote Cif.Write Cif.Lex Cif.Legacy Cif.QuoteProofs Cif.LexProofs
  Cif.LayoutProofs Cif.Sequence Cif.Tokens.
Local Open Scope Z_scope.
Arguments lex_all : simpl never.

(* ---------------- white space and comments *)
Lemma skip_wsc_fuel_aux : forall n s, (length s <= n)%nat ->
  forall f b, (length s <= f)%nat -> skip_wsc f b s = skip_wsc (length s) b s.
Proof.
  induction n as [|n IH]; intros s Hn f b Hf.
  - destruct s; [|cbn in Hn; lia]. destruct f; reflexivity.
  - destruct s as [|c t]; [destruct f; reflexivity|]. destruct f as [|f]; [cbn in Hf; lia|].
    cbn [length skip_wsc]. destruct (is_ws c).
    + apply IH; cbn [length] in *; lia.
    + destruct (c =? 35); [|reflexivity]. pose proof (skip_comment_length t) as L.
      rewrite (IH (skip_comment t) ltac:(cbn [length] in *; lia) f false ltac:(cbn [length] in *; lia)).
      rewrite (IH (skip_comment t) ltac:(cbn [length] in *; lia) (length t) false ltac:(lia)). reflexivity.
Qed.
Lemma skip_wsc_fuel : forall f s b, (length s <= f)%nat -> skip_wsc f b s = skip_wsc (length s) b s.
Proof. intros f s b H. exact (skip_wsc_fuel_aux (length s) s (le_n _) f b H). Qed.

Lemma lex_all_ws : forall b c s, is_ws c = true -> lex_all b (c :: s) = lex_all (c =? 10) s.
Proof.
  intros b c s H. rewrite (lex_all_unfold b (c :: s)), (lex_all_unfold (c =? 10) s).
  cbn [length skip_wsc]. rewrite H. reflexivity.
Qed.

Lemma lex_all_wss : forall sep b s, sep <> [] -> forallb is_ws sep = true ->
  lex_all b (sep ++ s) = lex_all (last sep 0 =? 10) s.
Proof.
  induction sep as [|c t IH]; intros b s Hne Hw; [congruence|].
  cbn [forallb] in Hw. apply andb_prop in Hw. destruct Hw as [Hc Ht].
  cbn [app]. rewrite lex_all_ws by exact Hc. destruct t as [|c2 t2]; [reflexivity|].
  rewrite IH by (try discriminate; exact Ht). reflexivity.
Qed.

Lemma skip_comment_line : forall cm s, Forall (fun c => c <> 10) cm -> skip_comment (cm ++ 10 :: s) = 10 :: s.
Proof.
  induction cm as [|c t IH]; intros s H; cbn [app skip_comment]; [reflexivity|].
  inversion H as [|? ? Hc Ht]; subst. destruct (Z.eqb_spec c 10); [contradiction|]. apply IH. exact Ht.
Qed.

Lemma lex_all_comment : forall b cm s, Forall (fun c => c <> 10) cm ->
  lex_all b (35 :: cm ++ 10 :: s) = lex_all true s.
Proof.
  intros b cm s H. rewrite (lex_all_unfold b (35 :: cm ++ 10 :: s)), (lex_all_unfold true s).
  cbn [length skip_wsc]. change (is_ws 35) with false. cbv iota. change (35 =? 35) with true. cbv iota.
  rewrite (skip_comment_line cm s H).
  rewrite (skip_wsc_fuel (length (cm ++ 10 :: s)) (10 :: s) false) by (rewrite app_length; cbn [length]; lia).
  cbn [length skip_wsc]. change (is_ws 10) with true. cbv iota. change (10 =? 10) with true. reflexivity.
Qed.

(* ---------------- one token at the head of the input *)
Lemma lex_all_token : forall b c t tk r, is_ws c = false -> c <> 35 ->
  lex_token b (c :: t) = Some (tk, r) -> lex_all b (c :: t) = option_map (cons tk) (lex_all false r).
Proof.
  intros b c t tk r Hw Hh H. rewrite lex_all_unfold. cbn [length skip_wsc]. rewrite Hw.
  destruct (Z.eqb_spec c 35); [contradiction|]. rewrite H. reflexivity.
Qed.

Lemma lex_all_nil : forall b, lex_all b [] = Some [].
Proof. reflexivity. Qed.

(* from here on lex_all is used through the lemmas above only *)
Global Opaque lex_all.

Definition wf_tag (t : str) : Prop := exists body, t = 95 :: body /\ body <> [] /\ forallb is_nonblank body = true.
Definition wf_name (n : str) : Prop := n <> [] /\ forallb is_nonblank n = true.
Definition wf_comment (t : str) : Prop := exists body, t = 35 :: body /\ Forall (fun c => c <> 10) body.

Lemma sep_not_nonblank : forall c, sepc c -> is_nonblank c = false.
Proof. intros c H. destruct (sepc_facts c H) as [_ [_ [N _]]]. exact N. Qed.
Lemma sep_is_ws : forall c, sepc c -> is_ws c = true.
Proof. intros c H. destruct (sepc_facts c H) as [_ [W _]]. exact W. Qed.

Lemma tok_tag : forall b t c rest, wf_tag t -> sepc c ->
  lex_all b (t ++ c :: rest) = option_map (cons (TTag t)) (lex_all (c =? 10) rest).
Proof.
  intros b t c rest [body [-> [Hne Hnb]]] Hc. cbn [app].
  rewrite (lex_all_token b 95 (body ++ c :: rest) (TTag (95 :: body)) (c :: rest)); try reflexivity; try discriminate.
  - rewrite lex_all_ws by (apply sep_is_ws; exact Hc). reflexivity.
  - unfold lex_token. change (95 =? 95) with true. cbv iota.
    change (95 :: body ++ c :: rest) with ((95 :: body) ++ c :: rest).
    rewrite (span_app_stop is_nonblank (95 :: body) c rest) by (try (apply sep_not_nonblank; exact Hc); cbn [forallb]; rewrite Hnb; reflexivity).
    destruct body as [|b0 bt]; [congruence|]. reflexivity.
Qed.

(* reserved words, as the writer spells them *)
Lemma tok_loop : forall b c rest, sepc c ->
  lex_all b (s_loop ++ c :: rest) = option_map (cons TLoop) (lex_all (c =? 10) rest).
Proof.
  intros b c rest Hc. unfold s_loop. cbn [app].
  rewrite (lex_all_token b 108 _ TLoop (c :: rest)); try reflexivity; try discriminate.
  rewrite lex_all_ws by (apply sep_is_ws; exact Hc). reflexivity.
Qed.

Lemma tok_global : forall b c rest, sepc c ->
  lex_all b (s_global ++ c :: rest) = option_map (cons TGlobal) (lex_all (c =? 10) rest).
Proof.
  intros b c rest Hc. unfold s_global. cbn [app].
  rewrite (lex_all_token b 103 _ TGlobal (c :: rest)); try reflexivity; try discriminate.
  rewrite lex_all_ws by (apply sep_is_ws; exact Hc). reflexivity.
Qed.

Lemma tok_data : forall b n c rest, wf_name n -> sepc c ->
  lex_all b (s_data ++ n ++ c :: rest) = option_map (cons (TData n)) (lex_all (c =? 10) rest).
Proof.
  intros b n c rest [Hne Hnb] Hc. unfold s_data. cbn [app].
  rewrite (lex_all_token b 100 _ (TData n) (c :: rest)); try reflexivity; try discriminate.
  - rewrite lex_all_ws by (apply sep_is_ws; exact Hc). reflexivity.
  - unfold lex_token. change (100 =? 95) with false. cbv iota.
    change (istarts_with kw_data (100 :: 97 :: 116 :: 97 :: 95 :: n ++ c :: rest)) with true. cbv iota.
    change (skipn 5 (100 :: 97 :: 116 :: 97 :: 95 :: n ++ c :: rest)) with (n ++ c :: rest).
    rewrite (span_app_stop is_nonblank n c rest Hnb (sep_not_nonblank c Hc)).
    destruct n; [congruence|]. reflexivity.
Qed.

Lemma tok_save : forall b n c rest, forallb is_nonblank n = true -> sepc c ->
  lex_all b (s_save ++ n ++ c :: rest) = option_map (cons (TSave n)) (lex_all (c =? 10) rest).
Proof.
  intros b n c rest Hnb Hc. unfold s_save. cbn [app].
  rewrite (lex_all_token b 115 _ (TSave n) (c :: rest)); try reflexivity; try discriminate.
  - rewrite lex_all_ws by (apply sep_is_ws; exact Hc). reflexivity.
  - unfold lex_token. change (115 =? 95) with false. cbv iota.
    change (istarts_with kw_data (115 :: 97 :: 118 :: 101 :: 95 :: n ++ c :: rest)) with false.
    change (istarts_with kw_loop (115 :: 97 :: 118 :: 101 :: 95 :: n ++ c :: rest)) with false.
    change (istarts_with kw_global (115 :: 97 :: 118 :: 101 :: 95 :: n ++ c :: rest)) with false.
    change (istarts_with kw_save (115 :: 97 :: 118 :: 101 :: 95 :: n ++ c :: rest)) with true. cbv iota.
    change (skipn 5 (115 :: 97 :: 118 :: 101 :: 95 :: n ++ c :: rest)) with (n ++ c :: rest).
    rewrite (span_app_stop is_nonblank n c rest Hnb (sep_not_nonblank c Hc)). reflexivity.
Qed.

(* a value: never mistaken for a tag or a reserved word *)
Lemma ordinary_not_underscore : forall v, all_ordinary v = true -> forallb (fun c => negb (c =? 95)) v = true.
Proof.
  induction v as [|c t IH]; intros H; [reflexivity|]. cbn [all_ordinary forallb] in *.
  apply andb_prop in H. destruct H as [Hc Ht]. rewrite (IH Ht), Bool.andb_true_r.
  destruct (Z.eqb_spec c 95) as [->|]; [discriminate Hc|reflexivity].
Qed.

Lemma istarts_no_underscore : forall kw v, In 95 kw -> forallb (fun c => negb (c =? 95)) v = true ->
  (forall k, In k kw -> lower k = k) -> istarts_with kw v = false.
Proof.
  induction kw as [|k kt IH]; intros v Hin Hv Hl; [destruct Hin|].
  destruct v as [|c t]; [reflexivity|]. cbn [istarts_with forallb] in *.
  apply andb_prop in Hv. destruct Hv as [Hc Ht].
  destruct (lower c =? k) eqn:E; [|reflexivity]. cbn [andb].
  destruct Hin as [->|Hin].
  - apply Z.eqb_eq in E. unfold lower in E. destruct ((65 <=? c) && (c <=? 90)) eqn:R; [lia|].
    subst c. discriminate Hc.
  - apply IH; [exact Hin|exact Ht|]. intros k' Hk'. apply Hl. right. exact Hk'.
Qed.

Lemma value_not_keyword : forall v cl, wf_class v = Some cl -> at_keyword v = false /\ cur v <> 95.
Proof.
  intros v cl H. pose proof (wf_shape v cl H) as Sh.
  inversion Sh as [v' Hne Ha|body Hb|body Hb|body Hb|c0 t Ha Hnb Hk Hf Hq]; subst.
  - pose proof (ordinary_not_underscore v Ha) as Hu. split.
    + unfold at_keyword.
      rewrite !(istarts_no_underscore _ v) by (try exact Hu; try (cbn; tauto);
        intros k Hk; cbn in Hk; repeat (destruct Hk as [<-|Hk]; [reflexivity|]); destruct Hk).
      reflexivity.
    + destruct v as [|c t]; [congruence|]. cbn [cur]. cbn [forallb] in Hu. apply andb_prop in Hu.
      destruct Hu as [Hc _]. destruct (Z.eqb_spec c 95); [discriminate|assumption].
  - split; [reflexivity|discriminate].
  - split; [reflexivity|discriminate].
  - split; [reflexivity|discriminate].
  - split; [exact Hk|]. cbn [cur]. intros ->. discriminate Hf.
Qed.

Lemma tok_value : forall b v cl c rest, wf_class v = Some cl -> start_ok b cl v = true -> sepc c ->
  lex_all b (v ++ c :: rest) = option_map (cons (TValue v)) (lex_all (c =? 10) rest).
Proof.
  intros b v cl c rest Hwf Hst Hc.
  destruct (value_head_not_ws v cl Hwf) as [Hne Hws]. destruct (value_not_keyword v cl Hwf) as [Hk H95].
  pose proof (value_relex v cl b c rest Hwf Hst Hc) as Hv.
  assert (Hak : at_keyword (v ++ c :: rest) = false) by (rewrite at_keyword_app by exact Hc; exact Hk).
  destruct v as [|v0 vt]; [congruence|]. cbn [cur] in *. cbn [app] in *.
  assert (H35 : v0 <> 35).
  { pose proof (wf_shape _ _ Hwf) as Sh.
    inversion Sh as [v' Hne' Ha|body Hb|body Hb|body Hb|c0 t Ha Hnb Hk' Hf Hq]; subst; try discriminate.
    - cbn [all_ordinary forallb] in Ha. apply andb_prop in Ha. destruct Ha as [Ha _]. intros ->. discriminate Ha.
    - intros ->. discriminate Hf. }
  rewrite (lex_all_token b v0 (vt ++ c :: rest) (TValue (v0 :: vt)) (c :: rest) Hws H35).
  - rewrite lex_all_ws by (apply sep_is_ws; exact Hc). reflexivity.
  - unfold lex_token. destruct (Z.eqb_spec v0 95); [contradiction|].
    unfold at_keyword in Hak. apply Bool.orb_false_elim in Hak. destruct Hak as [Hak K5].
    apply Bool.orb_false_elim in Hak. destruct Hak as [Hak K4].
    apply Bool.orb_false_elim in Hak. destruct Hak as [Hak K3].
    apply Bool.orb_false_elim in Hak. destruct Hak as [K1 K2].
    rewrite K1, K2, K3, K4, K5. rewrite Hv. reflexivity.
Qed.

(* ---------------- composition *)
Definition Emits (bytes : str) (toks : list token) : Prop :=
  forall rest, lex_all true (bytes ++ rest) = option_map (app toks) (lex_all true rest).

Lemma emits_nil : Emits [] [].
Proof. intros rest. change ([] ++ rest) with rest. generalize (lex_all true rest). intros [l|]; reflexivity. Qed.

Lemma emits_app : forall a ta b tb, Emits a ta -> Emits b tb -> Emits (a ++ b) (ta ++ tb).
Proof.
  intros a ta b tb Ha Hb rest. rewrite <- app_assoc, Ha, Hb.
  destruct (lex_all true rest); cbn [option_map]; [rewrite app_assoc|]; reflexivity.
Qed.

Lemma emits_nl : Emits [10] [].
Proof. intros rest. cbn [app]. rewrite lex_all_ws by reflexivity. change (10 =? 10) with true. destruct (lex_all true rest); reflexivity. Qed.

Lemma emits_comment : forall t, wf_comment t -> Emits (t ++ [10]) [].
Proof.
  intros t [body [-> Hb]] rest. cbn [app]. rewrite <- app_assoc. cbn [app].
  rewrite lex_all_comment by exact Hb. destruct (lex_all true rest); reflexivity.
Qed.

Lemma emits_hash_nl : Emits [35; 10] [].
Proof. apply (emits_comment [35]). exists []. split; [reflexivity|constructor]. Qed.

(* ---------------- pairs *)
Lemma emits_pair : forall o n v, wf_tag n -> wfv v -> Emits (ops_bytes (write_out_pair_ops o n v)) [TTag n; TValue v].
Proof.
  intros o n v Hn [[cl Hcl] Hcr] rest. rewrite (pair_bytes o n v Hcr).
  pose proof (wf_shape v cl Hcl) as Sh. destruct (pair_sep_ok o n v cl Sh) as [S1 [S2 S3]].
  set (sep := pair_sep o n v) in *. destruct sep as [|c0 st] eqn:Es; [congruence|].
  assert (Hc0 : sepc c0).
  { subst sep. unfold pair_sep in Es. destruct (is_text_field v); [injection Es as <- _; right; reflexivity|].
    destruct (120 <? len n + len v); injection Es as <- _; [right|left]; reflexivity. }
  rewrite <- !app_assoc. cbn [app]. rewrite (tok_tag true n c0 _ Hn Hc0).
  cbn [forallb] in S2. apply andb_prop in S2. destruct S2 as [_ S2'].
  assert (E : lex_all (c0 =? 10) (st ++ v ++ 10 :: rest) = lex_all (last (c0 :: st) 0 =? 10) (v ++ 10 :: rest)).
  { destruct st as [|c1 st']; [reflexivity|]. rewrite lex_all_wss by (try discriminate; exact S2'). reflexivity. }
  rewrite E. cbn [app]. rewrite (tok_value _ v cl 10 rest Hcl S3 (or_intror eq_refl)).
  change (10 =? 10) with true. destruct (lex_all true rest); reflexivity.
Qed.

Fixpoint zip_pairs (tags vals : list str) : list token :=
  match tags, vals with
  | tg :: tgs, v :: vt => TTag tg :: TValue v :: zip_pairs tgs vt
  | _, _ => []
  end.

Lemma emits_pairs : forall o tags vals, Forall wf_tag tags -> Forall wfv vals ->
  Emits (ops_bytes (pairs_ops o tags vals)) (zip_pairs tags vals).
Proof.
  intros o tags. induction tags as [|tg tgs IH]; intros vals Ht Hv; [apply emits_nil|].
  destruct vals as [|v vt]; [apply emits_nil|]. cbn [pairs_ops zip_pairs].
  inversion Ht; subst. inversion Hv; subst.
  unfold ops_bytes. rewrite flat_map_app.
  change (TTag tg :: TValue v :: zip_pairs tgs vt) with ([TTag tg; TValue v] ++ zip_pairs tgs vt).
  apply emits_app; [apply emits_pair; assumption|apply IH; assumption].
Qed.

(* ---------------- loops *)
Lemma placed_trace_tokens : forall l b, Forall sep_ok l -> placed value_ok b (l ++ [OPut nl]) ->
  forall rest, lex_all b (ops_bytes (l ++ [OPut nl]) ++ rest) =
               option_map (app (map TValue (writes l))) (lex_all true rest).
Proof.
  induction l as [|o t IH]; intros b Hs Hp rest.
  - change (ops_bytes ([] ++ [OPut nl]) ++ rest) with (nl :: rest). rewrite lex_all_ws by reflexivity.
    change (nl =? 10) with true. cbn [writes flat_map map app]. destruct (lex_all true rest); reflexivity.
  - inversion Hs as [|? ? Ho Ht]; subst. destruct o as [s|c|n].
    + cbn [app placed] in Hp. destruct Hp as [[cl [Hwf Hst]] [Hfs Hpt]].
      assert (Hs' : Forall sep_ok (t ++ [OPut nl])) by (apply Forall_app; split; [exact Ht|constructor; [right; reflexivity|constructor]]).
      destruct (first_byte_sep _ Hfs Hs') as [c [r [Hc Eb]]].
      change (ops_bytes ((OWrite s :: t) ++ [OPut nl])) with (s ++ ops_bytes (t ++ [OPut nl])).
      rewrite <- app_assoc. rewrite Eb. cbn [app]. rewrite (tok_value b s cl c _ Hwf Hst Hc).
      assert (E : lex_all (c =? 10) (r ++ rest) = lex_all false (ops_bytes (t ++ [OPut nl]) ++ rest)).
      { rewrite Eb. cbn [app]. rewrite lex_all_ws by (apply sep_is_ws; exact Hc). reflexivity. }
      rewrite E. rewrite (IH false Ht (placed_after_sep _ _ _ _ Hfs Hpt) rest).
      change (writes (OWrite s :: t)) with (s :: writes t). destruct (lex_all true rest); reflexivity.
    + cbn [app placed] in Hp. cbn in Ho.
      change (ops_bytes ((OPut c :: t) ++ [OPut nl])) with (c :: ops_bytes (t ++ [OPut nl])). cbn [app].
      rewrite lex_all_ws by (apply sep_is_ws; exact Ho). apply IH; assumption.
    + cbn [app placed] in Hp. cbn in Ho.
      change (ops_bytes ((OPad n :: t) ++ [OPut nl])) with (repeat sp (Z.to_nat n) ++ ops_bytes (t ++ [OPut nl])).
      rewrite <- app_assoc.
      rewrite lex_all_wss.
      * assert (L : last (repeat sp (Z.to_nat n)) 0 =? 10 = false).
        { destruct (Z.to_nat n) as [|m] eqn:E; [lia|]. clear. induction m as [|m IHm]; [reflexivity|]. exact IHm. }
        rewrite L. apply IH; assumption.
      * destruct (Z.to_nat n) eqn:E; [lia|]. discriminate.
      * clear. induction (Z.to_nat n) as [|m IHm]; [reflexivity|]. exact IHm.
Qed.

Definition loop_tokens (o : opts) (tags vals : list str) : list token :=
  if is_nil_l vals then []
  else if prefer_pairs o && (len_l vals / len_l tags =? 1) then zip_pairs tags vals
  else TLoop :: map TTag tags ++ map TValue vals.

Lemma loop_header : forall tags c rest, Forall wf_tag tags -> sepc c ->
  lex_all true (ops_bytes (flat_map (fun tg => [OPut nl; OWrite tg]) tags) ++ c :: rest) =
  option_map (app (map TTag tags)) (lex_all (if is_nil_l tags then true else false) (c :: rest)).
Proof.
  intros tags c rest Ht Hc.
  assert (G : forall b, lex_all b (ops_bytes (flat_map (fun tg => [OPut nl; OWrite tg]) tags) ++ c :: rest) =
              option_map (app (map TTag tags)) (lex_all (if is_nil_l tags then b else false) (c :: rest))).
  { induction tags as [|tg tgs IH]; intros b.
    - cbn. destruct (lex_all b (c :: rest)); reflexivity.
    - inversion Ht as [|? ? H1 H2]; subst. cbn [flat_map app].
      change (ops_bytes (OPut nl :: OWrite tg :: flat_map (fun tg0 => [OPut nl; OWrite tg0]) tgs))
        with (nl :: tg ++ ops_bytes (flat_map (fun tg0 => [OPut nl; OWrite tg0]) tgs)).
      cbn [app]. rewrite lex_all_ws by reflexivity. rewrite <- app_assoc.
      destruct tgs as [|tg2 tgs'].
      + cbn [flat_map ops_bytes app]. change (flat_map op_bytes []) with (@nil Z). cbn [app].
        rewrite (tok_tag _ tg c rest H1 Hc). cbn [is_nil_l map].
        rewrite <- (lex_all_ws false c rest) by (apply sep_is_ws; exact Hc).
        destruct (lex_all false (c :: rest)); reflexivity.
      + specialize (IH H2 false). cbn [flat_map app] in *.
        change (ops_bytes (OPut nl :: OWrite tg2 :: flat_map (fun tg0 => [OPut nl; OWrite tg0]) tgs'))
          with (nl :: ops_bytes (OWrite tg2 :: flat_map (fun tg0 => [OPut nl; OWrite tg0]) tgs')) in *.
        cbn [app] in *. rewrite (tok_tag _ tg nl _ H1 (or_intror eq_refl)).
        rewrite <- (lex_all_ws false nl) by reflexivity. rewrite IH. cbn [is_nil_l map].
        destruct (lex_all false (c :: rest)); reflexivity. }
  apply G.
Qed.

Lemma emits_loop : forall o tags vals, Forall wf_tag tags -> Forall wfv vals ->
  Emits (ops_bytes (write_out_loop_ops o tags vals)) (loop_tokens o tags vals).
Proof.
  intros o tags vals Ht Hv. unfold write_out_loop_ops, loop_tokens.
  destruct (is_nil_l vals) eqn:En; [apply emits_nil|].
  destruct (prefer_pairs o && (len_l vals / len_l tags =? 1)); [apply emits_pairs; assumption|].
  intros rest.
  set (body := loop_values_ops (length tags) (col_widths o (length tags) vals) vals 0%nat true).
  change (ops_bytes (OWrite s_loop :: flat_map (fun tg => [OPut nl; OWrite tg]) tags ++ body ++ [OPut nl]))
    with (s_loop ++ ops_bytes (flat_map (fun tg => [OPut nl; OWrite tg]) tags ++ body ++ [OPut nl])).
  unfold ops_bytes. rewrite flat_map_app. fold ops_bytes. fold (ops_bytes (body ++ [OPut nl])).
  fold (ops_bytes (flat_map (fun tg => [OPut nl; OWrite tg]) tags)).
  (* the byte after "loop_" and after the tags is a separator *)
  assert (Hsep : Forall sep_ok (body ++ [OPut nl])).
  { apply Forall_app. split; [apply loop_values_sep_ok|constructor; [right; reflexivity|constructor]]. }
  assert (Hpl : forall b, placed value_ok b (body ++ [OPut nl])) by (intro b; apply loop_rows_placed; exact Hv).
  assert (Hfs : followed_by_sep (body ++ [OPut nl])).
  { unfold body. destruct vals as [|v vt]; [discriminate En|]. cbn [loop_values_ops app]. cbn. right. reflexivity. }
  destruct (first_byte_sep _ Hfs Hsep) as [c [r [Hc Eb]]].
  rewrite <- !app_assoc.
  destruct tags as [|tg tgs].
  - cbn [flat_map ops_bytes app]. change (flat_map op_bytes []) with (@nil Z). cbn [app].
    rewrite Eb. cbn [app]. rewrite (tok_loop true c _ Hc).
    rewrite <- (lex_all_ws true c) by (apply sep_is_ws; exact Hc).
    change (c :: r ++ rest) with ((c :: r) ++ rest). rewrite <- Eb.
    rewrite (placed_trace_tokens body true (loop_values_sep_ok _ _ _ _ _) (Hpl true) rest).
    unfold body. rewrite writes_loop_values.
    + cbn [map app]. destruct (lex_all true rest); reflexivity.
    + apply Forall_forall. intros v Hv'. rewrite Forall_forall in Hv. exact (proj2 (Hv v Hv')).
  - set (hdr := ops_bytes (flat_map (fun tg0 => [OPut nl; OWrite tg0]) (tg :: tgs))).
    assert (Eh : exists h, hdr = nl :: h).
    { unfold hdr. cbn [flat_map app]. eexists. reflexivity. }
    destruct Eh as [h Eh]. rewrite Eh. cbn [app]. rewrite (tok_loop true nl _ (or_intror eq_refl)).
    rewrite <- (lex_all_ws true nl) by reflexivity.
    change (nl :: h ++ ops_bytes (body ++ [OPut nl]) ++ rest) with ((nl :: h) ++ ops_bytes (body ++ [OPut nl]) ++ rest).
    rewrite <- Eh. rewrite Eb. cbn [app]. unfold hdr.
    rewrite (loop_header (tg :: tgs) c (r ++ rest) Ht Hc). cbn [is_nil_l].
    change (c :: r ++ rest) with ((c :: r) ++ rest). rewrite <- Eb.
    rewrite (placed_trace_tokens body false (loop_values_sep_ok _ _ _ _ _) (Hpl false) rest).
    unfold body. rewrite writes_loop_values.
    + destruct (lex_all true rest); cbn [option_map]; [|reflexivity].
      f_equal. cbn [app]. rewrite <- app_assoc. reflexivity.
    + apply Forall_forall. intros v Hv'. rewrite Forall_forall in Hv. exact (proj2 (Hv v Hv')).
Qed.

(* ---------------- items, frames, blocks, documents *)
Fixpoint wf_item (it : item) : Prop :=
  match it with
  | Pair n v => wf_tag n /\ wfv v
  | Loop tags vals => Forall wf_tag tags /\ Forall wfv vals
  | Frame name items => forallb is_nonblank name = true /\
      (fix all (l : list item) : Prop := match l with [] => True | x :: t => wf_item x /\ all t end) items
  | Comment t => wf_comment t
  | Erased => True
  end.
Fixpoint wf_items (l : list item) : Prop := match l with [] => True | x :: t => wf_item x /\ wf_items t end.

Fixpoint item_tokens (o : opts) (it : item) : list token :=
  match it with
  | Pair n v => [TTag n; TValue v]
  | Loop tags vals => loop_tokens o tags vals
  | Frame name items => TSave name :: flat_map (item_tokens o) items ++ [TSave []]
  | Comment _ => []
  | Erased => []
  end.

Lemma ops_bytes_app : forall a b, ops_bytes (a ++ b) = ops_bytes a ++ ops_bytes b.
Proof. intros. unfold ops_bytes. apply flat_map_app. Qed.

Lemma emits_item : forall o it, wf_item it -> Emits (ops_bytes (item_ops o it)) (item_tokens o it).
Proof.
  intros o. fix IH 1. intros it H. destruct it as [n v|tags vals|name items|t|].
  - destruct H. apply emits_pair; assumption.
  - destruct H. apply emits_loop; assumption.
  - cbn [wf_item] in H. destruct H as [Hn Hall]. cbn [item_ops item_tokens].
    assert (Hin : Emits (ops_bytes (flat_map (item_ops o) items)) (flat_map (item_tokens o) items)).
    { clear Hn. induction items as [|x t IHt]; [apply emits_nil|].
      destruct Hall as [Hx Ht]. cbn [flat_map]. rewrite ops_bytes_app.
      apply emits_app; [apply IH; exact Hx|apply IHt; exact Ht]. }
    intros rest.
    change (ops_bytes (OWrite s_save :: OWrite name :: OPut nl :: flat_map (item_ops o) items ++ [OWrite s_save_nl]))
      with (s_save ++ name ++ nl :: ops_bytes (flat_map (item_ops o) items ++ [OWrite s_save_nl])).
    rewrite ops_bytes_app. rewrite <- !app_assoc. cbn [app].
    rewrite (tok_save true name nl _ Hn (or_intror eq_refl)). change (nl =? 10) with true.
    rewrite <- app_assoc. rewrite Hin.
    change (ops_bytes [OWrite s_save_nl] ++ rest) with (s_save ++ [] ++ nl :: rest).
    rewrite (tok_save true [] nl rest eq_refl (or_intror eq_refl)). change (nl =? 10) with true.
    destruct (lex_all true rest); cbn [option_map]; [|reflexivity].
    f_equal. cbn [app]. rewrite <- app_assoc. reflexivity.
  - cbn [wf_item] in H. cbn [item_ops item_tokens].
    change (ops_bytes [OWrite t; OPut nl]) with (t ++ [nl] ++ []). rewrite app_nil_r. apply emits_comment. exact H.
  - apply emits_nil.
Qed.

Lemma item_tokens_skipped : forall o it, is_skipped it = true -> item_tokens o it = [].
Proof.
  intros o it H. destruct it as [n v|tags vals|name items|t|]; try discriminate; [|reflexivity].
  cbn [is_skipped] in H. cbn [item_tokens]. unfold loop_tokens. rewrite H. reflexivity.
Qed.

Lemma emits_items : forall o items prev, wf_items items ->
  Emits (ops_bytes (items_ops o prev items)) (flat_map (item_tokens o) items).
Proof.
  intros o items. induction items as [|it t IH]; intros prev H; [apply emits_nil|].
  destruct H as [Hit Ht]. cbn [items_ops flat_map].
  destruct (is_skipped it) eqn:Sk.
  - rewrite (item_tokens_skipped o it Sk). cbn [app]. apply IH. exact Ht.
  - rewrite !ops_bytes_app.
    change (item_tokens o it ++ flat_map (item_tokens o) t) with ([] ++ item_tokens o it ++ flat_map (item_tokens o) t).
    apply emits_app; [|apply emits_app; [apply emits_item; exact Hit|apply IH; exact Ht]].
    destruct prev as [p|]; [|apply emits_nil].
    destruct (negb (compact o) && should_be_separated p it); [|apply emits_nil].
    destruct (misuse_hash o); [apply emits_hash_nl|apply emits_nl].
Qed.

Definition wf_block (b : block) : Prop := forallb is_nonblank (bname b) = true /\ wf_items (bitems b).

Definition block_tokens (o : opts) (b : block) : list token :=
  (if is_nil (bname b) then TGlobal else TData (bname b)) :: flat_map (item_tokens o) (bitems b).

Lemma emits_block : forall o b, wf_block b -> Emits (ops_bytes (block_ops o b)) (block_tokens o b).
Proof.
  intros o b [Hn Hi]. unfold block_ops, block_tokens.
  set (hdr := if is_nil (bname b) then [OWrite s_global] else [OWrite s_data; OWrite (bname b)]).
  set (h := if misuse_hash o then [OWrite s_hash_nl] else []).
  assert (E : ops_bytes (hdr ++ OPut nl :: h ++ items_ops o None (bitems b) ++ h) =
              (ops_bytes hdr ++ [nl]) ++ ops_bytes h ++ ops_bytes (items_ops o None (bitems b)) ++ ops_bytes h).
  { rewrite ops_bytes_app. change (ops_bytes (OPut nl :: h ++ items_ops o None (bitems b) ++ h))
      with ([nl] ++ ops_bytes (h ++ items_ops o None (bitems b) ++ h)).
    rewrite !ops_bytes_app. rewrite <- !app_assoc. reflexivity. }
  rewrite E. clear E.
  change ((if is_nil (bname b) then TGlobal else TData (bname b)) :: flat_map (item_tokens o) (bitems b))
    with ([if is_nil (bname b) then TGlobal else TData (bname b)] ++ flat_map (item_tokens o) (bitems b)).
  apply emits_app.
  - (* heading + '\n' *)
    intros rest. unfold hdr. destruct (bname b) as [|n0 nt] eqn:En; cbn [is_nil].
    + change (ops_bytes [OWrite s_global] ++ [nl]) with (s_global ++ [nl]).
      rewrite <- app_assoc. cbn [app]. rewrite (tok_global true nl rest (or_intror eq_refl)).
      change (nl =? 10) with true. destruct (lex_all true rest); reflexivity.
    + change (ops_bytes [OWrite s_data; OWrite (n0 :: nt)]) with (s_data ++ (n0 :: nt) ++ []). rewrite app_nil_r.
      rewrite <- !app_assoc. cbn [app].
      change (s_data ++ n0 :: nt ++ nl :: rest) with (s_data ++ (n0 :: nt) ++ nl :: rest).
      assert (W : wf_name (n0 :: nt)) by (split; [discriminate|exact Hn]).
      rewrite (tok_data true (n0 :: nt) nl rest W (or_intror eq_refl)).
      change (nl =? 10) with true. destruct (lex_all true rest); reflexivity.
  - assert (Hh : Emits (ops_bytes h) []) by (unfold h; destruct (misuse_hash o); [apply emits_hash_nl|apply emits_nil]).
    change (flat_map (item_tokens o) (bitems b)) with ([] ++ flat_map (item_tokens o) (bitems b)).
    apply emits_app; [exact Hh|].
    rewrite <- (app_nil_r (flat_map (item_tokens o) (bitems b))).
    apply emits_app; [apply emits_items; exact Hi|exact Hh].
Qed.

Definition doc_tokens (o : opts) (d : doc) : list token := flat_map (block_tokens o) d.
Fixpoint wf_doc (d : doc) : Prop := match d with [] => True | b :: t => wf_block b /\ wf_doc t end.

Lemma emits_doc_from : forall o d first, wf_doc d -> Emits (doc_bytes_from o first d) (doc_tokens o d).
Proof.
  intros o d. induction d as [|b t IH]; intros first H; [apply emits_nil|].
  destruct H as [Hb Ht]. cbn [doc_bytes_from doc_tokens flat_map].
  change (block_tokens o b ++ flat_map (block_tokens o) t) with ([] ++ block_tokens o b ++ doc_tokens o t).
  apply emits_app; [destruct first; [apply emits_nil|apply emits_nl]|].
  apply emits_app; [apply emits_block; exact Hb|apply IH; exact Ht].
Qed.

(* THE DOCUMENT THEOREM *)
Theorem write_cif_tokens : forall o d, wf_doc d -> lex_all true (write_cif o d) = Some (doc_tokens o d).
Proof.
  intros o d H. unfold write_cif. pose proof (emits_doc_from o d true H []) as E.
  rewrite app_nil_r in E. rewrite E. rewrite lex_all_nil.
  cbn [option_map]. rewrite app_nil_r. reflexivity.
Qed.
