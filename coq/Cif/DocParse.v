(* The grammar of cif.hpp over the tokens of Tokens.v (datablock = heading, star<sor<dataitem, loop, frame>>;
   dataitem = tag value; loop = loop_ plus<tag> plus<value>; frame = save_name star<sor<dataitem, loop>> save_),
   as an executable parser, and the theorem that the tokens of any document the writer accepts parse back to the
   document itself (up to what the writer does not write: comments, erased items, loops without values; and
   one-row loops written as pairs under prefer_pairs). With DocTokens.write_cif_tokens this closes the loop
   bytes -> tokens -> document for every document and every option value. *)
From Coq Require Import Lia.
From GV Require Import Cif.CharTable_gen Cif.Quote Cif.Write Cif.Lex Cif.Tokens Cif.DocTokens.
Local Open Scope Z_scope.

Inductive pitem :=
| PPair (tag value : str)
| PLoop (tags vals : list str)
| PFrame (name : str) (items : list pitem).
Record pblock := mkPB { pb_name : str (* [] = global_ *); pb_items : list pitem }.

Fixpoint span_tags (l : list token) : list str * list token :=
  match l with TTag t :: r => let '(a, r') := span_tags r in (t :: a, r') | _ => ([], l) end.
Fixpoint span_values (l : list token) : list str * list token :=
  match l with TValue v :: r => let '(a, r') := span_values r in (v :: a, r') | _ => ([], l) end.

(* star<sor<dataitem, loop, frame>> (frames only outside a frame); stops at the first token that starts none *)
Fixpoint parse_items (fuel : nat) (inframe : bool) (l : list token) : option (list pitem * list token) :=
  match fuel with
  | O => None
  | S f =>
    match l with
    | TTag t :: TValue v :: r =>
        match parse_items f inframe r with Some (its, r') => Some (PPair t v :: its, r') | None => None end
    | TTag _ :: _ => None                                   (* if_must: a tag is followed by a value *)
    | TLoop :: r =>
        let '(tags, r1) := span_tags r in
        let '(vals, r2) := span_values r1 in
        if is_nil_l tags then None                          (* plus<loop_tag> *)
        else match parse_items f inframe r2 with
             | Some (its, r') => Some (PLoop tags vals :: its, r') | None => None end
    | TSave n :: r =>
        if is_nil n then Some ([], l)                       (* save_ alone: the end of a frame (or an error outside) *)
        else if inframe then None                           (* no frames inside frames *)
        else match parse_items f true r with
             | Some (its, TSave [] :: r1) =>
                 match parse_items f false r1 with
                 | Some (more, r') => Some (PFrame n its :: more, r') | None => None end
             | _ => None
             end
    | _ => Some ([], l)
    end
  end.

Fixpoint parse_blocks (fuel : nat) (l : list token) : option (list pblock) :=
  match fuel with
  | O => None
  | S f =>
    match l with
    | [] => Some []
    | TData n :: r =>
        match parse_items (S (length r)) false r with
        | Some (its, r') => match parse_blocks f r' with Some bs => Some (mkPB n its :: bs) | None => None end
        | None => None end
    | TGlobal :: r =>
        match parse_items (S (length r)) false r with
        | Some (its, r') => match parse_blocks f r' with Some bs => Some (mkPB [] its :: bs) | None => None end
        | None => None end
    | _ => None
    end
  end.

Definition parse_doc (l : list token) : option (list pblock) := parse_blocks (S (length l)) l.

(* what the writer keeps of a document *)
Fixpoint zip_ppairs (tags vals : list str) : list pitem :=
  match tags, vals with tg :: tgs, v :: vt => PPair tg v :: zip_ppairs tgs vt | _, _ => [] end.
Fixpoint norm_item (o : opts) (it : item) : list pitem :=
  match it with
  | Pair n v => [PPair n v]
  | Loop tags vals => if is_nil_l vals then []
                      else if prefer_pairs o && (len_l vals / len_l tags =? 1) then zip_ppairs tags vals
                      else [PLoop tags vals]
  | Frame name items => [PFrame name (flat_map (norm_item o) items)]
  | Comment _ => []
  | Erased => []
  end.
Definition norm_block (o : opts) (b : block) : pblock := mkPB (bname b) (flat_map (norm_item o) (bitems b)).

(* structural conditions the grammar imposes beyond the lexical ones *)
Fixpoint gr_item (inframe : bool) (it : item) : Prop :=
  match it with
  | Loop tags vals => vals <> [] -> tags <> []
  | Frame name items => inframe = false /\ name <> [] /\
      (fix all (l : list item) : Prop := match l with [] => True | x :: t => gr_item true x /\ all t end) items
  | _ => True
  end.
Fixpoint gr_items (inframe : bool) (l : list item) : Prop :=
  match l with [] => True | x :: t => gr_item inframe x /\ gr_items inframe t end.

(* ---------------- lemmas *)
Definition stops (rest : list token) : Prop :=
  match rest with
  | [] => True | TData _ :: _ => True | TGlobal :: _ => True | TSave [] :: _ => True | _ => False
  end.

Lemma parse_items_stop : forall f inframe rest, stops rest -> parse_items (S f) inframe rest = Some ([], rest).
Proof.
  intros f inframe rest H. destruct rest as [|tk r]; [reflexivity|].
  destruct tk as [s| |n| |n| |v]; cbn in H; try contradiction; try reflexivity.
  destruct n; [reflexivity|contradiction].
Qed.

Definition not_value_head (l : list token) : Prop := match l with TValue _ :: _ => False | _ => True end.
Definition not_tag_head (l : list token) : Prop := match l with TTag _ :: _ => False | _ => True end.

Lemma span_tags_app : forall tags r, not_tag_head r -> span_tags (map TTag tags ++ r) = (tags, r).
Proof.
  induction tags as [|t ts IH]; intros r H; cbn [map app span_tags].
  - destruct r as [|tk r']; [reflexivity|]. destruct tk; try reflexivity. contradiction.
  - rewrite IH by exact H. reflexivity.
Qed.
Lemma span_values_app : forall vals r, not_value_head r -> span_values (map TValue vals ++ r) = (vals, r).
Proof.
  induction vals as [|v vs IH]; intros r H; cbn [map app span_values].
  - destruct r as [|tk r']; [reflexivity|]. destruct tk; try reflexivity. contradiction.
  - rewrite IH by exact H. reflexivity.
Qed.

Lemma item_tokens_head : forall o it rest, not_value_head rest -> not_value_head (item_tokens o it ++ rest).
Proof.
  intros o it rest H. destruct it as [n v|tags vals|name items|t|]; cbn [item_tokens app]; try exact H; try exact I.
  unfold loop_tokens. destruct (is_nil_l vals); [exact H|].
  destruct (prefer_pairs o && (len_l vals / len_l tags =? 1)); [|exact I].
  destruct tags as [|tg tgs]; [exact H|]. destruct vals as [|v vt]; [exact H|exact I].
Qed.
Lemma items_tokens_head : forall o items rest, not_value_head rest ->
  not_value_head (flat_map (item_tokens o) items ++ rest).
Proof.
  intros o items. induction items as [|it t IH]; intros rest H; [exact H|].
  cbn [flat_map]. rewrite <- app_assoc. apply item_tokens_head. apply IH. exact H.
Qed.
Lemma stops_not_value : forall rest, stops rest -> not_value_head rest.
Proof. intros [|tk r] H; [exact I|]. destruct tk; cbn in *; tauto. Qed.

(* "enough fuel": the answer for every fuel above the length of the token list *)
Definition Parses (inframe : bool) (l : list token) (res : list pitem * list token) : Prop :=
  forall f, (length l < f)%nat -> parse_items f inframe l = Some res.

Lemma Parses_stop : forall b rest, stops rest -> Parses b rest ([], rest).
Proof. intros b rest H f Hf. destruct f as [|f]; [lia|]. apply parse_items_stop. exact H. Qed.

Lemma Parses_pair : forall b t v r its r', Parses b r (its, r') ->
  Parses b (TTag t :: TValue v :: r) (PPair t v :: its, r').
Proof.
  intros b t v r its r' H f Hf. destruct f as [|f]; [lia|]. cbn [parse_items].
  rewrite (H f) by (cbn [length] in Hf; lia). reflexivity.
Qed.

Lemma Parses_loop : forall b tags vals r its r', tags <> [] -> vals <> [] -> not_value_head r ->
  Parses b r (its, r') ->
  Parses b (TLoop :: map TTag tags ++ map TValue vals ++ r) (PLoop tags vals :: its, r').
Proof.
  intros b tags vals r its r' Ht Hv Hr H f Hf. destruct f as [|f]; [lia|]. cbn [parse_items].
  rewrite span_tags_app by (destruct vals; [congruence|exact I]).
  rewrite span_values_app by exact Hr.
  destruct tags as [|t0 ts]; [congruence|]. cbn [is_nil_l].
  rewrite (H f); [reflexivity|]. cbn [length] in Hf. rewrite !app_length, !map_length in Hf. cbn [length] in Hf. lia.
Qed.

Lemma Parses_frame : forall n r its r1 more r', n <> [] ->
  Parses true r (its, TSave [] :: r1) -> Parses false r1 (more, r') -> (length r1 < length r)%nat ->
  Parses false (TSave n :: r) (PFrame n its :: more, r').
Proof.
  intros n r its r1 more r' Hn H1 H2 Hl f Hf. destruct f as [|f]; [lia|]. cbn [parse_items].
  destruct n as [|n0 nt]; [congruence|]. cbn [is_nil].
  rewrite (H1 f) by (cbn [length] in Hf; lia). rewrite (H2 f) by (cbn [length] in Hf; lia). reflexivity.
Qed.

Lemma Parses_zip : forall b tags vals rest its r', Parses b rest (its, r') ->
  Parses b (zip_pairs tags vals ++ rest) (zip_ppairs tags vals ++ its, r').
Proof.
  intros b tags. induction tags as [|tg tgs IH]; intros vals rest its r' H; [exact H|].
  destruct vals as [|v vt]; [exact H|]. cbn [zip_pairs zip_ppairs app].
  apply Parses_pair. apply IH. exact H.
Qed.

Lemma parses_length : forall b l its r, Parses b l (its, r) -> (length r <= length l)%nat.
Proof.
  intros b l its r H. specialize (H (S (length l)) ltac:(lia)). revert b its r H.
  generalize (S (length l)) at 1. intros f. revert l.
  induction f as [|f IH]; intros l b its r H; [discriminate|]. cbn [parse_items] in H.
  destruct l as [|tk l']; [injection H as _ <-; lia|].
  destruct tk as [t| |n| |n| |v].
  - destruct l' as [|tk2 l2]; [discriminate|]. destruct tk2; try discriminate.
    destruct (parse_items f b l2) as [[its2 r2]|] eqn:E; [|discriminate]. injection H as _ <-.
    apply IH in E. cbn [length]. lia.
  - destruct (span_tags l') as [tags r1] eqn:E1. destruct (span_values r1) as [vals r2] eqn:E2.
    destruct (is_nil_l tags); [discriminate|].
    destruct (parse_items f b r2) as [[its2 r3]|] eqn:E; [|discriminate]. injection H as _ <-. apply IH in E.
    assert (L1 : (length r1 <= length l')%nat).
    { clear -E1. revert tags r1 E1. induction l' as [|x t IHt]; intros tags r1 E1; cbn [span_tags] in E1; [injection E1 as _ <-; lia|].
      destruct x; try (injection E1 as _ <-; lia). destruct (span_tags t) as [a r'] eqn:Et. injection E1 as _ <-.
      specialize (IHt a r' eq_refl). cbn [length]. lia. }
    assert (L2 : (length r2 <= length r1)%nat).
    { clear -E2. revert vals r2 E2. induction r1 as [|x t IHt]; intros vals r2 E2; cbn [span_values] in E2; [injection E2 as _ <-; lia|].
      destruct x; try (injection E2 as _ <-; lia). destruct (span_values t) as [a r'] eqn:Et. injection E2 as _ <-.
      specialize (IHt a r' eq_refl). cbn [length]. lia. }
    cbn [length]. lia.
  - injection H as _ <-. lia.
  - injection H as _ <-. lia.
  - destruct (is_nil n); [injection H as _ <-; lia|]. destruct b; [discriminate|].
    destruct (parse_items f true l') as [[its1 r1]|] eqn:E1; [|discriminate].
    destruct r1 as [|tk1 r1']; [discriminate|]. destruct tk1; try discriminate. destruct name; [|discriminate].
    destruct (parse_items f false r1') as [[more r3]|] eqn:E2; [|discriminate]. injection H as _ <-.
    apply IH in E1. apply IH in E2. cbn [length] in *. lia.
  - injection H as _ <-. lia.
  - injection H as _ <-. lia.
Qed.

(* ---------------- items *)
Lemma parses_item : forall o it inframe rest its r',
  gr_item inframe it -> not_value_head rest ->
  Parses inframe rest (its, r') ->
  Parses inframe (item_tokens o it ++ rest) (norm_item o it ++ its, r').
Proof.
  intros o. fix IH 1. intros it inframe rest its r' Hit Hr Hrest.
  destruct it as [n v|tags vals|name fitems|c|].
  - cbn [item_tokens norm_item app]. apply Parses_pair. exact Hrest.
  - cbn [item_tokens norm_item]. unfold loop_tokens. destruct (is_nil_l vals) eqn:En; [exact Hrest|].
    destruct (prefer_pairs o && (len_l vals / len_l tags =? 1)); [apply Parses_zip; exact Hrest|].
    cbn [app]. rewrite <- app_assoc. cbn [gr_item] in Hit.
    assert (Hv : vals <> []) by (destruct vals; [discriminate En|discriminate]).
    apply Parses_loop; try assumption. apply Hit. exact Hv.
  - cbn [gr_item] in Hit. destruct Hit as [Hf [Hn Hall]]. subst inframe.
    cbn [item_tokens norm_item app]. rewrite <- app_assoc. cbn [app].
    assert (Hin : forall r1, Parses true (flat_map (item_tokens o) fitems ++ TSave [] :: r1)
                                     (flat_map (norm_item o) fitems ++ [], TSave [] :: r1)).
    { intros r1. clear Hn. induction fitems as [|x xs IHx]; [apply Parses_stop; exact I|].
      destruct Hall as [H1 H2]. cbn [flat_map]. rewrite <- !app_assoc.
      apply IH; [exact H1|apply items_tokens_head; exact I|apply IHx; exact H2]. }
    specialize (Hin rest). rewrite app_nil_r in Hin.
    apply (Parses_frame name _ _ rest _ _ Hn Hin Hrest). rewrite app_length. cbn [length]. lia.
  - exact Hrest.
  - exact Hrest.
Qed.

Lemma parses_items : forall o items inframe rest its r',
  gr_items inframe items -> not_value_head rest ->
  Parses inframe rest (its, r') ->
  Parses inframe (flat_map (item_tokens o) items ++ rest) (flat_map (norm_item o) items ++ its, r').
Proof.
  intros o items. induction items as [|it t IH]; intros inframe rest its r' Hg Hr Hp; [exact Hp|].
  destruct Hg as [Hit Ht]. cbn [flat_map]. rewrite <- !app_assoc.
  apply parses_item; [exact Hit|apply items_tokens_head; exact Hr|apply IH; assumption].
Qed.

(* ---------------- blocks and documents *)
Definition gr_block (b : block) : Prop := gr_items false (bitems b).
Fixpoint gr_doc (d : doc) : Prop := match d with [] => True | b :: t => gr_block b /\ gr_doc t end.

Lemma doc_tokens_stops : forall o d, stops (doc_tokens o d).
Proof.
  intros o d. destruct d as [|b t]; [exact I|]. unfold doc_tokens. cbn [flat_map]. unfold block_tokens.
  destruct (is_nil (bname b)); exact I.
Qed.

Lemma parse_blocks_doc : forall o d f, gr_doc d -> (length (doc_tokens o d) < f)%nat ->
  parse_blocks f (doc_tokens o d) = Some (map (norm_block o) d).
Proof.
  intros o d. induction d as [|b t IH]; intros f Hg Hf.
  - destruct f; [lia|]. reflexivity.
  - destruct Hg as [Hb Ht]. destruct f as [|f]; [lia|].
    change (doc_tokens o (b :: t)) with (block_tokens o b ++ doc_tokens o t) in *.
    unfold block_tokens in *. cbn [app] in *.
    pose proof (parses_items o (bitems b) false (doc_tokens o t) [] (doc_tokens o t) Hb
                  (stops_not_value _ (doc_tokens_stops o t)) (Parses_stop false _ (doc_tokens_stops o t))) as P.
    rewrite app_nil_r in P.
    assert (Hl : (length (doc_tokens o t) < f)%nat) by (cbn [length] in Hf; rewrite app_length in Hf; lia).
    destruct (is_nil (bname b)) eqn:En; cbn [parse_blocks].
    + rewrite (P (S (length (flat_map (item_tokens o) (bitems b) ++ doc_tokens o t))) ltac:(lia)).
      rewrite (IH f Ht Hl). cbn [map]. unfold norm_block. destruct (bname b); [reflexivity|discriminate].
    + rewrite (P (S (length (flat_map (item_tokens o) (bitems b) ++ doc_tokens o t))) ltac:(lia)).
      rewrite (IH f Ht Hl). reflexivity.
Qed.

(* THE DOCUMENT ROUND TRIP: bytes -> tokens -> document *)
Theorem write_cif_parses : forall o d, wf_doc d -> gr_doc d ->
  match lex_all true (write_cif o d) with
  | Some toks => parse_doc toks = Some (map (norm_block o) d)
  | None => False
  end.
Proof.
  intros o d Hw Hg. rewrite (write_cif_tokens o d Hw). unfold parse_doc. apply parse_blocks_doc; [exact Hg|lia].
Qed.
