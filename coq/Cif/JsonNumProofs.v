(* Every CIF number (given by the parts of the CIF 1.1 production Numeric) is written by write_as_number as a text
   that the JSON number grammar accepts. *)
From Coq Require Import Lia.
From GV Require Import Cif.JsonNum.
Local Open Scope Z_scope.

Definition is_sign (sg : str) : Prop := sg = [] \/ sg = [43] \/ sg = [45].
Definition digits (d : str) : Prop := all_digits d = true.
Definition is_exp (ex : str) : Prop :=
  ex = [] \/ exists e sg d3, ex = e :: sg ++ d3 /\ (e = 101 \/ e = 69) /\ is_sign sg /\ d3 <> [] /\ digits d3.
Definition is_su (su : str) : Prop := su = [] \/ exists d4, su = 40 :: d4 ++ [41] /\ d4 <> [] /\ digits d4.

Definition render (sg d1 : str) (dot : bool) (d2 ex su : str) : str :=
  sg ++ d1 ++ (if dot then 46 :: d2 else []) ++ ex ++ su.

Lemma digit_range : forall c, is_digit c = true -> 48 <= c <= 57.
Proof. intros c H. unfold is_digit in H. lia. Qed.

Lemma digits_cons : forall c t, digits (c :: t) -> is_digit c = true /\ digits t.
Proof. intros c t H. unfold digits in *. simpl in H. apply andb_prop in H. exact H. Qed.

Lemma digits_app : forall a b, digits a -> digits b -> digits (a ++ b).
Proof. induction a as [|c a IH]; intros b Ha Hb; [exact Hb|]. apply digits_cons in Ha. destruct Ha as [H1 H2].
  unfold digits. simpl. rewrite H1. apply IH; assumption. Qed.

(* the first character of what follows the integer digits is not a digit *)
Definition stops (r : str) : Prop := is_digit (cur r) = false.

Lemma skipz_app : forall d r, stops r -> skipz (d ++ r) = skipz d ++ r.
Proof.
  induction d as [|c t IH]; intros r Hr.
  - simpl. destruct r as [|x r']; [reflexivity|]. simpl. unfold stops in Hr. simpl in Hr.
    destruct (x =? 48) eqn:E; [|reflexivity]. apply Z.eqb_eq in E. subst x. discriminate.
  - simpl. destruct t as [|c2 t2].
    + simpl. unfold stops in Hr. rewrite Hr. replace (is_digit (cur [])) with false by reflexivity.
      rewrite !andb_false_r. reflexivity.
    + simpl (cur ((c2 :: t2) ++ r)). simpl (cur (c2 :: t2)).
      destruct ((c =? 48) && is_digit c2); [apply IH; exact Hr|reflexivity].
Qed.

(* what skipz leaves of a non-empty run of digits: a single 0, or a digit 1-9 followed by digits *)
Lemma skipz_digits : forall d, d <> [] -> digits d ->
  skipz d = [48] \/ exists c t, skipz d = c :: t /\ is_digit c = true /\ c <> 48 /\ digits t.
Proof.
  induction d as [|c t IH]; intros Hne Hd; [contradiction|].
  apply digits_cons in Hd. destruct Hd as [Hc Ht]. simpl.
  destruct (Z.eqb_spec c 48) as [->|N].
  - destruct t as [|c2 t2]; [left; reflexivity|].
    simpl (cur (c2 :: t2)). destruct (digits_cons _ _ Ht) as [H2 _]. rewrite H2. simpl.
    apply IH; [discriminate|exact Ht].
  - simpl. right. exists c, t. repeat split; assumption.
Qed.

Lemma skipz_length : forall d, (length (skipz d) <= length d)%nat.
Proof. induction d as [|c t IH]; simpl; [lia|]. destruct ((c =? 48) && is_digit (cur t)); simpl; lia. Qed.

Lemma find_first_app_none : forall c a b, find_first c a = None -> find_first c (a ++ b) = option_map (fun n => (length a + n)%nat) (find_first c b).
Proof.
  induction a as [|x a IH]; intros b H; simpl.
  - destruct (find_first c b); reflexivity.
  - simpl in H. destruct (x =? c); [discriminate|]. destruct (find_first c a) eqn:E; [discriminate|].
    rewrite (IH b eq_refl). destruct (find_first c b); reflexivity.
Qed.

Lemma find_first_digits : forall c d, digits d -> ~ (48 <= c <= 57) -> find_first c d = None.
Proof.
  induction d as [|x d IH]; intros Hd Hc; [reflexivity|]. apply digits_cons in Hd. destruct Hd as [Hx Hd].
  simpl. apply digit_range in Hx. destruct (Z.eqb_spec x c); [lia|]. rewrite (IH Hd Hc). reflexivity.
Qed.

Lemma find_first_sign : forall c sg, is_sign sg -> c <> 43 -> c <> 45 -> find_first c sg = None.
Proof.
  intros c sg [ -> | [ -> | -> ] ] H1 H2; cbn [find_first]; try reflexivity.
  - destruct (Z.eqb_spec 43 c); [congruence|reflexivity].
  - destruct (Z.eqb_spec 45 c); [congruence|reflexivity].
Qed.

Lemma find_first_exp : forall c ex, is_exp ex -> c <> 43 -> c <> 45 -> c <> 101 -> c <> 69 -> ~ (48 <= c <= 57) ->
  find_first c ex = None.
Proof.
  intros c ex [->|[e [sg [d3 [-> [He [Hs [_ Hd]]]]]]]] H1 H2 H3 H4 H5; [reflexivity|].
  simpl. destruct (Z.eqb_spec e c); [destruct He; congruence|].
  rewrite (find_first_app_none c sg d3 (find_first_sign c sg Hs H1 H2)), (find_first_digits c d3 Hd H5). reflexivity.
Qed.

Lemma find_first_su_dot : forall su, is_su su -> find_first 46 su = None.
Proof.
  intros su [->|[d4 [-> [_ Hd]]]]; [reflexivity|]. simpl.
  rewrite (find_first_app_none 46 d4 [41] (find_first_digits 46 d4 Hd ltac:(lia))). reflexivity.
Qed.

Lemma take_until_app : forall c a b, find_first c a = None -> take_until c (a ++ c :: b) = a.
Proof.
  induction a as [|x a IH]; intros b H; simpl.
  - rewrite Z.eqb_refl. reflexivity.
  - simpl in H. destruct (x =? c); [discriminate|]. destruct (find_first c a) eqn:E; [discriminate|].
    rewrite (IH b eq_refl). reflexivity.
Qed.

Lemma take_until_none : forall c a, find_first c a = None -> take_until c a = a.
Proof.
  induction a as [|x a IH]; intros H; simpl; [reflexivity|]. simpl in H. destruct (x =? c); [discriminate|].
  destruct (find_first c a); [discriminate|]. rewrite IH; reflexivity.
Qed.

Lemma last_app_ne : forall (a b : str) d, b <> [] -> last (a ++ b) d = last b d.
Proof.
  induction a as [|x a IH]; intros b d H; [reflexivity|]. simpl. destruct (a ++ b) eqn:E.
  - destruct a; destruct b; simpl in E; try discriminate. contradiction.
  - rewrite <- E. apply IH. exact H.
Qed.

Lemma last_digits : forall d, d <> [] -> digits d -> last d 0 <> 41.
Proof.
  induction d as [|c t IH]; intros Hne Hd; [contradiction|]. apply digits_cons in Hd. destruct Hd as [Hc Ht].
  destruct t as [|c2 t2]; simpl.
  - apply digit_range in Hc. lia.
  - apply IH; [discriminate|exact Ht].
Qed.

Lemma skip_while_digits_app : forall d r, digits d -> stops r -> skip_while is_digit (d ++ r) = r.
Proof.
  induction d as [|c t IH]; intros r Hd Hr.
  - simpl. destruct r as [|x r']; [reflexivity|]. simpl. unfold stops in Hr. simpl in Hr. rewrite Hr. reflexivity.
  - apply digits_cons in Hd. destruct Hd as [Hc Ht]. simpl. rewrite Hc. apply IH; assumption.
Qed.

Lemma exp_stops : forall ex, is_exp ex -> stops ex.
Proof. intros ex [->|[e [sg [d3 [-> [ [ -> | -> ] _]]]]]]; reflexivity. Qed.

Lemma json_exp_ok : forall ex, is_exp ex -> json_exp ex = true.
Proof.
  intros ex [->|[e [sg [d3 [-> [He [Hs [Hne Hd]]]]]]]]; [reflexivity|].
  assert (Ee : (e =? 101) || (e =? 69) = true) by (destruct He as [ -> | -> ]; reflexivity).
  cbn [json_exp]. rewrite Ee. cbn [andb].
  assert (D : (match sg ++ d3 with x :: t' => if (x =? 43) || (x =? 45) then t' else sg ++ d3 | [] => [] end) = d3).
  { destruct Hs as [ -> | [ -> | -> ] ]; simpl; try reflexivity.
    destruct d3 as [|x t]; [contradiction|]. destruct (digits_cons _ _ Hd) as [Hx _]. apply digit_range in Hx.
    destruct (Z.eqb_spec x 43); [lia|]. destruct (Z.eqb_spec x 45); [lia|]. reflexivity. }
  rewrite D. destruct d3; [contradiction|]. exact Hd.
Qed.

(* ---- the shape of the output and why JSON accepts it ---- *)
Definition int_part (ip : str) : Prop :=
  ip = [48] \/ exists c t, ip = c :: t /\ is_digit c = true /\ c <> 48 /\ digits t.
Definition frac_part (fp : str) : Prop := fp = [] \/ exists d, fp = 46 :: d /\ d <> [] /\ digits d.

Lemma json_frac_exp_ok : forall fp ex, frac_part fp -> is_exp ex -> json_frac_exp (fp ++ ex) = true.
Proof.
  intros fp ex [->|[d [-> [Hne Hd]]]] He.
  - cbn [app]. unfold json_frac_exp.
    assert (C : cur ex =? 46 = false).
    { destruct He as [->|[e [sg [d3 [-> [[ -> | -> ] _]]]]]]; reflexivity. }
    rewrite C. apply json_exp_ok. exact He.
  - cbn [app]. unfold json_frac_exp. cbn [cur adv]. rewrite Z.eqb_refl.
    rewrite (skip_while_digits_app d ex Hd (exp_stops ex He)).
    rewrite (json_exp_ok ex He). rewrite andb_true_r. apply negb_true_iff. apply Nat.eqb_neq.
    rewrite app_length. destruct d; [contradiction|]. simpl. lia.
Qed.

Lemma frac_exp_stops : forall fp ex, frac_part fp -> is_exp ex -> stops (fp ++ ex).
Proof. intros fp ex [->|[d [-> _]]] He; [apply exp_stops; exact He|reflexivity]. Qed.

Lemma json_out : forall sgo ip fp ex, (sgo = [] \/ sgo = [45]) -> int_part ip -> frac_part fp -> is_exp ex ->
  json_number (sgo ++ ip ++ fp ++ ex) = true.
Proof.
  intros sgo ip fp ex Hs Hi Hf He.
  assert (Core : match ip ++ fp ++ ex with
                 | [] => false
                 | c :: t => if c =? 48 then json_frac_exp t else is_digit c && json_frac_exp (skip_while is_digit t)
                 end = true).
  { destruct Hi as [->|[c [t [-> [Hc [Nc Ht]]]]]].
    - cbn [app]. rewrite Z.eqb_refl. apply json_frac_exp_ok; assumption.
    - cbn [app]. destruct (Z.eqb_spec c 48); [contradiction|].
      rewrite (skip_while_digits_app t (fp ++ ex) Ht (frac_exp_stops fp ex Hf He)).
      rewrite Hc, (json_frac_exp_ok fp ex Hf He). reflexivity. }
  unfold json_number. destruct Hs as [->| ->].
  - cbn [app].
    assert (C : cur (ip ++ fp ++ ex) =? 45 = false).
    { destruct Hi as [->|[c [t [-> [Hc _]]]]]; [reflexivity|]. cbn [app cur]. apply digit_range in Hc. lia. }
    rewrite C. exact Core.
  - cbn [app cur adv]. rewrite Z.eqb_refl. exact Core.
Qed.

(* ---- the computation on a rendered CIF number ---- *)
Definition tail_of (dot : bool) (d2 ex su : str) : str := (if dot then 46 :: d2 else []) ++ ex ++ su.
Definition sgo_of (sg : str) : str := match sg with [45] => [45] | _ => [] end.
Definition ip_of (d1 : str) : str := match d1 with [] => [48] | _ => skipz d1 end.
Definition fp_of (dot : bool) (d2 : str) : str := if dot then 46 :: (match d2 with [] => [48] | _ => d2 end) else [].

Lemma su_stops : forall su, is_su su -> stops su.
Proof. intros su [->|[d4 [-> _]]]; reflexivity. Qed.

Lemma exsu_stops : forall ex su, is_exp ex -> is_su su -> stops (ex ++ su).
Proof. intros ex su [->|[e [s3 [d3 [-> [[ -> | -> ] _]]]]]] Hs; [apply su_stops; exact Hs|reflexivity|reflexivity]. Qed.

Lemma tail_stops : forall dot d2 ex su, is_exp ex -> is_su su -> stops (tail_of dot d2 ex su).
Proof. intros dot d2 ex su He Hs. unfold tail_of. destruct dot; [reflexivity|cbn [app]; apply exsu_stops; assumption]. Qed.

Lemma sign_done : forall sg R, is_sign sg -> (cur R = 46 \/ is_digit (cur R) = true) ->
  write_as_number (sg ++ R) = waj_body (sg ++ R) R (sgo_of sg).
Proof.
  intros sg R [ -> | [ -> | -> ] ] HR; unfold write_as_number, sgo_of; cbn [app cur adv]; try reflexivity.
  assert (C : (cur R =? 43) = false /\ (cur R =? 45) = false).
  { destruct HR as [E|E]; [rewrite E; split; reflexivity|]. apply digit_range in E. split; lia. }
  destruct C as [C1 C2]. rewrite C1, C2. reflexivity.
Qed.

Lemma find_dot : forall sg d1 dot d2 ex su, is_sign sg -> digits d1 -> is_exp ex -> is_su su ->
  find_first 46 (sg ++ d1 ++ tail_of dot d2 ex su) = if dot then Some (length sg + length d1)%nat else None.
Proof.
  intros sg d1 dot d2 ex su Hsg Hd1 Hex Hsu.
  rewrite (find_first_app_none 46 sg _ (find_first_sign 46 sg Hsg ltac:(lia) ltac:(lia))).
  rewrite (find_first_app_none 46 d1 _ (find_first_digits 46 d1 Hd1 ltac:(lia))).
  unfold tail_of. destruct dot.
  - cbn [app find_first]. rewrite Z.eqb_refl. cbn [option_map]. rewrite Nat.add_0_r. reflexivity.
  - cbn [app]. rewrite (find_first_app_none 46 ex su (find_first_exp 46 ex Hex ltac:(lia) ltac:(lia) ltac:(lia) ltac:(lia) ltac:(lia))).
    rewrite (find_first_su_dot su Hsu). reflexivity.
Qed.

Lemma last_v : forall sg d1 dot d2 ex su, digits d1 -> digits d2 -> (dot = false -> d2 = []) -> (d1 <> [] \/ d2 <> []) ->
  is_exp ex -> is_su su ->
  (last (sg ++ d1 ++ tail_of dot d2 ex su) 0 =? 41) = match su with [] => false | _ => true end.
Proof.
  intros sg d1 dot d2 ex su Hd1 Hd2 Hdot Hany Hex [->|[d4 [-> _]]].
  - apply Z.eqb_neq. unfold tail_of. rewrite app_nil_r.
    destruct Hex as [->|[e [s3 [d3 [-> [_ [_ [N3 D3]]]]]]]].
    + rewrite app_nil_r. destruct dot.
      * destruct d2 as [|x t].
        -- rewrite app_assoc. rewrite last_app_ne by discriminate. simpl. lia.
        -- rewrite app_assoc. replace (46 :: x :: t) with ([46] ++ (x :: t)) by reflexivity. rewrite app_assoc.
           rewrite last_app_ne by discriminate. apply last_digits; [discriminate|exact Hd2].
      * rewrite app_nil_r. destruct d1 as [|x t].
        -- exfalso. destruct Hany as [H|H]; [contradiction|]. rewrite (Hdot eq_refl) in H. contradiction.
        -- rewrite last_app_ne by discriminate. apply last_digits; [discriminate|exact Hd1].
    + replace (e :: s3 ++ d3) with (([e] ++ s3) ++ d3) by reflexivity. rewrite !app_assoc.
      rewrite last_app_ne by exact N3. apply last_digits; assumption.
  - unfold tail_of. replace (40 :: d4 ++ [41]) with ((40 :: d4) ++ [41]) by reflexivity.
    rewrite !app_assoc. rewrite last_app_ne by discriminate. reflexivity.
Qed.

Lemma take_until_exsu : forall ex su, is_exp ex -> is_su su -> take_until 40 (ex ++ su) = ex.
Proof.
  intros ex su Hex Hsu.
  assert (N : find_first 40 ex = None) by (apply find_first_exp; [exact Hex|lia|lia|lia|lia|lia]).
  destruct Hsu as [->|[d4 [-> _]]].
  - rewrite app_nil_r. apply take_until_none. exact N.
  - apply take_until_app. exact N.
Qed.

Lemma ip_ok : forall d1, digits d1 -> int_part (ip_of d1).
Proof.
  intros d1 Hd1. unfold ip_of. destruct d1 as [|c t] eqn:E; [left; reflexivity|].
  apply skipz_digits; [discriminate|exact Hd1].
Qed.

Lemma fp_ok : forall dot d2, digits d2 -> frac_part (fp_of dot d2).
Proof.
  intros dot d2 Hd2. unfold fp_of. destruct dot; [|left; reflexivity]. right. destruct d2 as [|x t].
  - exists [48]. split; [reflexivity|]. split; [discriminate|reflexivity].
  - exists (x :: t). split; [reflexivity|]. split; [discriminate|exact Hd2].
Qed.

Lemma sgo_ok : forall sg, is_sign sg -> sgo_of sg = [] \/ sgo_of sg = [45].
Proof. intros sg [ -> | [ -> | -> ] ]; unfold sgo_of; auto. Qed.

Lemma skipz_keeps_digits : forall d, digits d -> digits (skipz d).
Proof.
  induction d as [|c t IH]; intros Hd; [exact Hd|]. simpl.
  destruct ((c =? 48) && is_digit (cur t)); [apply IH; exact (proj2 (digits_cons _ _ Hd))|exact Hd].
Qed.

Lemma take_until_prefix : forall c a b, find_first c a = None -> take_until c (a ++ b) = a ++ take_until c b.
Proof.
  induction a as [|x a IH]; intros b H; [reflexivity|]. simpl in *. destruct (x =? c); [discriminate|].
  destruct (find_first c a); [discriminate|]. rewrite IH; reflexivity.
Qed.

Lemma skipz_not_zero_start : forall c t, c <> 48 -> skipz (c :: t) = c :: t.
Proof. intros c t H. simpl. destruct (Z.eqb_spec c 48); [contradiction|reflexivity]. Qed.

Lemma no_paren_dot_digits : forall d, digits d -> find_first 40 (46 :: d) = None.
Proof.
  intros d Hd. change (46 :: d) with ([46] ++ d). rewrite find_first_app_none by reflexivity.
  rewrite (find_first_digits 40 d Hd ltac:(lia)). reflexivity.
Qed.

(* what write_as_number writes for the CIF number  sign digits [. digits] [exponent] [(su)] *)
Theorem write_as_number_render : forall sg d1 dot d2 ex su,
  is_sign sg -> digits d1 -> digits d2 -> (dot = false -> d2 = []) -> (d1 <> [] \/ d2 <> []) -> is_exp ex -> is_su su ->
  write_as_number (render sg d1 dot d2 ex su) = sgo_of sg ++ ip_of d1 ++ fp_of dot d2 ++ ex.
Proof.
  intros sg d1 dot d2 ex su Hsg Hd1 Hd2 Hdot Hany Hex Hsu.
  change (render sg d1 dot d2 ex su) with (sg ++ d1 ++ tail_of dot d2 ex su).
  pose proof (tail_stops dot d2 ex su Hex Hsu) as Tst.
  pose proof (find_dot sg d1 dot d2 ex su Hsg Hd1 Hex Hsu) as Fd.
  pose proof (last_v sg d1 dot d2 ex su Hd1 Hd2 Hdot Hany Hex Hsu) as Lv.
  pose proof (take_until_exsu ex su Hex Hsu) as Tu.
  assert (N40 : forall d, digits d -> find_first 40 d = None) by (intros d Hd; apply find_first_digits; [exact Hd|lia]).
  destruct d1 as [|c1 t1].
  - (* no integer digits: ".5" *)
    assert (dot = true).
    { destruct dot; [reflexivity|]. destruct Hany as [H|H]; [contradiction|]. rewrite (Hdot eq_refl) in H. contradiction. }
    subst dot. destruct d2 as [|x2 t2]; [destruct Hany; contradiction|].
    destruct (digits_cons _ _ Hd2) as [Hx2 _].
    rewrite sign_done; [|exact Hsg|left; reflexivity].
    unfold waj_body. rewrite Fd, Lv. cbn [app length Nat.add] in *. unfold tail_of in *. cbn [app] in *.
    cbn [cur]. rewrite Z.eqb_refl.
    rewrite skipz_not_zero_start by lia.
    replace (nth (S (length sg + 0)) (sg ++ 46 :: x2 :: t2 ++ ex ++ su) 0) with x2.
    2:{ replace (S (length sg + 0)) with (length sg + 1)%nat by lia. rewrite app_nth2_plus. reflexivity. }
    rewrite Hx2. unfold ip_of, fp_of.
    destruct su as [|y u].
    + rewrite app_nil_r. rewrite <- ?app_assoc. reflexivity.
    + replace (46 :: x2 :: t2 ++ ex ++ y :: u) with ((46 :: x2 :: t2) ++ ex ++ y :: u) by reflexivity.
      rewrite take_until_prefix.
      2:{ apply no_paren_dot_digits. exact Hd2. }
      rewrite Tu. rewrite <- ?app_assoc. reflexivity.
  - destruct (digits_cons _ _ Hd1) as [Hc1 Ht1].
    rewrite sign_done; [|exact Hsg|right; exact Hc1].
    unfold waj_body. rewrite Fd, Lv.
    assert (C46 : (cur ((c1 :: t1) ++ tail_of dot d2 ex su) =? 46) = false).
    { cbn [app cur]. apply digit_range in Hc1. lia. }
    rewrite C46. rewrite (skipz_app (c1 :: t1) _ Tst).
    assert (IP : ip_of (c1 :: t1) = skipz (c1 :: t1)) by reflexivity. rewrite IP. clear IP C46 Hc1 Ht1 Hany.
    set (D := c1 :: t1) in *. clearbody D.
    set (z := skipz D) in *.
    assert (Hz : digits z) by (apply skipz_keeps_digits; exact Hd1).
    assert (Lz : (length z <= length D)%nat) by apply skipz_length.
    destruct dot.
    + destruct d2 as [|x2 t2].
      * (* "5." or "5.e3": a 0 is supplied after the point *)
        unfold tail_of in *. cbn [app] in *.
        replace (nth (S (length sg + length D)) (sg ++ D ++ 46 :: ex ++ su) 0) with (cur (ex ++ su)).
        2:{ rewrite app_assoc. replace (S (length sg + length D)) with (length (sg ++ D) + 1)%nat by (rewrite app_length; lia).
            rewrite app_nth2_plus. destruct (ex ++ su); reflexivity. }
        pose proof (exsu_stops ex su Hex Hsu) as St. unfold stops in St. rewrite St.
        replace (Nat.sub (S (length sg + length D)) (Nat.sub (length (sg ++ D ++ 46 :: ex ++ su)) (length (z ++ 46 :: ex ++ su))))
          with (length z + 1)%nat.
        2:{ rewrite !app_length. cbn [length]. rewrite !app_length. cbn [length] in Lz. lia. }
        rewrite firstn_app. rewrite firstn_all2 by lia.
        replace (length z + 1 - length z)%nat with 1%nat by lia. cbn [firstn].
        replace (skipn (S (length sg + length D)) (sg ++ D ++ 46 :: ex ++ su)) with (ex ++ su).
        2:{ rewrite app_assoc. replace (S (length sg + length D)) with (length ((sg ++ D) ++ [46])) by (rewrite !app_length; cbn [length]; lia).
            replace ((sg ++ D) ++ 46 :: ex ++ su) with (((sg ++ D) ++ [46]) ++ ex ++ su) by (rewrite <- !app_assoc; reflexivity).
            rewrite skipn_app, skipn_all, Nat.sub_diag. reflexivity. }
        unfold fp_of. destruct su as [|y u].
        -- rewrite app_nil_r. rewrite <- ?app_assoc. reflexivity.
        -- rewrite Tu. rewrite <- ?app_assoc. reflexivity.
      * destruct (digits_cons _ _ Hd2) as [Hx2 _].
        unfold tail_of in *. cbn [app] in *.
        replace (nth (S (length sg + length D)) (sg ++ D ++ 46 :: x2 :: t2 ++ ex ++ su) 0) with x2.
        2:{ rewrite app_assoc. replace (S (length sg + length D)) with (length (sg ++ D) + 1)%nat by (rewrite app_length; lia).
            rewrite app_nth2_plus. reflexivity. }
        rewrite Hx2. unfold fp_of. destruct su as [|y u].
        -- rewrite app_nil_r. rewrite <- ?app_assoc. reflexivity.
        -- replace (z ++ 46 :: x2 :: t2 ++ ex ++ y :: u) with ((z ++ 46 :: x2 :: t2) ++ ex ++ y :: u) by (rewrite <- app_assoc; reflexivity).
           rewrite take_until_prefix.
           2:{ rewrite (find_first_app_none 40 z _ (N40 z Hz)). rewrite (no_paren_dot_digits _ Hd2). reflexivity. }
           rewrite Tu. rewrite <- ?app_assoc. reflexivity.
    + rewrite (Hdot eq_refl) in *. unfold tail_of in *. cbn [app] in *. unfold fp_of. cbn [app].
      destruct su as [|y u].
      * rewrite app_nil_r. rewrite <- ?app_assoc. reflexivity.
      * rewrite take_until_prefix by (apply N40; exact Hz). rewrite Tu. rewrite <- ?app_assoc. reflexivity.
Qed.

(* EVERY CIF number is written as a text that the JSON grammar accepts *)
Theorem write_as_number_is_json : forall sg d1 dot d2 ex su,
  is_sign sg -> digits d1 -> digits d2 -> (dot = false -> d2 = []) -> (d1 <> [] \/ d2 <> []) -> is_exp ex -> is_su su ->
  json_number (write_as_number (render sg d1 dot d2 ex su)) = true.
Proof.
  intros sg d1 dot d2 ex su Hsg Hd1 Hd2 Hdot Hany Hex Hsu.
  rewrite write_as_number_render by assumption.
  apply json_out; [apply sgo_ok; exact Hsg|apply ip_ok; exact Hd1|apply fp_ok; exact Hd2|exact Hex].
Qed.
