(* Layout of write_out_pair / write_out_loop (to_cif.hpp): every raw value is written at a place where
   start_ok holds and is followed by white space, hence (value_relex) it is read back as it was.
   Text fields containing CR-LF are rewritten by write_text_field (CR dropped); the statements here are for
   values without CR-LF (crlf_free); the CR-LF normalisation is covered by the round-trip oracle only. *)
From Coq Require Import Lia.
From GV Require Import Cif.CharTable_gen Cif.Quote Cif.Write Cif.Lex Cif.Legacy Cif.QuoteProofs Cif.LexProofs.
Local Open Scope Z_scope.

Fixpoint crlf_free (v : str) : bool :=
  match v with
  | [] => true
  | c :: t => negb ((c =? 13) && (cur t =? 10) && negb (is_nil t)) && crlf_free t
  end.

Lemma text_segments_crlf_free : forall v acc, crlf_free v = true -> text_segments v acc = [rev acc ++ v].
Proof.
  induction v as [|c t IH]; intros acc H; simpl.
  - rewrite app_nil_r; reflexivity.
  - simpl in H. apply andb_prop in H; destruct H as [H1 H2]. apply negb_true_iff in H1.
    rewrite H1, (IH (c :: acc) H2). simpl. rewrite <- app_assoc. reflexivity.
Qed.

Lemma text_field_bytes : forall v, crlf_free v = true -> write_text_field_ops v = [OWrite v].
Proof. intros v H. unfold write_text_field_ops. rewrite (text_segments_crlf_free v [] H). reflexivity. Qed.

(* is_text_field() agrees with the lexical class *)
Lemma nonblank_not_eol : forall x, is_nonblank x = true -> (x =? 10) || (x =? 13) = false.
Proof.
  intros x H. unfold is_nonblank in H. apply andb_prop in H; destruct H as [H _]. apply Z.leb_le in H.
  apply orb_false_iff; split; apply Z.eqb_neq; lia.
Qed.

Lemma is_text_field_shape : forall cl v, shape cl v ->
  is_text_field v = match cl with CText => true | _ => false end.
Proof.
  intros cl v Sh. inversion Sh as [v' Hne Ha|body Hb|body Hb|body Hb|c0 t Ha Hnb Hk Hf Hq]; subst.
  - destruct v as [|c t]; [congruence|]. unfold is_text_field.
    simpl in Ha. apply andb_prop in Ha; destruct Ha as [Hc _]. apply Z.eqb_eq in Hc.
    assert (c <> 59) by (intro; subst; rewrite ct_semi in Hc; discriminate).
    simpl cur. destruct (Z.eqb_spec c 59); [contradiction|].
    destruct (2 <? len (c :: t)); reflexivity.
  - unfold is_text_field. simpl cur. destruct (2 <? len (39 :: body ++ [39])); reflexivity.
  - unfold is_text_field. simpl cur. destruct (2 <? len (34 :: body ++ [34])); reflexivity.
  - unfold is_text_field. rewrite from_end2_semi. simpl cur.
    assert (Hl : (2 <? len (59 :: body ++ [10; 59])) = true).
    { apply Z.ltb_lt. unfold len. simpl length. rewrite app_length. simpl. lia. }
    rewrite Hl. reflexivity.
  - unfold is_text_field. destruct (2 <? len (c0 :: t)) eqn:Hl; [|reflexivity].
    apply Z.ltb_lt in Hl. unfold len in Hl.
    assert (I : In (from_end 2 (c0 :: t)) (c0 :: t)).
    { unfold from_end. apply nth_In. simpl length in *. lia. }
    pose proof (proj1 (forallb_forall _ _) Hnb _ I) as Nx.
    rewrite (nonblank_not_eol _ Nx). destruct (cur (c0 :: t) =? 59); reflexivity.
Qed.

(* ---- pairs *)
Definition pair_sep (o : opts) (n v : str) : str :=
  if is_text_field v then [10]
  else if 120 <? len n + len v then 10 :: (if cur v =? 59 then [32] else [])
  else 32 :: (if len n <? align_pairs o then repeat 32 (Z.to_nat (align_pairs o - len n)) else []).

Lemma pair_bytes : forall o n v, (is_text_field v = true -> crlf_free v = true) ->
  ops_bytes (write_out_pair_ops o n v) = n ++ pair_sep o n v ++ v ++ [10].
Proof.
  intros o n v Hc. unfold write_out_pair_ops, pair_sep, ops_bytes.
  destruct (is_text_field v) eqn:Tf.
  - rewrite (text_field_bytes v (Hc eq_refl)). simpl. rewrite ?app_nil_r, <- ?app_assoc. reflexivity.
  - destruct (120 <? len n + len v).
    + destruct (cur v =? 59); simpl; rewrite ?app_nil_r, <- ?app_assoc; reflexivity.
    + destruct (len n <? align_pairs o); simpl; rewrite ?flat_map_app; simpl; rewrite ?app_nil_r, <- ?app_assoc; reflexivity.
Qed.

Lemma last_repeat32 : forall k, last (32 :: repeat 32 k) 0 = 32.
Proof. induction k as [|k IH]; [reflexivity|]. simpl in *. exact IH. Qed.
Lemma ws_repeat32 : forall k, forallb is_ws (repeat 32 k) = true.
Proof. induction k as [|k IH]; [reflexivity|]. simpl. exact IH. Qed.

Lemma pair_sep_ok : forall o n v cl, shape cl v ->
  pair_sep o n v <> [] /\ forallb is_ws (pair_sep o n v) = true /\
  start_ok (last (pair_sep o n v) 0 =? 10) cl v = true.
Proof.
  intros o n v cl Sh. unfold pair_sep. rewrite (is_text_field_shape cl v Sh).
  destruct cl;
    try (destruct (120 <? len n + len v);
         [destruct (cur v =? 59) eqn:E; repeat split; try discriminate; simpl; try rewrite E; reflexivity
         |destruct (len n <? align_pairs o); repeat split; try discriminate;
          try (simpl; rewrite ?ws_repeat32; reflexivity);
          try (rewrite last_repeat32; reflexivity)]).
Qed.

(* a pair written by write_out_pair: tag, white space, then the value is lexed back as it was *)
Lemma pair_value_roundtrip : forall o n v cl rest,
  wf_class v = Some cl -> (is_text_field v = true -> crlf_free v = true) ->
  exists sep, ops_bytes (write_out_pair_ops o n v) = n ++ sep ++ v ++ [10] /\
              sep <> [] /\ forallb is_ws sep = true /\
              lex_value (last sep 0 =? 10) (v ++ 10 :: rest) = LexOk v (10 :: rest).
Proof.
  intros o n v cl rest Hwf Hc. exists (pair_sep o n v).
  pose proof (wf_shape v cl Hwf) as Sh. destruct (pair_sep_ok o n v cl Sh) as [H1 [H2 H3]].
  repeat split; try assumption.
  - apply pair_bytes; exact Hc.
  - apply (value_relex v cl); [exact Hwf|exact H3|right; reflexivity].
Qed.

(* the snapshot before the repair: a well-formed unquoted value of 119 characters starting with ';' under the
   tag "_a" went to the first column, where the value rule raises "unterminated text field" *)
Lemma pair_layout_refuted_v0 :
  exists o n v cl, wf_class v = Some cl /\ crlf_free v = true /\
    ops_bytes (write_out_pair_ops_v0 o n v) = n ++ [10] ++ v ++ [10] /\
    lex_value true (v ++ [10]) = LexErr.
Proof.
  exists w_opts_plain, [95; 97], w_semi_value, CUnquoted. vm_compute. repeat split; reflexivity.
Qed.

(* ---- loop rows: where each write of loop_values_ops lands *)
Definition bol_after (bol : bool) (s : str) : bool := match s with [] => bol | _ => last s 0 =? 10 end.

Definition followed_by_sep (l : list op) : Prop :=
  match l with
  | OPut c :: _ => sepc c
  | OPad n :: _ => 0 < n
  | _ => False
  end.

(* every write in the trace satisfies P (bol before it, data) and is followed by a put of ' '/'\n' or a pad *)
Fixpoint placed (P : bool -> str -> Prop) (bol : bool) (l : list op) : Prop :=
  match l with
  | [] => True
  | OWrite s :: t => P bol s /\ followed_by_sep t /\ placed P (bol_after bol s) t
  | OPut c :: t => placed P (c =? 10) t
  | OPad n :: t => placed P false t
  end.

Definition value_ok (bol : bool) (s : str) : Prop :=
  exists cl, wf_class s = Some cl /\ start_ok bol cl s = true.

Definition wfv (v : str) : Prop :=
  (exists cl, wf_class v = Some cl) /\ (is_text_field v = true -> crlf_free v = true).

Lemma loop_values_head : forall ncol cw vals col nn k, followed_by_sep k ->
  followed_by_sep (loop_values_ops ncol cw vals col nn ++ k).
Proof.
  intros ncol cw vals col nn k Hk. destruct vals as [|v t]; [exact Hk|].
  cbn [loop_values_ops app]. simpl. destruct (nn || is_text_field v); [right|left]; reflexivity.
Qed.

Lemma loop_values_placed : forall ncol cw vals col nn b k,
  Forall wfv vals -> followed_by_sep k -> (forall b', placed value_ok b' k) ->
  placed value_ok b (loop_values_ops ncol cw vals col nn ++ k).
Proof.
  intros ncol cw; induction vals as [|v t IH]; intros col nn b k Hw Hk Pk; [apply Pk|].
  inversion Hw as [|v' t' [[cl Hcl] Hcr] Hwt]; subst.
  pose proof (wf_shape v cl Hcl) as Sh. pose proof (is_text_field_shape cl v Sh) as Tf.
  cbn [loop_values_ops].
  set (tail := if negb (col =? ncol - 1)%nat
               then (if len v <? nth col cw 0 then [OPad (nth col cw 0 - len v)] else [])
                    ++ loop_values_ops ncol cw t (S col) (is_text_field v)
               else loop_values_ops ncol cw t 0%nat true).
  assert (Ht : followed_by_sep (tail ++ k) /\ forall b', placed value_ok b' (tail ++ k)).
  { unfold tail. destruct (negb (col =? ncol - 1)%nat).
    - destruct (len v <? nth col cw 0) eqn:E.
      + split; [simpl; apply Z.ltb_lt in E; lia|]. intro b'. simpl. apply IH; assumption.
      + simpl. split; [apply loop_values_head; exact Hk|intro b'; apply IH; assumption].
    - split; [apply loop_values_head; exact Hk|intro b'; apply IH; assumption]. }
  destruct Ht as [T1 T2]. clearbody tail.
  destruct (is_text_field v) eqn:Etf.
  - (* text field: "\n" then the value *)
    assert (cl = CText) by (destruct cl; try discriminate; reflexivity). subst cl.
    rewrite (text_field_bytes v (Hcr eq_refl)).
    rewrite orb_true_r, andb_false_r. cbn [negb andb app placed]. simpl (nl =? 10).
    split; [exists CText; split; [exact Hcl|reflexivity]|]. split; [exact T1|apply T2].
  - rewrite orb_false_r. cbn [negb]. rewrite andb_true_r.
    assert (Hst : forall bb, (bb && (cur v =? 59)) = false -> start_ok bb cl v = true).
    { intros bb Hbb. destruct cl; try discriminate; simpl; rewrite Hbb; reflexivity. }
    destruct nn; cbn [andb].
    + destruct (cur v =? 59) eqn:E59; cbn [app placed]; simpl.
      * split; [exists cl; split; [exact Hcl|apply Hst; reflexivity]|]. split; [exact T1|apply T2].
      * split; [exists cl; split; [exact Hcl|apply Hst; reflexivity]|]. split; [exact T1|apply T2].
    + cbn [app placed]. simpl.
      split; [exists cl; split; [exact Hcl|apply Hst; reflexivity]|]. split; [exact T1|apply T2].
Qed.

(* the rows of a loop as written by write_out_loop (whatever the column widths computed from align_loops):
   every value lands where the value rule reads it back, and is followed by white space *)
Lemma loop_rows_placed : forall ncol cw vals b, Forall wfv vals ->
  placed value_ok b (loop_values_ops ncol cw vals 0%nat true ++ [OPut nl]).
Proof.
  intros ncol cw vals b Hw. apply loop_values_placed; [exact Hw|right; reflexivity|intro b'; exact I].
Qed.

(* the snapshot before the repair: first column of a row *)
Lemma loop_layout_refuted_v0 :
  exists v cl, wf_class v = Some cl /\ start_ok true cl v = false /\ lex_value true (v ++ [32; 49; 10]) = LexErr.
Proof. exists [59; 122], CUnquoted. vm_compute. repeat split; reflexivity. Qed.
