(* The converse of cif_numb_is_render: every rendering of well-formed parts is accepted by the CIF number recogniser, so
   the production used in C01_json_number_valid and the recogniser of property C12 describe the same set of strings. *)
From Coq Require Import Lia.
From GV Require Import Num.DecParse Cif.JsonNum Cif.JsonNumProofs.
Local Open Scope Z_scope.

Lemma scan_digits_app : forall d r acc cnt, digits d -> stops r ->
  exists acc', scan_digits acc cnt (d ++ r) = (acc', cnt + Z.of_nat (length d), r).
Proof.
  induction d as [|c t IH]; intros r acc cnt Hd Hr.
  - exists acc. replace (cnt + Z.of_nat (length (@nil Z))) with cnt by (simpl; lia). cbn [app].
    destruct r as [|x r']; [reflexivity|]. cbn [scan_digits]. unfold stops in Hr. cbn [cur] in Hr. rewrite Hr. reflexivity.
  - destruct (digits_cons _ _ Hd) as [Hc Ht]. cbn [app scan_digits]. rewrite Hc.
    destruct (IH r (acc * 10 + (c - 48)) (cnt + 1) Ht Hr) as [a' E]. exists a'. rewrite E.
    replace (cnt + 1 + Z.of_nat (length t)) with (cnt + Z.of_nat (length (c :: t))) by (simpl length; lia). reflexivity.
Qed.

Lemma strip_sign_app : forall sg r, is_sign sg -> cur r <> 43 -> cur r <> 45 ->
  exists neg, strip_sign (sg ++ r) = (neg, r).
Proof.
  intros sg r [ -> | [ -> | -> ] ] H1 H2.
  - cbn [app]. destruct r as [|c t]; [exists false; reflexivity|]. simpl in H1, H2. unfold strip_sign.
    destruct (Z.eqb_spec c 45); [contradiction|]. destruct (Z.eqb_spec c 43); [contradiction|]. exists false. reflexivity.
  - exists false. reflexivity.
  - exists true. reflexivity.
Qed.

Lemma su_is_ok : forall su, is_su su -> cif_su_ok su = true.
Proof.
  intros su [->|[d4 [-> [Hne Hd]]]]; [reflexivity|].
  unfold cif_su_ok. replace (40 =? 40) with true by reflexivity.
  destruct (scan_digits_app d4 [41] 0 0 Hd ltac:(reflexivity)) as [a E]. rewrite E.
  destruct d4; [contradiction|]. simpl length. replace (0 <? 0 + Z.of_nat (S (length d4))) with true by (symmetry; apply Z.ltb_lt; lia).
  reflexivity.
Qed.

Lemma digit_cur_not_sign : forall d r, d <> [] -> digits d -> cur (d ++ r) <> 43 /\ cur (d ++ r) <> 45.
Proof.
  intros [|c t] r Hne Hd; [contradiction|]. destruct (digits_cons _ _ Hd) as [Hc _]. apply digit_range in Hc.
  cbn [app cur]. lia.
Qed.

(* the exponent and what follows: s3 = ex ++ su *)
Lemma exp_tail : forall neg m n2 ex su, is_exp ex -> is_su su ->
  exists dd,
  match ex ++ su with
  | c :: t =>
    if (c =? 101) || (c =? 69) then
      let '(eneg, t1) := strip_sign t in
      let '(exv, ne, s4) := scan_digits 0 0 t1 in
      if ne =? 0 then None
      else Some (mkDec neg m ((if eneg then - exv else exv) - n2), s4)
    else Some (mkDec neg m (- n2), ex ++ su)
  | [] => Some (mkDec neg m (- n2), [])
  end = Some (dd, su).
Proof.
  intros neg m n2 ex su [->|[e [sg3 [d3 [-> [He [Hs3 [N3 D3]]]]]]]] Hsu.
  - cbn [app]. destruct Hsu as [->|[d4 [-> _]]]; [eexists; reflexivity|].
    replace ((40 =? 101) || (40 =? 69)) with false by reflexivity. eexists. reflexivity.
  - cbn [app].
    replace ((e =? 101) || (e =? 69)) with true by (destruct He as [ -> | -> ]; reflexivity).
    destruct (digit_cur_not_sign d3 su N3 D3) as [C1 C2].
    rewrite <- app_assoc.
    destruct (strip_sign_app sg3 (d3 ++ su) Hs3 C1 C2) as [eneg E1]. rewrite E1.
    assert (St : stops su) by (destruct Hsu as [->|[d4 [-> _]]]; reflexivity).
    destruct (scan_digits_app d3 su 0 0 D3 St) as [exv E2]. rewrite E2.
    destruct d3; [contradiction|]. simpl length.
    replace (0 + Z.of_nat (S (length d3)) =? 0) with false by (symmetry; apply Z.eqb_neq; lia).
    eexists. reflexivity.
Qed.

Theorem render_is_cif_numb : forall sg d1 dot d2 ex su,
  is_sign sg -> digits d1 -> digits d2 -> (dot = false -> d2 = []) -> (d1 <> [] \/ d2 <> []) -> is_exp ex -> is_su su ->
  is_cif_numb (render sg d1 dot d2 ex su) = true.
Proof.
  intros sg d1 dot d2 ex su Hsg Hd1 Hd2 Hdot Hany Hex Hsu.
  unfold is_cif_numb, cif_value.
  assert (N : exists dd, cif_number (render sg d1 dot d2 ex su) = Some (dd, su)).
  { unfold cif_number, render.
    assert (Tst : stops ((if dot then 46 :: d2 else []) ++ ex ++ su)).
    { destruct dot; [reflexivity|]. cbn [app]. apply exsu_stops; assumption. }
    assert (C : cur (d1 ++ (if dot then 46 :: d2 else []) ++ ex ++ su) <> 43 /\
                cur (d1 ++ (if dot then 46 :: d2 else []) ++ ex ++ su) <> 45).
    { destruct d1 as [|c t].
      - assert (dot = true).
        { destruct dot; [reflexivity|]. destruct Hany as [H|H]; [contradiction|]. rewrite (Hdot eq_refl) in H. contradiction. }
        subst dot. cbn [app cur]. lia.
      - apply digit_cur_not_sign; [discriminate|exact Hd1]. }
    destruct C as [C1 C2].
    destruct (strip_sign_app sg _ Hsg C1 C2) as [neg E1]. rewrite E1.
    destruct (scan_digits_app d1 _ 0 0 Hd1 Tst) as [ip E2]. rewrite E2.
    destruct dot.
    - cbn [app]. replace (46 =? 46) with true by reflexivity.
      destruct (scan_digits_app d2 (ex ++ su) ip 0 Hd2 (exsu_stops ex su Hex Hsu)) as [m E3]. rewrite E3.
      assert (NZ : (0 + Z.of_nat (length d1) + (0 + Z.of_nat (length d2)) =? 0) = false).
      { apply Z.eqb_neq. destruct Hany as [H|H]; [destruct d1|destruct d2]; try contradiction; simpl length; lia. }
      rewrite NZ. apply exp_tail; assumption.
    - rewrite (Hdot eq_refl) in *. cbn [app].
      assert (NZ : (0 + Z.of_nat (length d1) + 0 =? 0) = false).
      { apply Z.eqb_neq. destruct Hany as [H|H]; [|contradiction]. destruct d1; [contradiction|]. simpl length. lia. }
      destruct (exp_tail neg ip 0 ex su Hex Hsu) as [dd P]. exists dd.
      remember (ex ++ su) as s3 eqn:Es3.
      destruct s3 as [|c t].
      + cbv beta iota zeta. rewrite NZ. exact P.
      + assert (Nc : c <> 46).
        { destruct Hex as [->|[e [sg3 [d3 [-> [[ -> | -> ] _]]]]]]; cbn [app] in Es3.
          * destruct Hsu as [->|[d4 [-> _]]]; [discriminate|]. injection Es3 as -> _. lia.
          * injection Es3 as -> _. lia.
          * injection Es3 as -> _. lia. }
        destruct (Z.eqb_spec c 46) as [E46|_]; [contradiction|].
        cbv beta iota zeta. rewrite NZ. exact P. }
  destruct N as [dd E]. rewrite E. rewrite (su_is_ok su Hsu). reflexivity.
Qed.
