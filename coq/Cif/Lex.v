(* cif.hpp, namespace rules: the five alternatives of `value` (simunq, singlequoted, doublequoted, textfield,
   unquoted) as a recogniser on a byte list, with PEGTL's `bol` (byte_in_line == 0, reset only by '\n').
   LexNo = the rule does not match (the caller backtracks), LexErr = an if_must<> raises. Executable model only. *)
From GV Require Export Cif.Quote.
Local Open Scope Z_scope.

Inductive lexres := LexOk (tok rest : str) | LexNo | LexErr.

Definition is_ordinary (c : Z) : bool := char_table c =? 1.
Definition is_ws (c : Z) : bool := char_table c =? 2.
Definition is_nonblank (c : Z) : bool := (33 <=? c) && (c <=? 126).
(* what may follow a closing quote: one<' ','\n','\r','\t','#'> or eof *)
Definition is_endq_char (c : Z) : bool := (c =? 32) || (c =? 10) || (c =? 13) || (c =? 9) || (c =? 35).
Definition endq_follow (s : str) : bool := match s with [] => true | c :: _ => is_endq_char c end.

Fixpoint span (p : Z -> bool) (s : str) : str * str :=
  match s with
  | c :: t => if p c then let '(a, r) := span p t in (c :: a, r) else ([], s)
  | [] => ([], [])
  end.

(* simunq: plus<ordinary_char>, at<ws_char> *)
Definition lex_simunq (s : str) : lexres :=
  let '(a, r) := span is_ordinary s in
  if is_nil a then LexNo
  else match r with c :: _ => if is_ws c then LexOk a r else LexNo | [] => LexNo end.

(* until<endq<Q>, not_one<'\n'>> after the opening quote *)
Fixpoint quoted_tail (q : Z) (s acc : str) : option (str * str) :=
  match s with
  | [] => None
  | c :: t => if (c =? q) && endq_follow t then Some (rev (c :: acc), t)
              else if c =? 10 then None
              else quoted_tail q t (c :: acc)
  end.
Definition lex_quoted (q : Z) (s : str) : lexres :=
  match s with
  | c :: t => if c =? q
              then match quoted_tail q t [] with Some (body, rest) => LexOk (q :: body) rest | None => LexErr end
              else LexNo
  | [] => LexNo
  end.

(* until<field_sep> after the opening ';' ; field_sep = seq<bol, one<';'>> *)
Fixpoint text_tail (bol : bool) (s acc : str) : option (str * str) :=
  match s with
  | [] => None
  | c :: t => if bol && (c =? 59) then Some (rev (c :: acc), t)
              else text_tail (c =? 10) t (c :: acc)
  end.
Definition lex_textfield (bol : bool) (s : str) : lexres :=
  match s with
  | c :: t => if bol && (c =? 59)
              then match text_tail false t [] with Some (body, rest) => LexOk (59 :: body) rest | None => LexErr end
              else LexNo
  | [] => LexNo
  end.

(* TAOCPP_PEGTL_ISTRING: letters compared with |0x20, other characters exactly *)
Definition lower (c : Z) : Z := if (65 <=? c) && (c <=? 90) then c + 32 else c.
Fixpoint istarts_with (kw s : str) : bool :=
  match kw, s with
  | [], _ => true
  | k :: kt, c :: t => (lower c =? k) && istarts_with kt t
  | _ :: _, [] => false
  end.
Definition kw_data : str := [100;97;116;97;95].
Definition kw_loop : str := [108;111;111;112;95].
Definition kw_global : str := [103;108;111;98;97;108;95].
Definition kw_save : str := [115;97;118;101;95].
Definition kw_stop : str := [115;116;111;112;95].
Definition at_keyword (s : str) : bool :=
  istarts_with kw_data s || istarts_with kw_loop s || istarts_with kw_global s ||
  istarts_with kw_save s || istarts_with kw_stop s.

(* unquoted: not_at<keyword>, not_at<one<'_','$','#'>>, plus<nonblank_ch> *)
Definition lex_unquoted (s : str) : lexres :=
  if at_keyword s then LexNo
  else match s with
       | c :: _ => if (c =? 95) || (c =? 36) || (c =? 35) then LexNo
                   else let '(a, r) := span is_nonblank s in
                        if is_nil a then LexNo else LexOk a r
       | [] => LexNo
       end.

(* value = sor<simunq, singlequoted, doublequoted, textfield, unquoted> *)
Definition lex_value (bol : bool) (s : str) : lexres :=
  match lex_simunq s with
  | LexNo =>
    match lex_quoted 39 s with
    | LexNo =>
      match lex_quoted 34 s with
      | LexNo =>
        match lex_textfield bol s with
        | LexNo => lex_unquoted s
        | r => r
        end
      | r => r
      end
    | r => r
    end
  | r => r
  end.

(* ---- raw values as the parser stores them: the five lexical classes *)
Inductive vclass := CSimple | CSingle | CDouble | CText | CUnquoted.

(* body of a quoted string followed by the closing delimiter q: no line feed, and a delimiter inside is not
   followed by a character that would end the string *)
Fixpoint quoted_body_ok (q : Z) (body : str) : bool :=
  match body with
  | [] => true
  | c :: t => negb (c =? 10) &&
              (if c =? q then negb (is_endq_char (match t with [] => q | d :: _ => d end)) else true) &&
              quoted_body_ok q t
  end.
(* body of a text field (between the opening ';' and the final "\n;"): no ';' right after a line feed *)
Fixpoint text_body_ok (bol : bool) (body : str) : bool :=
  match body with
  | [] => true
  | c :: t => negb (bol && (c =? 59)) && text_body_ok (c =? 10) t
  end.

Definition split_last (v : str) : str * Z := (removelast v, last v 0).

Definition wf_class (v : str) : option vclass :=
  match v with
  | [] => None
  | c :: t =>
    if all_ordinary v then Some CSimple
    else if (c =? 39) || (c =? 34) then
      (match t with
       | [] => None
       | _ => if (last t 0 =? c) && quoted_body_ok c (removelast t)
              then Some (if c =? 39 then CSingle else CDouble) else None
       end)
    else if (c =? 59) && (2 <=? len t) && (last t 0 =? 59) && (last (removelast t) 0 =? 10)
            && text_body_ok false (removelast (removelast t))
    then Some CText
    else if forallb is_nonblank v && negb (at_keyword v) && negb ((c =? 95) || (c =? 36) || (c =? 35))
    then Some CUnquoted
    else None
  end.

(* where the writer may put the value: a text field only at the beginning of a line, any other value that
   starts with ';' only elsewhere *)
Definition start_ok (bol : bool) (cl : vclass) (v : str) : bool :=
  match cl with
  | CText => bol
  | _ => negb (bol && (cur v =? 59))
  end.
