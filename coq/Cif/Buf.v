(* to_cif.hpp: BufOstream as a state machine. The state is what has reached the std::ostream
   (`emitted`) and the content of buf[0 .. ptr-buf) (`pending`); ptr - buf = len pending.
   Operations exactly as coded: write (flushes when the data does not fit below the margin
   sizeof(buf)-512, bypasses the buffer for len > margin), put (unchecked), pad (chunked: fills up to
   the margin and flushes while the padding does not fit), flush (destructor).
   `peak` is the largest value ptr-buf takes while the operation runs. Executable model only. *)
From GV Require Export Cif.Write.
Local Open Scope Z_scope.

Definition BUFSZ := 4096.
Definition MARGIN := 3584.     (* sizeof(buf) - 512 *)

(* ---- position-only machine *)
Definition pad_end (p n : Z) : Z :=
  if p + n <=? MARGIN then p + n
  else let n1 := n - Z.max 0 (MARGIN - p) in      (* what is left after the first flush, >= 1 *)
       n1 - ((n1 - 1) / MARGIN) * MARGIN.         (* whole chunks of MARGIN are flushed *)

Definition step (p : Z) (x : op) : Z :=
  match x with
  | OWrite s => let n := len s in
                if MARGIN <? p + n then (if MARGIN <? n then 0 else n) else p + n
  | OPut _ => p + 1
  | OPad n => pad_end p n
  end.

Definition peak (p : Z) (x : op) : Z :=
  match x with
  | OWrite s => let n := len s in
                if MARGIN <? p + n then (if MARGIN <? n then p else Z.max p n) else p + n
  | OPut _ => p + 1
  | OPad n => if p + n <=? MARGIN then p + n else Z.max p MARGIN
  end.

Fixpoint run (p : Z) (l : list op) : Z :=
  match l with [] => p | x :: t => run (step p x) t end.

(* positions after each operation (what the harness reads off the real object) *)
Fixpoint positions (p : Z) (l : list op) : list Z :=
  match l with [] => [] | x :: t => step p x :: positions (step p x) t end.

(* every prefix of the trace keeps ptr inside the buffer *)
Fixpoint in_bounds (p : Z) (l : list op) : bool :=
  match l with
  | [] => true
  | x :: t => (0 <=? p) && (peak p x <=? BUFSZ) && in_bounds (step p x) t
  end.

(* ---- machine with contents *)
Record bstate := mkB { emitted : str; pending : str }.

Definition flush (st : bstate) : bstate := mkB (emitted st ++ pending st) [].

Definition spaces (n : Z) : str := repeat sp (Z.to_nat n).

Definition bstep (st : bstate) (x : op) : bstate :=
  match x with
  | OWrite s =>
      if MARGIN <? len (pending st) + len s
      then (if MARGIN <? len s then mkB (emitted st ++ pending st ++ s) []
            else mkB (emitted st ++ pending st) s)
      else mkB (emitted st) (pending st ++ s)
  | OPut c => mkB (emitted st) (pending st ++ [c])
  | OPad n =>
      let p := len (pending st) in
      if p + n <=? MARGIN then mkB (emitted st) (pending st ++ spaces n)
      else let k := Z.max 0 (MARGIN - p) in
           let n1 := n - k in
           let q := (n1 - 1) / MARGIN in
           mkB (emitted st ++ pending st ++ spaces k ++ spaces (q * MARGIN)) (spaces (n1 - q * MARGIN))
  end.

Fixpoint brun (st : bstate) (l : list op) : bstate :=
  match l with [] => st | x :: t => brun (bstep st x) t end.

(* BufOstream os(os_); ...ops...; ~BufOstream() *)
Definition buffered_output (l : list op) : str := emitted (flush (brun (mkB [] []) l)).
