(* to_cif.hpp: the CIF writer as the sequence of BufOstream operations it issues (write / put / pad),
   as coded. The written bytes are the concatenation of what each operation emits; the buffer position
   is followed in Buf.v on the very same operation list. Executable model only. *)
From GV Require Export Cif.Quote.
Local Open Scope Z_scope.

Inductive op :=
| OWrite (s : str)     (* os.write(s, len) / os << s *)
| OPut (c : Z)         (* os.put(c) *)
| OPad (n : Z).        (* os.pad(n) *)

Record opts := mkOpts {
  prefer_pairs : bool; compact : bool; misuse_hash : bool;
  align_pairs : Z; align_loops : Z }.

(* cif::Item (Comment carries pair[1]; Frame carries a Block: name + items) *)
Inductive item :=
| Pair (tag value : str)
| Loop (tags values : list str)
| Frame (name : str) (items : list item)
| Comment (text : str)
| Erased.

Record block := mkBlock { bname : str; bitems : list item }.
Definition doc := list block.

Definition is_nil_l {A} (l : list A) : bool := match l with [] => true | _ => false end.
Definition len_l {A} (l : list A) : Z := Z.of_nat (length l).

Definition nl := 10.
Definition sp := 32.
Definition s_loop : str := [108;111;111;112;95].           (* "loop_" *)
Definition s_save : str := [115;97;118;101;95].            (* "save_" *)
Definition s_save_nl : str := [115;97;118;101;95;10].      (* "save_\n" *)
Definition s_data : str := [100;97;116;97;95].             (* "data_" *)
Definition s_hash_nl : str := [35;10].                     (* "#\n" *)
Definition s_global : str := [103;108;111;98;97;108;95].   (* "global_" *)

(* write_text_field: one os.write per stretch between "\r\n" occurrences; the search restarts at the
   '\n' of the pair found, i.e. exactly the '\r's directly followed by '\n' are left out. *)
Fixpoint text_segments (v acc : str) : list str :=
  match v with
  | [] => [rev acc]
  | c :: t => if (c =? 13) && (cur t =? 10) && negb (is_nil t)
              then rev acc :: text_segments t []
              else text_segments t (c :: acc)
  end.
Definition write_text_field_ops (v : str) : list op := map OWrite (text_segments v []).

Definition write_out_pair_ops (o : opts) (name value : str) : list op :=
  OWrite name ::
  (if is_text_field value then OPut nl :: write_text_field_ops value
   else (if 120 <? len name + len value
         then OPut nl :: (if cur value =? 59 then [OPut sp] else [])
         else OPut sp :: (if len name <? align_pairs o then [OPad (align_pairs o - len name)] else []))
        ++ [OWrite value])
  ++ [OPut nl].

Fixpoint set_nth (l : list Z) (i : nat) (x : Z) : list Z :=
  match l, i with
  | [], _ => []
  | _ :: t, O => x :: t
  | h :: t, S j => h :: set_nth t j x
  end.

(* first pass of write_out_loop: running maxima of value sizes per column (text fields skipped) *)
Fixpoint col_width_scan (ncol : nat) (vals : list str) (col : nat) (w : list Z) : list Z :=
  match vals with
  | [] => w
  | v :: t =>
    let w' := if is_text_field v then w else set_nth w col (Z.max (nth col w 0) (len v)) in
    col_width_scan ncol t (if (S col =? ncol)%nat then O else S col) w'
  end.
Definition col_widths (o : opts) (ncol : nat) (vals : list str) : list Z :=
  if 0 <? align_loops o
  then map (fun w => Z.min w (align_loops o)) (col_width_scan ncol vals O (repeat 0 ncol))
  else repeat 0 ncol.

Fixpoint loop_values_ops (ncol : nat) (cw : list Z) (vals : list str) (col : nat) (need_nl : bool)
  : list op :=
  match vals with
  | [] => []
  | v :: t =>
    let tf := is_text_field v in
    OPut (if need_nl || tf then nl else sp) ::
    (if need_nl && negb tf && (cur v =? 59) then [OPut sp] else []) ++
    (if tf then write_text_field_ops v else [OWrite v]) ++
    (if negb (col =? ncol - 1)%nat
     then (if len v <? nth col cw 0 then [OPad (nth col cw 0 - len v)] else [])
          ++ loop_values_ops ncol cw t (S col) tf
     else loop_values_ops ncol cw t O true)
  end.

Fixpoint pairs_ops (o : opts) (tags vals : list str) : list op :=
  match tags, vals with
  | tg :: tgs, v :: vt => write_out_pair_ops o tg v ++ pairs_ops o tgs vt
  | _, _ => []
  end.

(* precondition of the code (not checked there): a loop with values has at least one tag *)
Definition write_out_loop_ops (o : opts) (tags vals : list str) : list op :=
  if is_nil_l vals then []
  else if prefer_pairs o && (len_l vals / len_l tags =? 1) then pairs_ops o tags vals
  else OWrite s_loop :: flat_map (fun tg => [OPut nl; OWrite tg]) tags
       ++ loop_values_ops (length tags) (col_widths o (length tags) vals) vals O true
       ++ [OPut nl].

Fixpoint item_ops (o : opts) (it : item) : list op :=
  match it with
  | Pair n v => write_out_pair_ops o n v
  | Loop tags vals => write_out_loop_ops o tags vals
  | Frame name items =>
      OWrite s_save :: OWrite name :: OPut nl :: flat_map (item_ops o) items ++ [OWrite s_save_nl]
  | Comment t => [OWrite t; OPut nl]
  | Erased => []
  end.

Fixpoint find_char (c : Z) (s : str) (i : Z) : option Z :=
  match s with [] => None | x :: t => if x =? c then Some i else find_char c t (i + 1) end.
Definition opt_z_eqb (a b : option Z) : bool :=
  match a, b with Some x, Some y => x =? y | None, None => true | _, _ => false end.

Definition should_be_separated (a b : item) : bool :=
  match a, b with
  | Comment _, _ => false
  | _, Comment _ => false
  | Pair an _, Pair bn _ =>
      match find_char 46 an 0 with
      | None => false
      | Some adot =>
          negb (opt_z_eqb (Some adot) (find_char 46 bn 0))
          || negb (str_eqb (firstn (Z.to_nat adot) an) (firstn (Z.to_nat adot) bn))
      end
  | _, _ => true
  end.

(* items for which write_cif_block_to_stream does nothing: erased ones and loops without values *)
Definition is_skipped (it : item) : bool :=
  match it with Erased => true | Loop _ vals => is_nil_l vals | _ => false end.

Fixpoint items_ops (o : opts) (prev : option item) (items : list item) : list op :=
  match items with
  | [] => []
  | it :: t =>
    if is_skipped it then items_ops o prev t
    else (match prev with
          | Some p => if negb (compact o) && should_be_separated p it
                      then (if misuse_hash o then [OPut 35] else []) ++ [OPut nl] else []
          | None => []
          end) ++ item_ops o it ++ items_ops o (Some it) t
  end.

(* write_cif_block_to_stream: one BufOstream per block *)
Definition block_ops (o : opts) (b : block) : list op :=
  (if is_nil (bname b) then [OWrite s_global] else [OWrite s_data; OWrite (bname b)]) ++
  OPut nl ::
  (if misuse_hash o then [OWrite s_hash_nl] else []) ++
  items_ops o None (bitems b) ++
  (if misuse_hash o then [OWrite s_hash_nl] else []).

Definition op_bytes (x : op) : str :=
  match x with
  | OWrite s => s
  | OPut c => [c]
  | OPad n => repeat sp (Z.to_nat n)
  end.
Definition ops_bytes (l : list op) : str := flat_map op_bytes l.

(* write_cif_to_stream: blocks separated by one '\n' put directly on the std::ostream *)
Fixpoint doc_bytes_from (o : opts) (first : bool) (d : doc) : str :=
  match d with
  | [] => []
  | b :: t => (if first then [] else [nl]) ++ ops_bytes (block_ops o b) ++ doc_bytes_from o false t
  end.
Definition write_cif (o : opts) (d : doc) : str := doc_bytes_from o true d.
