(* Proofs about cifdoc.hpp quote / as_string: the exact condition under which quoting is lossless. *)
From Coq Require Import Lia.
From GV Require Import Cif.CharTable_gen Cif.Quote.
Local Open Scope Z_scope.

(* facts read off the regenerated table *)
Lemma ct_dq : char_table 34 = 0. Proof. reflexivity. Qed.
Lemma ct_sq : char_table 39 = 0. Proof. reflexivity. Qed.
Lemma ct_semi : char_table 59 = 0. Proof. reflexivity. Qed.
Lemma ct_table_length : length char_table_list = 256%nat. Proof. reflexivity. Qed.

(* quote() leaves the value bare *)
Definition stays_bare (v : str) : bool := all_ordinary v && negb (is_nil v) && negb (is_null v).
(* quote() wraps the value as a text field *)
Definition uses_semicolon (v : str) : bool := negb (stays_bare v) && (quote_char v =? 59).

(* the side condition: a value that has to become a text field must not end with CR *)
Definition cr_tail_ok (s : str) : Prop := uses_semicolon s = true -> last s 0 <> 13.

Lemma nth_last_z : forall (s : str) d, s <> [] -> nth (length s - 1) s d = last s d.
Proof.
  induction s as [|a s IH]; intros d H; [congruence|].
  destruct s as [|b s']; [reflexivity|].
  replace (Nat.sub (length (a :: b :: s')) 1) with (S (Nat.sub (length (b :: s')) 1)) by (simpl; lia).
  change (nth (Nat.sub (length (b :: s')) 1) (b :: s') d = last (b :: s') d).
  apply IH; congruence.
Qed.

Lemma quote_char_cases : forall v, quote_char v = 39 \/ quote_char v = 34 \/ quote_char v = 59.
Proof.
  intro v; unfold quote_char.
  destruct (memb 10 v); [auto|]. destruct (memb 39 v); simpl; [|auto].
  destruct (memb 34 v); simpl; auto.
Qed.

Lemma is_null_long : forall a b (t : str), is_null (a :: b :: t) = false.
Proof. reflexivity. Qed.

Lemma bare_as_string : forall s, stays_bare s = true -> as_string s = Some s.
Proof.
  intros s H. unfold stays_bare in H.
  apply andb_prop in H; destruct H as [H Hnn]. apply andb_prop in H; destruct H as [Hall Hne].
  destruct s as [|c t]; [discriminate|].
  unfold as_string. apply negb_true_iff in Hnn. rewrite Hnn.
  simpl in Hall. apply andb_prop in Hall; destruct Hall as [Hc _]. apply Z.eqb_eq in Hc.
  assert (c <> 34) by (intro; subst; rewrite ct_dq in Hc; discriminate).
  assert (c <> 39) by (intro; subst; rewrite ct_sq in Hc; discriminate).
  assert (c <> 59) by (intro; subst; rewrite ct_semi in Hc; discriminate).
  destruct (Z.eqb_spec c 34); [contradiction|]. destruct (Z.eqb_spec c 39); [contradiction|].
  destruct (Z.eqb_spec c 59); [contradiction|]. reflexivity.
Qed.

Lemma from_end2_semi : forall s, from_end 2 (59 :: s ++ [10; 59]) = 10.
Proof.
  intro s. unfold from_end.
  replace (Nat.sub (length (59 :: s ++ [10; 59])) 2) with (S (length s))
    by (simpl; rewrite app_length; simpl; lia).
  simpl. rewrite app_nth2 by lia. rewrite Nat.sub_diag. reflexivity.
Qed.

Lemma from_end3_semi : forall s, from_end 3 (59 :: s ++ [10; 59]) = match s with [] => 59 | _ => last s 0 end.
Proof.
  intro s. unfold from_end.
  replace (Nat.sub (length (59 :: s ++ [10; 59])) 3) with (length s)
    by (simpl; rewrite app_length; simpl; lia).
  destruct s as [|a s']; [reflexivity|].
  change (nth (length (a :: s')) (59 :: (a :: s') ++ [10; 59]) 0) with (nth (length s') ((a :: s') ++ [10; 59]) 0).
  rewrite app_nth1 by (simpl; lia).
  rewrite <- (nth_last_z (a :: s') 0) by congruence.
  simpl. rewrite Nat.sub_0_r. reflexivity.
Qed.

Lemma firstn_app_exact : forall (s u : str) n, n = length s -> firstn n (s ++ u) = s.
Proof.
  intros s u n ->. rewrite firstn_app, Nat.sub_diag, firstn_all. simpl. apply app_nil_r.
Qed.

Lemma semi_as_string : forall s,
  as_string (59 :: s ++ [10; 59]) =
  Some (if (match s with [] => 59 | _ => last s 0 end) =? 13 then removelast s else s).
Proof.
  intro s. unfold as_string.
  assert (Hn : is_null (59 :: s ++ [10; 59]) = false) by (destruct s; reflexivity).
  rewrite Hn. change ((59 =? 34) || (59 =? 39)) with false. cbv iota.
  assert (Hl : (2 <? len (59 :: s ++ [10; 59])) = true).
  { apply Z.ltb_lt. unfold len. simpl length. rewrite app_length. simpl. lia. }
  rewrite Hl, from_end2_semi, from_end3_semi. change ((59 =? 59) && true && (10 =? 10)) with true. cbv iota.
  f_equal. rewrite app_length. simpl length.
  destruct (Z.eqb_spec (match s with [] => 59 | _ => last s 0 end) 13) as [E|E].
  - destruct s as [|a s'] using rev_ind; [discriminate|].
    rewrite removelast_last. rewrite <- app_assoc. apply firstn_app_exact.
    rewrite app_length. simpl. lia.
  - apply firstn_app_exact. lia.
Qed.

(* as_string (quote s) = s under the side condition *)
Lemma quote_as_string_ok : forall s, cr_tail_ok s -> as_string (quote s) = Some s.
Proof.
  intros s Hcr. unfold quote. fold (stays_bare s).
  destruct (stays_bare s) eqn:Hb; [apply bare_as_string; exact Hb|].
  destruct (quote_char_cases s) as [Q|[Q|Q]]; rewrite Q.
  - change (39 =? 59) with false. cbv iota. unfold as_string.
    assert (Hn : is_null (39 :: s ++ [39]) = false) by (destruct s; reflexivity).
    rewrite Hn. change ((39 =? 34) || (39 =? 39)) with true. cbv iota.
    destruct (s ++ [39]) eqn:E; [apply app_eq_nil in E; destruct E; discriminate|]. rewrite <- E, removelast_last. reflexivity.
  - change (34 =? 59) with false. cbv iota. unfold as_string.
    assert (Hn : is_null (34 :: s ++ [34]) = false) by (destruct s; reflexivity).
    rewrite Hn. change ((34 =? 34) || (34 =? 39)) with true. cbv iota.
    destruct (s ++ [34]) eqn:E; [apply app_eq_nil in E; destruct E; discriminate|]. rewrite <- E, removelast_last. reflexivity.
  - change (59 =? 59) with true. cbv iota. rewrite semi_as_string.
    assert (Hu : uses_semicolon s = true) by (unfold uses_semicolon; rewrite Hb, Q; reflexivity).
    specialize (Hcr Hu).
    destruct s as [|a s']; [reflexivity|].
    destruct (Z.eqb_spec (last (a :: s') 0) 13); [contradiction|reflexivity].
Qed.

(* ... and only then: otherwise the final CR is lost *)
Lemma quote_as_string_cr_lost : forall s, ~ cr_tail_ok s -> s <> [] /\ as_string (quote s) = Some (removelast s).
Proof.
  intros s Hcr.
  destruct (uses_semicolon s) eqn:Hu.
  2:{ exfalso; apply Hcr; intro H0; rewrite Hu in H0; discriminate. }
  assert (Hl : last s 0 = 13).
  { destruct (Z.eq_dec (last s 0) 13); [assumption|]. exfalso; apply Hcr; intros _; assumption. }
  unfold uses_semicolon in Hu. apply andb_prop in Hu; destruct Hu as [Hb Q].
  apply negb_true_iff in Hb. apply Z.eqb_eq in Q.
  assert (Hne : s <> []) by (intro; subst; discriminate).
  split; [exact Hne|].
  unfold quote. fold (stays_bare s). rewrite Hb, Q. change (59 =? 59) with true. cbv iota.
  rewrite semi_as_string. destruct s as [|a s']; [congruence|]. rewrite Hl. reflexivity.
Qed.

Lemma removelast_neq : forall (s : str), s <> [] -> removelast s <> s.
Proof.
  intros s H E. apply (f_equal (@length Z)) in E.
  destruct s as [|a s'] using rev_ind; [congruence|].
  rewrite removelast_last, app_length in E. simpl in E. lia.
Qed.

Lemma quote_as_string_iff : forall s, as_string (quote s) = Some s <-> cr_tail_ok s.
Proof.
  intro s; split; [|apply quote_as_string_ok].
  intros H Hu Hl.
  assert (N : ~ cr_tail_ok s) by (intro C; exact (C Hu Hl)).
  destruct (quote_as_string_cr_lost s N) as [Hne E]. rewrite E in H. inversion H as [H1].
  exact (removelast_neq s Hne H1).
Qed.

(* the witness: "a\nb\r" *)
Lemma quote_cr_witness : as_string (quote [97; 10; 98; 13]) = Some [97; 10; 98].
Proof. reflexivity. Qed.

(* a single quote character as a value: the code builds std::string(begin+1, end-1) with begin+1 > end-1 *)
Lemma as_string_lone_quote : as_string [39] = None /\ as_string [34] = None.
Proof. split; reflexivity. Qed.
