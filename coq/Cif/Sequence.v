(* From "every value is placed where the value rule reads it back" (LayoutProofs.placed) to the statement about
   the whole byte sequence: the body of a loop written by write_out_loop - any number of values, any column
   widths, text fields and ';'-values included - is read back by repeated application of the parser's
   white-space and value rules as EXACTLY the list of values that was written, in order, with nothing left over. *)
From Coq Require Import Lia.
From GV Require Import Cif.CharTable_gen Cif.Quote Cif.Write Cif.Lex Cif.Legacy Cif.QuoteProofs Cif.LexProofs Cif.LayoutProofs.
Local Open Scope Z_scope.

(* the parser's whitespace rule between values (no comments are written inside a loop body); returns the
   beginning-of-line state it leaves *)
Fixpoint skip_ws (bol : bool) (s : str) : bool * str :=
  match s with
  | c :: t => if is_ws c then skip_ws (c =? 10) t else (bol, s)
  | [] => (bol, [])
  end.

(* plus< seq< value, ws > >: values until the value rule does not match *)
Fixpoint lex_values (fuel : nat) (bol : bool) (s : str) : list str * str :=
  match fuel with
  | O => ([], s)
  | S f =>
    let '(b, s1) := skip_ws bol s in
    match lex_value b s1 with
    | LexOk v rest => let '(l, r) := lex_values f false rest in (v :: l, r)
    | _ => ([], s1)
    end
  end.

Definition writes (l : list op) : list str :=
  flat_map (fun o => match o with OWrite s => [s] | _ => [] end) l.

(* the separators of the trace are white space, and paddings are not empty *)
Definition sep_ok (o : op) : Prop :=
  match o with OPut c => sepc c | OPad n => 0 < n | OWrite _ => True end.

Lemma lex_values_ws : forall f bol c s, is_ws c = true ->
  lex_values (S f) bol (c :: s) = lex_values (S f) (c =? 10) s.
Proof. intros f bol c s H. cbn [lex_values skip_ws]. rewrite H. reflexivity. Qed.

Lemma lex_values_spaces : forall f n bol s, (0 < n)%nat ->
  lex_values (S f) bol (repeat sp n ++ s) = lex_values (S f) false s.
Proof.
  intros f n. induction n as [|n IH]; intros bol s Hn; [lia|].
  cbn [repeat app]. rewrite lex_values_ws by reflexivity. change (sp =? 10) with false.
  destruct n as [|n']; [reflexivity|]. apply IH. lia.
Qed.

Lemma value_head_not_ws : forall v cl, wf_class v = Some cl -> v <> [] /\ is_ws (cur v) = false.
Proof.
  intros v cl H. pose proof (wf_shape v cl H) as Sh.
  inversion Sh as [v' Hne Ha|body Hb|body Hb|body Hb|c0 t Ha Hnb Hk Hf Hq]; subst.
  - split; [exact Hne|]. destruct v as [|c t]; [congruence|]. cbn [cur].
    cbn [all_ordinary forallb] in Ha. apply andb_prop in Ha. destruct Ha as [Hc _].
    unfold is_ordinary in Hc. unfold is_ws. apply Z.eqb_eq in Hc. rewrite Hc. reflexivity.
  - split; [discriminate|reflexivity].
  - split; [discriminate|reflexivity].
  - split; [discriminate|reflexivity].
  - split; [discriminate|]. cbn [cur]. cbn [forallb] in Hnb. apply andb_prop in Hnb. destruct Hnb as [Hc _].
    destruct (is_ws c0) eqn:E; [|reflexivity]. rewrite (ws_not_nonblank c0 E) in Hc. discriminate.
Qed.

Lemma skip_ws_value : forall bol v cl rest, wf_class v = Some cl -> skip_ws bol (v ++ rest) = (bol, v ++ rest).
Proof.
  intros bol v cl rest H. destruct (value_head_not_ws v cl H) as [Hne Hw].
  destruct v as [|c t]; [congruence|]. cbn [app skip_ws]. cbn [cur] in Hw. rewrite Hw. reflexivity.
Qed.

(* after a value the trace continues with a separator: the bol flag carried over is irrelevant *)
Lemma placed_after_sep : forall P l x y, followed_by_sep l -> placed P x l -> placed P y l.
Proof. intros P l x y H. destruct l as [|[s|c|n] t]; cbn in *; tauto. Qed.

Lemma first_byte_sep : forall l, followed_by_sep l -> Forall sep_ok l ->
  exists c rest, sepc c /\ ops_bytes l = c :: rest.
Proof.
  intros l H Hs. destruct l as [|[s|c|n] t]; cbn in H; try contradiction.
  - exists c, (ops_bytes t). split; [exact H|reflexivity].
  - destruct (Z.to_nat n) as [|m] eqn:E; [lia|].
    exists 32, (repeat sp m ++ ops_bytes t). split; [left; reflexivity|].
    unfold ops_bytes. cbn [flat_map op_bytes]. rewrite E. reflexivity.
Qed.

Theorem placed_trace_relexes : forall l b, Forall sep_ok l -> placed value_ok b l ->
  forall fuel, (length (writes l) < fuel)%nat ->
  lex_values fuel b (ops_bytes l) = (writes l, []).
Proof.
  induction l as [|o t IH]; intros b Hs Hp fuel Hf.
  - destruct fuel as [|f]; [cbn in Hf; lia|]. reflexivity.
  - inversion Hs as [|? ? Ho Ht]; subst. destruct o as [s|c|n].
    + (* a value *)
      cbn [placed] in Hp. destruct Hp as [[cl [Hwf Hst]] [Hfs Hpt]].
      destruct (first_byte_sep t Hfs Ht) as [c [rest [Hc Eb]]].
      destruct fuel as [|f]; [lia|].
      change (ops_bytes (OWrite s :: t)) with (s ++ ops_bytes t).
      cbn [lex_values]. rewrite (skip_ws_value b s cl _ Hwf). rewrite Eb.
      rewrite (value_relex s cl b c rest Hwf Hst Hc). rewrite <- Eb.
      assert (Hf' : (length (writes t) < f)%nat).
      { change (writes (OWrite s :: t)) with (s :: writes t) in Hf. cbn [length] in Hf. lia. }
      rewrite (IH false Ht (placed_after_sep _ _ _ _ Hfs Hpt) f Hf'). reflexivity.
    + (* ' ' or '\n' *)
      cbn [placed] in Hp. cbn in Ho. destruct fuel as [|f]; [lia|].
      change (ops_bytes (OPut c :: t)) with (c :: ops_bytes t).
      rewrite lex_values_ws by (destruct (sepc_facts c Ho) as [_ [W _]]; exact W).
      apply IH; assumption.
    + (* padding *)
      cbn [placed] in Hp. cbn in Ho. destruct fuel as [|f]; [lia|].
      change (ops_bytes (OPad n :: t)) with (repeat sp (Z.to_nat n) ++ ops_bytes t).
      rewrite lex_values_spaces by lia. apply IH; assumption.
Qed.

(* the separators written by loop_values_ops *)
Lemma loop_values_sep_ok : forall ncol cw vals col nn, Forall sep_ok (loop_values_ops ncol cw vals col nn).
Proof.
  intros ncol cw vals. induction vals as [|v t IH]; intros col nn; cbn [loop_values_ops]; [constructor|].
  repeat match goal with
  | |- Forall sep_ok (_ ++ _) => apply Forall_app; split
  | |- Forall sep_ok (_ :: _) => constructor
  | |- Forall sep_ok [] => constructor
  | |- Forall sep_ok (if ?c then _ else _) => destruct c eqn:?
  | |- Forall sep_ok (loop_values_ops _ _ _ _ _) => apply IH
  | |- Forall sep_ok (write_text_field_ops _) => unfold write_text_field_ops; apply Forall_forall; intros x Hx; apply in_map_iff in Hx; destruct Hx as [y [<- _]]; exact I
  | |- sep_ok (OPut (if ?c then _ else _)) => destruct c
  | |- sep_ok (OPut _) => cbn; first [left; reflexivity | right; reflexivity]
  | |- sep_ok (OWrite _) => exact I
  | |- sep_ok (OPad _) => cbn; lia
  end.
Qed.

Lemma writes_app : forall a b, writes (a ++ b) = writes a ++ writes b.
Proof. intros. unfold writes. apply flat_map_app. Qed.

Lemma writes_loop_values : forall ncol cw vals col nn,
  Forall (fun v => is_text_field v = true -> crlf_free v = true) vals ->
  writes (loop_values_ops ncol cw vals col nn) = vals.
Proof.
  intros ncol cw vals. induction vals as [|v t IH]; intros col nn H; cbn [loop_values_ops]; [reflexivity|].
  inversion H as [|? ? Hv Ht]; subst.
  match goal with |- writes (OPut ?c :: ?l) = _ => change (writes (OPut c :: l)) with (writes l) end.
  rewrite !writes_app.
  assert (E1 : writes (if nn && negb (is_text_field v) && (cur v =? 59) then [OPut sp] else []) = []).
  { destruct (nn && negb (is_text_field v) && (cur v =? 59)); reflexivity. }
  assert (E2 : writes (if is_text_field v then write_text_field_ops v else [OWrite v]) = [v]).
  { destruct (is_text_field v) eqn:E; [rewrite (text_field_bytes v (Hv eq_refl))|]; reflexivity. }
  rewrite E1, E2. cbn [app]. f_equal.
  destruct (negb (col =? ncol - 1)%nat).
  - rewrite writes_app. destruct (len v <? nth col cw 0); cbn [app]; [change (writes [OPad (nth col cw 0 - len v)]) with (@nil str)|change (writes []) with (@nil str)]; cbn [app]; apply IH; exact Ht.
  - apply IH; exact Ht.
Qed.

(* THE LOOP BODY ROUND TRIP: all option values, any number of columns and rows *)
Theorem loop_body_roundtrip : forall ncol cw vals,
  Forall wfv vals ->
  lex_values (S (length vals)) true (ops_bytes (loop_values_ops ncol cw vals 0%nat true ++ [OPut nl])) = (vals, []).
Proof.
  intros ncol cw vals Hw.
  assert (Hc : Forall (fun v => is_text_field v = true -> crlf_free v = true) vals).
  { apply Forall_forall. intros v Hv. rewrite Forall_forall in Hw. exact (proj2 (Hw v Hv)). }
  assert (Ew : writes (loop_values_ops ncol cw vals 0%nat true ++ [OPut nl]) = vals).
  { unfold writes. rewrite flat_map_app. cbn [flat_map]. rewrite app_nil_r. apply writes_loop_values. exact Hc. }
  rewrite (placed_trace_relexes _ true).
  - rewrite Ew. reflexivity.
  - apply Forall_app. split; [apply loop_values_sep_ok|constructor; [right; reflexivity|constructor]].
  - apply loop_rows_placed. exact Hw.
  - rewrite Ew. lia.
Qed.
