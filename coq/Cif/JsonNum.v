(* Model of JsonWriter::write_as_number (src/to_json.cpp): a CIF number is re-spelled as a JSON number
   (no leading '+', no bare leading or trailing '.', no leading zeros, no standard uncertainty). *)
From GV Require Export Base.Str.
Local Open Scope Z_scope.

(* while (value[pos] == '0' && isdigit(value[pos+1])) ++pos;   on the suffix that starts at pos *)
Fixpoint skipz (s : str) : str :=
  match s with
  | c :: t => if (c =? 48) && is_digit (cur t) then skipz t else s
  | [] => []
  end.

Fixpoint find_first (c : Z) (s : str) : option nat :=
  match s with
  | [] => None
  | x :: t => if x =? c then Some O else option_map S (find_first c t)
  end.

(* the part of s before the first c (all of s when there is none): substr(pos, find(c, pos) - pos) *)
Fixpoint take_until (c : Z) (s : str) : str :=
  match s with
  | [] => []
  | x :: t => if x =? c then [] else x :: take_until c t
  end.

(* the part of the function after the sign has been dealt with: v = the whole value (for find, back and positions),
   r0 = the suffix at pos, o0 = what has been written so far *)
Definition waj_body (v r0 o0 : str) : str :=
  let o1 := if cur r0 =? 46 then o0 ++ [48] else o0 in
  let r1 := skipz r0 in
  let pos := (length v - length r1)%nat in
  let '(o2, r2) :=
    match find_first 46 v with
    | Some dp => if is_digit (nth (S dp) v 0) then (o1, r1)
                 else (o1 ++ firstn (S dp - pos) r1 ++ [48], skipn (S dp) v)
    | None => (o1, r1)
    end in
  if last v 0 =? 41 then o2 ++ take_until 40 r2 else o2 ++ r2.

Definition write_as_number (v : str) : str :=
  let neg := cur v =? 45 in
  let r0 := if (cur v =? 43) || neg then adv v else v in
  let o0 := if neg then [45] else [] in
  waj_body v r0 o0.

(* ---- the JSON number grammar (RFC 8259): optional minus; 0 or a digit 1-9 followed by digits; optionally a point and
   one or more digits; optionally e or E, an optional sign and one or more digits ---- *)
Fixpoint all_digits (s : str) : bool :=
  match s with [] => true | c :: t => is_digit c && all_digits t end.

Definition json_exp (s : str) : bool :=
  match s with
  | [] => true
  | c :: t => ((c =? 101) || (c =? 69)) &&
              let d := match t with x :: t' => if (x =? 43) || (x =? 45) then t' else t | [] => [] end in
              negb (match d with [] => true | _ => false end) && all_digits d
  end.

(* after the integer part *)
Definition json_frac_exp (s : str) : bool :=
  if cur s =? 46 then
    let t := adv s in let d := skip_while is_digit t in
    negb (Nat.eqb (length d) (length t)) && json_exp d
  else json_exp s.

Definition json_number (s : str) : bool :=
  let s1 := if cur s =? 45 then adv s else s in
  match s1 with
  | [] => false
  | c :: t => if c =? 48 then json_frac_exp t else is_digit c && json_frac_exp (skip_while is_digit t)
  end.
