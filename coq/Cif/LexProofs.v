(* value_relex: a raw value of any of the five lexical classes, written where start_ok allows and followed by
   a blank or a line feed, is lexed by the `value` rule as exactly that value. Then the layout of
   write_out_pair / write_out_loop: every value is written at a place where start_ok holds. *)
From Coq Require Import Lia.
From GV Require Import Cif.CharTable_gen Cif.Quote Cif.Write Cif.Lex Cif.QuoteProofs.
Local Open Scope Z_scope.

Definition sepc (c : Z) : Prop := c = 32 \/ c = 10.

Lemma sepc_facts : forall c, sepc c ->
  is_ordinary c = false /\ is_ws c = true /\ is_nonblank c = false /\ is_endq_char c = true /\ lower c = c.
Proof. intros c [E|E]; subst; repeat split; reflexivity. Qed.

(* table fact: white space is below '!' (checked on the regenerated table, entry by entry) *)
Lemma ws_table_check :
  forallb (fun n => implb (nth n char_table_list 0 =? 2) (Z.of_nat n <? 33)) (seq 0 256) = true.
Proof. vm_cast_no_check (@eq_refl bool true). Qed.

Lemma ws_not_nonblank : forall c, is_ws c = true -> is_nonblank c = false.
Proof.
  intros c H. unfold is_ws, char_table in H. unfold is_nonblank.
  destruct (Z_lt_le_dec c 0) as [Hn|Hp]; [apply andb_false_iff; left; apply Z.leb_gt; lia|].
  destruct (le_lt_dec 256 (Z.to_nat c)) as [Hb|Hs].
  - rewrite nth_overflow in H by (rewrite ct_table_length; exact Hb). discriminate.
  - pose proof (proj1 (forallb_forall _ _) ws_table_check (Z.to_nat c)) as T.
    assert (I : In (Z.to_nat c) (seq 0 256)) by (apply in_seq; lia).
    specialize (T I). cbv beta in T. rewrite H in T. simpl in T. apply Z.ltb_lt in T.
    apply andb_false_iff; left; apply Z.leb_gt; lia.
Qed.

Lemma span_app_stop : forall p (v : str) c rest, forallb p v = true -> p c = false ->
  span p (v ++ c :: rest) = (v, c :: rest).
Proof.
  intros p; induction v as [|x t IH]; intros c rest Hv Hc; simpl.
  - rewrite Hc; reflexivity.
  - simpl in Hv. apply andb_prop in Hv; destruct Hv as [Hx Ht]. rewrite Hx, (IH c rest Ht Hc). reflexivity.
Qed.

(* p fails somewhere inside v: the span stops at an element of v *)
Lemma span_stop_inside : forall p (v tl : str), forallb p v = false ->
  exists a x r, span p (v ++ tl) = (a, x :: r) /\ In x v /\ p x = false.
Proof.
  intros p; induction v as [|y t IH]; intros tl H; simpl in H; [discriminate|].
  simpl. destruct (p y) eqn:Py.
  - simpl in H. destruct (IH tl H) as [a [x [r [E [I Px]]]]]. rewrite E.
    exists (y :: a), x, r. repeat split; [right; exact I|exact Px].
  - exists [], y, (t ++ tl). repeat split; [left; reflexivity|exact Py].
Qed.

(* ---- simunq *)
Lemma relex_simunq : forall v c rest, v <> [] -> all_ordinary v = true -> sepc c ->
  lex_simunq (v ++ c :: rest) = LexOk v (c :: rest).
Proof.
  intros v c rest Hne Hall Hc. destruct (sepc_facts c Hc) as [H1 [H2 _]].
  unfold lex_simunq. rewrite (span_app_stop is_ordinary v c rest Hall H1).
  destruct v; [congruence|]. simpl. rewrite H2. reflexivity.
Qed.

Lemma simunq_no : forall v tl, forallb is_nonblank v = true -> all_ordinary v = false -> lex_simunq (v ++ tl) = LexNo.
Proof.
  intros v tl Hnb Hno. unfold lex_simunq.
  destruct (span_stop_inside is_ordinary v tl Hno) as [a [x [r [E [I Px]]]]]. rewrite E.
  destruct (is_nil a); [reflexivity|].
  pose proof (proj1 (forallb_forall _ _) Hnb x I) as Nx.
  destruct (is_ws x) eqn:W; [|reflexivity]. rewrite (ws_not_nonblank x W) in Nx. discriminate.
Qed.

Lemma simunq_no_head : forall c t, is_ordinary c = false -> lex_simunq (c :: t) = LexNo.
Proof. intros c t H. unfold lex_simunq. simpl. rewrite H. reflexivity. Qed.

(* ---- quoted *)
Lemma quoted_tail_ok : forall q c rest body acc, is_endq_char c = true -> quoted_body_ok q body = true ->
  quoted_tail q (body ++ q :: c :: rest) acc = Some (rev acc ++ body ++ [q], c :: rest).
Proof.
  intros q c rest; induction body as [|x t IH]; intros acc Hc Hb.
  - simpl. rewrite Z.eqb_refl, Hc. reflexivity.
  - simpl in Hb. apply andb_prop in Hb; destruct Hb as [Hb Ht]. apply andb_prop in Hb; destruct Hb as [Hx Hq].
    apply negb_true_iff in Hx.
    change ((x :: t) ++ q :: c :: rest) with (x :: (t ++ q :: c :: rest)). cbn [quoted_tail].
    assert (Hcond : (x =? q) && endq_follow (t ++ q :: c :: rest) = false).
    { destruct (x =? q); [|reflexivity]. simpl. apply negb_true_iff in Hq.
      destruct t as [|d t']; simpl; exact Hq. }
    rewrite Hcond, Hx, (IH (x :: acc) Hc Ht). simpl. rewrite <- app_assoc. reflexivity.
Qed.

Lemma relex_quoted : forall q body c rest, quoted_body_ok q body = true -> sepc c ->
  lex_quoted q ((q :: body ++ [q]) ++ c :: rest) = LexOk (q :: body ++ [q]) (c :: rest).
Proof.
  intros q body c rest Hb Hc. destruct (sepc_facts c Hc) as [_ [_ [_ [He _]]]].
  simpl. rewrite Z.eqb_refl, <- app_assoc. simpl.
  rewrite (quoted_tail_ok q c rest body [] He Hb). reflexivity.
Qed.

(* ---- text field *)
Lemma text_tail_ok : forall r body b acc, text_body_ok b body = true ->
  text_tail b (body ++ 10 :: 59 :: r) acc = Some (rev acc ++ body ++ [10; 59], r).
Proof.
  intros r; induction body as [|x t IH]; intros b acc Hb.
  - simpl. destruct b; simpl; rewrite <- app_assoc; reflexivity.
  - simpl in Hb. apply andb_prop in Hb; destruct Hb as [Hx Ht]. apply negb_true_iff in Hx.
    simpl. rewrite Hx, (IH (x =? 10) (x :: acc) Ht). simpl. rewrite <- app_assoc. reflexivity.
Qed.

Lemma relex_text : forall body rest, text_body_ok false body = true ->
  lex_textfield true ((59 :: body ++ [10; 59]) ++ rest) = LexOk (59 :: body ++ [10; 59]) rest.
Proof.
  intros body rest Hb. simpl. rewrite <- app_assoc. simpl.
  rewrite (text_tail_ok rest body false [] Hb). reflexivity.
Qed.

(* ---- unquoted *)
Lemma istarts_app : forall c rest kw (v : str), forallb (fun k => negb (k =? c)) kw = true -> lower c = c ->
  istarts_with kw (v ++ c :: rest) = istarts_with kw v.
Proof.
  intros c rest; induction kw as [|k kt IH]; intros v Hk Hl; [reflexivity|].
  simpl in Hk. apply andb_prop in Hk; destruct Hk as [Hk1 Hk2].
  destruct v as [|x t]; simpl.
  - rewrite Hl. apply negb_true_iff in Hk1. rewrite Z.eqb_sym, Hk1. reflexivity.
  - rewrite (IH t Hk2 Hl). reflexivity.
Qed.

Lemma at_keyword_app : forall v c rest, sepc c -> at_keyword (v ++ c :: rest) = at_keyword v.
Proof.
  intros v c rest Hc. destruct (sepc_facts c Hc) as [_ [_ [_ [_ Hl]]]]. unfold at_keyword.
  rewrite !istarts_app; try exact Hl; try reflexivity; destruct Hc; subst; reflexivity.
Qed.

Lemma relex_unquoted : forall c0 t c rest, forallb is_nonblank (c0 :: t) = true -> at_keyword (c0 :: t) = false ->
  (c0 =? 95) || (c0 =? 36) || (c0 =? 35) = false -> sepc c ->
  lex_unquoted ((c0 :: t) ++ c :: rest) = LexOk (c0 :: t) (c :: rest).
Proof.
  intros c0 t c rest Hnb Hk Hf Hc. destruct (sepc_facts c Hc) as [_ [_ [Hn _]]].
  unfold lex_unquoted. rewrite at_keyword_app by exact Hc. rewrite Hk.
  change ((c0 :: t) ++ c :: rest) with (c0 :: (t ++ c :: rest)). cbv iota. rewrite Hf.
  change (c0 :: (t ++ c :: rest)) with ((c0 :: t) ++ c :: rest).
  rewrite (span_app_stop is_nonblank (c0 :: t) c rest Hnb Hn). reflexivity.
Qed.

(* ---- structure of well-formed raw values *)
Lemma split_removelast : forall (t : str), t <> [] -> t = removelast t ++ [last t 0].
Proof. intros t H. apply app_removelast_last. exact H. Qed.

Inductive shape : vclass -> str -> Prop :=
| ShSimple : forall v, v <> [] -> all_ordinary v = true -> shape CSimple v
| ShSingle : forall body, quoted_body_ok 39 body = true -> shape CSingle (39 :: body ++ [39])
| ShDouble : forall body, quoted_body_ok 34 body = true -> shape CDouble (34 :: body ++ [34])
| ShText : forall body, text_body_ok false body = true -> shape CText (59 :: body ++ [10; 59])
| ShUnq : forall c0 t, all_ordinary (c0 :: t) = false -> forallb is_nonblank (c0 :: t) = true ->
    at_keyword (c0 :: t) = false -> (c0 =? 95) || (c0 =? 36) || (c0 =? 35) = false ->
    (c0 =? 39) || (c0 =? 34) = false -> shape CUnquoted (c0 :: t).

Lemma wf_shape : forall v cl, wf_class v = Some cl -> shape cl v.
Proof.
  intros v cl H. destruct v as [|c t]; [discriminate|]. unfold wf_class in H.
  destruct (all_ordinary (c :: t)) eqn:Ha.
  { inversion H; subst. constructor; [discriminate|exact Ha]. }
  destruct ((c =? 39) || (c =? 34)) eqn:Hq.
  { destruct t as [|t0 t'] eqn:Et; [discriminate|]. rewrite <- Et in *.
    assert (Hne : t <> []) by (subst; discriminate).
    destruct ((last t 0 =? c) && quoted_body_ok c (removelast t)) eqn:Hc; [|discriminate].
    apply andb_prop in Hc; destruct Hc as [Hl Hb]. apply Z.eqb_eq in Hl.
    rewrite (split_removelast t Hne), Hl.
    destruct (Z.eqb_spec c 39) as [E|E].
    - inversion H; subst cl. rewrite E in *. apply ShSingle. exact Hb.
    - inversion H; subst cl. simpl in Hq. apply Z.eqb_eq in Hq. rewrite Hq in *. apply ShDouble. exact Hb. }
  destruct ((c =? 59) && (2 <=? len t) && (last t 0 =? 59) && (last (removelast t) 0 =? 10)
            && text_body_ok false (removelast (removelast t))) eqn:Ht.
  { inversion H; subst cl.
    apply andb_prop in Ht; destruct Ht as [Ht Hb]. apply andb_prop in Ht; destruct Ht as [Ht H10].
    apply andb_prop in Ht; destruct Ht as [Ht H59]. apply andb_prop in Ht; destruct Ht as [Hc Hl].
    apply Z.eqb_eq in Hc, H59, H10. apply Z.leb_le in Hl. subst c.
    assert (Hne : t <> []) by (intro; subst; unfold len in Hl; simpl in Hl; lia).
    assert (Hne2 : removelast t <> []).
    { intro E. rewrite (split_removelast t Hne), E in Hl. unfold len in Hl. simpl in Hl. lia. }
    rewrite (split_removelast t Hne), H59. rewrite (split_removelast (removelast t) Hne2), H10.
    rewrite <- app_assoc. simpl. constructor. exact Hb. }
  destruct (forallb is_nonblank (c :: t) && negb (at_keyword (c :: t))
            && negb ((c =? 95) || (c =? 36) || (c =? 35))) eqn:Hu; [|discriminate].
  inversion H; subst cl.
  apply andb_prop in Hu; destruct Hu as [Hu Hf]. apply andb_prop in Hu; destruct Hu as [Hnb Hk].
  apply negb_true_iff in Hk, Hf. constructor; assumption.
Qed.

(* ---- the core lemma *)
Theorem value_relex : forall v cl bol c rest,
  wf_class v = Some cl -> start_ok bol cl v = true -> sepc c ->
  lex_value bol (v ++ c :: rest) = LexOk v (c :: rest).
Proof.
  intros v cl bol c rest Hwf Hs Hc. pose proof (wf_shape v cl Hwf) as Sh.
  unfold lex_value. inversion Sh as [v' Hne Ha|body Hb|body Hb|body Hb|c0 t Ha Hnb Hk Hf Hq]; subst.
  - rewrite (relex_simunq v c rest Hne Ha Hc). reflexivity.
  - change ((39 :: body ++ [39]) ++ c :: rest) with (39 :: ((body ++ [39]) ++ c :: rest)).
    rewrite simunq_no_head by reflexivity.
    change (39 :: ((body ++ [39]) ++ c :: rest)) with ((39 :: body ++ [39]) ++ c :: rest).
    rewrite (relex_quoted 39 body c rest Hb Hc). reflexivity.
  - change ((34 :: body ++ [34]) ++ c :: rest) with (34 :: ((body ++ [34]) ++ c :: rest)).
    rewrite simunq_no_head by reflexivity.
    change (lex_quoted 39 (34 :: ((body ++ [34]) ++ c :: rest))) with LexNo. cbv iota.
    change (34 :: ((body ++ [34]) ++ c :: rest)) with ((34 :: body ++ [34]) ++ c :: rest).
    rewrite (relex_quoted 34 body c rest Hb Hc). reflexivity.
  - simpl in Hs. subst bol.
    change ((59 :: body ++ [10; 59]) ++ c :: rest) with (59 :: ((body ++ [10; 59]) ++ c :: rest)).
    rewrite simunq_no_head by reflexivity.
    change (lex_quoted 39 (59 :: ((body ++ [10; 59]) ++ c :: rest))) with LexNo.
    change (lex_quoted 34 (59 :: ((body ++ [10; 59]) ++ c :: rest))) with LexNo. cbv iota.
    change (59 :: ((body ++ [10; 59]) ++ c :: rest)) with ((59 :: body ++ [10; 59]) ++ c :: rest).
    rewrite (relex_text body (c :: rest) Hb). reflexivity.
  - rewrite (simunq_no (c0 :: t) (c :: rest) Hnb Ha).
    apply orb_false_iff in Hq; destruct Hq as [Q1 Q2].
    change ((c0 :: t) ++ c :: rest) with (c0 :: (t ++ c :: rest)).
    unfold lex_quoted at 1. rewrite Q1. unfold lex_quoted at 1. rewrite Q2.
    unfold lex_textfield. simpl in Hs. apply negb_true_iff in Hs. rewrite Hs.
    change (c0 :: (t ++ c :: rest)) with ((c0 :: t) ++ c :: rest).
    apply relex_unquoted; assumption.
Qed.

(* non-vacuity: one value of each class *)
Example wf_examples :
  wf_class [97] = Some CSimple /\ wf_class [39; 97; 39; 98; 39] = Some CSingle /\
  wf_class [34; 34] = Some CDouble /\ wf_class [59; 97; 10; 59] = Some CText /\
  wf_class [59; 97] = Some CUnquoted /\ wf_class [100; 97; 116; 97; 95; 120] = None.
Proof. repeat split; reflexivity. Qed.
