(* The token level of cif.hpp's grammar: white space and comments between tokens, tags, the reserved words
   (data_ loop_ global_ save_ stop_) and values. Because a tag, a reserved word and a value can never be confused
   at the same position (unquoted values may not start with '_' or a reserved word), the context-dependent rules
   of the grammar see the same token boundaries as this context-free tokenizer. Executable definitions + the
   lemmas about one token; the whole-document theorem is in DocTokens.v. *)
From Coq Require Import Lia.
From GV Require Import Cif.CharTable_gen Cif.Quote Cif.Write Cif.Lex Cif.Legacy Cif.QuoteProofs Cif.LexProofs Cif.LayoutProofs.
Local Open Scope Z_scope.

Inductive token :=
| TTag (s : str) | TLoop | TData (name : str) | TGlobal | TSave (name : str) | TStop | TValue (v : str).

(* comment: '#' until the end of the line (the '\n' is left for the white-space rule) *)
Fixpoint skip_comment (s : str) : str :=
  match s with c :: t => if c =? 10 then s else skip_comment t | [] => [] end.

(* whitespace = plus<sor<ws, comment>>; returns the beginning-of-line flag it leaves *)
Fixpoint skip_wsc (fuel : nat) (bol : bool) (s : str) : bool * str :=
  match fuel with
  | O => (bol, s)
  | S f =>
    match s with
    | c :: t => if is_ws c then skip_wsc f (c =? 10) t
                else if c =? 35 then skip_wsc f false (skip_comment t)
                else (bol, s)
    | [] => (bol, [])
    end
  end.

Definition lex_token (bol : bool) (s : str) : option (token * str) :=
  match s with
  | [] => None
  | c :: _ =>
    if c =? 95 then
      let '(a, r) := span is_nonblank s in if (length a <? 2)%nat then None else Some (TTag a, r)
    else if istarts_with kw_data s then
      let '(a, r) := span is_nonblank (skipn 5 s) in if is_nil a then None else Some (TData a, r)
    else if istarts_with kw_loop s then Some (TLoop, skipn 5 s)
    else if istarts_with kw_global s then Some (TGlobal, skipn 7 s)
    else if istarts_with kw_save s then
      let '(a, r) := span is_nonblank (skipn 5 s) in Some (TSave a, r)
    else if istarts_with kw_stop s then Some (TStop, skipn 5 s)
    else match lex_value bol s with LexOk v r => Some (TValue v, r) | _ => None end
  end.

Fixpoint lex_tokens (fuel : nat) (bol : bool) (s : str) : option (list token) :=
  match fuel with
  | O => None
  | S f =>
    let '(b, s1) := skip_wsc (length s) bol s in
    match s1 with
    | [] => Some []
    | _ => match lex_token b s1 with
           | None => None
           | Some (tk, r) => option_map (cons tk) (lex_tokens f false r)
           end
    end
  end.

Definition lex_all (bol : bool) (s : str) : option (list token) := lex_tokens (S (length s)) bol s.

(* ---------------- lengths: every step consumes input *)
Lemma span_length : forall p s a r, span p s = (a, r) -> length s = (length a + length r)%nat /\ s = a ++ r.
Proof.
  intros p s. induction s as [|c t IH]; intros a r H; cbn [span] in H.
  - injection H as <- <-. split; reflexivity.
  - destruct (p c).
    + destruct (span p t) as [a' r'] eqn:E. injection H as <- <-. destruct (IH a' r' eq_refl) as [L E'].
      split; [cbn [length]; lia|cbn [app]; f_equal; exact E'].
    + injection H as <- <-. split; reflexivity.
Qed.

Lemma skip_comment_length : forall s, (length (skip_comment s) <= length s)%nat.
Proof. induction s as [|c t IH]; cbn [skip_comment]; [lia|]. destruct (c =? 10); cbn [length] in *; lia. Qed.

Lemma skip_wsc_length : forall f b s b' s', skip_wsc f b s = (b', s') -> (length s' <= length s)%nat.
Proof.
  induction f as [|f IH]; intros b s b' s' H; cbn [skip_wsc] in H; [injection H as _ <-; lia|].
  destruct s as [|c t]; [injection H as _ <-; lia|].
  destruct (is_ws c); [apply IH in H; cbn [length]; lia|].
  destruct (c =? 35); [apply IH in H; pose proof (skip_comment_length t); cbn [length]; lia|].
  injection H as _ <-. lia.
Qed.

Lemma quoted_tail_length : forall q s acc body rest, quoted_tail q s acc = Some (body, rest) -> (length rest < length s)%nat.
Proof.
  intros q s. induction s as [|c t IH]; intros acc body rest H; cbn [quoted_tail] in H; [discriminate|].
  destruct ((c =? q) && endq_follow t); [injection H as _ <-; cbn [length]; lia|].
  destruct (c =? 10); [discriminate|]. apply IH in H. cbn [length]. lia.
Qed.
Lemma text_tail_length : forall s b acc body rest, text_tail b s acc = Some (body, rest) -> (length rest < length s)%nat.
Proof.
  induction s as [|c t IH]; intros b acc body rest H; cbn [text_tail] in H; [discriminate|].
  destruct (b && (c =? 59)); [injection H as _ <-; cbn [length]; lia|]. apply IH in H. cbn [length]. lia.
Qed.

Lemma lex_value_length : forall b s v r, lex_value b s = LexOk v r -> (length r < length s)%nat.
Proof.
  intros b s v r H. unfold lex_value in H.
  destruct (lex_simunq s) as [v1 r1| |] eqn:E1.
  - injection H as <- <-. unfold lex_simunq in E1. destruct (span is_ordinary s) as [a r'] eqn:Es.
    destruct (span_length _ _ _ _ Es) as [L _]. destruct a as [|a0 at']; [discriminate|].
    cbn [is_nil] in E1. destruct r' as [|c0 t0]; [discriminate|]. destruct (is_ws c0); [|discriminate].
    injection E1 as <- <-. cbn [length] in *. lia.
  - destruct (lex_quoted 39 s) as [v1 r1| |] eqn:E2.
    + injection H as <- <-. unfold lex_quoted in E2. destruct s as [|c t]; [discriminate|].
      destruct (c =? 39); [|discriminate]. destruct (quoted_tail 39 t []) as [[bd rs]|] eqn:Q; [|discriminate].
      injection E2 as <- <-. apply quoted_tail_length in Q. cbn [length]. lia.
    + destruct (lex_quoted 34 s) as [v1 r1| |] eqn:E3.
      * injection H as <- <-. unfold lex_quoted in E3. destruct s as [|c t]; [discriminate|].
        destruct (c =? 34); [|discriminate]. destruct (quoted_tail 34 t []) as [[bd rs]|] eqn:Q; [|discriminate].
        injection E3 as <- <-. apply quoted_tail_length in Q. cbn [length]. lia.
      * destruct (lex_textfield b s) as [v1 r1| |] eqn:E4.
        -- injection H as <- <-. unfold lex_textfield in E4. destruct s as [|c t]; [discriminate|].
           destruct (b && (c =? 59)); [|discriminate]. destruct (text_tail false t []) as [[bd rs]|] eqn:Q; [|discriminate].
           injection E4 as <- <-. apply text_tail_length in Q. cbn [length]. lia.
        -- unfold lex_unquoted in H. destruct (at_keyword s); [discriminate|]. destruct s as [|c t]; [discriminate|].
           destruct ((c =? 95) || (c =? 36) || (c =? 35)); [discriminate|].
           destruct (span is_nonblank (c :: t)) as [a r'] eqn:Es. destruct (span_length _ _ _ _ Es) as [L _].
           destruct a as [|a0 at']; [discriminate|]. injection H as <- <-. cbn [length] in *. lia.
        -- discriminate.
      * discriminate.
    + discriminate.
  - discriminate.
Qed.

Lemma skipn_length_le : forall (n : nat) (s : str), (length (skipn n s) <= length s)%nat.
Proof. intros n s. rewrite skipn_length. lia. Qed.

Lemma istarts_with_length : forall kw s, istarts_with kw s = true -> (length kw <= length s)%nat.
Proof.
  induction kw as [|k kt IH]; intros s H; [cbn; lia|]. destruct s as [|c t]; [discriminate|].
  cbn [istarts_with] in H. apply andb_prop in H. destruct H as [_ H]. apply IH in H. cbn [length]. lia.
Qed.

Lemma lex_token_length : forall b s tk r, lex_token b s = Some (tk, r) -> (length r < length s)%nat.
Proof.
  intros b s tk r H. unfold lex_token in H. destruct s as [|c t]; [discriminate|].
  destruct (c =? 95).
  { destruct (span is_nonblank (c :: t)) as [a r'] eqn:Es. destruct (span_length _ _ _ _ Es) as [L _].
    destruct (length a <? 2)%nat eqn:E2; [discriminate|]. injection H as _ <-. apply Nat.ltb_ge in E2. lia. }
  destruct (istarts_with kw_data (c :: t)) eqn:K1.
  { destruct (span is_nonblank (skipn 5 (c :: t))) as [a r'] eqn:Es. destruct (span_length _ _ _ _ Es) as [L _].
    destruct a as [|a0 a']; [discriminate|]. injection H as _ <-.
    apply istarts_with_length in K1. rewrite skipn_length in L. cbn [length] in *. lia. }
  destruct (istarts_with kw_loop (c :: t)) eqn:K2.
  { assert (Er : skipn 5 (c :: t) = r) by congruence. rewrite <- Er. apply istarts_with_length in K2. rewrite skipn_length. cbn [length] in *. lia. }
  destruct (istarts_with kw_global (c :: t)) eqn:K3.
  { assert (Er : skipn 7 (c :: t) = r) by congruence. rewrite <- Er. apply istarts_with_length in K3. rewrite skipn_length. cbn [length] in *. lia. }
  destruct (istarts_with kw_save (c :: t)) eqn:K4.
  { destruct (span is_nonblank (skipn 5 (c :: t))) as [a r'] eqn:Es. destruct (span_length _ _ _ _ Es) as [L _].
    injection H as _ <-. apply istarts_with_length in K4. rewrite skipn_length in L. cbn [length] in *. lia. }
  destruct (istarts_with kw_stop (c :: t)) eqn:K5.
  { assert (Er : skipn 5 (c :: t) = r) by congruence. rewrite <- Er. apply istarts_with_length in K5. rewrite skipn_length. cbn [length] in *. lia. }
  destruct (lex_value b (c :: t)) as [v r'| |] eqn:V; try discriminate.
  injection H as _ <-. exact (lex_value_length _ _ _ _ V).
Qed.

(* ---------------- fuel: any amount above the length of the input gives the same answer *)
Lemma lex_tokens_fuel_aux : forall n s, (length s <= n)%nat ->
  forall f b, (length s < f)%nat -> lex_tokens f b s = lex_all b s.
Proof.
  induction n as [|n IH]; intros s Hn f b Hf.
  - destruct s; [|cbn in Hn; lia]. destruct f as [|f]; [lia|]. reflexivity.
  - destruct f as [|f]; [lia|]. unfold lex_all. cbn [lex_tokens].
    destruct (skip_wsc (length s) b s) as [b' s1] eqn:E. pose proof (skip_wsc_length _ _ _ _ _ E) as L1.
    destruct s1 as [|c t]; [reflexivity|].
    destruct (lex_token b' (c :: t)) as [[tk r]|] eqn:T; [|reflexivity].
    pose proof (lex_token_length _ _ _ _ T) as L2.
    rewrite (IH r ltac:(lia) f false ltac:(lia)). rewrite (IH r ltac:(lia) (length s) false ltac:(lia)). reflexivity.
Qed.

Lemma lex_tokens_fuel : forall f s b, (length s < f)%nat -> lex_tokens f b s = lex_all b s.
Proof. intros f s b H. exact (lex_tokens_fuel_aux (length s) s (le_n _) f b H). Qed.

Lemma lex_all_unfold : forall b s,
  lex_all b s = let '(b', s1) := skip_wsc (length s) b s in
                match s1 with
                | [] => Some []
                | _ => match lex_token b' s1 with
                       | None => None
                       | Some (tk, r) => option_map (cons tk) (lex_all false r)
                       end
                end.
Proof.
  intros b s. unfold lex_all at 1. cbn [lex_tokens].
  destruct (skip_wsc (length s) b s) as [b' s1] eqn:E. pose proof (skip_wsc_length _ _ _ _ _ E) as L1.
  destruct s1 as [|c t]; [reflexivity|].
  destruct (lex_token b' (c :: t)) as [[tk r]|] eqn:T; [|reflexivity].
  pose proof (lex_token_length _ _ _ _ T) as L2. rewrite lex_tokens_fuel by lia. reflexivity.
Qed.
