(* The behaviour of the pinned snapshot BEFORE the three repairs in to_cif.hpp, kept for the record:
   (v0-a) BufOstream::pad was an unchecked memset;  (v0-b) write_cif_block_to_stream emitted separators for
   loops without values (for which nothing else is written);  (v0-c) a value starting with ';' could be put
   in the first column;  (v0-d) a block without name (global_) was written as bare data_. The witnesses below were replayed on the real code (ASan report / corrupted output /
   "unterminated text field" on re-reading). *)
From GV Require Import Cif.Quote Cif.Write Cif.Buf.
Local Open Scope Z_scope.

Definition step_v0 (p : Z) (x : op) : Z :=
  match x with OPad n => p + n | _ => step p x end.
Definition peak_v0 (p : Z) (x : op) : Z :=
  match x with OPad n => p + n | _ => peak p x end.
Fixpoint in_bounds_v0 (p : Z) (l : list op) : bool :=
  match l with
  | [] => true
  | x :: t => (0 <=? p) && (peak_v0 p x <=? BUFSZ) && in_bounds_v0 (step_v0 p x) t
  end.

Definition is_erased (it : item) : bool := match it with Erased => true | _ => false end.
Fixpoint items_ops_v0 (o : opts) (prev : option item) (items : list item) : list op :=
  match items with
  | [] => []
  | it :: t =>
    if is_erased it then items_ops_v0 o prev t
    else (match prev with
          | Some p => if negb (compact o) && should_be_separated p it
                      then (if misuse_hash o then [OPut 35] else []) ++ [OPut nl] else []
          | None => []
          end) ++ item_ops o it ++ items_ops_v0 o (Some it) t
  end.
Definition block_ops_v0 (o : opts) (b : block) : list op :=
  OWrite s_data :: OWrite (bname b) :: OPut nl ::
  (if misuse_hash o then [OWrite s_hash_nl] else []) ++
  items_ops_v0 o None (bitems b) ++
  (if misuse_hash o then [OWrite s_hash_nl] else []).

Definition write_out_pair_ops_v0 (o : opts) (name value : str) : list op :=
  OWrite name ::
  (if is_text_field value then OPut nl :: write_text_field_ops value
   else (if 120 <? len name + len value then [OPut nl]
         else OPut sp :: (if len name <? align_pairs o then [OPad (align_pairs o - len name)] else []))
        ++ [OWrite value])
  ++ [OPut nl].

(* witnesses *)
Definition w_opts_pad : opts := mkOpts false false false 60000 0.
Definition w_block_pad : block := mkBlock [120] [Pair [95; 97] [49]].          (* data_x  _a 1 *)
Definition w_opts_plain : opts := mkOpts false false false 0 0.
Definition w_block_loops : block := mkBlock [120] (repeat (Loop [[95; 97]] []) 4100).
Definition w_semi_value : str := 59 :: repeat 121 118%nat.                      (* ";yyy...y", 119 chars *)
