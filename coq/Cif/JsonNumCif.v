(* Every string that the CIF number recogniser of property C12 accepts (Num/DecParse.v: is_cif_numb, proved there to be the
   acceptance set of cif::as_number up to the range of double) is a rendering of parts as in Cif/JsonNumProofs.v; hence
   write_as_number turns EVERY CIF number into a JSON number. *)
From Coq Require Import Lia.
From GV Require Import Num.DecParse Cif.JsonNum Cif.JsonNumProofs.
Local Open Scope Z_scope.

(* a run of digits split off by scan_digits *)
Lemma scan_split : forall s acc cnt, exists d r,
  s = d ++ r /\ digits d /\ stops r /\
  snd (scan_digits acc cnt s) = r /\ snd (fst (scan_digits acc cnt s)) = cnt + Z.of_nat (length d).
Proof.
  induction s as [|c t IH]; intros acc cnt.
  - exists [], []. simpl. repeat split; try reflexivity. lia.
  - cbn [scan_digits]. destruct (is_digit c) eqn:E.
    + destruct (IH (acc * 10 + (c - 48)) (cnt + 1)) as [d [r [H1 [H2 [H3 [H4 H5]]]]]].
      exists (c :: d), r. split; [simpl; congruence|]. split; [unfold digits; simpl; rewrite E; exact H2|].
      split; [exact H3|]. split; [exact H4|]. rewrite H5. simpl length. lia.
    + exists [], (c :: t). simpl. repeat split; try reflexivity; [exact E|lia].
Qed.

Lemma strip_sign_split : forall s, exists sg, is_sign sg /\ s = sg ++ snd (strip_sign s).
Proof.
  intros [|c t]; [exists []; split; [left; reflexivity|reflexivity]|].
  unfold strip_sign. destruct (Z.eqb_spec c 45) as [->|N1].
  - exists [45]. split; [right; right; reflexivity|reflexivity].
  - destruct (Z.eqb_spec c 43) as [->|N2].
    + exists [43]. split; [right; left; reflexivity|reflexivity].
    + exists []. split; [left; reflexivity|reflexivity].
Qed.

Lemma su_ok_is_su : forall r, cif_su_ok r = true -> is_su r.
Proof.
  intros [|c t] H; [left; reflexivity|]. unfold cif_su_ok in H.
  destruct (Z.eqb_spec c 40) as [->|N]; [|discriminate].
  destruct (scan_split t 0 0) as [d [r [H1 [H2 [H3 [H4 H5]]]]]].
  destruct (scan_digits 0 0 t) as [[a n] r'] eqn:E. simpl in H4, H5. subst r'.
  apply andb_prop in H. destruct H as [Hn Hr].
  destruct r as [|c2 [|c3 r3]]; try discriminate. apply Z.eqb_eq in Hr. subst c2.
  right. exists d. split; [rewrite H1; reflexivity|]. split; [|exact H2].
  intros ->. simpl in H5. lia.
Qed.

Lemma exp_part : forall neg m n2 s3 dd r,
  match s3 with
  | c :: t =>
    if (c =? 101) || (c =? 69) then
      let '(eneg, t1) := strip_sign t in
      let '(ex, ne, s4) := scan_digits 0 0 t1 in
      if ne =? 0 then None
      else Some (mkDec neg m ((if eneg then - ex else ex) - n2), s4)
    else Some (mkDec neg m (- n2), s3)
  | [] => Some (mkDec neg m (- n2), [])
  end = Some (dd, r) -> exists ex : str, s3 = ex ++ r /\ is_exp ex.
Proof.
  intros neg m n2 s3 dd r EN. destruct s3 as [|c t].
  - injection EN as _ <-. exists (@nil Z). split; [reflexivity|left; reflexivity].
  - destruct ((c =? 101) || (c =? 69)) eqn:Ee.
    + destruct (strip_sign_split t) as [sg3 [Hs3 Et]].
      destruct (strip_sign t) as [eneg t1] eqn:E4. cbn [snd] in Et.
      destruct (scan_split t1 0 0) as [d3 [s4 [C1 [C2 [C3 [C4 C5]]]]]].
      destruct (scan_digits 0 0 t1) as [[exv ne] s4'] eqn:E5. cbn [fst snd] in C4, C5. subst s4'.
      destruct (ne =? 0) eqn:En; [discriminate|]. injection EN as _ <-.
      exists (c :: sg3 ++ d3). split.
      * rewrite Et, C1. cbn [app]. rewrite <- app_assoc. reflexivity.
      * right. exists c, sg3, d3. split; [reflexivity|]. split; [lia|]. split; [exact Hs3|]. split; [|exact C2].
        intros ->. simpl in C5. lia.
    + injection EN as _ <-. exists (@nil Z). split; [reflexivity|left; reflexivity].
Qed.

Theorem cif_numb_is_render : forall s, is_cif_numb s = true ->
  exists sg d1 dot d2 ex su, s = render sg d1 dot d2 ex su /\
    is_sign sg /\ digits d1 /\ digits d2 /\ (dot = false -> d2 = []) /\ (d1 <> [] \/ d2 <> []) /\ is_exp ex /\ is_su su.
Proof.
  intros s H. unfold is_cif_numb, cif_value in H.
  destruct (cif_number s) as [[dd r]|] eqn:EN; [|discriminate].
  destruct (cif_su_ok r) eqn:ES; [|discriminate]. clear H.
  apply su_ok_is_su in ES.
  unfold cif_number in EN.
  destruct (strip_sign_split s) as [sg [Hsg Es]].
  destruct (strip_sign s) as [neg s1] eqn:E1. cbn [snd] in Es.
  destruct (scan_split s1 0 0) as [d1 [s2 [A1 [A2 [A3 [A4 A5]]]]]].
  destruct (scan_digits 0 0 s1) as [[ip n1] s2'] eqn:E2. cbn [fst snd] in A4, A5. subst s2'.
  assert (Fin : forall (dot : bool) (d2 s3 : str) m n2,
    s2 = (if dot then 46 :: d2 else []) ++ s3 -> digits d2 -> (dot = false -> d2 = []) -> n2 = Z.of_nat (length d2) ->
    (if n1 + n2 =? 0 then None else
       match s3 with
       | c :: t =>
         if (c =? 101) || (c =? 69) then
           let '(eneg, t1) := strip_sign t in
           let '(ex, ne, s4) := scan_digits 0 0 t1 in
           if ne =? 0 then None
           else Some (mkDec neg m ((if eneg then - ex else ex) - n2), s4)
         else Some (mkDec neg m (- n2), s3)
       | [] => Some (mkDec neg m (- n2), [])
       end) = Some (dd, r) ->
    exists sg d1 dot d2 ex su, s = render sg d1 dot d2 ex su /\
      is_sign sg /\ digits d1 /\ digits d2 /\ (dot = false -> d2 = []) /\ (d1 <> [] \/ d2 <> []) /\ is_exp ex /\ is_su su).
  { intros dot d2 s3 m n2 F1 F2 F3 F4 EN'.
    destruct (n1 + n2 =? 0) eqn:Ez; [discriminate|].
    assert (Hany : d1 <> [] \/ d2 <> []).
    { destruct d1; [|left; discriminate]. destruct d2; [|right; discriminate]. simpl in A5, F4. subst. discriminate. }
    destruct (exp_part _ _ _ _ _ _ EN') as [ex [X1 X2]].
    exists sg, d1, dot, d2, ex, r. split.
    - unfold render. rewrite Es, A1, F1, X1. rewrite <- ?app_assoc. reflexivity.
    - repeat split; assumption. }
  destruct s2 as [|c t].
  - apply (Fin false (@nil Z) (@nil Z) ip 0); auto; reflexivity.
  - destruct (c =? 46) eqn:E46.
    + apply Z.eqb_eq in E46. subst c.
      destruct (scan_split t ip 0) as [d2 [s3 [B1 [B2 [B3 [B4 B5]]]]]].
      destruct (scan_digits ip 0 t) as [[m n2] s3'] eqn:E3. cbn [fst snd] in B4, B5. subst s3'.
      apply (Fin true d2 s3 m n2); [rewrite B1; reflexivity|exact B2|discriminate|lia|exact EN].
    + apply (Fin false (@nil Z) (c :: t) ip 0); auto; reflexivity.
Qed.

(* EVERY CIF number (as recognised by the model of cif::as_number) is written as a JSON number *)
Theorem cif_number_written_as_json : forall s, is_cif_numb s = true -> json_number (write_as_number s) = true.
Proof.
  intros s H. destruct (cif_numb_is_render s H) as [sg [d1 [dot [d2 [ex [su [-> [H1 [H2 [H3 [H4 [H5 [H6 H7]]]]]]]]]]]]].
  apply write_as_number_is_json; assumption.
Qed.
