(* Property C07: mmCIF models round-trip, and PDB and mmCIF describe the same structure.
   Statements only. Model: Pdb/AtomSite.v (_atom_site flattening of add_cif_atoms and the regrouping of
   make_structure_from_block: model switch with find_or_add_model, chain switch, find_or_add_residue).
   Entities, assemblies, connections, secondary structure, sequences, numbers (%.9g) and the PDB route are covered by
   the end-to-end oracles of props/C07.py only (no theorem). *)
From GV Require Import Base.Str Pdb.AtomSite Pdb.AtomSiteProofs.
Local Open Scope Z_scope.

(* WFs: model numbers pairwise distinct, adjacent chains of a model differ in name, residues of one chain have pairwise
   non-matching (name, number, insertion code), no empty model / chain / residue *)
Theorem C07_regroup_flatten : forall s, WFs s -> of_rows (to_rows s) = s.
Proof. exact regroup_flatten. Qed.
Print Assumptions C07_regroup_flatten.

(* the precondition on residue ids is needed: equal ids that are not adjacent are merged by the reader *)
Theorem C07_equal_ids_merge_refuted : exists s, of_rows (to_rows s) <> s.
Proof.
  exists [(1, [([65], [(([71;76;89], 1, 32), [([65], 0)]); (([65;76;65], 2, 32), [([65], 0)]);
                        (([71;76;89], 1, 32), [([65], 0)])])])].
  vm_compute. discriminate.
Qed.
Print Assumptions C07_equal_ids_merge_refuted.
