(* Property C07: mmCIF models round-trip, and PDB and mmCIF describe the same structure.
   Statements only. Model: Pdb/AtomSite.v (_atom_site flattening of add_cif_atoms and the regrouping of
   make_structure_from_block: model switch with find_or_add_model, chain switch, find_or_add_residue).
   Entities, assemblies, connections, secondary structure, sequences, numbers (%.9g) and the PDB route are covered by
   the end-to-end oracles of props/C07.py only (no theorem). *)
From GV Require Import Base.Str Pdb.AtomSite Pdb.AtomSiteProofs Pdb.Subchain Pdb.SubchainProofs Pdb.CcdAlias Pdb.CcdAliasProofs.
Local Open Scope Z_scope.

(* WFs: model numbers pairwise distinct, adjacent chains of a model differ in name, residues of one chain have pairwise
   non-matching (name, number, insertion code), no empty model / chain / residue *)
Theorem C07_regroup_flatten : forall s, WFs s -> of_rows (to_rows s) = s.
Proof. exact regroup_flatten. Qed.
Print Assumptions C07_regroup_flatten.

(* the precondition on residue ids is needed: equal ids that are not adjacent are merged by the reader *)
Theorem C07_equal_ids_merge_refuted : exists s, of_rows (to_rows s) <> s.
Proof.
  exists [(1, [([65], [(([71;76;89], 1, 32), [([65], 0)]); (([65;76;65], 2, 32), [([65], 0)]);
                        (([71;76;89], 1, 32), [([65], 0)])])])].
  vm_compute. discriminate.
Qed.
Print Assumptions C07_equal_ids_merge_refuted.

(* ------------------------------------------------------------------------------------------------------------
   Sub-chains (label_asym_id): model of assign_subchain_names / assign_subchains of src/polyheur.cpp, the naming
   shared by the PDB and mmCIF routes (Pdb/Subchain.v; compared with gemmi on every run, command "subch"). *)

(* the suffix of the k-th non-polymer residue decodes back to k: for EVERY k >= 1 (1..9, 0, 01..0Z, 10, 11, ... in
   base 36 of any length) *)
Theorem C07_nonpolymer_suffix_decodes : forall k, 1 <= k -> np_decode (np_suffix k) = k.
Proof. exact np_decode_suffix. Qed.
Print Assumptions C07_nonpolymer_suffix_decodes.

(* chain name + "x" + suffix identifies the chain name and the residue class, for every chain name (also names that
   contain 'x' or end in "xp") and every counter *)
Theorem C07_subchain_name_injective : forall n1 n2 c1 c2, class_ok c1 -> class_ok c2 ->
  n1 ++ 120 :: class_suffix c1 = n2 ++ 120 :: class_suffix c2 -> n1 = n2 /\ c1 = c2.
Proof. exact subchain_name_injective. Qed.
Print Assumptions C07_subchain_name_injective.

(* what assign_subchains writes is the name of the class the model assigns (tie between the two formulations) *)
Theorem C07_model_names_are_class_names : forall chains m,
  flat_names (model_names chains m) = map pair_name (model_classes chains m).
Proof. exact model_names_classes. Qed.
Print Assumptions C07_model_names_are_class_names.

(* every non-polymer residue of a model gets a sub-chain of its own: any number of chains and residues, chains that
   share a name (they share the counter), any chain names *)
Theorem C07_nonpolymer_subchains_distinct : forall chains,
  NoDup (map pair_name (filter is_np_pair (model_classes chains []))).
Proof. exact model_nonpolymer_names_distinct. Qed.
Print Assumptions C07_nonpolymer_subchains_distinct.

(* non-vacuity: the suffixes at the boundaries of the numbering scheme *)
Theorem C07_suffix_examples :
  map np_suffix [1; 9; 10; 11; 45; 46; 47; 1305; 1306] =
  [[49]; [57]; [48]; [48; 49]; [48; 90]; [49; 48]; [49; 49]; [90; 90]; [49; 48; 48]].
Proof. exact np_suffix_values. Qed.
Print Assumptions C07_suffix_examples.

(* ------------------------------------------------------------------------------------------------------------
   Residue names longer than three characters (shorten_ccd_codes / restore_full_ccd_codes, src/polyheur.cpp, modelled in
   Pdb/CcdAlias.v: collection of the distinct long names, the "~" + last-two-characters pass, the numbered fall-back
   pass with its shared counter, the renaming loops). For EVERY list of residue names:
   the aliases given are pairwise distinct and have the shape ~xy, every long name (and nothing else) is in the table
   exactly once; *)
Theorem C07_ccd_aliases_distinct : forall names,
  let t := shorten_table names in
  NoDup (filter nonempty (aliases t)) /\ Forall shaped (aliases t) /\ NoDup (map fst t) /\
  (forall n, In n (map fst t) <-> In n names /\ (3 < length n)%nat).
Proof.
  intros names t. destruct (shorten_table_spec names) as [G [S [ND [_ H]]]]. exact (conj G (conj S (conj ND H))).
Qed.
Print Assumptions C07_ccd_aliases_distinct.

(* when the aliases did not run out, every shortened name fits the three-character field, and restoring gives back
   exactly the original names (no residue name may start with '~', the prefix reserved for aliases) *)
Theorem C07_ccd_shorten_fits : forall names,
  let t := shorten_table names in
  Forall (fun a => a <> []) (aliases t) ->
  forall n, In n (apply_shorten t names) -> (length n <= 3)%nat.
Proof. exact shortened_names_fit. Qed.
Print Assumptions C07_ccd_shorten_fits.

Theorem C07_ccd_shorten_restore : forall names,
  (forall n, In n names -> nth 0 n 0 <> 126) ->
  let t := shorten_table names in
  Forall (fun a => a <> []) (aliases t) ->
  apply_restore t (apply_shorten t names) = names.
Proof. exact shorten_restore_roundtrip. Qed.
Print Assumptions C07_ccd_shorten_restore.

(* non-vacuity: three long names ending in CD (one alias ~CD, two numbered ones), a name ending in 00 that takes the
   alias the numbered pass would try first, short names in between, a repeated long name *)
Definition ex_names : list str :=
  [[65; 49; 66; 67; 68];
   [65; 50; 66; 67; 68];
   [65; 76; 65];
   [81; 48; 48; 48; 49];
   [66; 51; 66; 67; 68];
   [65; 49; 66; 67; 68];
   [72; 79; 72];
   [90; 57; 57; 48; 48]].
Example C07_ccd_example :
  map snd (shorten_table ex_names) = [[126; 67; 68]; [126; 48; 50]; [126; 48; 49]; [126; 48; 51]; [126; 48; 48]].
Proof. vm_compute. reflexivity. Qed.
Example C07_ccd_example_table :
  forallb (fun a => negb (match a with [] => true | _ => false end)) (map snd (shorten_table ex_names)) = true /\
  forallb (fun n => negb (nth 0 n 0 =? 126)) ex_names = true /\
  apply_restore (shorten_table ex_names) (apply_shorten (shorten_table ex_names) ex_names) = ex_names.
Proof. vm_compute. repeat split; reflexivity. Qed.
