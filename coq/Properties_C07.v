(* Property C07: mmCIF models round-trip, and PDB and mmCIF describe the same structure.
   Statements only. Model: Pdb/AtomSite.v (_atom_site flattening of add_cif_atoms and the regrouping of
   make_structure_from_block: model switch with find_or_add_model, chain switch, find_or_add_residue).
   Entities, assemblies, connections, secondary structure, sequences, numbers (%.9g) and the PDB route are covered by
   the end-to-end oracles of props/C07.py only (no theorem). *)
From GV Require Import Base.Str Pdb.AtomSite Pdb.AtomSiteProofs Pdb.Subchain Pdb.SubchainProofs.
Local Open Scope Z_scope.

(* WFs: model numbers pairwise distinct, adjacent chains of a model differ in name, residues of one chain have pairwise
   non-matching (name, number, insertion code), no empty model / chain / residue *)
Theorem C07_regroup_flatten : forall s, WFs s -> of_rows (to_rows s) = s.
Proof. exact regroup_flatten. Qed.
Print Assumptions C07_regroup_flatten.

(* the precondition on residue ids is needed: equal ids that are not adjacent are merged by the reader *)
Theorem C07_equal_ids_merge_refuted : exists s, of_rows (to_rows s) <> s.
Proof.
  exists [(1, [([65], [(([71;76;89], 1, 32), [([65], 0)]); (([65;76;65], 2, 32), [([65], 0)]);
                        (([71;76;89], 1, 32), [([65], 0)])])])].
  vm_compute. discriminate.
Qed.
Print Assumptions C07_equal_ids_merge_refuted.

(* ------------------------------------------------------------------------------------------------------------
   Sub-chains (label_asym_id): model of assign_subchain_names / assign_subchains of src/polyheur.cpp, the naming
   shared by the PDB and mmCIF routes (Pdb/Subchain.v; compared with gemmi on every run, command "subch"). *)

(* the suffix of the k-th non-polymer residue decodes back to k: for EVERY k >= 1 (1..9, 0, 01..0Z, 10, 11, ... in
   base 36 of any length) *)
Theorem C07_nonpolymer_suffix_decodes : forall k, 1 <= k -> np_decode (np_suffix k) = k.
Proof. exact np_decode_suffix. Qed.
Print Assumptions C07_nonpolymer_suffix_decodes.

(* chain name + "x" + suffix identifies the chain name and the residue class, for every chain name (also names that
   contain 'x' or end in "xp") and every counter *)
Theorem C07_subchain_name_injective : forall n1 n2 c1 c2, class_ok c1 -> class_ok c2 ->
  n1 ++ 120 :: class_suffix c1 = n2 ++ 120 :: class_suffix c2 -> n1 = n2 /\ c1 = c2.
Proof. exact subchain_name_injective. Qed.
Print Assumptions C07_subchain_name_injective.

(* what assign_subchains writes is the name of the class the model assigns (tie between the two formulations) *)
Theorem C07_model_names_are_class_names : forall chains m,
  flat_names (model_names chains m) = map pair_name (model_classes chains m).
Proof. exact model_names_classes. Qed.
Print Assumptions C07_model_names_are_class_names.

(* every non-polymer residue of a model gets a sub-chain of its own: any number of chains and residues, chains that
   share a name (they share the counter), any chain names *)
Theorem C07_nonpolymer_subchains_distinct : forall chains,
  NoDup (map pair_name (filter is_np_pair (model_classes chains []))).
Proof. exact model_nonpolymer_names_distinct. Qed.
Print Assumptions C07_nonpolymer_subchains_distinct.

(* non-vacuity: the suffixes at the boundaries of the numbering scheme *)
Theorem C07_suffix_examples :
  map np_suffix [1; 9; 10; 11; 45; 46; 47; 1305; 1306] =
  [[49]; [57]; [48]; [48; 49]; [48; 90]; [49; 48]; [49; 49]; [90; 90]; [49; 48; 48]].
Proof. exact np_suffix_values. Qed.
Print Assumptions C07_suffix_examples.
