(* C08: MTZ files written by gemmi read back bit-identically, in either byte order.
   Statements only; proofs are in Mtz/FmtProofs.v, Mtz/HeaderProofs.v, Mtz/DataProofs.v. *)
From GV Require Import Base.Str Mtz.Fmt Mtz.FmtProofs Mtz.Header Mtz.HeaderProofs Mtz.ParseProofs Mtz.RoundTrip Mtz.Data Mtz.DataProofs Mtz.RoundTrip2.
Local Open Scope Z_scope.

(* Every header record emitted is exactly 80 bytes and no store of the writer leaves char buf[81]
   (emit_headers = Some), for ALL field values, texts of any length and any number of batches. *)
Theorem records_are_80 : forall m : mtz,
  exists recs, emit_headers m = Some recs /\ Forall (fun r => length r = 80%nat) recs.
Proof. exact emit_headers_all80. Qed.
Print Assumptions records_are_80.

(* The same statement is false for the BATCH packer of the pinned snapshot: 13 batches write past buf[80]. *)
Theorem records_are_80_snapshot_refuted : exists m : mtz, emit_headers_orig m = None.
Proof. exact (ex_intro _ m13 emit_headers_orig_overflows). Qed.
Print Assumptions records_are_80_snapshot_refuted.

Theorem write_macro_spec : forall (buf s : str), length buf = BUFSZ ->
  exists b2, WRITE buf s = Some (b2, write_rec s) /\ length b2 = BUFSZ.
Proof. exact WRITE_spec. Qed.
Print Assumptions write_macro_spec.

(* Reflection data: any 4-byte patterns (NaN payloads included) are read back unchanged. *)
Theorem data_bit_identical : forall (d : list word) (rest : list Z),
  read_data true (length d) (write_data d ++ rest) = Some (d, rest).
Proof. exact data_native. Qed.
Print Assumptions data_bit_identical.

Theorem swap_involutive : forall w : word, swap4 (swap4 w) = w.
Proof. exact swap4_involutive. Qed.
Print Assumptions swap_involutive.

(* A whole file prefix (signature, offset incl. the 64-bit escape, stamp, padding, data) reads back,
   and the byte-swapped file reads to the same offset and the same data. The bound on the header offset
   (INT64_MAX/4 words, i.e. a file below 2^63 bytes) is the range test the repaired reader makes. *)
Theorem prefix_roundtrip : forall ncol nrefl d rest,
  0 <= ncol -> 0 <= nrefl -> hdr_off ncol nrefl <= HDR_OFF_MAX -> Z.of_nat (length d) = ncol * nrefl ->
  read_prefix (file_prefix ncol nrefl d ++ rest) = Some (hdr_off ncol nrefl, d, rest).
Proof. exact read_prefix_native. Qed.
Print Assumptions prefix_roundtrip.

Theorem swapped_file_reads_same : forall ncol nrefl d rest,
  0 <= ncol -> 0 <= nrefl -> hdr_off ncol nrefl <= HDR_OFF_MAX -> Z.of_nat (length d) = ncol * nrefl ->
  read_prefix (file_prefix_swapped ncol nrefl d ++ rest) = Some (hdr_off ncol nrefl, d, rest).
Proof. exact read_prefix_swapped. Qed.
Print Assumptions swapped_file_reads_same.

Theorem header_offset_arithmetic : forall ncol nrefl,
  hdr_off ncol nrefl - 1 - 20 = ncol * nrefl /\
  4 * (hdr_off ncol nrefl - 1) = 80 + 4 * (ncol * nrefl).
Proof. exact header_offset_arith. Qed.
Print Assumptions header_offset_arithmetic.

(* PARTIAL header round trip: proved per record for NCOL (column/reflection/batch counts), COLUMN (label, type,
   dataset id; min/max abstract), PROJECT (dataset id and name) and the batch TITLE. Not proved here: SORT, SYMINF,
   COLSRC, CRYSTAL/DATASET, BH, history lines and the fold over the whole record list (those are covered by the
   byte-exact correspondence of the parser model with gemmi only). *)
Theorem header_roundtrip_partial :
  (forall st a b c, 0 <= c <= 10000000 -> (length (pr_ncol a b c) <= 80)%nat ->
     parse_record st (write_rec (pr_ncol a b c)) = set_ncol st a b c) /\
  (forall st c, FitsColumn c ->
     parse_record st (write_rec (pr_column c)) =
     set_cols st (mkPcol (c_label c) (c_type c) (c_ds c) [] :: p_cols st)) /\
  (forall st id name, name <> [] -> wordy name -> (length (pr_dsname k_PROJECT id name) <= 80)%nat ->
     parse_record st (write_rec (pr_dsname k_PROJECT id name)) = set_dss st (mkPds id name [] [] :: p_dss st)) /\
  (forall b, Forall (fun c => c <> 0) (b_title b) -> (length (b_title b) <= 70)%nat ->
     is_cspace (cur (rev (b_title b))) = false ->
     parse_btitle (write_rec (pr_btitle b)) = b_title b).
Proof. exact header_roundtrip_lemma. Qed.
Print Assumptions header_roundtrip_partial.

(* the snapshot's reader kept the keyword: the batch title did not survive a write/read cycle *)
Theorem batch_title_snapshot_refuted : exists b : batch,
  parse_btitle_orig (write_rec (pr_btitle b)) <> b_title b.
Proof. exact btitle_orig_refuted. Qed.
Print Assumptions batch_title_snapshot_refuted.

(* "%<w>d" of any integer is read back by simple_atoi, whatever non-digit follows *)
Theorem int_field_roundtrip : forall w n r, is_digit (cur r) = false -> simple_atoi (fmt_d w n ++ r) = (n, r).
Proof. exact atoi_fmt_d. Qed.
Print Assumptions int_field_roundtrip.

(* every header offset the repaired reader accepts - from ANY 20 bytes - converts to a word count and to a byte
   position without leaving int64 (the snapshot computed 4*(offset-1) and offset-21 unchecked) *)
Theorem reader_offset_arithmetic_safe : forall b same off, read_first b = Some (same, off) ->
  21 <= off /\ 0 <= off - 1 - 20 /\ 4 * (off - 1) < 2 ^ 63 /\ 4 * (off - 1 - 20) < 2 ^ 63.
Proof. exact read_first_offset_range. Qed.
Print Assumptions reader_offset_arithmetic_safe.

(* two more records: SORT (five %3d fields) and MTZHIST (%3d) read back to the numbers written, for all values *)
Theorem sort_record_roundtrip : forall st a b c d e, (length (pr_sort [a; b; c; d; e]) <= 80)%nat ->
  parse_record st (write_rec (pr_sort [a; b; c; d; e])) = set_sort st [a; b; c; d; e].
Proof. exact sort_roundtrip. Qed.
Print Assumptions sort_record_roundtrip.

Theorem mtzhist_record_roundtrip : forall n, (length (pr_mtzhist n) <= 80)%nat ->
  parse_mtzhist (write_rec (pr_mtzhist n)) = n.
Proof. exact mtzhist_roundtrip. Qed.
Print Assumptions mtzhist_record_roundtrip.

(* SYMINF: the number of operations, the CCP4 space-group number and the quoted space-group name read back, for
   any numbers, any lattice letter and any name without a quote character *)
Theorem syminf_record_roundtrip : forall st nsym nprim lat ccp4 hm pg,
  word_char lat = true -> lat <> 39 ->
  Forall (fun c => c <> 39) (cstr (adv hm)) ->
  (length (pr_syminf nsym nprim lat ccp4 hm pg) <= 80)%nat ->
  parse_record st (write_rec (pr_syminf nsym nprim lat ccp4 hm pg)) = set_symi st nsym ccp4 (lat :: cstr (adv hm)).
Proof. exact syminf_roundtrip. Qed.
Print Assumptions syminf_record_roundtrip.

(* BH (batch number, total / integer / float word counts) and the CRYSTAL / DATASET names attached to the dataset
   opened by the PROJECT record *)
Theorem bh_record_roundtrip : forall b, (length (pr_bh b) <= 80)%nat ->
  parse_bh (write_rec (pr_bh b)) = (b_num b, b_nint b + b_nflt b, b_nint b, b_nflt b).
Proof. exact bh_roundtrip. Qed.
Print Assumptions bh_record_roundtrip.

Theorem crystal_record_roundtrip : forall st d t n0 nt,
  p_dss st = d :: t -> wordy (n0 :: nt) -> (length (pr_dsname k_CRYSTAL (pd_id d) (n0 :: nt)) <= 80)%nat ->
  parse_record st (write_rec (pr_dsname k_CRYSTAL (pd_id d) (n0 :: nt))) =
  set_dss st (mkPds (pd_id d) (pd_proj d) (n0 :: nt) (pd_name d) :: t).
Proof. exact crystal_roundtrip. Qed.
Print Assumptions crystal_record_roundtrip.

Theorem dataset_record_roundtrip : forall st d t n0 nt,
  p_dss st = d :: t -> wordy (n0 :: nt) -> (length (pr_dsname k_DATASET (pd_id d) (n0 :: nt)) <= 80)%nat ->
  parse_record st (write_rec (pr_dsname k_DATASET (pd_id d) (n0 :: nt))) =
  set_dss st (mkPds (pd_id d) (pd_proj d) (pd_crys d) (n0 :: nt) :: t).
Proof. exact dataset_roundtrip. Qed.
Print Assumptions dataset_record_roundtrip.

