(* Property C15: calculated structure factors obey symmetry; direct and FFT routes agree.
   What is proved: the algebra of the direct sum over all symmetry images, for every group of the table
   regenerated from /repo. The equality of gemmi's floating-point sum with the textbook sum, Friedel's
   law, absences and the direct-vs-FFT agreement are decided by oracles on the implementation. *)
From Coq Require Import Permutation.
From GV Require Import Sym.SgCheck Sym.AsuDefs Sfc.SfSym Sfc.SfTable.
Local Open Scope Z_scope.

(* F(hR) = F(h) exp(-2 pi i h.t): for every tabulated group, every rotation part R of it, every hkl,
   every rational atom position X/d, every weight (occupancy x form factor x isotropic DWF) and every
   character e of period 24 d in any commutative ring *)
Theorem C15_sf_symmetry :
  forall (C : Type) (c0 : C) (cadd cmul : C -> C -> C) (d : Z) (e : Z -> C),
  (forall a b, cadd a b = cadd b a) -> (forall a b c, cadd a (cadd b c) = cadd (cadd a b) c) ->
  (forall a b, cmul a b = cmul b a) -> (forall a b c, cmul a (cmul b c) = cmul (cmul a b) c) ->
  (forall a b c, cmul a (cadd b c) = cadd (cmul a b) (cmul a c)) -> (forall a, cmul a c0 = c0) ->
  (forall a b, e (a + b) = cmul (e a) (e b)) -> (forall a k, e (a + 24 * d * k) = e a) ->
  forall r g R, In r sg_table -> operations r = HOk g -> In R (sym_ops g) ->
  forall w h X,
    sf_sum C c0 cadd cmul d e w (apply_to_hkl R h) (all_ops g) X
    = cmul (e (- (dot h (tran R) * d))) (sf_sum C c0 cadd cmul d e w h (all_ops g) X).
Proof. exact table_sf_symmetry. Qed.
Print Assumptions C15_sf_symmetry.

(* left multiplication by a rotation part permutes the operation list (the re-indexing of the sum) *)
Theorem C15_group_reindexing : forall r g R, In r sg_table -> operations r = HOk g -> In R (sym_ops g) ->
  Permutation (map (fun x => key (op_mul R x)) (all_ops g)) (map key (all_ops g)).
Proof. exact table_left_mul_permutes. Qed.
Print Assumptions C15_group_reindexing.

(* anisotropic displacement factors of symmetry images: using the rotated index equals transporting U *)
Theorem C15_aniso_image_identity : forall (u r : m33) (h : v3),
  quad u (mat_vec_raw (transpose r) h) = quad (mat_mul_raw (mat_mul_raw r u) (transpose r)) h.
Proof. exact aniso_image_identity. Qed.
Print Assumptions C15_aniso_image_identity.
