(* Property C15: calculated structure factors obey symmetry; direct and FFT routes agree.
   What is proved: the algebra of the direct sum over all symmetry images, for every group of the table
   regenerated from /repo: the symmetry law (isotropic and anisotropic weights), and its consequences - systematic
   absences are zero, Friedel mates are conjugate. The equality of gemmi's floating-point sum with the textbook sum
   and the direct-vs-FFT agreement are decided by oracles on the implementation. *)
From Coq Require Import Permutation.
From GV Require Import Sym.SgCheck Sym.AsuDefs Sfc.SfSym Sfc.SfTable Sfc.SfAniso Sfc.SfConseq Sfc.SfCache.
Local Open Scope Z_scope.

(* F(hR) = F(h) exp(-2 pi i h.t): for every tabulated group, every rotation part R of it, every hkl,
   every rational atom position X/d, every weight (occupancy x form factor x isotropic DWF) and every
   character e of period 24 d in any commutative ring *)
Theorem C15_sf_symmetry :
  forall (C : Type) (c0 : C) (cadd cmul : C -> C -> C) (d : Z) (e : Z -> C),
  (forall a b, cadd a b = cadd b a) -> (forall a b c, cadd a (cadd b c) = cadd (cadd a b) c) ->
  (forall a b, cmul a b = cmul b a) -> (forall a b c, cmul a (cmul b c) = cmul (cmul a b) c) ->
  (forall a b c, cmul a (cadd b c) = cadd (cmul a b) (cmul a c)) -> (forall a, cmul a c0 = c0) ->
  (forall a b, e (a + b) = cmul (e a) (e b)) -> (forall a k, e (a + 24 * d * k) = e a) ->
  forall r g R, In r sg_table -> operations r = HOk g -> In R (sym_ops g) ->
  forall w h X,
    sf_sum C c0 cadd cmul d e w (apply_to_hkl R h) (all_ops g) X
    = cmul (e (- (dot h (tran R) * d))) (sf_sum C c0 cadd cmul d e w h (all_ops g) X).
Proof. exact table_sf_symmetry. Qed.
Print Assumptions C15_sf_symmetry.

(* left multiplication by a rotation part permutes the operation list (the re-indexing of the sum) *)
Theorem C15_group_reindexing : forall r g R, In r sg_table -> operations r = HOk g -> In R (sym_ops g) ->
  Permutation (map (fun x => key (op_mul R x)) (all_ops g)) (map key (all_ops g)).
Proof. exact table_left_mul_permutes. Qed.
Print Assumptions C15_group_reindexing.

(* anisotropic displacement factors of symmetry images: using the rotated index equals transporting U *)
Theorem C15_aniso_image_identity : forall (u r : m33) (h : v3),
  quad u (mat_vec_raw (transpose r) h) = quad (mat_mul_raw (mat_mul_raw r u) (transpose r)) h.
Proof. exact aniso_image_identity. Qed.
Print Assumptions C15_aniso_image_identity.

(* The same law when the weight of an image depends on the image through the index rotated into its frame - the
   ANISOTROPIC Debye-Waller factor dwf_aniso(site, image.mat.left_multiply(hkl)) of calculate_sf_from_atom_sf - for
   every weight function wt of rot(g)^T h *)
Theorem C15_sf_symmetry_aniso :
  forall (C : Type) (c0 : C) (cadd cmul : C -> C -> C) (d : Z) (e : Z -> C),
  (forall a b, cadd a b = cadd b a) -> (forall a b c, cadd a (cadd b c) = cadd (cadd a b) c) ->
  (forall a b, cmul a b = cmul b a) -> (forall a b c, cmul a (cmul b c) = cmul (cmul a b) c) ->
  (forall a b c, cmul a (cadd b c) = cadd (cmul a b) (cmul a c)) -> (forall a, cmul a c0 = c0) ->
  (forall a b, e (a + b) = cmul (e a) (e b)) -> (forall a k, e (a + 24 * d * k) = e a) ->
  forall (wt : v3 -> C) r g R, In r sg_table -> operations r = HOk g -> In R (sym_ops g) ->
  forall h X,
    sf_sum_g C c0 cadd cmul d e wt (apply_to_hkl R h) (all_ops g) X
    = cmul (e (- (dot h (tran R) * d))) (sf_sum_g C c0 cadd cmul d e wt h (all_ops g) X).
Proof. exact table_sf_symmetry_aniso. Qed.
Print Assumptions C15_sf_symmetry_aniso.

(* SYSTEMATICALLY ABSENT REFLECTIONS ARE ZERO: every tabulated group, every reflection that the library's
   is_systematically_absent flags (model proved equal to the definition in C05), every atom position X/d, every
   weight; C is any commutative ring where x = a x forces a = 1 or x = 0 (a field), e a faithful character *)
Theorem C15_absent_reflections_zero :
  forall (C : Type) (c0 c1 : C) (cadd cmul : C -> C -> C) (d : Z) (e : Z -> C),
  (forall a b, cadd a b = cadd b a) -> (forall a b c, cadd a (cadd b c) = cadd (cadd a b) c) ->
  (forall a b, cmul a b = cmul b a) -> (forall a b c, cmul a (cmul b c) = cmul (cmul a b) c) ->
  (forall a b c, cmul a (cadd b c) = cadd (cmul a b) (cmul a c)) -> (forall a, cmul a c0 = c0) ->
  (forall a b, e (a + b) = cmul (e a) (e b)) -> (forall a k, e (a + 24 * d * k) = e a) ->
  0 < d -> (forall a x, cmul a x = x -> a = c1 \/ x = c0) -> (forall n, e n = c1 -> exists k, n = 24 * d * k) ->
  forall r g, In r sg_table -> operations r = HOk g ->
  forall w h X, is_systematically_absent g h = true -> sf_sum C c0 cadd cmul d e w h (all_ops g) X = c0.
Proof. exact absent_reflections_zero. Qed.
Print Assumptions C15_absent_reflections_zero.

(* FRIEDEL: with a real weight (no anomalous term) F(-h) is the conjugate of F(h), for any list of operations *)
Theorem C15_friedel_conjugate :
  forall (C : Type) (c0 : C) (cadd cmul : C -> C -> C) (d : Z) (e : Z -> C) (conj : C -> C),
  (forall a b, conj (cadd a b) = cadd (conj a) (conj b)) -> (forall a b, conj (cmul a b) = cmul (conj a) (conj b)) ->
  conj c0 = c0 -> (forall n, conj (e n) = e (- n)) ->
  forall w, conj w = w -> forall h G X,
  sf_sum C c0 cadd cmul d e w (neg_v3 h) G X = conj (sf_sum C c0 cadd cmul d e w h G X).
Proof. intros C c0 cadd cmul d e conj. exact (friedel_conjugate C c0 cadd cmul d e conj). Qed.
Print Assumptions C15_friedel_conjugate.

(* non-vacuity of the premise: the 6th row of the table (P 1 21 1) flags 0 1 0 and does not flag 0 2 0 *)
Theorem C15_absent_premise_example :
  exists r g, nth_error sg_table 5 = Some r /\ operations r = HOk g /\
    is_systematically_absent g (0, 1, 0) = true /\ is_systematically_absent g (0, 2, 0) = false.
Proof. eexists. eexists. split; [reflexivity|]. split; [vm_compute; reflexivity|]. split; vm_compute; reflexivity. Qed.
Print Assumptions C15_absent_premise_example.

(* ------------------------------------------------------------------------------------------------------------
   The per-element form-factor cache of StructureFactorCalculator (Sfc/SfCache.v, a model of
   set_stol2_and_scattering_factors + get_scattering_factor): for ANY sequence of calls made for one reflection
   (any elements, any charges, in any order) every call returns the value of its own (element, charge) -
   table value plus addend - whatever was asked before; the cache only ever holds values of neutral atoms.
   V, the zero test and the value function are arbitrary (only "the empty mark tests as zero" is assumed). *)
Theorem C15_form_factor_cache : forall (V : Type) (vzero : V) (is_zero : V -> bool) (val : Z -> Z -> V),
  is_zero vzero = true ->
  forall calls, snd (run V is_zero val (empty V vzero) calls) = map (fun x => val (fst x) (snd x)) calls.
Proof. intros V vzero is_zero val H calls. apply (run_correct V is_zero val calls). apply empty_ok. exact H. Qed.
Print Assumptions C15_form_factor_cache.

(* the snapshot (before the repair) returned the cached neutral value for an ion asked after it: Fe, then Fe3+ *)
Theorem C15_form_factor_cache_snapshot_refuted :
  snd (get_sf_snapshot Z tag_is_zero tag (fst (get_sf_snapshot Z tag_is_zero tag (empty Z 0) (26, 0))) (26, 3))
  <> tag 26 3.
Proof. exact snapshot_refuted. Qed.

(* several reflections on one calculator object: every calculate_* entry point installs its reflection (and the addends
   in force) through set_stol2_and_scattering_factors, which empties the cache; then EVERY history of resets and calls
   returns, for each call, the value of its (element, charge) in the world installed last - nothing from an earlier
   reflection or earlier addends survives *)
Theorem C15_form_factor_cache_histories :
  forall (V W : Type) (vzero : V) (is_zero : V -> bool) (wval : W -> Z -> Z -> V), is_zero vzero = true ->
  forall ops w0, crun V W vzero is_zero wval (w0, empty V vzero) ops = cspec V W wval w0 ops.
Proof.
  intros V W vzero is_zero wval Hz ops w0. apply crun_correct; [exact Hz|]. apply empty_ok. exact Hz.
Qed.
Print Assumptions C15_form_factor_cache_histories.
