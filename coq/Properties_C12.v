(* Property C12: numbers are read and printed exactly.
   Statements only; proofs in Num/IntParseProofs.v, Num/DecParseProofs.v, Num/PrintfProofs.v.
   Models: Num/IntParse.v (atox.hpp), Num/DecParse.v (numb.hpp around fast_float's tokenizer),
   Num/Nearest.v (decimal -> binary64 reference), Num/Printf.v (to_str_prec length / checker). *)
From GV Require Import Base.Str Num.IntParse Num.IntParseProofs Num.DecParse Num.DecParseProofs
  Num.Nearest Num.Printf Num.PrintfProofs Num.NearestProofs.
Local Open Scope Z_scope.

(* ---- cif::as_number (repaired code): for every conversion rnd of decimals to doubles that reports
   out-of-range as None, the result is exactly "the CIF decimal value of s, converted" - in
   particular nothing but CIF numbers is accepted, and every CIF number in range is. *)
Theorem C12_as_number_value : forall (rnd : dec -> option Z) s,
  as_number rnd s = match cif_value s with Some d => rnd d | None => None end.
Proof. exact as_number_spec. Qed.
Print Assumptions C12_as_number_value.

(* with the reference conversion: the value is the nearest double of the CIF decimal value; None
   exactly for non-numbers and for magnitudes outside the double range *)
Theorem C12_as_number_nearest_double : forall s,
  as_number_bits s = match cif_value s with Some d => nearest_double d | None => None end.
Proof. exact as_number_bits_value. Qed.
Print Assumptions C12_as_number_nearest_double.

Theorem C12_as_number_accepts_exactly_cif : forall (rnd : dec -> option Z) s,
  as_number rnd s <> None <-> exists d, cif_value s = Some d /\ rnd d <> None.
Proof. exact as_number_accepts_exactly_cif. Qed.
Print Assumptions C12_as_number_accepts_exactly_cif.

Theorem C12_as_number_rejects_non_numbers : forall (rnd : dec -> option Z) s,
  is_cif_numb s = false -> as_number rnd s = None.
Proof. exact as_number_rejects_non_numbers. Qed.
Print Assumptions C12_as_number_rejects_non_numbers.

(* the code of the pinned snapshot accepted "+-1" and "1.5()" (repaired by two fix: commits) *)
Theorem C12_as_number_snapshot_refuted :
  forall rnd : dec -> option Z,
    rnd (mkDec true 1 0) <> None -> rnd (mkDec false 15 (-1)) <> None ->
    exists s1 s2, is_cif_numb s1 = false /\ as_number_v0 rnd s1 <> None /\
                  is_cif_numb s2 = false /\ as_number_v0 rnd s2 <> None.
Proof. exact as_number_v0_refuted. Qed.
Print Assumptions C12_as_number_snapshot_refuted.

(* ---- integer readers against strtol (base 10, C-locale blanks, optional sign) *)
Theorem C12_string_to_int_is_strtol : forall s,
  string_to_int s false 0 = Some (fst (strtol10 s)).
Proof. exact string_to_int_unchecked_value. Qed.
Print Assumptions C12_string_to_int_is_strtol.

(* fixed-column fields: only the first len bytes matter, and the value is strtol's of that field *)
Theorem C12_read_int_field : forall s len, (0 < len)%nat ->
  string_to_int s false len = Some (fst (strtol10 (firstn len s))).
Proof. exact string_to_int_field. Qed.
Print Assumptions C12_read_int_field.

(* the checked variant accepts exactly  blanks* [+-]? digit+ blanks*  and returns strtol's value *)
Theorem C12_string_to_int_checked : forall s,
  string_to_int s true 0 = if int_syntax_ok s then Some (fst (strtol10 s)) else None.
Proof. exact string_to_int_checked_spec. Qed.
Print Assumptions C12_string_to_int_checked.

Theorem C12_simple_atoi_is_strtol : forall s,
  fst (simple_atoi s) = fst (strtol10 s) /\
  (snd (strtol10 s) <> s -> snd (simple_atoi s) = snd (strtol10 s)).
Proof. exact simple_atoi_strtol. Qed.
Print Assumptions C12_simple_atoi_is_strtol.

Theorem C12_no_sign_atoi_is_strtol : forall s,
  cur (skip_while is_cspace s) <> 45 -> cur (skip_while is_cspace s) <> 43 ->
  fst (no_sign_atoi s) = fst (strtol10 s).
Proof. exact no_sign_atoi_value. Qed.
Print Assumptions C12_no_sign_atoi_is_strtol.

(* int arithmetic: when the result fits in int no intermediate of the negative accumulation
   overflows, so the unbounded model is what the C code computes *)
Theorem C12_atoi_no_intermediate_overflow : forall s,
  fits_int (fst (simple_atoi s)) = true -> simple_atoi_int s = Some (fst (simple_atoi s)).
Proof. exact simple_atoi_no_overflow. Qed.
Print Assumptions C12_atoi_no_intermediate_overflow.

(* the snapshot accumulated in int: the premise of the theorem above can fail, and then the value was undefined *)
Theorem C12_atoi_snapshot_overflow_refuted :
  simple_atoi_int [52; 50; 57; 52; 57; 54; 55; 50; 57; 53] = None.   (* "4294967295" *)
Proof. exact simple_atoi_int_overflows. Qed.

(* the repaired readers accumulate in unsigned and convert at the end: for EVERY string - no precondition on the
   size of the number - they return the unbounded value wrapped to 32 bits (so: the value itself when it fits int,
   always an int, never undefined), and stop at the same place *)
Theorem C12_simple_atoi_wraps : forall s,
  simple_atoi_u s = (wrap32 (fst (simple_atoi s)), snd (simple_atoi s)).
Proof. exact simple_atoi_u_spec. Qed.
Print Assumptions C12_simple_atoi_wraps.

Theorem C12_no_sign_atoi_wraps : forall s,
  no_sign_atoi_u s = (wrap32 (fst (no_sign_atoi s)), snd (no_sign_atoi s)).
Proof. exact no_sign_atoi_u_spec. Qed.
Print Assumptions C12_no_sign_atoi_wraps.

Theorem C12_string_to_int_wraps : forall s checked len,
  string_to_int_u s checked len = option_map wrap32 (string_to_int s checked len).
Proof. exact string_to_int_u_spec. Qed.
Print Assumptions C12_string_to_int_wraps.

Theorem C12_wrap32_is_identity_on_int : forall v, fits_int v = true -> wrap32 v = v.
Proof. exact wrap32_fits. Qed.
Theorem C12_wrap32_is_an_int : forall v, fits_int (wrap32 v) = true.
Proof. exact wrap32_range. Qed.

(* ---- to_str_prec<P>: buffer length *)
Theorem C12_to_str_prec_fits_buffer : forall neg n P, (P <= 6)%nat ->
  0 <= n <= 10 ^ 8 * 10 ^ Z.of_nat P -> (length (fixed_str neg n P) + 1 <= 20)%nat.
Proof. exact to_str_prec_fits_20. Qed.
Print Assumptions C12_to_str_prec_fits_buffer.

Theorem C12_to_str_prec_buf16_ok_upto_4 : forall neg n P, (P <= 4)%nat ->
  0 <= n <= 10 ^ 8 * 10 ^ Z.of_nat P -> (length (fixed_str neg n P) + 1 <= 16)%nat.
Proof. exact to_str_prec_fits_16_upto_4. Qed.
Print Assumptions C12_to_str_prec_buf16_ok_upto_4.

Theorem C12_to_str_prec_buf16_refuted :
  exists neg n P, (P <= 6)%nat /\ 0 <= n <= 10 ^ 8 * 10 ^ Z.of_nat P /\
                  (16 < length (fixed_str neg n P) + 1)%nat.
Proof. exact to_str_prec_buf16_refuted. Qed.
Print Assumptions C12_to_str_prec_buf16_refuted.

(* ---- the reference rounding: nearest, ties to even *)
Theorem C12_rounding_is_nearest : forall nu de z, 0 < de ->
  Z.abs (nu - rne nu de * de) <= Z.abs (nu - z * de).
Proof. exact rne_nearest. Qed.
Print Assumptions C12_rounding_is_nearest.

Theorem C12_rounding_ties_to_even : forall nu de, 0 < de -> 2 * (nu mod de) = de ->
  Z.even (rne nu de) = true.
Proof. exact rne_tie_even. Qed.
Print Assumptions C12_rounding_ties_to_even.

Theorem C12_nearest_double_half_ulp_partial : forall m e k,
  let '(nu, de) := scaled m e k in
  0 < de /\ - de <= 2 * (nu - round_at m e k * de) <= de.
Proof. exact round_at_half_ulp. Qed.
Print Assumptions C12_nearest_double_half_ulp_partial.

(* what nearest_pos returns is that rounding at some binary exponent k0, renormalised after a carry;
   never zero, never beyond the largest exponent (those cases are reported as out of range) *)
Theorem C12_nearest_double_is_rounding : forall m e q k, nearest_pos m e = Finite q k ->
  exists k0, k0 <= k /\ q * 2 ^ (k - k0) = round_at m e k0 /\ q <> 0 /\ k <= 971.
Proof. exact nearest_pos_value. Qed.
Print Assumptions C12_nearest_double_is_rounding.

Theorem C12_bits_roundtrip : forall neg q k,
  (2 ^ 52 <= q < 2 ^ 53 /\ -1074 <= k <= 971) \/ (0 <= q < 2 ^ 52 /\ k = -1074) ->
  decode_bits (bits_of neg q k) = Some (neg, q, k).
Proof. exact decode_bits_of. Qed.
Print Assumptions C12_bits_roundtrip.
