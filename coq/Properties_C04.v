(* Property C04: every tabulated space-group setting is a consistent group with a unique identity.
   Statements only; proofs live in Sym/SgProofs.v. The table (SgTable_gen.v) is regenerated from
   /repo on every run; the domain is finite (564 rows, 28 alternative names, 51 basis operators). *)
From GV Require Import Sym.SgCheck Sym.SgShardDefs Sym.SgProofs.
Local Open Scope Z_scope.

(* each row's operations, generated from its Hall symbol, form a group whose order, centring,
   point group, crystal system and Sohncke/centrosymmetric/enantiomorphic flags agree with
   independent ITA reference data; it equals the reference setting transformed by the tabulated
   change of basis; every operation prints as a triplet that parses back to itself *)
Theorem C04_group : forall r, In r sg_table -> exists g, operations r = HOk g /\ group_spec r g.
Proof. exact table_groups. Qed.
Print Assumptions C04_group.

(* lookups by extended name, by CCP4 number and by operation set return the first row with that key *)
Theorem C04_lookups : forall r, In r sg_table ->
  exists i, In (i, r) indexed_table /\
    lookup_xhm_ok_b i r = true /\ lookup_ccp4_ok_b i r = true /\ lookup_ops_ok_b i r = true.
Proof. exact table_lookups. Qed.
Print Assumptions C04_lookups.

Theorem C04_alt_names : forallb lookup_alt_ok_b alt_table = true.
Proof. exact alt_names_resolve. Qed.
Print Assumptions C04_alt_names.

Theorem C04_basisops_exact :
  forallb (fun s => match parse_triplet s 32 with Ok b => exact_inverse_b b | _ => false end) basisops = true.
Proof. exact basisops_exact. Qed.
Print Assumptions C04_basisops_exact.

Theorem C04_table_size : length sg_table = 564%nat.
Proof. exact table_size. Qed.
Print Assumptions C04_table_size.
