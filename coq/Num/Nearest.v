(* Decimal -> IEEE binary64, round to nearest, ties to even, by integer arithmetic; the reference
   the parsers are compared with (three-way with strtod).  Out-of-range convention of fast_float:
   an infinite result, or a non-zero decimal rounding to zero, is result_out_of_range.
   No proofs in this file (it is extracted). *)
From GV Require Export Base.Str Num.DecParse.
Local Open Scope Z_scope.

(* m * 10^e / 2^k as a fraction of integers N / D (D > 0) *)
Definition scaled (m e k : Z) : Z * Z :=
  (m * 10 ^ (Z.max e 0) * 2 ^ (Z.max (- k) 0), 10 ^ (Z.max (- e) 0) * 2 ^ (Z.max k 0)).

(* nearest integer to N / D, ties to even *)
Definition rne (nu de : Z) : Z :=
  let q := nu / de in
  let r := nu mod de in
  if (de <? 2 * r) || ((de =? 2 * r) && Z.odd q) then q + 1 else q.

Definition round_at (m e k : Z) : Z := let '(nu, de) := scaled m e k in rne nu de.

Inductive rounded := Finite (q k : Z) | Overflow | Underflow.

(* m > 0.  Result q * 2^k with 2^52 <= q < 2^53, or q < 2^52 and k = -1074 *)
Definition nearest_pos (m e : Z) : rounded :=
  (* magnitude shortcuts so that absurd exponents do not build huge powers:
     m >= 1 gives value >= 10^e; m < 10^(log2 m / 3 + 1) *)
  if 310 <? e then Overflow
  else if e + Z.log2 m / 3 + 1 <? -330 then Underflow
  else
    let '(nu0, de0) := scaled m e 0 in
    let l := Z.log2 nu0 - Z.log2 de0 in
    let k1 := Z.max (-1074) (l - 52) in
    let '(nu1, de1) := scaled m e k1 in
    let k := if (nu1 <? 2 ^ 52 * de1) && (-1074 <? k1) then k1 - 1 else k1 in
    let q := round_at m e k in
    let '(q, k) := if q =? 2 ^ 53 then (2 ^ 52, k + 1) else (q, k) in
    if q =? 0 then Underflow else if 971 <? k then Overflow else Finite q k.

Definition sign_bit (neg : bool) : Z := if neg then 2 ^ 63 else 0.
Definition bits_of (neg : bool) (q k : Z) : Z :=
  sign_bit neg + (if q <? 2 ^ 52 then q else (k + 1075) * 2 ^ 52 + (q - 2 ^ 52)).
Definition inf_bits (neg : bool) : Z := sign_bit neg + 2047 * 2 ^ 52.

(* what from_chars stores in the double, and whether ec == errc() *)
Definition nearest_full (d : dec) : Z * bool :=
  if d_mant d =? 0 then (sign_bit (d_neg d), true)
  else match nearest_pos (d_mant d) (d_exp d) with
       | Finite q k => (bits_of (d_neg d) q k, true)
       | Overflow => (inf_bits (d_neg d), false)
       | Underflow => (sign_bit (d_neg d), false)
       end.

(* the parameter `rnd` of DecParse.as_number *)
Definition nearest_double (d : dec) : option Z :=
  let '(b, ok) := nearest_full d in if ok then Some b else None.

(* bits -> (negative, q, k), value = (-1)^neg * q * 2^k; None for inf / nan *)
Definition decode_bits (b : Z) : option (bool * Z * Z) :=
  let neg := 2 ^ 63 <=? b in
  let a := if neg then b - 2 ^ 63 else b in
  let ex := a / 2 ^ 52 in
  let fr := a mod 2 ^ 52 in
  if ex =? 2047 then None
  else if ex =? 0 then Some (neg, fr, -1074)
  else Some (neg, fr + 2 ^ 52, ex - 1075).

(* ---- the readers built on from_chars, with the conversion instantiated *)
Definition as_number_bits (s : str) : option Z := as_number nearest_double s.
Definition as_number_v0_bits (s : str) : option Z := as_number_v0 nearest_double s.

(* fast_from_chars(start, end, d) / fast_atof(p): blanks, one '+', from_chars; d keeps its initial
   0.0 when nothing is parsed. Returns (bits, rest); None = inf/nan spellings (not modelled). *)
Definition fast_atof (s : str) : option (Z * str) :=
  let s1 := skip_while is_cspace s in
  let s2 := if cur s1 =? 43 then adv s1 else s1 in
  if (cur s1 =? 43) && (cur s2 =? 45) then Some (0, s2) else   (* "+-": invalid_argument *)
  match ff_scan s2 with
  | Some (d, r) => Some (fst (nearest_full d), r)
  | None => if ff_infnan s2 then None else Some (0, s2)
  end.

(* pdb.cpp read_double(p, field_length): only the first field_length bytes are looked at *)
Definition read_double (s : str) (len : nat) : option Z :=
  match fast_atof (firstn len s) with
  | Some (b, _) => Some b
  | None => None
  end.
