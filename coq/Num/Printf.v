(* Exact decimal printing used as reference for to_str_prec<P> ("%.Pf"), the length arithmetic of its
   buffer, and the exact half-unit checker applied to what gemmi printed.
   No proofs in this file (it is extracted). *)
From GV Require Export Base.Str Num.DecParse Num.Nearest.
Local Open Scope Z_scope.

(* decimal digits of n >= 0, most significant first (fuel bounds the number of digits) *)
Fixpoint dec_digits (fuel : nat) (n : Z) : str :=
  match fuel with
  | O => []
  | S f => if n <? 10 then [48 + n] else dec_digits f (n / 10) ++ [48 + n mod 10]
  end.

(* exactly p digits of fp (zero padded) *)
Fixpoint frac_digits (p : nat) (fp : Z) : str :=
  match p with
  | O => []
  | S p' => frac_digits p' (fp / 10) ++ [48 + fp mod 10]
  end.

(* "%.Pf" of the number  (-1)^neg * n / 10^P  (n = the value scaled by 10^P and rounded) *)
Definition fixed_str (neg : bool) (n : Z) (P : nat) : str :=
  let pw := 10 ^ Z.of_nat P in
  (if neg then [45] else []) ++ dec_digits 400 (n / pw) ++
  (match P with O => [] | _ => 46 :: frac_digits P (n mod pw) end).

(* correctly rounded (ties to even on the exact binary value, as glibc does) "%.Pf" of a double *)
Definition print_fixed (bits : Z) (P : nat) : option str :=
  match decode_bits bits with
  | Some (neg, q, k) =>
    let nu := q * 10 ^ Z.of_nat P * 2 ^ (Z.max k 0) in
    let de := 2 ^ (Z.max (- k) 0) in
    Some (fixed_str neg (rne nu de) P)
  | None => None
  end.

(* exact test  2 * | a - b | <= 10^u   for a = (-1)^sa * q * 2^k and b = (-1)^sb * m * 10^e *)
Definition half_unit_ok (sa : bool) (q k : Z) (sb : bool) (m e : Z) (u : Z) : bool :=
  let kk := Z.max (- k) 0 in
  let ee := Z.max (Z.max (- e) (- u)) 0 in
  let a := (if sa then -1 else 1) * q * 2 ^ (k + kk) * 10 ^ ee in
  let b := (if sb then -1 else 1) * m * 10 ^ (e + ee) * 2 ^ kk in
  2 * Z.abs (a - b) <=? 10 ^ (u + ee) * 2 ^ kk.

Fixpoint ndigits (fuel : nat) (n : Z) : Z :=
  match fuel with O => 0 | S f => if n <? 10 then 1 else 1 + ndigits f (n / 10) end.

(* what gemmi printed for the double `bits` parses (whole string) as a decimal within half a unit of
   the last digit of the format: fixed = Some P for "%.Pf", None with sig for "%.<sig>g" *)
Definition printed_ok (bits : Z) (txt : str) (fixed : option Z) (sig : Z) : bool :=
  match decode_bits bits, ff_scan txt with
  | Some (sa, q, k), Some (d, []) =>
    match fixed with
    | Some P => half_unit_ok sa q k (d_neg d) (d_mant d) (d_exp d) (- P)
    | None => if d_mant d =? 0 then q =? 0
              else half_unit_ok sa q k (d_neg d) (d_mant d) (d_exp d)
                     (d_exp d + ndigits 800 (d_mant d) - sig)
    end
  | _, _ => false
  end.
