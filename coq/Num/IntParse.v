(* Model of include/gemmi/atox.hpp: is_space / is_blank / is_digit, string_to_int (checked /
   unchecked, optional field length), simple_atoi, no_sign_atoi.  C strings are byte lists; p[i] at
   or after the end of the list reads the terminating NUL (cur [] = 0).  Values are unbounded Z:
   the C code computes in int "with no checking for overflow"; IntParseProofs.v shows that every
   intermediate stays in the int range whenever the final value does (the negative accumulation).
   The repaired code (fix: simple_atoi()/string_to_int()/no_sign_atoi() ... wrap in unsigned arithmetic)
   accumulates in `unsigned` and converts at the end: the *_u definitions below are that code, with the
   wrap-around explicit; IntParseProofs.v proves them equal to wrap32 of the unbounded value for EVERY string.
   No proofs in this file (it is extracted). *)
From GV Require Export Base.Str.
Local Open Scope Z_scope.

(* the 256-entry table of is_space: "1 for 9-13 and 32" (compared entry by entry by the harness) *)
Definition g_is_space (c : Z) : bool := (c =? 32) || ((9 <=? c) && (c <=? 13)).
Definition g_is_blank (c : Z) : bool := (c =? 32) || (c =? 9).
Definition g_is_digit (c : Z) : bool := (48 <=? c) && (c <=? 57).

(* (length == 0 || i < length): unl = field is unlimited, k = bytes of the field still ahead *)
Definition inlim (unl : bool) (k : nat) : bool := unl || (0 <? k)%nat.

Fixpoint sti_skip (unl : bool) (k : nat) (s : str) : nat * str :=
  match s with
  | c :: t => if inlim unl k && g_is_space c then sti_skip unl (pred k) t else (k, s)
  | [] => (k, [])
  end.

(* n = n * 10 - (p[i] - '0'), has_digits *)
Fixpoint sti_digits (unl : bool) (k : nat) (n : Z) (hd : bool) (s : str) : Z * bool * nat * str :=
  match s with
  | c :: t => if inlim unl k && g_is_digit c
              then sti_digits unl (pred k) (n * 10 - (c - 48)) true t
              else (n, hd, k, s)
  | [] => (n, hd, k, [])
  end.

(* string_to_int(p, checked, length); None = throws std::invalid_argument.
   The sign test reads p[i] without the length guard, exactly as the code does. *)
Definition string_to_int (s : str) (checked : bool) (len : nat) : option Z :=
  let unl := (len =? 0)%nat in
  let '(k1, s1) := sti_skip unl len s in
  let '(mult, k2, s2) :=
    if cur s1 =? 45 then (1, pred k1, adv s1)
    else if cur s1 =? 43 then (-1, pred k1, adv s1)
    else (-1, k1, s1) in
  let '(n, hd, k3, s3) := sti_digits unl k2 0 false s2 in
  if checked then
    let '(_, s4) := sti_skip unl k3 s3 in
    if negb hd || negb (cur s4 =? 0) then None else Some (mult * n)
  else Some (mult * n).

(* negative accumulation used by simple_atoi *)
Fixpoint neg_digits (n : Z) (s : str) : Z * str :=
  match s with
  | c :: t => if g_is_digit c then neg_digits (n * 10 - (c - 48)) t else (n, s)
  | [] => (n, [])
  end.

(* simple_atoi(p, &endptr) = (value, endptr) *)
Definition simple_atoi (s : str) : Z * str :=
  let s1 := skip_while g_is_space s in
  let '(mult, s2) :=
    if cur s1 =? 45 then (1, adv s1) else if cur s1 =? 43 then (-1, adv s1) else (-1, s1) in
  let '(n, s3) := neg_digits 0 s2 in
  (mult * n, s3).

Fixpoint pos_digits_acc (n : Z) (s : str) : Z * str :=
  match s with
  | c :: t => if g_is_digit c then pos_digits_acc (n * 10 + (c - 48)) t else (n, s)
  | [] => (n, [])
  end.

(* no_sign_atoi(p, &endptr) *)
Definition no_sign_atoi (s : str) : Z * str :=
  pos_digits_acc 0 (skip_while g_is_space s).

(* ---- the same loops with C int arithmetic made explicit: None = signed overflow (undefined) *)
Definition INT_MIN := -2147483648.
Definition INT_MAX := 2147483647.
Definition fits_int (z : Z) : bool := (INT_MIN <=? z) && (z <=? INT_MAX).
Definition chk (z : Z) : option Z := if fits_int z then Some z else None.

Fixpoint neg_digits_int (n : Z) (s : str) : option Z :=
  match s with
  | c :: t => if g_is_digit c then
                match chk (n * 10) with
                | Some a => match chk (a - (c - 48)) with
                            | Some b => neg_digits_int b t
                            | None => None
                            end
                | None => None
                end
              else Some n
  | [] => Some n
  end.

(* simple_atoi computed in int: None if any intermediate (or mult * n) overflows *)
Definition simple_atoi_int (s : str) : option Z :=
  let s1 := skip_while g_is_space s in
  let '(mult, s2) :=
    if cur s1 =? 45 then (1, adv s1) else if cur s1 =? 43 then (-1, adv s1) else (-1, s1) in
  match neg_digits_int 0 s2 with
  | Some n => chk (mult * n)
  | None => None
  end.

(* ---- the repaired code: unsigned n; n = n * 10 + digit (mod 2^32); return (int)(negative ? 0u - n : n) *)
Definition U32 : Z := 4294967296.
Definition to_int32 (u : Z) : Z := if u <? 2147483648 then u else u - U32.
Definition wrap32 (v : Z) : Z := to_int32 (v mod U32).

Fixpoint sti_digits_u (unl : bool) (k : nat) (n : Z) (hd : bool) (s : str) : Z * bool * nat * str :=
  match s with
  | c :: t => if inlim unl k && g_is_digit c
              then sti_digits_u unl (pred k) ((n * 10 + (c - 48)) mod U32) true t
              else (n, hd, k, s)
  | [] => (n, hd, k, [])
  end.

Definition string_to_int_u (s : str) (checked : bool) (len : nat) : option Z :=
  let unl := (len =? 0)%nat in
  let '(k1, s1) := sti_skip unl len s in
  let '(negative, k2, s2) :=
    if cur s1 =? 45 then (true, pred k1, adv s1)
    else if cur s1 =? 43 then (false, pred k1, adv s1)
    else (false, k1, s1) in
  let '(n, hd, k3, s3) := sti_digits_u unl k2 0 false s2 in
  let r := to_int32 (if negative then (0 - n) mod U32 else n) in
  if checked then
    let '(_, s4) := sti_skip unl k3 s3 in
    if negb hd || negb (cur s4 =? 0) then None else Some r
  else Some r.

Fixpoint u32_digits (n : Z) (s : str) : Z * str :=
  match s with
  | c :: t => if g_is_digit c then u32_digits ((n * 10 + (c - 48)) mod U32) t else (n, s)
  | [] => (n, [])
  end.

Definition simple_atoi_u (s : str) : Z * str :=
  let s1 := skip_while g_is_space s in
  let '(negative, s2) :=
    if cur s1 =? 45 then (true, adv s1) else if cur s1 =? 43 then (false, adv s1) else (false, s1) in
  let '(n, s3) := u32_digits 0 s2 in
  (to_int32 (if negative then (0 - n) mod U32 else n), s3).

Definition no_sign_atoi_u (s : str) : Z * str :=
  let '(n, r) := u32_digits 0 (skip_while g_is_space s) in (to_int32 n, r).

