(* Length arithmetic of to_str_prec<P>: "%.Pf" of |d| < 1e8 needs at most 1 + 9 + 1 + P characters;
   16 bytes are enough for P <= 4 only; 20 bytes are enough for every P <= 6.
   Rounding: nearest-integer rounding of N/D is within half of N/D. *)
From Coq Require Import Lia ZifyBool.
From GV Require Import Base.Str Num.Printf.
Local Open Scope Z_scope.

Lemma dec_digits_len : forall fuel k n, (1 <= k)%nat -> 0 <= n < 10 ^ Z.of_nat k ->
  (length (dec_digits fuel n) <= k)%nat.
Proof.
  induction fuel as [|f IH]; intros k n Hk Hn; cbn [dec_digits]; [cbn; lia|].
  destruct (n <? 10) eqn:E; [cbn; lia|].
  rewrite app_length. cbn [length].
  destruct k as [|k]; [lia|]. destruct k as [|k].
  - change (10 ^ Z.of_nat 1) with 10 in Hn. lia.
  - assert (Hp : 10 ^ Z.of_nat (S (S k)) = 10 * 10 ^ Z.of_nat (S k)).
    { rewrite (Nat2Z.inj_succ (S k)). rewrite Z.pow_succ_r by lia. reflexivity. }
    specialize (IH (S k) (n / 10) ltac:(lia)).
    assert (0 <= n / 10 < 10 ^ Z.of_nat (S k)).
    { split; [apply Z.div_pos; lia|]. apply Z.div_lt_upper_bound; lia. }
    specialize (IH H). lia.
Qed.

Lemma frac_digits_len : forall p fp, length (frac_digits p fp) = p.
Proof. induction p as [|p IH]; intros fp; cbn [frac_digits]; [reflexivity|].
  rewrite app_length, IH. cbn. lia. Qed.

Lemma fixed_str_len : forall neg n P, 0 <= n <= 10 ^ 8 * 10 ^ Z.of_nat P ->
  (length (fixed_str neg n P) <= 1 + 9 + 1 + P)%nat.
Proof.
  intros neg n P Hn. unfold fixed_str. rewrite !app_length.
  assert (Hpw : 0 < 10 ^ Z.of_nat P) by (apply Z.pow_pos_nonneg; lia).
  assert (Hi : 0 <= n / 10 ^ Z.of_nat P < 10 ^ Z.of_nat 9).
  { split; [apply Z.div_pos; lia|]. apply Z.div_lt_upper_bound; [lia|].
    change (10 ^ Z.of_nat 9) with (10 * 10 ^ 8). nia. }
  pose proof (dec_digits_len 400 9 _ ltac:(lia) Hi) as L.
  set (sg := if neg then [45] else []).
  assert (Ls : (length sg <= 1)%nat) by (subst sg; destruct neg; cbn; lia).
  set (fr := match P with O => [] | S _ => 46 :: frac_digits P (n mod 10 ^ Z.of_nat P) end).
  assert (Lf : (length fr <= 1 + P)%nat).
  { subst fr. destruct P; [cbn; lia|]. cbn [length]. rewrite frac_digits_len. lia. }
  lia.
Qed.

(* to_str_prec<P> takes the "%.Pf" branch only for -1e8 < d < 1e8; whatever rounding the printer
   uses, the scaled and rounded magnitude n is an integer with n <= 10^(8+P) *)
Theorem to_str_prec_fits_20 : forall neg n P, (P <= 6)%nat -> 0 <= n <= 10 ^ 8 * 10 ^ Z.of_nat P ->
  (length (fixed_str neg n P) + 1 <= 20)%nat.
Proof. intros neg n P HP Hn. pose proof (fixed_str_len neg n P Hn). lia. Qed.

Theorem to_str_prec_fits_16_upto_4 : forall neg n P, (P <= 4)%nat -> 0 <= n <= 10 ^ 8 * 10 ^ Z.of_nat P ->
  (length (fixed_str neg n P) + 1 <= 16)%nat.
Proof. intros neg n P HP Hn. pose proof (fixed_str_len neg n P Hn). lia. Qed.

(* the snapshot's char buf[16]: d = -1e7 with P = 6 needs 17 bytes, d = 99999999.999999996 (which
   rounds to 100000000.00000) with P = 5 needs 17 bytes as well *)
Theorem to_str_prec_buf16_refuted :
  exists neg n P, (P <= 6)%nat /\ 0 <= n <= 10 ^ 8 * 10 ^ Z.of_nat P /\
                  (16 < length (fixed_str neg n P) + 1)%nat.
Proof. exists true, (10 ^ 7 * 10 ^ 6), 6%nat. split; [lia|]. split; [vm_compute; split; discriminate|].
  vm_compute. lia. Qed.

Example to_str_prec_witness_text :
  fixed_str true (10 ^ 7 * 10 ^ 6) 6 = [45;49;48;48;48;48;48;48;48;46;48;48;48;48;48;48]
  /\ print_fixed 0xc16312d000000000 6 = Some [45;49;48;48;48;48;48;48;48;46;48;48;48;48;48;48]
  /\ print_fixed 0x4197d783ffffffff 5 = Some [49;48;48;48;48;48;48;48;48;46;48;48;48;48;48].
Proof. repeat split; vm_compute; reflexivity. Qed.

(* ---- rounding to the nearest integer *)
Theorem rne_half : forall nu de, 0 < de -> - de <= 2 * (nu - rne nu de * de) <= de.
Proof.
  intros nu de Hd. unfold rne.
  pose proof (Z.div_mod nu de ltac:(lia)) as E. pose proof (Z.mod_pos_bound nu de Hd) as B.
  destruct ((de <? 2 * (nu mod de)) || ((de =? 2 * (nu mod de)) && Z.odd (nu / de))) eqn:C; nia.
Qed.

(* ties go to the even neighbour *)
Theorem rne_tie_even : forall nu de, 0 < de -> 2 * (nu mod de) = de -> Z.even (rne nu de) = true.
Proof.
  intros nu de Hd Ht. unfold rne.
  assert (E1 : (de <? 2 * (nu mod de)) = false) by lia.
  assert (E2 : (de =? 2 * (nu mod de)) = true) by lia.
  rewrite E1, E2. cbn [orb andb].
  destruct (Z.odd (nu / de)) eqn:O.
  - rewrite Z.even_add. rewrite <- Z.negb_odd, O. reflexivity.
  - rewrite <- Z.negb_odd, O. reflexivity.
Qed.

(* any other integer is at least as far from nu/de *)
Theorem rne_nearest : forall nu de z, 0 < de ->
  Z.abs (nu - rne nu de * de) <= Z.abs (nu - z * de).
Proof.
  intros nu de z Hd. pose proof (rne_half nu de Hd) as H.
  set (r := rne nu de) in *.
  destruct (Z.eq_dec z r) as [->|Hne]; [lia|].
  assert (z <= r - 1 \/ r + 1 <= z) by lia. nia.
Qed.

(* the value produced by round_at is within half a unit 2^k of m * 10^e (cleared of denominators:
   with (nu, de) = scaled m e k one has nu / de = m * 10^e / 2^k exactly) *)
Theorem round_at_half_ulp : forall m e k,
  let '(nu, de) := scaled m e k in
  0 < de /\ - de <= 2 * (nu - round_at m e k * de) <= de.
Proof.
  intros m e k. unfold round_at. destruct (scaled m e k) as [nu de] eqn:S.
  assert (Hd : 0 < de).
  { unfold scaled in S. injection S as _ S2. subst de.
    apply Z.mul_pos_pos; apply Z.pow_pos_nonneg; lia. }
  split; [exact Hd|]. apply rne_half. exact Hd.
Qed.

(* ---- the executable reader: cif::as_number with the reference conversion plugged in *)
From GV Require Import Num.DecParseProofs.
Theorem as_number_bits_value : forall s,
  as_number_bits s = match cif_value s with Some d => nearest_double d | None => None end.
Proof. intros s. unfold as_number_bits. apply as_number_spec. Qed.

(* zero keeps its sign and is never out of range; an explicit overflow is rejected *)
Example as_number_examples :
  as_number_bits [45; 48; 46; 48] = Some (2 ^ 63) /\
  as_number_bits [49; 46; 53; 40; 51; 41] = Some 0x3ff8000000000000 /\
  as_number_bits [49; 101; 57; 57; 57] = None /\ as_number_bits [49; 101; 45; 57; 57; 57] = None /\
  as_number_bits [43; 45; 49] = None /\ as_number_bits [49; 46; 53; 40; 41] = None /\
  as_number_v0_bits [43; 45; 49] = Some 0xbff0000000000000.
Proof. repeat split; vm_compute; reflexivity. Qed.
