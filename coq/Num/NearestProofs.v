(* The reference conversion Num/Nearest.v: whatever nearest_pos returns is the ties-to-even rounding
   of m * 10^e at some binary exponent k0 (possibly renormalised after a carry to 2^53), hence within
   half a unit 2^k0 of the decimal value; decode_bits inverts bits_of on the normalised results. *)
From Coq Require Import Lia ZifyBool.
From GV Require Import Base.Str Num.DecParse Num.Nearest Num.Printf Num.PrintfProofs.
Local Open Scope Z_scope.

Theorem nearest_pos_is_rounding : forall m e q k, nearest_pos m e = Finite q k ->
  exists k0, (k = k0 /\ q = round_at m e k0) \/
             (k = k0 + 1 /\ q = 2 ^ 52 /\ round_at m e k0 = 2 ^ 53).
Proof.
  intros m e q k H. unfold nearest_pos in H.
  destruct (310 <? e); [discriminate|].
  destruct (e + Z.log2 m / 3 + 1 <? -330); [discriminate|].
  destruct (scaled m e 0) as [nu0 de0].
  set (k1 := Z.max (-1074) (Z.log2 nu0 - Z.log2 de0 - 52)) in H.
  destruct (scaled m e k1) as [nu1 de1].
  set (k0 := if (nu1 <? 2 ^ 52 * de1) && (-1074 <? k1) then k1 - 1 else k1) in H.
  exists k0.
  destruct (round_at m e k0 =? 2 ^ 53) eqn:C.
  - destruct (2 ^ 52 =? 0); [discriminate|]. destruct (971 <? k0 + 1); [discriminate|].
    injection H as Hq Hk. right. repeat split; lia.
  - destruct (round_at m e k0 =? 0); [discriminate|]. destruct (971 <? k0); [discriminate|].
    injection H as Hq Hk. left. split; lia.
Qed.

(* in both cases q * 2^k is the same real number as round_at m e k0 * 2^k0; the result is not
   zero and not beyond the largest binary exponent *)
Theorem nearest_pos_value : forall m e q k, nearest_pos m e = Finite q k ->
  exists k0, k0 <= k /\ q * 2 ^ (k - k0) = round_at m e k0 /\ q <> 0 /\ k <= 971.
Proof.
  intros m e q k H. unfold nearest_pos in H.
  destruct (310 <? e); [discriminate|].
  destruct (e + Z.log2 m / 3 + 1 <? -330); [discriminate|].
  destruct (scaled m e 0) as [nu0 de0].
  set (k1 := Z.max (-1074) (Z.log2 nu0 - Z.log2 de0 - 52)) in H.
  destruct (scaled m e k1) as [nu1 de1].
  set (k0 := if (nu1 <? 2 ^ 52 * de1) && (-1074 <? k1) then k1 - 1 else k1) in H.
  exists k0.
  destruct (round_at m e k0 =? 2 ^ 53) eqn:C.
  - destruct (2 ^ 52 =? 0) eqn:Z52; [discriminate|]. destruct (971 <? k0 + 1) eqn:K; [discriminate|].
    injection H as Hq Hk. subst q k.
    replace (k0 + 1 - k0) with 1 by lia. change (2 ^ 52 * 2 ^ 1) with (2 ^ 53).
    repeat split; lia.
  - destruct (round_at m e k0 =? 0) eqn:Z0; [discriminate|]. destruct (971 <? k0) eqn:K; [discriminate|].
    injection H as Hq Hk. subst q k. rewrite Z.sub_diag, Z.mul_1_r.
    repeat split; lia.
Qed.

(* decode_bits inverts bits_of on normalised results *)
Theorem decode_bits_of : forall neg q k,
  (2 ^ 52 <= q < 2 ^ 53 /\ -1074 <= k <= 971) \/ (0 <= q < 2 ^ 52 /\ k = -1074) ->
  decode_bits (bits_of neg q k) = Some (neg, q, k).
Proof.
  intros neg q k H. unfold decode_bits, bits_of, sign_bit.
  change (2 ^ 63) with 9223372036854775808. change (2 ^ 52) with 4503599627370496 in *.
  change (2 ^ 53) with 9007199254740992 in *.
  destruct H as [[Hq Hk]|[Hq Hk]].
  - assert (E : (q <? 4503599627370496) = false) by lia. rewrite E.
    set (a := (k + 1075) * 4503599627370496 + (q - 4503599627370496)).
    assert (Ha : 0 <= a < 9223372036854775808) by (subst a; lia).
    assert (Hdiv : a / 4503599627370496 = k + 1075).
    { subst a. rewrite Z.div_add_l by lia. rewrite Z.div_small by lia. lia. }
    assert (Hmod : a mod 4503599627370496 = q - 4503599627370496).
    { subst a. rewrite Z.add_comm, Z.mod_add by lia. apply Z.mod_small. lia. }
    destruct neg.
    + assert (E1 : (9223372036854775808 <=? 9223372036854775808 + a) = true) by lia. rewrite E1.
      replace (9223372036854775808 + a - 9223372036854775808) with a by lia.
      rewrite Hdiv, Hmod.
      assert (E2 : (k + 1075 =? 2047) = false) by lia. assert (E3 : (k + 1075 =? 0) = false) by lia.
      rewrite E2, E3. f_equal. f_equal; [f_equal; lia|lia].
    + assert (E1 : (9223372036854775808 <=? 0 + a) = false) by lia. rewrite E1.
      replace (0 + a) with a by lia. rewrite Hdiv, Hmod.
      assert (E2 : (k + 1075 =? 2047) = false) by lia. assert (E3 : (k + 1075 =? 0) = false) by lia.
      rewrite E2, E3. f_equal. f_equal; [f_equal; lia|lia].
  - assert (E : (q <? 4503599627370496) = true) by lia. rewrite E. subst k.
    assert (Hdiv : q / 4503599627370496 = 0) by (apply Z.div_small; lia).
    assert (Hmod : q mod 4503599627370496 = q) by (apply Z.mod_small; lia).
    destruct neg.
    + assert (E1 : (9223372036854775808 <=? 9223372036854775808 + q) = true) by lia. rewrite E1.
      replace (9223372036854775808 + q - 9223372036854775808) with q by lia.
      rewrite Hdiv, Hmod. reflexivity.
    + assert (E1 : (9223372036854775808 <=? 0 + q) = false) by lia. rewrite E1.
      replace (0 + q) with q by lia. rewrite Hdiv, Hmod. reflexivity.
Qed.
