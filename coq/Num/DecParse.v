(* CIF number syntax (decidable predicate + exact decimal value) and the model of
   cif::as_number (include/gemmi/numb.hpp) around fast_float::from_chars.
   - is_cif_numb / cif_value are written from the CIF 1.1 grammar:
       Numeric := Number | Number '(' UnsignedInteger ')'
       Number  := [+-]? ( Digit+ | Digit* '.' Digit+ | Digit+ '.' ) ( [eE] [+-]? Digit+ )?
   - ff_scan mirrors fast_float's parse_number_string (general format, decimal point '.'),
     ff_infnan its parse_infnan; the digit-to-binary conversion is a parameter `rnd` of the model
     (None = result_out_of_range), instantiated by Nearest.nearest_double for the executable model.
   - as_number_v0 is the code of the pinned snapshot, as_number the code after the two repairs.
   No proofs in this file (it is extracted). *)
From GV Require Export Base.Str.
Local Open Scope Z_scope.

Record dec := mkDec { d_neg : bool; d_mant : Z; d_exp : Z }.   (* (-1)^neg * mant * 10^exp *)

(* a run of digits: accumulated value (continuing from acc), number of digits, rest *)
Fixpoint scan_digits (acc cnt : Z) (s : str) : Z * Z * str :=
  match s with
  | c :: t => if is_digit c then scan_digits (acc * 10 + (c - 48)) (cnt + 1) t else (acc, cnt, s)
  | [] => (acc, cnt, [])
  end.

(* ------------------------------------------------------------------ the CIF grammar *)
Definition strip_sign (s : str) : bool * str :=
  match s with
  | c :: t => if c =? 45 then (true, t) else if c =? 43 then (false, t) else (false, s)
  | [] => (false, [])
  end.

(* Number: returns the decimal and what follows it; None if no Number starts here or if an
   exponent marker is not followed by [+-]? Digit+ *)
Definition cif_number (s : str) : option (dec * str) :=
  let '(neg, s1) := strip_sign s in
  let '(ip, n1, s2) := scan_digits 0 0 s1 in
  let '(m, n2, s3) := match s2 with
                      | c :: t => if c =? 46 then scan_digits ip 0 t else (ip, 0, s2)
                      | [] => (ip, 0, s2)
                      end in
  if n1 + n2 =? 0 then None else
  match s3 with
  | c :: t =>
    if (c =? 101) || (c =? 69) then
      let '(eneg, t1) := strip_sign t in
      let '(ex, ne, s4) := scan_digits 0 0 t1 in
      if ne =? 0 then None
      else Some (mkDec neg m ((if eneg then - ex else ex) - n2), s4)
    else Some (mkDec neg m (- n2), s3)
  | [] => Some (mkDec neg m (- n2), [])
  end.

(* optional standard uncertainty: nothing, or '(' Digit+ ')' up to the end of the string *)
Definition cif_su_ok (s : str) : bool :=
  match s with
  | [] => true
  | c :: t => if c =? 40 then
                let '(_, n, r) := scan_digits 0 0 t in
                (0 <? n) && match r with [c2] => c2 =? 41 | _ => false end
              else false
  end.

Definition cif_value (s : str) : option dec :=
  match cif_number s with
  | Some (d, r) => if cif_su_ok r then Some d else None
  | None => None
  end.

Definition is_cif_numb (s : str) : bool :=
  match cif_value s with Some _ => true | None => false end.

(* ------------------------------------------------------------------ fast_float's tokenizer *)
Definition ff_scan (s : str) : option (dec * str) :=
  let neg := cur s =? 45 in
  let s1 := if neg then adv s else s in
  if neg && negb (is_digit (cur s1) || (cur s1 =? 46)) then None else
  let '(i1, n1, s2) := scan_digits 0 0 s1 in
  let '(i2, n2, s3) := if cur s2 =? 46 then scan_digits i1 0 (adv s2) else (i1, 0, s2) in
  if n1 + n2 =? 0 then None else
  let '(e, s4) :=
    if (cur s3 =? 101) || (cur s3 =? 69) then
      let t := adv s3 in
      let '(eneg, t1) := if cur t =? 45 then (true, adv t)
                         else if cur t =? 43 then (false, adv t) else (false, t) in
      if is_digit (cur t1) then
        let '(ex, _, s4) := scan_digits 0 0 t1 in ((if eneg then - ex else ex), s4)
      else (0, s3)       (* "Otherwise, we will be ignoring the 'e'." *)
    else (0, s3) in
  Some (mkDec neg i2 (e - n2), s4).

(* parse_infnan succeeds: [-] then nan / inf in any letter case *)
Definition lower (c : Z) : Z := Z.lor c 32.
Definition ff_infnan (s : str) : bool :=
  let s1 := if cur s =? 45 then adv s else s in
  match s1 with
  | a :: b :: c :: _ =>
    ((lower a =? 110) && (lower b =? 97) && (lower c =? 110))
    || ((lower a =? 105) && (lower b =? 110) && (lower c =? 102))
  | _ => false
  end.

Inductive ffres :=
| FFOk (bits : Z) (rest : str)      (* ec == errc(), value, ptr *)
| FFRange                           (* result_out_of_range *)
| FFInvalid                         (* invalid_argument *)
| FFInfNan.                         (* parse_infnan produced inf / nan *)

Section Model.
  (* decimal -> IEEE binary64 bits, None when fast_float reports result_out_of_range *)
  Variable rnd : dec -> option Z.

  Definition from_chars (s : str) : ffres :=
    (* first == last gives invalid_argument: covered by ff_scan [] = None, ff_infnan [] = false *)
    match ff_scan s with
    | Some (d, r) => match rnd d with Some b => FFOk b r | None => FFRange end
    | None => if ff_infnan s then FFInfNan else FFInvalid
    end.

  (* the s.u. suffix step of as_number: v0 accepts "()", the repaired code wants a digit *)
  Definition su_step (need_digit : bool) (rest : str) : str :=
    if cur rest =? 40 then
      let p := skip_while is_digit (adv rest) in
      if (cur p =? 41) && (negb need_digit || negb (length p =? length (adv rest))%nat)
      then adv p else rest
    else rest.

  Definition in_filter (s0 : str) : bool :=
    let f := lower (cur (if cur s0 =? 45 then adv s0 else s0)) in
    (f =? 105) || (f =? 110).

  Definition finish (need_digit : bool) (s0 : str) : option Z :=
    if in_filter s0 then None else
    match from_chars s0 with
    | FFOk b rest => match su_step need_digit rest with [] => Some b | _ => None end
    | _ => None
    end.

  (* pinned snapshot *)
  Definition as_number_v0 (s : str) : option Z :=
    finish false (if cur s =? 43 then adv s else s).

  (* after "fix: ... double sign" and "fix: ... empty standard uncertainty" *)
  Definition as_number (s : str) : option Z :=
    if cur s =? 43 then
      if cur (adv s) =? 45 then None else finish true (adv s)
    else finish true s.
End Model.

(* fast_atof / fast_from_chars(start, end): blanks, one '+', from_chars. Result: value bits
   (None when from_chars leaves d untouched or produced inf/nan) *)
Definition skip_plus (s : str) : str := if cur s =? 43 then adv s else s.
