(* Proofs about the integer readers of atox.hpp (model: Num/IntParse.v) against the strtol model
   strtol10 of Base/Str.v. *)
From Coq Require Import Lia ZifyBool.
From GV Require Import Base.Str Num.IntParse.
Local Open Scope Z_scope.

Lemma g_is_space_cspace : forall c, g_is_space c = is_cspace c.
Proof. reflexivity. Qed.
Lemma g_is_digit_digit : forall c, g_is_digit c = is_digit c.
Proof. reflexivity. Qed.

Lemma skip_while_ext : forall (p q : Z -> bool) s, (forall c, p c = q c) -> skip_while p s = skip_while q s.
Proof. intros p q s H; induction s as [|c t IH]; cbn; [reflexivity|]. rewrite H, IH. reflexivity. Qed.

(* ---- negative accumulation = minus the positive accumulation *)
Lemma neg_digits_spec : forall s n,
  neg_digits n s = (- fst (digits_acc (- n) s), snd (digits_acc (- n) s)).
Proof.
  induction s as [|c t IH]; intros n; cbn.
  - f_equal; lia.
  - unfold g_is_digit, is_digit. destruct ((48 <=? c) && (c <=? 57)) eqn:E.
    + rewrite IH. replace (- (n * 10 - (c - 48))) with (- n * 10 + (c - 48)) by ring. reflexivity.
    + cbn. f_equal; lia.
Qed.

Lemma pos_digits_acc_spec : forall s n, pos_digits_acc n s = digits_acc n s.
Proof. induction s as [|c t IH]; intros n; cbn; [reflexivity|]. unfold g_is_digit, is_digit.
  destruct ((48 <=? c) && (c <=? 57)); [apply IH|reflexivity]. Qed.

Lemma digits_acc_nodigit : forall s a, is_digit (cur s) = false -> digits_acc a s = (a, s).
Proof. intros [|c t] a H; cbn in *; [reflexivity|]. rewrite H. reflexivity. Qed.

(* ---- the unlimited-length loops of string_to_int are the plain loops *)
Lemma sti_skip_unl : forall s k, snd (sti_skip true k s) = skip_while is_cspace s.
Proof. induction s as [|c t IH]; intros k; cbn; [reflexivity|].
  change (g_is_space c) with (is_cspace c). destruct (is_cspace c); [apply IH|reflexivity]. Qed.

Lemma sti_digits_unl : forall s k n hd,
  let '(v, _, _, r) := sti_digits true k n hd s in (v, r) = neg_digits n s.
Proof. induction s as [|c t IH]; intros k n hd; cbn; [reflexivity|].
  destruct (g_is_digit c); [apply IH|reflexivity]. Qed.

Lemma sti_digits_hd : forall s unl k n hd,
  let '(_, h, _, r) := sti_digits unl k n hd s in
  h = hd || (inlim unl k && g_is_digit (cur s)).
Proof. induction s as [|c t IH]; intros unl k n hd; cbn.
  - rewrite andb_false_r, orb_false_r. reflexivity.
  - destruct (inlim unl k && g_is_digit c) eqn:E.
    + specialize (IH unl (pred k) (n * 10 - (c - 48)) true).
      destruct (sti_digits unl (pred k) (n * 10 - (c - 48)) true t) as [[[v h] k'] r].
      rewrite IH. cbn. rewrite orb_true_r. reflexivity.
    + rewrite orb_false_r. reflexivity.
Qed.

Lemma match_sign : forall (A : Type) (f g : str -> A) (h : A) (s1 : str),
  match s1 with 45 :: t => f t | 43 :: t => g t | _ => h end =
  if cur s1 =? 45 then f (adv s1) else if cur s1 =? 43 then g (adv s1) else h.
Proof.
  intros A f g h [|c t]; [reflexivity|].
  destruct c as [|p|p]; try reflexivity.
  do 6 (destruct p as [p|p|]; try reflexivity).
Qed.

(* value of the sign-and-digits part as strtol computes it *)
Definition signed_digits (s1 : str) : Z :=
  if cur s1 =? 45 then - fst (digits_acc 0 (adv s1))
  else if cur s1 =? 43 then fst (digits_acc 0 (adv s1))
  else fst (digits_acc 0 s1).

Lemma strtol10_value : forall s, fst (strtol10 s) = signed_digits (skip_while is_cspace s).
Proof.
  intros s. unfold strtol10, signed_digits.
  set (s1 := skip_while is_cspace s).
  pose proof (match_sign _ (fun t => (true, t)) (fun t => (false, t)) (false, s1) s1) as M.
  cbv beta in M. unfold str in *. rewrite M. clear M.
  assert (G : forall (neg : bool) (s2 : str), fst (if is_digit (cur s2)
                 then let '(v, rest) := digits_acc 0 s2 in (if neg then - v else v, rest)
                 else (0, s)) = (let v := fst (digits_acc 0 s2) in if neg : bool then - v else v)).
  { intros neg s2. destruct (is_digit (cur s2)) eqn:D.
    - destruct (digits_acc 0 s2); reflexivity.
    - rewrite (digits_acc_nodigit _ _ D). cbn. destruct neg; reflexivity. }
  destruct (cur s1 =? 45); [exact (G true (adv s1))|].
  destruct (cur s1 =? 43); [exact (G false (adv s1))|exact (G false s1)].
Qed.

Lemma neg_sign_value : forall s1,
  (let '(mult, s2) := if cur s1 =? 45 then (1, adv s1) else if cur s1 =? 43 then (-1, adv s1) else (-1, s1) in
   mult * fst (neg_digits 0 s2)) = signed_digits s1.
Proof.
  intros s1. unfold signed_digits.
  assert (G : forall s2, fst (neg_digits 0 s2) = - fst (digits_acc 0 s2)).
  { intros s2. rewrite neg_digits_spec. reflexivity. }
  destruct (cur s1 =? 45); [rewrite G; lia|]. destruct (cur s1 =? 43); rewrite G; lia.
Qed.

(* ---- simple_atoi *)
Theorem simple_atoi_value : forall s, fst (simple_atoi s) = fst (strtol10 s).
Proof.
  intros s. rewrite strtol10_value. unfold simple_atoi.
  rewrite (skip_while_ext g_is_space is_cspace s g_is_space_cspace).
  rewrite <- neg_sign_value. set (s1 := skip_while is_cspace s).
  destruct (if cur s1 =? 45 then (1, adv s1) else if cur s1 =? 43 then (-1, adv s1) else (-1, s1)) as [m s2].
  destruct (neg_digits 0 s2) as [n r]. reflexivity.
Qed.

(* when strtol converts something (a digit follows the optional sign) the end pointers agree too *)
Theorem simple_atoi_end : forall s,
  snd (strtol10 s) <> s -> snd (simple_atoi s) = snd (strtol10 s).
Proof.
  intros s. unfold simple_atoi, strtol10.
  rewrite (skip_while_ext g_is_space is_cspace s g_is_space_cspace).
  set (s1 := skip_while is_cspace s).
  pose proof (match_sign _ (fun t => (true, t)) (fun t => (false, t)) (false, s1) s1) as M.
  cbv beta in M. unfold str in *. rewrite M. clear M.
  assert (G : forall (neg : bool) (m : Z) s2,
    snd (if is_digit (cur s2)
         then let '(v, rest) := digits_acc 0 s2 in (if neg then - v else v, rest) else (0, s)) <> s ->
    snd (let '(n, s3) := neg_digits 0 s2 in (m * n, s3)) =
    snd (if is_digit (cur s2)
         then let '(v, rest) := digits_acc 0 s2 in (if neg then - v else v, rest) else (0, s))).
  { intros neg m s2. destruct (is_digit (cur s2)).
    - intros _. rewrite neg_digits_spec. destruct (digits_acc (- 0) s2) eqn:E. cbn in E. rewrite E. reflexivity.
    - cbn. intros H; exfalso; apply H; reflexivity. }
  destruct (cur s1 =? 45); [exact (G true 1 (adv s1))|].
  destruct (cur s1 =? 43); [exact (G false (-1) (adv s1))|exact (G false (-1) s1)].
Qed.

Theorem simple_atoi_strtol : forall s,
  fst (simple_atoi s) = fst (strtol10 s) /\
  (snd (strtol10 s) <> s -> snd (simple_atoi s) = snd (strtol10 s)).
Proof. intros s. split; [apply simple_atoi_value|apply simple_atoi_end]. Qed.

(* ---- string_to_int, unchecked, NUL-terminated (length = 0) *)
Theorem string_to_int_unchecked_value : forall s,
  string_to_int s false 0 = Some (fst (strtol10 s)).
Proof.
  intros s. rewrite <- simple_atoi_value. unfold string_to_int, simple_atoi. cbn [Nat.eqb].
  pose proof (sti_skip_unl s 0) as Hs.
  destruct (sti_skip true 0 s) as [k1 s1]. cbn in Hs. subst s1.
  rewrite (skip_while_ext g_is_space is_cspace s g_is_space_cspace).
  set (s1 := skip_while is_cspace s).
  assert (G : forall m k2 s2,
    (let '(n, _, _, _) := sti_digits true k2 0 false s2 in Some (m * n))
    = Some (fst (let '(n, s3) := neg_digits 0 s2 in (m * n, s3)))).
  { intros m k2 s2. pose proof (sti_digits_unl s2 k2 0 false) as H.
    destruct (sti_digits true k2 0 false s2) as [[[v h] k'] r]. rewrite <- H. reflexivity. }
  destruct (cur s1 =? 45).
  - specialize (G 1 (pred k1) (adv s1)).
    destruct (sti_digits true (pred k1) 0 false (adv s1)) as [[[v h] k'] r]. exact G.
  - destruct (cur s1 =? 43).
    + specialize (G (-1) (pred k1) (adv s1)).
      destruct (sti_digits true (pred k1) 0 false (adv s1)) as [[[v h] k'] r]. exact G.
    + specialize (G (-1) k1 s1).
      destruct (sti_digits true k1 0 false s1) as [[[v h] k'] r]. exact G.
Qed.

(* ---- no_sign_atoi: equals strtol when the number carries no sign *)
Theorem no_sign_atoi_value : forall s,
  cur (skip_while is_cspace s) <> 45 -> cur (skip_while is_cspace s) <> 43 ->
  fst (no_sign_atoi s) = fst (strtol10 s).
Proof.
  intros s H45 H43. rewrite strtol10_value. unfold no_sign_atoi, signed_digits.
  rewrite (skip_while_ext g_is_space is_cspace s g_is_space_cspace).
  rewrite pos_digits_acc_spec.
  destruct (skip_while is_cspace s) as [|c t]; [reflexivity|]. cbn in H45, H43.
  destruct c as [|p|p]; try reflexivity.
  do 6 (destruct p as [p|p|]; try reflexivity); contradiction.
Qed.

(* ---- fixed-column reading: string_to_int(p, false, len) depends on the first len bytes only
   and equals strtol of that field *)
Lemma skip_lim : forall s k,
  sti_skip false k s
  = (k - (length (firstn k s) - length (skip_while is_cspace (firstn k s))),
     skipn (length (firstn k s) - length (skip_while is_cspace (firstn k s))) s)%nat.
Proof.
  induction s as [|c t IH]; intros k.
  - destruct k; cbn; f_equal; lia.
  - destruct k as [|k]; [cbn; reflexivity|].
    cbn [sti_skip inlim orb Nat.ltb Nat.leb andb firstn skip_while].
    change (g_is_space c) with (is_cspace c).
    destruct (is_cspace c) eqn:E.
    + cbn [pred]. rewrite IH. cbn [length].
      assert (L : (length (skip_while is_cspace (firstn k t)) <= length (firstn k t))%nat).
      { clear. generalize (firstn k t). induction l as [|x l IHl]; cbn; [lia|].
        destruct (is_cspace x); cbn; lia. }
      replace (S (length (firstn k t)) - length (skip_while is_cspace (firstn k t)))%nat
        with (S (length (firstn k t) - length (skip_while is_cspace (firstn k t)))) by lia.
      cbn [skipn]. f_equal; try lia.
    + cbn [length]. rewrite Nat.sub_diag. cbn. f_equal.
Qed.

Lemma skip_while_len : forall p l, (length (skip_while p l) <= length l)%nat.
Proof. induction l as [|x l IHl]; cbn; [lia|]. destruct (p x); cbn; lia. Qed.

Lemma skip_while_suffix : forall p l,
  skip_while p l = skipn (length l - length (skip_while p l)) l.
Proof.
  induction l as [|x l IHl]; [reflexivity|]. cbn [skip_while].
  destruct (p x) eqn:E.
  - pose proof (skip_while_len p l). cbn [length].
    replace (S (length l) - length (skip_while p l))%nat
      with (S (length l - length (skip_while p l))) by lia.
    cbn [skipn]. exact IHl.
  - rewrite Nat.sub_diag. reflexivity.
Qed.

Lemma firstn_skipn_comm' : forall (A : Type) (l : list A) j k, (j <= k)%nat ->
  skipn j (firstn k l) = firstn (k - j) (skipn j l).
Proof.
  intros A l. induction l as [|x l IH]; intros j k H.
  - rewrite firstn_nil, !skipn_nil, firstn_nil. reflexivity.
  - destruct j; [rewrite Nat.sub_0_r; reflexivity|].
    destruct k; [lia|]. cbn. apply IH. lia.
Qed.

Lemma digits_lim : forall s k n hd,
  (let '(v, _, _, _) := sti_digits false k n hd s in v) = fst (neg_digits n (firstn k s)).
Proof.
  induction s as [|c t IH]; intros k n hd.
  - rewrite firstn_nil. reflexivity.
  - destruct k as [|k]; [reflexivity|].
    cbn [sti_digits inlim orb Nat.ltb Nat.leb andb firstn neg_digits].
    destruct (g_is_digit c); [cbn [pred]; apply IH|reflexivity].
Qed.

Theorem string_to_int_field : forall s len, (0 < len)%nat ->
  string_to_int s false len = Some (fst (strtol10 (firstn len s))).
Proof.
  intros s len Hlen. rewrite strtol10_value. unfold string_to_int.
  destruct len as [|len']; [lia|]. cbn [Nat.eqb]. set (len := S len') in *.
  rewrite skip_lim.
  set (f := firstn len s). set (j := (length f - length (skip_while is_cspace f))%nat).
  assert (Hj : (j <= len)%nat).
  { subst j f. pose proof (firstn_le_length len s). lia. }
  assert (Hf : skip_while is_cspace f = firstn (len - j) (skipn j s)).
  { rewrite (skip_while_suffix is_cspace f). fold j. subst f. apply firstn_skipn_comm'. exact Hj. }
  rewrite Hf. set (s1 := skipn j s). set (k1 := (len - j)%nat).
  rewrite <- neg_sign_value.
  assert (G : forall m k2 s2,
    (let '(n, _, _, _) := sti_digits false k2 0 false s2 in Some (m * n))
    = Some (m * fst (neg_digits 0 (firstn k2 s2)))).
  { intros m k2 s2. pose proof (digits_lim s2 k2 0 false) as H.
    destruct (sti_digits false k2 0 false s2) as [[[v h] k'] r]. rewrite H. reflexivity. }
  (* case analysis on the byte at the sign position; when the field is exhausted (k1 = 0) the code
     still looks at the next byte, but then no digit is read and the value is 0 either way *)
  destruct k1 as [|k1'] eqn:Ek.
  - assert (D0 : forall x, sti_digits false 0 0 false x = (0, false, 0%nat, x)).
    { intros [|c t]; reflexivity. }
    rewrite firstn_O.
    destruct (cur s1 =? 45); [|destruct (cur s1 =? 43)]; cbn [pred]; rewrite D0; reflexivity.
  - destruct s1 as [|c t]; [cbn; reflexivity|].
    cbn [cur adv firstn].
    destruct (c =? 45) eqn:E45.
    { assert (c = 45) by lia; subst c. cbn [pred].
      specialize (G 1 k1' t). destruct (sti_digits false k1' 0 false t) as [[[v h] k'] r]. exact G. }
    destruct (c =? 43) eqn:E43.
    { assert (c = 43) by lia; subst c. cbn [pred].
      specialize (G (-1) k1' t). destruct (sti_digits false k1' 0 false t) as [[[v h] k'] r]. exact G. }
    specialize (G (-1) (S k1') (c :: t)).
    destruct (sti_digits false (S k1') 0 false (c :: t)) as [[[v h] k'] r]. rewrite G. cbn [firstn].
    reflexivity.
Qed.

(* ---- int arithmetic: when the final value fits in int, no intermediate of the negative
   accumulation overflows, and the int computation returns the unbounded value *)
Lemma neg_digits_mono : forall s n, n <= 0 -> fst (neg_digits n s) <= n.
Proof.
  induction s as [|c t IH]; intros n Hn; cbn; [lia|].
  unfold g_is_digit. destruct ((48 <=? c) && (c <=? 57)) eqn:E; [|cbn; lia].
  specialize (IH (n * 10 - (c - 48))). lia.
Qed.

Lemma neg_digits_int_ok : forall s n, n <= 0 -> INT_MIN <= fst (neg_digits n s) ->
  neg_digits_int n s = Some (fst (neg_digits n s)).
Proof.
  induction s as [|c t IH]; intros n Hn Hv; cbn in *; [reflexivity|].
  unfold g_is_digit in *. destruct ((48 <=? c) && (c <=? 57)) eqn:E; [|reflexivity].
  pose proof (neg_digits_mono t (n * 10 - (c - 48))) as M.
  unfold chk, fits_int, INT_MIN, INT_MAX in *.
  assert (H1 : (-2147483648 <=? n * 10) && (n * 10 <=? 2147483647) = true) by lia.
  rewrite H1.
  assert (H2 : (-2147483648 <=? n * 10 - (c - 48)) && (n * 10 - (c - 48) <=? 2147483647) = true) by lia.
  rewrite H2. apply IH; lia.
Qed.

Theorem simple_atoi_no_overflow : forall s,
  fits_int (fst (simple_atoi s)) = true -> simple_atoi_int s = Some (fst (simple_atoi s)).
Proof.
  intros s. unfold simple_atoi, simple_atoi_int.
  set (s1 := skip_while g_is_space s).
  assert (G : forall m s2, (m = 1 \/ m = -1) ->
     fits_int (fst (let '(n, s3) := neg_digits 0 s2 in (m * n, s3))) = true ->
     match neg_digits_int 0 s2 with Some n => chk (m * n) | None => None end
     = Some (fst (let '(n, s3) := neg_digits 0 s2 in (m * n, s3)))).
  { intros m s2 Hm. pose proof (neg_digits_mono s2 0 ltac:(lia)) as M.
    pose proof (neg_digits_int_ok s2 0 ltac:(lia)) as K.
    destruct (neg_digits 0 s2) as [n r]. cbn [fst] in *. intros Hin.
    rewrite K.
    - unfold chk. rewrite Hin. reflexivity.
    - unfold fits_int, INT_MIN, INT_MAX in *. lia. }
  destruct (cur s1 =? 45); [apply G; lia|]. destruct (cur s1 =? 43); apply G; lia.
Qed.

(* ---- checked variant: accepts exactly  blanks* [+-]? digit+ blanks* NUL,  with strtol's value *)
Definition int_syntax_ok (s : str) : bool :=
  let s1 := skip_while is_cspace s in
  let s2 := if cur s1 =? 45 then adv s1 else if cur s1 =? 43 then adv s1 else s1 in
  is_digit (cur s2) && (cur (skip_while is_cspace (snd (digits_acc 0 s2))) =? 0).

Theorem string_to_int_checked_spec : forall s,
  string_to_int s true 0 = if int_syntax_ok s then Some (fst (strtol10 s)) else None.
Proof.
  intros s. rewrite <- string_to_int_unchecked_value. unfold string_to_int, int_syntax_ok. cbn [Nat.eqb].
  pose proof (sti_skip_unl s 0) as Hs.
  destruct (sti_skip true 0 s) as [k1 s1]. cbn in Hs. subst s1.
  set (s1 := skip_while is_cspace s).
  assert (G : forall m k2 s2,
    (let '(n, hd, k3, s3) := sti_digits true k2 0 false s2 in
     let '(_, s4) := sti_skip true k3 s3 in
     if negb hd || negb (cur s4 =? 0) then None else Some (m * n))
    = if is_digit (cur s2) && (cur (skip_while is_cspace (snd (digits_acc 0 s2))) =? 0)
      then (let '(n, _, _, _) := sti_digits true k2 0 false s2 in Some (m * n)) else None).
  { intros m k2 s2. pose proof (sti_digits_unl s2 k2 0 false) as H.
    pose proof (sti_digits_hd s2 true k2 0 false) as Hh.
    destruct (sti_digits true k2 0 false s2) as [[[v h] k'] r].
    pose proof (sti_skip_unl r k') as Hk. destruct (sti_skip true k' r) as [k4 s4]. cbn in Hk. subst s4.
    rewrite neg_digits_spec in H. cbn in H. injection H as Hv Hr. subst r.
    cbn in Hh. change (g_is_digit (cur s2)) with (is_digit (cur s2)) in Hh. subst h.
    destruct (is_digit (cur s2)); cbn; [|reflexivity].
    destruct (cur (skip_while is_cspace (snd (digits_acc 0 s2))) =? 0); reflexivity. }
  destruct (cur s1 =? 45); [apply G|]. destruct (cur s1 =? 43); apply G.
Qed.

(* ---- the repaired code (unsigned accumulation): for EVERY string, with no overflow precondition, the
   result is the unbounded value wrapped to 32 bits; in particular it is the value itself when that fits int *)
Lemma U32_pos : 0 < U32. Proof. reflexivity. Qed.

Lemma wrap32_fits : forall v, fits_int v = true -> wrap32 v = v.
Proof.
  intros v H. unfold fits_int, INT_MIN, INT_MAX in H. unfold wrap32, to_int32, U32.
  apply andb_prop in H. destruct H as [H1 H2]. apply Z.leb_le in H1. apply Z.leb_le in H2.
  pose proof (Z.div_mod v 4294967296 ltac:(lia)) as D.
  pose proof (Z.mod_pos_bound v 4294967296 ltac:(lia)) as B.
  set (q := v / 4294967296) in *. set (r := v mod 4294967296) in *. clearbody q r.
  destruct (Z.ltb_spec r 2147483648); lia.
Qed.

Lemma wrap32_range : forall v, fits_int (wrap32 v) = true.
Proof.
  intros v. unfold wrap32, to_int32, fits_int, INT_MIN, INT_MAX, U32.
  pose proof (Z.mod_pos_bound v 4294967296 ltac:(lia)) as B.
  destruct (Z.ltb_spec (v mod 4294967296) 2147483648); lia.
Qed.

Lemma wrap32_congr : forall a b, a mod U32 = b mod U32 -> wrap32 a = wrap32 b.
Proof. intros a b H. unfold wrap32. rewrite H. reflexivity. Qed.

(* negation in unsigned arithmetic: (0u - n) with n already reduced *)
Lemma neg_mod : forall a, (0 - a mod U32) mod U32 = (- a) mod U32.
Proof.
  intros a. replace (0 - a mod U32) with (- (a mod U32)) by ring.
  pose proof U32_pos.
  rewrite <- (Z.sub_0_l (a mod U32)), <- (Z.sub_0_l a).
  rewrite Zminus_mod_idemp_r. reflexivity.
Qed.

Lemma step_mod : forall a d, ((a mod U32) * 10 + d) mod U32 = (a * 10 + d) mod U32.
Proof.
  intros a d. pose proof U32_pos.
  rewrite Z.add_mod by lia. rewrite Z.mul_mod_idemp_l by lia. rewrite <- Z.add_mod by lia. reflexivity.
Qed.

(* simple_atoi / no_sign_atoi *)
Lemma neg_digits_pos : forall s a,
  neg_digits (- a) s = (- fst (pos_digits_acc a s), snd (pos_digits_acc a s)).
Proof.
  induction s as [|c t IH]; intros a; cbn [neg_digits pos_digits_acc].
  - reflexivity.
  - destruct (g_is_digit c); [|reflexivity].
    replace (- a * 10 - (c - 48)) with (- (a * 10 + (c - 48))) by ring. apply IH.
Qed.

Lemma u32_digits_pos : forall s a,
  u32_digits (a mod U32) s = (fst (pos_digits_acc a s) mod U32, snd (pos_digits_acc a s)).
Proof.
  induction s as [|c t IH]; intros a; cbn [u32_digits pos_digits_acc].
  - reflexivity.
  - destruct (g_is_digit c); [|reflexivity]. rewrite step_mod. apply IH.
Qed.

Theorem simple_atoi_u_spec : forall s,
  simple_atoi_u s = (wrap32 (fst (simple_atoi s)), snd (simple_atoi s)).
Proof.
  intros s. unfold simple_atoi_u, simple_atoi.
  set (s1 := skip_while g_is_space s).
  assert (G : forall s2,
    (let '(n, s3) := u32_digits 0 s2 in (to_int32 ((0 - n) mod U32), s3)) =
      (wrap32 (fst (let '(n, s3) := neg_digits 0 s2 in (1 * n, s3))), snd (let '(n, s3) := neg_digits 0 s2 in (1 * n, s3)))
    /\ (let '(n, s3) := u32_digits 0 s2 in (to_int32 n, s3)) =
      (wrap32 (fst (let '(n, s3) := neg_digits 0 s2 in (-1 * n, s3))), snd (let '(n, s3) := neg_digits 0 s2 in (-1 * n, s3)))).
  { intros s2. pose proof (neg_digits_pos s2 0) as N. pose proof (u32_digits_pos s2 0) as U.
    change (- 0) with 0 in N. change (0 mod U32) with 0 in U. rewrite N, U. cbn [fst snd].
    set (p := fst (pos_digits_acc 0 s2)). split.
    - f_equal. unfold wrap32. f_equal. rewrite neg_mod. f_equal. ring.
    - f_equal. unfold wrap32. f_equal. f_equal. ring. }
  destruct (cur s1 =? 45).
  - exact (proj1 (G (adv s1))).
  - destruct (cur s1 =? 43); [exact (proj2 (G (adv s1)))|exact (proj2 (G s1))].
Qed.

Theorem no_sign_atoi_u_spec : forall s,
  no_sign_atoi_u s = (wrap32 (fst (no_sign_atoi s)), snd (no_sign_atoi s)).
Proof.
  intros s. unfold no_sign_atoi_u, no_sign_atoi.
  pose proof (u32_digits_pos (skip_while g_is_space s) 0) as U. change (0 mod U32) with 0 in U.
  rewrite U. reflexivity.
Qed.

(* string_to_int with its field-length bookkeeping *)
Lemma sti_digits_u_spec : forall s unl k a hd,
  sti_digits_u unl k (a mod U32) hd s =
  (let '(n, h, k', r) := sti_digits unl k (- a) hd s in ((- n) mod U32, h, k', r)).
Proof.
  induction s as [|c t IH]; intros unl k a hd; cbn [sti_digits_u sti_digits].
  - f_equal. f_equal. f_equal. f_equal. ring.
  - destruct (inlim unl k && g_is_digit c).
    + rewrite step_mod. replace (- a * 10 - (c - 48)) with (- (a * 10 + (c - 48))) by ring. apply IH.
    + f_equal. f_equal. f_equal. f_equal. ring.
Qed.

Theorem string_to_int_u_spec : forall s checked len,
  string_to_int_u s checked len = option_map wrap32 (string_to_int s checked len).
Proof.
  intros s checked len. unfold string_to_int_u, string_to_int.
  destruct (sti_skip (len =? 0)%nat len s) as [k1 s1].
  assert (G : forall k2 s2,
    let '(n, hd, k3, s3) := sti_digits_u (len =? 0)%nat k2 0 false s2 in
    let '(n', hd', k3', s3') := sti_digits (len =? 0)%nat k2 0 false s2 in
    to_int32 ((0 - n) mod U32) = wrap32 (1 * n') /\ to_int32 n = wrap32 (-1 * n') /\
    hd = hd' /\ k3 = k3' /\ s3 = s3').
  { intros k2 s2. pose proof (sti_digits_u_spec s2 (len =? 0)%nat k2 0 false) as U.
    change (0 mod U32) with 0 in U. change (- 0) with 0 in U. rewrite U.
    destruct (sti_digits (len =? 0)%nat k2 0 false s2) as [[[n hd] k3] s3].
    rewrite neg_mod. unfold wrap32.
    replace (- - n) with (1 * n) by ring. replace (- n) with (-1 * n) at 1 by ring. repeat split. }
  destruct (cur s1 =? 45); [|destruct (cur s1 =? 43)].
  - specialize (G (pred k1) (adv s1)).
    destruct (sti_digits_u (len =? 0)%nat (pred k1) 0 false (adv s1)) as [[[n hd] k3] s3].
    destruct (sti_digits (len =? 0)%nat (pred k1) 0 false (adv s1)) as [[[n' hd'] k3'] s3'].
    destruct G as [E1 [E2 [E3 [E4 E5]]]]. subst hd k3 s3. rewrite E1.
    destruct checked; [|reflexivity]. destruct (sti_skip (len =? 0)%nat k3' s3') as [k4 s4].
    destruct (negb hd' || negb (cur s4 =? 0)); reflexivity.
  - specialize (G (pred k1) (adv s1)).
    destruct (sti_digits_u (len =? 0)%nat (pred k1) 0 false (adv s1)) as [[[n hd] k3] s3].
    destruct (sti_digits (len =? 0)%nat (pred k1) 0 false (adv s1)) as [[[n' hd'] k3'] s3'].
    destruct G as [E1 [E2 [E3 [E4 E5]]]]. subst hd k3 s3. rewrite E2.
    destruct checked; [|reflexivity]. destruct (sti_skip (len =? 0)%nat k3' s3') as [k4 s4].
    destruct (negb hd' || negb (cur s4 =? 0)); reflexivity.
  - specialize (G k1 s1).
    destruct (sti_digits_u (len =? 0)%nat k1 0 false s1) as [[[n hd] k3] s3].
    destruct (sti_digits (len =? 0)%nat k1 0 false s1) as [[[n' hd'] k3'] s3'].
    destruct G as [E1 [E2 [E3 [E4 E5]]]]. subst hd k3 s3. rewrite E2.
    destruct checked; [|reflexivity]. destruct (sti_skip (len =? 0)%nat k3' s3') as [k4 s4].
    destruct (negb hd' || negb (cur s4 =? 0)); reflexivity.
Qed.

(* the snapshot's signed accumulation does overflow: "4294967295" has no defined value in int arithmetic *)
Lemma simple_atoi_int_overflows : simple_atoi_int [52; 50; 57; 52; 57; 54; 55; 50; 57; 53] = None.
Proof. vm_compute. reflexivity. Qed.
