(* cif::as_number (repaired) accepts exactly the CIF numbers whose value fast_float can represent,
   and hands exactly the CIF decimal value to the binary conversion; the snapshot's code did not. *)
From Coq Require Import Lia ZifyBool.
From GV Require Import Base.Str Num.DecParse.
Local Open Scope Z_scope.

(* ---------------------------------------------------------------- digit runs *)
Lemma scan_nodigit : forall s a n, is_digit (cur s) = false -> scan_digits a n s = (a, n, s).
Proof. intros [|c t] a n H; cbn in *; [reflexivity|]. rewrite H. reflexivity. Qed.

Lemma scan_count_ge : forall s a n, n <= snd (fst (scan_digits a n s)).
Proof. induction s as [|c t IH]; intros a n; cbn; [lia|].
  destruct (is_digit c); [|cbn; lia]. specialize (IH (a * 10 + (c - 48)) (n + 1)). lia. Qed.

Lemma scan_digit_count : forall s a n, is_digit (cur s) = true -> n < snd (fst (scan_digits a n s)).
Proof. intros [|c t] a n H; cbn in *; [discriminate|]. rewrite H.
  pose proof (scan_count_ge t (a * 10 + (c - 48)) (n + 1)). lia. Qed.

Lemma scan_rest : forall s a n, snd (scan_digits a n s) = skip_while is_digit s.
Proof. induction s as [|c t IH]; intros a n; cbn; [reflexivity|].
  destruct (is_digit c); [apply IH|reflexivity]. Qed.

Lemma scan_rest_nodigit : forall s a n, is_digit (cur (snd (scan_digits a n s))) = false.
Proof. induction s as [|c t IH]; intros a n; cbn; [reflexivity|].
  destruct (is_digit c) eqn:E; [apply IH|cbn; exact E]. Qed.

Lemma scan_count_len : forall s a n,
  snd (fst (scan_digits a n s)) = n + Z.of_nat (length s) - Z.of_nat (length (skip_while is_digit s)).
Proof. induction s as [|c t IH]; intros a n; cbn [scan_digits skip_while]; [cbn; lia|].
  destruct (is_digit c); [rewrite IH; cbn [length]; lia|cbn [fst snd length]; lia]. Qed.

Lemma skip_len : forall s, (length (skip_while is_digit s) <= length s)%nat.
Proof. induction s as [|c t IH]; cbn; [lia|]. destruct (is_digit c); cbn; lia. Qed.

(* bytes that are not digits *)
Lemma not_digit_consts :
  is_digit 46 = false /\ is_digit 45 = false /\ is_digit 43 = false /\ is_digit 0 = false /\
  is_digit 101 = false /\ is_digit 69 = false /\ is_digit 40 = false.
Proof. repeat split; reflexivity. Qed.

(* ---------------------------------------------------------------- sign *)
Lemma strip_sign_cur : forall s,
  strip_sign s = if cur s =? 45 then (true, adv s) else if cur s =? 43 then (false, adv s) else (false, s).
Proof. intros [|c t]; cbn; [reflexivity|]. destruct (c =? 45); [reflexivity|]. destruct (c =? 43); reflexivity. Qed.

(* ---------------------------------------------------------------- cif_number in cur/adv form *)
Definition cif_number' (s : str) : option (dec * str) :=
  let '(neg, s1) := strip_sign s in
  let '(ip, n1, s2) := scan_digits 0 0 s1 in
  let '(m, n2, s3) := if cur s2 =? 46 then scan_digits ip 0 (adv s2) else (ip, 0, s2) in
  if n1 + n2 =? 0 then None else
  if (cur s3 =? 101) || (cur s3 =? 69) then
    let '(eneg, t1) := strip_sign (adv s3) in
    let '(ex, ne, s4) := scan_digits 0 0 t1 in
    if ne =? 0 then None else Some (mkDec neg m ((if eneg then - ex else ex) - n2), s4)
  else Some (mkDec neg m (- n2), s3).

Lemma cif_number_eq : forall s, cif_number s = cif_number' s.
Proof.
  intros s. unfold cif_number, cif_number'.
  destruct (strip_sign s) as [neg s1].
  destruct (scan_digits 0 0 s1) as [[ip n1] s2].
  assert (E1 : match s2 with c :: t => if c =? 46 then scan_digits ip 0 t else (ip, 0, s2) | [] => (ip, 0, s2) end
               = if cur s2 =? 46 then scan_digits ip 0 (adv s2) else (ip, 0, s2)).
  { destruct s2 as [|c t]; reflexivity. }
  rewrite E1. destruct (if cur s2 =? 46 then scan_digits ip 0 (adv s2) else (ip, 0, s2)) as [[m n2] s3].
  destruct (n1 + n2 =? 0); [reflexivity|].
  destruct s3 as [|c t]; [reflexivity|]. reflexivity.
Qed.

(* ---------------------------------------------------------------- ff_scan versus cif_number *)
Lemma ff_vs_cif : forall s0, cur s0 <> 43 ->
  match ff_scan s0 with
  | None => cif_number s0 = None
  | Some (d, r) => cif_number s0 = Some (d, r) \/
                   (cif_number s0 = None /\ (cur r = 101 \/ cur r = 69))
  end.
Proof.
  intros s0 Hp. rewrite cif_number_eq. unfold ff_scan, cif_number'.
  rewrite strip_sign_cur.
  assert (H43 : (cur s0 =? 43) = false) by lia. rewrite H43.
  set (neg := cur s0 =? 45).
  assert (Es : (if neg then (true, adv s0) else (false, s0)) = (neg, if neg then adv s0 else s0)).
  { destruct neg; reflexivity. }
  rewrite Es. set (s1 := if neg then adv s0 else s0).
  destruct (neg && negb (is_digit (cur s1) || (cur s1 =? 46))) eqn:Eg.
  - (* '-' not followed by a digit or '.' *)
    assert (Hd : is_digit (cur s1) = false) by (destruct neg, (is_digit (cur s1)); cbn in Eg; congruence).
    assert (Hdot : (cur s1 =? 46) = false).
    { destruct neg, (is_digit (cur s1)), (cur s1 =? 46); cbn in Eg; congruence. }
    rewrite (scan_nodigit _ _ _ Hd). rewrite Hdot. reflexivity.
  - destruct (scan_digits 0 0 s1) as [[i1 n1] s2] eqn:E1.
    destruct (if cur s2 =? 46 then scan_digits i1 0 (adv s2) else (i1, 0, s2)) as [[i2 n2] s3] eqn:E2.
    destruct (n1 + n2 =? 0); [reflexivity|].
    destruct ((cur s3 =? 101) || (cur s3 =? 69)) eqn:Ee.
    + rewrite strip_sign_cur.
      set (t := adv s3).
      destruct (if cur t =? 45 then (true, adv t) else if cur t =? 43 then (false, adv t) else (false, t))
        as [eneg t1].
      destruct (is_digit (cur t1)) eqn:Ed.
      * pose proof (scan_digit_count t1 0 0 Ed) as Hc.
        destruct (scan_digits 0 0 t1) as [[ex ne] s4]. cbn in Hc.
        assert (Hne : (ne =? 0) = false) by lia. rewrite Hne. left. reflexivity.
      * rewrite (scan_nodigit _ _ _ Ed). cbn [Z.eqb]. right. split; [reflexivity|]. lia.
    + left. replace (0 - n2) with (- n2) by lia. reflexivity.
Qed.

(* the filter never hides a number: a letter i/n after the optional '-' means no digits *)
Lemma lower_letter_not_digit : forall c, (lower c =? 105) || (lower c =? 110) = true ->
  is_digit c = false /\ (c =? 46) = false.
Proof.
  intros c H. unfold lower in H.
  destruct (is_digit c) eqn:D.
  - unfold is_digit in D. assert (R : 48 <= c <= 57) by lia.
    assert (c = 48 \/ c = 49 \/ c = 50 \/ c = 51 \/ c = 52 \/ c = 53 \/ c = 54 \/ c = 55 \/ c = 56 \/ c = 57) by lia.
    destruct H0 as [->|[->|[->|[->|[->|[->|[->|[->|[->| ->]]]]]]]]]; cbn in H; discriminate.
  - split; [reflexivity|]. destruct (c =? 46) eqn:E; [|reflexivity].
    assert (c = 46) by lia. subst c. cbn in H. discriminate.
Qed.

Lemma filter_no_number : forall s0, in_filter s0 = true -> ff_scan s0 = None.
Proof.
  intros s0 H. unfold in_filter in H. unfold ff_scan.
  set (neg := cur s0 =? 45) in *. set (s1 := if neg then adv s0 else s0) in *.
  destruct (lower_letter_not_digit _ H) as [Hd Hdot].
  destruct neg; cbn [andb negb].
  - rewrite Hd, Hdot. reflexivity.
  - rewrite (scan_nodigit _ _ _ Hd). rewrite Hdot. reflexivity.
Qed.

(* ---------------------------------------------------------------- the s.u. suffix *)
Lemma su_step_ok : forall r,
  (match su_step true r with [] => true | _ => false end) = cif_su_ok r.
Proof.
  intros r. unfold su_step, cif_su_ok.
  destruct r as [|c t]; [reflexivity|]. cbn [cur adv].
  destruct (c =? 40) eqn:E40; [|reflexivity].
  pose proof (scan_rest t 0 0) as Hr. pose proof (scan_count_len t 0 0) as Hn.
  destruct (scan_digits 0 0 t) as [[v n] r']. cbn in Hr, Hn. subst r'.
  set (p := skip_while is_digit t) in *.
  pose proof (skip_len t) as Hl. fold p in Hl.
  destruct p as [|c2 p'] eqn:Ep.
  - cbn. destruct (0 <? n); reflexivity.
  - cbn [cur adv].
    destruct (c2 =? 41) eqn:E41; cbn [andb negb orb].
    + assert (Hlen : (length (c2 :: p') =? length t)%nat = negb (0 <? n)).
      { cbn [length] in *. destruct (Nat.eqb_spec (S (length p')) (length t)); lia. }
      rewrite Hlen. rewrite negb_involutive.
      destruct (0 <? n); cbn [andb]; [|reflexivity].
      destruct p'; reflexivity.
    + destruct p'; cbn; rewrite ?E41, ?andb_false_r; reflexivity.
Qed.

(* ---------------------------------------------------------------- main statement *)
Section Main.
  Variable rnd : dec -> option Z.

  Definition spec (s : str) : option Z :=
    match cif_value s with Some d => rnd d | None => None end.

  Lemma finish_spec : forall s0, cur s0 <> 43 -> finish rnd true s0 = spec s0.
  Proof.
    intros s0 Hp. unfold finish, spec, cif_value, from_chars.
    pose proof (ff_vs_cif s0 Hp) as A.
    destruct (in_filter s0) eqn:F.
    - rewrite (filter_no_number _ F) in A. rewrite A. reflexivity.
    - destruct (ff_scan s0) as [[d r]|].
      + destruct A as [A|[A He]]; rewrite A.
        * rewrite <- su_step_ok.
          destruct (rnd d) as [b|] eqn:R; cbn iota; destruct (su_step true r); cbn iota; rewrite ?R; reflexivity.
        * destruct (rnd d) as [b|]; [|reflexivity].
          unfold su_step. assert (H40 : (cur r =? 40) = false) by lia. rewrite H40.
          destruct r as [|c t]; [cbn in He; lia|reflexivity].
      + rewrite A. destruct (ff_infnan s0); reflexivity.
  Qed.

  Lemma finish_plus : forall s0, cur s0 = 43 -> finish rnd true s0 = None.
  Proof.
    intros s0 Hp. unfold finish, from_chars.
    destruct (in_filter s0); [reflexivity|].
    assert (E : ff_scan s0 = None).
    { unfold ff_scan. assert (H45 : (cur s0 =? 45) = false) by lia. rewrite H45. cbn [andb].
      assert (Hd : is_digit (cur s0) = false) by (rewrite Hp; reflexivity).
      rewrite (scan_nodigit _ _ _ Hd). assert (H46 : (cur s0 =? 46) = false) by lia. rewrite H46.
      reflexivity. }
    rewrite E. destruct (ff_infnan s0); reflexivity.
  Qed.

  (* a second sign after '+' is not CIF *)
  Lemma cif_plus_sign : forall t, cur t = 43 \/ cur t = 45 -> cif_number (43 :: t) = None.
  Proof.
    intros t H. rewrite cif_number_eq. unfold cif_number'. change (strip_sign (43 :: t)) with (false, t). cbv beta iota.
    assert (Hd : is_digit (cur t) = false) by (destruct H as [-> | ->]; reflexivity).
    rewrite (scan_nodigit _ _ _ Hd).
    assert (H46 : (cur t =? 46) = false) by lia. rewrite H46. reflexivity.
  Qed.

  Lemma cif_plus_strip : forall t, cur t <> 43 -> cur t <> 45 ->
    cif_number (43 :: t) = cif_number t.
  Proof.
    intros t H1 H2. rewrite !cif_number_eq. unfold cif_number'. change (strip_sign (43 :: t)) with (false, t). cbv beta iota.
    rewrite strip_sign_cur.
    assert (E1 : (cur t =? 45) = false) by lia. assert (E2 : (cur t =? 43) = false) by lia.
    rewrite E1, E2. reflexivity.
  Qed.

  Theorem as_number_spec : forall s, as_number rnd s = spec s.
  Proof.
    intros s. unfold as_number.
    destruct (cur s =? 43) eqn:Ep.
    - destruct s as [|c t]; [cbn in Ep; discriminate|]. cbn [cur adv] in *.
      assert (c = 43) by lia. subst c.
      destruct (cur t =? 45) eqn:Em.
      + unfold spec, cif_value. rewrite cif_plus_sign by lia. reflexivity.
      + destruct (cur t =? 43) eqn:Ep2.
        * rewrite finish_plus by lia. unfold spec, cif_value. rewrite cif_plus_sign by lia. reflexivity.
        * rewrite finish_spec by lia. unfold spec, cif_value. rewrite cif_plus_strip by lia. reflexivity.
    - apply finish_spec. lia.
  Qed.

  (* the statement of the property: accepted <-> CIF number (with optional s.u.) in range *)
  Theorem as_number_accepts_exactly_cif : forall s,
    as_number rnd s <> None <-> exists d, cif_value s = Some d /\ rnd d <> None.
  Proof.
    intros s. rewrite as_number_spec. unfold spec. split.
    - destruct (cif_value s) as [d|]; [|congruence]. intros H. exists d. split; [reflexivity|exact H].
    - intros [d [E H]]. rewrite E. exact H.
  Qed.

  Theorem as_number_rejects_non_numbers : forall s, is_cif_numb s = false -> as_number rnd s = None.
  Proof.
    intros s H. rewrite as_number_spec. unfold spec, is_cif_numb in *.
    destruct (cif_value s); [discriminate|reflexivity].
  Qed.
End Main.

(* the snapshot's code accepted strings that are not CIF numbers (whatever the conversion is, as
   long as it converts -1 and 1.5) *)
Theorem as_number_v0_refuted :
  forall rnd : dec -> option Z,
    rnd (mkDec true 1 0) <> None -> rnd (mkDec false 15 (-1)) <> None ->
    exists s1 s2, is_cif_numb s1 = false /\ as_number_v0 rnd s1 <> None /\
                  is_cif_numb s2 = false /\ as_number_v0 rnd s2 <> None.
Proof.
  intros rnd H1 H2. exists [43; 45; 49], [49; 46; 53; 40; 41].
  split; [vm_compute; reflexivity|]. split.
  - unfold as_number_v0, finish, from_chars. cbn. destruct (rnd (mkDec true 1 0)); [discriminate|congruence].
  - split; [vm_compute; reflexivity|].
    unfold as_number_v0, finish, from_chars. cbn. destruct (rnd (mkDec false 15 (-1))); [discriminate|congruence].
Qed.

(* non-vacuity: the grammar accepts the usual spellings and rejects the near misses *)
Example cif_examples :
  map is_cif_numb
    [ [49]; [43;49;46;53]; [45;46;53]; [49;46]; [49;46;53;101;45;51]; [49;46;53;40;51;41];
      [49;101;53;40;50;41] ]
  = [true; true; true; true; true; true; true] /\
  map is_cif_numb
    [ []; [46]; [43;45;49]; [45;45;49]; [49;101]; [49;46;53;40]; [49;46;53;40;41]; [110;97;110];
      [45;105;110;102]; [48;120;49;48]; [49;100;53]; [49;32]; [49;46;53;40;51;41;52] ]
  = [false; false; false; false; false; false; false; false; false; false; false; false; false].
Proof. split; vm_compute; reflexivity. Qed.
