(* Range of the re-scaled symmetry operations (precondition of index_n in symmetrize_using_ops,
   get_asu_mask, find_asu_brick): a checker on the tabulated operations and its soundness. *)
From Coq Require Import Lia ZifyBool.
From GV Require Import Map.GridIndex Map.GridIndexProofs Map.GridOps Map.Setup Map.MapSg.
Local Open Scope Z_scope.

(* entry in {-24,0,24} *)
Definition unit_entry (x : Z) : bool := (x =? 0) || (x =? 24) || (x =? -24).
Definition cnt_pos (x : Z) : Z := if x >? 0 then 1 else 0.
Definition cnt_neg (x : Z) : Z := if x <? 0 then 1 else 0.
(* a matrix row with unit entries, at most one positive and at most one negative *)
Definition mrow_ok (r : v3) : bool :=
  let '(a, b, c) := r in
  unit_entry a && unit_entry b && unit_entry c &&
  (cnt_pos a + cnt_pos b + cnt_pos c <=? 1) && (cnt_neg a + cnt_neg b + cnt_neg c <=? 1).
(* a non-zero off-diagonal entry couples two directions that check_grid_factors forces to be equal *)
Definition coupled_ok (g : gops) (x : Z) (hi lo : Z) : bool :=
  (x =? 0) || are_directions_symmetry_related g hi lo.
Definition tran_ok (t : v3) : bool :=
  let '(a, b, c) := t in (0 <=? a) && (a <? 24) && (0 <=? b) && (b <? 24) && (0 <=? c) && (c <? 24).
Definition op_ok (g : gops) (o : op) : bool :=
  let '((r00, r01, r02), (r10, r11, r12), (r20, r21, r22)) := rot o in
  mrow_ok (r00, r01, r02) && mrow_ok (r10, r11, r12) && mrow_ok (r20, r21, r22) && tran_ok (tran o) &&
  coupled_ok g r01 1 0 && coupled_ok g r02 2 0 && coupled_ok g r10 1 0 &&
  coupled_ok g r12 2 1 && coupled_ok g r20 2 0 && coupled_ok g r21 2 1.
Definition gops_ok (g : gops) : bool := forallb (op_ok g) (all_ops g).
Definition row_ops_ok (r : sgrow) : bool :=
  match operations r with HOk g => gops_ok g | _ => false end.

Lemma tran_scaled_range : forall t n, 0 <= t < 24 -> n > 0 -> 0 <= cdiv (t * n) 24 <= n - 1.
Proof.
  intros t n Ht Hn. unfold cdiv. split.
  - apply Z.quot_pos; nia.
  - assert (H : (t * n) ÷ 24 < n); [|lia].
    apply Z.quot_lt_upper_bound; nia.
Qed.

Lemma unit_entry_cases : forall x, unit_entry x = true -> x = 0 \/ x = 24 \/ x = -24.
Proof. unfold unit_entry. intros. lia. Qed.

(* one coordinate of the image *)
Lemma mrow_range : forall a b c x y z t n,
  mrow_ok (a, b, c) = true -> n > 0 -> 0 <= t <= n - 1 ->
  (a = 0 \/ 0 <= x < n) -> (b = 0 \/ 0 <= y < n) -> (c = 0 \/ 0 <= z < n) ->
  - n <= cdiv a DEN * x + cdiv b DEN * y + cdiv c DEN * z + t < 2 * n.
Proof.
  intros a b c x y z t n Hok Hn Ht Hx Hy Hz. unfold mrow_ok in Hok.
  apply andb_prop in Hok; destruct Hok as [Hok Hneg].
  apply andb_prop in Hok; destruct Hok as [Hok Hpos].
  apply andb_prop in Hok; destruct Hok as [Hok Huc].
  apply andb_prop in Hok; destruct Hok as [Hua Hub].
  pose proof (unit_entry_cases a Hua) as Ha.
  pose proof (unit_entry_cases b Hub) as Hb.
  pose proof (unit_entry_cases c Huc) as Hc.
  clear Hua Hub Huc. unfold cdiv, DEN.
  destruct Ha as [Ha|[Ha|Ha]]; destruct Hb as [Hb|[Hb|Hb]]; destruct Hc as [Hc|[Hc|Hc]]; subst a b c;
    vm_compute in Hpos; vm_compute in Hneg; try discriminate;
    change (0 ÷ 24) with 0; change (24 ÷ 24) with 1; change (-24 ÷ 24) with (-1); lia.
Qed.

Lemma check_related : forall g nu nv nw, check_grid_factors g nu nv nw = true ->
  (are_directions_symmetry_related g 1 0 = true -> nv = nu) /\
  (are_directions_symmetry_related g 2 0 = true -> nw = nu) /\
  (are_directions_symmetry_related g 2 1 = true -> nw = nv).
Proof.
  intros g nu nv nw H. unfold check_grid_factors in H.
  destruct (find_grid_factors g) as [[f0 f1] f2].
  apply andb_prop in H; destruct H as [H H21].
  apply andb_prop in H; destruct H as [H H20].
  apply andb_prop in H; destruct H as [H H10].
  clear H.
  repeat split; intros E; rewrite E in *; cbn [negb orb] in *; lia.
Qed.

Lemma coupled_use : forall g x hi lo, coupled_ok g x hi lo = true ->
  x = 0 \/ are_directions_symmetry_related g hi lo = true.
Proof.
  intros g x hi lo H. unfold coupled_ok in H. apply orb_prop in H. destruct H as [H|H]; [left; lia|right; exact H].
Qed.

Definition in_range3 (nu nv nw : Z) (p : v3) : Prop :=
  let '(a, b, c) := p in - nu <= a < 2 * nu /\ - nv <= b < 2 * nv /\ - nw <= c < 2 * nw.

Lemma gops_ok_in_range : forall g number nu nv nw, gops_ok g = true -> nu > 0 -> nv > 0 -> nw > 0 ->
  check_grid_factors g nu nv nw = true ->
  forall o, In o (scaled_ops_except_id number g nu nv nw) ->
  forall u v w, 0 <= u < nu -> 0 <= v < nv -> 0 <= w < nw ->
  in_range3 nu nv nw (gapply o (u, v, w)).
Proof.
  intros g number nu nv nw Hok Hnu Hnv Hnw Hchk o Hin u v w Hu Hv Hw.
  unfold scaled_ops_except_id in Hin. destruct ((number =? 1) && Nat.eqb (length (cen_ops g)) 1); [destruct Hin|].
  apply in_map_iff in Hin. destruct Hin as [o0 [Ho Hin]]. apply filter_In in Hin. destruct Hin as [Hin _].
  unfold gops_ok in Hok. rewrite forallb_forall in Hok. specialize (Hok o0 Hin).
  destruct (check_related g nu nv nw Hchk) as [R10 [R20 R21]].
  destruct o0 as [[[[[r00 r01] r02] [[r10 r11] r12]] [[r20 r21] r22]] [[t0 t1] t2] nt].
  unfold op_ok in Hok. cbn [rot tran] in Hok.
  apply andb_prop in Hok; destruct Hok as [Hok C21].
  apply andb_prop in Hok; destruct Hok as [Hok C20].
  apply andb_prop in Hok; destruct Hok as [Hok C12].
  apply andb_prop in Hok; destruct Hok as [Hok C10].
  apply andb_prop in Hok; destruct Hok as [Hok C02].
  apply andb_prop in Hok; destruct Hok as [Hok C01].
  apply andb_prop in Hok; destruct Hok as [Hok Ctr].
  apply andb_prop in Hok; destruct Hok as [Hok M2].
  apply andb_prop in Hok; destruct Hok as [M0 M1].
  unfold tran_ok in Ctr.
  subst o. unfold gapply, scale_op. cbn [rot tran g_rot g_tran map_m33 map_v3 mat_vec_raw dot add_v3].
  pose proof (tran_scaled_range t0 nu ltac:(lia) Hnu) as T0.
  pose proof (tran_scaled_range t1 nv ltac:(lia) Hnv) as T1.
  pose proof (tran_scaled_range t2 nw ltac:(lia) Hnw) as T2.
  apply coupled_use in C01, C02, C10, C12, C20, C21.
  assert (X0 : - nu <= cdiv r00 DEN * u + cdiv r01 DEN * v + cdiv r02 DEN * w + cdiv (t0 * nu) DEN < 2 * nu).
  { apply (mrow_range r00 r01 r02 u v w _ nu M0 Hnu T0).
    - right; lia.
    - destruct C01 as [E|E]; [left; exact E|right; rewrite <- (R10 E); lia].
    - destruct C02 as [E|E]; [left; exact E|right; rewrite <- (R20 E); lia]. }
  assert (X1 : - nv <= cdiv r10 DEN * u + cdiv r11 DEN * v + cdiv r12 DEN * w + cdiv (t1 * nv) DEN < 2 * nv).
  { apply (mrow_range r10 r11 r12 u v w _ nv M1 Hnv T1).
    - destruct C10 as [E|E]; [left; exact E|right; rewrite (R10 E); lia].
    - right; lia.
    - destruct C12 as [E|E]; [left; exact E|right; rewrite <- (R21 E); lia]. }
  assert (X2 : - nw <= cdiv r20 DEN * u + cdiv r21 DEN * v + cdiv r22 DEN * w + cdiv (t2 * nw) DEN < 2 * nw).
  { apply (mrow_range r20 r21 r22 u v w _ nw M2 Hnw T2).
    - destruct C20 as [E|E]; [left; exact E|right; rewrite (R20 E); lia].
    - destruct C21 as [E|E]; [left; exact E|right; rewrite (R21 E); lia].
    - right; lia. }
  unfold in_range3. lia.
Qed.

(* the table: every operation of every tabulated setting passes the checker *)
Lemma table_ops_ok : forallb row_ops_ok sg_table = true.
Proof. vm_cast_no_check (@eq_refl bool true). Qed.

Lemma scaled_ops_in_range : forall r, In r sg_table ->
  forall nu nv nw, nu > 0 -> nv > 0 -> nw > 0 -> check_grid_factors (row_gops r) nu nv nw = true ->
  forall o, In o (scaled_ops_except_id (sg_number r) (row_gops r) nu nv nw) ->
  forall u v w, 0 <= u < nu -> 0 <= v < nv -> 0 <= w < nw ->
  in_range3 nu nv nw (gapply o (u, v, w)).
Proof.
  intros r Hr. pose proof table_ops_ok as H. rewrite forallb_forall in H. specialize (H r Hr).
  unfold row_ops_ok in H. unfold row_gops. destruct (operations r) as [g| |]; try discriminate.
  intros. eapply gops_ok_in_range; eauto.
Qed.

(* hence index_n is exact on every mate computed by symmetrize_using_ops / get_asu_mask *)
Lemma scaled_ops_index_n : forall r, In r sg_table ->
  forall nu nv nw, nu > 0 -> nv > 0 -> nw > 0 -> check_grid_factors (row_gops r) nu nv nw = true ->
  forall o, In o (scaled_ops_except_id (sg_number r) (row_gops r) nu nv nw) ->
  forall u v w, 0 <= u < nu -> 0 <= v < nv -> 0 <= w < nw ->
  let '(a, b, c) := gapply o (u, v, w) in
  index_n nu nv nw a b c = index_q nu nv (a mod nu) (b mod nv) (c mod nw) /\
  0 <= index_n nu nv nw a b c < nu * nv * nw.
Proof.
  intros r Hr nu nv nw Hnu Hnv Hnw Hc o Ho u v w Hu Hv Hw.
  pose proof (scaled_ops_in_range r Hr nu nv nw Hnu Hnv Hnw Hc o Ho u v w Hu Hv Hw) as H.
  destruct (gapply o (u, v, w)) as [[a b] c]. unfold in_range3 in H.
  apply index_n_spec; lia.
Qed.

(* non-vacuity: the checker rejects an operation with two same-sign unit coefficients in a row *)
Example op_ok_rejects_x_plus_y :
  op_ok (mkG [identity] [(0,0,0)]) (mkOp ((24,24,0),(0,24,0),(0,0,24)) (0,0,0) 32) = false.
Proof. reflexivity. Qed.
