(* Functional arrays of Z indexed by 0-based Z (binary tries), used for std::vector<T> buffers. *)
From Coq Require Export ZArith List Bool.
From Coq Require Import FSets.FMapPositive.
From GV Require Export Map.GridIndex.
Local Open Scope Z_scope.

Definition arr : Type := PositiveMap.t Z.
Definition akey (i : Z) : positive := Z.to_pos (i + 1).
Definition aempty : arr := PositiveMap.empty Z.
(* a[i] where absent cells hold d *)
Definition aget (a : arr) (d : Z) (i : Z) : Z :=
  match PositiveMap.find (akey i) a with Some v => v | None => d end.
Definition aset (a : arr) (i v : Z) : arr := PositiveMap.add (akey i) v a.

Fixpoint of_list_from (i : Z) (l : list Z) (a : arr) : arr :=
  match l with [] => a | x :: t => of_list_from (i + 1) t (aset a i x) end.
Definition of_list (l : list Z) : arr := of_list_from 0 l aempty.
Definition to_list (a : arr) (d : Z) (n : Z) : list Z := map (aget a d) (zseq 0 n).
