(* Safety of Grid::symmetrize_using_ops for the tabulated groups on grids accepted by check_grid_factors:
   every mate index stays inside the data / visited buffers (properties C03 and C09). *)
From Coq Require Import Lia ZifyBool.
From GV Require Import Map.GridIndex Map.GridIndexProofs Map.Arr Map.GridOps Map.Setup Map.MapSg
  Map.SetupProofs Map.ScaledOps Map.C03Proofs.
Local Open Scope Z_scope.
Ltac Zify.zify_post_hook ::= idtac.

Lemma reduce_mates_safe : forall func data visited size ks value,
  (forall k, In k ks -> in_size k size = true) -> safe (reduce_mates func data visited size ks value).
Proof.
  induction ks as [|k t IH]; intros value H; simpl.
  - split; discriminate.
  - rewrite (H k) by (left; reflexivity). cbn [negb].
    destruct (negb (aget visited 0 k =? 0)); [split; discriminate|].
    apply IH. intros k' Hk'. apply H. right. exact Hk'.
Qed.

Section Symm.
Variables nu nv nw : Z.
Variable ops : list gridop.
Hypothesis Hnu : nu > 0.
Hypothesis Hnv : nv > 0.
Hypothesis Hnw : nw > 0.
Hypothesis Hsz : nu * nv * nw < two64.
Hypothesis Hops : forall o, In o ops -> forall u v w, 0 <= u < nu -> 0 <= v < nv -> 0 <= w < nw ->
  in_range3 nu nv nw (gapply o (u, v, w)).

Lemma mates_raw_in_size : forall u v w, 0 <= u < nu -> 0 <= v < nv -> 0 <= w < nw ->
  forall k, In k (mates_raw nu nv nw ops (u, v, w)) -> in_size k (nu * nv * nw) = true.
Proof.
  intros u v w Hu Hv Hw k Hk. unfold mates_raw in Hk. apply in_map_iff in Hk.
  destruct Hk as [o [Ek Ho]]. pose proof (Hops o Ho u v w Hu Hv Hw) as R.
  destruct (gapply o (u, v, w)) as [[a b] c]. unfold in_range3 in R.
  rewrite index_n64_eq in Ek by lia.
  destruct (index_n_spec nu nv nw a b c Hnu Hnv Hnw ltac:(lia) ltac:(lia) ltac:(lia)) as [_ Rg].
  subst k. unfold in_size. lia.
Qed.

Lemma symm_step_safe : forall func st idx, 0 <= idx < nu * nv * nw ->
  safe (symm_step func nu nv nw (nu * nv * nw) ops st idx).
Proof.
  intros func [data visited] idx Hi. unfold symm_step.
  destruct (negb (aget visited 0 idx =? 0)); [split; discriminate|].
  destruct (flat_components nu nv nw idx Hnu Hnv Hnw Hi) as [Cu [Cv Cw]].
  pose proof (reduce_mates_safe func data visited (nu * nv * nw)
                (mates_raw nu nv nw ops (idx mod nu, (idx / nu) mod nv, idx / (nu * nv))) (aget data 0 idx)
                (mates_raw_in_size _ _ _ Cu Cv Cw)) as [S1 S2].
  destruct (reduce_mates _ _ _ _ _ _); cbn [bind]; split; try discriminate; congruence.
Qed.

Lemma symm_loop_safe : forall func idxs st, (forall i, In i idxs -> 0 <= i < nu * nv * nw) ->
  safe (symm_loop func nu nv nw (nu * nv * nw) ops idxs st).
Proof.
  induction idxs as [|i t IH]; intros st H; simpl.
  - split; discriminate.
  - destruct (symm_step_safe func st i (H i (or_introl eq_refl))) as [S1 S2].
    destruct (symm_step func nu nv nw (nu * nv * nw) ops st i); cbn [bind]; try (split; try discriminate; congruence).
    apply IH. intros j Hj. apply H. right. exact Hj.
Qed.

End Symm.

Lemma symmetrize_using_ops_safe : forall nu nv nw ops, nu > 0 -> nv > 0 -> nw > 0 -> nu * nv * nw < two64 ->
  (forall o, In o ops -> forall u v w, 0 <= u < nu -> 0 <= v < nv -> 0 <= w < nw ->
     in_range3 nu nv nw (gapply o (u, v, w))) ->
  forall func data, Z.of_nat (length data) = nu * nv * nw ->
  safe (symmetrize_using_ops func nu nv nw ops data).
Proof.
  intros nu nv nw ops Hu Hv Hw Hs Hops func data Hl. unfold symmetrize_using_ops.
  pose proof (symm_loop_safe nu nv nw ops Hu Hv Hw Hs Hops func (zseq 0 (nu * nv * nw)) (of_list data, aempty)) as S.
  destruct ops as [|o t]; [split; discriminate|].
  rewrite Hl.
  destruct S as [S1 S2]; [intros i Hi; apply zseq_In in Hi; lia|].
  destruct (symm_loop func nu nv nw (nu * nv * nw) (o :: t) (zseq 0 (nu * nv * nw)) (of_list data, aempty));
    cbn [bind]; split; try discriminate; congruence.
Qed.

(* for every tabulated setting and every grid accepted by check_grid_factors *)
Theorem symmetrize_in_bounds : forall r, In r sg_table ->
  forall nu nv nw, nu > 0 -> nv > 0 -> nw > 0 -> nu * nv * nw < two64 ->
  check_grid_factors (row_gops r) nu nv nw = true ->
  forall func data, Z.of_nat (length data) = nu * nv * nw ->
  safe (symmetrize_using_ops func nu nv nw (scaled_ops_except_id (sg_number r) (row_gops r) nu nv nw) data).
Proof.
  intros r Hr nu nv nw Hu Hv Hw Hs Hc func data Hl.
  apply symmetrize_using_ops_safe; auto.
  intros o Ho u v w Cu Cv Cw. eapply scaled_ops_in_range; eauto.
Qed.
