(* Model of the buffer-growth loop of MaybeGzipped::uncompress_into_buffer (src/gz.cpp) as a state
   machine over (size of the buffer, bytes of uncompressed data not yet read). zlib is abstract:
   gzread(buf, len) delivers min(len, remaining) bytes; the loop condition
   !gzeof && gzgetc != -1 is `remaining > 0`. Executable definitions only. *)
From GV Require Export Map.GridIndex.
Local Open Scope Z_scope.

Definition gz_limit : Z := 3221225471.

(* one iteration of the while loop: None = fail("... above 3 GiB ...") *)
(* original: mem.resize(2 * old_size); n = gzread(mem + old_size, old_size) *)
Definition grow_orig (st : Z * Z) : option (Z * Z) :=
  let '(size, rem) := st in
  if size >? gz_limit then None else
  let n := Z.min size rem in Some (size + n, rem - n).

(* repaired: the buffer grows by max(old_size, min_chunk) *)
Definition min_chunk : Z := 65536.
Definition grow (st : Z * Z) : option (Z * Z) :=
  let '(size, rem) := st in
  if size >? gz_limit then None else
  let n := Z.min (Z.max size min_chunk) rem in Some (size + n, rem - n).

(* the loop with an explicit iteration budget: Some (Some final) = finished, Some None = exception,
   None = budget exhausted with data still remaining *)
Fixpoint grow_loop (g : Z * Z -> option (Z * Z)) (fuel : nat) (st : Z * Z) : option (option (Z * Z)) :=
  if snd st <=? 0 then Some (Some st) else
  match fuel with
  | O => None
  | S f => match g st with None => Some None | Some st' => grow_loop g f st' end
  end.

(* the whole function for limit == 0: est = estimated size (ISIZE trailer), total = real uncompressed size *)
Definition uncompress (g : Z * Z -> option (Z * Z)) (fuel : nat) (est total : Z) : option (option Z) :=
  if est >? gz_limit then Some None else
  let n := Z.min est total in
  if n <? est then Some (Some n)
  else match grow_loop g fuel (est, total - n) with
       | Some (Some st) => Some (Some (fst st))
       | Some None => Some None
       | None => None
       end.
