(* Model of the symmetry-related grid code: GridMeta::get_scaled_ops_except_id, GridOp::apply,
   GroupOps::find_grid_factors / are_directions_symmetry_related, check_grid_factors,
   Grid::symmetrize_using_ops with the symmetrize_* reducers, get_asu_mask (grid.hpp, asumask.hpp).
   Executable definitions only. Voxel values are integers (the tests use exactly representable values);
   a float NaN is represented by the sentinel nan_z. *)
From GV Require Export Sym.Op Sym.Group Map.Arr.
Local Open Scope Z_scope.

Record gridop : Type := mkGOp { g_rot : m33; g_tran : v3 }.

(* op.tran[i] = op.tran[i] * n_i / DEN;  op.rot[i][j] /= DEN  (C truncating division) *)
Definition scale_op (nu nv nw : Z) (o : op) : gridop :=
  let '(t0, t1, t2) := tran o in
  mkGOp (map_m33 (fun x => cdiv x DEN) (rot o))
        (cdiv (t0 * nu) DEN, cdiv (t1 * nv) DEN, cdiv (t2 * nw) DEN).

(* primitive P1 (or no space group) gives no operations; the centred settings A1..I1 of number 1 do *)
Definition scaled_ops_except_id (number : Z) (g : gops) (nu nv nw : Z) : list gridop :=
  if (number =? 1) && Nat.eqb (length (cen_ops g)) 1 then []
  else map (scale_op nu nv nw) (filter (fun o => negb (op_eqb o identity)) (all_ops g)).

(* GridOp::apply *)
Definition gapply (o : gridop) (p : v3) : v3 := add_v3 (mat_vec_raw (g_rot o) p) (g_tran o).

(* GroupOps::find_grid_factors: smallest non-zero translation per axis over all operations *)
Definition min_tran (l : list op) (sel : v3 -> Z) : Z :=
  fold_left (fun r o => let t := sel (tran o) in if negb (t =? 0) && (t <? r) then t else r) l DEN.
Definition find_grid_factors (g : gops) : v3 :=
  let l := all_ops g in
  (cdiv DEN (min_tran l (fun '(x, _, _) => x)),
   cdiv DEN (min_tran l (fun '(_, y, _) => y)),
   cdiv DEN (min_tran l (fun '(_, _, z) => z))).

Definition rot_entry (r : m33) (i j : Z) : Z :=
  let '(r0, r1, r2) := r in
  let row := if i =? 0 then r0 else if i =? 1 then r1 else r2 in
  let '(a, b, c) := row in if j =? 0 then a else if j =? 1 then b else c.
Definition are_directions_symmetry_related (g : gops) (u v : Z) : bool :=
  existsb (fun o => negb (rot_entry (rot o) u v =? 0)) (sym_ops g).

(* check_grid_factors: true = accepted, false = fail() *)
Definition check_grid_factors (g : gops) (nu nv nw : Z) : bool :=
  let '(f0, f1, f2) := find_grid_factors g in
  (Z.rem nu f0 =? 0) && (Z.rem nv f1 =? 0) && (Z.rem nw f2 =? 0) &&
  (negb (are_directions_symmetry_related g 1 0) || (nv =? nu)) &&
  (negb (are_directions_symmetry_related g 2 0) || (nw =? nu)) &&
  (negb (are_directions_symmetry_related g 2 1) || (nw =? nv)).

(* ---- reducers passed to symmetrize(); 0 min, 1 max, 2 abs_max, 3 sum, 4 nondefault(dflt) ---- *)
Definition nan_z : Z := -1000000.
Definition reducer (which dflt : Z) (a b : Z) : Z :=
  if which =? 0 then (if a <? b then a else b)
  else if which =? 1 then (if a >? b then a else b)
  else if which =? 2 then (if Z.abs a >? Z.abs b then a else b)
  else if which =? 3 then a + b
  else (if a =? dflt then b else a).

(* ---- Grid::symmetrize_using_ops ---- *)
Definition in_size (i size : Z) : bool := (0 <=? i) && (i <? size).

(* indices of the mates of (u,v,w): index_n of every image; Oob when an index leaves the buffer *)
Fixpoint mates_of (nu nv nw size : Z) (ops : list gridop) (p : v3) : res (list Z) :=
  match ops with
  | [] => Ok []
  | o :: t =>
    let '(a, b, c) := gapply o p in
    let k := index_n64 nu nv nw a b c in
    if in_size k size then bind (mates_of nu nv nw size t p) (fun l => Ok (k :: l)) else Oob
  end.

Definition set_all (a : arr) (ks : list Z) (v : Z) : arr := fold_left (fun a k => aset a k v) ks a.

(* raw mate indices, as stored in `mates` (no memory access yet) *)
Definition mates_raw (nu nv nw : Z) (ops : list gridop) (p : v3) : list Z :=
  map (fun o => let '(a, b, c) := gapply o p in index_n64 nu nv nw a b c) ops.

(* for (size_t k : mates) { if (visited[k]) fail(...); value = func(value, data[k]); } *)
Fixpoint reduce_mates (func : Z -> Z -> Z) (data visited : arr) (size : Z) (ks : list Z) (value : Z) : res Z :=
  match ks with
  | [] => Ok value
  | k :: t =>
    if negb (in_size k size) then Oob
    else if negb (aget visited 0 k =? 0) then Exc
    else reduce_mates func data visited size t (func value (aget data 0 k))
  end.

(* one iteration of the (w,v,u) loop body; state = (data, visited) *)
Definition symm_step (func : Z -> Z -> Z) (nu nv nw size : Z) (ops : list gridop)
                     (st : arr * arr) (idx : Z) : res (arr * arr) :=
  let '(data, visited) := st in
  if negb (aget visited 0 idx =? 0) then Ok st
  else
    let u := idx mod nu in let v := (idx / nu) mod nv in let w := idx / (nu * nv) in
    let mates := mates_raw nu nv nw ops (u, v, w) in
    bind (reduce_mates func data visited size mates (aget data 0 idx)) (fun value =>
      Ok (set_all (aset data idx value) mates value, set_all (aset visited idx 1) mates 1)).

Fixpoint symm_loop (func : Z -> Z -> Z) (nu nv nw size : Z) (ops : list gridop)
                   (idxs : list Z) (st : arr * arr) : res (arr * arr) :=
  match idxs with
  | [] => Ok st
  | i :: t => bind (symm_step func nu nv nw size ops st i) (symm_loop func nu nv nw size ops t)
  end.

(* data given and returned as a list of nu*nv*nw values (positive dimensions) *)
Definition symmetrize_using_ops (func : Z -> Z -> Z) (nu nv nw : Z) (ops : list gridop)
                                (data : list Z) : res (list Z) :=
  match ops with
  | [] => Ok data
  | _ =>
    let size := Z.of_nat (length data) in
    bind (symm_loop func nu nv nw size ops (zseq 0 (nu * nv * nw)) (of_list data, aempty))
         (fun st => Ok (to_list (fst st) 0 size))
  end.

(* ---- get_asu_mask: brick end (eu,ev,ew) = find_asu_brick(sg).uvw_end(grid) is an input ---- *)
Definition mask_step (nu nv nw size : Z) (ops : list gridop) (mask : arr) (p : v3) : res arr :=
  let '(u, v, w) := p in
  let idx := index_q nu nv u v w in
  if negb (in_size idx size) then Oob
  else if negb (aget mask 2 idx =? 2) then Ok mask
  else bind (mates_of nu nv nw size ops p) (fun mates =>
         Ok (fold_left (fun m k => if k =? idx then m else aset m k 1) mates (aset mask idx 0))).

Fixpoint mask_loop (nu nv nw size : Z) (ops : list gridop) (pts : list v3) (mask : arr) : res arr :=
  match pts with
  | [] => Ok mask
  | p :: t => bind (mask_step nu nv nw size ops mask p) (mask_loop nu nv nw size ops t)
  end.

Definition box_points (eu ev ew : Z) : list v3 :=
  flat_map (fun w => flat_map (fun v => map (fun u => (u, v, w)) (zseq 0 eu)) (zseq 0 ev)) (zseq 0 ew).

Definition get_asu_mask (nu nv nw : Z) (ops : list gridop) (eu ev ew : Z) : res (list Z) :=
  let size := nu * nv * nw in
  bind (mask_loop nu nv nw size ops (box_points eu ev ew) aempty) (fun m =>
    let l := to_list m 2 size in
    if existsb (fun x => x =? 2) l then Exc else Ok l).
