(* Lemmas about the functional arrays. *)
From Coq Require Import Lia FSets.FMapPositive.
From GV Require Import Map.GridIndex Map.GridIndexProofs Map.Arr.
Local Open Scope Z_scope.

Lemma akey_inj : forall i j, 0 <= i -> 0 <= j -> akey i = akey j -> i = j.
Proof. intros i j Hi Hj H. unfold akey in H. apply Z2Pos.inj in H; lia. Qed.

Lemma aget_aset_same : forall a d i v, aget (aset a i v) d i = v.
Proof. intros. unfold aget, aset. rewrite PositiveMap.gss. reflexivity. Qed.

Lemma aget_aset_other : forall a d i j v, 0 <= i -> 0 <= j -> i <> j -> aget (aset a j v) d i = aget a d i.
Proof.
  intros a d i j v Hi Hj Hne. unfold aget, aset. rewrite PositiveMap.gso; [reflexivity|].
  intro E. apply Hne. apply akey_inj; auto.
Qed.

Lemma aget_empty : forall d i, aget aempty d i = d.
Proof. intros. unfold aget, aempty. rewrite PositiveMap.gempty. reflexivity. Qed.

Lemma to_list_length : forall a d n, length (to_list a d n) = Z.to_nat n.
Proof. intros. unfold to_list, zseq. rewrite map_length. apply zseq_nat_length. Qed.

Lemma to_list_nth : forall a d n i, 0 <= i < n -> nth (Z.to_nat i) (to_list a d n) d = aget a d i.
Proof.
  intros a d n i Hi. unfold to_list, zseq.
  rewrite (nth_indep _ d (aget a d 0)) by (rewrite map_length, zseq_nat_length; lia).
  rewrite map_nth. rewrite zseq_nat_nth by lia. f_equal. lia.
Qed.

(* of_list then reading back *)
Lemma of_list_from_get : forall l i0 a d j, 0 <= i0 -> 0 <= j ->
  aget (of_list_from i0 l a) d j =
  if (i0 <=? j) && (j <? i0 + Z.of_nat (length l)) then nth (Z.to_nat (j - i0)) l d else aget a d j.
Proof.
  induction l as [|x t IH]; intros i0 a d j Hi Hj; simpl of_list_from.
  - replace ((i0 <=? j) && (j <? i0 + Z.of_nat (@length Z []))) with false; [reflexivity|].
    simpl. destruct (i0 <=? j) eqn:E; simpl; lia.
  - rewrite IH by lia.
    destruct (Z.eq_dec j i0) as [E|E].
    + subst j. replace ((i0 + 1 <=? i0) && (i0 <? i0 + 1 + Z.of_nat (length t))) with false by lia.
      rewrite aget_aset_same.
      replace ((i0 <=? i0) && (i0 <? i0 + Z.of_nat (length (x :: t)))) with true
        by (simpl length; lia).
      replace (i0 - i0) with 0 by lia. reflexivity.
    + rewrite aget_aset_other by lia.
      simpl length.
      destruct ((i0 + 1 <=? j) && (j <? i0 + 1 + Z.of_nat (length t))) eqn:B.
      * replace ((i0 <=? j) && (j <? i0 + Z.of_nat (S (length t)))) with true by lia.
        replace (Z.to_nat (j - i0)) with (S (Z.to_nat (j - (i0 + 1)))) by lia. reflexivity.
      * replace ((i0 <=? j) && (j <? i0 + Z.of_nat (S (length t)))) with false by lia. reflexivity.
Qed.
