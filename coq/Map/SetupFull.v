(* The whole of Ccp4::setup() - re-indexing AND the symmetry expansion of Full mode - is memory-safe for every header:
   the repaired code tests check_grid_factors before symmetrize_nondefault, so the hypothesis that
   symmetrize_in_bounds needs is established by the code itself. *)
From Coq Require Import Lia.
From GV Require Import Map.MapSg Map.ArrProofs Map.GridIndexProofs Map.SetupProofs Map.C03Proofs Map.SymmSafe.
From GV Require Import Map.GridIndex Map.Arr Map.GridOps Map.Setup.
Local Open Scope Z_scope.

Lemma find_index_in : forall A (p : A -> bool) (l : list A) (d : A) k i, find_index p l k = Some i ->
  k <= i /\ In (nth (Z.to_nat (i - k)) l d) l.
Proof.
  intros A p. induction l as [|x t IH]; intros d k i H; [discriminate|].
  cbn [find_index] in H. destruct (p x).
  - injection H as <-. rewrite Z.sub_diag. simpl. split; [lia|left; reflexivity].
  - destruct (IH d (k + 1) i H) as [L I]. split; [lia|].
    replace (Z.to_nat (i - k)) with (S (Z.to_nat (i - (k + 1)))) by lia. right. exact I.
Qed.

Lemma table_nonempty : (0 < length sg_table)%nat.
Proof. apply Nat.ltb_lt. vm_compute. reflexivity. Qed.

Lemma number_row_in_table : forall ispg i, find_spacegroup_by_number sg_table ispg = Some i -> In (row_at i) sg_table.
Proof.
  intros ispg i H. unfold find_spacegroup_by_number in H. unfold row_at.
  destruct (ispg =? 0).
  - injection H as <-. apply nth_In. exact table_nonempty.
  - destruct (find_index_in _ _ _ dummy_row _ _ H) as [_ I]. rewrite Z.sub_0_r in I. exact I.
Qed.

(* what setup_core hands over to the symmetry expansion: positive dimensions whose product fits size_t, and a data
   vector of exactly that many elements *)
Lemma setup_core_symm_state : forall h g dflt smode h' g',
  setup_core h g dflt smode = Ok (h', g', true) ->
  exists nu nv nw, g_n g' = (nu, nv, nw) /\ nu > 0 /\ nv > 0 /\ nw > 0 /\ nu * nv * nw < two64 /\
    Z.of_nat (length (g_data g')) = nu * nv * nw.
Proof.
  intros h g dflt smode h' g' H. unfold setup_core, setup_core_gen in H.
  destruct (g_ao g =? 1); [discriminate|].
  destruct (setup_checks h (g_n g) smode) eqn:C; cbn [negb] in H; [|discriminate].
  destruct (axis_positions (h_axes h)) as [pos| | |]; cbn [bind] in H; try discriminate.
  destruct (add_v3 (h_start h) (g_n g)) as [[e0 e1] e2] eqn:Ea.
  destruct (negb (fits_int e0 && fits_int e1 && fits_int e2)); [discriminate|].
  destruct (smode =? 2) eqn:M.
  - (* re-ordering only: never goes on to the expansion *)
    match type of H with bind ?r _ = _ => destruct r as [data'| | |]; cbn [bind] in H; try discriminate end.
    injection H as _ _ Hs.
    assert (smode =? 0 = false) by lia. rewrite H in Hs. discriminate.
  - match type of H with bind ?r _ = _ => destruct r as [data'| | |] eqn:R; cbn [bind] in H; try discriminate end.
    injection H as _ Hg _. subst g'. cbn [g_n g_data].
    unfold setup_checks in C. destruct (h_samp h) as [[m0 m1] m2] eqn:Es. rewrite Ea in C. rewrite M in C.
    cbn [orb] in C.
    apply andb_prop in C; destruct C as [C C6]. apply andb_prop in C; destruct C as [C _].
    apply andb_prop in C; destruct C as [C _]. apply andb_prop in C; destruct C as [C _].
    apply andb_prop in C; destruct C as [C1 _].
    unfold count_fits in C6. rewrite C1 in C6. cbn [negb orb] in C6.
    exists m0, m1, m2. split; [reflexivity|]. repeat (split; [lia|]).
    unfold reindex in R.
    destruct (point_count (m0, m1, m2) >? max_alloc); [discriminate|].
    destruct (loop_count (g_n g) >? Z.of_nat (length (g_data g))); [discriminate|].
    match type of R with bind ?r _ = _ => destruct r as [full| | |]; cbn [bind] in R; try discriminate end.
    injection R as <-. rewrite to_list_length.
    assert (Hp : point_count (m0, m1, m2) = m0 * m1 * m2).
    { unfold point_count. apply Z.mod_small. assert (0 < m0 * m1) by nia. nia. }
    unfold point_count in Hp. rewrite Hp. assert (0 < m0 * m1) by nia. nia.
Qed.

(* For EVERY header, grid produced by the reader, default value and mode: the whole setup() returns or throws. *)
Theorem ccp4_setup_full_in_bounds : forall h g dflt smode,
  Z.of_nat (length (g_data g)) = point_count (g_n g) -> safe (setup_sg h g dflt smode).
Proof.
  intros h g dflt smode Hlen. unfold setup_sg, setup_gen.
  destruct (ccp4_setup_in_bounds h g dflt smode Hlen) as [S1 S2].
  destruct (setup_core h g dflt smode) as [[[h' g'] symm]| | |] eqn:E; cbn [bind]; try (split; congruence).
  destruct symm; [|split; discriminate].
  destruct (setup_core_symm_state _ _ _ _ _ _ E) as [nu [nv [nw [En [Hu [Hv [Hw [Hp Hl]]]]]]]].
  unfold setup_compat, sg_compat, sgops.
  destruct (find_spacegroup_by_number sg_table (h_ispg h')) as [i|] eqn:F.
  - destruct (row_check_grid_factors i (g_n g')) eqn:Cg; cbn [negb]; [|split; discriminate].
    rewrite En in *. unfold row_check_grid_factors in Cg. unfold row_scaled_ops.
    pose proof (symmetrize_in_bounds (row_at i) (number_row_in_table _ _ F) nu nv nw Hu Hv Hw Hp Cg
                  (reducer 4 dflt) (g_data g') Hl) as [T1 T2].
    match goal with |- safe (bind ?r _) => destruct r; cbn [bind]; split; try discriminate; congruence end.
  - cbn [negb]. rewrite En.
    (* no space group: no operations, nothing is indexed *)
    unfold symmetrize_using_ops. cbn [bind]. split; discriminate.
Qed.

(* the header reported for the unrepaired tree: one stored point, P 4/n (number 85), sampling 3 x 1 x 1.
   Without the compatibility test the expansion reads visited[] outside its bounds. *)
Definition hdr_incompatible : hdr := mkHdr (1, 1, 1) 2 (0, 0, 0) (3, 1, 1) (1, 2, 3) 85 0.
Lemma setup_without_compat_refuted :
  setup_gen setup_core no_compat sgops hdr_incompatible (mkGrid (1, 1, 1) 0 [7]) (-1) 0 = Oob /\
  setup_sg hdr_incompatible (mkGrid (1, 1, 1) 0 [7]) (-1) 0 = Exc.
Proof. vm_compute. split; reflexivity. Qed.
