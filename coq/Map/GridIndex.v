(* Model of the index arithmetic of include/gemmi/grid.hpp: modulo, index_q, index_n, index_s.
   Executable definitions only (this file is extracted). C `%` is Z.rem (truncating). *)
From Coq Require Export ZArith List Bool.
Export ListNotations.
Local Open Scope Z_scope.

(* outcome of a piece of C++ code: value | exception | access outside a buffer | arithmetic trap / UB *)
Inductive res (A : Type) : Type := Ok (a : A) | Exc | Oob | Trap.
Arguments Ok {A} a.
Arguments Exc {A}.
Arguments Oob {A}.
Arguments Trap {A}.

Definition bind {A B} (r : res A) (f : A -> res B) : res B :=
  match r with Ok a => f a | Exc => Exc | Oob => Oob | Trap => Trap end.

(* inline int modulo(int a, int n) *)
Definition modulo (a n : Z) : Z :=
  if a >=? n then Z.rem a n
  else if a <? 0 then Z.rem (a + 1) n + n - 1
  else a.

(* does modulo(a, n) execute a remainder by zero?  (a >= 0 = n: a % 0;  a < 0 = n: (a+1) % 0) *)
Definition modulo_traps (a n : Z) : bool := n =? 0.

(* size_t index_q(int u, int v, int w) = size_t(w * nv + v) * nu + u, for in-range arguments *)
Definition index_q (nu nv : Z) (u v w : Z) : Z := (w * nv + v) * nu + u.

(* the same with the size_t conversions made explicit (64-bit wrap-around), for arbitrary ints *)
Definition two64 : Z := 18446744073709551616.
Definition index_q64 (nu nv : Z) (u v w : Z) : Z :=
  ((((w * nv + v) mod two64) * (nu mod two64)) + (u mod two64)) mod two64.

(* index_n_ref: one conditional subtraction / addition per axis *)
Definition wrap_n (u nu : Z) : Z := if u >=? nu then u - nu else if u <? 0 then u + nu else u.
Definition index_n (nu nv nw : Z) (u v w : Z) : Z :=
  index_q nu nv (wrap_n u nu) (wrap_n v nv) (wrap_n w nw).
Definition index_n64 (nu nv nw : Z) (u v w : Z) : Z :=
  index_q64 nu nv (wrap_n u nu) (wrap_n v nv) (wrap_n w nw).

(* Grid::index_s without the emptiness check *)
Definition index_s (nu nv nw : Z) (u v w : Z) : Z :=
  index_q nu nv (modulo u nu) (modulo v nv) (modulo w nw).
Definition index_s64 (nu nv nw : Z) (u v w : Z) : Z :=
  index_q64 nu nv (modulo u nu) (modulo v nv) (modulo w nw).

(* [lo, lo+1, ..., lo+n-1] *)
Fixpoint zseq_nat (lo : Z) (n : nat) : list Z :=
  match n with O => [] | S k => lo :: zseq_nat (lo + 1) k end.
Definition zseq (lo n : Z) : list Z := zseq_nat lo (Z.to_nat n).

Definition int_min : Z := -2147483648.
Definition int_max : Z := 2147483647.
Definition fits_int (x : Z) : bool := (int_min <=? x) && (x <=? int_max).
