(* Model of AsuBrick::uvw_end (include/gemmi/asumask.hpp): the brick 0 <= x <= size/24 (bound included when size < 24,
   excluded when size = 24 ...) holds the grid points u = 0 .. end-1 along an axis sampled with n points.
     incl = size < 24;  f = size/24 + (incl ? 1e-9 : -1e-9);  end = int(f * n) + 1
   In exact arithmetic (the 1e-9 offsets only break ties, for n below 4e7): floor(size n / 24) + 1 when the bound is
   included, ceil(size n / 24) when it is not. *)
From Coq Require Import ZArith Lia.
Local Open Scope Z_scope.

Definition brick_incl (size : Z) : bool := size <? 24.
Definition uvw_end1 (size n : Z) : Z :=
  if brick_incl size then size * n / 24 + 1 else (size * n + 23) / 24.

(* the grid points below the end are exactly those inside the brick along this axis *)
Theorem uvw_end1_spec : forall size n u, 0 <= size -> 0 < n -> 0 <= u ->
  (u < uvw_end1 size n <-> if brick_incl size then 24 * u <= size * n else 24 * u < size * n).
Proof.
  intros size n u Hs Hn Hu. unfold uvw_end1. destruct (brick_incl size).
  - pose proof (Z.div_mod (size * n) 24 ltac:(lia)). pose proof (Z.mod_pos_bound (size * n) 24 ltac:(lia)). lia.
  - pose proof (Z.div_mod (size * n + 23) 24 ltac:(lia)). pose proof (Z.mod_pos_bound (size * n + 23) 24 ltac:(lia)). lia.
Qed.

(* the whole cell along an axis (size = 24): every grid point, and no more *)
Corollary uvw_end1_whole : forall n, 0 < n -> uvw_end1 24 n = n.
Proof.
  intros n Hn. unfold uvw_end1, brick_incl. replace (24 <? 24) with false by reflexivity.
  pose proof (Z.div_mod (24 * n + 23) 24 ltac:(lia)). pose proof (Z.mod_pos_bound (24 * n + 23) 24 ltac:(lia)). lia.
Qed.
