(* Model of gemmi::MemoryStream (include/gemmi/input.hpp): a buffer of `size` bytes and a cursor.
   Only positions matter for safety; contents are abstract. Executable definitions only.
   A step returns the new cursor, the boolean/size result, and the source range [lo, lo+len) that the
   step passes to memcpy / std::string (len = 0 when nothing is copied). *)
From GV Require Export Map.GridIndex.
Local Open Scope Z_scope.

Inductive sop : Type :=
  | SRead (len : Z)            (* read(buf, len) *)
  | SSkip (n : Z)              (* skip(n) *)
  | SGets (size : Z) (nl : Z)  (* gets(line, size); nl = distance to the next '\n' from cur, or -1 if none *)
  | SGetc
  | SRest.                     (* read_rest() *)

Record sres : Type := mkSres { s_cur : Z; s_ret : Z; s_lo : Z; s_len : Z }.

(* the snapshot: skip() moves the cursor unconditionally; read() tests cur + len > end *)
Definition step_orig (size cur : Z) (o : sop) : sres :=
  match o with
  | SRead len => if cur + len >? size then mkSres cur 0 cur 0 else mkSres (cur + len) 1 cur len
  | SSkip n => mkSres (cur + n) (if cur + n <? size then 1 else 0) cur 0
  | SGets sz nl =>
    let sz1 := sz - 1 in
    if cur >=? size then mkSres cur 0 cur 0 else
    let sz2 := if sz1 >? size - cur then size - cur else sz1 in
    let len := if (0 <=? nl) && (nl <? sz2) then nl + 1 else sz2 in
    mkSres (cur + len) 1 cur len
  | SGetc => if cur <? size then mkSres (cur + 1) 1 cur 1 else mkSres cur (-1) cur 0
  | SRest => mkSres size 1 cur (size - cur)
  end.

(* the repaired stream: skip() stops at the end; read() compares len with the bytes left *)
Definition step (size cur : Z) (o : sop) : sres :=
  match o with
  | SRead len => if len >? size - cur then mkSres cur 0 cur 0 else mkSres (cur + len) 1 cur len
  | SSkip n => if n >=? size - cur then mkSres size 0 cur 0 else mkSres (cur + n) 1 cur 0
  | _ => step_orig size cur o
  end.

(* a source range is valid when it lies inside the buffer *)
Definition range_ok (size : Z) (r : sres) : bool :=
  (0 <=? s_len r) && (0 <=? s_lo r) && (s_lo r + s_len r <=? size).

Fixpoint run (stp : Z -> Z -> sop -> sres) (size cur : Z) (ops : list sop) : list sres :=
  match ops with
  | [] => []
  | o :: t => let r := stp size cur o in r :: run stp size (s_cur r) t
  end.

Definition sop_ok (o : sop) : bool :=
  match o with
  | SRead len => 0 <=? len
  | SSkip n => 0 <=? n
  | SGets sz nl => (1 <=? sz) && (-1 <=? nl)
  | _ => true
  end.
