(* Proofs about the index arithmetic model (property C09). *)
From Coq Require Import Lia ZifyBool.
From GV Require Import Map.GridIndex.
Local Open Scope Z_scope.
Ltac Zify.zify_post_hook ::= Z.to_euclidean_division_equations.

(* modulo() with C remainder semantics is the mathematical (floored) residue, for every int a *)
Lemma modulo_spec : forall a n, n > 0 -> modulo a n = a mod n.
Proof.
  intros a n Hn. unfold modulo.
  destruct (a >=? n) eqn:H1.
  - apply Z.rem_mod_nonneg; lia.
  - destruct (a <? 0) eqn:H2.
    + assert (Ha : a + 1 = - (- (a + 1))) by lia.
      rewrite Ha, Z.rem_opp_l' , Z.rem_mod_nonneg by lia.
      pose proof (Z.div_mod (- (a + 1)) n ltac:(lia)) as Hd.
      pose proof (Z.mod_pos_bound (- (a + 1)) n ltac:(lia)) as Hb.
      apply Z.mod_unique_pos with (q := - ((- (a + 1)) / n) - 1); [lia|]. nia.
    + symmetry. apply Z.mod_small. lia.
Qed.

Lemma modulo_range : forall a n, n > 0 -> 0 <= modulo a n < n.
Proof. intros a n Hn. rewrite modulo_spec by lia. apply Z.mod_pos_bound. lia. Qed.

Lemma modulo_no_trap : forall a n, n > 0 -> modulo_traps a n = false.
Proof. intros. unfold modulo_traps. lia. Qed.

(* the single conditional correction of index_n is enough exactly on [-n, 2n) *)
Lemma wrap_n_spec : forall u n, n > 0 -> - n <= u < 2 * n -> wrap_n u n = u mod n.
Proof.
  intros u n Hn Hu. unfold wrap_n.
  destruct (u >=? n) eqn:H1.
  - apply Z.mod_unique_pos with (q := 1); lia.
  - destruct (u <? 0) eqn:H2.
    + apply Z.mod_unique_pos with (q := -1); lia.
    + apply Z.mod_unique_pos with (q := 0); lia.
Qed.

(* and not beyond: outside that interval the result is not a valid coordinate *)
Lemma wrap_n_outside : forall u n, n > 0 -> (u < - n \/ u >= 2 * n) -> ~ (0 <= wrap_n u n < n).
Proof.
  intros u n Hn Hu. unfold wrap_n.
  destruct (u >=? n) eqn:H1; [lia|].
  destruct (u <? 0) eqn:H2; lia.
Qed.

Lemma index_q_range : forall nu nv nw u v w, 0 <= u < nu -> 0 <= v < nv -> 0 <= w < nw ->
  0 <= index_q nu nv u v w < nu * nv * nw.
Proof.
  intros nu nv nw u v w Hu Hv Hw. unfold index_q.
  assert (H1 : 0 <= w * nv + v <= nw * nv - 1) by nia.
  assert (H2 : 0 <= (w * nv + v) * nu <= (nw * nv - 1) * nu) by nia.
  nia.
Qed.

Lemma mixed_radix_inj : forall n a u a' u', 0 <= u < n -> 0 <= u' < n -> a * n + u = a' * n + u' ->
  a = a' /\ u = u'.
Proof.
  intros n a u a' u' Hu Hu' H.
  assert (Ha : a = a').
  { destruct (Z.lt_trichotomy a a') as [Hl|[He|Hg]]; [|exact He|].
    - exfalso. assert (a' * n >= (a + 1) * n) by nia. lia.
    - exfalso. assert (a * n >= (a' + 1) * n) by nia. lia. }
  subst a'. lia.
Qed.

Lemma index_q_inj : forall nu nv u v w u' v' w', 0 <= u < nu -> 0 <= v < nv -> 0 <= u' < nu -> 0 <= v' < nv ->
  index_q nu nv u v w = index_q nu nv u' v' w' -> u = u' /\ v = v' /\ w = w'.
Proof.
  intros nu nv u v w u' v' w' Hu Hv Hu' Hv' H. unfold index_q in H.
  apply mixed_radix_inj in H; [|lia|lia]. destruct H as [H1 H2].
  apply mixed_radix_inj in H1; [|lia|lia]. lia.
Qed.

Lemma index_q64_small : forall nu nv nw u v w, 0 < nu -> 0 < nv -> 0 < nw -> nu * nv * nw < two64 ->
  0 <= u < nu -> 0 <= v < nv -> 0 <= w < nw -> index_q64 nu nv u v w = index_q nu nv u v w.
Proof.
  intros nu nv nw u v w Hu0 Hv0 Hw0 Hsz Hu Hv Hw. unfold index_q64, index_q.
  pose proof (index_q_range nu nv nw u v w Hu Hv Hw) as Hq. unfold index_q in Hq.
  assert (Ha : 0 <= w * nv + v <= nw * nv - 1) by nia.
  assert (Hb : 1 <= nv * nw) by nia.
  assert (Hc : nw * nv * 1 <= nw * nv * nu) by (apply Z.mul_le_mono_nonneg_l; nia).
  assert (Hd : nu * 1 <= nu * (nv * nw)) by (apply Z.mul_le_mono_nonneg_l; lia).
  assert (H1 : 0 <= w * nv + v < two64) by nia.
  assert (H2 : 0 <= nu < two64) by nia.
  assert (H3 : 0 <= u < two64) by nia.
  rewrite (Z.mod_small (w * nv + v)), (Z.mod_small nu), (Z.mod_small u) by lia.
  apply Z.mod_small. lia.
Qed.

Lemma index_n_spec : forall nu nv nw u v w, nu > 0 -> nv > 0 -> nw > 0 ->
  - nu <= u < 2 * nu -> - nv <= v < 2 * nv -> - nw <= w < 2 * nw ->
  index_n nu nv nw u v w = index_q nu nv (u mod nu) (v mod nv) (w mod nw) /\
  0 <= index_n nu nv nw u v w < nu * nv * nw.
Proof.
  intros nu nv nw u v w Hnu Hnv Hnw Hu Hv Hw. unfold index_n.
  rewrite !wrap_n_spec by lia. split; [reflexivity|].
  apply index_q_range; apply Z.mod_pos_bound; lia.
Qed.

Lemma index_s_spec : forall nu nv nw u v w, nu > 0 -> nv > 0 -> nw > 0 ->
  index_s nu nv nw u v w = index_q nu nv (u mod nu) (v mod nv) (w mod nw) /\
  0 <= index_s nu nv nw u v w < nu * nv * nw.
Proof.
  intros nu nv nw u v w Hnu Hnv Hnw. unfold index_s.
  rewrite !modulo_spec by lia. split; [reflexivity|].
  apply index_q_range; apply Z.mod_pos_bound; lia.
Qed.

(* index_s is periodic: points that differ by whole cells share a voxel *)
Lemma index_s_periodic : forall nu nv nw u v w a b c, nu > 0 -> nv > 0 -> nw > 0 ->
  index_s nu nv nw (u + a * nu) (v + b * nv) (w + c * nw) = index_s nu nv nw u v w.
Proof.
  intros. unfold index_s. rewrite !modulo_spec by lia. rewrite !Z.mod_add by lia. reflexivity.
Qed.

Lemma index_s64_eq : forall nu nv nw u v w, nu > 0 -> nv > 0 -> nw > 0 -> nu * nv * nw < two64 ->
  index_s64 nu nv nw u v w = index_s nu nv nw u v w.
Proof.
  intros. unfold index_s64, index_s. rewrite !modulo_spec by lia.
  apply index_q64_small with (nw := nw); try lia; apply Z.mod_pos_bound; lia.
Qed.

Lemma index_n64_eq : forall nu nv nw u v w, nu > 0 -> nv > 0 -> nw > 0 -> nu * nv * nw < two64 ->
  - nu <= u < 2 * nu -> - nv <= v < 2 * nv -> - nw <= w < 2 * nw ->
  index_n64 nu nv nw u v w = index_n nu nv nw u v w.
Proof.
  intros. unfold index_n64, index_n. rewrite !wrap_n_spec by lia.
  apply index_q64_small with (nw := nw); try lia; apply Z.mod_pos_bound; lia.
Qed.

(* zseq *)
Lemma zseq_nat_In : forall n lo x, In x (zseq_nat lo n) <-> lo <= x < lo + Z.of_nat n.
Proof.
  induction n as [|n IH]; intros lo x; simpl.
  - lia.
  - rewrite IH. lia.
Qed.
Lemma zseq_In : forall lo n x, In x (zseq lo n) <-> lo <= x < lo + Z.max 0 n.
Proof. intros. unfold zseq. rewrite zseq_nat_In. lia. Qed.
Lemma zseq_nat_length : forall n lo, length (zseq_nat lo n) = n.
Proof. induction n; intros; simpl; auto. Qed.
Lemma zseq_nat_nth : forall n lo k d, (k < n)%nat -> nth k (zseq_nat lo n) d = lo + Z.of_nat k.
Proof.
  induction n as [|n IH]; intros lo k d Hk; [lia|].
  destruct k; simpl; [lia|]. rewrite IH by lia. lia.
Qed.
Lemma zseq_nat_NoDup : forall n lo, NoDup (zseq_nat lo n).
Proof.
  induction n as [|n IH]; intros lo; simpl; constructor.
  - rewrite zseq_nat_In. lia.
  - apply IH.
Qed.
