(* The model instantiated with the space-group table regenerated from the repository. *)
From GV Require Export Map.Setup Sym.SgLookup Sym.SgTable_gen.
Local Open Scope Z_scope.

Definition dummy_row : sgrow := mkRow 1 1 [] 0 [] [] 0.
Definition row_at (i : Z) : sgrow := nth (Z.to_nat i) sg_table dummy_row.

Definition row_gops (r : sgrow) : gops :=
  match operations r with HOk g => g | _ => mkG [] [] end.

(* scaled operations of table row i for a grid nu x nv x nw *)
Definition row_scaled_ops (i : Z) (n : v3) : list gridop :=
  let r := row_at i in let '(nu, nv, nw) := n in
  scaled_ops_except_id (sg_number r) (row_gops r) nu nv nw.

(* find_spacegroup_by_number(ISPG) then get_scaled_ops_except_id; unknown number = no space group *)
Definition sgops (ispg : Z) (n : v3) : list gridop :=
  match find_spacegroup_by_number sg_table ispg with
  | Some i => row_scaled_ops i n
  | None => []
  end.

Definition row_check_grid_factors (i : Z) (n : v3) : bool :=
  let '(nu, nv, nw) := n in check_grid_factors (row_gops (row_at i)) nu nv nw.

(* check_grid_factors(grid.spacegroup, size) for the header's space group *)
Definition sg_compat (ispg : Z) (n : v3) : bool :=
  match find_spacegroup_by_number sg_table ispg with
  | Some i => row_check_grid_factors i n
  | None => true
  end.
Definition no_compat (ispg : Z) (n : v3) : bool := true.
(* compatibility test in setup() before symmetrize_nondefault (check_grid_factors; none in the original code) *)
Definition setup_compat := sg_compat.

Definition setup_sg := setup_gen setup_core setup_compat sgops.
Definition setup_sg_orig := setup_gen setup_core_orig no_compat sgops.
