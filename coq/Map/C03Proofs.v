(* Proofs for property C03 (binary readers are safe): refutations of the snapshot's code and safety of the
   repaired code, over the models Map/Setup.v, Map/Stream.v, Map/GzGrow.v. *)
From Coq Require Import Lia ZifyBool.
From GV Require Import Map.GridIndex Map.GridIndexProofs Map.Arr Map.ArrProofs Map.GridOps Map.Setup
  Map.SetupProofs Map.Stream Map.GzGrow.
Local Open Scope Z_scope.
Ltac Zify.zify_post_hook ::= idtac.

(* ---------------- CCP4 setup(): the snapshot ---------------- *)
Definition hdr_zero_sampling : hdr := mkHdr (2, 2, 1) 2 (0, 0, 0) (0, 2, 1) (2, 1, 3) 1 0.
Definition hdr_neg_sampling : hdr := mkHdr (2, 3, 4) 2 (0, 0, 0) (-4, -4, 3) (2, 1, 3) 1 0.
Definition hdr_start_overflow : hdr := mkHdr (4, 6, 8) 2 (2147483647, 0, 0) (4, 6, 8) (2, 1, 3) 1 0.
Definition grid_for (h : hdr) : grid :=
  mkGrid (h_n h) 0 (map (fun _ => 1) (zseq 0 (loop_count (h_n h)))).

(* MX = 0: modulo(., 0), a remainder by zero *)
Lemma setup_orig_div_by_zero : setup_core_orig hdr_zero_sampling (grid_for hdr_zero_sampling) (-1) 1 = Trap.
Proof. vm_compute. reflexivity. Qed.
(* negative sampling words: a positive point count and an index outside the new buffer *)
Lemma setup_orig_wild_index : setup_core_orig hdr_neg_sampling (grid_for hdr_neg_sampling) (-1) 1 = Oob.
Proof. vm_compute. reflexivity. Qed.
(* NXSTART + NX overflows int *)
Lemma setup_orig_int_overflow : setup_core_orig hdr_start_overflow (grid_for hdr_start_overflow) (-1) 1 = Trap.
Proof. vm_compute. reflexivity. Qed.

(* all three headers pass everything the snapshot's reader checks: MAPC/MAPR/MAPS a permutation, mode, NSYMBT *)
Lemma setup_orig_refuted :
  exists h g dflt smode, axis_positions (h_axes h) <> Exc /\ (setup_core_orig h g dflt smode = Trap \/
                                                              setup_core_orig h g dflt smode = Oob).
Proof.
  exists hdr_zero_sampling, (grid_for hdr_zero_sampling), (-1), 1. split; [vm_compute; discriminate|].
  left. exact setup_orig_div_by_zero.
Qed.

(* ---------------- gzip growth loop ---------------- *)
(* snapshot: a 2-member file (data, then an empty member) has ISIZE 0; the buffer never grows *)
Lemma gz_growth_orig_stuck : forall fuel rem, rem > 0 -> grow_loop grow_orig fuel (0, rem) = None.
Proof.
  induction fuel as [|f IH]; intros rem Hr; simpl.
  - replace (rem <=? 0) with false by lia. reflexivity.
  - replace (rem <=? 0) with false by lia.
    unfold grow_orig. replace (0 >? gz_limit) with false by reflexivity.
    replace (Z.min 0 rem) with 0 by lia. replace (0 + 0) with 0 by lia. replace (rem - 0) with rem by lia.
    apply IH. exact Hr.
Qed.

Lemma gz_growth_refuted : exists est total, 0 <= est /\ 0 < total /\
  forall fuel, uncompress grow_orig fuel est total = None.
Proof.
  exists 0, 6. split; [lia|]. split; [lia|]. intros fuel. unfold uncompress.
  replace (0 >? gz_limit) with false by reflexivity. cbn [Z.min Z.ltb Z.compare Z.sub Z.opp Z.add].
  rewrite (gz_growth_orig_stuck fuel 6) by lia. reflexivity.
Qed.

(* repaired loop: terminates for every buffer size and every amount of remaining data, within `remaining`
   iterations, with an exception or with everything read *)
Lemma grow_eq : forall size rem, grow (size, rem) =
  if size >? gz_limit then None else Some (size + Z.min (Z.max size min_chunk) rem, rem - Z.min (Z.max size min_chunk) rem).
Proof. reflexivity. Qed.

Lemma gz_growth_terminates : forall fuel size rem, 0 <= size -> rem <= Z.of_nat fuel ->
  grow_loop grow fuel (size, rem) = Some None \/
  (exists size', grow_loop grow fuel (size, rem) = Some (Some (size', Z.min rem 0)) /\ size' = size + Z.max rem 0).
Proof.
  induction fuel as [|f IH]; intros size rem Hs Hr.
  - simpl. replace (rem <=? 0) with true by lia. right. exists size. split; [f_equal; f_equal; f_equal; lia|lia].
  - cbn [grow_loop snd]. destruct (rem <=? 0) eqn:E.
    + right. exists size. split; [f_equal; f_equal; f_equal; lia|lia].
    + rewrite grow_eq. destruct (size >? gz_limit) eqn:L; [left; reflexivity|].
      set (n := Z.min (Z.max size min_chunk) rem).
      assert (Hn : 1 <= n <= rem) by (unfold n, min_chunk; lia).
      destruct (IH (size + n) (rem - n) ltac:(lia) ltac:(lia)) as [X|[s' [X1 X2]]].
      * left. exact X.
      * right. exists s'. split; [|lia]. rewrite X1. f_equal. f_equal. f_equal. lia.
Qed.

Lemma uncompress_terminates : forall est total, 0 <= est -> 0 <= total ->
  uncompress grow (Z.to_nat total) est total = Some None \/
  uncompress grow (Z.to_nat total) est total = Some (Some total).
Proof.
  intros est total He Ht. unfold uncompress.
  destruct (est >? gz_limit); [left; reflexivity|].
  destruct (Z.min est total <? est) eqn:E.
  - right. f_equal. f_equal. lia.
  - destruct (gz_growth_terminates (Z.to_nat total) est (total - Z.min est total) He ltac:(lia)) as [X|[s' [X1 X2]]].
    + rewrite X. left. reflexivity.
    + rewrite X1. right. cbn [fst]. f_equal. f_equal. lia.
Qed.

(* ---------------- MemoryStream ---------------- *)
(* snapshot: skip() past the end, then read_rest() builds a string from a range that is not in the buffer *)
Lemma stream_orig_refuted : exists size ops, forallb sop_ok ops = true /\
  existsb (fun r => negb (range_ok size r) || (size <? s_cur r)) (run step_orig size 0 ops) = true.
Proof. exists 20, [SSkip 30; SRest]. split; reflexivity. Qed.

Definition sres_ok (size : Z) (r : sres) : Prop := range_ok size r = true /\ 0 <= s_cur r <= size.

Lemma step_safe : forall size cur o, 0 <= cur <= size -> sop_ok o = true -> sres_ok size (step size cur o).
Proof.
  intros size cur o Hc Ho. unfold sres_ok, range_ok.
  destruct o as [len|n|sz nl| |]; simpl in *.
  - destruct (len >? size - cur) eqn:E; simpl; lia.
  - destruct (n >=? size - cur) eqn:E; simpl; lia.
  - destruct (cur >=? size) eqn:E; simpl; [lia|].
    destruct (sz - 1 >? size - cur) eqn:E2; destruct ((0 <=? nl) && (nl <? size - cur)) eqn:E3;
      destruct ((0 <=? nl) && (nl <? sz - 1)) eqn:E4; simpl; lia.
  - destruct (cur <? size) eqn:E; simpl; lia.
  - lia.
Qed.

(* the invariant over arbitrary call sequences *)
Lemma stream_never_past_end : forall ops size cur, 0 <= cur <= size -> forallb sop_ok ops = true ->
  Forall (sres_ok size) (run step size cur ops).
Proof.
  induction ops as [|o t IH]; intros size cur Hc Ho; simpl; constructor.
  - apply step_safe; auto. simpl in Ho. apply andb_prop in Ho. tauto.
  - simpl in Ho. apply andb_prop in Ho. destruct Ho as [Ho1 Ho2].
    apply IH; auto. apply (step_safe size cur o Hc Ho1).
Qed.

(* ---------------- CCP4 setup(): the repaired code ---------------- *)
Definition safe {A} (r : res A) : Prop := r <> Oob /\ r <> Trap.

Lemma axis_positions_cases : forall a, axis_positions a = Exc \/ exists pos, axis_positions a = Ok pos /\ is_perm pos.
Proof.
  intros a. destruct (axis_positions a) as [pos| | |] eqn:E.
  - right. exists pos. split; [reflexivity|]. eapply axis_positions_perm; eauto.
  - left. reflexivity.
  - exfalso. destruct a as [[c r] s]. unfold axis_positions in E.
    destruct (_ && _) in E; discriminate.
  - exfalso. destruct a as [[c r] s]. unfold axis_positions in E.
    destruct (_ && _) in E; discriminate.
Qed.

Lemma write_all_total : forall s0 s1 s2 ext pos nu nv nw, nu > 0 -> nv > 0 -> nw > 0 -> nu * nv * nw <= max_alloc ->
  forall ws a, exists a', write_all (s0, s1, s2) ext pos (nu, nv, nw) (nu * nv * nw) ws a = Ok a'.
Proof.
  intros s0 s1 s2 [[n0 n1] n2] pos nu nv nw Hu Hv Hw Hal.
  induction ws as [|[k v] t IH]; intros a; simpl; [eexists; reflexivity|].
  rewrite (new_index_ok s0 s1 s2 n0 n1 n2 nu nv nw pos Hu Hv Hw Hal k). simpl. apply IH.
Qed.

Lemma reindex_safe : forall s0 s1 s2 ext pos nu nv nw dflt data,
  ((nu > 0 /\ nv > 0 /\ nw > 0 /\ nu * nv * nw < two64) \/ loop_count ext = 0) ->
  loop_count ext <= Z.of_nat (length data) ->
  safe (reindex (s0, s1, s2) ext pos (nu, nv, nw) dflt data).
Proof.
  intros s0 s1 s2 ext pos nu nv nw dflt data Hc Hl. unfold reindex, safe.
  destruct (point_count (nu, nv, nw) >? max_alloc) eqn:E; [split; discriminate|].
  replace (loop_count ext >? Z.of_nat (length data)) with false by lia.
  destruct Hc as [[Hu [Hv [Hw Hp]]]|Hz].
  - assert (Hpc : point_count (nu, nv, nw) = nu * nv * nw).
    { unfold point_count. apply Z.mod_small. split; [|exact Hp]. assert (0 < nu * nv) by nia. nia. }
    rewrite Hpc in *.
    destruct (write_all_total s0 s1 s2 ext pos nu nv nw Hu Hv Hw ltac:(lia)
                (combine (zseq 0 (loop_count ext)) data) aempty) as [a' Ha].
    rewrite Ha. simpl. split; discriminate.
  - rewrite Hz. simpl. split; discriminate.
Qed.

Lemma perm_positive : forall pos n0 n1 n2, is_perm pos -> n0 > 0 -> n1 > 0 -> n2 > 0 -> n0 * n1 * n2 < two64 ->
  let a := sel (n0, n1, n2) (sel pos 0) in let b := sel (n0, n1, n2) (sel pos 1) in
  let c := sel (n0, n1, n2) (sel pos 2) in a > 0 /\ b > 0 /\ c > 0 /\ a * b * c < two64.
Proof.
  intros pos n0 n1 n2 [P|[P|[P|[P|[P|P]]]]] H0 H1 H2 Hp; subst pos; autorewrite with selrw;
    repeat split; try assumption.
  - replace (n0 * n2 * n1) with (n0 * n1 * n2) by ring. exact Hp.
  - replace (n1 * n0 * n2) with (n0 * n1 * n2) by ring. exact Hp.
  - replace (n2 * n0 * n1) with (n0 * n1 * n2) by ring. exact Hp.
  - replace (n1 * n2 * n0) with (n0 * n1 * n2) by ring. exact Hp.
  - replace (n2 * n1 * n0) with (n0 * n1 * n2) by ring. exact Hp.
Qed.

(* For EVERY header and grid that the reader can produce (the data vector has point_count elements), setup()
   in every mode returns or throws: no index outside a buffer, no remainder by zero, no int overflow.
   The only facts used about the header are the tests the repaired code makes. *)
Theorem ccp4_setup_in_bounds : forall h g dflt smode,
  Z.of_nat (length (g_data g)) = point_count (g_n g) -> safe (setup_core h g dflt smode).
Proof.
  intros h g dflt smode Hlen. unfold setup_core, setup_core_gen, safe.
  destruct (g_ao g =? 1); [split; discriminate|].
  destruct (setup_checks h (g_n g) smode) eqn:C; cbn [negb]; [|split; discriminate].
  unfold setup_checks in C.
  destruct (h_samp h) as [[m0 m1] m2] eqn:Es. destruct (h_start h) as [[s0 s1] s2] eqn:Est.
  destruct (g_n g) as [[n0 n1] n2] eqn:En. cbn [add_v3] in *.
  apply andb_prop in C; destruct C as [C C6]. apply andb_prop in C; destruct C as [C C5].
  apply andb_prop in C; destruct C as [C C4]. apply andb_prop in C; destruct C as [C C3].
  apply andb_prop in C; destruct C as [C1 C2].
  destruct (axis_positions_cases (h_axes h)) as [Ea|[pos [Ea Hperm]]]; rewrite Ea; cbn [bind]; [split; discriminate|].
  rewrite C2, C3, C4. cbn [andb negb].
  assert (Hloop : loop_count (n0, n1, n2) <= Z.of_nat (length (g_data g)) /\
                  (loop_count (n0, n1, n2) = 0 \/ (n0 > 0 /\ n1 > 0 /\ n2 > 0 /\ n0 * n1 * n2 < two64))).
  { unfold loop_count. unfold count_fits in C5.
    destruct ((0 <? n0) && (0 <? n1) && (0 <? n2)) eqn:P; cbn [negb orb] in C5.
    - assert (Hp : n0 * n1 * n2 < two64) by lia.
      assert (Hpos : 0 <= n0 * n1 * n2) by (assert (0 < n0 * n1) by nia; nia).
      rewrite Hlen. unfold point_count. rewrite Z.mod_small by lia. split; [lia|right; lia].
    - split; [lia|left; reflexivity]. }
  destruct Hloop as [Hl1 Hl2].
  match goal with |- context [reindex ?st ?ext ?p ?nn ?d ?dat] =>
    assert (S : safe (reindex st ext p nn d dat)) end.
  { destruct (smode =? 2) eqn:M.
    - destruct Hl2 as [Z0|[P0 [P1 [P2 Pp]]]].
      + apply reindex_safe; [right; exact Z0|exact Hl1].
      + apply reindex_safe; [left|exact Hl1]. apply perm_positive; assumption.
    - cbn [orb] in C1, C6. unfold count_fits in C6.
      replace ((0 <? m0) && (0 <? m1) && (0 <? m2)) with true in C6 by lia. cbn [negb orb] in C6.
      apply reindex_safe; [left; lia|exact Hl1]. }
  destruct S as [S1 S2].
  match goal with |- context [reindex ?st ?ext ?p ?nn ?d ?dat] =>
    destruct (reindex st ext p nn d dat); cbn [bind]; split; try discriminate; congruence end.
Qed.

(* the witnesses that refute the snapshot are rejected by the repaired checks *)
Example repaired_rejects_witnesses :
  setup_core hdr_zero_sampling (grid_for hdr_zero_sampling) (-1) 1 = Exc /\
  setup_core hdr_neg_sampling (grid_for hdr_neg_sampling) (-1) 1 = Exc /\
  setup_core hdr_start_overflow (grid_for hdr_start_overflow) (-1) 1 = Exc.
Proof. vm_compute. repeat split; reflexivity. Qed.

(* 2^22 x 2^22 x 2^22 sampling: the point count wraps to 0 and the first voxel is written outside *)
Definition hdr_wrap : hdr := mkHdr (1, 1, 1) 2 (0, 0, 0) (4194304, 4194304, 4194304) (1, 2, 3) 1 0.
Lemma setup_orig_count_wraps : setup_core_orig hdr_wrap (grid_for hdr_wrap) (-1) 1 = Oob.
Proof. vm_compute. reflexivity. Qed.
