(* Model of Ccp4Base::axis_positions, Ccp4<T>::setup(default, MapSetup) and the header words it
   reads/writes (include/gemmi/ccp4.hpp). Executable definitions only.
   Header words (1-based, as in the format description):
     1-3 NX NY NZ (columns, rows, sections), 4 MODE, 5-7 NXSTART.., 8-10 MX MY MZ (sampling along X,Y,Z),
     17-19 MAPC MAPR MAPS, 23 ISPG, 24 NSYMBT. *)
From GV Require Export Map.GridOps.
Local Open Scope Z_scope.

Record hdr : Type := mkHdr {
  h_n : v3; h_mode : Z; h_start : v3; h_samp : v3; h_axes : v3; h_ispg : Z; h_nsymbt : Z }.

(* nu nv nw, axis_order (0 Unknown, 1 XYZ), data in storage order *)
Record grid : Type := mkGrid { g_n : v3; g_ao : Z; g_data : list Z }.

Definition sel (t : v3) (i : Z) : Z :=
  let '(a, b, c) := t in if i =? 0 then a else if i =? 1 then b else c.

(* pos[mapi - 1] = i, fail() unless MAPC/MAPR/MAPS is a permutation of 1,2,3 *)
Definition axis_positions (axes : v3) : res v3 :=
  let '(c, r, s) := axes in
  let ok x := (1 <=? x) && (x <=? 3) in
  if ok c && ok r && ok s && negb (c =? r) && negb (c =? s) && negb (r =? s) then
    let find k := if c =? k then 0 else if r =? k then 1 else 2 in
    Ok (find 1, find 2, find 3)
  else Exc.

Definition v3_eq0 (t : v3) : bool := v3_eqb t (0, 0, 0).
(* (size_t) nu * nv * nw *)
Definition point_count (n : v3) : Z := let '(a, b, c) := n in (a * b * c) mod two64.
(* number of iterations of the three nested for-loops  for (it = start; it < end; it++) *)
Definition loop_count (n : v3) : Z :=
  let '(a, b, c) := n in if (0 <? a) && (0 <? b) && (0 <? c) then a * b * c else 0.

(* index written by the k-th iteration (k counts columns fastest), for the new dimensions nn *)
Definition voxel_target (start ext pos nn : v3) (k : Z) : v3 :=
  let '(n0, n1, _) := ext in
  let it := (sel start 0 + k mod n0, sel start 1 + (k / n0) mod n1, sel start 2 + k / (n0 * n1)) in
  (sel it (sel pos 0), sel it (sel pos 1), sel it (sel pos 2)).

Definition new_index (start ext pos nn : v3) (size : Z) (k : Z) : res Z :=
  let '(x, y, z) := voxel_target start ext pos nn k in
  let '(nu, nv, nw) := nn in
  if modulo_traps x nu || modulo_traps y nv || modulo_traps z nw then Trap
  else let i := index_s64 nu nv nw x y z in
       if in_size i size then Ok i else Oob.

Fixpoint write_all (start ext pos nn : v3) (size : Z) (ws : list (Z * Z)) (a : arr) : res arr :=
  match ws with
  | [] => Ok a
  | (k, v) :: t => bind (new_index start ext pos nn size k)
                        (fun i => write_all start ext pos nn size t (aset a i v))
  end.

(* the largest number of elements for which the allocation of `full` is assumed to succeed;
   above it the model predicts std::bad_alloc / std::length_error *)
Definition max_alloc : Z := 268435456.

(* the re-indexing loop of setup(): allocate `full` (nn points, default value), store file voxel k at its
   new index; the result is the new data vector *)
Definition reindex (start ext pos nn : v3) (dflt : Z) (data : list Z) : res (list Z) :=
  let size := point_count nn in
  if size >? max_alloc then Exc else
  (* the loop reads data[idx++] once per iteration *)
  if loop_count ext >? Z.of_nat (length data) then Oob else
  bind (write_all start ext pos nn size (combine (zseq 0 (loop_count ext)) data) aempty)
       (fun full => Ok (to_list full dflt size)).

(* header validation at the start of setup(); the original code has none *)
Definition no_checks (h : hdr) (n : v3) (smode : Z) : bool := true.
(* (size_t) a * b * c does not wrap around (only tested for positive a, b, c) *)
Definition count_fits (t : v3) : bool :=
  let '(a, b, c) := t in negb ((0 <? a) && (0 <? b) && (0 <? c)) || (a * b * c <? two64).
(* the repaired code: positive sampling (unless only re-ordering), start + size inside int, counts fit size_t *)
Definition setup_checks (h : hdr) (n : v3) (smode : Z) : bool :=
  let '(m0, m1, m2) := h_samp h in
  let '(e0, e1, e2) := add_v3 (h_start h) n in
  ((smode =? 2) || ((0 <? m0) && (0 <? m1) && (0 <? m2))) &&
  fits_int e0 && fits_int e1 && fits_int e2 &&
  count_fits n && ((smode =? 2) || count_fits (h_samp h)).

(* setup() up to and including the re-indexing loop.
   smode: 0 Full, 1 NoSymmetry, 2 ReorderOnly. Result: header', grid', and whether Full mode goes on
   to symmetrize_nondefault. *)
Definition setup_core_gen (checks : hdr -> v3 -> Z -> bool) (h : hdr) (g : grid) (dflt smode : Z)
  : res (hdr * grid * bool) :=
  if g_ao g =? 1 then Ok (h, g, false) else
  if negb (checks h (g_n g) smode) then Exc else
  let sampl := h_samp h in
  bind (axis_positions (h_axes h)) (fun pos =>
    let start := h_start h in
    let n := g_n g in
    let '(e0, e1, e2) := add_v3 start n in
    if negb (fits_int e0 && fits_int e1 && fits_int e2) then Trap else
    let reorder := smode =? 2 in
    let start' := if reorder then (0, 0, 0) else start in
    let hstart := if reorder then (sel start (sel pos 0), sel start (sel pos 1), sel start (sel pos 2))
                  else (0, 0, 0) in
    let nn := if reorder then (sel n (sel pos 0), sel n (sel pos 1), sel n (sel pos 2)) else sampl in
    let h' := mkHdr nn (h_mode h) hstart sampl (1, 2, 3) (h_ispg h) (h_nsymbt h) in
    let ao' := if v3_eq0 hstart && v3_eqb sampl nn then 1 else 0 in
    bind (reindex start' n pos nn dflt (g_data g)) (fun data' =>
      let part := (sel n (sel pos 0) <? sel sampl 0) || (sel n (sel pos 1) <? sel sampl 1)
                  || (sel n (sel pos 2) <? sel sampl 2) in
      Ok (h', mkGrid nn ao' data', (smode =? 0) && part))).

Definition setup_core := setup_core_gen setup_checks.
(* the code as found in the pinned snapshot *)
Definition setup_core_orig := setup_core_gen no_checks.

(* the whole of setup(); sgops ispg n = scaled operations of the header's space group for grid n;
   compat ispg n = the compatibility test made before the symmetry expansion (none in the original code) *)
Definition setup_gen (core : hdr -> grid -> Z -> Z -> res (hdr * grid * bool)) (compat : Z -> v3 -> bool)
                     (sgops : Z -> v3 -> list gridop) (h : hdr) (g : grid) (dflt smode : Z) : res (hdr * grid) :=
  bind (core h g dflt smode) (fun r =>
    let '(h', g', symm) := r in
    if symm then
      if negb (compat (h_ispg h') (g_n g')) then Exc else
      let '(nu, nv, nw) := g_n g' in
      bind (symmetrize_using_ops (reducer 4 dflt) nu nv nw (sgops (h_ispg h') (g_n g')) (g_data g'))
           (fun d => Ok (h', mkGrid (g_n g') (g_ao g') d))
    else Ok (h', g')).

(* what read_ccp4_header_ leaves in the grid: NX,NY,NZ and axis_order XYZ only for a full cell in X,Y,Z order.
   (MAPC/MAPR/MAPS outside 1..3 or repeated make the reader throw: axis_positions.) *)
Definition grid_of_header (h : hdr) (data : list Z) : res grid :=
  bind (axis_positions (h_axes h)) (fun pos =>
    let xyz := v3_eqb pos (0, 1, 2) && v3_eq0 (h_start h) && v3_eqb (h_samp h) (h_n h) in
    Ok (mkGrid (h_n h) (if xyz then 1 else 0) data)).

(* impl::translate_map_point<float, int8_t>: a float map read as a mask *)
Definition translate_mask (v : Z) : Z := if v =? 0 then 0 else 1.

(* integer words of prepare_ccp4_header_except_mode_and_stats + update_header_mode_and_stats for a grid in
   X,Y,Z order covering the cell: n, CCP4 space-group number (1 without space group), group order *)
Definition prepared_header (n : v3) (ccp4 order mode : Z) : hdr :=
  mkHdr n mode (0, 0, 0) n (1, 2, 3) ccp4 (order * 80).
Definition prepared_header_words (order : Z) : Z := 256 + order * 20.
