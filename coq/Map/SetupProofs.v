(* Proofs about setup(): the re-indexing loop is the stated permutation (property C09). *)
From Coq Require Import Lia ZifyBool.
From GV Require Import Map.GridIndex Map.GridIndexProofs Map.Arr Map.ArrProofs Map.GridOps Map.Setup.
Local Open Scope Z_scope.
(* no division equations in lia here: the contexts hold many div/mod terms over variables *)
Ltac Zify.zify_post_hook ::= idtac.

(* ---- arithmetic ---- *)
Lemma mod_window_inj : forall m s a b, m > 0 -> 0 <= a < m -> 0 <= b < m ->
  (s + a) mod m = (s + b) mod m -> a = b.
Proof.
  intros m s a b Hm Ha Hb H.
  pose proof (Z.div_mod (s + a) m ltac:(lia)) as Da.
  pose proof (Z.div_mod (s + b) m ltac:(lia)) as Db.
  rewrite H in Da.
  assert (E : a - b = m * ((s + a) / m - (s + b) / m)) by lia.
  destruct (Z.lt_trichotomy ((s + a) / m) ((s + b) / m)) as [L|[L|L]].
  - exfalso. assert (m * ((s + a) / m - (s + b) / m) <= m * (-1)) by (apply Z.mul_le_mono_nonneg_l; lia). lia.
  - rewrite L in E. lia.
  - exfalso. assert (m * 1 <= m * ((s + a) / m - (s + b) / m)) by (apply Z.mul_le_mono_nonneg_l; lia). lia.
Qed.

Lemma flat_components : forall n0 n1 n2 k, n0 > 0 -> n1 > 0 -> n2 > 0 -> 0 <= k < n0 * n1 * n2 ->
  0 <= k mod n0 < n0 /\ 0 <= (k / n0) mod n1 < n1 /\ 0 <= k / (n0 * n1) < n2.
Proof.
  intros n0 n1 n2 k H0 H1 H2 Hk. repeat split; try (apply Z.mod_pos_bound; lia).
  - apply Z.div_pos; nia.
  - apply Z.div_lt_upper_bound; nia.
Qed.

Lemma flat_inj : forall n0 n1 k k', n0 > 0 -> n1 > 0 -> 0 <= k -> 0 <= k' ->
  k mod n0 = k' mod n0 -> (k / n0) mod n1 = (k' / n0) mod n1 -> k / (n0 * n1) = k' / (n0 * n1) -> k = k'.
Proof.
  intros n0 n1 k k' H0 H1 Hk Hk' E0 E1 E2.
  rewrite <- !Z.div_div in E2 by lia.
  assert (Eq : k / n0 = k' / n0).
  { rewrite (Z.div_mod (k / n0) n1), (Z.div_mod (k' / n0) n1) by lia. rewrite E1, E2. reflexivity. }
  rewrite (Z.div_mod k n0), (Z.div_mod k' n0) by lia. rewrite E0, Eq. reflexivity.
Qed.

Lemma flat_of_crs : forall n0 n1 c r s, n0 > 0 -> n1 > 0 -> 0 <= c < n0 -> 0 <= r < n1 -> 0 <= s ->
  let k := (s * n1 + r) * n0 + c in
  k mod n0 = c /\ (k / n0) mod n1 = r /\ k / (n0 * n1) = s.
Proof.
  intros n0 n1 c r s H0 H1 Hc Hr Hs k. subst k.
  assert (A : ((s * n1 + r) * n0 + c) mod n0 = c).
  { rewrite Z.add_comm, Z.mod_add by lia. apply Z.mod_small. lia. }
  assert (B : ((s * n1 + r) * n0 + c) / n0 = s * n1 + r).
  { rewrite Z.add_comm, Z.div_add by lia. rewrite Z.div_small by lia. lia. }
  split; [exact A|]. split.
  - rewrite B. rewrite Z.add_comm, Z.mod_add by lia. apply Z.mod_small. lia.
  - rewrite <- Z.div_div by lia. rewrite B. rewrite Z.add_comm, Z.div_add by lia. rewrite Z.div_small by lia. lia.
Qed.

(* ---- the six axis orders ---- *)
Definition is_perm (pos : v3) : Prop :=
  pos = (0,1,2) \/ pos = (0,2,1) \/ pos = (1,0,2) \/ pos = (2,0,1) \/ pos = (1,2,0) \/ pos = (2,1,0).

Lemma axis_positions_perm : forall axes pos, axis_positions axes = Ok pos -> is_perm pos.
Proof.
  intros [[c r] s] pos H. unfold axis_positions in H.
  destruct ((1 <=? c) && (c <=? 3) && ((1 <=? r) && (r <=? 3)) && ((1 <=? s) && (s <=? 3)) &&
            negb (c =? r) && negb (c =? s) && negb (r =? s)) eqn:E; [|discriminate].
  assert (Hc : c = 1 \/ c = 2 \/ c = 3) by lia.
  assert (Hr : r = 1 \/ r = 2 \/ r = 3) by lia.
  assert (Hs : s = 1 \/ s = 2 \/ s = 3) by lia.
  unfold is_perm.
  destruct Hc as [Hc|[Hc|Hc]]; destruct Hr as [Hr|[Hr|Hr]]; destruct Hs as [Hs|[Hs|Hs]]; subst c r s;
    vm_compute in E; try discriminate; vm_compute in H; inversion H; tauto.
Qed.

(* every accepted MAPC/MAPR/MAPS triple is one of the six orders, and each of the six is accepted *)
Lemma axis_positions_complete : forall pos, is_perm pos -> exists axes, axis_positions axes = Ok pos.
Proof.
  intros pos [H|[H|[H|[H|[H|H]]]]]; subst pos.
  - exists (1,2,3). reflexivity.
  - exists (1,3,2). reflexivity.
  - exists (2,1,3). reflexivity.
  - exists (2,3,1). reflexivity.
  - exists (3,1,2). reflexivity.
  - exists (3,2,1). reflexivity.
Qed.

(* ---- the write loop ---- *)
Section Loop.
Variables start ext pos nn : v3.
Variable size : Z.
(* pure index function *)
Definition idxf (k : Z) : Z :=
  let '(x, y, z) := voxel_target start ext pos nn k in
  let '(nu, nv, nw) := nn in index_s nu nv nw x y z.

Definition put (a : arr) (kv : Z * Z) : arr := aset a (idxf (fst kv)) (snd kv).

Lemma write_all_fold : forall ws a,
  (forall k v, In (k, v) ws -> new_index start ext pos nn size k = Ok (idxf k)) ->
  write_all start ext pos nn size ws a = Ok (fold_left put ws a).
Proof.
  induction ws as [|[k v] t IH]; intros a H; simpl; [reflexivity|].
  rewrite (H k v) by (left; reflexivity). simpl. apply IH. intros k0 v0 Hin. apply (H k0 v0). right. exact Hin.
Qed.

Lemma fold_put_notin : forall ws a d i, 0 <= i ->
  (forall kv, In kv ws -> 0 <= idxf (fst kv)) ->
  ~ In i (map (fun kv => idxf (fst kv)) ws) -> aget (fold_left put ws a) d i = aget a d i.
Proof.
  induction ws as [|kv t IH]; intros a d i Hi Hpos Hnot; simpl; [reflexivity|].
  rewrite IH.
  - unfold put. apply aget_aset_other; auto.
    + apply Hpos. left. reflexivity.
    + intro E. apply Hnot. left. symmetry. exact E.
  - exact Hi.
  - intros. apply Hpos. right. assumption.
  - intro X. apply Hnot. right. exact X.
Qed.

Lemma fold_put_in : forall ws a d k v,
  (forall kv, In kv ws -> 0 <= idxf (fst kv)) ->
  NoDup (map (fun kv => idxf (fst kv)) ws) -> In (k, v) ws ->
  aget (fold_left put ws a) d (idxf k) = v.
Proof.
  induction ws as [|kv t IH]; intros a d k v Hpos Hnd Hin; [destruct Hin|].
  simpl in Hnd. inversion Hnd as [|x l Hx Hnd']; subst.
  simpl. destruct Hin as [E|Hin].
  - subst kv. rewrite fold_put_notin.
    + unfold put. simpl. apply aget_aset_same.
    + apply (Hpos (k, v)). left. reflexivity.
    + intros. apply Hpos. right. assumption.
    + exact Hx.
  - apply IH; auto. intros. apply Hpos. right. assumption.
Qed.
End Loop.

(* ---- the index function is injective on the stored box and stays inside the new grid ---- *)
Lemma index_s_inj_mod : forall nu nv nw x y z x' y' z', nu > 0 -> nv > 0 -> nw > 0 ->
  index_s nu nv nw x y z = index_s nu nv nw x' y' z' ->
  x mod nu = x' mod nu /\ y mod nv = y' mod nv /\ z mod nw = z' mod nw.
Proof.
  intros nu nv nw x y z x' y' z' Hnu Hnv Hnw E.
  destruct (index_s_spec nu nv nw x y z Hnu Hnv Hnw) as [I1 _].
  destruct (index_s_spec nu nv nw x' y' z' Hnu Hnv Hnw) as [I2 _].
  rewrite I1, I2 in E.
  apply index_q_inj in E; try (apply Z.mod_pos_bound; lia). exact E.
Qed.

Lemma sel_0 : forall a b c, sel (a, b, c) 0 = a. Proof. reflexivity. Qed.
Lemma sel_1 : forall a b c, sel (a, b, c) 1 = b. Proof. reflexivity. Qed.
Lemma sel_2 : forall a b c, sel (a, b, c) 2 = c. Proof. reflexivity. Qed.
#[global] Hint Rewrite sel_0 sel_1 sel_2 : selrw.

Section Inject.
Variables s0 s1 s2 n0 n1 n2 nu nv nw : Z.
Variable pos : v3.
Hypothesis Hperm : is_perm pos.
Hypothesis Hn0 : n0 > 0.
Hypothesis Hn1 : n1 > 0.
Hypothesis Hn2 : n2 > 0.
Hypothesis Hnu : nu > 0.
Hypothesis Hnv : nv > 0.
Hypothesis Hnw : nw > 0.
(* the stored extent along each of X,Y,Z does not exceed the sampling *)
Hypothesis Hwin : sel (n0, n1, n2) (sel pos 0) <= nu /\ sel (n0, n1, n2) (sel pos 1) <= nv /\
                  sel (n0, n1, n2) (sel pos 2) <= nw.

Let F := idxf (s0, s1, s2) (n0, n1, n2) pos (nu, nv, nw).

Lemma idxf_range : forall k, 0 <= F k < nu * nv * nw.
Proof.
  intros k. unfold F, idxf. destruct (voxel_target _ _ _ _ k) as [[x y] z].
  apply index_s_spec; lia.
Qed.

Lemma idxf_inj : forall k k', 0 <= k < n0 * n1 * n2 -> 0 <= k' < n0 * n1 * n2 -> F k = F k' -> k = k'.
Proof.
  intros k k' Hk Hk' E.
  destruct (flat_components n0 n1 n2 k Hn0 Hn1 Hn2 Hk) as [C [R S]].
  destruct (flat_components n0 n1 n2 k' Hn0 Hn1 Hn2 Hk') as [C' [R' S']].
  unfold F, idxf, voxel_target in E.
  destruct Hwin as [W0 [W1 W2]].
  set (c := k mod n0) in *. set (r := (k / n0) mod n1) in *. set (s := k / (n0 * n1)) in *.
  set (c' := k' mod n0) in *. set (r' := (k' / n0) mod n1) in *. set (s' := k' / (n0 * n1)) in *.
  assert (G : c = c' /\ r = r' /\ s = s').
  { destruct Hperm as [P|[P|[P|[P|[P|P]]]]]; rewrite P in E, W0, W1, W2.
    all: autorewrite with selrw in E, W0, W1, W2.
    all: apply index_s_inj_mod in E; try assumption.
    all: destruct E as [E0 [E1 E2]].
    all: apply mod_window_inj in E0; try lia.
    all: apply mod_window_inj in E1; try lia.
    all: apply mod_window_inj in E2; try lia.
    all: lia. }
  destruct G as [G0 [G1 G2]]. apply (flat_inj n0 n1 k k'); lia.
Qed.
End Inject.

(* ---- list helpers ---- *)
Lemma map_fst_combine_eq : forall (A B : Type) (l : list A) (l' : list B),
  length l = length l' -> map fst (combine l l') = l.
Proof.
  induction l as [|x t IH]; intros [|y t'] H; simpl in *; try discriminate; auto.
  f_equal. apply IH. lia.
Qed.

Lemma NoDup_map_inj_in : forall (A B : Type) (f : A -> B) (l : list A),
  (forall x y, In x l -> In y l -> f x = f y -> x = y) -> NoDup l -> NoDup (map f l).
Proof.
  induction l as [|x t IH]; intros Hinj Hnd; simpl; constructor.
  - inversion Hnd as [|x' l' Hx Ht]; subst. intro Hin. apply in_map_iff in Hin. destruct Hin as [y [Hy Hin]].
    assert (y = x) by (apply Hinj; [right; exact Hin|left; reflexivity|exact Hy]). subst y. contradiction.
  - inversion Hnd as [|x' l' Hx Ht]; subst. apply IH; auto.
    intros a b Ha Hb. apply Hinj; right; assumption.
Qed.

Lemma zseq_NoDup : forall lo n, NoDup (zseq lo n).
Proof. intros. unfold zseq. apply zseq_nat_NoDup. Qed.

Lemma in_combine_zseq : forall (data : list Z) N k d, 0 <= k < N -> length data = Z.to_nat N ->
  In (k, nth (Z.to_nat k) data d) (combine (zseq 0 N) data).
Proof.
  intros data N k d Hk Hlen.
  assert (E : (k, nth (Z.to_nat k) data d) = nth (Z.to_nat k) (combine (zseq 0 N) data) (0, d)).
  { rewrite combine_nth by (unfold zseq; rewrite zseq_nat_length; lia).
    unfold zseq. rewrite zseq_nat_nth by lia. f_equal. lia. }
  rewrite E. apply nth_In. rewrite combine_length. unfold zseq. rewrite zseq_nat_length. lia.
Qed.

(* ---- the re-indexing loop as a whole ---- *)
Section Reindex.
Variables s0 s1 s2 n0 n1 n2 nu nv nw : Z.
Variable pos : v3.
Hypothesis Hperm : is_perm pos.
Hypothesis Hn0 : n0 > 0.
Hypothesis Hn1 : n1 > 0.
Hypothesis Hn2 : n2 > 0.
Hypothesis Hnu : nu > 0.
Hypothesis Hnv : nv > 0.
Hypothesis Hnw : nw > 0.
Hypothesis Halloc : nu * nv * nw <= max_alloc.
Hypothesis Hwin : sel (n0, n1, n2) (sel pos 0) <= nu /\ sel (n0, n1, n2) (sel pos 1) <= nv /\
                  sel (n0, n1, n2) (sel pos 2) <= nw.

Let F := idxf (s0, s1, s2) (n0, n1, n2) pos (nu, nv, nw).
Let N := n0 * n1 * n2.
Let size := nu * nv * nw.

Lemma size_pos : 0 < size.
Proof. unfold size. assert (0 < nu * nv) by nia. nia. Qed.

Lemma new_index_ok : forall k,
  new_index (s0, s1, s2) (n0, n1, n2) pos (nu, nv, nw) size k = Ok (F k).
Proof.
  intros k. pose proof (idxf_range s0 s1 s2 n0 n1 n2 nu nv nw pos Hnu Hnv Hnw k) as R.
  pose proof size_pos as SP.
  unfold F in *. unfold new_index, idxf in *.
  destruct (voxel_target (s0, s1, s2) (n0, n1, n2) pos (nu, nv, nw) k) as [[x y] z].
  unfold modulo_traps.
  replace (nu =? 0) with false by lia. replace (nv =? 0) with false by lia. replace (nw =? 0) with false by lia.
  cbn [orb].
  assert (Hsz : nu * nv * nw < two64) by (unfold size, max_alloc, two64 in *; lia).
  rewrite index_s64_eq by assumption.
  unfold in_size. fold size in R.
  replace ((0 <=? index_s nu nv nw x y z) && (index_s nu nv nw x y z <? size)) with true by lia.
  reflexivity.
Qed.

Theorem reindex_spec : forall dflt data, length data = Z.to_nat N ->
  exists out, reindex (s0, s1, s2) (n0, n1, n2) pos (nu, nv, nw) dflt data = Ok out /\
    length out = Z.to_nat size /\
    (forall k, 0 <= k < N -> nth (Z.to_nat (F k)) out dflt = nth (Z.to_nat k) data dflt) /\
    (forall i, 0 <= i < size -> (forall k, 0 <= k < N -> F k <> i) -> nth (Z.to_nat i) out dflt = dflt).
Proof.
  intros dflt data Hlen. pose proof size_pos as SP.
  assert (HN : 0 < N) by (unfold N; assert (0 < n0 * n1) by nia; nia).
  unfold reindex.
  assert (Hpc : point_count (nu, nv, nw) = size).
  { unfold point_count. apply Z.mod_small. unfold size, max_alloc, two64 in *. lia. }
  rewrite Hpc. replace (size >? max_alloc) with false by (unfold size; lia).
  assert (Hlc : loop_count (n0, n1, n2) = N).
  { unfold loop_count. replace ((0 <? n0) && (0 <? n1) && (0 <? n2)) with true by lia. reflexivity. }
  rewrite Hlc. replace (N >? Z.of_nat (length data)) with false by lia.
  set (ws := combine (zseq 0 N) data).
  assert (Hlen2 : length (zseq 0 N) = length data) by (unfold zseq; rewrite zseq_nat_length; lia).
  assert (Hkeys : forall kv, In kv ws -> 0 <= fst kv < N).
  { intros [k v] Hin. apply in_combine_l in Hin. apply zseq_In in Hin. simpl. lia. }
  rewrite (write_all_fold (s0, s1, s2) (n0, n1, n2) pos (nu, nv, nw) size ws aempty)
    by (intros; apply new_index_ok).
  cbn [bind]. eexists. split; [reflexivity|].
  assert (Hpos : forall kv, In kv ws -> 0 <= idxf (s0, s1, s2) (n0, n1, n2) pos (nu, nv, nw) (fst kv)).
  { intros kv _. apply (idxf_range s0 s1 s2 n0 n1 n2 nu nv nw pos Hnu Hnv Hnw). }
  assert (Hmap : map (fun kv : Z * Z => idxf (s0, s1, s2) (n0, n1, n2) pos (nu, nv, nw) (fst kv)) ws
                 = map F (zseq 0 N)).
  { transitivity (map F (map fst ws)); [rewrite map_map; reflexivity|].
    unfold ws. rewrite (map_fst_combine_eq _ _ (zseq 0 N) data Hlen2). reflexivity. }
  split; [apply to_list_length|]. split.
  - intros k Hk.
    pose proof (idxf_range s0 s1 s2 n0 n1 n2 nu nv nw pos Hnu Hnv Hnw k) as R. fold F in R. fold size in R.
    rewrite to_list_nth by lia.
    unfold F. apply fold_put_in; auto.
    + rewrite Hmap. apply NoDup_map_inj_in; [|apply zseq_NoDup].
      intros a b Ha Hb. apply zseq_In in Ha, Hb.
      apply (idxf_inj s0 s1 s2 n0 n1 n2 nu nv nw pos); auto; fold N; lia.
    + apply in_combine_zseq; auto.
  - intros i Hi Hno. rewrite to_list_nth by lia.
    rewrite fold_put_notin; [apply aget_empty|lia|exact Hpos|].
    rewrite Hmap. intro Hin. apply in_map_iff in Hin. destruct Hin as [k [Hk Hin]].
    apply zseq_In in Hin. apply (Hno k); [lia|exact Hk].
Qed.
End Reindex.

(* ---- setup() up to the symmetry expansion ---- *)
Definition target_index (st ext pos nn : v3) (c r s : Z) : Z :=
  let it := (sel st 0 + c, sel st 1 + r, sel st 2 + s) in
  let '(nu, nv, nw) := nn in
  index_q nu nv (sel it (sel pos 0) mod nu) (sel it (sel pos 1) mod nv) (sel it (sel pos 2) mod nw).

Lemma idxf_crs : forall st n0 n1 n2 pos nu nv nw c r s, n0 > 0 -> n1 > 0 -> nu > 0 -> nv > 0 -> nw > 0 ->
  0 <= c < n0 -> 0 <= r < n1 -> 0 <= s ->
  idxf st (n0, n1, n2) pos (nu, nv, nw) ((s * n1 + r) * n0 + c) = target_index st (n0, n1, n2) pos (nu, nv, nw) c r s.
Proof.
  intros st n0 n1 n2 pos nu nv nw c r s H0 H1 Hu Hv Hw Hc Hr Hs.
  destruct (flat_of_crs n0 n1 c r s H0 H1 Hc Hr Hs) as [A [B C]].
  unfold idxf, voxel_target, target_index. rewrite A, B, C.
  apply index_s_spec; assumption.
Qed.

Theorem setup_permutation : forall h g dflt smode pos s0 s1 s2 n0 n1 n2 nu nv nw,
  g_ao g = 0 -> setup_checks h (g_n g) smode = true ->
  axis_positions (h_axes h) = Ok pos -> h_start h = (s0, s1, s2) -> g_n g = (n0, n1, n2) ->
  n0 > 0 -> n1 > 0 -> n2 > 0 ->
  fits_int (s0 + n0) = true -> fits_int (s1 + n1) = true -> fits_int (s2 + n2) = true ->
  (if smode =? 2 then (sel (n0, n1, n2) (sel pos 0), sel (n0, n1, n2) (sel pos 1), sel (n0, n1, n2) (sel pos 2))
   else h_samp h) = (nu, nv, nw) ->
  nu > 0 -> nv > 0 -> nw > 0 -> nu * nv * nw <= max_alloc ->
  sel (n0, n1, n2) (sel pos 0) <= nu /\ sel (n0, n1, n2) (sel pos 1) <= nv /\ sel (n0, n1, n2) (sel pos 2) <= nw ->
  length (g_data g) = Z.to_nat (n0 * n1 * n2) ->
  exists h' g' symm, setup_core h g dflt smode = Ok (h', g', symm) /\
    g_n g' = (nu, nv, nw) /\ h_n h' = (nu, nv, nw) /\ h_axes h' = (1, 2, 3) /\ h_samp h' = h_samp h /\
    length (g_data g') = Z.to_nat (nu * nv * nw) /\
    let st := if smode =? 2 then (0, 0, 0) else (s0, s1, s2) in
    (forall c r s, 0 <= c < n0 -> 0 <= r < n1 -> 0 <= s < n2 ->
       nth (Z.to_nat (target_index st (n0, n1, n2) pos (nu, nv, nw) c r s)) (g_data g') dflt
       = nth (Z.to_nat ((s * n1 + r) * n0 + c)) (g_data g) dflt) /\
    (forall i, 0 <= i < nu * nv * nw ->
       (forall c r s, 0 <= c < n0 -> 0 <= r < n1 -> 0 <= s < n2 -> target_index st (n0, n1, n2) pos (nu, nv, nw) c r s <> i) ->
       nth (Z.to_nat i) (g_data g') dflt = dflt).
Proof.
  intros h g dflt smode pos s0 s1 s2 n0 n1 n2 nu nv nw Hao Hchk Hpos Hst Hn H0 H1 H2 I0 I1 I2 Hnn Hu Hv Hw Hal Hwin Hlen.
  pose proof (axis_positions_perm _ _ Hpos) as Hperm.
  unfold setup_core, setup_core_gen. replace (g_ao g =? 1) with false by lia. rewrite Hchk. cbn [negb].
  rewrite Hpos. cbn [bind]. rewrite Hst, Hn. cbn [add_v3]. rewrite I0, I1, I2. cbn [andb negb].
  rewrite Hnn.
  set (st := if smode =? 2 then (0, 0, 0) else (s0, s1, s2)).
  assert (Hst3 : exists a b c, st = (a, b, c)).
  { unfold st. destruct (smode =? 2); eauto. }
  destruct Hst3 as [a [b [c Est]]]. clearbody st. subst st.
  destruct (reindex_spec a b c n0 n1 n2 nu nv nw pos Hperm H0 H1 H2 Hu Hv Hw Hal Hwin dflt (g_data g) Hlen)
    as [out [Hre [Hlo [Hin Hout]]]].
  rewrite Hre. cbn [bind]. do 3 eexists. split; [reflexivity|].
  cbn [g_n h_n h_axes h_samp g_data]. repeat split; auto.
  - intros cc rr ss Hc Hr Hs.
    rewrite <- (idxf_crs (a, b, c) n0 n1 n2 pos nu nv nw cc rr ss) by lia.
    apply Hin.
    assert (0 <= (ss * n1 + rr) * n0 + cc < n0 * n1 * n2); [|assumption].
    pose proof (index_q_range n0 n1 n2 cc rr ss Hc Hr Hs) as Q. unfold index_q in Q. exact Q.
  - intros i Hi Hno. apply Hout; [exact Hi|].
    intros k Hk E.
    destruct (flat_components n0 n1 n2 k H0 H1 H2 Hk) as [C [R S]].
    apply (Hno (k mod n0) ((k / n0) mod n1) (k / (n0 * n1)) C R S).
    rewrite <- E.
    rewrite <- (idxf_crs (a, b, c) n0 n1 n2 pos nu nv nw) by lia.
    f_equal.
    rewrite <- Z.div_div by lia.
    rewrite (Z.mul_comm (k / n0 / n1) n1). rewrite <- (Z.div_mod (k / n0) n1) by lia.
    rewrite (Z.mul_comm (k / n0) n0). rewrite <- (Z.div_mod k n0) by lia. reflexivity.
Qed.
