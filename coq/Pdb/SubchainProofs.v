(* The sub-chain names of assign_subchain_names identify the residue class: for EVERY counter value the non-polymer
   suffix can be decoded back to the counter, no suffix contains the separator 'x', hence
   (chain name, class / counter) -> name is injective. *)
From Coq Require Import Lia FinFun.
From GV Require Import Base.Str Pdb.Subchain.
Local Open Scope Z_scope.

Definition undig (c : Z) : Z := if c <? 65 then c - 48 else c - 55.
Definition val36 (l : str) : Z := fold_left (fun a c => a * 36 + undig c) l 0.

Lemma undig_b36 : forall d, 0 <= d < 36 -> undig (b36 d) = d.
Proof.
  intros d H. unfold b36, undig. destruct (d <? 10) eqn:E.
  - apply Z.ltb_lt in E. destruct (48 + d <? 65) eqn:F; [lia|apply Z.ltb_ge in F; lia].
  - apply Z.ltb_ge in E. destruct (55 + d <? 65) eqn:F; [apply Z.ltb_lt in F; lia|lia].
Qed.

Lemma b36_range : forall d, 0 <= d < 36 -> 48 <= b36 d <= 57 \/ 65 <= b36 d <= 90.
Proof. intros d H. unfold b36. destruct (d <? 10) eqn:E; [apply Z.ltb_lt in E|apply Z.ltb_ge in E]; lia. Qed.

Lemma val36_snoc : forall l c, val36 (l ++ [c]) = val36 l * 36 + undig c.
Proof. intros l c. unfold val36. rewrite fold_left_app. reflexivity. Qed.

Lemma b36_digits_app : forall f n acc, b36_digits f n acc = b36_digits f n [] ++ acc.
Proof.
  induction f as [|f IH]; intros n acc; cbn [b36_digits]; [reflexivity|].
  destruct (n =? 0); [reflexivity|].
  rewrite (IH (n / 36) (b36 (n mod 36) :: acc)), (IH (n / 36) [b36 (n mod 36)]).
  rewrite <- app_assoc. reflexivity.
Qed.

Lemma digits_val : forall f n, 0 <= n < 2 ^ Z.of_nat f -> val36 (b36_digits f n []) = n.
Proof.
  induction f as [|f IH]; intros n H.
  - cbn in H. cbn. assert (n = 0) by lia. subst. reflexivity.
  - cbn [b36_digits]. destruct (n =? 0) eqn:E; [apply Z.eqb_eq in E; subst; reflexivity|].
    apply Z.eqb_neq in E. rewrite b36_digits_app, val36_snoc.
    rewrite Nat2Z.inj_succ, Z.pow_succ_r in H by lia.
    rewrite IH.
    + rewrite undig_b36 by (apply Z.mod_pos_bound; lia). pose proof (Z.div_mod n 36). lia.
    + split; [apply Z.div_pos; lia|]. apply Z.div_lt_upper_bound; lia.
Qed.

Lemma digits_chars : forall f n acc, 0 <= n ->
  Forall (fun c => 48 <= c <= 57 \/ 65 <= c <= 90) acc ->
  Forall (fun c => 48 <= c <= 57 \/ 65 <= c <= 90) (b36_digits f n acc).
Proof.
  induction f as [|f IH]; intros n acc Hn Ha; cbn [b36_digits]; [exact Ha|].
  destruct (n =? 0); [exact Ha|]. apply IH; [apply Z.div_pos; lia|].
  constructor; [apply b36_range, Z.mod_pos_bound; lia|exact Ha].
Qed.

Lemma digits36_val : forall n, 0 <= n -> val36 (digits36 n) = n.
Proof.
  intros n H. unfold digits36. apply digits_val. split; [exact H|].
  destruct (Z.eq_dec n 0) as [->|Hne]; [cbn; lia|].
  pose proof (Z.log2_nonneg n). rewrite Nat2Z.inj_succ, Z2Nat.id by lia.
  apply Z.log2_spec. lia.
Qed.

Lemma digits36_chars : forall n, 0 <= n -> Forall (fun c => 48 <= c <= 57 \/ 65 <= c <= 90) (digits36 n).
Proof. intros n H. unfold digits36. apply digits_chars; [exact H|constructor]. Qed.

Lemma val36_cons0 : forall l, val36 (48 :: l) = val36 l.
Proof. intros l. reflexivity. Qed.

(* decoding a non-polymer suffix *)
Definition np_decode (s : str) : Z :=
  match s with
  | [] => 0
  | [c] => if c =? 48 then 10 else c - 48
  | _ => 10 + val36 s
  end.

Lemma undig_small : forall c, 48 <= c <= 57 \/ 65 <= c <= 90 -> 0 <= undig c < 36.
Proof. intros c H. unfold undig. destruct (c <? 65) eqn:E; [apply Z.ltb_lt in E|apply Z.ltb_ge in E]; lia. Qed.

Theorem np_decode_suffix : forall c, 1 <= c -> np_decode (np_suffix c) = c.
Proof.
  intros c H. unfold np_suffix. destruct (c <? 10) eqn:E.
  - apply Z.ltb_lt in E. cbn [np_decode]. destruct (48 + c =? 48) eqn:F; [apply Z.eqb_eq in F; lia|lia].
  - apply Z.ltb_ge in E. cbn zeta. set (n := c - 10). assert (Hn : 0 <= n) by lia.
    pose proof (digits36_val n Hn) as V. pose proof (digits36_chars n Hn) as C.
    destruct (n <? 36) eqn:F.
    + apply Z.ltb_lt in F. cbn [app]. destruct (digits36 n) as [|d t] eqn:D.
      * cbn in V. cbn. lia.
      * cbn [np_decode]. rewrite val36_cons0. lia.
    + apply Z.ltb_ge in F. cbn [app]. destruct (digits36 n) as [|d [|d2 t]] eqn:D.
      * cbn in V. lia.
      * exfalso. unfold val36 in V. cbn in V. inversion C as [|? ? Hd _]; subst.
        pose proof (undig_small d Hd). lia.
      * cbn [np_decode]. lia.
Qed.

Theorem np_suffix_injective : forall c1 c2, 1 <= c1 -> 1 <= c2 -> np_suffix c1 = np_suffix c2 -> c1 = c2.
Proof. intros c1 c2 H1 H2 E. rewrite <- (np_decode_suffix c1 H1), <- (np_decode_suffix c2 H2), E. reflexivity. Qed.

(* the characters of a non-polymer suffix are digits and capitals: never the separator, never p / w / b *)
Lemma np_suffix_chars : forall c, 1 <= c -> Forall (fun ch => 48 <= ch <= 57 \/ 65 <= ch <= 90) (np_suffix c).
Proof.
  intros c H. unfold np_suffix. destruct (c <? 10) eqn:E.
  - apply Z.ltb_lt in E. constructor; [lia|constructor].
  - apply Z.ltb_ge in E. cbn zeta. apply Forall_app. split.
    + destruct (c - 10 <? 36); [constructor; [lia|constructor]|constructor].
    + apply digits36_chars. lia.
Qed.

Lemma np_suffix_nonempty : forall c, 1 <= c -> np_suffix c <> [].
Proof.
  intros c H E. pose proof (np_decode_suffix c H) as D. rewrite E in D. cbn in D. lia.
Qed.

(* ---------- name = chain ++ "x" ++ suffix is injective when suffixes do not contain 'x' ---------- *)
Lemma split_at_first : forall (x : Z) s1 s2 a b, ~ In x s1 -> ~ In x s2 ->
  s1 ++ x :: a = s2 ++ x :: b -> s1 = s2 /\ a = b.
Proof.
  intros x. induction s1 as [|c s1 IH]; intros [|d s2] a b H1 H2 E; cbn [app] in E.
  - injection E as E. split; [reflexivity|exact E].
  - injection E as E1 E2. exfalso. apply H2. left. symmetry. exact E1.
  - injection E as E1 E2. exfalso. apply H1. left. exact E1.
  - injection E as E1 E2. subst d.
    destruct (IH s2 a b) as [A B]; [intro; apply H1; right; assumption|intro; apply H2; right; assumption|exact E2|].
    subst. split; reflexivity.
Qed.

Theorem name_split_unique : forall n1 n2 s1 s2, ~ In 120 s1 -> ~ In 120 s2 ->
  n1 ++ 120 :: s1 = n2 ++ 120 :: s2 -> n1 = n2 /\ s1 = s2.
Proof.
  intros n1 n2 s1 s2 H1 H2 E. apply (f_equal (@rev Z)) in E.
  rewrite !rev_app_distr in E. cbn [rev] in E. rewrite <- !app_assoc in E. cbn [app] in E.
  destruct (split_at_first 120 (rev s1) (rev s2) (rev n1) (rev n2)) as [A B].
  - intro H. apply H1. apply in_rev. exact H.
  - intro H. apply H2. apply in_rev. exact H.
  - exact E.
  - apply (f_equal (@rev Z)) in A, B. rewrite !rev_involutive in A, B. split; assumption.
Qed.

(* the class of a residue as its sub-chain name shows it *)
Inductive rclass := CUnknown | CPolymer | CBranched | CWater | CNonPolymer (k : Z).
Definition class_suffix (c : rclass) : str :=
  match c with
  | CUnknown => [] | CPolymer => [112] | CBranched => [98] | CWater => [119] | CNonPolymer k => np_suffix k
  end.
Definition class_ok (c : rclass) : Prop := match c with CNonPolymer k => 1 <= k | _ => True end.

Lemma class_suffix_no_x : forall c, class_ok c -> ~ In 120 (class_suffix c).
Proof.
  intros c H Hin. destruct c as [| | | |k]; cbn in Hin; try (intuition discriminate).
  pose proof (np_suffix_chars k H) as F. rewrite Forall_forall in F. specialize (F 120 Hin). lia.
Qed.

Lemma class_suffix_injective : forall c1 c2, class_ok c1 -> class_ok c2 -> class_suffix c1 = class_suffix c2 -> c1 = c2.
Proof.
  intros c1 c2 H1 H2 E.
  assert (NP : forall k s, 1 <= k -> np_suffix k = s -> s <> [] /\ Forall (fun ch => 48 <= ch <= 57 \/ 65 <= ch <= 90) s).
  { intros k s Hk <-. split; [apply np_suffix_nonempty; exact Hk|apply np_suffix_chars; exact Hk]. }
  destruct c1 as [| | | |k1], c2 as [| | | |k2]; cbn in E; try reflexivity; try discriminate;
    try (destruct (NP _ _ H1 E) as [A B]; try congruence; inversion B; subst; lia);
    try (symmetry in E; destruct (NP _ _ H2 E) as [A B]; try congruence; inversion B; subst; lia).
  f_equal. apply np_suffix_injective; assumption.
Qed.

(* THE NAME IDENTIFIES CHAIN AND CLASS, for every chain name (also names containing 'x') and every counter *)
Theorem subchain_name_injective : forall n1 n2 c1 c2, class_ok c1 -> class_ok c2 ->
  n1 ++ 120 :: class_suffix c1 = n2 ++ 120 :: class_suffix c2 -> n1 = n2 /\ c1 = c2.
Proof.
  intros n1 n2 c1 c2 H1 H2 E.
  destruct (name_split_unique _ _ _ _ (class_suffix_no_x c1 H1) (class_suffix_no_x c2 H2) E) as [A B].
  split; [exact A|apply class_suffix_injective; assumption].
Qed.

(* ---------- along a chain and over a whole model ---------- *)
Definition res_class (t : etype) (counter : Z) : rclass * Z :=
  match t with
  | Polymer => (CPolymer, counter)
  | NonPolymer => (CNonPolymer (counter + 1), counter + 1)
  | Water => (CWater, counter)
  | Branched => (CBranched, counter)
  | Unknown => (CUnknown, counter)
  end.
Fixpoint chain_classes (types : list etype) (counter : Z) : list rclass * Z :=
  match types with
  | [] => ([], counter)
  | t :: u => let '(c, c1) := res_class t counter in
              let '(l, c2) := chain_classes u c1 in (c :: l, c2)
  end.

Lemma chain_names_classes : forall name types c,
  chain_names name types c =
  (map (fun cl => name ++ 120 :: class_suffix cl) (fst (chain_classes types c)), snd (chain_classes types c)).
Proof.
  intros name types. induction types as [|t u IH]; intros c; cbn [chain_names chain_classes]; [reflexivity|].
  destruct t; cbn [res_suffix res_class]; rewrite IH; destruct (chain_classes u _) as [l c2]; reflexivity.
Qed.

(* non-polymer counters issued along a chain: above the start, at most the end, strictly increasing *)
Fixpoint increasing_from (lo : Z) (l : list rclass) : Prop :=
  match l with
  | [] => True
  | CNonPolymer k :: t => lo < k /\ increasing_from k t
  | _ :: t => increasing_from lo t
  end.

Lemma chain_classes_spec : forall types c, 0 <= c ->
  c <= snd (chain_classes types c) /\ increasing_from c (fst (chain_classes types c)) /\
  (forall k, In (CNonPolymer k) (fst (chain_classes types c)) -> c < k <= snd (chain_classes types c)) /\
  Forall class_ok (fst (chain_classes types c)).
Proof.
  induction types as [|t u IH]; intros c Hc; cbn [chain_classes].
  - cbn. repeat split; try lia; try constructor.
  - assert (Same : forall cl, class_ok cl -> (forall k, cl <> CNonPolymer k) ->
              let r := (let '(l, c2) := chain_classes u c in (cl :: l, c2)) in
              c <= snd r /\ increasing_from c (fst r) /\
              (forall k, In (CNonPolymer k) (fst r) -> c < k <= snd r) /\ Forall class_ok (fst r)).
    { intros cl Ok Nn. destruct (IH c Hc) as [A [B [C D]]]. destruct (chain_classes u c) as [l c2]. cbn [fst snd] in *.
      split; [exact A|]. split; [destruct cl; try exact B; exfalso; eapply Nn; reflexivity|].
      split; [intros k [X|X]; [exfalso; eapply Nn; exact X|apply C; exact X]|constructor; assumption]. }
    destruct t; cbn [res_class]; try (apply Same; [exact I|intros k; discriminate]).
    assert (Hc1 : 0 <= c + 1) by lia.
    destruct (IH (c + 1) Hc1) as [A [B [C D]]]. destruct (chain_classes u (c + 1)) as [l c2]. cbn [fst snd] in *.
    split; [lia|]. split; [cbn [increasing_from]; split; [lia|exact B]|].
    split; [intros k [X|X]; [injection X as <-; lia|specialize (C k X); lia]|].
    constructor; [cbn; lia|exact D].
Qed.

Lemma increasing_nodup : forall l lo, increasing_from lo l ->
  NoDup (filter (fun c => match c with CNonPolymer _ => true | _ => false end) l) /\
  forall k, In (CNonPolymer k) l -> lo < k.
Proof.
  induction l as [|c t IH]; intros lo H; cbn [filter].
  - split; [constructor|intros k []].
  - destruct c as [| | | |k0]; cbn [increasing_from] in H;
      try (destruct (IH lo H) as [A B]; split; [exact A|intros k [X|X]; [discriminate|apply B; exact X]]).
    destruct H as [H0 H1]. destruct (IH k0 H1) as [A B]. split.
    + constructor; [|exact A]. intro Hin. apply filter_In in Hin. destruct Hin as [Hin _]. specialize (B k0 Hin). lia.
    + intros k [X|X]; [injection X as <-; lia|specialize (B k X); lia].
Qed.

(* within one chain every non-polymer residue gets a name of its own, for any number of residues *)
Theorem chain_nonpolymer_names_distinct : forall name types c, 0 <= c ->
  NoDup (map (fun cl => name ++ 120 :: class_suffix cl)
             (filter (fun cl => match cl with CNonPolymer _ => true | _ => false end) (fst (chain_classes types c)))).
Proof.
  intros name types c Hc.
  destruct (chain_classes_spec types c Hc) as [A [B [C D]]].
  destruct (increasing_nodup _ _ B) as [N _].
  set (l := filter _ _) in *.
  assert (Ok : Forall class_ok l).
  { apply Forall_forall. intros x Hx. apply filter_In in Hx. destruct Hx as [Hx _].
    rewrite Forall_forall in D. apply D. exact Hx. }
  clearbody l. induction l as [|x t IH]; cbn [map]; [constructor|].
  inversion N; subst. inversion Ok; subst. constructor; [|apply IH; assumption].
  intro Hin. apply in_map_iff in Hin. destruct Hin as [y [E Hy]].
  assert (Oy : class_ok y) by (rewrite Forall_forall in H4; apply H4; exact Hy).
  destruct (subchain_name_injective _ _ _ _ Oy H3 E) as [_ ->]. contradiction.
Qed.

(* ---------- the whole model: chains with the same name share one counter ---------- *)
Lemma str_eqb_iff_ : forall a b, str_eqb a b = true <-> a = b.
Proof.
  induction a as [|x a IH]; intros [|y b]; cbn [str_eqb]; split; intro H; try reflexivity; try discriminate.
  - apply andb_prop in H. destruct H as [H1 H2]. apply Z.eqb_eq in H1. apply IH in H2. congruence.
  - injection H as -> ->. rewrite Z.eqb_refl. cbn. apply IH. reflexivity.
Qed.

Lemma get_set_same : forall m k v, get_counter (set_counter m k v) k = v.
Proof.
  induction m as [|[k' v'] t IH]; intros k v; cbn [set_counter get_counter].
  - assert (E : str_eqb k k = true) by (apply str_eqb_iff_; reflexivity). rewrite E. reflexivity.
  - destruct (str_eqb k' k) eqn:E; cbn [get_counter].
    + assert (E2 : str_eqb k k = true) by (apply str_eqb_iff_; reflexivity). rewrite E2. reflexivity.
    + rewrite E. apply IH.
Qed.

Lemma get_set_other : forall m k v k2, k2 <> k -> get_counter (set_counter m k v) k2 = get_counter m k2.
Proof.
  induction m as [|[k' v'] t IH]; intros k v k2 H; cbn [set_counter get_counter].
  - destruct (str_eqb k k2) eqn:E; [apply str_eqb_iff_ in E; congruence|reflexivity].
  - destruct (str_eqb k' k) eqn:E; cbn [get_counter].
    + apply str_eqb_iff_ in E. subst k'. destruct (str_eqb k k2) eqn:E2; [apply str_eqb_iff_ in E2; congruence|reflexivity].
    + destruct (str_eqb k' k2); [reflexivity|apply IH; exact H].
Qed.

Fixpoint model_classes (chains : list (str * list etype)) (m : list (str * Z)) : list (str * rclass) :=
  match chains with
  | [] => []
  | (name, types) :: rest =>
    if all_known types then
      let '(l, c) := chain_classes types (get_counter m name) in
      map (fun cl => (name, cl)) l ++ model_classes rest (set_counter m name c)
    else model_classes rest m
  end.

Definition flat_names (l : list (option (list str))) : list str :=
  flat_map (fun o => match o with Some x => x | None => [] end) l.
Definition pair_name (p : str * rclass) : str := fst p ++ 120 :: class_suffix (snd p).

Lemma model_names_classes : forall chains m, flat_names (model_names chains m) = map pair_name (model_classes chains m).
Proof.
  induction chains as [|[name types] rest IH]; intros m; cbn [model_names model_classes]; [reflexivity|].
  destruct (all_known types).
  - rewrite chain_names_classes. destruct (chain_classes types (get_counter m name)) as [l c]. cbn [fst snd].
    unfold flat_names. cbn [flat_map]. fold (flat_names (model_names rest (set_counter m name c))).
    rewrite IH, map_app, map_map. reflexivity.
  - unfold flat_names. cbn [flat_map]. apply IH.
Qed.

Definition is_np_pair (p : str * rclass) : bool := match snd p with CNonPolymer _ => true | _ => false end.

Lemma NoDup_app_intro : forall (A : Type) (a b : list A), NoDup a -> NoDup b ->
  (forall x, In x a -> ~ In x b) -> NoDup (a ++ b).
Proof.
  intros A a. induction a as [|x t IH]; intros b Ha Hb D; cbn [app]; [exact Hb|].
  inversion Ha; subst. constructor.
  - intro H. apply in_app_or in H. destruct H as [H|H]; [contradiction|]. apply (D x); [left; reflexivity|exact H].
  - apply IH; [assumption|exact Hb|]. intros y Hy. apply D. right. exact Hy.
Qed.

Lemma model_classes_spec : forall chains m, (forall n, 0 <= get_counter m n) ->
  NoDup (filter is_np_pair (model_classes chains m)) /\
  (forall n k, In (n, CNonPolymer k) (model_classes chains m) -> get_counter m n < k) /\
  Forall (fun p => class_ok (snd p)) (model_classes chains m).
Proof.
  induction chains as [|[name types] rest IH]; intros m Hm; cbn [model_classes].
  - cbn. split; [constructor|]. split; [intros n k []|constructor].
  - destruct (all_known types); [|apply IH; exact Hm].
    pose proof (chain_classes_spec types (get_counter m name) (Hm name)) as [A [B [C D]]].
    destruct (chain_classes types (get_counter m name)) as [l c] eqn:E. cbn [fst snd] in *.
    assert (Hm' : forall n, 0 <= get_counter (set_counter m name c) n).
    { intros n. destruct (list_eq_dec Z.eq_dec n name) as [->|Hn]; [rewrite get_set_same; specialize (Hm name); lia|].
      rewrite get_set_other by exact Hn. apply Hm. }
    destruct (IH (set_counter m name c) Hm') as [N [G F]].
    split; [|split].
    + rewrite filter_app. apply NoDup_app_intro.
      * destruct (increasing_nodup _ _ B) as [Nl _].
        assert (Ef : filter is_np_pair (map (fun cl => (name, cl)) l) =
                     map (fun cl => (name, cl)) (filter (fun c0 => match c0 with CNonPolymer _ => true | _ => false end) l)).
        { clear. induction l as [|x t IHl]; cbn; [reflexivity|]. unfold is_np_pair at 1. cbn [snd].
          destruct x; cbn [map]; rewrite IHl; reflexivity. }
        rewrite Ef. apply FinFun.Injective_map_NoDup; [|exact Nl]. intros x y Hxy. congruence.
      * exact N.
      * intros [n cl] H1 H2. apply filter_In in H1, H2. destruct H1 as [H1 P1], H2 as [H2 _].
        apply in_map_iff in H1. destruct H1 as [cl' [Ecl Hcl]]. injection Ecl as <- <-.
        unfold is_np_pair in P1. cbn [snd] in P1. destruct cl' as [| | | |k]; try discriminate.
        specialize (C k Hcl). specialize (G name k H2). rewrite get_set_same in G. lia.
    + intros n k H. apply in_app_or in H. destruct H as [H|H].
      * apply in_map_iff in H. destruct H as [cl [Ecl Hcl]]. injection Ecl as <- ->. specialize (C k Hcl). lia.
      * specialize (G n k H). destruct (list_eq_dec Z.eq_dec n name) as [->|Hn].
        -- rewrite get_set_same in G. lia.
        -- rewrite get_set_other in G by exact Hn. exact G.
    + apply Forall_app. split; [|exact F]. apply Forall_forall. intros p Hp. apply in_map_iff in Hp.
      destruct Hp as [cl [<- Hcl]]. cbn [snd]. rewrite Forall_forall in D. apply D. exact Hcl.
Qed.

(* EVERY non-polymer residue of a model gets a sub-chain name that no other residue of the model has - whatever the
   number of chains and residues, also when several chains have the same name or names contain 'x' *)
Theorem model_nonpolymer_names_distinct : forall chains,
  NoDup (map pair_name (filter is_np_pair (model_classes chains []))).
Proof.
  intros chains.
  destruct (model_classes_spec chains []) as [N [_ F]]; [intros n; cbn; lia|].
  assert (Ok : Forall (fun p => class_ok (snd p)) (filter is_np_pair (model_classes chains []))).
  { apply Forall_forall. intros p Hp. apply filter_In in Hp. rewrite Forall_forall in F. apply F. apply Hp. }
  set (l := filter is_np_pair (model_classes chains [])) in *. clearbody l.
  induction l as [|x t IH]; cbn [map]; [constructor|].
  inversion N; subst. inversion Ok; subst. constructor; [|apply IH; assumption].
  intro Hin. apply in_map_iff in Hin. destruct Hin as [y [E Hy]].
  assert (Oy : class_ok (snd y)) by (rewrite Forall_forall in H4; apply H4; exact Hy).
  destruct x as [n1 c1], y as [n2 c2]. unfold pair_name in E. cbn [fst snd] in *.
  destruct (subchain_name_injective _ _ _ _ Oy H3 E) as [-> ->]. contradiction.
Qed.

(* and a non-polymer name never coincides with a polymer / water / branched name of any chain *)
Theorem nonpolymer_name_not_shared : forall n1 n2 k c, 1 <= k -> class_ok c ->
  n1 ++ 120 :: np_suffix k = n2 ++ 120 :: class_suffix c -> n1 = n2 /\ c = CNonPolymer k.
Proof.
  intros n1 n2 k c Hk Hc E.
  destruct (subchain_name_injective n1 n2 (CNonPolymer k) c Hk Hc E) as [A B]. split; [exact A|symmetry; exact B].
Qed.

(* non-vacuity: 50 non-polymer residues in a chain named "Ax": 1..9, 0, 01..0Z, 10, 11, 12, 13, 14 *)
Example np_suffix_values :
  map np_suffix [1; 9; 10; 11; 45; 46; 47; 1305; 1306] =
  [[49]; [57]; [48]; [48; 49]; [48; 90]; [49; 48]; [49; 49]; [90; 90]; [49; 48; 48]].
Proof. vm_compute. reflexivity. Qed.
