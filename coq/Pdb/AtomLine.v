(* The text fields of an ATOM / HETATM record: the 80 columns written by write_chain_atoms (src/to_pdb.cpp) and the
   fields read back from them by read_pdb_from_stream (src/pdb.cpp).  The four numeric fields (x y z, occupancy, B) are
   carried as opaque byte strings of their column widths (their digits are property C12's business).  *)
From Coq Require Import Lia.
From GV Require Import Base.Str Pdb.Hy36.
Local Open Scope Z_scope.

Record atext := mkAt {
  t_het : bool;            (* HETATM instead of ATOM *)
  t_serial : Z;
  t_name : str;            (* atom name *)
  t_el : str;              (* Element::uname(): one or two capitals *)
  t_ish : bool;            (* element is H or D *)
  t_altloc : Z;            (* 0 = none *)
  t_resname : str;
  t_chain : str;
  t_seqnum : Z;
  t_icode : Z;
  t_segment : str;
  t_charge : Z }.

Definition alpha_up (c : Z) : Z := Z.land c 223.     (* c & ~0x20 *)

(* Atom::padded_name *)
Definition padded_name (t : atext) : str :=
  let n0 := match t_name t with c :: _ => c | [] => 0 end in
  match t_el t with
  | [e] => if ((e =? alpha_up n0) || (t_ish t && (alpha_up n0 =? 72))) && (length (t_name t) <? 4)%nat
           then 32 :: t_name t else t_name t
  | _ => t_name t
  end.

(* "%-W.Ws": truncate to w, pad on the right *)
Definition ljust_trunc (w : nat) (s : str) : str := let s' := firstn w s in s' ++ repeat 32 (w - length s').
(* "%W.Ws": truncate to w, pad on the left *)
Definition rjust_trunc (w : nat) (s : str) : str := rjust w (firstn w s).

Definition REC_ATOM : str := [65;84;79;77;32;32].
Definition REC_HETATM : str := [72;69;84;65;84;77].

(* the pieces of the line, in order; xyz / occ / b are the numeric texts (24, 6, 6 bytes) *)
Definition atom_head (t : atext) (xyz occ b : str) : list str :=
  [ (if t_het t then REC_HETATM else REC_ATOM);
    field5 (encode_serial (t_serial t));
    [32];
    ljust_trunc 4 (padded_name t);
    [write_altloc (t_altloc t)];
    rjust_trunc 3 (t_resname t);
    rjust 2 (t_chain t);
    field5 (write_seq_id (t_seqnum t) (t_icode t));
    [32; 32; 32];
    xyz; occ; b;
    [32; 32; 32; 32; 32; 32];
    ljust_trunc 4 (t_segment t);
    rjust 2 (t_el t) ].
(* columns 1-78, then the two charge columns *)
Definition atom_pieces (t : atext) (xyz occ b : str) : list str :=
  atom_head t xyz occ b ++ [[fst (write_charge (t_charge t)); snd (write_charge (t_charge t))]].

Definition atom_line (t : atext) (xyz occ b : str) : str := concat (atom_pieces t xyz occ b).

(* ---- the reader: fields taken from the record buffer `buf` (the line, its terminator and whatever follows) ---- *)
Definition is_alpha (c : Z) : bool := ((65 <=? c) && (c <=? 90)) || ((97 <=? c) && (c <=? 122)).

Record aread := mkRd {
  r_het : bool; r_serial : Z; r_name : str; r_altloc : Z; r_resname : str; r_chain : str;
  r_seq : option Z * Z; r_segment : str;
  r_elem : option (Z * Z);       (* the two element columns when they are used, None = inferred from the name *)
  r_charge : option Z;           (* None = "Wrong format for charge" *)
  r_xyz : str; r_occ : str; r_b : str }.

Definition at_ (k : nat) (buf : str) : str := skipn k buf.
Definition chn (k : nat) (buf : str) : Z := cur (at_ k buf).

Definition read_atom (buf : str) (len : nat) : aread :=
  mkRd (Z.land (chn 0 buf) 223 =? 72)
       (read_serial (at_ 6 buf))
       (read_string 4 (at_ 12 buf))
       (read_altloc (chn 16 buf))
       (read_string 3 (at_ 17 buf))
       (read_string 2 (at_ 20 buf))
       (read_seq_id (at_ 22 buf))
       (if (72 <? len)%nat then read_string 4 (at_ 72 buf) else [])
       (if (76 <? len)%nat && (is_alpha (chn 76 buf) || is_alpha (chn 77 buf)) then Some (chn 76 buf, chn 77 buf) else None)
       (if (78 <? len)%nat then read_charge (chn 78 buf) (chn 79 buf) else Some 0)
       (firstn 24 (at_ 30 buf)) (firstn 6 (at_ 54 buf)) (firstn 6 (at_ 60 buf)).
